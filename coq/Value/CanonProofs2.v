(* Spec-level theorems about the canonical form (C18 [T1]), part 2: the layout stage.
     enc_ok_nocap     a value with a capability has no canonical form
     cparse_enc_*     the strict sequential decoder inverts the layout *)
From CV Require Import Value.ValueEq Value.ValueEqProofs Value.CanonSpec Value.CanonProofs Value.PackProofs.
From Coq Require Import ZifyBool ZifyNat.
Ltac Zify.zify_post_hook ::= Z.div_mod_to_equations.
Open Scope Z_scope.

(* ------------------------------------------------------------------ capabilities *)
Lemma enc_cells_ok : forall ev cs pos cur r, enc_cells ev cs pos cur = COk r ->
  forall v, In (CP v) cs -> exists p c r', ev v p c = COk r'.
Proof.
  induction cs as [|c cs IH]; intros pos cur r H v Hin; [destruct Hin|].
  destruct c as [w|v0]; cbn [enc_cells] in H.
  - destruct (enc_cells ev cs (pos + 1) cur) as [bk| | |] eqn:E; try discriminate.
    destruct Hin as [Hin|Hin]; [discriminate|]. eapply IH; eauto.
  - destruct (ev v0 pos cur) as [wb| | |] eqn:E0; try discriminate. cbn [cbind] in H.
    destruct (enc_cells ev cs (pos + 1) (cur + zlen (snd wb))) as [bk| | |] eqn:E; try discriminate.
    destruct Hin as [Hin|Hin].
    + inversion Hin; subst. eauto.
    + eapply IH; eauto.
Qed.

Lemma in_struct_cells : forall v d ps, In (CP v) (struct_cells d ps) -> In v ps.
Proof.
  intros v d ps H. unfold struct_cells in H. apply in_app_or in H. destruct H as [H|H].
  - apply in_map_iff in H. destruct H as [x [Hx _]]. discriminate.
  - apply in_map_iff in H. destruct H as [x [Hx Hin]]. inversion Hx; subst. exact Hin.
Qed.

Lemma existsb_false : forall {A} (f : A -> bool) l, (forall x, In x l -> f x = false) -> existsb f l = false.
Proof.
  induction l as [|x r IH]; intros H; [reflexivity|]. cbn.
  rewrite (H x (or_introl eq_refl)). cbn. apply IH. intros y Hy. apply H. right. exact Hy.
Qed.

Theorem enc_ok_nocap : forall f v pos cur r, enc f v pos cur = COk r -> has_cap v = false.
Proof.
  induction f as [|f IH]; intros v pos cur r H; [discriminate|].
  destruct v as [|c|d ps|k es|bs]; cbn [enc] in H; try reflexivity; try discriminate.
  - (* struct *)
    cbn [has_cap]. apply existsb_false. intros p Hp.
    destruct ((zlen d =? 0) && (zlen ps =? 0)) eqn:E0.
    + apply andb_prop in E0. destruct E0 as [_ E0]. destruct ps; [destruct Hp|].
      unfold zlen in E0. cbn [length] in E0. lia.
    + destruct ((zlen d >=? two16) || (zlen ps >=? two16) || (cur - pos - 1 >=? two29)); [discriminate|].
      destruct (enc_cells (enc f) (struct_cells d ps) cur (cur + zlen d + zlen ps)) as [bk| | |] eqn:E; try discriminate.
      destruct (enc_cells_ok _ _ _ _ _ E p) as [p0 [c0 [r0 Hr]]].
      * unfold struct_cells. apply in_or_app. right. apply in_map. exact Hp.
      * eapply IH; eauto.
  - (* lists *)
    destruct ((zlen es >=? two29) || (cur - pos - 1 >=? two29)); [discriminate|].
    destruct k; try reflexivity.
    + (* pointer list *)
      cbn [has_cap]. apply existsb_false. intros e He.
      destruct (enc_cells (enc f) (map (fun e => CP (hd_ptr (sptrs e))) es) cur (cur + zlen es)) as [bk| | |] eqn:E;
        try discriminate.
      destruct e as [| |d0 [|p ps0]| |]; try reflexivity.
      destruct (enc_cells_ok _ _ _ _ _ E p) as [p0 [c0 [r0 Hr]]].
      * apply in_map_iff. exists (VStruct d0 (p :: ps0)). split; [reflexivity| exact He].
      * eapply IH; eauto.
    + (* struct list *)
      cbn [has_cap]. apply existsb_false. intros e He.
      set (dn := Z.of_nat (max_len sdata es)) in *. set (pn := Z.of_nat (max_len sptrs es)) in *.
      destruct ((dn >=? two16) || (pn >=? two16) || (zlen es * (dn + pn) >=? two29)); [discriminate|].
      match type of H with cbind (enc_cells _ ?cs _ _) _ = _ =>
        destruct (enc_cells (enc f) cs cur (cur + 1 + zlen es * (dn + pn))) as [bk| | |] eqn:E; try discriminate end.
      destruct e as [| |d0 ps0| |]; try reflexivity.
      apply existsb_false. intros p Hp.
      destruct (enc_cells_ok _ _ _ _ _ E p) as [p0 [c0 [r0 Hr]]].
      * right. apply in_flat_map. exists (VStruct d0 ps0). split; [exact He|].
        unfold struct_cells. apply in_or_app. right. apply in_map. cbn [sptrs]. unfold padN.
        apply in_or_app. left. exact Hp.
      * eapply IH; eauto.
Qed.

(* a struct that (after truncation) still contains a capability is rejected *)
Theorem canon_cap_none : forall v, has_cap (norm v) = true -> canon v = None.
Proof.
  intros v Hc. unfold canon, canon_words.
  destruct (enc (S (vdepth (norm v))) (norm v) 0 1) as [wb| | |] eqn:E; try reflexivity.
  apply enc_ok_nocap in E. rewrite E in Hc. discriminate.
Qed.

Example canon_cap_witness :
  canon (VStruct [7] [VNull; VList LPtr [VStruct [] [VCap (mkCap 0 0 true 1)]]]) = None.
Proof. vm_compute. reflexivity. Qed.

(* ------------------------------------------------------------------ decoder inverts layout *)
Definition shape_of (cs : list cell) : list shape :=
  map (fun c => match c with CW _ => SW | CP _ => SP end) cs.

Lemma zlen_app : forall {A} (a b : list A), zlen (a ++ b) = zlen a + zlen b.
Proof. intros. unfold zlen. rewrite app_length. lia. Qed.

(* the generic step: a block of cells followed by the children, in pointer order *)
Lemma parse_enc_cells : forall ev pv cs pos cur b k rest,
  enc_cells ev cs pos cur = COk (b, k) ->
  (forall v p c w body rest', In (CP v) cs -> ev v p c = COk (w, body) ->
                              pv w p c (body ++ rest') = Some (v, rest')) ->
  parse_cells pv (shape_of cs) b pos cur (k ++ rest) = Some (cs, rest).
Proof.
  induction cs as [|c cs IH]; intros pos cur b k rest H Hpv.
  - cbn in H. inversion H; subst. reflexivity.
  - destruct c as [w|v]; cbn [enc_cells] in H.
    + destruct (enc_cells ev cs (pos + 1) cur) as [[b' k']| | |] eqn:E; try discriminate.
      cbn in H. inversion H; subst. cbn [shape_of map parse_cells].
      fold (shape_of cs). rewrite (IH _ _ _ _ rest E); [reflexivity|].
      intros. eapply Hpv; eauto. right. assumption.
    + destruct (ev v pos cur) as [[w0 body]| | |] eqn:E0; try discriminate. cbn [cbind fst snd] in H.
      destruct (enc_cells ev cs (pos + 1) (cur + zlen body)) as [[b' k']| | |] eqn:E; try discriminate.
      cbn in H. inversion H; subst. cbn [shape_of map parse_cells]. fold (shape_of cs).
      rewrite <- app_assoc. rewrite (Hpv v pos cur w0 body (k' ++ rest) (or_introl eq_refl) E0).
      replace (cur + (zlen (body ++ k' ++ rest) - zlen (k' ++ rest))) with (cur + zlen body)
        by (rewrite (zlen_app body); lia).
      rewrite (IH _ _ _ _ rest E); [reflexivity|].
      intros. eapply Hpv; eauto. right. assumption.
Qed.

Lemma enc_cells_length : forall ev cs pos cur b k, enc_cells ev cs pos cur = COk (b, k) -> length b = length cs.
Proof.
  induction cs as [|c cs IH]; intros pos cur b k H.
  - cbn in H. inversion H. reflexivity.
  - destruct c as [w|v]; cbn [enc_cells] in H.
    + destruct (enc_cells ev cs (pos + 1) cur) as [[b' k']| | |] eqn:E; try discriminate.
      cbn in H. inversion H; subst. cbn. f_equal. eapply IH; eauto.
    + destruct (ev v pos cur) as [[w0 body]| | |] eqn:E0; try discriminate. cbn [cbind fst snd] in H.
      destruct (enc_cells ev cs (pos + 1) (cur + zlen body)) as [[b' k']| | |] eqn:E; try discriminate.
      cbn in H. inversion H; subst. cbn. f_equal. eapply IH; eauto.
Qed.

Lemma take_app : forall n (b r : list Z), zlen b = n -> take n (b ++ r) = Some (b, r).
Proof.
  intros n b r H. unfold take. rewrite zlen_app.
  assert (0 <= zlen r) by (unfold zlen; lia). assert (0 <= zlen b) by (unfold zlen; lia).
  destruct ((0 <=? n) && (n <=? zlen b + zlen r)) eqn:E; [|lia].
  assert (Hn : Z.to_nat n = length b) by (unfold zlen in H; lia).
  rewrite Hn, firstn_app, Nat.sub_diag, firstn_all, skipn_app, Nat.sub_diag, skipn_all. cbn.
  rewrite app_nil_r. reflexivity.
Qed.

Lemma shape_struct_cells : forall d ps,
  shape_of (struct_cells d ps) = repeat SW (length d) ++ repeat SP (length ps).
Proof.
  intros. unfold shape_of, struct_cells. rewrite map_app, !map_map. f_equal.
  - induction d; cbn; [reflexivity| rewrite IHd; reflexivity].
  - induction ps; cbn; [reflexivity| rewrite IHps; reflexivity].
Qed.

Lemma cell_words_struct : forall d ps, cell_words (struct_cells d ps) = d.
Proof.
  intros. unfold cell_words, struct_cells. rewrite flat_map_app.
  replace (flat_map _ (map CP ps)) with (@nil Z) by (induction ps; cbn; auto).
  rewrite app_nil_r. induction d; cbn; [reflexivity| rewrite IHd; reflexivity].
Qed.

Lemma cell_vals_struct : forall d ps, cell_vals (struct_cells d ps) = ps.
Proof.
  intros. unfold cell_vals, struct_cells. rewrite flat_map_app.
  replace (flat_map _ (map CW d)) with (@nil value) by (induction d; cbn; auto).
  cbn. induction ps; cbn; [reflexivity| rewrite IHps; reflexivity].
Qed.

(* pointer word fields *)
Lemma struct_word_fields : forall o dn pn, 0 <= dn < two16 -> 0 <= pn < two16 ->
  let w := struct_word o dn pn in
  w mod 4 = 0 /\ (w / 4) mod two30 = o mod two30 /\ (w / two32) mod two16 = dn /\ (w / two48) mod two16 = pn
  /\ (w = 0 -> dn = 0 /\ pn = 0 /\ o mod two30 = 0).
Proof.
  intros o dn pn Hd Hp. unfold struct_word, two16, two30, two32, two48 in *. cbn zeta.
  assert (0 <= o mod 1073741824 < 1073741824) by (apply Z.mod_pos_bound; lia).
  set (m := o mod 1073741824) in *. clearbody m. repeat split; lia.
Qed.

Lemma list_word_fields : forall o k n, 0 <= k < 8 -> 0 <= n < two29 ->
  let w := list_word o k n in
  w <> 0 /\ w mod 4 = 1 /\ (w / 4) mod two30 = o mod two30 /\ (w / two32) mod 8 = k /\ (w / two35) mod two29 = n.
Proof.
  intros o k n Hk Hn. unfold list_word, two29, two30, two32, two35 in *. cbn zeta.
  assert (0 <= o mod 1073741824 < 1073741824) by (apply Z.mod_pos_bound; lia).
  set (m := o mod 1073741824) in *. clearbody m. repeat split; lia.
Qed.

(* the pointer skeleton: nulls, structs, void lists and pointer lists in normal-form shape *)
Fixpoint skel (v : value) : bool :=
  match v with
  | VNull => true
  | VStruct _ ps => forallb skel ps
  | VList LVoid es => forallb (fun e => match e with VStruct [] [] => true | _ => false end) es
  | VList LPtr es => forallb (fun e => match e with VStruct [] [p] => skel p | _ => false end) es
  | VList LComp es =>
    forallb (fun e => match e with
                      | VStruct d ps => (length d =? max_len sdata es)%nat && (length ps =? max_len sptrs es)%nat
                                        && forallb skel ps
                      | _ => false
                      end) es
  | VList k es => forallb (fun e => match e with
                                    | VStruct [v] [] => (0 <=? v) && (v <? kind_base k)
                                    | _ => false
                                    end) es
  | VBits _ => true
  | VCap _ => false
  end.

Lemma prim_elems B es :
  forallb (fun e => match e with VStruct [v] [] => (0 <=? v) && (v <? B) | _ => false end) es = true ->
  digits_ok B (map (fun e => hd_word (sdata e)) es)
  /\ map (fun d => VStruct [d] []) (map (fun e => hd_word (sdata e)) es) = es.
Proof.
  induction es as [|e r IH]; intros H; [split; [constructor|reflexivity]|].
  cbn [forallb] in H. apply andb_prop in H. destruct H as [He Hr]. destruct (IH Hr) as [I1 I2].
  destruct e as [| |[|v [|]] [|]| |]; try discriminate.
  split.
  - constructor; [cbn; lia| exact I1].
  - cbn [map sdata hd_word]. rewrite I2. reflexivity.
Qed.

Lemma bits_back bs : map (fun d => d =? 1) (map b2z bs) = bs.
Proof. induction bs as [|b r IH]; [reflexivity|]. cbn [map]. rewrite IH. destruct b; reflexivity. Qed.

Lemma bits_digits bs : digits_ok 2 (map b2z bs).
Proof. induction bs as [|b r IH]; [constructor|]. constructor; [destruct b; cbn; lia| exact IH]. Qed.

Lemma zlen_map {A B} (f : A -> B) l : zlen (map f l) = zlen l.
Proof. unfold zlen. rewrite map_length. reflexivity. Qed.

Ltac prim_case K :=
  match goal with H : _ = COk (_, _) |- _ => inversion H; subst; clear H end;
  match goal with Hn : 0 <= zlen ?es < two29, Hs : skel _ = true |- context [list_word ?o _ _] =>
    destruct (list_word_fields o (kind_code K) (zlen es) ltac:(cbn; lia) Hn) as [F0 [F1 [F2 [F3 F4]]]];
    cbn [cparse]; unfold cparse_body; cbn [kind_code] in *;
    set (w := list_word o _ (zlen es)) in *;
    destruct (w =? 0) eqn:Ew; [apply Z.eqb_eq in Ew; contradiction|];
    rewrite F1, F2, F3, F4; cbn [Z.eqb negb]; rewrite Z.eqb_refl; cbn [negb];
    clear F0 F1 F2 F3 F4 Ew; clearbody w;
    unfold code_kind; cbn [Z.eqb Pos.eqb kind_base kind_per];
    cbn [skel] in Hs; destruct (prim_elems (kind_base K) es Hs) as [Dg Bk]; cbn [kind_base] in Dg;
    erewrite take_app
      by (rewrite pack_length, zlen_map by (cbn; lia); reflexivity);
    replace (Z.to_nat (zlen es)) with (length (map (fun e => hd_word (sdata e)) es))
      by (rewrite map_length; unfold zlen; lia);
    rewrite unpack_pack by (try assumption; cbn; lia);
    rewrite zs_eqb_refl, Bk; reflexivity
  end.

Lemma void_elems : forall es,
  forallb (fun e => match e with VStruct [] [] => true | _ => false end) es = true ->
  repeat (VStruct [] []) (length es) = es.
Proof.
  induction es as [|e r IH]; intros H; [reflexivity|].
  cbn [forallb] in H. apply andb_prop in H. destruct H as [He Hr].
  destruct e as [| |[|] [|]| |]; try discriminate. cbn [length repeat]. rewrite (IH Hr). reflexivity.
Qed.

Lemma ptr_elems : forall es,
  forallb (fun e => match e with VStruct [] [p] => skel p | _ => false end) es = true ->
  map (fun p => VStruct [] [p]) (cell_vals (map (fun e => CP (hd_ptr (sptrs e))) es)) = es.
Proof.
  induction es as [|e r IH]; intros H; [reflexivity|].
  cbn [forallb] in H. apply andb_prop in H. destruct H as [He Hr].
  destruct e as [| |[|] [|p [|]]| |]; try discriminate.
  unfold cell_vals in *. cbn [map flat_map sptrs hd_ptr app]. rewrite (IH Hr). reflexivity.
Qed.


(* ---- struct lists: uniform elements *)
Definition uniform (dn pn : nat) (es : list value) : Prop :=
  Forall (fun e => exists d ps, e = VStruct d ps /\ length d = dn /\ length ps = pn) es.

Lemma pad0_id n l : length l = n -> pad0 n l = l.
Proof. intros <-. unfold pad0. rewrite Nat.sub_diag. apply app_nil_r. Qed.
Lemma padN_id n l : length l = n -> padN n l = l.
Proof. intros <-. unfold padN. rewrite Nat.sub_diag. apply app_nil_r. Qed.

Lemma uniform_cells dn pn es : uniform dn pn es ->
  flat_map (fun e => struct_cells (pad0 dn (sdata e)) (padN pn (sptrs e))) es
  = flat_map (fun e => struct_cells (sdata e) (sptrs e)) es.
Proof.
  induction 1 as [|e r (d & ps & -> & Ld & Lp) Hr IH]; [reflexivity|].
  cbn [flat_map sdata sptrs]. rewrite pad0_id, padN_id, IH by assumption. reflexivity.
Qed.

Lemma uniform_shape dn pn es : uniform dn pn es ->
  shape_of (flat_map (fun e => struct_cells (sdata e) (sptrs e)) es)
  = concat (repeat (repeat SW dn ++ repeat SP pn) (length es)).
Proof.
  induction 1 as [|e r (d & ps & -> & Ld & Lp) Hr IH]; [reflexivity|].
  cbn [flat_map sdata sptrs length repeat concat]. unfold shape_of in *. rewrite map_app.
  fold (shape_of (struct_cells d ps)). rewrite shape_struct_cells, Ld, Lp, IH. reflexivity.
Qed.

Lemma struct_cells_length d ps : length (struct_cells d ps) = (length d + length ps)%nat.
Proof. unfold struct_cells. rewrite app_length, !map_length. reflexivity. Qed.

Lemma uniform_length dn pn es : uniform dn pn es ->
  length (flat_map (fun e => struct_cells (sdata e) (sptrs e)) es) = (length es * (dn + pn))%nat.
Proof.
  induction 1 as [|e r (d & ps & -> & Ld & Lp) Hr IH]; [reflexivity|].
  cbn [flat_map sdata sptrs length]. rewrite app_length, struct_cells_length, IH, Ld, Lp. lia.
Qed.

Lemma uniform_cut dn pn es : uniform dn pn es ->
  cut_elems (length es) dn pn (flat_map (fun e => struct_cells (sdata e) (sptrs e)) es) = es.
Proof.
  induction 1 as [|e r (d & ps & -> & Ld & Lp) Hr IH]; [reflexivity|].
  cbn [flat_map sdata sptrs length cut_elems].
  assert (L : length (struct_cells d ps) = (dn + pn)%nat) by (rewrite struct_cells_length; lia).
  rewrite <- L, firstn_app, Nat.sub_diag, firstn_all, skipn_app, Nat.sub_diag, skipn_all. cbn [firstn skipn app].
  rewrite app_nil_r, cell_words_struct, cell_vals_struct, IH. reflexivity.
Qed.

Lemma skel_uniform es :
  forallb (fun e => match e with
                    | VStruct d ps => (length d =? max_len sdata es)%nat && (length ps =? max_len sptrs es)%nat
                                      && forallb skel ps
                    | _ => false
                    end) es = true ->
  uniform (max_len sdata es) (max_len sptrs es) es
  /\ forall e p, In e es -> In p (sptrs e) -> skel p = true.
Proof.
  generalize (max_len sdata es) (max_len sptrs es). intros dn pn H. rewrite forallb_forall in H. split.
  - apply Forall_forall. intros e He. specialize (H e He). destruct e as [| |d ps| |]; try discriminate.
    apply andb_prop in H. destruct H as [H _]. apply andb_prop in H. destruct H as [H1 H2].
    exists d, ps. split; [reflexivity|]. split; [apply Nat.eqb_eq; assumption| apply Nat.eqb_eq; assumption].
  - intros e p He Hp. specialize (H e He). destruct e as [| |d ps| |]; try (destruct Hp).
    apply andb_prop in H. destruct H as [_ H]. rewrite forallb_forall in H. apply H. exact Hp.
Qed.

Lemma in_flat_cells v es : In (CP v) (flat_map (fun e => struct_cells (sdata e) (sptrs e)) es) ->
  exists e, In e es /\ In v (sptrs e).
Proof.
  intros H. apply in_flat_map in H. destruct H as (e & He & Hc). exists e. split; [assumption|].
  eapply in_struct_cells. eassumption.
Qed.

(* [T1] the full statement (proved with the hypotheses made explicit as CanonProofs3.cdecode_canon) *)
Definition cparse_enc_statement : Prop :=
  forall v, wfv v = true -> forall bs, canon v = Some bs ->
  cdecode (S (vdepth (norm v))) bs = Some (norm v).

Theorem cparse_enc_partial : forall f v pos cur w body rest,
  skel v = true -> enc f v pos cur = COk (w, body) ->
  cparse f w pos cur (body ++ rest) = Some (v, rest).
Proof.
  induction f as [|f IH]; intros v pos cur w body rest Hs H; [discriminate|].
  destruct v as [|c|d ps|k es|bs]; cbn [enc] in H; try discriminate.
  - inversion H; subst. reflexivity.
  - (* struct *)
    assert (Hzd : 0 <= zlen d) by (unfold zlen; lia). assert (Hzp : 0 <= zlen ps) by (unfold zlen; lia).
    destruct ((zlen d =? 0) && (zlen ps =? 0)) eqn:E0.
    + inversion H; subst. destruct d; [|unfold zlen in E0; cbn [length] in E0; lia].
      destruct ps; [|unfold zlen in E0; cbn [length] in E0; lia].
      vm_compute. reflexivity.
    + destruct ((zlen d >=? two16) || (zlen ps >=? two16) || (cur - pos - 1 >=? two29)) eqn:E1; [discriminate|].
      destruct (enc_cells (enc f) (struct_cells d ps) cur (cur + zlen d + zlen ps)) as [[b k]| | |] eqn:E; try discriminate.
      cbn in H. inversion H; subst. clear H.
      assert (Hd : 0 <= zlen d < two16) by lia. assert (Hp : 0 <= zlen ps < two16) by lia.
      destruct (struct_word_fields (cur - pos - 1) (zlen d) (zlen ps) Hd Hp) as [F0 [F1 [F2 [F3 F4]]]].
      cbn [cparse]. unfold cparse_body. set (w := struct_word (cur - pos - 1) (zlen d) (zlen ps)) in *.
      destruct (w =? 0) eqn:Ew; [apply Z.eqb_eq in Ew; specialize (F4 Ew); lia|].
      rewrite F0, F1, F2, F3. cbn [Z.eqb]. rewrite E0, Z.eqb_refl. cbn [negb].
      rewrite <- app_assoc.
      rewrite (take_app (zlen d + zlen ps) b (k ++ rest)).
      2:{ unfold zlen. rewrite (enc_cells_length _ _ _ _ _ _ E). unfold struct_cells.
          rewrite app_length, !map_length. lia. }
      unfold zlen at 1 2. rewrite !Nat2Z.id, <- shape_struct_cells.
      rewrite (parse_enc_cells (enc f) (cparse f) _ _ _ _ _ rest E).
      * rewrite cell_words_struct, cell_vals_struct. reflexivity.
      * intros v p c w0 body0 rest' Hin He. apply IH; [|exact He].
        apply in_struct_cells in Hin. cbn [skel] in Hs. rewrite forallb_forall in Hs. apply Hs. exact Hin.
  - (* lists *)
    assert (Hz : 0 <= zlen es) by (unfold zlen; lia).
    destruct ((zlen es >=? two29) || (cur - pos - 1 >=? two29)) eqn:E1; [discriminate|].
    assert (Hn : 0 <= zlen es < two29) by lia.
    destruct k; try discriminate.
    + (* void *)
      inversion H; subst. clear H.
      destruct (list_word_fields (cur - pos - 1) 0 (zlen es) ltac:(lia) Hn) as [F0 [F1 [F2 [F3 F4]]]].
      cbn [cparse]. unfold cparse_body. set (w := list_word (cur - pos - 1) 0 (zlen es)) in *.
      destruct (w =? 0) eqn:Ew; [apply Z.eqb_eq in Ew; contradiction|].
      rewrite F1, F2, F3, F4. cbn [Z.eqb negb app]. rewrite Z.eqb_refl. cbn [negb code_kind Z.eqb].
      unfold zlen. rewrite Nat2Z.id. cbn [skel] in Hs. rewrite (void_elems es Hs). reflexivity.
    + prim_case LB1.
    + prim_case LB2.
    + prim_case LB4.
    + prim_case LB8.
    + (* pointer list *)
      destruct (enc_cells (enc f) (map (fun e => CP (hd_ptr (sptrs e))) es) cur (cur + zlen es)) as [[b k]| | |] eqn:E;
        try discriminate.
      cbn in H. inversion H; subst. clear H.
      destruct (list_word_fields (cur - pos - 1) 6 (zlen es) ltac:(lia) Hn) as [F0 [F1 [F2 [F3 F4]]]].
      cbn [cparse]. unfold cparse_body. set (w := list_word (cur - pos - 1) 6 (zlen es)) in *.
      destruct (w =? 0) eqn:Ew; [apply Z.eqb_eq in Ew; contradiction|].
      rewrite F1, F2, F3, F4. cbn [Z.eqb negb]. rewrite Z.eqb_refl. cbn [negb].
      rewrite <- app_assoc. rewrite (take_app (zlen es) b (k ++ rest)).
      2:{ unfold zlen. rewrite (enc_cells_length _ _ _ _ _ _ E), map_length. reflexivity. }
      replace (repeat SP (Z.to_nat (zlen es))) with (shape_of (map (fun e => CP (hd_ptr (sptrs e))) es)).
      2:{ unfold zlen. rewrite Nat2Z.id. unfold shape_of. rewrite map_map. clear. induction es; cbn; [reflexivity| rewrite IHes; reflexivity]. }
      rewrite (parse_enc_cells (enc f) (cparse f) _ _ _ _ _ rest E).
      * cbn [skel] in Hs. rewrite (ptr_elems es Hs). reflexivity.
      * intros v p c w0 body0 rest' Hin He. apply IH; [|exact He].
        apply in_map_iff in Hin. destruct Hin as [e [He1 He2]]. inversion He1; subst.
        cbn [skel] in Hs. rewrite forallb_forall in Hs. specialize (Hs e He2).
        destruct e as [| |[|] [|p0 [|]]| |]; try discriminate. exact Hs.
    + (* struct list *)
      cbn [skel] in Hs. destruct (skel_uniform es Hs) as [Hu Hch].
      set (dnn := max_len sdata es) in *. set (pnn := max_len sptrs es) in *.
      set (dn := Z.of_nat dnn) in *. set (pn := Z.of_nat pnn) in *.
      destruct ((dn >=? two16) || (pn >=? two16) || (zlen es * (dn + pn) >=? two29)) eqn:E2; [discriminate|].
      assert (Hd : 0 <= dn < two16) by lia. assert (Hp : 0 <= pn < two16) by lia.
      assert (HW : 0 <= zlen es * (dn + pn) < two29) by nia.
      replace (Z.to_nat dn) with dnn in H by lia. replace (Z.to_nat pn) with pnn in H by lia.
      rewrite (uniform_cells dnn pnn es Hu) in H.
      set (cs := flat_map (fun e => struct_cells (sdata e) (sptrs e)) es) in *.
      cbn [enc_cells] in H.
      destruct (enc_cells (enc f) cs (cur + 1) (cur + 1 + zlen es * (dn + pn))) as [[b k]| | |] eqn:E; try discriminate.
      cbn in H. inversion H; subst w body. clear H.
      destruct (list_word_fields (cur - pos - 1) 7 (zlen es * (dn + pn)) ltac:(lia) HW) as [F0 [F1 [F2 [F3 F4]]]].
      assert (Hcnt : 0 <= zlen es < two16 * two16 * 4) by (unfold two16, two29 in *; lia).
      destruct (struct_word_fields (zlen es) dn pn Hd Hp) as [T0 [T1 [T2 [T3 _]]]].
      cbn [cparse]. unfold cparse_body. set (w := list_word (cur - pos - 1) 7 (zlen es * (dn + pn))) in *.
      destruct (w =? 0) eqn:Ew; [apply Z.eqb_eq in Ew; contradiction|].
      rewrite F1, F2, F3, F4. cbn [Z.eqb negb]. rewrite Z.eqb_refl. cbn [negb Pos.eqb].
      clear F0 F1 F2 F3 F4 Ew. clearbody w.
      cbn [app]. set (tag := struct_word (zlen es) dn pn) in *.
      rewrite T0, T1, T2, T3. rewrite (Z.mod_small (zlen es)) by (unfold two30, two29 in *; lia).
      cbn [Z.eqb negb orb]. rewrite Z.eqb_refl. cbn [negb orb].
      destruct (zlen es >=? two29) eqn:E3; [lia|].
      clear T0 T1 T2 T3. clearbody tag.
      rewrite <- app_assoc. rewrite (take_app (zlen es * (dn + pn)) b (k ++ rest)).
      2:{ unfold zlen. rewrite (enc_cells_length _ _ _ _ _ _ E). unfold cs. rewrite (uniform_length dnn pnn es Hu).
          unfold dn, pn. lia. }
      replace (Z.to_nat dn) with dnn by lia. replace (Z.to_nat pn) with pnn by lia.
      replace (Z.to_nat (zlen es)) with (length es) by (unfold zlen; lia).
      rewrite <- (uniform_shape dnn pnn es Hu). fold cs.
      rewrite (parse_enc_cells (enc f) (cparse f) cs _ _ _ _ rest E).
      * unfold cs. rewrite (uniform_cut dnn pnn es Hu). reflexivity.
      * intros v p c w0 body0 rest' Hin He. apply IH; [|exact He].
        apply in_flat_cells in Hin. destruct Hin as (e & He1 & He2). eapply Hch; eassumption.
  - (* bit list *)
    assert (Hz : 0 <= zlen bs) by (unfold zlen; lia).
    destruct ((zlen bs >=? two29) || (cur - pos - 1 >=? two29)) eqn:E1; [discriminate|].
    assert (Hn : 0 <= zlen bs < two29) by lia.
    inversion H; subst. clear H.
    destruct (list_word_fields (cur - pos - 1) 1 (zlen bs) ltac:(lia) Hn) as [F0 [F1 [F2 [F3 F4]]]].
    cbn [cparse]. unfold cparse_body. set (w := list_word (cur - pos - 1) 1 (zlen bs)) in *.
    destruct (w =? 0) eqn:Ew; [apply Z.eqb_eq in Ew; contradiction|].
    rewrite F1, F2, F3, F4. cbn [Z.eqb negb]. rewrite Z.eqb_refl. cbn [negb].
    clear F0 F1 F2 F3 F4 Ew. clearbody w.
    rewrite (take_app (words_for 64 (zlen bs)) _ _)
      by (rewrite pack_length, zlen_map by lia; reflexivity).
    replace (Z.to_nat (zlen bs)) with (length (map b2z bs)) by (rewrite map_length; unfold zlen; lia).
    rewrite unpack_pack by (try apply bits_digits; lia).
    rewrite zs_eqb_refl, bits_back. reflexivity.
Qed.

(* non-vacuity / sanity of the full statement on samples of every list kind *)
Example cparse_enc_sample :
  let v := VStruct [0; 5; 0] [VNull; VBits [true; false; true]; VList LB2 [VStruct [513] []; VStruct [7] []];
                              VList LComp [VStruct [1; 0] [VNull]; VStruct [0] [VList LVoid [VStruct [] []]; VNull]];
                              VList LPtr [VStruct [] [VStruct [] []]]; VNull] in
  match canon v with
  | Some bs => cdecode 10 bs = Some (norm v) /\ truncated (norm v) = true
  | None => False
  end.
Proof. vm_compute. split; reflexivity. Qed.
