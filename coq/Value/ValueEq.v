(* L2: value trees and the DOCUMENTED structural equality of capnp.Equal (doc comment in
   pointer.go):
     - structs: field by field, missing trailing fields are zero / null;
     - lists: same length and element-wise; a list of primitives (or of pointers) is equal to
       a list of structs whose elements hold that value as sole field;
     - capabilities: by identity (same client, or same table index in the same message);
     - null only to null; every other combination is unequal.
   Decisions beyond the comment:
     - where it is silent: List(Bool) has no struct view (the encoding specification excludes it
       from the list-upgrade rule), so a bit list is equal only to a bit list with the same bits
       (an independent decision: it exposed defect F01);
     - where its literal reading is OVERRIDDEN: "two lists are equal iff same length and
       corresponding elements equal" would make two non-struct lists of different element kinds
       (void / 1 / 2 / 4 / 8 bytes / pointer) equal whenever they are empty or element-wise equal
       as numbers.  Here they are UNEQUAL, even when empty: they are values of different schema
       types, and this is what the code does (pointer.go: l1.size != l2.size, upstream).  This
       rule, the "(or of pointers)" part of the upgrade rule, and the table-bound condition in
       capability identity (cv_intab: an index outside the table is the nil client) are taken
       from the code / encoding specification, not from the comment -- on these three points the
       specification cannot disagree with the implementation by construction.
   No proofs in this file (see ValueEqProofs.v). *)
From CV Require Export Core.ReadOps Core.Builder.
Open Scope Z_scope.

(* element kind of a list, as encoded in the list pointer *)
Inductive lkind := LVoid | LB1 | LB2 | LB4 | LB8 | LPtr | LComp.

Definition lkind_eqb (a b : lkind) : bool :=
  match a, b with
  | LVoid, LVoid | LB1, LB1 | LB2, LB2 | LB4, LB4 | LB8, LB8 | LPtr, LPtr | LComp, LComp => true
  | _, _ => false
  end.

(* a capability reference: the message it was read from, the table index, whether the
   index is inside the capability table, and the client stored there (0 = nil client;
   an index outside the table resolves to the nil client) *)
Record capv := mkCap { cv_msg : Z; cv_idx : Z; cv_intab : bool; cv_client : Z }.

(* Struct data sections are lists of 64-bit WORDS (little-endian value of 8 bytes; a section
   of 1..7 bytes, which only occurs in the struct view of a primitive element, is one word).
   Every list is a list of element values in their STRUCT VIEW:
     void element        VStruct [] []
     w-byte primitive v  VStruct [v] []       (the value as sole field, 0 <= v < 2^(8w))
     pointer             VStruct [] [p]
     composite element   VStruct data ptrs *)
Inductive value :=
| VNull
| VCap (c : capv)
| VStruct (data : list Z) (ptrs : list value)
| VList (k : lkind) (elems : list value)
| VBits (bs : list bool).

(* ------------------------------------------------------------------ the equality *)
Definition cap_eq (c d : capv) : bool :=
  if cv_msg c =? cv_msg d
  then (cv_idx c =? cv_idx d) || (cv_intab c && cv_intab d && (cv_client c =? cv_client d))
  else cv_client c =? cv_client d.

Definition all_zero (l : list Z) : bool := forallb (Z.eqb 0) l.

(* data sections: the shorter one is extended by zeros *)
Fixpoint data_eq (a b : list Z) : bool :=
  match a, b with
  | [], _ => all_zero b
  | _, [] => all_zero a
  | x :: r, y :: s => (x =? y) && data_eq r s
  end.

Definition is_null (v : value) : bool := match v with VNull => true | _ => false end.

Fixpoint bools_eqb (a b : list bool) : bool :=
  match a, b with
  | [], [] => true
  | x :: r, y :: s => Bool.eqb x y && bools_eqb r s
  | _, _ => false
  end.

(* a struct list is comparable with every list; other kinds only with themselves *)
Definition kinds_compat (upgrade : bool) (a b : lkind) : bool :=
  lkind_eqb a b || (upgrade && (lkind_eqb a LComp || lkind_eqb b LComp)).

(* [upgrade = true]: the documented equality (value_eq).
   [upgrade = false]: the same without the primitive-list/struct-list identification, i.e.
   equality of values of ONE schema type across schema versions (value_eqs); this is the
   relation under which the canonical form is unique (C18). *)
Fixpoint veq (upgrade : bool) (a b : value) {struct a} : bool :=
  match a, b with
  | VNull, VNull => true
  | VCap c, VCap d => cap_eq c d
  | VStruct d1 p1, VStruct d2 p2 =>
    data_eq d1 d2 &&
    (fix ptrs_eq (l1 l2 : list value) {struct l1} : bool :=
       match l1, l2 with
       | [], _ => forallb is_null l2
       | x :: r, [] => is_null x && ptrs_eq r []
       | x :: r, y :: s => veq upgrade x y && ptrs_eq r s
       end) p1 p2
  | VList k1 e1, VList k2 e2 =>
    kinds_compat upgrade k1 k2 &&
    (fix elems_eq (l1 l2 : list value) {struct l1} : bool :=
       match l1, l2 with
       | [], [] => true
       | x :: r, y :: s => veq upgrade x y && elems_eq r s
       | _, _ => false
       end) e1 e2
  | VBits b1, VBits b2 => bools_eqb b1 b2
  | _, _ => false
  end.

Definition value_eq : value -> value -> bool := veq true.
Definition value_eqs : value -> value -> bool := veq false.

(* the two local fixpoints, named (ValueEqProofs shows veq unfolds to them) *)
Fixpoint ptrs_eq (u : bool) (l1 l2 : list value) {struct l1} : bool :=
  match l1, l2 with
  | [], _ => forallb is_null l2
  | x :: r, [] => is_null x && ptrs_eq u r []
  | x :: r, y :: s => veq u x y && ptrs_eq u r s
  end.
Fixpoint elems_eq (u : bool) (l1 l2 : list value) {struct l1} : bool :=
  match l1, l2 with
  | [], [] => true
  | x :: r, y :: s => veq u x y && elems_eq u r s
  | _, _ => false
  end.

(* ------------------------------------------------------------------ from walked trees *)
Definition mk_capv (mid : Z) (caps : list Z) (i : Z) : capv :=
  let t := (0 <=? i) && (i <? zlen caps) in
  mkCap mid i t (if t then nth (Z.to_nat i) caps 0 else 0).

Definition kind_of_width (w : Z) : lkind :=
  if w =? 0 then LVoid else if w =? 1 then LB1 else if w =? 2 then LB2 else if w =? 4 then LB4 else LB8.

(* bytes -> words, the last partial word zero-extended *)
Fixpoint words_of_bytes (b : list Z) : list Z :=
  match b with
  | b0 :: b1 :: b2 :: b3 :: b4 :: b5 :: b6 :: b7 :: r => le_decode [b0; b1; b2; b3; b4; b5; b6; b7] :: words_of_bytes r
  | [] => []
  | l => [le_decode l]
  end.

(* denote: the value a walked tree (ReadOps.walk) stands for.  [mid] identifies the message
   the tree was read from, [caps] is its capability table (client ids, 0 = nil).
   Error nodes have no value (mapped to VNull; excluded by [tree_ok]). *)
Fixpoint denote (mid : Z) (caps : list Z) (t : tree) : value :=
  match t with
  | TNull | TErr | TPanic | TFuel => VNull
  | TCap i => VCap (mk_capv mid caps i)
  | TStruct d ps => VStruct (words_of_bytes d) (map (denote mid caps) ps)
  | TPtrs _ es => VList LPtr (map (fun e => VStruct [] [denote mid caps e]) es)
  | TComp _ _ es => VList LComp (map (denote mid caps) es)
  | TPrim w n vs =>
    VList (kind_of_width w)
          (if w =? 0 then repeat (VStruct [] []) (Z.to_nat n)
           else map (fun v => VStruct [v] []) vs)
  | TBits _ bs => VBits bs
  end.

Definition byte_ok (b : Z) : bool := (0 <=? b) && (b <? 256).

(* the walk was complete and error free: no error node, nothing cut off by the walker's
   caps, shapes consistent *)
Fixpoint tree_ok (t : tree) : bool :=
  match t with
  | TNull => true
  | TErr | TPanic | TFuel => false
  | TCap i => (0 <=? i) && (i <? 4294967296)
  | TStruct d ps => forallb byte_ok d && forallb tree_ok ps
  | TPtrs n es => (zlen es =? n) && forallb tree_ok es
  | TComp n sz es =>
    (zlen es =? n) &&
    forallb (fun e => match e with
                      | TStruct d ps => (zlen d =? DataSize sz) && (zlen ps =? PointerCount sz) && tree_ok e
                      | _ => false
                      end) es
  | TPrim w n vs =>
    (0 <=? n) &&
    (if w =? 0 then match vs with [] => true | _ => false end
     else ((w =? 1) || (w =? 2) || (w =? 4) || (w =? 8)) && (zlen vs =? n)
          && forallb (fun v => (0 <=? v) && (v <? 2 ^ (8 * w))) vs)
  | TBits n bs => zlen bs =? n
  end.
