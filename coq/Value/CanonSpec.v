(* L2: the canonical form, written from https://capnproto.org/encoding.html#canonicalization
     - one segment, no segment table;
     - objects in pre-order (w.r.t. the order of the pointers in each object), contiguous;
     - trailing zero words of a struct's data section and trailing null pointers of its
       pointer section are truncated;
     - the structs of a struct list are all truncated to the same size: the largest of the
       truncated sizes;
     - a pointer to a zero-sized struct has offset -1;
     - no far pointers, all padding zero;
     - a capability cannot be canonicalised (error).
   Two stages: [norm] (value -> value, the truncation rules) and [enc] (layout of a value as
   words).  [cparse] is a STRICT sequential decoder of the canonical layout: it accepts only
   contiguous pre-order messages (each pointer must refer to the next unread word), so a
   successful parse certifies the layout.
   No proofs in this file (see CanonProofs.v). *)
From CV Require Export Value.ValueEq.
Open Scope Z_scope.

(* ------------------------------------------------------------------ stage 1: truncation *)
(* remove trailing zeros / trailing nulls *)
Fixpoint strip0 (l : list Z) : list Z :=
  match l with
  | [] => []
  | x :: r => match strip0 r with
              | [] => if x =? 0 then [] else [x]
              | r' => x :: r'
              end
  end.
Fixpoint stripN (l : list value) : list value :=
  match l with
  | [] => []
  | x :: r => match stripN r with
              | [] => if is_null x then [] else [x]
              | r' => x :: r'
              end
  end.

Definition pad0 (n : nat) (l : list Z) : list Z := l ++ repeat 0 (n - length l).
Definition padN (n : nat) (l : list value) : list value := l ++ repeat VNull (n - length l).

Definition sdata (v : value) : list Z := match v with VStruct d _ => d | _ => [] end.
Definition sptrs (v : value) : list value := match v with VStruct _ p => p | _ => [] end.
Definition max_len {A} (f : value -> list A) (es : list value) : nat :=
  fold_right (fun e m => Nat.max (length (f e)) m) O es.

(* all elements of a struct list get the size of the largest *)
Definition pad_elems (es : list value) : list value :=
  let dn := max_len sdata es in
  let pn := max_len sptrs es in
  map (fun e => VStruct (pad0 dn (sdata e)) (padN pn (sptrs e))) es.

Definition hd_word (d : list Z) : Z := match d with x :: _ => x | [] => 0 end.
Definition hd_ptr (p : list value) : value := match p with x :: _ => x | [] => VNull end.

(* the canonical representative of a value.  Lists: every element is normalised as a struct
   (its struct view truncated), then
     struct list     all elements padded to the largest truncated size;
     pointer list    the element's sole pointer (null if truncated away);
     primitive list  the element's sole data word (0 if truncated away);
     void list       nothing. *)
Fixpoint norm (v : value) : value :=
  match v with
  | VNull | VCap _ | VBits _ => v
  | VStruct d ps => VStruct (strip0 d) (stripN (map norm ps))
  | VList k es =>
    let ns := map norm es in
    match k with
    | LComp => VList LComp (pad_elems ns)
    | LPtr => VList LPtr (map (fun n => VStruct [] [hd_ptr (sptrs n)]) ns)
    | LVoid => VList LVoid (map (fun _ => VStruct [] []) ns)
    | _ => VList k (map (fun n => VStruct [hd_word (sdata n)] []) ns)
    end
  end.

(* no capability anywhere *)
Fixpoint nocap (v : value) : bool :=
  match v with
  | VCap _ => false
  | VStruct _ ps => forallb nocap ps
  | VList _ es => forallb nocap es
  | _ => true
  end.

(* well-formed values: list elements have the struct view of their kind *)
Fixpoint wfv (v : value) : bool :=
  match v with
  | VStruct _ ps => forallb wfv ps
  | VList k es =>
    forallb (fun e => match e with
                      | VStruct d ps =>
                        match k with
                        | LComp => forallb wfv ps
                        | LPtr => match d, ps with [], [p] => wfv p | _, _ => false end
                        | LVoid => match d, ps with [], [] => true | _, _ => false end
                        | _ => match d, ps with [_], [] => true | _, _ => false end
                        end
                      | _ => false
                      end) es
  | _ => true
  end.

(* ------------------------------------------------------------------ stage 2: layout *)
Inductive cres (A : Type) : Type :=
| COk (a : A)
| CCap        (* the value contains a capability *)
| CSize       (* a count or size does not fit its pointer field *)
| CFuel.      (* excluded: [canon] supplies enough fuel *)
Arguments COk {A} a.
Arguments CCap {A}.
Arguments CSize {A}.
Arguments CFuel {A}.

Definition cbind {A B} (r : cres A) (f : A -> cres B) : cres B :=
  match r with COk a => f a | CCap => CCap | CSize => CSize | CFuel => CFuel end.

Definition two30 := 1073741824.
Definition two29 := 536870912.
Definition two16 := 65536.
Definition two32 := 4294967296.
Definition two35 := 34359738368.
Definition two48 := 281474976710656.

(* pointer words; [off] is the signed word offset (two's complement in 30 bits) *)
Definition struct_word (off dn pn : Z) : Z := (off mod two30) * 4 + dn * two32 + pn * two48.
Definition list_word (off k n : Z) : Z := 1 + (off mod two30) * 4 + k * two32 + n * two35.

(* digits of base B packed little-endian, [per] digits to a word *)
Fixpoint pack_word (B : Z) (ds : list Z) : Z :=
  match ds with [] => 0 | d :: r => d + B * pack_word B r end.
Fixpoint pack_all (fuel : nat) (B : Z) (per : nat) (ds : list Z) : list Z :=
  match fuel with
  | O => []
  | S f => match ds with
           | [] => []
           | _ => pack_word B (firstn per ds) :: pack_all f B per (skipn per ds)
           end
  end.
Definition pack (B : Z) (per : nat) (ds : list Z) : list Z := pack_all (length ds) B per ds.

Definition b2z (b : bool) : Z := if b then 1 else 0.

(* list pointer element-size code, digit base and digits per word of a primitive kind *)
Definition kind_code (k : lkind) : Z :=
  match k with LVoid => 0 | LB1 => 2 | LB2 => 3 | LB4 => 4 | LB8 => 5 | LPtr => 6 | LComp => 7 end.
Definition kind_base (k : lkind) : Z :=
  match k with LB1 => 256 | LB2 => 65536 | LB4 => 4294967296 | _ => 18446744073709551616 end.
Definition kind_per (k : lkind) : nat :=
  match k with LB1 => 8%nat | LB2 => 4%nat | LB4 => 2%nat | _ => 1%nat end.

(* an object body is a block of cells: plain words and pointer slots *)
Inductive cell := CW (w : Z) | CP (v : value).

(* [ev v pos cur] encodes the value referred to by the pointer word at word index [pos] when
   [cur] is the next free word index: the pointer word and the words appended at [cur].
   enc_cells lays out a block starting at [pos]; children go to [cur] in pointer order. *)
Definition enc_cells (ev : value -> Z -> Z -> cres (Z * list Z))
  : list cell -> Z -> Z -> cres (list Z * list Z) :=
  fix go (cs : list cell) (pos cur : Z) {struct cs} : cres (list Z * list Z) :=
    match cs with
    | [] => COk ([], [])
    | CW w :: r => cbind (go r (pos + 1) cur) (fun bk => COk (w :: fst bk, snd bk))
    | CP v :: r =>
      cbind (ev v pos cur) (fun wb =>
      cbind (go r (pos + 1) (cur + zlen (snd wb))) (fun bk =>
      COk (fst wb :: fst bk, snd wb ++ snd bk)))
    end.

Definition struct_cells (d : list Z) (ps : list value) : list cell := map CW d ++ map CP ps.

Fixpoint enc (fuel : nat) (v : value) (pos cur : Z) {struct fuel} : cres (Z * list Z) :=
  match fuel with
  | O => CFuel
  | S f =>
    match v with
    | VNull => COk (0, [])
    | VCap _ => CCap
    | VStruct d ps =>
      let dn := zlen d in
      let pn := zlen ps in
      if (dn =? 0) && (pn =? 0) then COk (struct_word (-1) 0 0, [])
      else if (dn >=? two16) || (pn >=? two16) || (cur - pos - 1 >=? two29) then CSize
      else cbind (enc_cells (enc f) (struct_cells d ps) cur (cur + dn + pn))
                 (fun bk => COk (struct_word (cur - pos - 1) dn pn, fst bk ++ snd bk))
    | VBits bs =>
      if (zlen bs >=? two29) || (cur - pos - 1 >=? two29) then CSize
      else COk (list_word (cur - pos - 1) 1 (zlen bs), pack 2 64 (map b2z bs))
    | VList k es =>
      let n := zlen es in
      if (n >=? two29) || (cur - pos - 1 >=? two29) then CSize else
      match k with
      | LVoid => COk (list_word (cur - pos - 1) 0 n, [])
      | LPtr =>
        cbind (enc_cells (enc f) (map (fun e => CP (hd_ptr (sptrs e))) es) cur (cur + n))
              (fun bk => COk (list_word (cur - pos - 1) 6 n, fst bk ++ snd bk))
      | LComp =>
        let dn := Z.of_nat (max_len sdata es) in
        let pn := Z.of_nat (max_len sptrs es) in
        if (dn >=? two16) || (pn >=? two16) || (n * (dn + pn) >=? two29) then CSize else
        let cells := CW (struct_word n dn pn)
                     :: flat_map (fun e => struct_cells (pad0 (Z.to_nat dn) (sdata e)) (padN (Z.to_nat pn) (sptrs e))) es in
        cbind (enc_cells (enc f) cells cur (cur + 1 + n * (dn + pn)))
              (fun bk => COk (list_word (cur - pos - 1) 7 (n * (dn + pn)), fst bk ++ snd bk))
      | _ =>
        COk (list_word (cur - pos - 1) (kind_code k) n,
             pack (kind_base k) (kind_per k) (map (fun e => hd_word (sdata e)) es))
      end
    end
  end.

(* nesting depth (fuel for enc / cparse) *)
Fixpoint vdepth (v : value) : nat :=
  match v with
  | VStruct _ ps => S (fold_right (fun p m => Nat.max (vdepth p) m) O ps)
  | VList _ es => S (S (fold_right (fun p m => Nat.max (vdepth p) m) O es))
  | _ => 1%nat
  end.

Definition bytes_of_words (ws : list Z) : list Z := flat_map (le_encode 8) ws.

(* the canonical message of a value as words (root pointer first) *)
Definition canon_words (v : value) : cres (list Z) :=
  let n := norm v in
  cbind (enc (S (vdepth n)) n 0 1) (fun wb => COk (fst wb :: snd wb)).

(* the canonical form: one word-aligned segment; None = capability / size error *)
Definition canon (v : value) : option (list Z) :=
  match canon_words v with COk ws => Some (bytes_of_words ws) | _ => None end.

(* ------------------------------------------------------------------ strict decoder *)
Inductive shape := SW | SP.

Fixpoint unpack_word (B : Z) (k : nat) (w : Z) : list Z :=
  match k with O => [] | S k' => (w mod B) :: unpack_word B k' (w / B) end.
(* n digits out of the words *)
Fixpoint unpack (B : Z) (per : nat) (n : nat) (ws : list Z) : list Z :=
  match ws with
  | [] => []
  | w :: r => unpack_word B (Nat.min per n) w ++ unpack B per (n - per) r
  end.

Fixpoint zs_eqb (a b : list Z) : bool :=
  match a, b with
  | [], [] => true
  | x :: r, y :: s => (x =? y) && zs_eqb r s
  | _, _ => false
  end.

Definition words_for (per : nat) (n : Z) : Z := (n + Z.of_nat per - 1) / Z.of_nat per.

(* [pv w pos cur rest]: decode the value of pointer word w (stored at index pos) when [rest]
   are the words from index [cur] on; returns the value and the unread words *)
Definition parse_cells (pv : Z -> Z -> Z -> list Z -> option (value * list Z))
  : list shape -> list Z -> Z -> Z -> list Z -> option (list cell * list Z) :=
  fix go (sh : list shape) (block : list Z) (pos cur : Z) (rest : list Z) {struct sh}
    : option (list cell * list Z) :=
    match sh, block with
    | [], [] => Some ([], rest)
    | SW :: sr, w :: br =>
      match go sr br (pos + 1) cur rest with
      | Some (cs, rest') => Some (CW w :: cs, rest')
      | None => None
      end
    | SP :: sr, w :: br =>
      match pv w pos cur rest with
      | Some (v, rest1) =>
        match go sr br (pos + 1) (cur + (zlen rest - zlen rest1)) rest1 with
        | Some (cs, rest') => Some (CP v :: cs, rest')
        | None => None
        end
      | None => None
      end
    | _, _ => None
    end.

Definition cell_words (cs : list cell) : list Z :=
  flat_map (fun c => match c with CW w => [w] | CP _ => [] end) cs.
Definition cell_vals (cs : list cell) : list value :=
  flat_map (fun c => match c with CW _ => [] | CP v => [v] end) cs.

(* cut the cells of a struct list into elements of dn words and pn pointers *)
Fixpoint cut_elems (n : nat) (dn pn : nat) (cs : list cell) : list value :=
  match n with
  | O => []
  | S n' => let e := firstn (dn + pn) cs in
            VStruct (cell_words e) (cell_vals e) :: cut_elems n' dn pn (skipn (dn + pn) cs)
  end.

Definition take (n : Z) (l : list Z) : option (list Z * list Z) :=
  if (0 <=? n) && (n <=? zlen l) then Some (firstn (Z.to_nat n) l, skipn (Z.to_nat n) l) else None.

Definition code_kind (c : Z) : option lkind :=
  if c =? 0 then Some LVoid else if c =? 2 then Some LB1 else if c =? 3 then Some LB2
  else if c =? 4 then Some LB4 else if c =? 5 then Some LB8 else None.

Definition cparse_body (pv : Z -> Z -> Z -> list Z -> option (value * list Z))
           (w pos cur : Z) (rest : list Z) : option (value * list Z) :=
    if w =? 0 then Some (VNull, rest) else
    let off := (w / 4) mod two30 in
    let here := (cur - pos - 1) mod two30 in
    let t := w mod 4 in
    if t =? 0 then
      let dn := (w / two32) mod two16 in
      let pn := (w / two48) mod two16 in
      if (dn =? 0) && (pn =? 0) then (if off =? two30 - 1 then Some (VStruct [] [], rest) else None)
      else if negb (off =? here) then None
      else match take (dn + pn) rest with
           | None => None
           | Some (block, rest1) =>
             match parse_cells pv (repeat SW (Z.to_nat dn) ++ repeat SP (Z.to_nat pn)) block
                               cur (cur + dn + pn) rest1 with
             | Some (cs, rest2) => Some (VStruct (cell_words cs) (cell_vals cs), rest2)
             | None => None
             end
           end
    else if t =? 1 then
      if negb (off =? here) then None else
      let c := (w / two32) mod 8 in
      let n := (w / two35) mod two29 in
      if c =? 1 then
        match take (words_for 64 n) rest with
        | None => None
        | Some (block, rest1) =>
          let ds := unpack 2 64 (Z.to_nat n) block in
          (* padding must be zero *)
          if zs_eqb (pack 2 64 ds) block then Some (VBits (map (fun d => d =? 1) ds), rest1) else None
        end
      else if c =? 6 then
        match take n rest with
        | None => None
        | Some (block, rest1) =>
          match parse_cells pv (repeat SP (Z.to_nat n)) block cur (cur + n) rest1 with
          | Some (cs, rest2) => Some (VList LPtr (map (fun p => VStruct [] [p]) (cell_vals cs)), rest2)
          | None => None
          end
        end
      else if c =? 7 then
        match rest with
        | [] => None
        | tag :: rest0 =>
          let cnt := (tag / 4) mod two30 in
          let dn := (tag / two32) mod two16 in
          let pn := (tag / two48) mod two16 in
          if negb (tag mod 4 =? 0) || negb (cnt * (dn + pn) =? n) || (cnt >=? two29) then None else
          match take n rest0 with
          | None => None
          | Some (block, rest1) =>
            let esh := repeat SW (Z.to_nat dn) ++ repeat SP (Z.to_nat pn) in
            match parse_cells pv (concat (repeat esh (Z.to_nat cnt))) block
                              (cur + 1) (cur + 1 + n) rest1 with
            | Some (cs, rest2) =>
              Some (VList LComp (cut_elems (Z.to_nat cnt) (Z.to_nat dn) (Z.to_nat pn) cs), rest2)
            | None => None
            end
          end
        end
      else
        match code_kind c with
        | None => None
        | Some k =>
          if c =? 0 then Some (VList LVoid (repeat (VStruct [] []) (Z.to_nat n)), rest) else
          match take (words_for (kind_per k) n) rest with
          | None => None
          | Some (block, rest1) =>
            let ds := unpack (kind_base k) (kind_per k) (Z.to_nat n) block in
            if zs_eqb (pack (kind_base k) (kind_per k) ds) block
            then Some (VList k (map (fun d => VStruct [d] []) ds), rest1) else None
          end
        end
    else None          (* far pointers and capabilities do not occur in canonical form *).

Fixpoint cparse (fuel : nat) (w pos cur : Z) (rest : list Z) {struct fuel} : option (value * list Z) :=
  match fuel with
  | O => None
  | S f => cparse_body (cparse f) w pos cur rest
  end.

(* decode a canonical message given as words: the root pointer, then everything consumed *)
Definition cdecode_words (fuel : nat) (ws : list Z) : option value :=
  match ws with
  | [] => None
  | w :: rest => match cparse fuel w 0 1 rest with
                 | Some (v, []) => Some v
                 | _ => None
                 end
  end.

(* ... given as bytes *)
Definition cdecode (fuel : nat) (bs : list Z) : option value :=
  if (length bs mod 8 =? 0)%nat then cdecode_words fuel (words_of_bytes bs) else None.

(* value-level statement of "trailing zero words truncated" *)
Definition last_nonzero (d : list Z) : bool := match rev d with [] => true | x :: _ => negb (x =? 0) end.
Definition last_nonnull (p : list value) : bool := match rev p with [] => true | x :: _ => negb (is_null x) end.
Fixpoint truncated (v : value) : bool :=
  match v with
  | VStruct d ps => last_nonzero d && last_nonnull ps && forallb truncated ps
  | VList LComp es =>
    (* some element needs the last data word / the last pointer; all elements one size *)
    let dn := max_len sdata es in
    let pn := max_len sptrs es in
    forallb (fun e => (length (sdata e) =? dn)%nat && (length (sptrs e) =? pn)%nat
                      && match e with VStruct _ ps => forallb truncated ps | _ => true end) es
    && ((dn =? 0)%nat || existsb (fun e => last_nonzero (sdata e)) es)
    && ((pn =? 0)%nat || existsb (fun e => last_nonnull (sptrs e)) es)
  | VList LPtr es => forallb (fun e => match e with VStruct _ ps => forallb truncated ps | _ => true end) es
  | _ => true
  end.

(* a capability where the layout stage looks (for normal forms: anywhere) *)
Fixpoint has_cap (v : value) : bool :=
  match v with
  | VCap _ => true
  | VStruct _ ps => existsb has_cap ps
  | VList LComp es => existsb (fun e => match e with VStruct _ ps => existsb has_cap ps | _ => false end) es
  | VList LPtr es => existsb (fun e => match e with VStruct _ (p :: _) => has_cap p | _ => false end) es
  | _ => false
  end.
