(* C02 for capnp.Equal: the read sizes of all pointers Equal hands out (by Struct.Ptr, in either
   message) sum to at most the traversal budget it consumes, per message.
   [equal_mA] is [equal_m] (Value/EqualM.v) with a ghost pair of counters - the sum of the read
   sizes handed out on side A and side B (one counter when both pointers are in the same
   message, exactly like the budgets) - and [equal_mA_erase] shows that dropping the ghost
   gives [equal_m].  No well-formedness is needed: any messages, any pointers, any fuel. *)
From CV Require Import Value.EqualM Value.EqualSafe Core.LimitProofs.
From Coq Require Import ZifyBool.
Open Scope Z_scope.
Ltac Zify.zify_post_hook ::= Z.div_mod_to_equations.

Definition erecA := lims -> lims -> Ptr -> Ptr -> eout * lims * lims.
Definition hsz (r : res Ptr) : Z := match r with Ok p => readSize p | _ => 0 end.
Definition add_h (x : ectx) (g : lims) (s : side) (v : Z) : lims := put_rl x g s (rl_of x g s + v).

Definition ptr_loopA (c : config) (x : ectx) (rec : erecA) (p q : Ptr) : nat -> Z -> lims -> lims -> eout * lims * lims :=
  fix loop (k : nat) (i : Z) (w g : lims) {struct k} : eout * lims * lims :=
    match k with
    | O => (EOk true, w, g)
    | S k' =>
      let '(r1, rl1) := struct_ptr c (segs_of x SA) (rl_of x w SA) p i in
      let w1 := put_rl x w SA rl1 in
      let g1 := add_h x g SA (hsz r1) in
      match r1 with
      | Panic => (EPanic, w1, g1) | Err => (EErr, w1, g1)
      | Ok sp1 =>
        let '(r2, rl2) := struct_ptr c (segs_of x SB) (rl_of x w1 SB) q i in
        let w2 := put_rl x w1 SB rl2 in
        let g2 := add_h x g1 SB (hsz r2) in
        match r2 with
        | Panic => (EPanic, w2, g2) | Err => (EErr, w2, g2)
        | Ok sp2 =>
          match rec w2 g2 sp1 sp2 with
          | (EOk true, w3, g3) => loop k' (i + 1) w3 g3
          | other => other
          end
        end
      end
    end.

Definition elem_loopA (fxd : bool) (rec : erecA) (p q : Ptr) : nat -> Z -> lims -> lims -> eout * lims * lims :=
  fix loop (k : nat) (i : Z) (w g : lims) {struct k} : eout * lims * lims :=
    match k with
    | O => (EOk true, w, g)
    | S k' =>
      match list_struct fxd p i with
      | Panic => (EPanic, w, g) | Err => (EErr, w, g)
      | Ok e1 =>
        match list_struct fxd q i with
        | Panic => (EPanic, w, g) | Err => (EErr, w, g)
        | Ok e2 =>
          match rec w g e1 e2 with
          | (EOk true, w', g') => loop k' (i + 1) w' g'
          | other => other
          end
        end
      end
    end.

Definition equal_structA (c : config) (fx : efix) (x : ectx) (rec : erecA) (w g : lims) (p q : Ptr) : eout * lims * lims :=
  let m1 := segs_of x SA in
  let m2 := segs_of x SB in
  match slice (seg_of m1 p) (p_off p) (DataSize (p_size p)) with
  | Panic => (EPanic, w, g) | Err => (EErr, w, g)
  | Ok d1 =>
    match slice (seg_of m2 q) (p_off q) (DataSize (p_size q)) with
    | Panic => (EPanic, w, g) | Err => (EErr, w, g)
    | Ok d2 =>
      if negb (struct_data_equal d1 d2) then (EOk false, w, g) else
      let pc1 := PointerCount (p_size p) in
      let pc2 := PointerCount (p_size q) in
      let n := Z.min pc1 pc2 in
      match ptr_loopA c x rec p q (Z.to_nat n) 0 w g with
      | (EOk true, w', g') =>
        match no_ptrs (fx_farnull fx) (cfg_strict c) m1 p (Z.to_nat (pc1 - n)) n with
        | Panic => (EPanic, w', g') | Err => (EErr, w', g')
        | Ok false => (EOk false, w', g')
        | Ok true =>
          match no_ptrs (fx_farnull fx) (cfg_strict c) m2 q (Z.to_nat (pc2 - n)) n with
          | Panic => (EPanic, w', g') | Err => (EErr, w', g')
          | Ok b => (EOk b, w', g')
          end
        end
      | other => other
      end
    end
  end.

(* the list case only moves the budgets inside the element loop: every other branch of
   equal_list returns its input state, so the ghost is returned unchanged there *)
Definition equal_listA (fx : efix) (x : ectx) (rec : erecA) (w g : lims) (p q : Ptr) : eout * lims * lims :=
  let m1 := segs_of x SA in
  let m2 := segs_of x SB in
  if negb (list_len p =? list_len q) then (EOk false, w, g)
  else
    let bit_case : option (eout * lims) :=
      if fx_bitlist fx then
        if negb (Bool.eqb (p_bit p) (p_bit q)) then Some (EOk false, w)
        else if p_bit p then
          let sz := bitListSize (p_len p) in
          match slice (seg_of m1 p) (p_off p) sz with
          | Panic => Some (EPanic, w) | Err => Some (EErr, w)
          | Ok d1 =>
            match slice (seg_of m2 q) (p_off q) sz with
            | Panic => Some (EPanic, w) | Err => Some (EErr, w)
            | Ok d2 => Some (EOk (bits_equal d1 d2 (p_len p)), w)
            end
          end
        else None
      else None in
    match bit_case with
    | Some r => (r, g)
    | None =>
      if negb (p_comp p) && negb (p_comp q) && negb (os_eqb (p_size p) (p_size q)) then (EOk false, w, g)
      else if (PointerCount (p_size p) =? 0) && (PointerCount (p_size q) =? 0)
              && (DataSize (p_size p) =? DataSize (p_size q)) then
        let sz := match times (totalSize (p_size p)) (p_len p) with Some x => x | None => 4294967295 end in
        match slice (seg_of m1 p) (p_off p) sz with
        | Panic => (EPanic, w, g) | Err => (EErr, w, g)
        | Ok d1 =>
          match slice (seg_of m2 q) (p_off q) sz with
          | Panic => (EPanic, w, g) | Err => (EErr, w, g)
          | Ok d2 => (EOk (bytes_eqb d1 d2), w, g)
          end
        end
      else elem_loopA (fx_depth (fx_rd fx)) rec p q (Z.to_nat (list_len p)) 0 w g
    end.

Definition equal_stepA (c : config) (fx : efix) (x : ectx) (rec : erecA) (w g : lims) (p q : Ptr) : eout * lims * lims :=
  if negb (p_valid p) && negb (p_valid q) then (EOk true, w, g)
  else if negb (p_valid p) || negb (p_valid q) then (EOk false, w, g)
  else
    match p_kind p, p_kind q with
    | KStruct, KStruct => equal_structA c fx x rec w g p q
    | KList, KList => equal_listA fx x rec w g p q
    | KIface, KIface => (EOk (iface_equal x p q), w, g)
    | _, _ => (EOk false, w, g)
    end.

Fixpoint equal_mA (fuel : nat) (c : config) (fx : efix) (x : ectx) (w g : lims) (p q : Ptr) {struct fuel}
  : eout * lims * lims :=
  match fuel with
  | O => (EFuel, w, g)
  | S f => equal_stepA c fx x (equal_mA f c fx x) w g p q
  end.

(* ------------------------------------------------------------------ erasure *)
Definition erases (recA : erecA) (rec : erec) : Prop := forall w g p q, fst (recA w g p q) = rec w p q.

Lemma ptr_loopA_erase c x recA rec p q : erases recA rec ->
  forall k i w g, fst (ptr_loopA c x recA p q k i w g) = ptr_loop c x rec p q k i w.
Proof.
  intros He. induction k as [|k IH]; intros i w g; [reflexivity|].
  rewrite ptr_loop_S. change (ptr_loopA c x recA p q (S k) i w g) with
    (let '(r1, rl1) := struct_ptr c (segs_of x SA) (rl_of x w SA) p i in
     let w1 := put_rl x w SA rl1 in
     let g1 := add_h x g SA (hsz r1) in
     match r1 with
     | Panic => (EPanic, w1, g1) | Err => (EErr, w1, g1)
     | Ok sp1 =>
       let '(r2, rl2) := struct_ptr c (segs_of x SB) (rl_of x w1 SB) q i in
       let w2 := put_rl x w1 SB rl2 in
       let g2 := add_h x g1 SB (hsz r2) in
       match r2 with
       | Panic => (EPanic, w2, g2) | Err => (EErr, w2, g2)
       | Ok sp2 =>
         match recA w2 g2 sp1 sp2 with
         | (EOk true, w3, g3) => ptr_loopA c x recA p q k (i + 1) w3 g3
         | other => other
         end
       end
     end).
  destruct (struct_ptr c (segs_of x SA) (rl_of x w SA) p i) as [r1 rl1]. cbv zeta.
  destruct r1 as [sp1| |]; try reflexivity.
  destruct (struct_ptr c (segs_of x SB) _ q i) as [r2 rl2].
  destruct r2 as [sp2| |]; try reflexivity.
  rewrite <- (He _ (add_h x (add_h x g SA (hsz (Ok sp1))) SB (hsz (Ok sp2))) sp1 sp2).
  destruct (recA _ _ sp1 sp2) as [[o w3] g3]. cbn [fst].
  destruct o as [[|]| | |]; try reflexivity. apply IH.
Qed.

Lemma elem_loopA_erase fxd recA rec p q : erases recA rec ->
  forall k i w g, fst (elem_loopA fxd recA p q k i w g) = elem_loop fxd rec p q k i w.
Proof.
  intros He. induction k as [|k IH]; intros i w g; [reflexivity|].
  rewrite elem_loop_S. change (elem_loopA fxd recA p q (S k) i w g) with
    (match list_struct fxd p i with
     | Panic => (EPanic, w, g) | Err => (EErr, w, g)
     | Ok e1 =>
       match list_struct fxd q i with
       | Panic => (EPanic, w, g) | Err => (EErr, w, g)
       | Ok e2 =>
         match recA w g e1 e2 with
         | (EOk true, w', g') => elem_loopA fxd recA p q k (i + 1) w' g'
         | other => other
         end
       end
     end).
  destruct (list_struct fxd p i) as [e1| |]; try reflexivity.
  destruct (list_struct fxd q i) as [e2| |]; try reflexivity.
  rewrite <- (He w g e1 e2). destruct (recA w g e1 e2) as [[o w'] g']. cbn [fst].
  destruct o as [[|]| | |]; try reflexivity. apply IH.
Qed.

Lemma equal_stepA_erase c fx x recA rec : erases recA rec -> erases (equal_stepA c fx x recA) (equal_step c fx x rec).
Proof.
  intros He w g p q. unfold equal_stepA, equal_step.
  destruct (negb (p_valid p) && negb (p_valid q)); [reflexivity|].
  destruct (negb (p_valid p) || negb (p_valid q)); [reflexivity|].
  destruct (p_kind p), (p_kind q); try reflexivity.
  - unfold equal_structA, equal_struct. cbv zeta.
    destruct (slice _ _ _); try reflexivity. destruct (slice _ _ _); try reflexivity.
    destruct (negb _); [reflexivity|].
    rewrite <- (ptr_loopA_erase c x recA rec p q He _ 0 w g).
    destruct (ptr_loopA c x recA p q _ 0 w g) as [[o w'] g']. cbn [fst].
    destruct o as [[|]| | |]; try reflexivity.
    destruct (no_ptrs _ _ _ p _ _) as [[|]| |]; try reflexivity.
    destruct (no_ptrs _ _ _ q _ _); reflexivity.
  - unfold equal_listA, equal_list. cbv zeta.
    destruct (negb (list_len p =? list_len q)); [reflexivity|].
    match goal with |- fst (match ?bc with Some r => (r, g) | None => _ end) = _ => destruct bc as [r|] end;
      [reflexivity|].
    destruct (_ && _ && _); [reflexivity|].
    destruct (_ && _ && _).
    + destruct (slice _ _ _); try reflexivity. destruct (slice _ _ _); reflexivity.
    + apply elem_loopA_erase. exact He.
Qed.

Theorem equal_mA_erase c fx x : forall fuel w g p q,
  fst (equal_mA fuel c fx x w g p q) = equal_m fuel c fx x w p q.
Proof.
  induction fuel as [|f IH]; intros w g p q; [reflexivity|].
  cbn [equal_mA equal_m]. apply equal_stepA_erase. exact IH.
Qed.

(* ------------------------------------------------------------------ accounting *)
(* per side: the budget stays >= 0, the handed-out sum only grows, and budget + handed-out sum
   never increases *)
Definition acct (x : ectx) (w g w' g' : lims) : Prop :=
  forall s, 0 <= rl_of x w' s /\ rl_of x g s <= rl_of x g' s /\
            rl_of x w' s + rl_of x g' s <= rl_of x w s + rl_of x g s.

Definition nonneg2 (x : ectx) (w : lims) : Prop := forall s, 0 <= rl_of x w s.

Lemma acct_refl x w g : nonneg2 x w -> acct x w g w g.
Proof. intros H s. specialize (H s). lia. Qed.
Lemma acct_trans x a ga b gb c gc : acct x a ga b gb -> acct x b gb c gc -> acct x a ga c gc.
Proof. intros H1 H2 s. specialize (H1 s). specialize (H2 s). lia. Qed.
Lemma acct_nonneg x w g w' g' : acct x w g w' g' -> nonneg2 x w'.
Proof. intros H s. apply H. Qed.

Lemma acct_put x w g s0 rl1 h : nonneg2 x w -> 0 <= rl1 -> 0 <= h -> rl1 + h <= rl_of x w s0 ->
  acct x w g (put_rl x w s0 rl1) (add_h x g s0 h).
Proof.
  intros Hn H1 H2 H3 s. pose proof (Hn s) as Hs. pose proof (Hn s0) as Hs0.
  unfold add_h, rl_of, put_rl in *. destruct (on_a x s0), (on_a x s); cbn [fst snd]; lia.
Qed.

Definition recA_ok (x : ectx) (rec : erecA) : Prop :=
  forall w g p q, nonneg2 x w -> acct x w g (snd (fst (rec w g p q))) (snd (rec w g p q)).

Lemma struct_ptr_acct c x w g s p i : nonneg2 x w ->
  let r := struct_ptr c (segs_of x s) (rl_of x w s) p i in
  acct x w g (put_rl x w s (snd r)) (add_h x g s (hsz (fst r))).
Proof.
  intros Hn r. pose proof (struct_ptr_charge c (segs_of x s) (rl_of x w s) p i (Hn s)) as [[C1 C2] C3].
  fold r in C1, C2, C3. apply acct_put; auto; try lia.
  - unfold hsz. destruct (fst r); [apply readSize_nonneg|lia|lia].
  - unfold hsz. destruct (fst r); lia.
Qed.

Lemma ptr_loopA_acct c x rec p q : recA_ok x rec ->
  forall k i w g, nonneg2 x w ->
  acct x w g (snd (fst (ptr_loopA c x rec p q k i w g))) (snd (ptr_loopA c x rec p q k i w g)).
Proof.
  intros Hrec. induction k as [|k IH]; intros i w g Hn; [apply acct_refl; assumption|].
  change (ptr_loopA c x rec p q (S k) i w g) with
    (let '(r1, rl1) := struct_ptr c (segs_of x SA) (rl_of x w SA) p i in
     let w1 := put_rl x w SA rl1 in
     let g1 := add_h x g SA (hsz r1) in
     match r1 with
     | Panic => (EPanic, w1, g1) | Err => (EErr, w1, g1)
     | Ok sp1 =>
       let '(r2, rl2) := struct_ptr c (segs_of x SB) (rl_of x w1 SB) q i in
       let w2 := put_rl x w1 SB rl2 in
       let g2 := add_h x g1 SB (hsz r2) in
       match r2 with
       | Panic => (EPanic, w2, g2) | Err => (EErr, w2, g2)
       | Ok sp2 =>
         match rec w2 g2 sp1 sp2 with
         | (EOk true, w3, g3) => ptr_loopA c x rec p q k (i + 1) w3 g3
         | other => other
         end
       end
     end).
  pose proof (struct_ptr_acct c x w g SA p i Hn) as A1. cbv zeta in A1.
  destruct (struct_ptr c (segs_of x SA) (rl_of x w SA) p i) as [r1 rl1]. cbn [fst snd] in A1. cbv zeta.
  pose proof (acct_nonneg _ _ _ _ _ A1) as N1.
  destruct r1 as [sp1| |]; try exact A1.
  pose proof (struct_ptr_acct c x (put_rl x w SA rl1) (add_h x g SA (hsz (Ok sp1))) SB q i N1) as A2. cbv zeta in A2.
  destruct (struct_ptr c (segs_of x SB) _ q i) as [r2 rl2]. cbn [fst snd] in A2.
  pose proof (acct_trans _ _ _ _ _ _ _ A1 A2) as A12. pose proof (acct_nonneg _ _ _ _ _ A2) as N2.
  destruct r2 as [sp2| |]; try exact A12.
  pose proof (Hrec _ (add_h x (add_h x g SA (hsz (Ok sp1))) SB (hsz (Ok sp2))) sp1 sp2 N2) as A3.
  destruct (rec _ _ sp1 sp2) as [[o w3] g3]. cbn [fst snd] in A3.
  pose proof (acct_trans _ _ _ _ _ _ _ A12 A3) as A123.
  destruct o as [[|]| | |]; try exact A123.
  eapply acct_trans; [exact A123|]. apply IH. eapply acct_nonneg; exact A3.
Qed.

Lemma elem_loopA_acct fxd x rec p q : recA_ok x rec ->
  forall k i w g, nonneg2 x w ->
  acct x w g (snd (fst (elem_loopA fxd rec p q k i w g))) (snd (elem_loopA fxd rec p q k i w g)).
Proof.
  intros Hrec. induction k as [|k IH]; intros i w g Hn; [apply acct_refl; assumption|].
  change (elem_loopA fxd rec p q (S k) i w g) with
    (match list_struct fxd p i with
     | Panic => (EPanic, w, g) | Err => (EErr, w, g)
     | Ok e1 =>
       match list_struct fxd q i with
       | Panic => (EPanic, w, g) | Err => (EErr, w, g)
       | Ok e2 =>
         match rec w g e1 e2 with
         | (EOk true, w', g') => elem_loopA fxd rec p q k (i + 1) w' g'
         | other => other
         end
       end
     end).
  destruct (list_struct fxd p i) as [e1| |]; try (apply acct_refl; assumption).
  destruct (list_struct fxd q i) as [e2| |]; try (apply acct_refl; assumption).
  pose proof (Hrec w g e1 e2 Hn) as A. destruct (rec w g e1 e2) as [[o w'] g']. cbn [fst snd] in A.
  destruct o as [[|]| | |]; try exact A.
  eapply acct_trans; [exact A|]. apply IH. eapply acct_nonneg; exact A.
Qed.

Lemma equal_stepA_acct c fx x rec : recA_ok x rec -> recA_ok x (equal_stepA c fx x rec).
Proof.
  intros Hrec w g p q Hn. pose proof (acct_refl x w g Hn) as R. unfold equal_stepA.
  destruct (negb (p_valid p) && negb (p_valid q)); [exact R|].
  destruct (negb (p_valid p) || negb (p_valid q)); [exact R|].
  destruct (p_kind p), (p_kind q); try exact R.
  - unfold equal_structA. cbv zeta.
    destruct (slice _ _ _); try exact R. destruct (slice _ _ _); try exact R.
    destruct (negb _); [exact R|].
    pose proof (ptr_loopA_acct c x rec p q Hrec
                  (Z.to_nat (Z.min (PointerCount (p_size p)) (PointerCount (p_size q)))) 0 w g Hn) as A.
    destruct (ptr_loopA c x rec p q _ 0 w g) as [[o w'] g']. cbn [fst snd] in A.
    destruct o as [[|]| | |]; try exact A.
    destruct (no_ptrs _ _ _ p _ _) as [[|]| |]; try exact A.
    destruct (no_ptrs _ _ _ q _ _); exact A.
  - unfold equal_listA. cbv zeta.
    destruct (negb (list_len p =? list_len q)); [exact R|].
    match goal with |- acct x w g (snd (fst (match ?bc with Some r => (r, g) | None => _ end))) _ =>
      assert (match bc with Some r => snd r = w | None => True end) as Hb; [|destruct bc as [r|]] end.
    { destruct (fx_bitlist fx); [|exact I]. destruct (negb _); [reflexivity|].
      destruct (p_bit p); [|exact I]. destruct (slice _ _ _); try reflexivity.
      destruct (slice _ _ _); reflexivity. }
    { cbn [fst snd]. rewrite Hb. exact R. }
    destruct (_ && _ && _); [exact R|].
    destruct (_ && _ && _).
    + destruct (slice _ _ _); try exact R. destruct (slice _ _ _); exact R.
    + apply elem_loopA_acct; assumption.
Qed.

Theorem equal_mA_acct c fx x : forall fuel, recA_ok x (equal_mA fuel c fx x).
Proof.
  induction fuel as [|f IH].
  - intros w g p q Hn. apply acct_refl. assumption.
  - cbn [equal_mA]. apply equal_stepA_acct. exact IH.
Qed.

(* equal_m_traversal: started with the ghost at 0, on each side the read sizes handed out sum
   to at most the budget consumed on that side, hence to at most the budget (T) it started
   with; the budgets never go negative.  [equal_mA_erase]: same outcome and budgets as equal_m. *)
Theorem equal_m_traversal c fx x fuel w p q :
  nonneg2 x w ->
  let r := equal_mA fuel c fx x w (0, 0) p q in
  fst r = equal_m fuel c fx x w p q /\
  forall s, 0 <= rl_of x (snd (fst r)) s /\ 0 <= rl_of x (snd r) s /\
            rl_of x (snd r) s <= rl_of x w s - rl_of x (snd (fst r)) s /\
            rl_of x (snd r) s <= rl_of x w s.
Proof.
  intros Hn r. split; [apply equal_mA_erase|]. intros s.
  pose proof (equal_mA_acct c fx x fuel w (0, 0) p q Hn s) as (A1 & A2 & A3). fold r in A1, A2, A3.
  assert (rl_of x (0, 0) s = 0) as E0 by (unfold rl_of; destruct (on_a x s); reflexivity).
  rewrite E0 in *. lia.
Qed.

(* non-vacuity: a struct -> composite list -> element compared with itself (same message):
   Equal dereferences the list pointer twice (8 bytes each); handed out = consumed = 16 *)
Example equal_traversal_example :
  let c := mkCfg 1000 4 true true in
  let fx := mkEFix true true (mkFix true true true) in
  let x := mkEC eq_deep_msg [] eq_deep_msg [] true in
  exists p rl0, root c eq_deep_msg 1000 = (Ok p, rl0) /\
  equal_mA 6 c fx x (rl0, 0) (0, 0) p p = (EOk true, (rl0 - 16, 0), (16, 0)).
Proof. do 2 eexists. split; [vm_compute; reflexivity|]. vm_compute. reflexivity. Qed.
