(* C18 at the model level: the full correctness statement of the Go-faithful model of
   Canonicalize ([T2], not proved in full), the cases proved, and the F04 / O2 witnesses on
   the as-found variants. *)
From CV Require Import Value.ValueEq Value.EqualM Value.CanonSpec Value.CanonM Value.EqualProofs Value.Den
                       Value.CanonProofs Value.CanonProofs3 Value.CanonMStruct.
From CV Require Import Core.ReaderFacts Core.SafetyProofs.
Open Scope Z_scope.

(* [T2] whenever Canonicalize returns bytes, they are the specification's canonical form of
   the value the struct denotes, and it never panics (the as-found code did: F04).
   Proved so far: the null struct (canon_m_null_partial), the size computation for every
   struct (CanonMStruct.canonicalStructSize_spec) and, end to end, every struct whose fields
   are all default (CanonMStruct.canon_m_default_struct_partial).  The heap-level
   induction is in CanonMInd / CanonMList{P,R,B,C} / CanonMTop: CanonMTop.canon_m_correct_full proves this
   statement (with a non-negative traversal budget) for every value; the ..._if corollaries below are
   superseded by CanonMTop.canon_m_layout_independent / _value_preserved / _idempotent_given_readback. *)
Definition canon_m_correct_statement : Prop :=
  forall fuel c fx m rl s v,
    all_cfixed fx -> cfg_strict c = true -> msg_ok m -> wf_ptr m s ->
    (p_valid s = true -> p_kind s = KStruct /\ DataSize (p_size s) mod 8 = 0) ->
    den true m 0 [] s v ->
    forall r rl', canonicalize c fx fuel m rl s = (r, rl') ->
    match r with
    | KOk bs => canon v = Some bs
    | KErr => True          (* limits, or canon v = None (capability) *)
    | KPanic => False
    | KFuel => True
    end.

(* what follows from it, with the specification-level theorems (all proved): *)
(* layout / version independence of Canonicalize *)
Theorem canon_m_layout_independent_if : canon_m_correct_statement ->
  forall fuel c fx m1 rl1 s1 v1 m2 rl2 s2 v2 bs1 bs2 r1 r2,
    all_cfixed fx -> cfg_strict c = true -> msg_ok m1 -> msg_ok m2 -> wf_ptr m1 s1 -> wf_ptr m2 s2 ->
    (p_valid s1 = true -> p_kind s1 = KStruct /\ DataSize (p_size s1) mod 8 = 0) ->
    (p_valid s2 = true -> p_kind s2 = KStruct /\ DataSize (p_size s2) mod 8 = 0) ->
    den true m1 0 [] s1 v1 -> den true m2 0 [] s2 v2 ->
    nocap v1 = true -> value_eqs v1 v2 = true ->
    canonicalize c fx fuel m1 rl1 s1 = (KOk bs1, r1) -> canonicalize c fx fuel m2 rl2 s2 = (KOk bs2, r2) ->
    bs1 = bs2.
Proof.
  intros T fuel c fx m1 rl1 s1 v1 m2 rl2 s2 v2 bs1 bs2 r1 r2 Hf Hs M1 M2 W1 W2 K1 K2 D1 D2 Hc He C1 C2.
  pose proof (T fuel c fx m1 rl1 s1 v1 Hf Hs M1 W1 K1 D1 _ _ C1) as E1. cbn in E1.
  pose proof (T fuel c fx m2 rl2 s2 v2 Hf Hs M2 W2 K2 D2 _ _ C2) as E2. cbn in E2.
  rewrite (canon_unique v1 v2 Hc He) in E1. congruence.
Qed.

(* value preservation: the output decodes (strict pre-order decoder) to an equal value *)
Theorem canon_m_value_preserved_if : canon_m_correct_statement ->
  forall fuel c fx m rl s v bs r,
    all_cfixed fx -> cfg_strict c = true -> msg_ok m -> wf_ptr m s ->
    (p_valid s = true -> p_kind s = KStruct /\ DataSize (p_size s) mod 8 = 0) ->
    den true m 0 [] s v -> good v ->
    canonicalize c fx fuel m rl s = (KOk bs, r) ->
    exists v', cdecode (S (vdepth (norm v))) bs = Some v' /\ value_eqs v' v = true /\ value_eq v' v = true.
Proof.
  intros T fuel c fx m rl s v bs r Hf Hs M W K D G C.
  pose proof (T fuel c fx m rl s v Hf Hs M W K D _ _ C) as E. cbn in E.
  apply canon_decodes_equal; assumption.
Qed.

(* idempotence: canonicalising a message that reads back as an equal value returns the same bytes *)
Theorem canon_m_idempotent_if : canon_m_correct_statement ->
  forall fuel c fx m rl s v bs r m' rl' s' v' bs' r',
    all_cfixed fx -> cfg_strict c = true -> msg_ok m -> msg_ok m' -> wf_ptr m s -> wf_ptr m' s' ->
    (p_valid s = true -> p_kind s = KStruct /\ DataSize (p_size s) mod 8 = 0) ->
    (p_valid s' = true -> p_kind s' = KStruct /\ DataSize (p_size s') mod 8 = 0) ->
    den true m 0 [] s v -> nocap v = true ->
    canonicalize c fx fuel m rl s = (KOk bs, r) ->
    den true m' 0 [] s' v' -> value_eqs v v' = true ->      (* m' = the output, read back *)
    canonicalize c fx fuel m' rl' s' = (KOk bs', r') ->
    bs' = bs.
Proof.
  intros T fuel c fx m rl s v bs r m' rl' s' v' bs' r' Hf Hs M M' W W' K K' D Hc C D' He C'.
  symmetry. eapply (canon_m_layout_independent_if T fuel c fx m rl s v m' rl' s' v'); eassumption.
Qed.

(* proved: the invalid struct (Canonicalize of a null pointer's Struct()) *)
Theorem canon_m_null_partial : forall fuel c fx m rl s,
  p_valid s = false ->
  canonicalize c fx fuel m rl s = (KOk (repeat 0 8%nat), rl) /\ canon VNull = Some (repeat 0 8%nat).
Proof.
  intros fuel c fx m rl s Hs. split.
  - unfold canonicalize. replace (new_message ASingle [] 0) with (Ok (mkBM ASingle [mkBS (repeat 0 8%nat) 1024] [] 0))
      by (vm_compute; reflexivity).
    rewrite Hs. reflexivity.
  - vm_compute. reflexivity.
Qed.

(* ------------------------------------------------------------------ F04 / O2: as found *)
(* root struct with one pointer to a struct list of 2 elements with one data word (7, 0) and
   no pointers, at the end of the segment *)
Definition msg_complist (tail : list Z) : segs :=
  [wbytes ([struct_word 0 0 1; list_word 0 7 2; struct_word 2 1 0; 7; 0] ++ tail)].
Definition asfound := mkCFix false false false rdfix.
Definition repaired := mkCFix true true true rdfix.

Definition spec_bytes (m : segs) : option (option (list Z)) := fst (spec_canon 20 cfg0 rdfix m SelRoot 1024 64).

(* as found, cap == len: the raw copy reads 8 bytes past the list and panics; with more data
   behind the list it returns bytes that are not the canonical form (tag lost, nothing
   truncated); repaired: the specification's bytes in both cases *)
Example canon_prefix_refuted :
  run_canon 30 cfg0 asfound (msg_complist []) SelRoot = KPanic
  /\ (exists bs, run_canon 30 cfg0 asfound (msg_complist [99]) SelRoot = KOk bs
                 /\ spec_bytes (msg_complist [99]) <> Some (Some bs))
  /\ (exists bs, run_canon 30 cfg0 repaired (msg_complist []) SelRoot = KOk bs
                 /\ spec_bytes (msg_complist []) = Some (Some bs)
                 /\ run_canon 30 cfg0 repaired (msg_complist [99]) SelRoot = KOk bs).
Proof.
  split; [vm_compute; reflexivity|]. split.
  - eexists. split; [vm_compute; reflexivity|]. vm_compute. intros H. discriminate H.
  - eexists. split; [vm_compute; reflexivity|]. split; vm_compute; reflexivity.
Qed.

(* O2: dirty padding bits of a bit list (3 bits, byte 0xfd) *)
Example canon_bitpad_prefix_refuted :
  (exists bs, run_canon 30 cfg0 (mkCFix true false true rdfix) (msg_bits 253) SelRoot = KOk bs
              /\ spec_bytes (msg_bits 253) <> Some (Some bs))
  /\ (exists bs, run_canon 30 cfg0 repaired (msg_bits 253) SelRoot = KOk bs
                 /\ spec_bytes (msg_bits 253) = Some (Some bs)
                 /\ run_canon 30 cfg0 repaired (msg_bits 5) SelRoot = KOk bs).
Proof.
  split.
  - eexists. split; [vm_compute; reflexivity|]. vm_compute. intros H. discriminate H.
  - eexists. split; [vm_compute; reflexivity|]. split; vm_compute; reflexivity.
Qed.
