(* C18 at the model level: the full correctness statement of the Go-faithful model of
   Canonicalize ([T2], not proved in full), the cases proved, and the F04 / O2 witnesses on
   the as-found variants. *)
From CV Require Import Value.ValueEq Value.EqualM Value.CanonSpec Value.CanonM Value.EqualProofs Value.Den.
From CV Require Import Core.ReaderFacts.
Open Scope Z_scope.

Definition all_cfixed (fx : cfix) : Prop :=
  cx_complist fx = true /\ cx_bitpad fx = true /\ cx_farnull fx = true /\
  fx_depth (cx_rd fx) = true /\ fx_upgrade (cx_rd fx) = true /\ fx_bit (cx_rd fx) = true.

(* [T2] whenever Canonicalize returns bytes, they are the specification's canonical form of
   the value the struct denotes; with a capability-free value and sufficient limits it does
   return bytes (the converse direction is part of the statement) *)
Definition canon_m_correct_statement : Prop :=
  forall fuel c fx m rl s v,
    all_cfixed fx ->
    cfg_strict c = true -> msg_ok m -> den true m 0 [] s v ->
    forall r rl', canonicalize c fx fuel m rl s = (r, rl') ->
    match r with
    | KOk bs => canon v = Some bs
    | KErr => True          (* limits, or canon v = None (capability) *)
    | KPanic => False
    | KFuel => True
    end.

(* proved: the invalid struct (Canonicalize of a null pointer's Struct()) *)
Theorem canon_m_null_partial : forall fuel c fx m rl s,
  p_valid s = false ->
  canonicalize c fx fuel m rl s = (KOk (repeat 0 8%nat), rl) /\ canon VNull = Some (repeat 0 8%nat).
Proof.
  intros fuel c fx m rl s Hs. split.
  - unfold canonicalize. replace (new_message ASingle [] 0) with (Ok (mkBM ASingle [mkBS (repeat 0 8%nat) 1024] [] 0))
      by (vm_compute; reflexivity).
    rewrite Hs. reflexivity.
  - vm_compute. reflexivity.
Qed.

(* ------------------------------------------------------------------ F04 / O2: as found *)
(* root struct with one pointer to a struct list of 2 elements with one data word (7, 0) and
   no pointers, at the end of the segment *)
Definition msg_complist (tail : list Z) : segs :=
  [wbytes ([struct_word 0 0 1; list_word 0 7 2; struct_word 2 1 0; 7; 0] ++ tail)].
Definition asfound := mkCFix false false false rdfix.
Definition repaired := mkCFix true true true rdfix.

Definition spec_bytes (m : segs) : option (option (list Z)) := fst (spec_canon 20 cfg0 rdfix m SelRoot 1024 64).

(* as found, cap == len: the raw copy reads 8 bytes past the list and panics; with more data
   behind the list it returns bytes that are not the canonical form (tag lost, nothing
   truncated); repaired: the specification's bytes in both cases *)
Example canon_prefix_refuted :
  run_canon 30 cfg0 asfound (msg_complist []) SelRoot = KPanic
  /\ (exists bs, run_canon 30 cfg0 asfound (msg_complist [99]) SelRoot = KOk bs
                 /\ spec_bytes (msg_complist [99]) <> Some (Some bs))
  /\ (exists bs, run_canon 30 cfg0 repaired (msg_complist []) SelRoot = KOk bs
                 /\ spec_bytes (msg_complist []) = Some (Some bs)
                 /\ run_canon 30 cfg0 repaired (msg_complist [99]) SelRoot = KOk bs).
Proof.
  split; [vm_compute; reflexivity|]. split.
  - eexists. split; [vm_compute; reflexivity|]. vm_compute. intros H. discriminate H.
  - eexists. split; [vm_compute; reflexivity|]. split; vm_compute; reflexivity.
Qed.

(* O2: dirty padding bits of a bit list (3 bits, byte 0xfd) *)
Example canon_bitpad_prefix_refuted :
  (exists bs, run_canon 30 cfg0 (mkCFix true false true rdfix) (msg_bits 253) SelRoot = KOk bs
              /\ spec_bytes (msg_bits 253) <> Some (Some bs))
  /\ (exists bs, run_canon 30 cfg0 repaired (msg_bits 253) SelRoot = KOk bs
                 /\ spec_bytes (msg_bits 253) = Some (Some bs)
                 /\ run_canon 30 cfg0 repaired (msg_bits 5) SelRoot = KOk bs).
Proof.
  split.
  - eexists. split; [vm_compute; reflexivity|]. vm_compute. intros H. discriminate H.
  - eexists. split; [vm_compute; reflexivity|]. split; vm_compute; reflexivity.
Qed.
