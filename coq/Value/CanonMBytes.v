(* C18 [T2] / C16 [T2]: byte-level helper lemmas shared by the list cases (words <-> bytes <-> pack,
   raw writes into the single destination segment) and the inversion lemmas of den for lists. *)
From CV Require Import Value.ValueEq Value.ValueEqProofs Value.EqualM Value.Den Value.DenFacts Value.DenLists
                       Value.CanonSpec Value.CanonProofs Value.CanonProofs3 Value.CanonM Value.CanonMStruct
                       Value.CanonMWords Value.CanonMData Value.CanonMHeap Value.CanonMLoop Value.CanonSafe Value.EqualProofs
                       Value.CanonMProofs Value.CanonMInd Value.VDecProofs.
From CV Require Import Core.ReaderFacts Core.SafetyProofs Core.BuilderFacts Core.ArithFacts Core.CopySafe.
From Coq Require Import ZifyBool ZifyNat.
Ltac Zify.zify_post_hook ::= Z.div_mod_to_equations.
Open Scope Z_scope.

(* ------------------------------------------------------------------ bytes, words and pack *)
Lemma le_decode_app a b : le_decode (a ++ b) = le_decode a + 256 ^ zlen a * le_decode b.
Proof.
  induction a as [|x a IH]; cbn [app le_decode].
  - unfold zlen. cbn [length]. change (256 ^ Z.of_nat 0) with 1. lia.
  - rewrite IH. unfold zlen. cbn [length]. rewrite Nat2Z.inj_succ, Z.pow_succ_r by lia. ring.
Qed.

Lemma pack_word_chunks w g : Forall (fun c : list Z => length c = w) g ->
  pack_word (256 ^ Z.of_nat w) (map le_decode g) = le_decode (concat g).
Proof.
  induction 1 as [|c g Hc Hg IH]; cbn [map pack_word concat le_decode]; [reflexivity|].
  rewrite le_decode_app, IH. unfold zlen. rewrite Hc. reflexivity.
Qed.

Lemma concat_length_const w (g : list (list Z)) : Forall (fun c => length c = w) g -> length (concat g) = (w * length g)%nat.
Proof. induction 1 as [|c g Hc Hg IH]; cbn [concat length]; [lia|]. rewrite app_length, IH, Hc. lia. Qed.

Lemma Forall_firstn' {A} (P : A -> Prop) k l : Forall P l -> Forall P (firstn k l).
Proof. intros H. revert k. induction H; intros [|k]; cbn [firstn]; constructor; auto. Qed.
Lemma Forall_skipn' {A} (P : A -> Prop) k l : Forall P l -> Forall P (skipn k l).
Proof. intros H. revert k. induction H; intros [|k]; cbn [skipn]; try constructor; auto. Qed.

Lemma wob_8 a r : length a = 8%nat -> words_of_bytes (a ++ r) = le_decode a :: words_of_bytes r.
Proof.
  intros H. do 8 (destruct a as [|? a]; [discriminate H|]). destruct a; [|discriminate H]. reflexivity.
Qed.

Lemma wob_small l : (0 < length l < 8)%nat -> words_of_bytes l = [le_decode l].
Proof.
  intros H. destruct l as [|b0 l]; [cbn in H; lia|].
  do 7 (destruct l as [|? l]; [reflexivity|]). cbn [length] in H. lia.
Qed.

Lemma pack_chunks w per : (w * per = 8)%nat -> forall fuel cs, (length cs <= fuel)%nat ->
  Forall (fun c : list Z => length c = w) cs ->
  pack_all fuel (256 ^ Z.of_nat w) per (map le_decode cs) = words_of_bytes (concat cs).
Proof.
  intros Hwp. assert (Hw : (1 <= w)%nat) by (destruct w; lia). assert (Hp : (1 <= per)%nat) by (destruct per; lia).
  induction fuel as [|fuel IH]; intros cs Hl Hf.
  - destruct cs; [reflexivity| cbn [length] in Hl; lia].
  - destruct cs as [|c0 r] eqn:Ecs; [reflexivity|].
    assert (Hne : (1 <= length cs)%nat) by (rewrite Ecs; cbn [length]; lia).
    cbn [map pack_all]. change (le_decode c0 :: map le_decode r) with (map le_decode (c0 :: r)). rewrite <- Ecs in *.
    rewrite firstn_map, skipn_map.
    rewrite (pack_word_chunks w) by (apply Forall_firstn'; exact Hf).
    rewrite IH; [| rewrite skipn_length; lia | apply Forall_skipn'; exact Hf].
    rewrite <- (firstn_skipn per cs) at 3. rewrite concat_app.
    pose proof (concat_length_const w _ (Forall_firstn' _ per cs Hf)) as Lg. rewrite firstn_length in Lg.
    destruct (Nat.le_gt_cases per (length cs)) as [Hge|Hlt].
    + rewrite Nat.min_l in Lg by lia. rewrite wob_8 by lia. reflexivity.
    + rewrite Nat.min_r in Lg by lia.
      rewrite (skipn_all2 cs) by lia. cbn [concat]. rewrite app_nil_r.
      assert (w * length cs < w * per)%nat by (apply Nat.mul_lt_mono_pos_l; lia).
      assert (1 * 1 <= w * length cs)%nat by (apply Nat.mul_le_mono; lia).
      change (words_of_bytes []) with (@nil Z). rewrite wob_small by lia. reflexivity.
Qed.

Lemma le_encode_zero n : le_encode n 0 = repeat 0 n.
Proof. induction n; cbn [le_encode repeat]; [reflexivity|]. change (0 mod 256) with 0. change (0 / 256) with 0. rewrite IHn. reflexivity. Qed.

Lemma le_encode_decode_pad : forall l n, bytes_ok l -> (length l <= n)%nat ->
  le_encode n (le_decode l) = l ++ repeat 0 (n - length l).
Proof.
  induction l as [|b l IH]; intros n Hb Hl.
  - cbn [le_decode length app]. rewrite Nat.sub_0_r. apply le_encode_zero.
  - destruct n as [|n]; [cbn [length] in Hl; lia|]. inversion Hb as [|? ? Hb0 Hbl]; subst.
    cbn [le_decode le_encode length app Nat.sub].
    replace ((b + 256 * le_decode l) mod 256) with b by lia.
    replace ((b + 256 * le_decode l) / 256) with (le_decode l) by lia.
    rewrite IH; [reflexivity|exact Hbl|cbn [length] in Hl; lia].
Qed.

(* read as words and written back, bytes come back zero-padded to a word boundary *)
Lemma bow_wob_pad : forall fuel d, (length d <= fuel)%nat -> bytes_ok d ->
  exists k, bytes_of_words (words_of_bytes d) = d ++ repeat 0 k /\ ((length d + k) mod 8 = 0)%nat /\ (k < 8)%nat.
Proof.
  induction fuel as [|fuel IH]; intros d Hl Hb.
  - destruct d; [|cbn [length] in Hl; lia]. exists 0%nat. split; [reflexivity|]. split; [reflexivity|lia].
  - destruct (Nat.le_gt_cases 8 (length d)) as [Hge|Hlt].
    + assert (Ew : words_of_bytes d = le_decode (firstn 8 d) :: words_of_bytes (skipn 8 d)).
      { rewrite <- (firstn_skipn 8 d) at 1. apply wob_8. rewrite firstn_length; lia. }
      destruct (IH (skipn 8 d)) as (k & E & Hm & Hk); [rewrite skipn_length; lia| apply Forall_skipn'; exact Hb|].
      exists k. rewrite Ew. unfold bytes_of_words. cbn [flat_map]. fold (bytes_of_words (words_of_bytes (skipn 8 d))). rewrite E.
      assert (L8 : length (firstn 8 d) = 8%nat) by (rewrite firstn_length; lia).
      pose proof (le_encode_decode (firstn 8 d) (Forall_firstn' _ 8 d Hb)) as E8. rewrite L8 in E8. rewrite E8.
      rewrite app_assoc, firstn_skipn. split; [reflexivity|]. split; [|exact Hk].
      rewrite skipn_length in Hm. replace (length d + k)%nat with ((length d - 8 + k) + 1 * 8)%nat by lia.
      rewrite Nat.mod_add by discriminate. exact Hm.
    + destruct d as [|b0 r] eqn:Ed.
      * exists 0%nat. split; [reflexivity|]. split; [reflexivity|lia].
      * rewrite <- Ed in *. assert (0 < length d)%nat by (rewrite Ed; cbn [length]; lia).
        rewrite wob_small by lia. exists (8 - length d)%nat. unfold bytes_of_words. cbn [flat_map]. rewrite app_nil_r.
        rewrite le_encode_decode_pad by (assumption || lia). split; [reflexivity|].
        split; [|lia]. replace (length d + (8 - length d))%nat with 8%nat by lia. reflexivity.
Qed.

(* ------------------------------------------------------------------ heap facts for the raw copy *)
Lemma alloc_bound_pad data cap sz m1 s1 a1 :
  alloc (seg0 data cap) 0 sz = Ok (m1, s1, a1) -> zlen data + padToWord sz <= 4294967288.
Proof.
  intros H. unfold alloc in H. destruct (sz >? maxAllocSize) eqn:E0; [discriminate H|].
  change (get_seg (seg0 data cap) 0) with (mkBS data cap) in H.
  destruct (hasCapacity (mkBS data cap) (padToWord sz)) eqn:Hc.
  - cbn [bind] in H. change (get_seg (seg0 data cap) 0) with (mkBS data cap) in H. unfold blen in H. cbn [bs_data bs_cap] in H.
    destruct (addSize (zlen data) (padToWord sz)) eqn:Eas; [|discriminate H]. apply addSize_spec in Eas. unfold maxSegmentSize in Eas. lia.
  - unfold allocSegment in H. destruct (padToWord sz >? maxAllocSize); [cbn [bind] in H; discriminate H|]. cbn [seg0 bm_arena] in H.
    change (get_seg (seg0 data cap) 0) with (mkBS data cap) in H.
    destruct (negb (blen (mkBS data cap) mod 8 =? 0)); [cbn [bind] in H; discriminate H|]. rewrite Hc in H.
    destruct (nextAlloc (blen (mkBS data cap)) maxAllocSize (padToWord sz)) as [inc| |]; try (cbn [bind] in H; discriminate H).
    cbn [bind bs_data bs_cap] in H.
    change (get_seg (put_seg (seg0 data cap) 0 (mkBS data (cap + inc))) 0) with (mkBS data (cap + inc)) in H.
    unfold blen in H. cbn [bs_data bs_cap] in H.
    destruct (addSize (zlen data) (padToWord sz)) eqn:Eas; [|discriminate H]. apply addSize_spec in Eas. unfold maxSegmentSize in Eas. lia.
Qed.

Lemma seg_write_raw data cap A bs : 0 <= A -> A + zlen bs <= zlen data -> zlen data < 4294967296 ->
  seg_write (seg0 data cap) 0 A bs = Ok (seg0 (write_bytes data A bs) cap).
Proof.
  intros HA Hb Hl. unfold seg_write. change (get_seg (seg0 data cap) 0) with (mkBS data cap).
  unfold addSizeUnchecked, u32, blen. cbn [bs_data bs_cap].
  assert (Z0 : 0 <= zlen bs) by (unfold zlen; lia). assert (Z1 : 0 <= zlen data) by (unfold zlen; lia).
  replace ((A + zlen bs) mod 4294967296) with (A + zlen bs) by lia.
  destruct ((0 <=? A) && (A <=? A + zlen bs) && (A + zlen bs <=? zlen data)) eqn:E; [|lia].
  reflexivity.
Qed.

Lemma skipn_repeat {A} (x : A) : forall k n, skipn k (repeat x n) = repeat x (n - k).
Proof. induction k; intros [|n]; cbn [skipn repeat Nat.sub]; auto. Qed.

Lemma write_bytes_end data P bs : (length bs <= P)%nat ->
  write_bytes (data ++ repeat 0 P) (zlen data) bs = data ++ bs ++ repeat 0 (P - length bs).
Proof.
  intros H. unfold write_bytes, zlen. rewrite Nat2Z.id, firstn_app, Nat.sub_diag, firstn_all. cbn [firstn]. rewrite app_nil_r.
  f_equal. f_equal. rewrite skipn_app, skipn_all2 by lia. cbn [app].
  replace (length data + length bs - length data)%nat with (length bs) by lia. apply skipn_repeat.
Qed.

Lemma mask_last_length n bs : length (mask_last n bs) = length bs.
Proof.
  unfold mask_last. cbv zeta. destruct (n mod 8 =? 0); [reflexivity|].
  destruct (rev bs) as [|l pre] eqn:E.
  - apply (f_equal (@length Z)) in E. rewrite rev_length in E. cbn [length] in *. lia.
  - apply (f_equal (@length Z)) in E. rewrite rev_length in E. rewrite app_length, rev_length. cbn [length] in *. lia.
Qed.

Lemma hd_word_strip1 x : hd_word (strip0 [x]) = x.
Proof. cbn [strip0]. destruct (x =? 0) eqn:E; cbn [hd_word]; lia. Qed.

Lemma concat_chunks s o w : 0 <= o -> 0 <= w -> forall n : nat,
  concat (map (fun i => sub s (o + i * w) w) (iota n)) = sub s o (Z.of_nat n * w).
Proof.
  intros Ho Hw. induction n as [|n IH].
  - cbn. unfold sub. cbn. reflexivity.
  - rewrite iota_S, map_app, concat_app, IH. cbn [map concat]. rewrite app_nil_r.
    replace (Z.of_nat (S n) * w) with (Z.of_nat n * w + w) by lia. rewrite sub_split by lia. reflexivity.
Qed.

Lemma iota_length n : length (iota n) = n.
Proof. unfold iota; rewrite map_length, seq_length; reflexivity. Qed.

Lemma nth_map_iota {A} (h : Z -> A) n i d : (i < n)%nat -> nth i (map h (iota n)) d = h (Z.of_nat i).
Proof.
  intros H. rewrite (nth_indep _ d (h 0)) by (rewrite map_length, iota_length; exact H).
  rewrite (map_nth h (iota n) 0 i), nth_iota by exact H. reflexivity.
Qed.

Lemma zlen_map {A B} (h : A -> B) l : zlen (map h l) = zlen l.
Proof. unfold zlen. rewrite map_length. reflexivity. Qed.


Lemma element_some a i sz : 0 <= a + i * sz <= 4294967288 -> element a i sz = Some (a + i * sz).
Proof.
  intros H. destruct (element a i sz) as [x|] eqn:E.
  - apply element_spec in E. destruct E as [-> _]. reflexivity.
  - apply element_none in E. unfold maxSegmentSize in E. lia.
Qed.

Lemma hd_ptr_strip1 x : hd_ptr (stripN [x]) = x.
Proof. cbn [stripN]. destruct (is_null x) eqn:E; [|reflexivity]. destruct x; try discriminate. reflexivity. Qed.


Section Inv.
Context (m : segs).

Lemma den_ptrs_inv p vs : den true m 0 [] p (VList LPtr vs) ->
  p_valid p = true /\ p_kind p = KList /\ p_bit p = false /\ p_comp p = false /\ p_size p = mkOS 0 1 /\
  zlen vs = p_len p /\
  (forall i, 0 <= i < p_len p ->
     exists dep rl q rl' v, readPtr true m rl (p_seg p) (seg_of m p) (p_off p + 8 * i) dep = (Ok q, rl')
       /\ den true m 0 [] q v /\ nthv vs i = VStruct [] [v]).
Proof.
  intros D. inversion D; subst.
  - split; [assumption|]. split; [assumption|]. split; [assumption|]. split; [assumption|]. split; [assumption|].
    split; assumption.
  - match goal with H : prim_width ?w |- _ => destruct H as [->|[->|[->|[->| ->]]]]; discriminate end.
Qed.

Lemma den_prim_inv p k vs : den true m 0 [] p (VList k vs) -> k <> LPtr -> k <> LComp ->
  exists w, prim_width w /\ k = kind_of_width w /\
  p_valid p = true /\ p_kind p = KList /\ p_bit p = false /\ p_comp p = false /\ p_size p = mkOS w 0 /\
  zlen vs = p_len p /\
  (forall i, 0 <= i < p_len p -> exists d, slice (seg_of m p) (p_off p + i * w) w = Ok d
                 /\ nthv vs i = VStruct (words_of_bytes d) []).
Proof.
  intros D K1 K2. inversion D; subst; try congruence.
  exists w. split; [assumption|]. split; [reflexivity|]. split; [assumption|]. split; [assumption|].
  split; [assumption|]. split; [assumption|]. split; [assumption|]. split; assumption.
Qed.

End Inv.
