(* C18 [T2], stage (a): pointer-free structs with arbitrary data.  Canonicalize of a struct all
   of whose pointers read null returns the root pointer followed by the data section truncated
   of trailing zero words -- the specification's canonical form of the denoted value. *)
From CV Require Import Value.ValueEq Value.ValueEqProofs Value.EqualM Value.Den Value.DenFacts Value.DenLists
                       Value.CanonSpec Value.CanonProofs Value.CanonProofs3 Value.CanonM Value.CanonMStruct Value.CanonMWords.
From CV Require Import Core.ReaderFacts Core.SafetyProofs Core.BuilderFacts Core.ArithFacts Core.CopySafe.
From Coq Require Import ZifyBool ZifyNat.
Ltac Zify.zify_post_hook ::= Z.div_mod_to_equations.
Open Scope Z_scope.

Definition m0 : bmsg := mkBM ASingle [mkBS (repeat 0 8%nat) 1024] [] 0.
Definition seg0 (data : list Z) (cap : Z) : bmsg := mkBM ASingle [mkBS data cap] [] 0.

Lemma padToWord_mult x : 0 <= x <= 4294967288 -> x mod 8 = 0 -> padToWord x = x.
Proof. intros. unfold padToWord, u32. lia. Qed.

(* the first allocation after NewMessage(SingleSegment(nil)): zeros appended at address 8 *)
Lemma alloc_m0 sz : 0 < sz <= 524280 -> sz mod 8 = 0 ->
  exists cap', alloc m0 0 sz = Ok (seg0 (repeat 0 8%nat ++ repeat 0 (Z.to_nat sz)) cap', 0, 8).
Proof.
  intros Hs Hm. unfold alloc. unfold maxAllocSize, maxSegmentSize.
  destruct (sz >? 4294967288) eqn:E0; [lia|]. rewrite (padToWord_mult sz) by lia.
  change (get_seg m0 0) with (mkBS (repeat 0 8%nat) 1024).
  unfold hasCapacity. change (blen (mkBS (repeat 0 8%nat) 1024)) with 8. cbn [bs_cap].
  change (u32 (1024 - 8)) with 1016.
  destruct (sz <=? 1016) eqn:E1.
  - cbn [bind]. change (get_seg m0 0) with (mkBS (repeat 0 8%nat) 1024). change (blen (mkBS (repeat 0 8%nat) 1024)) with 8.
    unfold addSize, maxSegmentSize. destruct (8 + sz >? 4294967288) eqn:E2; [lia|].
    exists 1024. reflexivity.
  - unfold allocSegment, maxAllocSize, maxSegmentSize. rewrite E0. cbn [bm_arena m0].
    change (get_seg m0 0) with (mkBS (repeat 0 8%nat) 1024). change (blen (mkBS (repeat 0 8%nat) 1024)) with 8.
    change (negb (8 mod 8 =? 0)) with false. cbv iota.
    unfold hasCapacity. change (blen (mkBS (repeat 0 8%nat) 1024)) with 8. cbn [bs_cap].
    change (u32 (1024 - 8)) with 1016. rewrite E1.
    unfold nextAlloc, maxAllocSize, maxSegmentSize. destruct (sz =? 0) eqn:E3; [lia|]. rewrite E0.
    rewrite (padToWord_mult sz) by lia. cbv zeta.
    assert (S1 : s64 (8 + sz) = 8 + sz) by (unfold s64; cbv zeta; destruct (_ <? _) eqn:E; lia).
    rewrite S1. change (s64 (8 + 8)) with 16.
    destruct ((8 + sz <=? 8) || (8 + sz >? 4294967288)) eqn:E4; [lia|].
    destruct (8 + sz <? 1024) eqn:E5; [lia|]. destruct (8 + sz >? 16) eqn:E6; [|lia].
    cbn [bind]. cbn [bs_data bs_cap].
    change (get_seg (put_seg m0 0 (mkBS (repeat 0 8%nat) (1024 + sz))) 0) with (mkBS (repeat 0 8%nat) (1024 + sz)).
    change (blen (mkBS (repeat 0 8%nat) (1024 + sz))) with 8.
    unfold addSize, maxSegmentSize. destruct (8 + sz >? 4294967288) eqn:E2; [lia|].
    exists (1024 + sz). reflexivity.
Qed.

Lemma zlen_le_encode8 v : zlen (le_encode 8 v) = 8.
Proof. unfold zlen. rewrite le_encode_length. reflexivity. Qed.

Definition rootp (k : Z) : Ptr := mkPtr true 0 8 0 (mkOS (8 * k) 0) maxDepth KStruct false false false.

Lemma newStruct_m0 k : 0 < k <= 65535 ->
  exists cap', newStruct m0 0 (mkOS (8 * k) 0)
               = Ok (seg0 (repeat 0 8%nat ++ repeat 0 (Z.to_nat (8 * k))) cap', rootp k).
Proof.
  intros Hk. unfold newStruct, os_isValid. cbn [DataSize PointerCount].
  destruct (8 * k <=? 65535 * 8) eqn:E; [|lia]. cbn [negb].
  rewrite (padToWord_mult (8 * k)) by lia.
  replace (totalSize (mkOS (8 * k) 0)) with (8 * k) by (unfold totalSize, pointerSize, u32; cbn [DataSize PointerCount]; lia).
  destruct (alloc_m0 (8 * k) ltac:(lia) ltac:(lia)) as (cap' & ->). cbn [bind]. exists cap'. reflexivity.
Qed.

Lemma os_wf_data k : 0 < k <= 65535 -> os_wf (mkOS (8 * k) 0).
Proof. intros. unfold os_wf. cbn [DataSize PointerCount]. lia. Qed.

(* Message.SetRoot(root) where root is the struct at address 8 of the single segment *)
Lemma set_root_seg0 k hdr rest cap src rl : 0 < k <= 65535 -> length hdr = 8%nat ->
  zlen (hdr ++ rest) < 4294967296 ->
  set_root 4 (mkW (seg0 (hdr ++ rest) cap) src rl) InDst (rootp k)
  = Ok (mkW (seg0 (le_encode 8 (struct_word 0 k 0) ++ rest) cap) src rl).
Proof.
  intros Hk Hh Hl. unfold set_root, set_root_gen. cbn [w_dst seg0 bm_segs bs_data].
  assert (Z8 : 8 <= zlen (hdr ++ rest)) by (unfold zlen; rewrite app_length; lia).
  unfold regionInBounds, addSize, maxSegmentSize. cbn [Z.add]. change (8 >? 4294967288) with false. cbv iota.
  destruct (8 <=? zlen (hdr ++ rest)) eqn:E; [|lia]. cbn [negb].
  rewrite (write_ptr_S 3). cbn [rootp p_valid p_kind p_size p_member p_seg p_off negb is_src orb].
  unfold os_isZero. cbn [DataSize PointerCount]. destruct (8 * k =? 0) eqn:E0; [lia|]. cbn [andb].
  cbn [bind]. cbv beta iota. cbn [rootp p_size p_seg p_off]. rewrite (raw_struct_is_struct_word 0 _ (os_wf_data k Hk)). cbn [of_opt_panic bind DataSize PointerCount].
  unfold place. cbn [w_dst Z.eqb]. 
  change (nearPointerOffset 0 8) with 0.
  pose proof (placed_struct_word 0 _ _ (os_wf_data k Hk) (raw_struct_is_struct_word 0 _ (os_wf_data k Hk))) as PW.
  cbn [DataSize PointerCount] in PW. rewrite PW.
  replace (8 * k / 8) with k by lia.
  unfold writeRawPointer, seg_write. change (get_seg (seg0 (hdr ++ rest) cap) 0) with (mkBS (hdr ++ rest) cap).
  unfold addSizeUnchecked, u32. rewrite (zlen_le_encode8 (struct_word 0 k 0)).
  change ((0 + 8) mod 4294967296) with 8. unfold blen. cbn [bs_data bs_cap].
  destruct ((0 <=? 0) && (0 <=? 8) && (8 <=? zlen (hdr ++ rest))) eqn:E1; [|lia].
  unfold lift0. cbn [bind w_set_dst w_src w_src_rl]. f_equal. f_equal. unfold put_seg, seg0. cbn [bm_arena bm_segs bm_caps bm_rl set_nth Z.to_nat].
  f_equal. f_equal. f_equal.
  unfold write_bytes. cbn [Z.to_nat firstn app]. rewrite le_encode_length. cbn [Nat.add].
  rewrite <- Hh, skipn_app, Nat.sub_diag, skipn_all. reflexivity.
Qed.

(* fillCanonicalStruct(root, s) for a pointer-free root: the first 8k data bytes are copied *)
Lemma fill_data c fx f k hdr d cap src rl s : 0 < k <= 65535 -> length hdr = 8%nat ->
  slice (seg_of src s) (p_off s) (DataSize (p_size s)) = Ok d -> (Z.to_nat (8 * k) <= length d)%nat ->
  fill_canonical c fx (S f) (mkW (seg0 (hdr ++ repeat 0 (Z.to_nat (8 * k))) cap) src rl) (rootp k) s
  = KOk (mkW (seg0 (hdr ++ firstn (Z.to_nat (8 * k)) d) cap) src rl).
Proof.
  intros Hk Hh Sl Hd. cbn [fill_canonical].
  change (dst_seg _ (rootp k)) with (hdr ++ repeat 0 (Z.to_nat (8 * k))).
  change (src_seg _ s) with (seg_of src s). cbn [rootp p_off p_size DataSize PointerCount p_seg].
  set (z := repeat 0 (Z.to_nat (8 * k))).
  assert (Lz : length z = Z.to_nat (8 * k)) by (unfold z; apply repeat_length).
  rewrite slice_ok; try lia; try (unfold zlen; rewrite app_length; lia).
  replace (sub (hdr ++ z) 8 (8 * k)) with z.
  2:{ unfold sub. change (Z.to_nat 8) with 8%nat. rewrite <- Hh, skipn_app, Nat.sub_diag, skipn_all. cbn [app skipn].
      rewrite <- Lz. symmetry. apply firstn_all. }
  rewrite Sl. cbn [of_res kbind]. rewrite Lz, Nat.min_l by lia.
  set (bs := firstn (Z.to_nat (8 * k)) d).
  assert (Lb : length bs = Z.to_nat (8 * k)) by (unfold bs; rewrite firstn_length; lia).
  unfold seg_write. cbn [w_dst]. change (get_seg (seg0 (hdr ++ z) cap) 0) with (mkBS (hdr ++ z) cap).
  unfold addSizeUnchecked, u32, blen, zlen. cbn [bs_data bs_cap]. rewrite Lb, app_length, Lz, Hh.
  replace ((8 + Z.of_nat (Z.to_nat (8 * k))) mod 4294967296) with (8 + 8 * k) by lia.
  destruct ((0 <=? 8) && (8 <=? 8 + 8 * k) && (8 + 8 * k <=? Z.of_nat (8 + Z.to_nat (8 * k)))) eqn:E; [|lia].
  unfold lift0. cbn [bind of_res kbind w_set_dst w_src w_src_rl Z.to_nat iota seq map kfold].
  f_equal. f_equal. unfold put_seg, seg0. cbn [bm_arena bm_segs bm_caps bm_rl set_nth Z.to_nat]. f_equal. f_equal. f_equal.
  unfold write_bytes. change (Z.to_nat 8) with 8%nat. rewrite <- Hh, firstn_app, Nat.sub_diag, firstn_all. cbn [firstn]. rewrite app_nil_r.
  rewrite skipn_all2 by (rewrite app_length; lia). rewrite app_nil_r. reflexivity.
Qed.

(* ------------------------------------------------------------------ bytes of the truncated data *)
Lemma strip0_firstn l : strip0 l = firstn (length (strip0 l)) l.
Proof.
  induction l as [|y r IH]; [reflexivity|]. cbn [strip0]. destruct (strip0 r) eqn:E.
  - destruct (y =? 0); reflexivity.
  - cbn [length] in *. change (firstn (S (S (length l))) (y :: r)) with (y :: firstn (S (length l)) r).
    f_equal. exact IH.
Qed.

Lemma strip0_length_le l : (length (strip0 l) <= length l)%nat.
Proof. rewrite (strip0_firstn l) at 1. rewrite firstn_length. lia. Qed.

Lemma bow_firstn : forall k ws, bytes_of_words (firstn k ws) = firstn (8 * k) (bytes_of_words ws).
Proof.
  induction k as [|k IH]; intros ws; [reflexivity|]. destruct ws as [|w r]; [reflexivity|].
  unfold bytes_of_words in *. cbn [firstn flat_map]. rewrite IH.
  replace (8 * S k)%nat with (length (le_encode 8 w) + 8 * k)%nat by (rewrite le_encode_length; lia).
  rewrite firstn_app_2. reflexivity.
Qed.

Lemma le_encode_decode : forall l, bytes_ok l -> le_encode (length l) (le_decode l) = l.
Proof.
  induction l as [|b r IH]; intros H; [reflexivity|]. inversion H as [|? ? Hb Hr]; subst.
  cbn [length le_encode le_decode]. f_equal.
  - set (x := le_decode r). clearbody x. lia.
  - replace ((b + 256 * le_decode r) / 256) with (le_decode r) by (set (x := le_decode r); clearbody x; lia).
    apply IH. assumption.
Qed.

Lemma bow_wob : forall d, bytes_ok d -> (length d mod 8 = 0)%nat -> bytes_of_words (words_of_bytes d) = d.
Proof.
  fix IH 1. intros d Hb Hl.
  destruct d as [|b0 [|b1 [|b2 [|b3 [|b4 [|b5 [|b6 [|b7 r]]]]]]]]; try reflexivity;
    try (exfalso; cbn [length] in Hl; cbv in Hl; discriminate).
  cbn [words_of_bytes]. unfold bytes_of_words. cbn [flat_map]. fold (bytes_of_words (words_of_bytes r)).
  assert (H8 : bytes_ok [b0; b1; b2; b3; b4; b5; b6; b7]).
  { unfold bytes_ok in *. repeat (inversion Hb as [|? ? ?h Hb']; subst; clear Hb; rename Hb' into Hb; constructor; [assumption|]).
    constructor. }
  pose proof (le_encode_decode _ H8) as E. cbn [length] in E. rewrite E.
  rewrite IH.
  - reflexivity.
  - unfold bytes_ok in *. repeat (inversion Hb as [|? ? ?h Hb']; subst; clear Hb; rename Hb' into Hb). assumption.
  - cbn [length] in Hl. replace (S (S (S (S (S (S (S (S (length r))))))))) with (length r + 1 * 8)%nat in Hl by lia.
    rewrite Nat.mod_add in Hl by discriminate. exact Hl.
Qed.

Lemma enc_cells_words ev d pos cur : enc_cells ev (map CW d) pos cur = COk (d, []).
Proof.
  revert pos. induction d as [|w r IH]; intros pos; [reflexivity|].
  cbn [map enc_cells]. rewrite IH. reflexivity.
Qed.

(* ------------------------------------------------------------------ stage (a) *)
Theorem canon_m_data_struct : forall c fx fuel m rl s v,
  cfg_strict c = true -> all_cfixed fx -> msg_ok m -> wf_ptr m s ->
  p_valid s = true -> p_kind s = KStruct -> DataSize (p_size s) mod 8 = 0 ->
  den true m 0 [] s v ->
  (exists ws vs, v = VStruct ws vs /\ forallb is_null vs = true) ->
  exists bs, canonicalize c fx (S fuel) m rl s = (KOk bs, rl) /\ canon v = Some bs.
Proof.
  intros c fx fuel m rl s v Hs Hfx Hm Hwf Hv Hk Hal D (ws & vs & -> & Hn).
  destruct (canonicalStructSize_spec m 0 [] s _ Hm Hwf Hv Hk Hal D) as (ws' & vs' & E & Hcss).
  inversion E; subst ws' vs'; clear E.
  destruct (den_struct_inv _ _ _ _ _ _ D Hv Hk) as (d & vs2 & Ev & Wz & Sl & _ & _).
  inversion Ev; subst ws vs2; clear Ev.
  set (tw := strip0 (words_of_bytes d)) in *.
  destruct tw as [|w0 tr] eqn:Etw.
  { (* all data zero: the all-default case *)
    destruct (canon_m_default_struct_partial c fx fuel m rl s _ Hs Hfx Hm Hwf Hv Hk Hal D) as [C1 C2].
    - exists (words_of_bytes d), vs. split; [reflexivity|]. split; [|exact Hn].
      apply all_zero_nth. intros i. pose proof (data_eq_strip0_self (words_of_bytes d)) as Hd. fold tw in Hd. rewrite Etw in Hd.
      change (data_eq [] (words_of_bytes d)) with (all_zero (words_of_bytes d)) in Hd. apply all_zero_nth. exact Hd.
    - exists empty_struct_msg. split; assumption. }
  assert (Hne : (0 < length tw)%nat) by (rewrite Etw; cbn; lia).
  rewrite <- Etw in *. clear Etw w0 tr.
  assert (Hsn : stripN vs = []).
  { clear -Hn. induction vs as [|y r IH]; [reflexivity|]. cbn [forallb] in Hn. apply andb_prop in Hn. destruct Hn as [H1 H2].
    cbn [stripN]. rewrite (IH H2), H1. reflexivity. }
  rewrite Hsn in Hcss. change (zlen (@nil value)) with 0 in Hcss.
  destruct Wz as [Wd _].
  apply slice_eq_sub in Sl as Sl'; [|apply seg_of_ok; assumption| lia]. destruct Sl' as (Ed & B1 & B2).
  assert (Ld : zlen d = DataSize (p_size s)) by (rewrite Ed; apply sub_length; lia).
  pose proof (words_of_bytes_length d) as Lw. pose proof (strip0_length_le (words_of_bytes d)) as Lk. fold tw in Lk.
  unfold zlen in Ld.
  set (k := zlen tw) in *.
  assert (Hk0 : 0 < k <= 65535) by (unfold k, zlen; lia).
  assert (Hkd : (Z.to_nat (8 * k) <= length d)%nat) by (unfold k, zlen; lia).
  assert (Hbd : bytes_ok d) by (eapply slice_bytes_ok; eassumption).
  assert (Hal' : (length d mod 8 = 0)%nat).
  { apply Nat2Z.inj. rewrite Nat2Z.inj_mod. rewrite Ld. exact Hal. }
  exists (bytes_of_words (struct_word 0 k 0 :: tw)). split.
  - (* the model *)
    destruct Hfx as (_ & _ & Hfn & _).
    unfold canonicalize.
    replace (new_message ASingle [] 0) with (Ok m0) by (vm_compute; reflexivity).
    rewrite Hv. cbn [negb]. cbv zeta. rewrite Hfn, Hs, Hcss. cbn [of_res kbind].
    destruct (newStruct_m0 k Hk0) as (cap' & ->). unfold lift. cbn [bind of_res kbind].
    change (w_set_dst (mkW m0 m rl) (seg0 (repeat 0 8%nat ++ repeat 0 (Z.to_nat (8 * k))) cap'))
      with (mkW (seg0 (repeat 0 8%nat ++ repeat 0 (Z.to_nat (8 * k))) cap') m rl).
    rewrite (set_root_seg0 k (repeat 0 8%nat) _ cap' m rl Hk0 eq_refl)
      by (unfold zlen; rewrite app_length, !repeat_length; lia).
    cbn [of_res kbind].
    rewrite (set_root_seg0 k (le_encode 8 (struct_word 0 k 0)) _ cap' m rl Hk0 (le_encode_length 8 _))
      by (unfold zlen; rewrite app_length, le_encode_length, repeat_length; lia).
    cbn [of_res kbind].
    rewrite (fill_data c fx fuel k (le_encode 8 (struct_word 0 k 0)) d cap' m rl s Hk0 (le_encode_length 8 _) Sl Hkd).
    cbn [w_dst w_src_rl]. f_equal. f_equal.
    change (get_seg (seg0 _ cap') 0) with (mkBS (le_encode 8 (struct_word 0 k 0) ++ firstn (Z.to_nat (8 * k)) d) cap').
    cbn [bs_data]. unfold bytes_of_words at 1. cbn [flat_map]. fold (bytes_of_words tw). f_equal.
    unfold tw at 1. rewrite (strip0_firstn (words_of_bytes d)). fold tw. rewrite bow_firstn, (bow_wob d Hbd Hal').
    f_equal. unfold k, zlen. lia.
  - (* the specification *)
    unfold canon, canon_words. cbn [norm]. fold tw. rewrite (stripN_all_null vs Hn).
    cbn [vdepth fold_right]. cbn [enc]. fold k. change (zlen (@nil value)) with 0.
    destruct ((k =? 0) && (0 =? 0)) eqn:E0; [lia|].
    unfold two16, two29. destruct ((k >=? 65536) || (0 >=? 65536) || (1 - 0 - 1 >=? 536870912)) eqn:E1; [lia|].
    unfold struct_cells. cbn [map]. rewrite app_nil_r, enc_cells_words. cbn [cbind fst snd]. rewrite app_nil_r.
    reflexivity.
Qed.

