(* C18 [T2]: the heap-level facts of Canonicalize's destination: ONE growing segment.
     alloc_seg0        every allocation appends zero bytes at the end (only the capacity may change)
     write_ptr_seg0    SetPtr / PointerList.Set of a pointer to an object of the same segment
                       writes exactly one word, the specification's pointer word [ptr_word]
   These are the two ingredients of the invariant "the canonical bytes of a subtree are
   appended at the end of the segment; earlier bytes change only in the pointer slot being set". *)
From CV Require Import Value.ValueEq Value.EqualM Value.CanonSpec Value.CanonM Value.CanonMWords Value.CanonMData.
From CV Require Import Core.ReaderFacts Core.BuilderFacts Core.ArithFacts Core.CopySafe.
From Coq Require Import ZifyBool ZifyNat.
Ltac Zify.zify_post_hook ::= Z.div_mod_to_equations.
Open Scope Z_scope.

Definition dstw (data : list Z) (cap : Z) (src : segs) (rl : Z) : world := mkW (seg0 data cap) src rl.

(* ------------------------------------------------------------------ allocation *)
Lemma alloc_seg0 data cap sz m' sid' addr : zlen data mod 8 = 0 -> 0 <= sz ->
  alloc (seg0 data cap) 0 sz = Ok (m', sid', addr) ->
  exists cap', m' = seg0 (data ++ repeat 0 (Z.to_nat (padToWord sz))) cap' /\ sid' = 0 /\ addr = zlen data.
Proof.
  intros Hal Hsz H. unfold alloc in H. destruct (sz >? maxAllocSize) eqn:E0; [discriminate|].
  change (get_seg (seg0 data cap) 0) with (mkBS data cap) in H.
  destruct (hasCapacity (mkBS data cap) (padToWord sz)) eqn:Hc.
  - cbn [bind] in H. change (get_seg (seg0 data cap) 0) with (mkBS data cap) in H. unfold blen in H. cbn [bs_data bs_cap] in H.
    destruct (addSize (zlen data) (padToWord sz)); [|discriminate H]. inversion H; subst.
    exists cap. repeat split; reflexivity.
  - unfold allocSegment in H. destruct (padToWord sz >? maxAllocSize); [cbn [bind] in H; discriminate H|]. cbn [seg0 bm_arena] in H.
    change (get_seg (seg0 data cap) 0) with (mkBS data cap) in H.
    destruct (negb (blen (mkBS data cap) mod 8 =? 0)); [cbn [bind] in H; discriminate H|]. rewrite Hc in H.
    destruct (nextAlloc (blen (mkBS data cap)) maxAllocSize (padToWord sz)) as [inc| |]; try (cbn [bind] in H; discriminate H).
    cbn [bind bs_data bs_cap] in H.
    change (get_seg (put_seg (seg0 data cap) 0 (mkBS data (cap + inc))) 0) with (mkBS data (cap + inc)) in H.
    unfold blen in H. cbn [bs_data bs_cap] in H.
    destruct (addSize (zlen data) (padToWord sz)); [|discriminate H]. inversion H; subst.
    exists (cap + inc). repeat split; reflexivity.
Qed.

(* ------------------------------------------------------------------ one word *)
Definition put_word (data : list Z) (a : Z) (w : Z) : list Z :=
  firstn (Z.to_nat a) data ++ le_encode 8 w ++ skipn (Z.to_nat a + 8) data.

Lemma writeRaw_seg0 data cap a v : 0 <= a -> a + 8 <= zlen data -> zlen data < 4294967296 ->
  writeRawPointer (seg0 data cap) 0 a v = Ok (seg0 (put_word data a v) cap).
Proof.
  intros Ha Hb Hl. unfold writeRawPointer, seg_write. change (get_seg (seg0 data cap) 0) with (mkBS data cap).
  unfold addSizeUnchecked, u32, blen. rewrite (zlen_le_encode8 v). cbn [bs_data bs_cap].
  replace ((a + 8) mod 4294967296) with (a + 8) by lia.
  destruct ((0 <=? a) && (a <=? a + 8) && (a + 8 <=? zlen data)) eqn:E; [|lia].
  unfold put_seg, seg0, put_word, write_bytes. cbn [bm_arena bm_segs bm_caps bm_rl set_nth Z.to_nat].
  rewrite le_encode_length. reflexivity.
Qed.

Lemma put_word_length data a w : 0 <= a -> a + 8 <= zlen data -> zlen (put_word data a w) = zlen data.
Proof.
  intros Ha Hb. unfold put_word, zlen in *. rewrite !app_length, firstn_length, skipn_length, le_encode_length. lia.
Qed.

(* ------------------------------------------------------------------ the word of a pointer *)
(* the word Segment.writePtr stores at byte address a for a pointer cp of the SAME segment *)
Definition ptr_word (cp : Ptr) (a : Z) : Z :=
  if negb (p_valid cp) then 0 else
  match p_kind cp with
  | KStruct =>
    if os_isZero (p_size cp) then struct_word (-1) 0 0
    else struct_word (p_off cp / 8 - a / 8 - 1) (DataSize (p_size cp) / 8) (PointerCount (p_size cp))
  | KList =>
    if p_comp cp then
      list_word ((p_off cp - 8) / 8 - a / 8 - 1) 7
                (p_len cp * (DataSize (p_size cp) / 8 + PointerCount (p_size cp)))
    else if p_bit cp then list_word (p_off cp / 8 - a / 8 - 1) 1 (p_len cp)
    else if (PointerCount (p_size cp) =? 1) then list_word (p_off cp / 8 - a / 8 - 1) 6 (p_len cp)
    else list_word (p_off cp / 8 - a / 8 - 1)
                   (let d := DataSize (p_size cp) in
                    if d =? 0 then 0 else if d =? 1 then 2 else if d =? 2 then 3 else if d =? 4 then 4 else 5)
                   (p_len cp)
  | KIface => 0
  end.

(* the pointers Canonicalize hands to SetPtr: null, or an object of segment 0 *)
Definition cp_shape (cp : Ptr) (len : Z) : Prop :=
  p_valid cp = false \/
  (p_valid cp = true /\ p_seg cp = 0 /\ p_member cp = false /\ p_off cp mod 8 = 0 /\ 0 <= p_off cp <= len /\
   match p_kind cp with
   | KStruct => os_wf (p_size cp)
   | KList =>
     0 <= p_len cp < 536870912 /\
     if p_comp cp then os_wf (p_size cp) /\ 8 <= p_off cp /\
                       0 <= p_len cp * (DataSize (p_size cp) / 8 + PointerCount (p_size cp)) < 536870912
     else if p_bit cp then True
     else p_size cp = mkOS 0 1 \/ exists w, (w = 0 \/ w = 1 \/ w = 2 \/ w = 4 \/ w = 8) /\ p_size cp = mkOS w 0
   | KIface => False
   end).

Lemma nearOff a t : 0 <= a <= 4294967288 -> 0 <= t <= 4294967288 -> a mod 8 = 0 -> t mod 8 = 0 ->
  nearPointerOffset a t = t / 8 - a / 8 - 1.
Proof. intros. unfold nearPointerOffset, s32. cbv zeta. destruct (_ <? _) eqn:E; lia. Qed.

Theorem write_ptr_seg0 f data cap src rl a cp :
  zlen data <= 4294967288 -> 0 <= a -> a mod 8 = 0 -> a + 8 <= zlen data -> cp_shape cp (zlen data) ->
  write_ptr (S f) true (dstw data cap src rl) 0 a InDst cp false
  = Ok (dstw (put_word data a (ptr_word cp a)) cap src rl).
Proof.
  intros Hl Ha Ham Hb Hs. rewrite write_ptr_S. unfold ptr_word.
  destruct Hs as [Hv|(Hv & Hseg & Hmem & Hom & Hor & Hk)]; rewrite Hv; cbn [negb].
  - unfold lift0, dstw. cbn [w_dst]. rewrite writeRaw_seg0 by lia. reflexivity.
  - destruct (p_kind cp) eqn:K.
    + (* struct *)
      destruct (os_isZero (p_size cp)) eqn:Z0.
      * rewrite empty_struct_word. cbn [of_opt_panic bind]. unfold lift0, dstw. cbn [w_dst]. rewrite writeRaw_seg0 by lia. reflexivity.
      * cbn [is_src orb]. rewrite Hmem. cbn [bind].
        rewrite (raw_struct_is_struct_word 0 _ Hk). cbn [of_opt_panic bind].
        unfold place. rewrite Hseg. cbn [Z.eqb]. unfold lift0, dstw. cbn [w_dst].
        rewrite (placed_struct_word _ _ _ Hk (raw_struct_is_struct_word 0 _ Hk)).
        rewrite nearOff by lia. rewrite writeRaw_seg0 by lia. reflexivity.
    + (* list *)
      cbn [is_src orb bind]. destruct Hk as (Hn & Hk).
      unfold list_raw. rewrite Hv. cbn [negb].
      destruct (p_comp cp) eqn:C.
      * destruct Hk as (Hw & H8 & Hc). destruct Hw as (Wd & Wm & Wp).
        unfold totalWordCount, dataWordCount. rewrite Wm. cbn [Z.eqb].
        replace (s32 (DataSize (p_size cp) / 8 + PointerCount (p_size cp))) with (DataSize (p_size cp) / 8 + PointerCount (p_size cp))
          by (unfold s32; cbv zeta; destruct (_ <? _) eqn:E; lia).
        replace (s32 (p_len cp * (DataSize (p_size cp) / 8 + PointerCount (p_size cp))))
          with (p_len cp * (DataSize (p_size cp) / 8 + PointerCount (p_size cp)))
          by (unfold s32; cbv zeta; destruct (_ <? _) eqn:E; lia).
        set (N := p_len cp * (DataSize (p_size cp) / 8 + PointerCount (p_size cp))) in *. clearbody N.
        cbn [bind]. unfold place. rewrite Hseg. cbn [Z.eqb]. unfold lift0, dstw. cbn [w_dst].
        rewrite (placed_list_word (nearPointerOffset a (u32 (p_off cp - 8))) 7 N) by lia.
        replace (u32 (p_off cp - 8)) with (p_off cp - 8) by (unfold u32; lia).
        rewrite nearOff by lia. rewrite writeRaw_seg0 by lia. reflexivity.
      * destruct (p_bit cp) eqn:B.
        -- cbn [bind]. unfold place. rewrite Hseg. cbn [Z.eqb]. unfold lift0, dstw. cbn [w_dst].
           rewrite (placed_list_word (nearPointerOffset a (p_off cp)) _ (p_len cp)) by lia. rewrite nearOff by lia. rewrite writeRaw_seg0 by lia. reflexivity.
        -- destruct Hk as [Hz|(w & Hw & Hz)]; rewrite Hz; cbn [DataSize PointerCount].
           ++ cbn [Z.eqb Pos.eqb andb bind]. unfold place. rewrite Hseg. cbn [Z.eqb]. unfold lift0, dstw. cbn [w_dst].
              rewrite (placed_list_word (nearPointerOffset a (p_off cp)) _ (p_len cp)) by lia. rewrite nearOff by lia. rewrite writeRaw_seg0 by lia. reflexivity.
           ++ destruct Hw as [->|[->|[->|[->| ->]]]]; cbn [Z.eqb andb negb bind Pos.eqb];
                unfold place; rewrite Hseg; cbn [Z.eqb]; unfold lift0, dstw; cbn [w_dst];
                rewrite (placed_list_word (nearPointerOffset a (p_off cp)) _ (p_len cp)) by lia; rewrite nearOff by lia; rewrite writeRaw_seg0 by lia; reflexivity.
    + destruct Hk.
Qed.
