(* Facts about the documented equality: reflexive, symmetric, NOT transitive (witnesses),
   the schema-level equality value_eqs is contained in value_eq. *)
From CV Require Import Value.ValueEq.
Open Scope Z_scope.

(* ------------------------------------------------------------------ induction on values *)
Section value_ind2.
  Variable P : value -> Prop.
  Hypothesis HN : P VNull.
  Hypothesis HC : forall c, P (VCap c).
  Hypothesis HS : forall d ps, Forall P ps -> P (VStruct d ps).
  Hypothesis HL : forall k es, Forall P es -> P (VList k es).
  Hypothesis HB : forall bs, P (VBits bs).
  Fixpoint value_ind2 (v : value) : P v :=
    match v with
    | VNull => HN
    | VCap c => HC c
    | VStruct d ps =>
      HS d ps ((fix go (l : list value) : Forall P l :=
                  match l with [] => Forall_nil P | x :: r => Forall_cons x (value_ind2 x) (go r) end) ps)
    | VList k es =>
      HL k es ((fix go (l : list value) : Forall P l :=
                  match l with [] => Forall_nil P | x :: r => Forall_cons x (value_ind2 x) (go r) end) es)
    | VBits bs => HB bs
    end.
End value_ind2.

(* ------------------------------------------------------------------ unfolding *)
Lemma veq_struct : forall u d1 p1 d2 p2,
  veq u (VStruct d1 p1) (VStruct d2 p2) = data_eq d1 d2 && ptrs_eq u p1 p2.
Proof.
  intros. cbn [veq]. f_equal.
  revert p2. induction p1 as [|x r IH]; intros [|y s]; cbn; try reflexivity.
  - rewrite IH. reflexivity.
  - rewrite IH. reflexivity.
Qed.

Lemma veq_list : forall u k1 e1 k2 e2,
  veq u (VList k1 e1) (VList k2 e2) = kinds_compat u k1 k2 && elems_eq u e1 e2.
Proof.
  intros. cbn [veq]. f_equal.
  revert e2. induction e1 as [|x r IH]; intros [|y s]; cbn; try reflexivity.
  rewrite IH. reflexivity.
Qed.

Lemma ptrs_eq_nil_r : forall u l, ptrs_eq u l [] = forallb is_null l.
Proof. induction l as [|x r IH]; cbn; [reflexivity|]. rewrite IH. reflexivity. Qed.

(* ------------------------------------------------------------------ pieces *)
Lemma cap_eq_refl : forall c, cap_eq c c = true.
Proof. intros c. unfold cap_eq. rewrite !Z.eqb_refl. reflexivity. Qed.

Lemma cap_eq_sym : forall c d, cap_eq c d = cap_eq d c.
Proof.
  intros c d. unfold cap_eq.
  rewrite (Z.eqb_sym (cv_msg d)), (Z.eqb_sym (cv_idx d)), (Z.eqb_sym (cv_client d)).
  destruct (cv_msg c =? cv_msg d); [|reflexivity].
  f_equal. destruct (cv_intab d), (cv_intab c), (cv_client c =? cv_client d); reflexivity.
Qed.

Lemma all_zero_data_eq_nil : forall a, data_eq a [] = all_zero a.
Proof. destruct a; reflexivity. Qed.

Lemma data_eq_refl : forall a, data_eq a a = true.
Proof. induction a as [|x r IH]; cbn; [reflexivity|]. rewrite Z.eqb_refl, IH. reflexivity. Qed.

Lemma data_eq_sym : forall a b, data_eq a b = data_eq b a.
Proof.
  induction a as [|x r IH]; intros [|y s]; cbn; try reflexivity.
  rewrite (Z.eqb_sym x y), IH. reflexivity.
Qed.

Lemma bools_eqb_refl : forall a, bools_eqb a a = true.
Proof. induction a as [|x r IH]; cbn; [reflexivity|]. rewrite IH. destruct x; reflexivity. Qed.

Lemma bools_eqb_sym : forall a b, bools_eqb a b = bools_eqb b a.
Proof.
  induction a as [|x r IH]; intros [|y s]; cbn; try reflexivity.
  rewrite IH. destruct x, y; reflexivity.
Qed.

Lemma bools_eqb_eq : forall a b, bools_eqb a b = true <-> a = b.
Proof.
  induction a as [|x r IH]; intros [|y s]; cbn; split; intros H; try reflexivity; try discriminate.
  - apply andb_prop in H. destruct H as [H1 H2]. apply IH in H2. subst.
    destruct x, y; try discriminate; reflexivity.
  - inversion H; subst. rewrite (proj2 (IH s) eq_refl). destruct y; reflexivity.
Qed.

Lemma lkind_eqb_refl : forall k, lkind_eqb k k = true.
Proof. destruct k; reflexivity. Qed.

Lemma lkind_eqb_sym : forall a b, lkind_eqb a b = lkind_eqb b a.
Proof. destruct a, b; reflexivity. Qed.

Lemma lkind_eqb_eq : forall a b, lkind_eqb a b = true -> a = b.
Proof. destruct a, b; cbn; intros H; try discriminate; reflexivity. Qed.

Lemma kinds_compat_sym : forall u a b, kinds_compat u a b = kinds_compat u b a.
Proof.
  intros. unfold kinds_compat. rewrite (lkind_eqb_sym a b). f_equal. f_equal. apply orb_comm.
Qed.

(* ------------------------------------------------------------------ reflexive *)
Theorem veq_refl : forall u v, veq u v v = true.
Proof.
  intros u. induction v using value_ind2.
  - reflexivity.
  - apply cap_eq_refl.
  - rewrite veq_struct, data_eq_refl. cbn.
    induction H as [|x r Hx Hr IH]; cbn; [reflexivity|]. rewrite Hx, IH. reflexivity.
  - rewrite veq_list. unfold kinds_compat. rewrite lkind_eqb_refl. cbn.
    induction H as [|x r Hx Hr IH]; cbn; [reflexivity|]. rewrite Hx, IH. reflexivity.
  - cbn. apply bools_eqb_refl.
Qed.

(* ------------------------------------------------------------------ symmetric *)
Theorem veq_sym : forall u a b, veq u a b = veq u b a.
Proof.
  intros u. induction a using value_ind2; intros b.
  - destruct b; reflexivity.
  - destruct b; try reflexivity. cbn. apply cap_eq_sym.
  - destruct b as [| |d2 p2| |]; try reflexivity.
    rewrite !veq_struct, (data_eq_sym d d2). f_equal.
    revert p2. induction H as [|x r Hx Hr IH]; intros p2.
    + cbn. rewrite ptrs_eq_nil_r. reflexivity.
    + destruct p2 as [|y s]; cbn.
      * rewrite ptrs_eq_nil_r. reflexivity.
      * rewrite Hx, IH. reflexivity.
  - destruct b as [| | |k2 e2|]; try reflexivity.
    rewrite !veq_list, (kinds_compat_sym u k k2). f_equal.
    revert e2. induction H as [|x r Hx Hr IH]; intros e2.
    + destruct e2; reflexivity.
    + destruct e2 as [|y s]; cbn; [reflexivity|]. rewrite Hx, IH. reflexivity.
  - destruct b; try reflexivity. cbn. apply bools_eqb_sym.
Qed.

Theorem value_eq_refl : forall v, value_eq v v = true.
Proof. exact (veq_refl true). Qed.
Theorem value_eq_sym : forall a b, value_eq a b = value_eq b a.
Proof. exact (veq_sym true). Qed.
Theorem value_eqs_refl : forall v, value_eqs v v = true.
Proof. exact (veq_refl false). Qed.
Theorem value_eqs_sym : forall a b, value_eqs a b = value_eqs b a.
Proof. exact (veq_sym false). Qed.

(* ------------------------------------------------------------------ value_eqs is finer *)
Lemma kinds_compat_mono : forall a b, kinds_compat false a b = true -> kinds_compat true a b = true.
Proof. intros a b. unfold kinds_compat. cbn. rewrite orb_false_r. intros ->. reflexivity. Qed.

Theorem value_eqs_value_eq : forall a b, value_eqs a b = true -> value_eq a b = true.
Proof.
  unfold value_eqs, value_eq.
  induction a using value_ind2; intros b Hab; destruct b; try discriminate; try exact Hab.
  - rewrite veq_struct in *. apply andb_prop in Hab. destruct Hab as [Hd Hp]. rewrite Hd. cbn.
    revert ptrs Hp. induction H as [|x r Hx Hr IH]; intros p2 Hp.
    + exact Hp.
    + destruct p2 as [|y s]; cbn in *.
      * apply andb_prop in Hp. destruct Hp as [H1 H2]. rewrite H1. cbn. apply (IH [] H2).
      * apply andb_prop in Hp. destruct Hp as [H1 H2]. rewrite (Hx _ H1). cbn. apply (IH _ H2).
  - rewrite veq_list in *. apply andb_prop in Hab. destruct Hab as [Hk He].
    rewrite (kinds_compat_mono _ _ Hk). cbn.
    revert elems He. induction H as [|x r Hx Hr IH]; intros e2 He.
    + exact He.
    + destruct e2 as [|y s]; cbn in *; [discriminate|].
      apply andb_prop in He. destruct He as [H1 H2]. rewrite (Hx _ H1). cbn. apply (IH _ H2).
Qed.

(* ------------------------------------------------------------------ not transitive *)
(* The list-upgrade rule identifies a struct list with primitive lists of different widths,
   which are themselves unequal. *)
Example value_eq_not_transitive :
  let a := VList LB1 [VStruct [1] []] in
  let b := VList LComp [VStruct [1] []] in
  let c := VList LB2 [VStruct [1] []] in
  value_eq a b = true /\ value_eq b c = true /\ value_eq a c = false.
Proof. cbn. repeat split. Qed.

(* Capability identity is not transitive either when nil clients are involved: an index
   outside the table denotes the nil client across messages, but only itself inside one. *)
Example cap_eq_not_transitive :
  let a := VCap (mkCap 1 5 false 0) in
  let b := VCap (mkCap 2 0 true 0) in
  let c := VCap (mkCap 1 6 false 0) in
  value_eq a b = true /\ value_eq b c = true /\ value_eq a c = false.
Proof. cbn. repeat split. Qed.
