(* C18 [T2]: all fuels, and Canonicalize itself.  Q_ptr / Q_fill / Q_list hold for every fuel;
   canon_m_all: whenever Canonicalize returns bytes they are exactly the specification's canonical
   form of the value the struct denotes -- for every value (a value containing a capability never
   makes Canonicalize return bytes: canon_m_cap_error). *)
From CV Require Import Value.ValueEq Value.ValueEqProofs Value.EqualM Value.Den Value.DenFacts Value.DenLists
                       Value.CanonSpec Value.CanonProofs Value.CanonProofs3 Value.CanonM Value.CanonMStruct
                       Value.CanonMWords Value.CanonMData Value.CanonMHeap Value.CanonMLoop Value.CanonSafe Value.EqualProofs
                       Value.CanonMProofs Value.CanonMInd Value.CanonMListP Value.CanonMListR Value.CanonMListC Value.CanonMListB Value.CanonProofs2 Value.VDec Value.VDecProofs.
From CV Require Import Core.ReaderFacts Core.SafetyProofs Core.BuilderFacts Core.ArithFacts Core.CopySafe.
From Coq Require Import ZifyBool ZifyNat.
Ltac Zify.zify_post_hook ::= Z.div_mod_to_equations.
Open Scope Z_scope.

Section Top.
Context (c : config) (fx : cfix) (m : segs).
Context (Hstrict : cfg_strict c = true) (Hfx : all_cfixed fx) (Hm : msg_ok m).

(* ------------------------------------------------------------------ all fuels *)
Lemma list_step f : Q_ptr c fx m f -> Q_fill c fx m f -> Q_list c fx m (S f).
Proof.
  intros HP HF data cap rl p v w' cp Hi Hwf Hv Hk Hcal D H.
  destruct v as [| | |k es|]; try (exfalso; inversion D; subst; congruence).
  - destruct k.
    + eapply list_prim_case; try eassumption; discriminate.
    + eapply list_prim_case; try eassumption; discriminate.
    + eapply list_prim_case; try eassumption; discriminate.
    + eapply list_prim_case; try eassumption; discriminate.
    + eapply list_prim_case; try eassumption; discriminate.
    + eapply list_ptr_case; eassumption.
    + eapply list_comp_case; eassumption.
  - eapply list_bits_case; eassumption.
Qed.

Theorem Q_all : forall f, Q_ptr c fx m f /\ Q_fill c fx m f /\ Q_list c fx m f.
Proof.
  induction f as [|f (IHp & IHf & IHl)].
  - split; [|split].
    + intros data cap rl p v w' cp _ _ _ _ _ H. discriminate H.
    + intros data cap rl dst s ws vs A dn pn w' _ _ _ _ _ _ _ _ _ _ _ _ _ _ H. discriminate H.
    + intros data cap rl p v w' cp _ _ _ _ _ _ H. discriminate H.
  - split; [apply ptr_step; assumption|]. split; [apply fill_step; assumption| apply list_step; assumption].
Qed.

(* ------------------------------------------------------------------ enc of a struct from its cells *)
Lemma enc_struct_assemble ws vs pwords kids pos cur F :
  let k := zlen (strip0 ws) in let j := zlen (stripN vs) in
  k <= 65535 -> j < 65536 -> zlen pwords = j -> cur - pos - 1 < 536870912 ->
  (vdepth (norm (VStruct ws vs)) <= F)%nat ->
  (forall F', (forall i, 0 <= i < j -> (vdepth (norm (nthv vs i)) <= F')%nat) ->
     enc_cells (enc F') (map CP (firstn (Z.to_nat j) (map norm vs))) (cur + k) (cur + k + j) = COk (pwords, kids)) ->
  enc F (norm (VStruct ws vs)) pos cur
  = COk (if (k =? 0) && (j =? 0) then struct_word (-1) 0 0 else struct_word (cur - pos - 1) k j,
         (strip0 ws ++ pwords) ++ kids).
Proof.
  intros k j Hk0 Hj0 Lp Hoff HFd Hcells.
  assert (Kn : 0 <= k) by (unfold k, zlen; lia). assert (Jn : 0 <= j) by (unfold j, zlen; lia).
  set (ps' := stripN (map norm vs)) in *.
  assert (Eps : ps' = firstn (Z.to_nat j) (map norm vs)).
  { unfold ps', j, zlen. rewrite Nat2Z.id, <- stripN_map_norm_length. apply stripN_firstn. }
  assert (Lps : zlen ps' = j) by (unfold ps', j, zlen; rewrite stripN_map_norm_length; reflexivity).
  change (norm (VStruct ws vs)) with (VStruct (strip0 ws) ps') in *.
  destruct F as [|F']; [cbn [vdepth] in HFd; lia|].
  assert (HFk : forall i, 0 <= i < j -> (vdepth (norm (nthv vs i)) <= F')%nat).
  { intros i Hi0. cbn [vdepth] in HFd.
    assert (Hin : In (norm (nthv vs i)) ps').
    { assert (En : norm (nthv vs i) = nth (Z.to_nat i) (map norm vs) VNull)
        by (unfold nthv; symmetry; exact (map_nth norm vs VNull (Z.to_nat i))).
      assert (Lj : (length (stripN vs) <= length vs)%nat) by (rewrite (stripN_firstn vs) at 1; rewrite firstn_length; lia).
      rewrite En, Eps. rewrite <- (nth_firstn_lt (Z.to_nat i) (Z.to_nat j)) by lia. apply nth_In.
      rewrite firstn_length, map_length. unfold j, zlen in *. lia. }
    pose proof (vdepth_in_fold_max _ _ Hin). lia. }
  specialize (Hcells F' HFk).
  cbn [enc]. fold k. rewrite Lps.
  destruct ((k =? 0) && (j =? 0)) eqn:E0.
  - assert (k = 0 /\ j = 0) as [Ek Ej] by lia.
    destruct (strip0 ws) eqn:Es; [|unfold k, zlen in Ek; cbn [length] in Ek; lia].
    destruct pwords; [|unfold zlen in Lp; cbn [length] in Lp; lia].
    rewrite Ej in Hcells. cbn [Z.to_nat firstn map enc_cells] in Hcells. inversion Hcells. reflexivity.
  - unfold two16, two29.
    destruct ((k >=? 65536) || (j >=? 65536) || (cur - pos - 1 >=? 536870912)) eqn:E1; [lia|].
    unfold struct_cells. rewrite enc_cells_app_words. fold k. rewrite <- Eps in Hcells. rewrite Hcells.
    cbn [cbind fst snd]. reflexivity.
Qed.

(* ------------------------------------------------------------------ Canonicalize itself *)
Lemma put_word_head hdr rest w : length hdr = 8%nat -> put_word (hdr ++ rest) 0 w = le_encode 8 w ++ rest.
Proof.
  intros Hh. unfold put_word. cbn [Z.to_nat firstn app Nat.add]. rewrite <- Hh, skipn_app, Nat.sub_diag, skipn_all. reflexivity.
Qed.

Theorem canon_m_all : forall fuel rl s v bs rl',
  wf_ptr m s -> (p_valid s = true -> p_kind s = KStruct /\ DataSize (p_size s) mod 8 = 0) ->
  den true m 0 [] s v ->
  canonicalize c fx fuel m rl s = (KOk bs, rl') -> canon v = Some bs.
Proof.
  intros fuel rl s v bs rl' Hwf Hks D H.
  destruct (p_valid s) eqn:Hv.
  2:{ destruct (canon_m_null_partial fuel c fx m rl s Hv) as [C1 C2]. rewrite C1 in H. inversion H; subst.
      pose proof (den_null_iff _ _ _ _ _ _ D) as Hn. rewrite Hv in Hn. destruct v; try discriminate. exact C2. }
  destruct (Hks eq_refl) as [Hk Hal0]. assert (Hal : aligned s) by (intros _; exact Hal0).
  destruct v as [| |ws0 vs| |]; try (exfalso; inversion D; subst; congruence).
  destruct (canonicalStructSize_spec m 0 [] s _ Hm Hwf Hv Hk Hal0 D) as (ws' & vs' & E & Hcss).
  inversion E; subst ws' vs'; clear E.
  destruct (den_struct_inv _ _ _ _ _ _ D Hv Hk) as (d & vs0 & Ev & Wz & Sl & Lvs & _).
  inversion Ev; subst ws0 vs0; clear Ev.
  set (ws := words_of_bytes d) in *.
  set (k := zlen (strip0 ws)) in *. set (j := zlen (stripN vs)) in *.
  destruct Wz as [Wd Wp].
  apply slice_eq_sub in Sl as Sl'; [|apply seg_of_ok; assumption| lia]. destruct Sl' as (Ed & B1 & B2).
  assert (Ld : zlen d = DataSize (p_size s)) by (rewrite Ed; apply sub_length; lia).
  pose proof (words_of_bytes_length d) as Lw. fold ws in Lw.
  pose proof (strip0_length_le ws) as Lk.
  assert (Lj : (length (stripN vs) <= length vs)%nat) by (rewrite (stripN_firstn vs) at 1; rewrite firstn_length; lia).
  assert (Hk0 : 0 <= k <= 65535) by (unfold k, zlen in *; lia).
  assert (Hj0 : 0 <= j < 65536) by (unfold j, zlen in *; lia).
  destruct Hfx as (_ & _ & Hfn & _).
  unfold canonicalize in H.
  replace (new_message ASingle [] 0) with (Ok m0) in H by (vm_compute; reflexivity).
  rewrite Hv in H. cbn [negb] in H. cbv zeta in H. rewrite Hfn, Hstrict, Hcss in H. cbn [of_res kbind] in H.
  unfold newStruct, os_isValid in H. cbn [DataSize PointerCount] in H.
  destruct (8 * k <=? 65535 * 8) eqn:E8; [|lia]. cbn [negb] in H.
  rewrite (padToWord_mult (8 * k)) in H by lia.
  replace (totalSize (mkOS (8 * k) j)) with (8 * k + 8 * j) in H
    by (unfold totalSize, pointerSize, u32; cbn [DataSize PointerCount]; lia).
  unfold lift in H. change m0 with (seg0 (repeat 0 8%nat) 1024) in H.
  destruct (alloc (seg0 (repeat 0 8%nat) 1024) 0 (8 * k + 8 * j)) as [[[m1 sid1] addr]| |] eqn:Ea;
    try (cbn [bind of_res kbind] in H; discriminate H).
  destruct (alloc_seg0 (repeat 0 8%nat) 1024 (8 * k + 8 * j) m1 sid1 addr eq_refl ltac:(lia) Ea) as (cap1 & -> & -> & ->).
  rewrite (padToWord_mult (8 * k + 8 * j)) in * by lia.
  cbn [bind of_res kbind w_set_dst w_src w_src_rl] in H.
  change (zlen (repeat 0 8%nat)) with 8 in *.
  set (ss := mkPtr true 0 8 0 (mkOS (8 * k) j) maxDepth KStruct false false false) in *.
  set (z := repeat 0 (Z.to_nat (8 * k + 8 * j))) in *.
  assert (Lz : length z = Z.to_nat (8 * k + 8 * j)) by (unfold z; apply repeat_length).
  change (w_set_dst (mkW (seg0 (repeat 0 8%nat) 1024) m rl) (seg0 (repeat 0 8%nat ++ z) cap1))
    with (dstw (repeat 0 8%nat ++ z) cap1 m rl) in H.
  assert (L1 : zlen (repeat 0 8%nat ++ z) = 8 + 8 * k + 8 * j) by (rewrite zlen_app; unfold zlen; rewrite Lz; cbn [repeat length]; lia).
  assert (Hshape : forall hdr, length hdr = 8%nat -> cp_shape ss (zlen (hdr ++ z))).
  { intros hdr Hh. right. unfold ss. cbn [p_valid p_seg p_member p_off p_kind p_size].
    split; [reflexivity|]. split; [reflexivity|]. split; [reflexivity|]. split; [reflexivity|].
    split; [rewrite zlen_app; unfold zlen; lia| unfold os_wf; cbn [DataSize PointerCount]; lia]. }
  (* SetRoot, twice *)
  set (w := ptr_word ss 0) in *.
  unfold set_root, set_root_gen in H. cbn [w_dst dstw seg0 bm_segs bs_data] in H.
  assert (RB : forall hdr, length hdr = 8%nat -> regionInBounds (hdr ++ z) 0 8 = true).
  { intros hdr Hh. unfold regionInBounds, addSize, maxSegmentSize. cbn [Z.add]. change (8 >? 4294967288) with false. cbv iota.
    rewrite zlen_app. unfold zlen. lia. }
  rewrite (RB (repeat 0 8%nat) eq_refl) in H. cbn [negb] in H.
  change (mkW (mkBM ASingle [mkBS (repeat 0 8%nat ++ z) cap1] [] 0) m rl) with (dstw (repeat 0 8%nat ++ z) cap1 m rl) in H.
  rewrite (write_ptr_seg0 3) in H; try lia; try (apply Hshape; reflexivity).
  fold w in H. rewrite (put_word_head (repeat 0 8%nat) z w eq_refl) in H. cbn [of_res kbind] in H.
  cbn [w_dst dstw seg0 bm_segs bs_data] in H.
  rewrite (RB (le_encode 8 w) (le_encode_length 8 w)) in H. cbn [negb] in H.
  change (mkW (mkBM ASingle [mkBS (le_encode 8 w ++ z) cap1] [] 0) m rl) with (dstw (le_encode 8 w ++ z) cap1 m rl) in H.
  assert (L2 : zlen (le_encode 8 w ++ z) = 8 + 8 * k + 8 * j) by (rewrite zlen_app; unfold zlen; rewrite Lz, le_encode_length; lia).
  rewrite (write_ptr_seg0 3) in H; try lia; try (apply Hshape; apply le_encode_length).
  fold w in H. rewrite (put_word_head (le_encode 8 w) z w (le_encode_length 8 w)) in H. cbn [of_res kbind] in H.
  (* fill *)
  destruct (fill_canonical c fx fuel (dstw (le_encode 8 w ++ z) cap1 m rl) ss s) as [w2| | |] eqn:Ef; try discriminate H.
  inversion H; subst bs rl'; clear H.
  destruct (Q_all fuel) as (_ & HF & _).
  assert (Hinv1 : hinv (le_encode 8 w ++ z)) by (split; lia).
  assert (Hdst : dst_at ss 8 k j) by (unfold dst_at, ss; cbn; repeat split; reflexivity).
  assert (T3 : k <= zlen ws) by (unfold k, zlen in *; lia). assert (T4 : j <= zlen vs) by (unfold j, zlen in *; lia).
  destruct (HF _ cap1 rl ss s ws vs 8 k j w2 Hinv1 Hdst ltac:(lia) eq_refl ltac:(lia) Hj0 ltac:(lia)
               Hv Hk Hwf Hal D T3 T4 Ef)
    as (pwords & kids & cap2 & rl2 & Lp & -> & Hinv2 & Hcells).
  cbn [w_dst dstw]. change (get_seg (seg0 ?x cap2) 0) with (mkBS x cap2).
  set (dws := firstn (Z.to_nat k) ws) in *.
  assert (Edws : dws = strip0 ws) by (unfold dws, k, zlen; rewrite Nat2Z.id; symmetry; apply strip0_firstn).
  assert (Lblock : length (dws ++ pwords) = Z.to_nat (k + j)) by (rewrite app_length, Edws; unfold k, zlen in *; lia).
  assert (Edata : set_slots (le_encode 8 w ++ z) 8 (dws ++ pwords) = le_encode 8 w ++ bytes_of_words (dws ++ pwords)).
  { unfold z. replace (Z.to_nat (8 * k + 8 * j)) with (8 * length (dws ++ pwords))%nat by lia.
    exact (set_slots_end (le_encode 8 w) (dws ++ pwords)). }
  (* the specification *)
  unfold canon, canon_words.
  pose proof (enc_struct_assemble ws vs pwords kids 0 1 (S (vdepth (norm (VStruct ws vs)))) ltac:(fold k; lia) ltac:(fold j; lia)
                Lp ltac:(lia) ltac:(lia)) as Henc.
  fold k j in Henc. rewrite Henc.
  2:{ intros F' HF'. specialize (Hcells F' HF'). replace (8 / 8 + k) with (1 + k) in Hcells by lia.
      rewrite L2 in Hcells. replace ((8 + 8 * k + 8 * j) / 8) with (1 + k + j) in Hcells by lia. exact Hcells. }
  cbn [cbind fst snd]. f_equal.
  change (bs_data (get_seg (seg0 (set_slots (le_encode 8 w ++ z) 8 (dws ++ pwords) ++ bytes_of_words kids) cap2) 0))
    with (set_slots (le_encode 8 w ++ z) 8 (dws ++ pwords) ++ bytes_of_words kids).
  rewrite Edata, Edws. cbn [bs_data].
  change (bytes_of_words (?x :: ?r)) with (le_encode 8 x ++ bytes_of_words r).
  rewrite (bow_app (strip0 ws ++ pwords) kids), <- app_assoc. f_equal. f_equal.
  unfold w, ptr_word, ss. cbn [p_valid negb p_kind p_size p_off]. unfold os_isZero. cbn [DataSize PointerCount].
  destruct ((k =? 0) && (j =? 0)) eqn:E0.
  - replace ((8 * k =? 0) && (j =? 0)) with true by lia. reflexivity.
  - replace ((8 * k =? 0) && (j =? 0)) with false by lia. replace (8 * k / 8) with k by lia. reflexivity.
Qed.

End Top.

(* ------------------------------------------------------------------ closed statements *)
(* [T2]: whenever Canonicalize (all repairs applied, strict reader, well-formed source struct)
   returns bytes, they are the specification's canonical form of the value the struct denotes.
   Every value: structs, void / bit / primitive / pointer / struct lists, any depth and layout. *)
Theorem canon_m_correct : forall fuel c fx m rl s v bs rl',
  all_cfixed fx -> cfg_strict c = true -> msg_ok m -> wf_ptr m s ->
  (p_valid s = true -> p_kind s = KStruct /\ DataSize (p_size s) mod 8 = 0) ->
  den true m 0 [] s v ->
  canonicalize c fx fuel m rl s = (KOk bs, rl') -> canon v = Some bs.
Proof. intros fuel c fx m rl s v bs rl' Hf Hs M W K D C. exact (canon_m_all c fx m Hs Hf M fuel rl s v bs rl' W K D C). Qed.

(* all outcomes = CanonMProofs.canon_m_correct_statement (with a non-negative traversal budget):
   bytes are the canonical form; no panic (CanonSafe.canonicalize_safe); errors unconstrained *)
Theorem canon_m_correct_full : forall fuel c fx m rl s v,
  all_cfixed fx -> cfg_strict c = true -> msg_ok m -> wf_ptr m s ->
  (p_valid s = true -> p_kind s = KStruct /\ DataSize (p_size s) mod 8 = 0) ->
  den true m 0 [] s v -> 0 <= rl ->
  forall r rl', canonicalize c fx fuel m rl s = (r, rl') ->
  match r with
  | KOk bs => canon v = Some bs
  | KErr => True
  | KPanic => False
  | KFuel => True
  end.
Proof.
  intros fuel c fx m rl s v Hf Hs M W K D Hrl r rl' C. destruct r as [bs| | |]; try exact I.
  - eapply canon_m_correct; eassumption.
  - destruct (canonicalize_safe c fx fuel m rl s Hs (proj1 Hf) M (conj W (fun Hv => proj1 (K Hv))) Hrl) as [NP _].
    rewrite C in NP. apply NP. reflexivity.
Qed.

(* capabilities: a value containing a capability has no canonical form (canon_cap_none) and
   Canonicalize never returns bytes for it -- the outcome is the error (or fuel exhaustion, the
   excluded outcome), never bytes and never a panic.  Conversely bytes are returned only for
   capability-free values. *)
Theorem canon_m_cap_error : forall fuel c fx m rl s v,
  all_cfixed fx -> cfg_strict c = true -> msg_ok m -> wf_ptr m s ->
  (p_valid s = true -> p_kind s = KStruct /\ DataSize (p_size s) mod 8 = 0) ->
  den true m 0 [] s v -> 0 <= rl -> has_cap (norm v) = true ->
  forall r rl', canonicalize c fx fuel m rl s = (r, rl') -> r = KErr \/ r = KFuel.
Proof.
  intros fuel c fx m rl s v Hf Hs M W K D Hrl Hc r rl' C.
  pose proof (canon_m_correct_full fuel c fx m rl s v Hf Hs M W K D Hrl r rl' C) as T.
  destruct r as [bs| | |]; [|left; reflexivity|destruct T|right; reflexivity].
  rewrite (canon_cap_none v Hc) in T. discriminate T.
Qed.

Theorem canon_m_bytes_nocap : forall fuel c fx m rl s v bs rl',
  all_cfixed fx -> cfg_strict c = true -> msg_ok m -> wf_ptr m s ->
  (p_valid s = true -> p_kind s = KStruct /\ DataSize (p_size s) mod 8 = 0) ->
  den true m 0 [] s v ->
  canonicalize c fx fuel m rl s = (KOk bs, rl') -> has_cap (norm v) = false.
Proof.
  intros fuel c fx m rl s v bs rl' Hf Hs M W K D C.
  pose proof (canon_m_correct fuel c fx m rl s v bs rl' Hf Hs M W K D C) as E.
  destruct (has_cap (norm v)) eqn:Hc; [|reflexivity]. rewrite (canon_cap_none v Hc) in E. discriminate E.
Qed.

(* consequences for Canonicalize itself.  Premises as stated: nocap / good v are hypotheses about the
   denoted value (not derived from den), value preservation is w.r.t. the specification's strict
   decoder cdecode (not the library reader), the third needs the read-back value as a hypothesis *)
Theorem canon_m_layout_independent : forall fuel c fx m1 rl1 s1 v1 m2 rl2 s2 v2 bs1 bs2 r1 r2,
  all_cfixed fx -> cfg_strict c = true -> msg_ok m1 -> msg_ok m2 -> wf_ptr m1 s1 -> wf_ptr m2 s2 ->
  (p_valid s1 = true -> p_kind s1 = KStruct /\ DataSize (p_size s1) mod 8 = 0) ->
  (p_valid s2 = true -> p_kind s2 = KStruct /\ DataSize (p_size s2) mod 8 = 0) ->
  den true m1 0 [] s1 v1 -> den true m2 0 [] s2 v2 ->
  nocap v1 = true -> value_eqs v1 v2 = true ->
  canonicalize c fx fuel m1 rl1 s1 = (KOk bs1, r1) -> canonicalize c fx fuel m2 rl2 s2 = (KOk bs2, r2) ->
  bs1 = bs2.
Proof.
  intros fuel c fx m1 rl1 s1 v1 m2 rl2 s2 v2 bs1 bs2 r1 r2 Hf Hs M1 M2 W1 W2 K1 K2 D1 D2 Hc He C1 C2.
  pose proof (canon_m_correct fuel c fx m1 rl1 s1 v1 bs1 r1 Hf Hs M1 W1 K1 D1 C1) as E1.
  pose proof (canon_m_correct fuel c fx m2 rl2 s2 v2 bs2 r2 Hf Hs M2 W2 K2 D2 C2) as E2.
  rewrite (canon_unique v1 v2 Hc He) in E1. congruence.
Qed.

Theorem canon_m_value_preserved : forall fuel c fx m rl s v bs r,
  all_cfixed fx -> cfg_strict c = true -> msg_ok m -> wf_ptr m s ->
  (p_valid s = true -> p_kind s = KStruct /\ DataSize (p_size s) mod 8 = 0) ->
  den true m 0 [] s v -> good v ->
  canonicalize c fx fuel m rl s = (KOk bs, r) ->
  exists v', cdecode (S (vdepth (norm v))) bs = Some v' /\ value_eqs v' v = true /\ value_eq v' v = true.
Proof.
  intros fuel c fx m rl s v bs r Hf Hs M W K D G C.
  pose proof (canon_m_correct fuel c fx m rl s v bs r Hf Hs M W K D C) as E.
  apply canon_decodes_equal; assumption.
Qed.

(* NOT idempotence of Canonicalize by itself: [m'], [s'], [v'] are hypotheses -- a second message whose
   struct denotes a value value_eqs to v (what reading the output back would give IF the reader model
   denotes the canonical bytes as a value value_eqs to v: that link, cdecode/cparse vs den on the output
   bytes, is not proved; the run checks it on every case, flags R and I) *)
Theorem canon_m_idempotent_given_readback : forall fuel c fx m rl s v bs r m' rl' s' v' bs' r',
  all_cfixed fx -> cfg_strict c = true -> msg_ok m -> msg_ok m' -> wf_ptr m s -> wf_ptr m' s' ->
  (p_valid s = true -> p_kind s = KStruct /\ DataSize (p_size s) mod 8 = 0) ->
  (p_valid s' = true -> p_kind s' = KStruct /\ DataSize (p_size s') mod 8 = 0) ->
  den true m 0 [] s v -> nocap v = true ->
  canonicalize c fx fuel m rl s = (KOk bs, r) ->
  den true m' 0 [] s' v' -> value_eqs v v' = true ->      (* m' = the output, read back *)
  canonicalize c fx fuel m' rl' s' = (KOk bs', r') ->
  bs' = bs.
Proof.
  intros fuel c fx m rl s v bs r m' rl' s' v' bs' r' Hf Hs M M' W W' K K' D Hc C D' He C'.
  symmetry. eapply (canon_m_layout_independent fuel c fx m rl s v m' rl' s' v'); eassumption.
Qed.

(* ------------------------------------------------------------------ non-vacuity *)
(* a root struct (data word 7) with a byte list "abc", a pointer list holding one struct, a bit
   list (3 bits, dirty padding 0xfd) and a struct list of two elements (7, 0) with one data word:
   every hypothesis of canon_m_correct holds, Canonicalize returns bytes, and they are canon of
   the denoted value (computed independently) *)
Definition msg_ex : segs :=
  [wbytes [struct_word 0 1 4; 7; list_word 3 2 3; list_word 3 6 1; list_word 4 1 3; list_word 4 7 2;
           6513249; struct_word 0 1 0; 5; 253; struct_word 2 1 0; 7; 0]].
Definition root_ex : Ptr :=
  match fst (readPtr true msg_ex 1000000 0 (nth 0 msg_ex []) 0 64) with Ok q => q | _ => nullPtr end.

Example canon_m_nonvacuous :
  all_cfixed repaired /\ cfg_strict cfg0 = true /\ p_valid root_ex = true /\ p_kind root_ex = KStruct /\
  DataSize (p_size root_ex) mod 8 = 0 /\
  exists v bs rl', den true msg_ex 0 [] root_ex v /\ v <> VNull /\
                   canonicalize cfg0 repaired 20 msg_ex 1000000 root_ex = (KOk bs, rl') /\ canon v = Some bs.
Proof.
  split; [repeat split; reflexivity|]. split; [reflexivity|]. split; [reflexivity|]. split; [reflexivity|]. split; [reflexivity|].
  eexists. eexists. eexists.
  split; [apply (vdec_den 10 1000000); vm_compute; reflexivity|].
  split; [discriminate|]. split; vm_compute; reflexivity.
Qed.

(* a capability in the value: the error outcome *)
Definition msg_cap : segs := [wbytes [struct_word 0 0 1; 3]].
Definition root_cap : Ptr :=
  match fst (readPtr true msg_cap 1000000 0 (nth 0 msg_cap []) 0 64) with Ok q => q | _ => nullPtr end.
Example canon_m_cap_nonvacuous :
  exists v, den true msg_cap 0 [] root_cap v /\ has_cap (norm v) = true /\
            fst (canonicalize cfg0 repaired 20 msg_cap 1000000 root_cap) = KErr.
Proof.
  eexists. split; [apply (vdec_den 10 1000000); vm_compute; reflexivity|]. split; vm_compute; reflexivity.
Qed.

(* ------------------------------------------------------------------ S1: sub-word data sections *)
(* PREMISE of every theorem above: the struct handed to Canonicalize has a data section of whole
   words ([DataSize (p_size s) mod 8 = 0]).  That holds for every struct the reader hands out
   (readPtr_aligned) and for struct-list elements, but NOT for [List.Struct(i)] of a 1-, 2- or
   4-byte list.  For those the code as found was WRONG (the empty struct came out); the repair
   (repo commit 0fb41d1) is modelled by [canonicalize2 true].  On the premise the two agree: *)
Lemma css_sub_aligned b m s sz : DataSize (p_size s) mod 8 = 0 -> css_sub b m s sz = Ok sz.
Proof.
  intros H. unfold css_sub. cbv zeta. rewrite H. change (0 =? 0) with true. cbn [negb]. rewrite !Bool.andb_false_r. reflexivity.
Qed.

Theorem canonicalize2_aligned : forall c fx b fuel m rl s,
  (p_valid s = true -> DataSize (p_size s) mod 8 = 0) ->
  canonicalize2 c fx b fuel m rl s = canonicalize c fx fuel m rl s.
Proof.
  intros c fx b fuel m rl s H. unfold canonicalize2, canonicalize.
  destruct (new_message ASingle [] 0) as [m0| |]; try reflexivity.
  destruct (p_valid s) eqn:Hv; cbn [negb]; [|reflexivity]. specialize (H eq_refl).
  destruct (canonicalStructSize (cx_farnull fx) (cfg_strict c) m s) as [sz0| |]; cbn [bind]; try reflexivity.
  rewrite (css_sub_aligned b m s sz0 H). reflexivity.
Qed.

(* hence [T2] for the repaired Canonicalize, same premise *)
Theorem canon_m_correct2 : forall fuel c fx m rl s v bs rl',
  all_cfixed fx -> cfg_strict c = true -> msg_ok m -> wf_ptr m s ->
  (p_valid s = true -> p_kind s = KStruct /\ DataSize (p_size s) mod 8 = 0) ->
  den true m 0 [] s v ->
  canonicalize2 c fx true fuel m rl s = (KOk bs, rl') -> canon v = Some bs.
Proof.
  intros fuel c fx m rl s v bs rl' Hf Hs M W K D C.
  rewrite canonicalize2_aligned in C by (intros Hv; exact (proj2 (K Hv))).
  eapply canon_m_correct; eassumption.
Qed.

(* outside the premise: element 1 (value 6) of the byte list [5;6;7], and element 0 of the
   2-byte list [0x0807] and of the 4-byte list [0xdeadbeef], as the struct to canonicalise.
   As found the empty struct comes out (not the canonical form of the denoted value: REFUTED);
   repaired, the bytes are canon of the denoted value. *)
Definition msg_sub : segs :=
  [wbytes [struct_word 0 0 3; list_word 2 2 3; list_word 2 3 1; list_word 2 4 1; 460037; 2055; 3735928559]].
Definition member_sub (i j : Z) : Ptr :=
  match fst (select_member cfg0 msg_sub 1000000 i j) with Ok q => q | _ => nullPtr end.

Example canon_subword_refuted :
  forall i j, (i, j) = (0, 1) \/ (i, j) = (1, 0) \/ (i, j) = (2, 0) ->
  let e := member_sub i j in
  wf_ptr msg_sub e /\ p_valid e = true /\ p_kind e = KStruct /\ DataSize (p_size e) mod 8 <> 0 /\
  exists v bs, den true msg_sub 0 [] e v /\ canon v = Some bs /\
    fst (canonicalize2 cfg0 repaired false 20 msg_sub 1000000 e) = KOk [252; 255; 255; 255; 0; 0; 0; 0] /\
    bs <> [252; 255; 255; 255; 0; 0; 0; 0] /\
    fst (canonicalize2 cfg0 repaired true 20 msg_sub 1000000 e) = KOk bs.
Proof.
  intros i j [E|[E|E]]; inversion E; subst; cbv zeta.
  all: split; [intros _; vm_compute; repeat split; discriminate|].
  all: split; [reflexivity|]. all: split; [reflexivity|]. all: split; [vm_compute; discriminate|].
  all: eexists; eexists.
  all: split; [apply (vdec_den 10 1000000); vm_compute; reflexivity|].
  all: split; [vm_compute; reflexivity|]. all: split; [vm_compute; reflexivity|].
  all: split; [vm_compute; discriminate|]. all: vm_compute; reflexivity.
Qed.
