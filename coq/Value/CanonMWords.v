(* C18 [T2], groundwork for the heap-level induction: the pointer words written by the builder
   model (rawStructPointer / rawListPointer, placed with withOffset by the near branch of
   [place], and the tag word of NewCompositeList) ARE the arithmetic pointer words of the
   canonical-form specification (struct_word / list_word). *)
From CV Require Import Core.Arith Core.ArithFacts Value.ValueEq Value.CanonSpec.
From Coq Require Import ZifyBool.
Ltac Zify.zify_post_hook ::= Z.div_mod_to_equations.
Open Scope Z_scope.

Lemma raw_struct_is_struct_word off sz : os_wf sz ->
  rawStructPointer off sz = Some (struct_word off (DataSize sz / 8) (PointerCount sz)).
Proof.
  intros H. rewrite (rawStructPointer_sum off sz H). f_equal.
  unfold struct_word, two30, two32, two48. lia.
Qed.

(* Segment.writePtr, near case: raw struct pointer with zero offset, then withOffset *)
Theorem placed_struct_word off sz raw : os_wf sz ->
  rawStructPointer 0 sz = Some raw ->
  withOffset raw off = struct_word off (DataSize sz / 8) (PointerCount sz).
Proof.
  intros H E. rewrite (rawStructPointer_sum 0 sz H) in E. inversion E; subst raw; clear E.
  rewrite withOffset_sum. destruct H as (Hd & Hm & Hp).
  unfold struct_word, two30, two32, two48.
  assert (0 <= off mod 1073741824 < 1073741824) by (apply Z.mod_pos_bound; lia).
  set (o := off mod 1073741824) in *. clearbody o.
  set (dn := DataSize sz / 8) in *. assert (0 <= dn <= 65535) by (unfold dn; lia). clearbody dn.
  set (pn := PointerCount sz) in *. clearbody pn.
  replace (0 mod 1073741824) with 0 by reflexivity. lia.
Qed.

Theorem placed_list_word off lt n : 0 <= lt < 8 -> 0 <= n < 536870912 ->
  withOffset (rawListPointer 0 lt n) off = list_word off lt n.
Proof.
  intros Hl Hn. rewrite (rawListPointer_sum 0 lt n Hl Hn), withOffset_sum.
  unfold list_word, two30, two32, two35.
  assert (0 <= off mod 1073741824 < 1073741824) by (apply Z.mod_pos_bound; lia).
  set (o := off mod 1073741824) in *. clearbody o. replace (0 mod 1073741824) with 0 by reflexivity. lia.
Qed.

(* the zero-sized struct pointer (offset -1) *)
Lemma empty_struct_word : rawStructPointer (-1) (mkOS 0 0) = Some (struct_word (-1) 0 0).
Proof. vm_compute. reflexivity. Qed.

(* the tag word of a struct list: element count in the offset field *)
Theorem tag_is_struct_word n sz : os_wf sz ->
  rawStructPointer n sz = Some (struct_word n (DataSize sz / 8) (PointerCount sz)).
Proof. exact (raw_struct_is_struct_word n sz). Qed.
