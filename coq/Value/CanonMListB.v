(* C18 [T2]: canonicalList, the bit-list case.  The raw copy with the padding bits of the last byte
   cleared (mask_last, repair O2), followed by the allocation's zero padding and read as words, is
   the specification's pack 2 64 of the bits. *)
From CV Require Import Value.ValueEq Value.ValueEqProofs Value.EqualM Value.Den Value.DenFacts Value.DenLists
                       Value.CanonSpec Value.CanonProofs Value.CanonProofs3 Value.CanonM Value.CanonMStruct
                       Value.CanonMWords Value.CanonMData Value.CanonMHeap Value.CanonMLoop Value.CanonSafe Value.EqualProofs
                       Value.CanonMProofs Value.CanonMInd Value.CanonMBytes Value.CanonMListR Value.VDecProofs.
From CV Require Import Core.ReaderFacts Core.SafetyProofs Core.BuilderFacts Core.ArithFacts Core.CopySafe.
From Coq Require Import ZifyBool ZifyNat.
Ltac Zify.zify_post_hook ::= Z.div_mod_to_equations.
Open Scope Z_scope.

(* ------------------------------------------------------------------ digits *)
Lemma pack_word_app B a c : pack_word B (a ++ c) = pack_word B a + B ^ zlen a * pack_word B c.
Proof.
  induction a as [|x a IH]; cbn [app pack_word].
  - unfold zlen. cbn [length]. change (B ^ Z.of_nat 0) with 1. lia.
  - rewrite IH. unfold zlen. cbn [length]. rewrite Nat2Z.inj_succ, Z.pow_succ_r by lia. ring.
Qed.

Definition byte_bits (r : nat) (b : Z) : list Z := map (fun k => b2z (Z.testbit b k)) (iota r).

Lemma byte_bits_length r b : length (byte_bits r b) = r.
Proof. unfold byte_bits. rewrite map_length. apply iota_length. Qed.

Lemma byte_bits_value : forall r b, 0 <= b -> pack_word 2 (byte_bits r b) = b mod 2 ^ Z.of_nat r.
Proof.
  induction r as [|r IH]; intros b Hb.
  - cbn. rewrite Z.mod_1_r. reflexivity.
  - unfold byte_bits in *. rewrite iota_S, map_app, pack_word_app, IH by exact Hb. cbn [map pack_word].
    unfold zlen. rewrite map_length, iota_length.
    change (b2z (Z.testbit b (Z.of_nat r))) with (Z.b2z (Z.testbit b (Z.of_nat r))).
    rewrite Z.testbit_spec' by lia.
    rewrite Nat2Z.inj_succ, Z.pow_succ_r by lia. replace (2 * 2 ^ Z.of_nat r) with (2 ^ Z.of_nat r * 2) by ring.
    rewrite Z.rem_mul_r by (try apply Z.pow_nonzero; lia). ring.
Qed.

(* ------------------------------------------------------------------ the bits of a byte string *)
Definition bitsZ (n : nat) (d : list Z) : list Z := map b2z (bits_of n d).

Lemma bitsZ_length n d : length (bitsZ n d) = n.
Proof. unfold bitsZ, bits_of. rewrite !map_length. apply iota_length. Qed.

Lemma seq_off : forall b a, map Z.of_nat (seq a b) = map (fun x => Z.of_nat a + Z.of_nat x) (seq 0 b).
Proof.
  induction b as [|b IH]; intros a; [reflexivity|]. cbn [seq map]. f_equal; [lia|].
  rewrite (IH (S a)), <- seq_shift, map_map. apply map_ext. intros x. lia.
Qed.

Lemma iota_add a b : iota (a + b) = iota a ++ map (fun i => Z.of_nat a + i) (iota b).
Proof. unfold iota. rewrite seq_app, map_app. f_equal. cbn [Nat.add]. rewrite map_map. apply seq_off. Qed.

(* splitting after k bytes *)
Lemma bitsZ_split k n d :
  bitsZ (8 * k + n) d = bitsZ (8 * k) (firstn k d) ++ bitsZ n (skipn k d).
Proof.
  unfold bitsZ, bits_of. rewrite iota_add, !map_app. f_equal.
  - rewrite !map_map. apply map_ext_in. intros i Hi. apply in_map_iff in Hi. destruct Hi as (j & <- & Hj). apply in_seq in Hj.
    unfold bit_at. f_equal. f_equal. symmetry. apply nth_firstn_lt. lia.
  - rewrite !map_map. apply map_ext_in. intros i Hi. apply in_map_iff in Hi. destruct Hi as (j & <- & Hj). apply in_seq in Hj.
    unfold bit_at. f_equal. f_equal.
    + rewrite nth_skipn_add. f_equal. lia.
    + lia.
Qed.

Lemma bitsZ_byte r b t : (r <= 8)%nat -> bitsZ r (b :: t) = byte_bits r b.
Proof.
  intros Hr. unfold bitsZ, bits_of, byte_bits. rewrite map_map. apply map_ext_in.
  intros i Hi. apply in_map_iff in Hi. destruct Hi as (j & <- & Hj). apply in_seq in Hj.
  unfold bit_at. replace (Z.to_nat (Z.of_nat j / 8)) with 0%nat by lia. cbn [nth].
  replace (Z.of_nat j mod 8) with (Z.of_nat j) by lia. reflexivity.
Qed.

(* ------------------------------------------------------------------ mask_last *)
Lemma mask_last_cons n b r : 8 <= n -> zlen r = (n - 8 + 7) / 8 ->
  mask_last n (b :: r) = b :: mask_last (n - 8) r.
Proof.
  intros Hn Hl. unfold mask_last. cbv zeta. replace ((n - 8) mod 8) with (n mod 8) by lia.
  destruct (n mod 8 =? 0) eqn:E; [reflexivity|].
  cbn [rev]. destruct (rev r) as [|l pre] eqn:Er.
  - exfalso. apply (f_equal (@length Z)) in Er. rewrite rev_length in Er. cbn [length] in Er. unfold zlen in Hl. lia.
  - cbn [app]. rewrite rev_app_distr. reflexivity.
Qed.

(* all the bits, as one number = all the masked bytes, as one number *)
Lemma pack_bits_le_decode : forall d n, bytes_ok d -> zlen d = (Z.of_nat n + 7) / 8 ->
  pack_word 2 (bitsZ n d) = le_decode (mask_last (Z.of_nat n) d).
Proof.
  induction d as [|b r IH]; intros n Hb Hl.
  - assert (n = 0%nat) by (unfold zlen in Hl; cbn [length] in Hl; lia). subst n. reflexivity.
  - inversion Hb as [|? ? Hb0 Hbr]; subst.
    destruct (Nat.le_gt_cases 8 n) as [Hge|Hlt].
    + replace n with (8 * 1 + (n - 8))%nat at 1 by lia. rewrite bitsZ_split. cbn [firstn skipn]. change (8 * 1)%nat with 8%nat.
      rewrite (bitsZ_byte 8 b []) by lia. rewrite pack_word_app.
      unfold zlen at 1. rewrite byte_bits_length. rewrite byte_bits_value by lia.
      assert (Lr : zlen r = (Z.of_nat (n - 8) + 7) / 8) by (unfold zlen in *; cbn [length] in Hl; lia).
      rewrite (IH (n - 8)%nat Hbr Lr).
      rewrite mask_last_cons by (unfold zlen in *; lia).
      replace (Z.of_nat n - 8) with (Z.of_nat (n - 8)) by lia. cbn [le_decode].
      change (2 ^ Z.of_nat 8) with 256. lia.
    + assert (r = []) by (destruct r; [reflexivity|unfold zlen in Hl; cbn [length] in Hl; lia]). subst r.
      assert (0 < n)%nat by (unfold zlen in Hl; cbn [length] in Hl; lia).
      rewrite bitsZ_byte by lia. rewrite byte_bits_value by lia.
      unfold mask_last. cbv zeta. replace (Z.of_nat n mod 8) with (Z.of_nat n) by lia.
      destruct (Z.of_nat n =? 0) eqn:E; [lia|]. cbn [rev app le_decode]. lia.
Qed.

Lemma mask_last_split n d : 64 <= n -> zlen d = (n + 7) / 8 ->
  mask_last n d = firstn 8 d ++ mask_last (n - 64) (skipn 8 d).
Proof.
  intros Hn Hl.
  do 8 (destruct d as [|? d]; [unfold zlen in Hl; cbn [length] in Hl; lia|]).
  cbn [firstn skipn app].
  do 8 (rewrite mask_last_cons by (unfold zlen in *; cbn [length] in *; lia)).
  replace (n - 8 - 8 - 8 - 8 - 8 - 8 - 8 - 8) with (n - 64) by lia. reflexivity.
Qed.

Lemma mask_last_bytes_ok n d : bytes_ok d -> bytes_ok (mask_last n d).
Proof.
  intros H. unfold mask_last. cbv zeta. destruct (n mod 8 =? 0) eqn:E; [exact H|].
  destruct (rev d) as [|l pre] eqn:Er; [constructor|].
  assert (Hr : bytes_ok (rev d)) by (apply Forall_rev; exact H). rewrite Er in Hr. inversion Hr as [|? ? Hl Hp]; subst.
  apply Forall_app. split; [apply Forall_rev; exact Hp|]. constructor; [|constructor].
  assert (0 < 2 ^ (n mod 8) <= 256).
  { split; [apply Z.pow_pos_nonneg; lia|]. change 256 with (2 ^ 8). apply Z.pow_le_mono_r; lia. }
  pose proof (Z.mod_pos_bound l (2 ^ (n mod 8)) ltac:(lia)). lia.
Qed.

(* the words *)
Lemma pack_bits_words : forall fuel n d, (n <= fuel)%nat -> bytes_ok d -> zlen d = (Z.of_nat n + 7) / 8 ->
  pack_all fuel 2 64 (bitsZ n d) = words_of_bytes (mask_last (Z.of_nat n) d).
Proof.
  induction fuel as [|fuel IH]; intros n d Hf Hb Hl.
  - assert (n = 0%nat) by lia. subst n. assert (d = []) by (destruct d; [reflexivity|unfold zlen in Hl; cbn [length] in Hl; lia]).
    subst d. reflexivity.
  - destruct n as [|n'].
    { assert (d = []) by (destruct d; [reflexivity|unfold zlen in Hl; cbn [length] in Hl; lia]). subst d. reflexivity. }
    set (n := S n') in *.
    assert (Hne : bitsZ n d <> []).
    { intros E. apply (f_equal (@length Z)) in E. rewrite bitsZ_length in E. cbn [length] in E. unfold n in E. lia. }
    cbn [pack_all]. destruct (bitsZ n d) as [|x0 xs] eqn:Eb; [congruence|]. rewrite <- Eb. clear Hne.
    destruct (Nat.le_gt_cases 64 n) as [Hge|Hlt].
    + assert (Es : bitsZ n d = bitsZ 64 (firstn 8 d) ++ bitsZ (n - 64) (skipn 8 d)).
      { replace n with (8 * 8 + (n - 64))%nat at 1 by lia. apply bitsZ_split. }
      rewrite Es.
      rewrite firstn_app, bitsZ_length, Nat.sub_diag, firstn_O, app_nil_r, firstn_all2 by (rewrite bitsZ_length; lia).
      rewrite skipn_app, bitsZ_length, Nat.sub_diag, skipn_O, skipn_all2 by (rewrite bitsZ_length; lia). rewrite app_nil_l.
      assert (L8 : length (firstn 8 d) = 8%nat) by (rewrite firstn_length; unfold zlen in Hl; lia).
      rewrite (pack_bits_le_decode (firstn 8 d) 64) by (try (apply Forall_firstn'; exact Hb); unfold zlen; rewrite L8; reflexivity).
      change (Z.of_nat 64) with 64. assert (E64 : mask_last 64 (firstn 8 d) = firstn 8 d) by reflexivity. rewrite E64.
      rewrite IH; [| lia | apply Forall_skipn'; exact Hb | unfold zlen in *; rewrite skipn_length; lia].
      rewrite (mask_last_split (Z.of_nat n) d) by lia. rewrite wob_8 by exact L8.
      replace (Z.of_nat n - 64) with (Z.of_nat (n - 64)) by lia. reflexivity.
    + rewrite firstn_all2 by (rewrite bitsZ_length; lia). rewrite skipn_all2 by (rewrite bitsZ_length; lia).
      rewrite pack_bits_le_decode by assumption.
      assert (Ep : pack_all fuel 2 64 [] = []) by (destruct fuel; reflexivity). rewrite Ep.
      set (md := mask_last (Z.of_nat n) d).
      assert (Lmd : length md = length d) by apply mask_last_length.
      assert (0 < length d <= 8)%nat by (unfold zlen, n in *; lia).
      destruct (Nat.eq_dec (length d) 8) as [E8|E8].
      * rewrite <- (app_nil_r md) at 2. rewrite wob_8 by lia. reflexivity.
      * rewrite wob_small by lia. reflexivity.
Qed.

(* ------------------------------------------------------------------ the case of canonicalList *)
Section ListB.
Context (c : config) (fx : cfix) (m : segs).
Context (Hstrict : cfg_strict c = true) (Hfx : all_cfixed fx) (Hm : msg_ok m).

Lemma list_bits_case f data cap rl p bits w' cp :
  hinv data -> wf_ptr m p -> caligned p -> den true m 0 [] p (VBits bits) ->
  canonical_list c fx (S f) (dstw data cap m rl) 0 p = KOk (w', cp) -> Qconcl m data (VBits bits) w' cp.
Proof.
  intros Hi Hwf Hcal D H.
  inversion D as [| | |p0 d Hv Hk Hb Hn Sl| | |]; subst p0 bits.
  assert (Hc : p_comp p = false).
  { destruct (p_comp p) eqn:E; [|reflexivity]. destruct (Hcal E) as [_ X]. congruence. }
  destruct (Hwf Hv) as (Hseg & Hobj). unfold wf_obj in Hobj. rewrite Hk, Hb in Hobj.
  destruct Hobj as (Ho & Hlen & Hsz & Hbd).
  assert (Hsok : seg_ok (seg_of m p)) by (apply seg_of_ok; assumption).
  assert (Hsl : zlen (seg_of m p) <= 4294967288) by (apply Hsok).
  set (n := p_len p) in *.
  assert (Ebl : bitListSize n = (n + 7) / 8) by (unfold bitListSize, u32; lia).
  assert (Esz : list_allocSize p = (n + 7) / 8).
  { unfold list_allocSize. rewrite Hv, Hb. cbn [negb]. exact Ebl. }
  pose proof (raw_copy c fx m Hfx f data cap rl p w' cp Hi Hv Hc ltac:(rewrite Hsz; reflexivity) Ho ltac:(rewrite Esz; lia)
                       ltac:(rewrite Esz; lia) Hsl H) as R.
  cbv zeta in R. rewrite Esz, Hb, Hsz in R. fold n in R. destruct R as (Hbound & -> & cap1 & ->).
  rewrite Ebl, slice_ok in Sl by lia. inversion Sl; subst d; clear Sl.
  destruct Hi as [Hi1 Hi2].
  set (d := sub (seg_of m p) (p_off p) ((n + 7) / 8)) in *.
  assert (Ld : zlen d = (n + 7) / 8) by (unfold d; apply sub_length; lia).
  assert (Hd : bytes_ok d) by (unfold d, sub; apply Forall_firstn', Forall_skipn'; apply Hsok).
  set (bs := mask_last n d) in *.
  assert (Lbs : length bs = length d) by apply mask_last_length.
  assert (Hbs : bytes_ok bs) by (apply mask_last_bytes_ok; exact Hd).
  destruct (bow_wob_pad (length bs) bs (le_n _) Hbs) as (kp & Ebow & Hkm & Hk8).
  assert (Ekp : (Z.to_nat (padToWord ((n + 7) / 8)) - length bs)%nat = kp).
  { unfold padToWord, u32 in *. unfold zlen in Ld. lia. }
  rewrite Ekp, <- Ebow. exists (words_of_bytes bs), cap1, rl. split; [reflexivity|].
  assert (Lbow : zlen (bytes_of_words (words_of_bytes bs)) = padToWord ((n + 7) / 8)).
  { rewrite Ebow, zlen_app. unfold zlen in *. rewrite repeat_length. unfold padToWord, u32 in *. lia. }
  assert (Pm : padToWord ((n + 7) / 8) mod 8 = 0) by (unfold padToWord; lia).
  assert (P0 : 0 <= padToWord ((n + 7) / 8)) by (unfold padToWord, u32; lia).
  split; [split; rewrite zlen_app, Lbow; lia|].
  split.
  { right. cbn [p_valid p_seg p_member p_off p_kind p_size p_len p_comp p_bit].
    split; [reflexivity|]. split; [reflexivity|]. split; [reflexivity|]. split; [exact Hi1|].
    split; [rewrite zlen_app, Lbow; unfold zlen; lia|]. split; [lia|exact I]. }
  intros a F Ha Ham Hab HFd.
  cbn [norm] in *. destruct F as [|F']; [cbn [vdepth] in HFd; lia|].
  assert (Lb : zlen (bits_of (Z.to_nat n) d) = n) by (unfold zlen, bits_of; rewrite map_length, iota_length; lia).
  cbn [enc]. rewrite Lb. unfold two29.
  destruct ((n >=? 536870912) || (zlen data / 8 - a / 8 - 1 >=? 536870912)) eqn:E1; [lia|].
  unfold pack. rewrite map_length. fold (bitsZ (Z.to_nat n) d).
  replace (length (bits_of (Z.to_nat n) d)) with (Z.to_nat n) by (unfold zlen in Lb; lia).
  rewrite (pack_bits_words (Z.to_nat n) (Z.to_nat n) d (le_n _) Hd) by lia.
  replace (Z.of_nat (Z.to_nat n)) with n by lia. fold bs.
  unfold ptr_word. cbn [p_valid negb p_kind p_comp p_bit p_size PointerCount DataSize p_off p_len]. reflexivity.
Qed.

End ListB.
