(* C17: symmetry of Equal across two messages.  Exchanging the two messages exchanges the
   message ids carried by capability values; [setmid] re-labels a value, den is stable under
   re-labelling, and value_eq only depends on whether the two labels coincide. *)
From CV Require Import Value.ValueEq Value.ValueEqProofs Value.EqualM Value.Den Value.DenFacts Value.DenLists
                       Value.CanonSpec Value.EqualCorrect.
From CV Require Import Core.ReaderFacts.
From Coq Require Import ZifyBool ZifyNat.
Open Scope Z_scope.

Fixpoint setmid (a : Z) (v : value) : value :=
  match v with
  | VCap c => VCap (mkCap a (cv_idx c) (cv_intab c) (cv_client c))
  | VStruct d ps => VStruct d (map (setmid a) ps)
  | VList k es => VList k (map (setmid a) es)
  | _ => v
  end.

Lemma nthv_map_setmid a vs i : nthv (map (setmid a) vs) i = setmid a (nthv vs i).
Proof. unfold nthv. change VNull with (setmid a VNull) at 1. apply map_nth. Qed.

Lemma vdepth_in_fold p ps : In p ps -> (vdepth p <= fold_right (fun p m => Nat.max (vdepth p) m) O ps)%nat.
Proof.
  induction ps as [|y r IH]; [intros []|]. intros [->|H]; cbn [fold_right]; [lia|]. specialize (IH H). lia.
Qed.

Lemma nthv_depth vs i : 0 <= i < zlen vs ->
  (vdepth (nthv vs i) <= fold_right (fun p m => Nat.max (vdepth p) m) O vs)%nat.
Proof.
  intros Hi. unfold nthv. apply vdepth_in_fold. apply nth_In. unfold zlen in Hi. lia.
Qed.

Lemma den_setmid strict m mid mid' caps : forall n v, (vdepth v <= n)%nat -> forall p,
  den strict m mid caps p v -> den strict m mid' caps p (setmid mid' v).
Proof.
  induction n as [|n IH]; intros v Hd p D.
  { destruct v; cbn in Hd; lia. }
  inversion D; subst; cbn [setmid].
  - apply den_null. assumption.
  - apply den_cap; assumption.
  - eapply den_struct; try eassumption.
    + unfold zlen in *. rewrite map_length. assumption.
    + intros i Hi. match goal with K : forall i, _ -> exists _ _ _ _, _ |- _ => destruct (K i Hi) as (dep & rl & q & rl' & R & Dq) end.
      exists dep, rl, q, rl'. split; [exact R|]. rewrite nthv_map_setmid. apply IH; [|exact Dq].
      cbn [vdepth] in Hd. pose proof (nthv_depth vs i ltac:(lia)). lia.
  - apply den_bits; assumption.
  - apply den_comp; try assumption.
    + unfold zlen in *. rewrite map_length. assumption.
    + intros i Hi. rewrite nthv_map_setmid. apply IH; [|auto].
      cbn [vdepth] in Hd. pose proof (nthv_depth vs i ltac:(lia)). lia.
  - apply den_ptrs; try assumption.
    + unfold zlen in *. rewrite map_length. assumption.
    + intros i Hi. match goal with K : forall i, _ -> exists _ _ _ _ _, _ |- _ => destruct (K i Hi) as (dep & rl & q & rl' & v & R & Dq & N) end.
      exists dep, rl, q, rl', (setmid mid' v). split; [exact R|]. split.
      * apply IH; [|exact Dq]. cbn [vdepth] in Hd. pose proof (nthv_depth vs i ltac:(lia)) as Hn. rewrite N in Hn. cbn [vdepth fold_right] in Hn. lia.
      * rewrite nthv_map_setmid, N. reflexivity.
  - eapply den_prim; try eassumption.
    + unfold zlen in *. rewrite map_length. assumption.
    + intros i Hi. match goal with K : forall i, _ -> exists _, _ |- _ => destruct (K i Hi) as (d & Sl & N) end.
      exists d. split; [exact Sl|]. rewrite nthv_map_setmid, N. reflexivity.
Qed.

(* value_eq of two re-labelled values only depends on whether the labels coincide *)
Lemma veq_setmid u a b a' b' : (a =? b) = (a' =? b') -> forall va vb,
  veq u (setmid a va) (setmid b vb) = veq u (setmid a' va) (setmid b' vb).
Proof.
  intros Hab. induction va using value_ind2; intros vb; destruct vb as [|d0|d2 p2|k2 e2|b2]; cbn [setmid]; try reflexivity.
  - cbn [veq]. unfold cap_eq. cbn [cv_msg cv_idx cv_intab cv_client]. rewrite Hab. reflexivity.
  - rewrite !veq_struct. f_equal. revert p2. induction H as [|y r Hy Hr IHr]; intros p2.
    + cbn [map ptrs_eq]. clear. induction p2 as [|z s IHs]; [reflexivity|]. cbn [map forallb]. rewrite IHs. f_equal. destruct z; reflexivity.
    + destruct p2 as [|z s]; cbn [map ptrs_eq].
      * f_equal; [destruct y; reflexivity| apply (IHr [])].
      * f_equal; [apply Hy| apply IHr].
  - rewrite !veq_list. f_equal. revert e2. induction H as [|y r Hy Hr IHr]; intros e2; destruct e2 as [|z s]; try reflexivity.
    cbn [map elems_eq]. f_equal; [apply Hy| apply IHr].
Qed.

Definition swap_x (x : ectx) : ectx := mkEC (ec_segs_b x) (ec_caps_b x) (ec_segs_a x) (ec_caps_a x) (ec_same x).

(* Equal(p, q) across messages A, B and Equal(q, p) across B, A give the same answer *)
Theorem equal_sym_two_messages : forall c fx x fuel st1 st2 p q b1 b2 st1' st2' va vb,
  cfg_strict c = true -> all_fixed fx -> msg_ok (ec_segs_a x) -> msg_ok (ec_segs_b x) -> ec_same x = false ->
  equal_m fuel c fx x st1 p q = (EOk b1, st1') ->
  equal_m fuel c fx (swap_x x) st2 q p = (EOk b2, st2') ->
  den true (ec_segs_a x) 0 (ec_caps_a x) p va ->
  den true (ec_segs_b x) 1 (ec_caps_b x) q vb -> b1 = b2.
Proof.
  intros c fx x fuel st1 st2 p q b1 b2 st1' st2' va vb Hs Hf Ma Mb Hx H1 H2 Dp Dq.
  assert (HSA : segs_of x SA = ec_segs_a x) by (unfold segs_of, on_a; rewrite Hx; reflexivity).
  assert (HSB : segs_of x SB = ec_segs_b x) by (unfold segs_of, on_a; rewrite Hx; reflexivity).
  assert (HCA : caps_of x SA = ec_caps_a x) by (unfold caps_of, on_a; rewrite Hx; reflexivity).
  assert (HCB : caps_of x SB = ec_caps_b x) by (unfold caps_of, on_a; rewrite Hx; reflexivity).
  assert (HSA' : segs_of (swap_x x) SA = ec_segs_b x) by (unfold segs_of, on_a, swap_x; cbn; rewrite Hx; reflexivity).
  assert (HSB' : segs_of (swap_x x) SB = ec_segs_a x) by (unfold segs_of, on_a, swap_x; cbn; rewrite Hx; reflexivity).
  assert (HCA' : caps_of (swap_x x) SA = ec_caps_b x) by (unfold caps_of, on_a, swap_x; cbn; rewrite Hx; reflexivity).
  assert (HCB' : caps_of (swap_x x) SB = ec_caps_a x) by (unfold caps_of, on_a, swap_x; cbn; rewrite Hx; reflexivity).
  assert (E1 : b1 = value_eq (setmid 0 va) (setmid 1 vb)).
  { eapply (equal_m_correct c fx x fuel st1 p q b1 st1'); try eassumption.
    - rewrite HSA. assumption. - rewrite HSB. assumption.
    - rewrite HSA, HCA. eapply den_setmid; [apply le_n| exact Dp].
    - rewrite HSB, HCB, Hx. eapply den_setmid; [apply le_n| exact Dq]. }
  assert (E2 : b2 = value_eq (setmid 0 vb) (setmid 1 va)).
  { eapply (equal_m_correct c fx (swap_x x) fuel st2 q p b2 st2'); try eassumption.
    - rewrite HSA'. assumption. - rewrite HSB'. assumption.
    - rewrite HSA', HCA'. eapply den_setmid; [apply le_n| exact Dq].
    - rewrite HSB', HCB'. replace (ec_same (swap_x x)) with false by (symmetry; exact Hx). eapply den_setmid; [apply le_n| exact Dp]. }
  rewrite E1, E2, (value_eq_sym (setmid 0 vb)). unfold value_eq. apply veq_setmid. reflexivity.
Qed.
