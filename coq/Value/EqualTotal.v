(* C17 totality: capnp.Equal (model Value/EqualM.v) ANSWERS -- returns (b, nil), never an error --
   whenever both pointers can be traversed within the depth limit and the traversal budgets.

   [trav strict m p d c]: every Struct.Ptr reachable from pointer p of message m succeeds, the
   nesting needs depth budget d and the read sizes of all pointers that can be dereferenced
   below p sum to at most c.  It is [den] (Value/Den.v) without the value and with the two
   measures: children of a struct are obtained by Segment.readPtr (some budget, some depth),
   elements of a non-bit list through their struct view [elem_ptr].
   Charge function: Equal charges, per message, exactly [readSize q] (Core/LimitProofs.v: struct =
   its total size, list = element size x length with a zero-sized element charged one word,
   capability / null = 0) for every pointer q handed out by Struct.Ptr on the common pointer
   slots it visits (EqualAcct.equal_mA is the instrumented model); [trav]'s cost c is the sum
   over ALL slots, an upper bound that is attained when the two values are equal with equal
   pointer counts.
   Main theorem [equal_m_total]. No axioms. *)
From CV Require Import Value.ValueEq Value.EqualM Value.Den Value.DenFacts Value.DenLists Value.EqualSafe.
From CV Require Import Core.ReaderFacts Core.SafetyProofs Core.LimitProofs.
From Coq Require Import ZifyBool ZifyNat.
Ltac Zify.zify_post_hook ::= Z.div_mod_to_equations.
Open Scope Z_scope.

Fixpoint sumZ (l : list Z) : Z := match l with [] => 0 | x :: r => x + sumZ r end.
Definition nthz (cs : list Z) (i : Z) : Z := nth (Z.to_nat i) cs 0.
Definition nonnegs (cs : list Z) : Prop := Forall (fun z => 0 <= z) cs.

Inductive trav (strict : bool) (m : segs) : Ptr -> Z -> Z -> Prop :=
| tr_null p d c : p_valid p = false -> 0 <= c -> trav strict m p d c
| tr_iface p d c : p_valid p = true -> p_kind p = KIface -> 0 <= c -> trav strict m p d c
| tr_struct p d c cs :
    p_valid p = true -> p_kind p = KStruct ->
    zlen cs = PointerCount (p_size p) -> nonnegs cs -> sumZ cs <= c ->
    (forall i, 0 <= i < PointerCount (p_size p) ->
       exists dep rl q rl',
         readPtr strict m rl (p_seg p) (seg_of m p) (pointerAddress p i) dep = (Ok q, rl')
         /\ (p_valid q = true -> 1 <= d) /\ readSize q <= nthz cs i
         /\ trav strict m q (d - 1) (nthz cs i - readSize q)) ->
    trav strict m p d c
| tr_list p d c cs :
    p_valid p = true -> p_kind p = KList -> 0 <= c ->
    (p_bit p = false ->
       zlen cs = p_len p /\ nonnegs cs /\ sumZ cs <= c /\
       forall i, 0 <= i < p_len p -> trav strict m (elem_ptr p i) (d - 1) (nthz cs i)) ->
    trav strict m p d c.

(* ------------------------------------------------------------------ sums *)
Lemma sumZ_nonneg cs : nonnegs cs -> 0 <= sumZ cs.
Proof. induction 1; cbn [sumZ]; lia. Qed.

Lemma nonnegs_skipn k : forall cs, nonnegs cs -> nonnegs (skipn k cs).
Proof. induction k as [|k IH]; intros cs H; [exact H|]. destruct H; [constructor|]. cbn [skipn]. apply IH. assumption. Qed.

Lemma sumZ_skipn_step : forall k cs, (k < length cs)%nat ->
  sumZ (skipn k cs) = nth k cs 0 + sumZ (skipn (S k) cs).
Proof.
  induction k as [|k IH]; intros cs Hk; destruct cs as [|a r]; cbn [length] in Hk; try lia.
  - reflexivity.
  - cbn [skipn nth]. apply IH. lia.
Qed.

Lemma sumZ_skipn_z cs i : 0 <= i < zlen cs ->
  sumZ (skipn (Z.to_nat i) cs) = nthz cs i + sumZ (skipn (Z.to_nat (i + 1)) cs).
Proof.
  intros Hi. unfold zlen in Hi. replace (Z.to_nat (i + 1)) with (S (Z.to_nat i)) by lia.
  apply sumZ_skipn_step. lia.
Qed.

Lemma nthz_nonneg cs i : nonnegs cs -> 0 <= nthz cs i.
Proof.
  intros H. unfold nthz. destruct (Nat.lt_ge_cases (Z.to_nat i) (length cs)) as [L|G].
  - unfold nonnegs in H. rewrite Forall_forall in H. apply H. apply nth_In. assumption.
  - rewrite nth_overflow by assumption. lia.
Qed.

Lemma trav_cost_nonneg strict m p d c : trav strict m p d c -> 0 <= c.
Proof.
  intros H. destruct H; try assumption.
  match goal with Hn : nonnegs _ |- _ => pose proof (sumZ_nonneg _ Hn) end. lia.
Qed.

Lemma trav_mono_cost strict m p d c c' : trav strict m p d c -> c <= c' -> trav strict m p d c'.
Proof.
  intros H Hc. pose proof (trav_cost_nonneg _ _ _ _ _ H) as N. destruct H.
  - apply tr_null; [assumption|lia].
  - apply tr_iface; [assumption|assumption|lia].
  - eapply tr_struct; try eassumption. lia.
  - eapply tr_list with (cs := cs); try assumption; try lia.
    intros Hb. match goal with Hl : p_bit _ = false -> _ |- _ => destruct (Hl Hb) as (A & B & C & D) end.
    repeat split; try assumption. lia.
Qed.

(* trav only looks at the core of the pointer (not at its depth limit or list-member flag) *)
Lemma trav_core strict m p q d c : same_core p q -> trav strict m p d c -> trav strict m q d c.
Proof.
  intros (Hv & Hs & Ho & Hl & Hz & Hk & Hc & Hb) H.
  assert (Eseg : seg_of m q = seg_of m p) by (unfold seg_of; rewrite Hs; reflexivity).
  assert (Epa : forall i, pointerAddress q i = pointerAddress p i)
    by (intros; unfold pointerAddress; rewrite Ho, Hz; reflexivity).
  assert (Eel : forall i, elem_ptr q i = elem_ptr p i)
    by (intros; unfold elem_ptr; rewrite Hs, Ho, Hz; reflexivity).
  destruct H.
  - apply tr_null; congruence.
  - apply tr_iface; congruence.
  - eapply tr_struct with (cs := cs); try congruence.
    intros i Hi. rewrite <- Hz in Hi.
    match goal with Hall : forall i, _ -> exists _ _ _ _, _ |- _ =>
      destruct (Hall i Hi) as (dep & rl & q0 & rl' & E & D1 & D2 & D3) end.
    exists dep, rl, q0, rl'. rewrite <- Hs, Eseg, Epa. repeat split; assumption.
  - eapply tr_list with (cs := cs); try congruence.
    intros Hb'. rewrite <- Hb in Hb'.
    match goal with Hall : p_bit _ = false -> _ |- _ => destruct (Hall Hb') as (A & B & C & D) end.
    repeat split; try congruence. intros i Hi. rewrite Eel. apply D. lia.
Qed.

(* ------------------------------------------------------------------ one readPtr *)
(* a readPtr that succeeds with some budget and depth succeeds with every budget that covers
   the read size and every non-zero depth (depth 0 suffices for a null pointer); the pointer
   handed out is the same up to its depth limit, and the budget goes down by the read size *)
Lemma readPtr_transfer strict m rl0 rl sid s a dep0 dep q rl0' :
  readPtr strict m rl0 sid s a dep0 = (Ok q, rl0') ->
  (p_valid q = true -> dep <> 0) -> readSize q <= rl ->
  exists q', readPtr strict m rl sid s a dep = (Ok q', rl - readSize q) /\ same_core q' q /\
             (p_valid q' = true -> p_kind q' <> KIface -> p_depth q' = uint_dec dep).
Proof.
  unfold readPtr. destruct (resolveFarPointer strict m sid s a) as [[[[dsid dst] base] val]| |]; try discriminate.
  destruct (val =? 0).
  { intros H _ _. inversion H; subst. exists nullPtr. rewrite readSize_null.
    split; [f_equal; lia|]. split; [apply same_core_refl|]. cbn. discriminate. }
  destruct (dep0 =? 0); [discriminate|]. cbv zeta.
  destruct (pointerType val =? structPointer).
  { destruct (readStructPtr dsid dst base val) as [sp| |] eqn:E; try discriminate.
    apply readStructPtr_valid in E. destruct E as [V K].
    unfold canRead. destruct (rl0 >=? struct_readSize sp); [|discriminate].
    intros H Hd Hr. inversion H; subst q. clear H. specialize (Hd eq_refl).
    destruct (dep =? 0) eqn:Ed; [lia|].
    unfold readSize, struct_readSize in Hr |- *. cbn [p_valid p_size p_kind] in Hr. pcbn.
    unfold struct_readSize. rewrite V.
    destruct (rl >=? totalSize (p_size sp)) eqn:Eg; [|lia].
    eexists. split; [reflexivity|]. split; [repeat split|]. pcbn. reflexivity. }
  destruct (pointerType val =? listPointer).
  { destruct (readListPtr strict dsid dst base val) as [lp| |] eqn:E; try discriminate.
    apply readListPtr_valid in E. destruct E as [V K].
    unfold canRead. destruct (rl0 >=? list_readSize lp); [|discriminate].
    intros H Hd Hr. inversion H; subst q. clear H. specialize (Hd eq_refl).
    destruct (dep =? 0) eqn:Ed; [lia|].
    assert (Es : readSize (mkPtr true (p_seg lp) (p_off lp) (p_len lp) (p_size lp) (uint_dec dep0) KList (p_comp lp) (p_bit lp) false)
                 = list_readSize lp).
    { unfold readSize, list_readSize. pcbn. rewrite V. reflexivity. }
    rewrite Es in Hr |- *.
    destruct (rl >=? list_readSize lp) eqn:Eg; [|lia].
    eexists. split; [reflexivity|]. split; [repeat split|]. pcbn. reflexivity. }
  destruct (pointerType val =? otherPointer); [|discriminate].
  destruct (negb (otherPointerType val =? 0)); [discriminate|].
  intros H Hd Hr. inversion H; subst q. clear H. specialize (Hd eq_refl).
  destruct (dep =? 0) eqn:Ed; [lia|].
  eexists. split; [f_equal; unfold readSize; pcbn; lia|]. split; [repeat split|].
  pcbn. intros _ K. congruence.
Qed.

(* ------------------------------------------------------------------ the invariant *)
(* depth condition: the pointer's remaining depth budget covers the nesting below it *)
Definition dok (p : Ptr) (d : Z) : Prop :=
  p_valid p = true -> p_kind p <> KIface -> 0 <= p_depth p < two64 /\ d <= p_depth p.

Lemma dok_core p q d : p_valid p = p_valid q -> p_kind p = p_kind q -> p_depth p = p_depth q -> dok p d -> dok q d.
Proof. unfold dok. intros A B C H. rewrite <- A, <- B, <- C. exact H. Qed.

Section Total.
Context (c : config) (fx : efix) (x : ectx).
Context (Hstrict : cfg_strict c = true).
Context (Hbit : fx_bitlist fx = true) (Hdepth : fx_depth (fx_rd fx) = true).
Context (Hma : msg_ok (segs_of x SA)) (Hmb : msg_ok (segs_of x SB)).

Let mA := segs_of x SA.
Let mB := segs_of x SB.

(* the budgets cover a (message A) and b (message B); one shared budget when both pointers are
   in the same message *)
Definition bge (w : lims) (a b : Z) : Prop :=
  if ec_same x then a + b <= fst w else a <= fst w /\ b <= snd w.

Lemma bge_mono w a b a' b' : bge w a b -> a' <= a -> b' <= b -> bge w a' b'.
Proof. unfold bge. destruct (ec_same x); lia. Qed.

Definition rec_tot (rec : erec) : Prop :=
  forall w p q da ca db cb ra rb,
    wf_ptr mA p -> wf_ptr mB q -> trav true mA p da ca -> trav true mB q db cb ->
    dok p da -> dok q db -> 0 <= ra -> 0 <= rb -> bge w (ca + ra) (cb + rb) ->
    fst (rec w p q) <> EErr /\ bge (snd (rec w p q)) ra rb.

Definition tkids (m : segs) (p : Ptr) (d : Z) (cs : list Z) : Prop :=
  forall i, 0 <= i < PointerCount (p_size p) ->
    exists dep rl q rl',
      readPtr true m rl (p_seg p) (seg_of m p) (pointerAddress p i) dep = (Ok q, rl')
      /\ (p_valid q = true -> 1 <= d) /\ readSize q <= nthz cs i
      /\ trav true m q (d - 1) (nthz cs i - readSize q).

(* Struct.Ptr(i) on a traversable struct with enough budget and depth *)
Lemma struct_ptr_tot m rl p i d cs : tkids m p d cs -> p_valid p = true -> p_kind p = KStruct -> dok p d ->
  0 <= i < PointerCount (p_size p) -> nthz cs i <= rl ->
  exists q', struct_ptr c m rl p i = (Ok q', rl - readSize q') /\ readSize q' <= nthz cs i /\
             trav true m q' (d - 1) (nthz cs i - readSize q') /\ dok q' (d - 1).
Proof.
  intros Hk V K Hd Hi Hr. rewrite struct_ptr_unfold by (try assumption; lia). rewrite Hstrict.
  destruct (Hk i Hi) as (dep & rl0 & q & rl0' & E & D1 & D2 & D3).
  destruct (Hd V ltac:(congruence)) as [Dr Dd].
  destruct (readPtr_transfer true m rl0 rl (p_seg p) (seg_of m p) (pointerAddress p i) dep (p_depth p) q rl0' E
              ltac:(intros Vq; specialize (D1 Vq); lia) ltac:(lia)) as (q' & E' & C' & Dq).
  assert (Rs : readSize q' = readSize q).
  { destruct C' as (A1 & A2 & A3 & A4 & A5 & A6 & A7 & A8).
    unfold readSize, struct_readSize, list_readSize. rewrite A1, A4, A5, A6. reflexivity. }
  exists q'. rewrite Rs. split; [exact E'|]. split; [exact D2|].
  split; [apply (trav_core true m q q'); [apply same_core_sym; exact C'|exact D3]|].
  intros Vq Kq. rewrite (Dq Vq Kq).
  assert (p_valid q = true) as Vq' by (destruct C' as (A1 & _); congruence).
  specialize (D1 Vq'). pose proof (uint_dec_spec (p_depth p) ltac:(lia)) as U.
  unfold uint_dec, u64 in *. unfold two64 in *. split; [lia|].
  replace ((p_depth p - 1) mod 18446744073709551616) with (p_depth p - 1) by lia. lia.
Qed.

Lemma rl_put_same w s rl : rl_of x (put_rl x w s rl) s = rl.
Proof. unfold rl_of, put_rl. destruct (on_a x s); reflexivity. Qed.

(* ------------------------------------------------------------------ the pointer loop *)
Lemma ptr_loop_tot rec p q d1 cs1 d2 cs2 ra rb : rec_tot rec ->
  wf_struct mA p -> wf_struct mB q ->
  p_valid p = true -> p_kind p = KStruct -> p_valid q = true -> p_kind q = KStruct ->
  tkids mA p d1 cs1 -> tkids mB q d2 cs2 -> dok p d1 -> dok q d2 ->
  zlen cs1 = PointerCount (p_size p) -> zlen cs2 = PointerCount (p_size q) ->
  nonnegs cs1 -> nonnegs cs2 -> 0 <= ra -> 0 <= rb ->
  forall k i w, 0 <= i -> i + Z.of_nat k <= PointerCount (p_size p) -> i + Z.of_nat k <= PointerCount (p_size q) ->
    bge w (sumZ (skipn (Z.to_nat i) cs1) + ra) (sumZ (skipn (Z.to_nat i) cs2) + rb) ->
    fst (ptr_loop c x rec p q k i w) <> EErr /\ bge (snd (ptr_loop c x rec p q k i w)) ra rb.
Proof.
  intros Hrec Wp Wq Vp Kp Vq Kq T1 T2 D1 D2 L1 L2 N1 N2 Ra Rb.
  induction k as [|k IH]; intros i w Hi Hk1 Hk2 Hb.
  - cbn [ptr_loop fst snd]. split; [discriminate|].
    pose proof (sumZ_nonneg _ (nonnegs_skipn (Z.to_nat i) _ N1)).
    pose proof (sumZ_nonneg _ (nonnegs_skipn (Z.to_nat i) _ N2)).
    eapply bge_mono; [exact Hb|lia|lia].
  - rewrite ptr_loop_S.
    rewrite (sumZ_skipn_z cs1 i) in Hb by lia. rewrite (sumZ_skipn_z cs2 i) in Hb by lia.
    pose proof (sumZ_nonneg _ (nonnegs_skipn (Z.to_nat (i + 1)) _ N1)) as S1.
    pose proof (sumZ_nonneg _ (nonnegs_skipn (Z.to_nat (i + 1)) _ N2)) as S2.
    pose proof (nthz_nonneg cs1 i N1) as Z1. pose proof (nthz_nonneg cs2 i N2) as Z2.
    assert (nthz cs1 i <= rl_of x w SA) as B1.
    { unfold bge in Hb. unfold rl_of, on_a. destruct (ec_same x); cbn [orb]; lia. }
    destruct (struct_ptr_tot mA (rl_of x w SA) p i d1 cs1 T1 Vp Kp D1 ltac:(lia) B1) as (sp1 & E1 & R1 & Tr1 & Dk1).
    pose proof (struct_ptr_safe c mA (rl_of x w SA) p i Hma Wp Hi) as Sf1.
    fold mA. rewrite E1 in Sf1 |- *. cbn [fst res_sat] in Sf1. cbv zeta.
    set (w1 := put_rl x w SA (rl_of x w SA - readSize sp1)).
    assert (nthz cs2 i <= rl_of x w1 SB) as B2.
    { unfold bge in Hb. unfold w1, rl_of, put_rl, on_a. pose proof (readSize_nonneg sp1).
      destruct (ec_same x); cbn [orb fst snd]; lia. }
    destruct (struct_ptr_tot mB (rl_of x w1 SB) q i d2 cs2 T2 Vq Kq D2 ltac:(lia) B2) as (sp2 & E2 & R2 & Tr2 & Dk2).
    pose proof (struct_ptr_safe c mB (rl_of x w1 SB) q i Hmb Wq Hi) as Sf2.
    fold mB. rewrite E2 in Sf2 |- *. cbn [fst res_sat] in Sf2.
    set (w2 := put_rl x w1 SB (rl_of x w1 SB - readSize sp2)).
    assert (bge w2 ((nthz cs1 i - readSize sp1) + (sumZ (skipn (Z.to_nat (i + 1)) cs1) + ra))
                   ((nthz cs2 i - readSize sp2) + (sumZ (skipn (Z.to_nat (i + 1)) cs2) + rb))) as Hb2.
    { unfold bge in Hb |- *. unfold w2, w1, rl_of, put_rl, on_a.
      destruct (ec_same x); cbn [orb fst snd]; lia. }
    destruct (Hrec w2 sp1 sp2 (d1 - 1) _ (d2 - 1) _ (sumZ (skipn (Z.to_nat (i + 1)) cs1) + ra)
                (sumZ (skipn (Z.to_nat (i + 1)) cs2) + rb) (Sf1 Hstrict) (Sf2 Hstrict) Tr1 Tr2 Dk1 Dk2
                ltac:(lia) ltac:(lia) Hb2) as [G1 G2].
    destruct (rec w2 sp1 sp2) as [o w3]. cbn [fst snd] in G1, G2.
    destruct o as [[|]| | |]; try (split; [try discriminate; try exact G1|eapply bge_mono; [exact G2|lia|lia]]).
    apply IH; try lia. exact G2.
Qed.

(* ------------------------------------------------------------------ the extra pointers *)
Lemma has_nonnull_ptr_noerr strict m p i : has_nonnull_ptr strict m p i <> Err.
Proof.
  unfold has_nonnull_ptr, readRawPointer, readUintN.
  destruct (slice (seg_of m p) (pointerAddress p i) 8) as [b| |] eqn:E; cbn [bind]; try discriminate.
  - destruct (le_decode b =? 0); [discriminate|].
    destruct (resolveFarPointer strict m (p_seg p) (seg_of m p) (pointerAddress p i)) as [[[[? ?] ?] ?]| |]; discriminate.
  - exfalso. eapply slice_not_err. exact E.
Qed.

Lemma struct_hasptr_noerr m p i : struct_hasptr m p i <> Err.
Proof.
  unfold struct_hasptr, readRawPointer, readUintN. destruct (_ || _); [discriminate|].
  destruct (slice (seg_of m p) (pointerAddress p i) 8) as [b| |] eqn:E; cbn [bind]; try discriminate.
  exfalso. eapply slice_not_err. exact E.
Qed.

Lemma no_ptrs_noerr fixed strict m p : forall n i, no_ptrs fixed strict m p n i <> Err.
Proof.
  induction n as [|n IH]; intros i; cbn [no_ptrs]; [discriminate|].
  destruct fixed.
  - pose proof (has_nonnull_ptr_noerr strict m p i) as H.
    destruct (has_nonnull_ptr strict m p i) as [[|]| |]; cbn [bind]; try discriminate; try congruence; try apply IH.
  - pose proof (struct_hasptr_noerr m p i) as H.
    destruct (struct_hasptr m p i) as [[|]| |]; cbn [bind]; try discriminate; try congruence; try apply IH.
Qed.

(* ------------------------------------------------------------------ the struct case *)
Lemma equal_struct_tot rec w p q d1 c1 d2 c2 ra rb : rec_tot rec ->
  wf_ptr mA p -> wf_ptr mB q -> p_valid p = true -> p_valid q = true -> p_kind p = KStruct -> p_kind q = KStruct ->
  trav true mA p d1 c1 -> trav true mB q d2 c2 -> dok p d1 -> dok q d2 -> 0 <= ra -> 0 <= rb ->
  bge w (c1 + ra) (c2 + rb) ->
  fst (equal_struct c fx x rec w p q) <> EErr /\ bge (snd (equal_struct c fx x rec w p q)) ra rb.
Proof.
  intros Hrec Wp Wq Vp Vq Kp Kq T1 T2 D1 D2 Ra Rb Hb.
  pose proof (trav_cost_nonneg _ _ _ _ _ T1) as C1. pose proof (trav_cost_nonneg _ _ _ _ _ T2) as C2.
  assert (bge w ra rb) as Hb0 by (eapply bge_mono; [exact Hb|lia|lia]).
  unfold equal_struct. cbv zeta. fold mA mB.
  destruct (slice (seg_of mA p) _ _) as [d1'| |] eqn:S1;
    [|exfalso; eapply slice_not_err; exact S1|split; [discriminate|exact Hb0]].
  destruct (slice (seg_of mB q) _ _) as [d2'| |] eqn:S2;
    [|exfalso; eapply slice_not_err; exact S2|split; [discriminate|exact Hb0]].
  destruct (negb _); [split; [discriminate|exact Hb0]|].
  inversion T1 as [| |p1 dd1 cc1 cs1 _ _ L1 N1 Su1 K1|]; subst; try congruence.
  inversion T2 as [| |p2 dd2 cc2 cs2 _ _ L2 N2 Su2 K2|]; subst; try congruence.
  assert (wf_struct mA p) as WSp by (split; [assumption|intros _; assumption]).
  assert (wf_struct mB q) as WSq by (split; [assumption|intros _; assumption]).
  destruct (wf_struct_inv _ _ WSp Vp) as (_ & Zp & _). destruct (wf_struct_inv _ _ WSq Vq) as (_ & Zq & _).
  unfold wf_size in Zp, Zq.
  set (n := Z.min (PointerCount (p_size p)) (PointerCount (p_size q))).
  pose proof (ptr_loop_tot rec p q d1 cs1 d2 cs2 ra rb Hrec WSp WSq Vp Kp Vq Kq K1 K2 D1 D2 L1 L2 N1 N2 Ra Rb
                (Z.to_nat n) 0 w ltac:(lia) ltac:(lia) ltac:(lia)) as G.
  cbn [Z.to_nat skipn] in G. specialize (G ltac:(eapply bge_mono; [exact Hb|lia|lia])).
  destruct (ptr_loop c x rec p q (Z.to_nat n) 0 w) as [o w']. cbn [fst snd] in G. destruct G as [G1 G2].
  destruct o as [[|]| | |]; try (split; [try discriminate; try exact G1|exact G2]).
  pose proof (no_ptrs_noerr (fx_farnull fx) (cfg_strict c) mA p (Z.to_nat (PointerCount (p_size p) - n)) n) as NE1.
  destruct (no_ptrs _ _ mA p _ _) as [[|]| |]; try (split; [try discriminate; try congruence|exact G2]).
  pose proof (no_ptrs_noerr (fx_farnull fx) (cfg_strict c) mB q (Z.to_nat (PointerCount (p_size q) - n)) n) as NE2.
  destruct (no_ptrs _ _ mB q _ _) as [b| |]; (split; [try discriminate; try congruence|exact G2]).
Qed.

(* ------------------------------------------------------------------ the element loop *)
Definition telems (m : segs) (p : Ptr) (d : Z) (cs : list Z) : Prop :=
  forall i, 0 <= i < p_len p -> trav true m (elem_ptr p i) (d - 1) (nthz cs i).

Lemma list_struct_tot m p i d cs : msg_ok m -> wf_list m p -> p_valid p = true -> p_bit p = false ->
  telems m p d cs -> dok p d -> p_kind p = KList -> 0 <= i < p_len p ->
  exists e, list_struct true p i = Ok e /\ wf_ptr m e /\ trav true m e (d - 1) (nthz cs i) /\ dok e (d - 1).
Proof.
  intros Hm Wl V Hb Te Hd K Hi.
  pose proof (list_struct_safe true m p i Hm Wl ltac:(unfold list_len; rewrite V; lia)) as Sf.
  destruct (list_element_spec m p i Hm Wl V Hb Hi) as (Ee & Ha & Hend).
  assert (E : list_struct true p i =
              Ok (mkPtr true (p_seg p) (p_off p + i * totalSize (p_size p)) 0 (p_size p)
                        (if true && (p_depth p =? 0) then 0 else uint_dec (p_depth p)) KStruct false false true)).
  { unfold list_struct. rewrite V, Hb, Ee. cbn [negb orb].
    destruct (i <? 0) eqn:E1; [lia|]. destruct (i >=? p_len p) eqn:E2; [lia|]. reflexivity. }
  rewrite E in Sf. cbn [res_sat] in Sf. eexists. split; [exact E|]. split; [apply Sf|].
  pose proof (totalSize_nonneg (p_size p)) as Tn.
  pose proof (list_struct_elem m p i _ Hm V Hb Hi ltac:(lia) E) as Co.
  split; [eapply (trav_core true m (elem_ptr p i)); [apply same_core_sym; exact Co|apply Te; exact Hi]|].
  destruct (Hd V ltac:(congruence)) as [Dr Dd].
  intros _ _. pcbn. cbn [andb].
  destruct (p_depth p =? 0) eqn:E0.
  - unfold two64. lia.
  - pose proof (uint_dec_spec (p_depth p) ltac:(lia)) as U. unfold two64 in *.
    unfold uint_dec, u64 in *. replace ((p_depth p - 1) mod 18446744073709551616) with (p_depth p - 1) by lia. lia.
Qed.

Lemma elem_loop_tot rec p q d1 cs1 d2 cs2 ra rb : rec_tot rec ->
  wf_list mA p -> wf_list mB q ->
  p_valid p = true -> p_kind p = KList -> p_valid q = true -> p_kind q = KList ->
  p_bit p = false -> p_bit q = false ->
  telems mA p d1 cs1 -> telems mB q d2 cs2 -> dok p d1 -> dok q d2 ->
  zlen cs1 = p_len p -> zlen cs2 = p_len q -> p_len p = p_len q ->
  nonnegs cs1 -> nonnegs cs2 -> 0 <= ra -> 0 <= rb ->
  forall k i w, 0 <= i -> i + Z.of_nat k <= p_len p ->
    bge w (sumZ (skipn (Z.to_nat i) cs1) + ra) (sumZ (skipn (Z.to_nat i) cs2) + rb) ->
    fst (elem_loop true rec p q k i w) <> EErr /\ bge (snd (elem_loop true rec p q k i w)) ra rb.
Proof.
  intros Hrec Wp Wq Vp Kp Vq Kq Bp Bq T1 T2 D1 D2 L1 L2 Le N1 N2 Ra Rb.
  induction k as [|k IH]; intros i w Hi Hk Hb.
  - cbn [elem_loop fst snd]. split; [discriminate|].
    pose proof (sumZ_nonneg _ (nonnegs_skipn (Z.to_nat i) _ N1)).
    pose proof (sumZ_nonneg _ (nonnegs_skipn (Z.to_nat i) _ N2)).
    eapply bge_mono; [exact Hb|lia|lia].
  - rewrite elem_loop_S.
    rewrite (sumZ_skipn_z cs1 i) in Hb by lia. rewrite (sumZ_skipn_z cs2 i) in Hb by lia.
    pose proof (sumZ_nonneg _ (nonnegs_skipn (Z.to_nat (i + 1)) _ N1)) as S1.
    pose proof (sumZ_nonneg _ (nonnegs_skipn (Z.to_nat (i + 1)) _ N2)) as S2.
    pose proof (nthz_nonneg cs1 i N1) as Z1. pose proof (nthz_nonneg cs2 i N2) as Z2.
    destruct (list_struct_tot mA p i d1 cs1 Hma Wp Vp Bp T1 D1 Kp ltac:(lia)) as (e1 & E1 & We1 & Tr1 & Dk1).
    destruct (list_struct_tot mB q i d2 cs2 Hmb Wq Vq Bq T2 D2 Kq ltac:(lia)) as (e2 & E2 & We2 & Tr2 & Dk2).
    rewrite E1, E2.
    destruct (Hrec w e1 e2 (d1 - 1) _ (d2 - 1) _ (sumZ (skipn (Z.to_nat (i + 1)) cs1) + ra)
                (sumZ (skipn (Z.to_nat (i + 1)) cs2) + rb) We1 We2 Tr1 Tr2 Dk1 Dk2 ltac:(lia) ltac:(lia)
                ltac:(eapply bge_mono; [exact Hb|lia|lia])) as [G1 G2].
    destruct (rec w e1 e2) as [o w']. cbn [fst snd] in G1, G2.
    destruct o as [[|]| | |]; try (split; [try discriminate; try exact G1|eapply bge_mono; [exact G2|lia|lia]]).
    apply IH; try lia. exact G2.
Qed.

(* ------------------------------------------------------------------ the list case *)
Lemma equal_list_tot rec w p q d1 c1 d2 c2 ra rb : rec_tot rec ->
  wf_ptr mA p -> wf_ptr mB q -> p_valid p = true -> p_valid q = true -> p_kind p = KList -> p_kind q = KList ->
  trav true mA p d1 c1 -> trav true mB q d2 c2 -> dok p d1 -> dok q d2 -> 0 <= ra -> 0 <= rb ->
  bge w (c1 + ra) (c2 + rb) ->
  fst (equal_list fx x rec w p q) <> EErr /\ bge (snd (equal_list fx x rec w p q)) ra rb.
Proof.
  intros Hrec Wp Wq Vp Vq Kp Kq T1 T2 D1 D2 Ra Rb Hb.
  pose proof (trav_cost_nonneg _ _ _ _ _ T1) as C1. pose proof (trav_cost_nonneg _ _ _ _ _ T2) as C2.
  assert (bge w ra rb) as Hb0 by (eapply bge_mono; [exact Hb|lia|lia]).
  unfold equal_list. cbv zeta. fold mA mB. rewrite Hbit.
  destruct (negb (list_len p =? list_len q)) eqn:El; [split; [discriminate|exact Hb0]|].
  destruct (negb (Bool.eqb (p_bit p) (p_bit q))) eqn:Eb; [split; [discriminate|exact Hb0]|].
  destruct (p_bit p) eqn:Bp.
  { destruct (slice (seg_of mA p) _ _) as [x1| |] eqn:S1;
      [|exfalso; eapply slice_not_err; exact S1|split; [discriminate|exact Hb0]].
    destruct (slice (seg_of mB q) _ _) as [x2| |] eqn:S2;
      [|exfalso; eapply slice_not_err; exact S2|split; [discriminate|exact Hb0]].
    split; [discriminate|exact Hb0]. }
  assert (p_bit q = false) as Bq by (destruct (p_bit q); [discriminate Eb|reflexivity]).
  destruct (_ && _ && _); [split; [discriminate|exact Hb0]|].
  destruct (_ && _ && _).
  { destruct (slice (seg_of mA p) _ _) as [x1| |] eqn:S1;
      [|exfalso; eapply slice_not_err; exact S1|split; [discriminate|exact Hb0]].
    destruct (slice (seg_of mB q) _ _) as [x2| |] eqn:S2;
      [|exfalso; eapply slice_not_err; exact S2|split; [discriminate|exact Hb0]].
    split; [discriminate|exact Hb0]. }
  rewrite Hdepth.
  inversion T1 as [| | |p1 dd1 cc1 cs1 _ _ _ K1]; subst; try congruence.
  inversion T2 as [| | |p2 dd2 cc2 cs2 _ _ _ K2]; subst; try congruence.
  destruct (K1 Bp) as (L1 & N1 & Su1 & Te1). destruct (K2 Bq) as (L2 & N2 & Su2 & Te2).
  assert (wf_list mA p) as WLp by (split; [assumption|intros _; assumption]).
  assert (wf_list mB q) as WLq by (split; [assumption|intros _; assumption]).
  destruct (wf_list_inv _ _ WLp Vp) as (_ & _ & Lp & _).
  unfold list_len in El |- *. rewrite Vp, Vq in El. rewrite Vp.
  assert (p_len p = p_len q) as Le by lia.
  pose proof (elem_loop_tot rec p q d1 cs1 d2 cs2 ra rb Hrec WLp WLq Vp Kp Vq Kq Bp Bq Te1 Te2 D1 D2 L1 L2 Le
                N1 N2 Ra Rb (Z.to_nat (p_len p)) 0 w ltac:(lia) ltac:(lia)) as G.
  cbn [Z.to_nat skipn] in G. apply G. eapply bge_mono; [exact Hb|lia|lia].
Qed.

(* ------------------------------------------------------------------ one level, all levels *)
Lemma equal_step_tot rec : rec_tot rec -> rec_tot (equal_step c fx x rec).
Proof.
  intros Hrec w p q da ca db cb ra rb Wp Wq T1 T2 D1 D2 Ra Rb Hb.
  pose proof (trav_cost_nonneg _ _ _ _ _ T1) as C1. pose proof (trav_cost_nonneg _ _ _ _ _ T2) as C2.
  assert (bge w ra rb) as Hb0 by (eapply bge_mono; [exact Hb|lia|lia]).
  unfold equal_step.
  destruct (p_valid p) eqn:Vp; destruct (p_valid q) eqn:Vq; cbn [negb andb orb];
    try (split; [discriminate|exact Hb0]).
  destruct (p_kind p) eqn:Kp; destruct (p_kind q) eqn:Kq; try (split; [discriminate|exact Hb0]).
  - eapply equal_struct_tot; eassumption.
  - eapply equal_list_tot; eassumption.
Qed.

Theorem equal_m_tot : forall fuel, rec_tot (equal_m fuel c fx x).
Proof.
  induction fuel as [|f IH].
  - intros w p q da ca db cb ra rb Wp Wq T1 T2 D1 D2 Ra Rb Hb. cbn [equal_m fst snd].
    pose proof (trav_cost_nonneg _ _ _ _ _ T1). pose proof (trav_cost_nonneg _ _ _ _ _ T2).
    split; [discriminate|]. eapply bge_mono; [exact Hb|lia|lia].
  - cbn [equal_m]. apply equal_step_tot. exact IH.
Qed.

End Total.

(* ------------------------------------------------------------------ the theorem, closed *)
(* TOTALITY of Equal.  For every configuration with the repaired reader, all messages (msg_ok),
   one message or two, all well-formed pointers p (message A) and q (message B): if
   - both pointers are traversable, p with depth da and cost ca, q with db and cb ([trav]),
   - their remaining depth budgets cover da / db and are at most D - 1,
   - the remaining traversal budgets cover the costs (ca + cb <= the shared budget when both
     pointers are in one message, else ca <= budget A and cb <= budget B),
   - fuel >= D + 2,
   then Equal returns (b, nil) for some b: not an error, not a panic, not fuel exhaustion; it
   consumes at most ca / cb (resp. ca + cb) of the budgets, which stay non-negative. *)
Definition budgets_cover (x : ectx) (w : lims) (a b : Z) : Prop :=
  if ec_same x then a + b <= fst w else a <= fst w /\ b <= snd w.

Theorem equal_m_total : forall c fx x fuel w p q da ca db cb D,
  cfg_strict c = true -> fx_bitlist fx = true -> fx_depth (fx_rd fx) = true ->
  msg_ok (segs_of x SA) -> msg_ok (segs_of x SB) ->
  wf_ptr (segs_of x SA) p -> wf_ptr (segs_of x SB) q -> lims_nonneg w ->
  trav true (segs_of x SA) p da ca -> trav true (segs_of x SB) q db cb ->
  da <= p_depth p -> db <= p_depth q -> 0 <= p_depth p <= D - 1 -> 0 <= p_depth q <= D - 1 ->
  D + 2 <= Z.of_nat fuel -> D <= two64 ->
  forall ra rb, 0 <= ra -> 0 <= rb -> budgets_cover x w (ca + ra) (cb + rb) ->
  exists b w', equal_m fuel c fx x w p q = (EOk b, w') /\ lims_le w' w /\ budgets_cover x w' ra rb.
Proof.
  intros c fx x fuel w p q da ca db cb D Hs Hb Hd Ha Hbm Wp Wq Hw T1 T2 Da Db Dp Dq Hf HD ra rb Ra Rb Hbud.
  destruct (equal_m_safe c fx x fuel w p q D (conj Ha Hbm) Hs Hd Wp Wq Hw Dp Dq Hf) as (S1 & S2 & S3).
  destruct (equal_m_tot c fx x Hs Hb Hd Ha Hbm fuel w p q da ca db cb ra rb Wp Wq T1 T2
              ltac:(intros _ _; unfold two64 in *; lia) ltac:(intros _ _; unfold two64 in *; lia) Ra Rb Hbud) as [G1 G2].
  destruct (equal_m fuel c fx x w p q) as [o w']. cbn [fst snd] in *.
  destruct o as [b| | |]; try congruence. exists b, w'. split; [reflexivity|]. split; assumption.
Qed.
