(* C17 totality, part 2: every pointer that has a denotation is traversable ([den_trav]: the depth
   needed is at most the nesting depth of the value, the cost is some finite number), hence:
   pointers that denote values are answered by Equal with exactly [value_eq] of the values as
   soon as the depth limits and traversal budgets cover the measures ([equal_m_answers]). *)
From CV Require Import Value.ValueEq Value.ValueEqProofs Value.EqualM Value.Den Value.DenFacts Value.DenLists
                       Value.CanonSpec Value.EqualCorrect Value.EqualSym Value.EqualSafe Value.EqualTotal.
From CV Require Import Core.ReaderFacts Core.SafetyProofs Core.LimitProofs.
From Coq Require Import ZifyBool ZifyNat.
Ltac Zify.zify_post_hook ::= Z.div_mod_to_equations.
Open Scope Z_scope.

(* finite choice of a list of non-negative costs *)
Lemma fin_choice : forall (N : nat) (P : Z -> Z -> Prop),
  (forall i, 0 <= i < Z.of_nat N -> exists c, 0 <= c /\ P i c) ->
  exists cs, zlen cs = Z.of_nat N /\ nonnegs cs /\ forall i, 0 <= i < Z.of_nat N -> P i (nthz cs i).
Proof.
  induction N as [|N IH]; intros P H.
  - exists []. split; [reflexivity|]. split; [constructor|]. intros i Hi. lia.
  - destruct (H 0 ltac:(lia)) as (c0 & C0 & P0).
    destruct (IH (fun i c => P (i + 1) c)) as (cs & L & Nn & Hc).
    { intros i Hi. apply H. lia. }
    exists (c0 :: cs). split; [unfold zlen in *; cbn [length]; lia|]. split; [constructor; assumption|].
    intros i Hi. destruct (Z.eq_dec i 0) as [->|Ne]; [exact P0|].
    unfold nthz. replace (Z.to_nat i) with (S (Z.to_nat (i - 1))) by lia. cbn [nth].
    replace i with ((i - 1) + 1) at 1 by lia. apply Hc. lia.
Qed.

Lemma vdepth_pos v : (1 <= vdepth v)%nat.
Proof. destruct v; cbn [vdepth]; lia. Qed.

Lemma den_trav strict m mid caps : msg_ok m -> forall n v, (vdepth v <= n)%nat -> forall p,
  den strict m mid caps p v -> exists c, trav strict m p (Z.of_nat n) c.
Proof.
  intros Hm. induction n as [|n IH]; intros v Hd p D.
  { pose proof (vdepth_pos v). lia. }
  destruct (p_valid p) eqn:Vp; [|exists 0; apply tr_null; [assumption|lia]].
  destruct v as [|cv|ws vs|k vs|bs].
  - inversion D; subst; congruence.
  - inversion D; subst; try congruence. exists 0. apply tr_iface; try assumption. lia.
  - (* struct *)
    inversion D as [| |p' d' vs' V K Wz Sl Lv Kids| | | |]; subst.
    destruct (fin_choice (Z.to_nat (PointerCount (p_size p)))
                (fun i c => exists dep rl q rl',
                   readPtr strict m rl (p_seg p) (seg_of m p) (pointerAddress p i) dep = (Ok q, rl')
                   /\ (p_valid q = true -> 1 <= Z.of_nat (S n)) /\ readSize q <= c
                   /\ trav strict m q (Z.of_nat (S n) - 1) (c - readSize q))) as (cs & L & Nn & Hc).
    { intros i Hi. destruct (Kids i ltac:(lia)) as (dep & rl & q & rl' & E & Dq).
      destruct (IH (nthv vs i) ltac:(cbn [vdepth] in Hd; pose proof (nthv_depth vs i ltac:(lia)); lia) q Dq) as (c' & Tq).
      pose proof (trav_cost_nonneg _ _ _ _ _ Tq). pose proof (readSize_nonneg q).
      exists (c' + readSize q). split; [lia|]. exists dep, rl, q, rl'. split; [exact E|]. split; [lia|]. split; [lia|].
      replace (Z.of_nat (S n) - 1) with (Z.of_nat n) by lia. replace (c' + readSize q - readSize q) with c' by lia. exact Tq. }
    exists (sumZ cs). unfold wf_size in Wz. eapply tr_struct with (cs := cs); try assumption; try lia.
    intros i Hi. apply Hc. lia.
  - (* lists *)
    destruct (den_elem strict m mid caps p k vs Hm D Vp) as (Lv & Bp & Kp & El).
    assert (0 <= p_len p) as Lp by (unfold zlen in Lv; lia).
    destruct (fin_choice (Z.to_nat (p_len p))
                (fun i c => trav strict m (elem_ptr p i) (Z.of_nat (S n) - 1) c)) as (cs & L & Nn & Hc).
    { intros i Hi.
      destruct (IH (nthv vs i) ltac:(cbn [vdepth] in Hd; pose proof (nthv_depth vs i ltac:(lia)); lia)
                  (elem_ptr p i) (El i ltac:(lia))) as (c' & Te).
      exists c'. split; [eapply trav_cost_nonneg; exact Te|].
      replace (Z.of_nat (S n) - 1) with (Z.of_nat n) by lia. exact Te. }
    exists (sumZ cs). pose proof (sumZ_nonneg _ Nn). eapply tr_list with (cs := cs); try assumption.
    intros _. split; [lia|]. split; [assumption|]. split; [lia|]. intros i Hi. apply Hc. lia.
  - (* bits *)
    inversion D; subst. exists 0. eapply tr_list with (cs := []); try assumption; try lia. intros Hb. congruence.
Qed.

(* Equal ANSWERS, and answers the documented equality: for pointers that denote values there
   are measures (depth, cost per side) such that under every depth limit / fuel / pair of
   traversal budgets covering them, Equal returns (value_eq va vb, nil). *)
Theorem equal_m_answers : forall c fx x p q va vb,
  cfg_strict c = true -> all_fixed fx -> msg_ok (segs_of x SA) -> msg_ok (segs_of x SB) ->
  wf_ptr (segs_of x SA) p -> wf_ptr (segs_of x SB) q ->
  den true (segs_of x SA) 0 (caps_of x SA) p va ->
  den true (segs_of x SB) (if ec_same x then 0 else 1) (caps_of x SB) q vb ->
  exists ca cb,
    trav true (segs_of x SA) p (Z.of_nat (vdepth va)) ca /\ trav true (segs_of x SB) q (Z.of_nat (vdepth vb)) cb /\
    forall fuel w D ra rb,
      lims_nonneg w -> Z.of_nat (vdepth va) <= p_depth p <= D - 1 -> Z.of_nat (vdepth vb) <= p_depth q <= D - 1 ->
      D + 2 <= Z.of_nat fuel -> D <= two64 -> 0 <= ra -> 0 <= rb -> budgets_cover x w (ca + ra) (cb + rb) ->
      exists w', equal_m fuel c fx x w p q = (EOk (value_eq va vb), w') /\ lims_le w' w /\ budgets_cover x w' ra rb.
Proof.
  intros c fx x p q va vb Hs Hfx Ha Hb Wp Wq Da Db.
  destruct (den_trav true _ _ _ Ha (vdepth va) va (le_n _) p Da) as (ca & Ta).
  destruct (den_trav true _ _ _ Hb (vdepth vb) vb (le_n _) q Db) as (cb & Tb).
  exists ca, cb. split; [exact Ta|]. split; [exact Tb|].
  intros fuel w D ra rb Hw Dp Dq Hf HD Ra Rb Hbud. destruct Hfx as (F1 & F2 & F3).
  destruct (equal_m_total c fx x fuel w p q _ ca _ cb D Hs F1 F3 Ha Hb Wp Wq Hw Ta Tb
              ltac:(lia) ltac:(lia) ltac:(lia) ltac:(lia) Hf HD ra rb Ra Rb Hbud) as (b & w' & E & Le & Bc).
  exists w'. split; [|split; assumption].
  rewrite E. f_equal. f_equal.
  apply (equal_m_correct c fx x fuel w p q b w' va vb Hs (conj F1 (conj F2 F3)) Ha Hb E Da Db).
Qed.

(* non-vacuity: the root of [eq_deep_msg] (struct -> composite list -> element with a null
   pointer) denotes a value, is well formed, hence traversable; compared with itself under
   depth limit 4 and a budget of 1000, Equal answers true and charges 16 bytes (the list
   pointer is dereferenced once per side). *)
From CV Require Import Value.VDec Value.VDecProofs.
Example equal_total_example :
  let c := mkCfg 1000 4 true true in
  let fx := mkEFix true true (mkFix true true true) in
  let x := mkEC eq_deep_msg [] eq_deep_msg [] true in
  exists p rl0 v ca,
    root c eq_deep_msg 1000 = (Ok p, rl0) /\ wf_ptr eq_deep_msg p /\
    den true eq_deep_msg 0 [] p v /\ trav true eq_deep_msg p (Z.of_nat (vdepth v)) ca /\
    equal_m 6 c fx x (rl0, 0) p p = (EOk true, (rl0 - 16, 0)).
Proof.
  intros c fx x.
  assert (Hm : msg_ok eq_deep_msg) by (repeat constructor; cbn; try lia; unfold maxSegmentSize; lia).
  destruct (root c eq_deep_msg 1000) as [r rl0] eqn:E. vm_compute in E. inversion E; subst r rl0. clear E.
  match goal with |- exists p, _ => eexists; eexists end.
  destruct (vdec 10 1000 eq_deep_msg 0 []
              (mkPtr true 0 8 0 (mkOS 0 1) 3 KStruct false false false)) as [v|] eqn:Ev; [|vm_compute in Ev; discriminate].
  pose proof (vdec_den _ _ _ _ _ _ _ Ev) as D.
  destruct (den_trav true _ 0 [] Hm (vdepth v) v (le_n _) _ D) as (ca & T).
  exists v, ca. split; [reflexivity|]. split.
  { intros _. split; [vm_compute; split; congruence|]. vm_compute. repeat split; congruence. }
  split; [exact D|]. split; [exact T|]. vm_compute. reflexivity.
Qed.

(* den_defined_of_valid, PARTIAL.  Wanted: for a message satisfying the Spec validity predicate
   (Spec/SpecValid.strict_valid_message = VOk) every pointer reachable from the root has a
   denotation.  Proved here: the same conclusion (a denotation, and its traversability measures)
   from the success of the EXECUTABLE decoder [vdec] on the pointer -- a decidable sufficient
   condition evaluated by the harness on every case.  Missing: the lemma
   strict_valid_message f m = VOk -> vdec .. m .. (root) <> None (Spec/StrictWalk.strict_valid_walk
   gives walk = spec_decode on such messages, but no lemma links a complete walked tree to vdec/den). *)
Theorem den_defined_of_valid_partial : forall fuel lcap m mid caps p v,
  msg_ok m -> vdec fuel lcap m mid caps p = Some v ->
  den true m mid caps p v /\ exists c, trav true m p (Z.of_nat (vdepth v)) c.
Proof.
  intros fuel lcap m mid caps p v Hm E. pose proof (vdec_den _ _ _ _ _ _ _ E) as D.
  split; [exact D|]. exact (den_trav true m mid caps Hm (vdepth v) v (le_n _) p D).
Qed.
