(* Packing of digits into words (bit lists, primitive lists of the canonical form):
   unpack inverts pack, and pack produces ceil(n / per) words. *)
From CV Require Import Value.ValueEq Value.CanonSpec Core.ReaderFacts.
From Coq Require Import ZifyBool ZifyNat.
Open Scope Z_scope.

Definition digits_ok (B : Z) (ds : list Z) : Prop := Forall (fun d => 0 <= d < B) ds.

Lemma unpack_pack_word B : 1 < B -> forall c, digits_ok B c -> unpack_word B (length c) (pack_word B c) = c.
Proof.
  intros HB. induction c as [|d r IH]; intros H; [reflexivity|].
  inversion H as [|? ? Hd Hr]; subst. cbn [length unpack_word pack_word].
  rewrite (Z.mul_comm B), Z_mod_plus_full, Z.mod_small by lia.
  rewrite Z_div_plus_full, Z.div_small by lia. cbn [Z.add]. rewrite IH by assumption. reflexivity.
Qed.

Lemma digits_ok_firstn B k ds : digits_ok B ds -> digits_ok B (firstn k ds).
Proof. intros H. apply Forall_forall. intros y Hy. unfold digits_ok in H. rewrite Forall_forall in H. apply H. eapply In_firstn; eassumption. Qed.
Lemma digits_ok_skipn B k ds : digits_ok B ds -> digits_ok B (skipn k ds).
Proof. intros H. apply Forall_forall. intros y Hy. unfold digits_ok in H. rewrite Forall_forall in H. apply H. eapply In_skipn; eassumption. Qed.

Lemma unpack_pack_all B per : 1 < B -> (1 <= per)%nat -> forall fuel ds,
  (length ds <= fuel)%nat -> digits_ok B ds ->
  unpack B per (length ds) (pack_all fuel B per ds) = ds.
Proof.
  intros HB Hp. induction fuel as [|f IH]; intros ds L H.
  - destruct ds; [reflexivity| cbn in L; lia].
  - destruct ds as [|d r] eqn:E; [reflexivity|]. rewrite <- E in *. cbn [pack_all].
    assert (Hne : ds <> []) by (subst; discriminate).
    destruct ds as [|d0 r0]; [contradiction|]. cbn [unpack].
    set (ds := d0 :: r0) in *.
    replace (Nat.min per (length ds)) with (length (firstn per ds)) by (rewrite firstn_length; reflexivity).
    rewrite unpack_pack_word by (try assumption; apply digits_ok_firstn; assumption).
    replace (length ds - per)%nat with (length (skipn per ds)) by (rewrite skipn_length; reflexivity).
    rewrite IH.
    + apply firstn_skipn.
    + rewrite skipn_length. subst ds. cbn [length] in *. lia.
    + apply digits_ok_skipn. assumption.
Qed.

Lemma unpack_pack B per ds : 1 < B -> (1 <= per)%nat -> digits_ok B ds ->
  unpack B per (length ds) (pack B per ds) = ds.
Proof. intros. unfold pack. apply unpack_pack_all; try assumption. lia. Qed.

Lemma words_for_small per n : (1 <= per)%nat -> 1 <= n <= Z.of_nat per -> words_for per n = 1.
Proof.
  intros Hp Hn. unfold words_for. symmetry. apply (Z.div_unique _ _ 1 (n - 1)); lia.
Qed.

Lemma words_for_step per n : (1 <= per)%nat -> Z.of_nat per <= n -> words_for per n = 1 + words_for per (n - Z.of_nat per).
Proof.
  intros Hp Hn. unfold words_for.
  replace (n + Z.of_nat per - 1) with ((n - Z.of_nat per + Z.of_nat per - 1) + 1 * Z.of_nat per) by lia.
  rewrite Z_div_plus_full by lia. lia.
Qed.

Lemma pack_all_length B per : (1 <= per)%nat -> forall fuel ds, (length ds <= fuel)%nat ->
  zlen (pack_all fuel B per ds) = words_for per (zlen ds).
Proof.
  intros Hp. induction fuel as [|f IH]; intros ds L.
  - destruct ds; [|cbn in L; lia]. unfold words_for, zlen. cbn [length pack_all]. change (Z.of_nat 0) with 0. rewrite Z.div_small by lia. reflexivity.
  - destruct ds as [|d r] eqn:E.
    + unfold words_for, zlen. cbn [length pack_all]. change (Z.of_nat 0) with 0. rewrite Z.div_small by lia. reflexivity.
    + rewrite <- E in *. assert (Hl : (1 <= length ds)%nat) by (subst; cbn; lia).
      replace (pack_all (S f) B per ds) with (pack_word B (firstn per ds) :: pack_all f B per (skipn per ds))
        by (subst; reflexivity).
      unfold zlen in *. cbn [length]. rewrite Nat2Z.inj_succ, IH by (rewrite skipn_length; lia).
      rewrite skipn_length. destruct (Nat.le_gt_cases per (length ds)) as [Ge|Lt].
      * rewrite (words_for_step per (Z.of_nat (length ds))) by lia. rewrite Nat2Z.inj_sub by lia. lia.
      * replace (length ds - per)%nat with O by lia. rewrite (words_for_small per (Z.of_nat (length ds))) by lia.
        unfold words_for. change (Z.of_nat 0) with 0. rewrite Z.div_small by lia. lia.
Qed.

Lemma pack_length B per ds : (1 <= per)%nat -> zlen (pack B per ds) = words_for per (zlen ds).
Proof. intros. unfold pack. apply pack_all_length; [assumption|lia]. Qed.

Lemma zs_eqb_refl a : zs_eqb a a = true.
Proof. induction a as [|y r IH]; cbn; [reflexivity|]. rewrite Z.eqb_refl, IH. reflexivity. Qed.
