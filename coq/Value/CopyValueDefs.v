(* C16 [T2] copy_value: the induction, for a single-segment destination.
   P_wp f : writePtr (fuel f) of a pointer of the read-only source message into slot a of the
            destination stores one word there and appends the copy at the end of the segment;
            in EVERY memory that keeps that word and the appended bytes (whatever precedes them
            or is appended later), the reader reads the slot as a pointer denoting the source's value.
   P_cs f : copyStruct (fuel f) into a destination struct of any section sizes writes the data
            words resized (truncated / zero-extended), the pointer words of the first
            min(ns, nd) children, null for the missing ones, and appends the children.
   Domain of this file ([cvdom]): values built from structs (any sizes), nulls and data-only lists
   (void, 1/2/4/8-byte, bit lists), any depth; not yet: pointer lists, struct lists, capabilities. *)
From CV Require Import Value.ValueEq Value.ValueEqProofs Value.EqualM Value.Den Value.DenFacts Value.DenLists
                       Value.CanonSpec Value.CanonProofs3 Value.CanonM Value.CanonMStruct Value.CanonMData Value.CanonMHeap
                       Value.CanonMLoop Value.CanonMInd Value.CanonMBytes Value.CanonMBlocks Value.CopyValue Value.CopyValueHeap.
From CV Require Import Core.ReaderFacts Core.SafetyProofs Core.BuilderFacts Core.ArithFacts Core.CopySafe Core.WritePtrProofs.
From Coq Require Import ZifyBool ZifyNat.
Ltac Zify.zify_post_hook ::= Z.div_mod_to_equations.
Open Scope Z_scope.

Fixpoint cvdom (v : value) : bool :=
  match v with
  | VNull => true
  | VStruct _ ps => forallb cvdom ps
  | VBits _ => true
  | VList LPtr es | VList LComp es => forallb cvdom es
  | VList _ _ => true
  | VCap _ => false
  end.

(* ------------------------------------------------------------------ words and bytes *)
Lemma wob_w64 : forall fuel d, (length d <= fuel)%nat -> bytes_ok d -> Forall w64 (words_of_bytes d).
Proof.
  induction fuel as [|fuel IH]; intros d Hl Hb.
  - destruct d; [constructor|cbn [length] in Hl; lia].
  - assert (W : forall l, bytes_ok l -> (length l <= 8)%nat -> w64 (le_decode l)).
    { intros l Hbl Hll. pose proof (le_decode_range l Hbl) as R. unfold w64, two64.
      assert (256 ^ zlen l <= 256 ^ 8) by (apply Z.pow_le_mono_r; [lia|unfold zlen; clear - Hll; lia]).
      change (256 ^ 8) with 18446744073709551616 in *. set (X := 256 ^ zlen l) in *. clearbody X. split; [apply R|]. destruct R as [_ R2]. eapply Z.lt_le_trans; [exact R2|exact H]. }
    destruct (Nat.le_gt_cases 8 (length d)) as [Hge|Hlt].
    + rewrite <- (firstn_skipn 8 d). rewrite wob_8 by (rewrite firstn_length; lia). constructor.
      * apply W; [apply Forall_firstn'; exact Hb| rewrite firstn_length; lia].
      * apply IH; [rewrite skipn_length; lia| apply Forall_skipn'; exact Hb].
    + destruct d as [|b0 r] eqn:Ed; [constructor|]. rewrite <- Ed in *.
      assert (0 < length d)%nat by (rewrite Ed; cbn [length]; lia).
      rewrite wob_small by lia. constructor; [|constructor]. apply W; [exact Hb|lia].
Qed.

Lemma bow_bytes_ok ws : bytes_ok (bytes_of_words ws).
Proof. induction ws as [|w r IH]; [constructor|]. change (bytes_of_words (w :: r)) with (le_encode 8 w ++ bytes_of_words r). apply Forall_app. split; [apply le_encode_bytes|exact IH]. Qed.

Lemma zeros_bytes_ok n : bytes_ok (repeat 0 n).
Proof. apply Forall_forall. intros x Hx. apply repeat_spec in Hx. subst x. lia. Qed.

Lemma bow_zeros n : bytes_of_words (repeat 0 n) = repeat 0 (8 * n).
Proof.
  induction n as [|n IH]; [reflexivity|]. cbn [repeat]. unfold bytes_of_words in *. cbn [flat_map]. rewrite IH.
  replace (8 * S n)%nat with (8 + 8 * n)%nat by lia. reflexivity.
Qed.

(* the bytes copyStruct writes into the data section are the resized words *)
Lemma copy_data_words d dn : bytes_ok d -> (length d mod 8 = 0)%nat ->
  let n := Nat.min (length d) (8 * dn) in
  firstn n d ++ repeat 0 (8 * dn - n) = bytes_of_words (resize_words (words_of_bytes d) dn).
Proof.
  intros Hb Hm. cbv zeta. unfold resize_words. rewrite bow_app, bow_zeros.
  rewrite <- (firstn_bytes_words d dn Hb Hm).
  pose proof (bow_wob d Hb Hm) as E. apply (f_equal (@length Z)) in E. rewrite bow_length in E.
  f_equal.
  - destruct (Nat.le_gt_cases (length d) (8 * dn)) as [H|H].
    + rewrite Nat.min_l by lia. rewrite !firstn_all2 by lia. reflexivity.
    + rewrite Nat.min_r by lia. reflexivity.
  - f_equal. lia.
Qed.

Lemma bow_sub_word : forall blk k, (k < length blk)%nat ->
  sub (bytes_of_words blk) (8 * Z.of_nat k) 8 = le_encode 8 (nth k blk 0).
Proof.
  induction blk as [|x r IH]; intros k Hk; [cbn [length] in Hk; lia|].
  change (bytes_of_words (x :: r)) with (le_encode 8 x ++ bytes_of_words r).
  destruct k as [|k].
  - cbn [nth]. rewrite sub_app_l by (unfold zlen; rewrite ?le_encode_length; lia).
    unfold sub. cbn [Z.to_nat skipn]. apply firstn_all2. rewrite le_encode_length. lia.
  - cbn [nth]. rewrite sub_app_r by (unfold zlen; rewrite ?le_encode_length; lia).
    unfold zlen. rewrite le_encode_length. replace (8 * Z.of_nat (S k) - Z.of_nat 8) with (8 * Z.of_nat k) by lia.
    apply IH. cbn [length] in Hk. lia.
Qed.

Lemma block_word M A blk k : 0 <= A -> sub M A (8 * zlen blk) = bytes_of_words blk -> (k < length blk)%nat ->
  word_is M (A + 8 * Z.of_nat k) (nth k blk 0).
Proof.
  intros HA Hs Hk. unfold word_is.
  replace (sub M (A + 8 * Z.of_nat k) 8) with (sub (sub M A (8 * zlen blk)) (8 * Z.of_nat k) 8)
    by (apply sub_sub; unfold zlen; lia).
  rewrite Hs. apply bow_sub_word. exact Hk.
Qed.

Lemma bow_sub_mid a b c : sub (bytes_of_words (a ++ b ++ c)) (8 * zlen a) (8 * zlen b) = bytes_of_words b.
Proof.
  rewrite !bow_app. rewrite sub_app_r by (unfold zlen; rewrite ?bow_length; lia).
  replace (8 * zlen a - zlen (bytes_of_words a)) with 0 by (unfold zlen; rewrite bow_length; lia).
  rewrite sub_app_l by (unfold zlen; rewrite ?bow_length; lia).
  unfold sub. cbn [Z.to_nat skipn]. apply firstn_all2. rewrite bow_length. unfold zlen. lia.
Qed.

Lemma nthv_resize_ptrs ps n i : 0 <= i < Z.of_nat n ->
  nthv (resize_ptrs ps n) i = if i <? zlen ps then nthv ps i else VNull.
Proof.
  intros Hi. unfold nthv, resize_ptrs, zlen. destruct (i <? Z.of_nat (length ps)) eqn:E.
  - rewrite app_nth1 by (rewrite firstn_length; lia). apply nth_firstn_lt. lia.
  - rewrite app_nth2 by (rewrite firstn_length; lia).
    destruct (Nat.lt_ge_cases (Z.to_nat i - length (firstn n ps)) (n - length ps)) as [H|H].
    + apply nth_repeat.
    + apply nth_overflow. rewrite repeat_length. exact H.
Qed.

(* ------------------------------------------------------------------ the statements *)
Definition BOUND := 4294967288.

(* the slot at byte address a of the single segment M reads as a pointer denoting v *)
Definition reads_as (M : list Z) (a : Z) (v : value) : Prop :=
  exists dep rl q rl', readPtr true [M] rl 0 M a dep = (Ok q, rl') /\ forall mid caps, den true [M] mid caps q v.

Lemma reads_null M a : 0 <= a -> a + 8 <= zlen M -> zlen M <= BOUND -> word_is M a 0 -> reads_as M a VNull.
Proof.
  intros Ha Hb Hl Hw. exists 1, 0, nullPtr, 0. split; [apply read_zero_word; assumption|]. intros mid caps. apply den_null. reflexivity.
Qed.

Section Copy.
Context (m : segs) (Hm : msg_ok m).

Definition P_wp (f : nat) : Prop := forall D cap rl a src v fc w',
  hinv D -> 0 <= a -> a mod 8 = 0 -> a + 8 <= zlen D ->
  wf_ptr m src -> aligned src -> caligned src -> ctag_ok m src -> den true m 0 [] src v -> cvdom v = true ->
  write_ptr f true (dstw D cap m rl) 0 a InSrc src fc = Ok w' ->
  exists word body cap' rl',
    w' = dstw (put_word D a word ++ body) cap' m rl' /\ hinv (D ++ body) /\ bytes_ok body /\
    forall pre' tail, zlen pre' = zlen D -> word_is pre' a word -> zlen (pre' ++ body ++ tail) <= BOUND ->
      reads_as (pre' ++ body ++ tail) a v.

Definition P_cs (f : nat) : Prop := forall D cap rl dst s ws vs A dn pn w',
  hinv D -> dst_at dst A dn pn -> 0 <= A -> A mod 8 = 0 -> 0 <= dn <= 65535 -> 0 <= pn < 65536 ->
  A + 8 * dn + 8 * pn <= zlen D ->
  p_valid s = true -> p_kind s = KStruct -> wf_ptr m s -> aligned s ->
  den true m 0 [] s (VStruct ws vs) -> forallb cvdom vs = true ->
  copy_struct f true (dstw D cap m rl) dst InSrc s = Ok w' ->
  exists pwords kids cap' rl',
    zlen pwords = pn /\
    w' = dstw (set_slots D A (resize_words ws (Z.to_nat dn) ++ pwords) ++ kids) cap' m rl' /\
    hinv (D ++ kids) /\ bytes_ok kids /\
    forall pre' tail, zlen pre' = zlen D ->
      sub pre' A (8 * (dn + pn)) = bytes_of_words (resize_words ws (Z.to_nat dn) ++ pwords) ->
      zlen (pre' ++ kids ++ tail) <= BOUND ->
      forall i, 0 <= i < pn -> reads_as (pre' ++ kids ++ tail) (A + 8 * dn + 8 * i) (nthv (resize_ptrs vs (Z.to_nat pn)) i).

(* the second loop of copyStruct: destination slots beyond the source's count are set to null *)
Lemma zero_loop dst B D cap rl ns : forall k ws kids, 0 <= B -> zlen ws = ns ->
  B + 8 * (ns + Z.of_nat k) <= zlen D -> zlen D + zlen kids <= BOUND ->
  (forall j, 0 <= j < ns + Z.of_nat k -> pointerAddress dst j = B + 8 * j) ->
  fold_res (map (fun i => ns + i) (iota k)) (dstw (set_slots D B ws ++ kids) cap m rl)
           (fun wa j => do m1 <- writeRawPointer (w_dst wa) 0 (pointerAddress dst j) 0; Ok (w_set_dst wa m1))
  = Ok (dstw (set_slots D B (ws ++ repeat 0 k) ++ kids) cap m rl).
Proof.
  induction k as [|k IH]; intros ws kids HB Lw Hb Hbd PA.
  - cbn. rewrite app_nil_r. reflexivity.
  - rewrite iota_S, map_app, fold_res_app, IH by (try assumption; try lia; intros j Hj; apply PA; lia).
    cbn [bind map fold_res]. rewrite PA by (unfold zlen in *; lia). cbn [w_dst dstw].
    assert (Lsl : zlen (set_slots D B (ws ++ repeat 0 k)) = zlen D).
    { apply set_slots_length; [assumption|]. rewrite app_length, repeat_length. unfold zlen in *. lia. }
    rewrite writeRaw_seg0 by (rewrite ?zlen_app, ?Lsl; unfold zlen, BOUND in *; lia). cbn [bind].
    unfold dstw, w_set_dst. cbn [w_src w_src_rl]. f_equal. f_equal.
    replace (B + 8 * (ns + Z.of_nat k)) with (B + 8 * Z.of_nat (length (ws ++ repeat 0 k)))
      by (rewrite app_length, repeat_length; unfold zlen in *; lia).
    rewrite put_word_slot by (rewrite ?app_length, ?repeat_length; unfold zlen in *; lia).
    rewrite <- app_assoc. replace (repeat 0 k ++ [0]) with (repeat 0 (S k)); [reflexivity|].
    clear. induction k; [reflexivity|]. cbn [repeat app]. f_equal. exact IHk.
Qed.

Lemma struct_den M q A dn pn dws vs' :
  p_valid q = true -> p_kind q = KStruct -> p_seg q = 0 -> p_off q = A -> p_size q = mkOS (8 * dn) pn ->
  0 <= A -> 0 <= dn <= 65535 -> 0 <= pn < 65536 -> A + 8 * dn + 8 * pn <= zlen M -> zlen M <= BOUND ->
  zlen dws = dn -> Forall w64 dws -> sub M A (8 * dn) = bytes_of_words dws ->
  zlen vs' = pn ->
  (forall i, 0 <= i < pn -> reads_as M (A + 8 * dn + 8 * i) (nthv vs' i)) ->
  forall mid caps, den true [M] mid caps q (VStruct dws vs').
Proof.
  intros Hv Hk Hs Ho Hsz HA Hdn Hpn Hb Hl Ldw Hw Hsub Lvs Hp mid caps.
  rewrite <- (words_of_bytes_of_words dws Hw).
  apply den_struct; try assumption.
  - rewrite Hsz. unfold wf_size. cbn [DataSize PointerCount]. lia.
  - unfold seg_of. rewrite Hs, Ho, Hsz. cbn [Z.to_nat nth DataSize]. rewrite slice_ok by (unfold BOUND in *; lia).
    rewrite Hsub. reflexivity.
  - rewrite Hsz. exact Lvs.
  - intros i Hi. rewrite Hsz in Hi. cbn [PointerCount] in Hi.
    destruct (Hp i Hi) as (dep & rl & q0 & rl' & R & Dq). exists dep, rl, q0, rl'.
    unfold seg_of. rewrite Hs. cbn [Z.to_nat nth].
    rewrite pointerAddress_eq by (rewrite ?Ho, ?Hsz; cbn [DataSize]; unfold BOUND in *; lia).
    rewrite Ho, Hsz. cbn [DataSize]. split; [exact R|exact (Dq mid caps)].
Qed.



End Copy.
