(* C18 [T1], part 3: the normal form of a well-formed, capability-free value has the shape the
   round-trip lemma needs (norm_skel); bytes <-> words; the full statement
   cdecode (canon v) = Some (norm v). *)
From CV Require Import Value.ValueEq Value.ValueEqProofs Value.CanonSpec Value.CanonProofs Value.PackProofs
                       Value.CanonProofs2.
From Coq Require Import ZifyBool ZifyNat.
Open Scope Z_scope.

Definition two64 := 18446744073709551616.

(* field values fit their fields: struct data are 64-bit words, primitive elements fit their width *)
Fixpoint ranged (v : value) : bool :=
  match v with
  | VStruct d ps => forallb (fun x => (0 <=? x) && (x <? two64)) d && forallb ranged ps
  | VList k es =>
    forallb (fun e => match e with
                      | VStruct d ps =>
                        forallb (fun x => (0 <=? x) && (x <? (match k with LComp => two64 | _ => kind_base k end))) d
                        && forallb ranged ps
                      | _ => true
                      end) es
  | _ => true
  end.

Lemma In_stripN x l : In x (stripN l) -> In x l.
Proof.
  induction l as [|y r IH]; [intros []|]. cbn [stripN]. destruct (stripN r) eqn:E.
  - destruct (is_null y); [intros []|]. intros [<-|[]]. left. reflexivity.
  - intros [<-|H]; [left; reflexivity| right; apply IH; assumption].
Qed.

Lemma In_strip0 x l : In x (strip0 l) -> In x l.
Proof.
  induction l as [|y r IH]; [intros []|]. cbn [strip0]. destruct (strip0 r) eqn:E.
  - destruct (y =? 0); [intros []|]. intros [<-|[]]. left. reflexivity.
  - intros [<-|H]; [left; reflexivity| right; apply IH; assumption].
Qed.

Lemma length_le_max_len {A} (f : value -> list A) e es : In e es -> (length (f e) <= max_len f es)%nat.
Proof.
  induction es as [|y r IH]; [intros []|]. intros [->|H]; cbn [max_len fold_right]; [lia|].
  specialize (IH H). unfold max_len in IH. lia.
Qed.

Lemma pad0_length n l : (length l <= n)%nat -> length (pad0 n l) = n.
Proof. intros H. unfold pad0. rewrite app_length, repeat_length. lia. Qed.
Lemma padN_length n l : (length l <= n)%nat -> length (padN n l) = n.
Proof. intros H. unfold padN. rewrite app_length, repeat_length. lia. Qed.

Lemma max_len_const {A} (f : value -> list A) n es : es <> [] -> (forall e, In e es -> length (f e) = n) -> max_len f es = n.
Proof.
  induction es as [|y r IH]; [contradiction|]. intros _ H. cbn [max_len fold_right].
  destruct r as [|z r'].
  - cbn. rewrite (H y (or_introl eq_refl)). lia.
  - fold (max_len f (z :: r')). rewrite IH; [|discriminate| intros e He; apply H; right; assumption].
    rewrite (H y (or_introl eq_refl)). lia.
Qed.

Lemma max_len_pad_elems_d ns : max_len sdata (pad_elems ns) = max_len sdata ns.
Proof.
  destruct ns as [|n0 r]; [reflexivity|]. unfold pad_elems.
  apply max_len_const; [discriminate|]. intros e He. apply in_map_iff in He. destruct He as (n & <- & Hn).
  cbn [sdata]. apply pad0_length. apply length_le_max_len. assumption.
Qed.
Lemma max_len_pad_elems_p ns : max_len sptrs (pad_elems ns) = max_len sptrs ns.
Proof.
  destruct ns as [|n0 r]; [reflexivity|]. unfold pad_elems.
  apply max_len_const; [discriminate|]. intros e He. apply in_map_iff in He. destruct He as (n & <- & Hn).
  cbn [sptrs]. apply padN_length. apply length_le_max_len. assumption.
Qed.

Definition good (v : value) : Prop := wfv v = true /\ ranged v = true /\ nocap v = true.

Lemma forallb_In {A} (f : A -> bool) l x : forallb f l = true -> In x l -> f x = true.
Proof. intros H. rewrite forallb_forall in H. apply H. Qed.

Lemma skel_padN n l : forallb skel l = true -> forallb skel (padN n l) = true.
Proof.
  intros H. unfold padN. rewrite forallb_app, H. cbn. induction (n - length l)%nat; [reflexivity| exact IHn0].
Qed.


Lemma kind_base_le k : kind_base k <= two64.
Proof. destruct k; unfold two64; cbn; lia. Qed.

Lemma elem_good k e :
  (match e with
            | VStruct d ps =>
              match k with
              | LComp => forallb wfv ps
              | LPtr => match d, ps with [], [p] => wfv p | _, _ => false end
              | LVoid => match d, ps with [], [] => true | _, _ => false end
              | _ => match d, ps with [_], [] => true | _, _ => false end
              end
            | _ => false
            end) = true ->
  (match e with
            | VStruct d ps =>
              forallb (fun x => (0 <=? x) && (x <? (match k with LComp => two64 | _ => kind_base k end))) d
              && forallb ranged ps
            | _ => true
            end) = true ->
  nocap e = true ->
  exists d ps, e = VStruct d ps /\ good e.
Proof.
  intros W R C. destruct e as [| |d ps| |]; try discriminate. exists d, ps. split; [reflexivity|].
  apply andb_prop in R. destruct R as [R1 R2]. unfold good. cbn [wfv ranged nocap]. split; [|split].
  - destruct k; try exact W;
      destruct d as [|? [|? ?]]; destruct ps as [|? [|? ?]]; try discriminate; try reflexivity.
    cbn. rewrite andb_true_r. exact W.
  - rewrite R2, andb_true_r. apply forallb_forall. intros z Hz. pose proof (forallb_In _ _ _ R1 Hz) as Rz.
    cbn beta in Rz. pose proof (kind_base_le k). destruct k; unfold two64 in *; lia.
  - exact C.
Qed.


Ltac prim_norm_case :=
  match goal with
  | G : forall e, In e ?es -> exists d ps, e = VStruct d ps /\ good e,
    Hw : forallb _ ?es = true, Hr : forallb _ ?es = true |- _ =>
    apply forallb_forall; intros y Hy; rewrite map_map in Hy; apply in_map_iff in Hy; destruct Hy as (e & <- & He);
    destruct (G e He) as (d & ps & -> & _);
    pose proof (forallb_In _ _ _ Hw He) as W; pose proof (forallb_In _ _ _ Hr He) as R; cbn beta iota in W, R;
    destruct d as [|v0 [|]]; try discriminate; destruct ps; try discriminate;
    cbn [norm sdata map stripN]; rewrite hd_word_strip1;
    apply andb_prop in R; destruct R as [R _]; cbn [forallb] in R; rewrite andb_true_r in R; exact R
  end.

Theorem norm_skel : forall v, good v -> skel (norm v) = true.
Proof.
  induction v using value_ind2; intros (Hw & Hr & Hc); try reflexivity.
  - discriminate Hc.
  - (* struct *)
    cbn [norm skel]. apply forallb_forall. intros y Hy. apply In_stripN in Hy. apply in_map_iff in Hy.
    destruct Hy as (p & <- & Hp). rewrite Forall_forall in H. apply (H p Hp).
    cbn [wfv ranged nocap] in *. apply andb_prop in Hr. destruct Hr as [_ Hr].
    repeat split; eapply forallb_In; eassumption.
  - (* lists *)
    rewrite Forall_forall in H. cbn [wfv ranged nocap] in *.
    assert (G : forall e, In e es -> exists d ps, e = VStruct d ps /\ good e).
    { intros e He. pose proof (forallb_In _ _ _ Hw He) as W. pose proof (forallb_In _ _ _ Hr He) as R.
      pose proof (forallb_In _ _ _ Hc He) as C. cbn beta in W, R. exact (elem_good k e W R C). }
    destruct k; cbn [norm skel].
    + (* void *)
      rewrite map_map. apply forallb_forall. intros y Hy. apply in_map_iff in Hy. destruct Hy as (e & <- & _). reflexivity.
    + prim_norm_case.
    + prim_norm_case.
    + prim_norm_case.
    + prim_norm_case.
    + (* pointer list *)
        apply forallb_forall. intros y Hy. rewrite map_map in Hy. apply in_map_iff in Hy. destruct Hy as (e & <- & He).
        destruct (G e He) as (d & ps & -> & Ge). specialize (H _ He Ge).
        pose proof (forallb_In _ _ _ Hw He) as W. cbn beta iota in W.
        destruct d; try discriminate. destruct ps as [|p [|]]; try discriminate.
        cbn [norm map strip0 stripN sptrs] in *. destruct (is_null (norm p)) eqn:En; cbn [hd_ptr].
        -- reflexivity.
        -- cbn [skel forallb] in H. rewrite andb_true_r in H. exact H.
    + (* struct list *)
        rewrite max_len_pad_elems_d, max_len_pad_elems_p.
        apply forallb_forall. intros y Hy. unfold pad_elems in Hy. apply in_map_iff in Hy. destruct Hy as (n & <- & Hn).
        apply in_map_iff in Hn. destruct Hn as (e & <- & He).
        destruct (G e He) as (d & ps & -> & Ge). specialize (H _ He Ge). cbn [norm sdata sptrs] in *.
        rewrite pad0_length, padN_length, !Nat.eqb_refl.
        -- cbn [andb]. apply skel_padN. cbn [skel] in H. exact H.
        -- apply (length_le_max_len sptrs (norm (VStruct d ps))). apply in_map. exact He.
        -- apply (length_le_max_len sdata (norm (VStruct d ps))). apply in_map. exact He.
Qed.

(* ------------------------------------------------------------------ all output words are 64-bit *)
Definition w64 (x : Z) : Prop := 0 <= x < two64.

Lemma struct_word_w64 o dn pn : 0 <= dn < two16 -> 0 <= pn < two16 -> w64 (struct_word o dn pn).
Proof.
  intros Hd Hp. unfold w64, struct_word, two64, two16, two30, two32, two48 in *.
  assert (0 <= o mod 1073741824 < 1073741824) by (apply Z.mod_pos_bound; lia). lia.
Qed.

Lemma list_word_w64 o k n : 0 <= k < 8 -> 0 <= n < two29 -> w64 (list_word o k n).
Proof.
  intros Hk Hn. unfold w64, list_word, two64, two29, two30, two32, two35 in *.
  assert (0 <= o mod 1073741824 < 1073741824) by (apply Z.mod_pos_bound; lia). lia.
Qed.

Lemma pack_word_bound B c : 1 < B -> digits_ok B c -> 0 <= pack_word B c < B ^ Z.of_nat (length c).
Proof.
  intros HB. induction c as [|d r IH]; intros H; [cbn; lia|].
  inversion H as [|? ? Hd Hr]; subst. specialize (IH Hr). cbn [pack_word length].
  rewrite Nat2Z.inj_succ, Z.pow_succ_r by lia. nia.
Qed.

Lemma pack_word_w64 B per c : 1 < B -> B ^ Z.of_nat per = two64 -> (length c <= per)%nat -> digits_ok B c ->
  w64 (pack_word B c).
Proof.
  intros HB HP L H. pose proof (pack_word_bound B c HB H) as Hb. unfold w64.
  assert (B ^ Z.of_nat (length c) <= B ^ Z.of_nat per) by (apply Z.pow_le_mono_r; lia). lia.
Qed.

Lemma pack_all_w64 B per : 1 < B -> B ^ Z.of_nat per = two64 -> forall fuel ds, digits_ok B ds ->
  Forall w64 (pack_all fuel B per ds).
Proof.
  intros HB HP. induction fuel as [|f IH]; intros ds H; [constructor|].
  destruct ds as [|d r] eqn:E; [constructor|]. rewrite <- E in *. 
  replace (pack_all (S f) B per ds) with (pack_word B (firstn per ds) :: pack_all f B per (skipn per ds)) by (subst; reflexivity).
  constructor.
  - apply (pack_word_w64 B per); try assumption; [rewrite firstn_length; lia| apply digits_ok_firstn; assumption].
  - apply IH. apply digits_ok_skipn. assumption.
Qed.

Definition cell_ok (c : cell) : Prop := match c with CW w => w64 w | CP _ => True end.

Lemma enc_cells_w64 ev cs : Forall cell_ok cs ->
  (forall v p c w body, In (CP v) cs -> ev v p c = COk (w, body) -> w64 w /\ Forall w64 body) ->
  forall pos cur b k, enc_cells ev cs pos cur = COk (b, k) -> Forall w64 b /\ Forall w64 k.
Proof.
  induction 1 as [|c cs Hc Hcs IH]; intros Hev pos cur b k H.
  - cbn in H. inversion H. split; constructor.
  - destruct c as [w|v]; cbn [enc_cells] in H.
    + destruct (enc_cells ev cs (pos + 1) cur) as [[b' k']| | |] eqn:E; try discriminate.
      cbn in H. inversion H; subst. destruct (IH ltac:(intros; eapply Hev; [right|]; eassumption) _ _ _ _ E) as [I1 I2].
      split; [constructor; assumption| assumption].
    + destruct (ev v pos cur) as [[w0 body]| | |] eqn:E0; try discriminate. cbn [cbind fst snd] in H.
      destruct (enc_cells ev cs (pos + 1) (cur + zlen body)) as [[b' k']| | |] eqn:E; try discriminate.
      cbn in H. inversion H; subst.
      destruct (Hev v pos cur w0 body (or_introl eq_refl) E0) as [W0 WB].
      destruct (IH ltac:(intros; eapply Hev; [right|]; eassumption) _ _ _ _ E) as [I1 I2].
      split; [constructor; assumption| apply Forall_app; split; assumption].
Qed.

Lemma forall_w64_of_forallb d : forallb (fun x => (0 <=? x) && (x <? two64)) d = true -> Forall w64 d.
Proof. intros H. apply Forall_forall. intros z Hz. pose proof (forallb_In _ _ _ H Hz). unfold w64. lia. Qed.

Lemma struct_cells_ok d ps : Forall w64 d -> Forall cell_ok (struct_cells d ps).
Proof.
  intros H. unfold struct_cells. apply Forall_app. split.
  - apply Forall_forall. intros c Hc. apply in_map_iff in Hc. destruct Hc as (w & <- & Hw).
    rewrite Forall_forall in H. apply H. assumption.
  - apply Forall_forall. intros c Hc. apply in_map_iff in Hc. destruct Hc as (w & <- & Hw). exact I.
Qed.

Lemma kind_pow k : kind_base k ^ Z.of_nat (kind_per k) = two64.
Proof. destruct k; reflexivity. Qed.

Lemma ranged_In_ptr k es e p : ranged (VList k es) = true -> In e es -> In p (sptrs e) -> ranged p = true.
Proof.
  intros H He Hp. cbn [ranged] in H. pose proof (forallb_In _ _ _ H He) as R. destruct e as [| |d ps| |]; try destruct Hp.
  apply andb_prop in R. destruct R as [_ R]. eapply forallb_In; eassumption.
Qed.

Theorem enc_w64 : forall f v pos cur w body, ranged v = true -> enc f v pos cur = COk (w, body) ->
  w64 w /\ Forall w64 body.
Proof.
  induction f as [|f IH]; intros v pos cur w body Hr H; [discriminate|].
  destruct v as [|c|d ps|k es|bs]; cbn [enc] in H; try discriminate.
  - inversion H; subst. split; [unfold w64, two64; lia| constructor].
  - (* struct *)
    assert (Hzd : 0 <= zlen d) by (unfold zlen; lia). assert (Hzp : 0 <= zlen ps) by (unfold zlen; lia).
    cbn [ranged] in Hr. apply andb_prop in Hr. destruct Hr as [Rd Rp].
    destruct ((zlen d =? 0) && (zlen ps =? 0)).
    + inversion H; subst. split; [apply struct_word_w64; unfold two16; lia| constructor].
    + destruct ((zlen d >=? two16) || (zlen ps >=? two16) || (cur - pos - 1 >=? two29)) eqn:E1; [discriminate|].
      destruct (enc_cells (enc f) (struct_cells d ps) cur (cur + zlen d + zlen ps)) as [[b k]| | |] eqn:E; try discriminate.
      cbn in H. inversion H; subst. split; [apply struct_word_w64; lia|].
      destruct (enc_cells_w64 (enc f) (struct_cells d ps)
                  (struct_cells_ok d ps (forall_w64_of_forallb d Rd))
                  ltac:(intros v p c w0 body0 Hin He; apply (IH v p c w0 body0); [|exact He];
                        apply in_struct_cells in Hin; eapply forallb_In; eassumption) _ _ _ _ E) as [I1 I2].
      apply Forall_app. split; assumption.
  - (* lists *)
    assert (Hz : 0 <= zlen es) by (unfold zlen; lia).
    destruct ((zlen es >=? two29) || (cur - pos - 1 >=? two29)) eqn:E1; [discriminate|].
    assert (Hn : 0 <= zlen es < two29) by lia.
    assert (PK : forall K, (K = LB1 \/ K = LB2 \/ K = LB4 \/ K = LB8) -> k = K ->
                 COk (list_word (cur - pos - 1) (kind_code K) (zlen es),
                      pack (kind_base K) (kind_per K) (map (fun e => hd_word (sdata e)) es)) = COk (w, body) ->
                 w64 w /\ Forall w64 body).
    { intros K HK -> HH. inversion HH; subst. split; [apply list_word_w64; [destruct HK as [->|[->|[->| ->]]]; cbn; lia| assumption]|].
      unfold pack. apply pack_all_w64; [destruct HK as [->|[->|[->| ->]]]; cbn; lia| apply kind_pow|].
      apply Forall_forall. intros z Hz'. apply in_map_iff in Hz'. destruct Hz' as (e & <- & He).
      cbn [ranged] in Hr. pose proof (forallb_In _ _ _ Hr He) as R.
      assert (KB : 0 < kind_base K) by (destruct HK as [->|[->|[->| ->]]]; cbn; lia).
      destruct e as [| |d0 ps0| |]; cbn [sdata hd_word]; try lia.
      apply andb_prop in R. destruct R as [R _]. destruct d0 as [|x0 r0]; cbn [hd_word]; [lia|].
      cbn [forallb] in R. apply andb_prop in R. destruct R as [R _].
      destruct HK as [->|[->|[->| ->]]]; cbn in *; lia. }
    destruct k.
    + inversion H; subst. split; [apply list_word_w64; [lia|assumption]| constructor].
    + apply (PK LB1); auto.
    + apply (PK LB2); auto.
    + apply (PK LB4); auto.
    + apply (PK LB8); auto.
    + (* pointer list *)
      destruct (enc_cells (enc f) (map (fun e => CP (hd_ptr (sptrs e))) es) cur (cur + zlen es)) as [[b k]| | |] eqn:E;
        try discriminate.
      cbn in H. inversion H; subst. split; [apply list_word_w64; [lia|assumption]|].
      assert (CO : Forall cell_ok (map (fun e => CP (hd_ptr (sptrs e))) es)).
      { apply Forall_forall. intros c Hc. apply in_map_iff in Hc. destruct Hc as (e & <- & _). exact I. }
      assert (CV : forall v p c w0 body0, In (CP v) (map (fun e => CP (hd_ptr (sptrs e))) es) ->
                   enc f v p c = COk (w0, body0) -> w64 w0 /\ Forall w64 body0).
      { intros v p c w0 body0 Hin He. apply (IH v p c w0 body0); [|exact He].
        apply in_map_iff in Hin. destruct Hin as (e & Hv & Hin). inversion Hv; subst.
        destruct (sptrs e) as [|p0 r0] eqn:Es; [reflexivity|].
        apply (ranged_In_ptr LPtr es e p0 Hr Hin). rewrite Es. left. reflexivity. }
      destruct (enc_cells_w64 (enc f) _ CO CV _ _ _ _ E) as [I1 I2].
      apply Forall_app. split; assumption.
    + (* struct list *)
      set (dn := Z.of_nat (max_len sdata es)) in *. set (pn := Z.of_nat (max_len sptrs es)) in *.
      destruct ((dn >=? two16) || (pn >=? two16) || (zlen es * (dn + pn) >=? two29)) eqn:E2; [discriminate|].
      assert (HW : 0 <= zlen es * (dn + pn) < two29) by nia.
      match type of H with cbind (enc_cells _ ?cs _ _) _ = _ =>
        destruct (enc_cells (enc f) cs cur (cur + 1 + zlen es * (dn + pn))) as [[b k]| | |] eqn:E; try discriminate;
        cbn in H; inversion H; subst; split; [apply list_word_w64; [lia|assumption]|];
        assert (CO : Forall cell_ok cs);
        [| assert (CV : forall v p c w0 body0, In (CP v) cs -> enc f v p c = COk (w0, body0) -> w64 w0 /\ Forall w64 body0);
           [| destruct (enc_cells_w64 (enc f) cs CO CV _ _ _ _ E) as [I1 I2]; apply Forall_app; split; assumption]]
      end.
      * constructor; [cbn; apply struct_word_w64; lia|].
        apply Forall_forall. intros c Hc. apply in_flat_map in Hc. destruct Hc as (e & He & Hc).
        revert c Hc. apply Forall_forall. apply struct_cells_ok. unfold pad0. apply Forall_app. split.
        -- cbn [ranged] in Hr. pose proof (forallb_In _ _ _ Hr He) as R. destruct e as [| |d0 ps0| |]; try constructor.
           apply andb_prop in R. destruct R as [R _]. apply forall_w64_of_forallb. exact R.
        -- apply Forall_forall. intros z Hz'. apply repeat_spec in Hz'. subst. unfold w64, two64. lia.
      * intros v p c w0 body0 Hin He. apply (IH v p c w0 body0); [|exact He].
        destruct Hin as [Hin|Hin]; [discriminate|]. apply in_flat_map in Hin. destruct Hin as (e & He1 & Hin).
        apply in_struct_cells in Hin. unfold padN in Hin. apply in_app_or in Hin. destruct Hin as [Hin|Hin].
        -- eapply ranged_In_ptr; eassumption.
        -- apply repeat_spec in Hin. subst. reflexivity.
  - (* bits *)
    destruct ((zlen bs >=? two29) || (cur - pos - 1 >=? two29)) eqn:E1; [discriminate|].
    assert (Hz : 0 <= zlen bs) by (unfold zlen; lia).
    inversion H; subst. split; [apply list_word_w64; lia|].
    unfold pack. apply (pack_all_w64 2 64); [lia| reflexivity| apply bits_digits].
Qed.

(* ------------------------------------------------------------------ norm keeps fields in range *)
Lemma forallb_strip0 (f : Z -> bool) d : forallb f d = true -> forallb f (strip0 d) = true.
Proof. intros H. apply forallb_forall. intros z Hz. apply In_strip0 in Hz. eapply forallb_In; eassumption. Qed.

Lemma forallb_pad0 (f : Z -> bool) n d : f 0 = true -> forallb f d = true -> forallb f (pad0 n d) = true.
Proof.
  intros H0 H. unfold pad0. rewrite forallb_app, H. cbn. induction (n - length d)%nat; [reflexivity|]. cbn. rewrite H0. assumption.
Qed.

Lemma ranged_padN n l : forallb ranged l = true -> forallb ranged (padN n l) = true.
Proof.
  intros H. unfold padN. rewrite forallb_app, H. cbn. induction (n - length l)%nat; [reflexivity| exact IHn0].
Qed.

Lemma ranged_struct_parts d ps : ranged (VStruct d ps) = true ->
  forallb (fun x => (0 <=? x) && (x <? two64)) d = true /\ forallb ranged ps = true.
Proof. cbn [ranged]. intros H. apply andb_prop in H. exact H. Qed.


Ltac prim_ranged_case :=
  match goal with G : forall e, In e ?es -> _ /\ _ |- _ =>
    rewrite map_map; apply forallb_forall; intros y Hy; apply in_map_iff in Hy; destruct Hy as (e & <- & He);
    destruct (G e He) as [G1 _]; cbn [forallb]; rewrite !andb_true_r;
    destruct (sdata (norm e)) as [|x0 r0]; cbn [hd_word]; [reflexivity|];
    cbn [forallb] in G1; apply andb_prop in G1; destruct G1 as [G1 _]; exact G1
  end.

Theorem norm_ranged : forall v, ranged v = true -> ranged (norm v) = true.
Proof.
  induction v using value_ind2; intros Hr; try reflexivity.
  - (* struct *)
    destruct (ranged_struct_parts _ _ Hr) as [Rd Rp]. cbn [norm ranged].
    rewrite (forallb_strip0 _ d Rd). cbn [andb]. apply forallb_forall. intros y Hy. apply In_stripN in Hy.
    apply in_map_iff in Hy. destruct Hy as (p & <- & Hp). rewrite Forall_forall in H. apply (H p Hp).
    eapply forallb_In; eassumption.
  - (* lists *)
    rewrite Forall_forall in H. cbn [ranged] in Hr.
    (* the normal form of an element: data within the kind's bound, pointers ranged *)
    assert (G : forall e, In e es ->
              forallb (fun x => (0 <=? x) && (x <? (match k with LComp => two64 | _ => kind_base k end))) (sdata (norm e)) = true
              /\ forallb ranged (sptrs (norm e)) = true).
    { intros e He. pose proof (forallb_In _ _ _ Hr He) as R. cbn beta in R.
      destruct e as [| |d ps|k0 es0|]; try (split; reflexivity).
      - apply andb_prop in R. destruct R as [R1 R2]. cbn [norm sdata sptrs]. split; [apply forallb_strip0; exact R1|].
        assert (Re : ranged (VStruct d ps) = true).
        { cbn [ranged]. rewrite R2, andb_true_r. apply forallb_forall. intros z Hz. pose proof (forallb_In _ _ _ R1 Hz) as Rz.
          pose proof (kind_base_le k). destruct k; unfold two64 in *; lia. }
        specialize (H _ He Re). cbn [norm] in H. apply ranged_struct_parts in H. apply H.
      - destruct k0; split; reflexivity. }
    destruct k; cbn [norm ranged].
    + rewrite map_map. apply forallb_forall. intros y Hy. apply in_map_iff in Hy. destruct Hy as (e & <- & _). reflexivity.
    + prim_ranged_case.
    + prim_ranged_case.
    + prim_ranged_case.
    + prim_ranged_case.
    + (* pointer list *)
        rewrite map_map. apply forallb_forall. intros y Hy. apply in_map_iff in Hy. destruct Hy as (e & <- & He).
        destruct (G e He) as [_ G2]. cbn [forallb andb]. rewrite andb_true_r.
        destruct (sptrs (norm e)) as [|p0 r0]; cbn [hd_ptr]; [reflexivity|].
        cbn [forallb] in G2. apply andb_prop in G2. destruct G2 as [G2 _]. exact G2.
    + (* struct list *)
        apply forallb_forall. intros y Hy. unfold pad_elems in Hy. apply in_map_iff in Hy. destruct Hy as (n & <- & Hn).
        apply in_map_iff in Hn. destruct Hn as (e & <- & He). destruct (G e He) as [G1 G2].
        rewrite (forallb_pad0 _ _ _ eq_refl G1), (ranged_padN _ _ G2). reflexivity.
Qed.

(* ------------------------------------------------------------------ bytes <-> words *)
Lemma le_word_roundtrip w : w64 w -> le_decode (le_encode 8 w) = w.
Proof.
  intros [H0 H1]. unfold two64 in H1. cbn [le_encode le_decode].
  repeat match goal with |- context [?a / 256 / 256] => replace (a / 256 / 256) with (a / 65536) by (rewrite Z.div_div by lia; reflexivity) end.
  pose proof (Z.div_mod w 256 ltac:(lia)). pose proof (Z.mod_pos_bound w 256 ltac:(lia)).
  set (q1 := w / 256) in *. pose proof (Z.div_mod q1 256 ltac:(lia)). pose proof (Z.mod_pos_bound q1 256 ltac:(lia)).
  set (q2 := q1 / 256) in *. pose proof (Z.div_mod q2 256 ltac:(lia)). pose proof (Z.mod_pos_bound q2 256 ltac:(lia)).
  set (q3 := q2 / 256) in *. pose proof (Z.div_mod q3 256 ltac:(lia)). pose proof (Z.mod_pos_bound q3 256 ltac:(lia)).
  set (q4 := q3 / 256) in *. pose proof (Z.div_mod q4 256 ltac:(lia)). pose proof (Z.mod_pos_bound q4 256 ltac:(lia)).
  set (q5 := q4 / 256) in *. pose proof (Z.div_mod q5 256 ltac:(lia)). pose proof (Z.mod_pos_bound q5 256 ltac:(lia)).
  set (q6 := q5 / 256) in *. pose proof (Z.div_mod q6 256 ltac:(lia)). pose proof (Z.mod_pos_bound q6 256 ltac:(lia)).
  set (q7 := q6 / 256) in *. pose proof (Z.div_mod q7 256 ltac:(lia)). pose proof (Z.mod_pos_bound q7 256 ltac:(lia)).
  assert (q7 / 256 = 0) by (apply Z.div_small; lia). lia.
Qed.

Lemma words_of_bytes_of_words ws : Forall w64 ws -> words_of_bytes (bytes_of_words ws) = ws.
Proof.
  induction 1 as [|w r Hw Hr IH]; [reflexivity|].
  unfold bytes_of_words in *. cbn [flat_map].
  pose proof (le_word_roundtrip w Hw) as E. cbn [le_encode] in *. cbn [app words_of_bytes]. rewrite E, IH. reflexivity.
Qed.

(* ------------------------------------------------------------------ [T1] the canonical form decodes *)
(* for every well-formed, capability-free value with in-range fields: the strict pre-order
   decoder accepts the canonical BYTES and returns exactly the canonical representative
   norm v, which is equal (value_eqs, hence value_eq) to v *)
Theorem cdecode_canon : forall v bs, good v -> canon v = Some bs ->
  cdecode (S (vdepth (norm v))) bs = Some (norm v).
Proof.
  intros v bs G H. unfold canon, canon_words in H.
  destruct (enc (S (vdepth (norm v))) (norm v) 0 1) as [[w body]| | |] eqn:E; try discriminate.
  cbn [cbind fst snd] in H. assert (Hbs : bs = bytes_of_words (w :: body)) by congruence. subst bs. clear H.
  destruct G as (Gw & Gr & Gc).
  destruct (enc_w64 _ _ _ _ _ _ (norm_ranged v Gr) E) as [W0 WB].
  unfold cdecode. rewrite bytes_of_words_length.
  replace ((8 * length (w :: body)) mod 8 =? 0)%nat with true
    by (symmetry; apply Nat.eqb_eq; rewrite Nat.mul_comm; apply Nat.mod_mul; discriminate).
  rewrite words_of_bytes_of_words by (constructor; assumption).
  unfold cdecode_words.
  pose proof (cparse_enc_partial _ _ _ _ _ _ [] (norm_skel v (conj Gw (conj Gr Gc))) E) as P.
  rewrite app_nil_r in P. rewrite P. reflexivity.
Qed.

Corollary canon_decodes_equal : forall v bs, good v -> canon v = Some bs ->
  exists v', cdecode (S (vdepth (norm v))) bs = Some v' /\ value_eqs v' v = true /\ value_eq v' v = true.
Proof.
  intros v bs G H. exists (norm v). split; [apply cdecode_canon; assumption|].
  destruct G as (Gw & _). pose proof (norm_veq v Gw) as E. split; [exact E| apply value_eqs_value_eq; exact E].
Qed.

(* ------------------------------------------------------------------ idempotence through the decoder *)
Lemma skel_nocap : forall v, skel v = true -> nocap v = true.
Proof.
  induction v using value_ind2; intros Hs; try reflexivity; try discriminate.
  - cbn [skel nocap] in *. apply forallb_forall. intros p Hp. rewrite Forall_forall in H. apply (H p Hp).
    eapply forallb_In; eassumption.
  - rewrite Forall_forall in H. cbn [nocap]. apply forallb_forall. intros e He.
    destruct k; cbn [skel] in Hs; pose proof (forallb_In _ _ _ Hs He) as S; cbn beta in S;
      destruct e as [| |d ps| |]; try discriminate; cbn [nocap].
    + destruct d; try discriminate. destruct ps; try discriminate. reflexivity.
    + destruct d as [|? [|]]; try discriminate. destruct ps; try discriminate. reflexivity.
    + destruct d as [|? [|]]; try discriminate. destruct ps; try discriminate. reflexivity.
    + destruct d as [|? [|]]; try discriminate. destruct ps; try discriminate. reflexivity.
    + destruct d as [|? [|]]; try discriminate. destruct ps; try discriminate. reflexivity.
    + destruct d; try discriminate. destruct ps as [|p [|]]; try discriminate. cbn [forallb]. rewrite andb_true_r.
      assert (Hsk : skel (VStruct [] [p]) = true) by (cbn; rewrite S; reflexivity).
      specialize (H _ He Hsk). cbn [nocap forallb] in H. rewrite andb_true_r in H. exact H.
    + apply andb_prop in S. destruct S as [_ S].
      assert (Hsk : skel (VStruct d ps) = true) by (cbn; exact S).
      specialize (H _ He Hsk). exact H.
Qed.

(* Canonicalising what the decoder read back from a canonical message returns the same bytes *)
Theorem canon_idempotent : forall v bs v', good v -> canon v = Some bs ->
  cdecode (S (vdepth (norm v))) bs = Some v' -> canon v' = Some bs.
Proof.
  intros v bs v' G H D. rewrite (cdecode_canon v bs G H) in D. inversion D; subst v'.
  rewrite canon_norm; [exact H| apply G| apply skel_nocap; apply norm_skel; exact G].
Qed.
