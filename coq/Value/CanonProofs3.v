(* C18 [T1], part 3: the normal form of a well-formed, capability-free value has the shape the
   round-trip lemma needs (norm_skel); bytes <-> words; the full statement
   cdecode (canon v) = Some (norm v). *)
From CV Require Import Value.ValueEq Value.ValueEqProofs Value.CanonSpec Value.CanonProofs Value.PackProofs
                       Value.CanonProofs2.
From Coq Require Import ZifyBool ZifyNat.
Open Scope Z_scope.

Definition two64 := 18446744073709551616.

(* field values fit their fields: struct data are 64-bit words, primitive elements fit their width *)
Fixpoint ranged (v : value) : bool :=
  match v with
  | VStruct d ps => forallb (fun x => (0 <=? x) && (x <? two64)) d && forallb ranged ps
  | VList k es =>
    forallb (fun e => match e with
                      | VStruct d ps =>
                        forallb (fun x => (0 <=? x) && (x <? (match k with LComp => two64 | _ => kind_base k end))) d
                        && forallb ranged ps
                      | _ => true
                      end) es
  | _ => true
  end.

Lemma In_stripN x l : In x (stripN l) -> In x l.
Proof.
  induction l as [|y r IH]; [intros []|]. cbn [stripN]. destruct (stripN r) eqn:E.
  - destruct (is_null y); [intros []|]. intros [<-|[]]. left. reflexivity.
  - intros [<-|H]; [left; reflexivity| right; apply IH; assumption].
Qed.

Lemma In_strip0 x l : In x (strip0 l) -> In x l.
Proof.
  induction l as [|y r IH]; [intros []|]. cbn [strip0]. destruct (strip0 r) eqn:E.
  - destruct (y =? 0); [intros []|]. intros [<-|[]]. left. reflexivity.
  - intros [<-|H]; [left; reflexivity| right; apply IH; assumption].
Qed.

Lemma length_le_max_len {A} (f : value -> list A) e es : In e es -> (length (f e) <= max_len f es)%nat.
Proof.
  induction es as [|y r IH]; [intros []|]. intros [->|H]; cbn [max_len fold_right]; [lia|].
  specialize (IH H). unfold max_len in IH. lia.
Qed.

Lemma pad0_length n l : (length l <= n)%nat -> length (pad0 n l) = n.
Proof. intros H. unfold pad0. rewrite app_length, repeat_length. lia. Qed.
Lemma padN_length n l : (length l <= n)%nat -> length (padN n l) = n.
Proof. intros H. unfold padN. rewrite app_length, repeat_length. lia. Qed.

Lemma max_len_const {A} (f : value -> list A) n es : es <> [] -> (forall e, In e es -> length (f e) = n) -> max_len f es = n.
Proof.
  induction es as [|y r IH]; [contradiction|]. intros _ H. cbn [max_len fold_right].
  destruct r as [|z r'].
  - cbn. rewrite (H y (or_introl eq_refl)). lia.
  - fold (max_len f (z :: r')). rewrite IH; [|discriminate| intros e He; apply H; right; assumption].
    rewrite (H y (or_introl eq_refl)). lia.
Qed.

Lemma max_len_pad_elems_d ns : max_len sdata (pad_elems ns) = max_len sdata ns.
Proof.
  destruct ns as [|n0 r]; [reflexivity|]. unfold pad_elems.
  apply max_len_const; [discriminate|]. intros e He. apply in_map_iff in He. destruct He as (n & <- & Hn).
  cbn [sdata]. apply pad0_length. apply length_le_max_len. assumption.
Qed.
Lemma max_len_pad_elems_p ns : max_len sptrs (pad_elems ns) = max_len sptrs ns.
Proof.
  destruct ns as [|n0 r]; [reflexivity|]. unfold pad_elems.
  apply max_len_const; [discriminate|]. intros e He. apply in_map_iff in He. destruct He as (n & <- & Hn).
  cbn [sptrs]. apply padN_length. apply length_le_max_len. assumption.
Qed.

Definition good (v : value) : Prop := wfv v = true /\ ranged v = true /\ nocap v = true.

Lemma forallb_In {A} (f : A -> bool) l x : forallb f l = true -> In x l -> f x = true.
Proof. intros H. rewrite forallb_forall in H. apply H. Qed.

Lemma skel_padN n l : forallb skel l = true -> forallb skel (padN n l) = true.
Proof.
  intros H. unfold padN. rewrite forallb_app, H. cbn. induction (n - length l)%nat; [reflexivity| exact IHn0].
Qed.


Lemma kind_base_le k : kind_base k <= two64.
Proof. destruct k; unfold two64; cbn; lia. Qed.

Lemma elem_good k e :
  (match e with
            | VStruct d ps =>
              match k with
              | LComp => forallb wfv ps
              | LPtr => match d, ps with [], [p] => wfv p | _, _ => false end
              | LVoid => match d, ps with [], [] => true | _, _ => false end
              | _ => match d, ps with [_], [] => true | _, _ => false end
              end
            | _ => false
            end) = true ->
  (match e with
            | VStruct d ps =>
              forallb (fun x => (0 <=? x) && (x <? (match k with LComp => two64 | _ => kind_base k end))) d
              && forallb ranged ps
            | _ => true
            end) = true ->
  nocap e = true ->
  exists d ps, e = VStruct d ps /\ good e.
Proof.
  intros W R C. destruct e as [| |d ps| |]; try discriminate. exists d, ps. split; [reflexivity|].
  apply andb_prop in R. destruct R as [R1 R2]. unfold good. cbn [wfv ranged nocap]. split; [|split].
  - destruct k; try exact W;
      destruct d as [|? [|? ?]]; destruct ps as [|? [|? ?]]; try discriminate; try reflexivity.
    cbn. rewrite andb_true_r. exact W.
  - rewrite R2, andb_true_r. apply forallb_forall. intros z Hz. pose proof (forallb_In _ _ _ R1 Hz) as Rz.
    cbn beta in Rz. pose proof (kind_base_le k). destruct k; unfold two64 in *; lia.
  - exact C.
Qed.


Ltac prim_norm_case :=
  match goal with
  | G : forall e, In e ?es -> exists d ps, e = VStruct d ps /\ good e,
    Hw : forallb _ ?es = true, Hr : forallb _ ?es = true |- _ =>
    apply forallb_forall; intros y Hy; rewrite map_map in Hy; apply in_map_iff in Hy; destruct Hy as (e & <- & He);
    destruct (G e He) as (d & ps & -> & _);
    pose proof (forallb_In _ _ _ Hw He) as W; pose proof (forallb_In _ _ _ Hr He) as R; cbn beta iota in W, R;
    destruct d as [|v0 [|]]; try discriminate; destruct ps; try discriminate;
    cbn [norm sdata map stripN]; rewrite hd_word_strip1;
    apply andb_prop in R; destruct R as [R _]; cbn [forallb] in R; rewrite andb_true_r in R; exact R
  end.

Theorem norm_skel : forall v, good v -> skel (norm v) = true.
Proof.
  induction v using value_ind2; intros (Hw & Hr & Hc); try reflexivity.
  - discriminate Hc.
  - (* struct *)
    cbn [norm skel]. apply forallb_forall. intros y Hy. apply In_stripN in Hy. apply in_map_iff in Hy.
    destruct Hy as (p & <- & Hp). rewrite Forall_forall in H. apply (H p Hp).
    cbn [wfv ranged nocap] in *. apply andb_prop in Hr. destruct Hr as [_ Hr].
    repeat split; eapply forallb_In; eassumption.
  - (* lists *)
    rewrite Forall_forall in H. cbn [wfv ranged nocap] in *.
    assert (G : forall e, In e es -> exists d ps, e = VStruct d ps /\ good e).
    { intros e He. pose proof (forallb_In _ _ _ Hw He) as W. pose proof (forallb_In _ _ _ Hr He) as R.
      pose proof (forallb_In _ _ _ Hc He) as C. cbn beta in W, R. exact (elem_good k e W R C). }
    destruct k; cbn [norm skel].
    + (* void *)
      rewrite map_map. apply forallb_forall. intros y Hy. apply in_map_iff in Hy. destruct Hy as (e & <- & _). reflexivity.
    + prim_norm_case.
    + prim_norm_case.
    + prim_norm_case.
    + prim_norm_case.
    + (* pointer list *)
        apply forallb_forall. intros y Hy. rewrite map_map in Hy. apply in_map_iff in Hy. destruct Hy as (e & <- & He).
        destruct (G e He) as (d & ps & -> & Ge). specialize (H _ He Ge).
        pose proof (forallb_In _ _ _ Hw He) as W. cbn beta iota in W.
        destruct d; try discriminate. destruct ps as [|p [|]]; try discriminate.
        cbn [norm map strip0 stripN sptrs] in *. destruct (is_null (norm p)) eqn:En; cbn [hd_ptr].
        -- reflexivity.
        -- cbn [skel forallb] in H. rewrite andb_true_r in H. exact H.
    + (* struct list *)
        rewrite max_len_pad_elems_d, max_len_pad_elems_p.
        apply forallb_forall. intros y Hy. unfold pad_elems in Hy. apply in_map_iff in Hy. destruct Hy as (n & <- & Hn).
        apply in_map_iff in Hn. destruct Hn as (e & <- & He).
        destruct (G e He) as (d & ps & -> & Ge). specialize (H _ He Ge). cbn [norm sdata sptrs] in *.
        rewrite pad0_length, padN_length, !Nat.eqb_refl.
        -- cbn [andb]. apply skel_padN. cbn [skel] in H. exact H.
        -- apply (length_le_max_len sptrs (norm (VStruct d ps))). apply in_map. exact He.
        -- apply (length_le_max_len sdata (norm (VStruct d ps))). apply in_map. exact He.
Qed.
