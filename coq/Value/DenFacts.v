(* Facts about [den] and about the byte-level comparisons of Equal. *)
From CV Require Import Value.ValueEq Value.ValueEqProofs Value.EqualM Value.Den.
From CV Require Import Core.ReaderFacts Core.SafetyProofs.
From Coq Require Import ZifyBool ZifyNat.
Ltac Zify.zify_post_hook ::= Z.div_mod_to_equations.
Open Scope Z_scope.

(* ------------------------------------------------------------------ den ignores depth *)
Lemma same_core_refl p : same_core p p.
Proof. repeat split. Qed.

Lemma same_core_sym p q : same_core p q -> same_core q p.
Proof. intros (A & B & C & D & E & F & G & H). repeat split; congruence. Qed.

Lemma den_core strict m mid caps p q v :
  same_core p q -> den strict m mid caps p v -> den strict m mid caps q v.
Proof.
  intros (Hv & Hs & Ho & Hl & Hz & Hk & Hc & Hb) H.
  assert (Eseg : seg_of m q = seg_of m p) by (unfold seg_of; rewrite Hs; reflexivity).
  assert (Epa : forall i, pointerAddress q i = pointerAddress p i)
    by (intros; unfold pointerAddress; rewrite Ho, Hz; reflexivity).
  assert (Eel : forall i, elem_ptr q i = elem_ptr p i)
    by (intros; unfold elem_ptr; rewrite Hs, Ho, Hz; reflexivity).
  destruct H.
  - apply den_null. congruence.
  - rewrite Hl. apply den_cap; congruence.
  - eapply den_struct; try congruence.
    intros i Hi. rewrite <- Hz in Hi. destruct (H4 i Hi) as (dep & rl & q0 & rl' & E & D).
    exists dep, rl, q0, rl'. rewrite <- Hs, Eseg, Epa. split; assumption.
  - rewrite Hl. apply den_bits; try congruence.
  - apply den_comp; try congruence. intros i Hi. rewrite Eel. apply H5. lia.
  - apply den_ptrs; try congruence. intros i Hi. rewrite <- Hl in Hi.
    destruct (H5 i Hi) as (dep & rl & q0 & rl' & v & E & D & N).
    exists dep, rl, q0, rl', v. rewrite <- Hs, Eseg, <- Ho. repeat split; assumption.
  - eapply den_prim; try congruence; try eassumption. intros i Hi. rewrite <- Hl in Hi.
    destruct (H6 i Hi) as (d & E & N). exists d. rewrite Eseg, <- Ho. split; assumption.
Qed.

Lemma den_null_iff strict m mid caps p v : den strict m mid caps p v -> is_null v = negb (p_valid p).
Proof. intros H. destruct H; cbn; try rewrite H; try reflexivity. Qed.

(* ------------------------------------------------------------------ readPtr *)
Lemma readPtr_core strict m rl1 rl2 sid s a d1 d2 p1 p2 r1 r2 :
  readPtr strict m rl1 sid s a d1 = (Ok p1, r1) -> readPtr strict m rl2 sid s a d2 = (Ok p2, r2) ->
  same_core p1 p2.
Proof.
  unfold readPtr. destruct (resolveFarPointer strict m sid s a) as [[[[dsid dst] base] val]| |]; try discriminate.
  destruct (val =? 0).
  { intros H1 H2. inversion H1; inversion H2; subst. apply same_core_refl. }
  destruct (d1 =? 0); [discriminate|]. destruct (d2 =? 0); [intros _; discriminate|]. cbv zeta.
  destruct (pointerType val =? structPointer).
  { destruct (readStructPtr dsid dst base val) as [sp| |]; try discriminate.
    unfold canRead. destruct (rl1 >=? struct_readSize sp); [|discriminate].
    destruct (rl2 >=? struct_readSize sp); [|intros _; discriminate].
    intros H1 H2. inversion H1; inversion H2; subst. repeat split. }
  destruct (pointerType val =? listPointer).
  { destruct (readListPtr strict dsid dst base val) as [lp| |]; try discriminate.
    unfold canRead. destruct (rl1 >=? list_readSize lp); [|discriminate].
    destruct (rl2 >=? list_readSize lp); [|intros _; discriminate].
    intros H1 H2. inversion H1; inversion H2; subst. repeat split. }
  destruct (pointerType val =? otherPointer); [|discriminate].
  destruct (negb (otherPointerType val =? 0)); [discriminate|].
  intros H1 H2. inversion H1; inversion H2; subst. repeat split.
Qed.

(* the repaired test of the extra pointers agrees with what readPtr returns *)
Lemma readPtr_nonnull strict m rl p i dep q rl' :
  readPtr strict m rl (p_seg p) (seg_of m p) (pointerAddress p i) dep = (Ok q, rl') ->
  has_nonnull_ptr strict m p i = Ok (p_valid q).
Proof.
  unfold readPtr, has_nonnull_ptr.
  destruct (resolveFarPointer strict m (p_seg p) (seg_of m p) (pointerAddress p i))
    as [[[[dsid dst] base] val]| |] eqn:E; try discriminate.
  assert (Hraw : exists raw, readRawPointer (seg_of m p) (pointerAddress p i) = Ok raw
                             /\ (raw = 0 -> val = 0)).
  { unfold resolveFarPointer in E.
    destruct (readRawPointer (seg_of m p) (pointerAddress p i)) as [raw| |]; try discriminate.
    exists raw. split; [reflexivity|]. intros ->. cbn [bind] in E.
    change (pointerType 0) with 0 in E. cbn in E.
    destruct (addSize (pointerAddress p i) 8); inversion E. reflexivity. }
  destruct Hraw as (raw & Hr & Hz). rewrite Hr. cbn [bind].
  destruct (raw =? 0) eqn:Er.
  - apply Z.eqb_eq in Er. rewrite (Hz Er). cbn. intros H. inversion H. reflexivity.
  - destruct (val =? 0) eqn:Ev.
    + intros H. inversion H. reflexivity.
    + destruct (dep =? 0); [discriminate|]. cbv zeta.
      destruct (pointerType val =? structPointer).
      { destruct (readStructPtr dsid dst base val) as [sp| |]; try discriminate.
        unfold canRead. destruct (rl >=? struct_readSize sp); [|discriminate].
        intros H. inversion H. reflexivity. }
      destruct (pointerType val =? listPointer).
      { destruct (readListPtr strict dsid dst base val) as [lp| |]; try discriminate.
        unfold canRead. destruct (rl >=? list_readSize lp); [|discriminate].
        intros H. inversion H. reflexivity. }
      destruct (pointerType val =? otherPointer); [|discriminate].
      destruct (negb (otherPointerType val =? 0)); [discriminate|].
      intros H. inversion H. reflexivity.
Qed.

Lemma struct_ptr_unfold c m rl p i :
  p_valid p = true -> i < PointerCount (p_size p) ->
  struct_ptr c m rl p i = readPtr (cfg_strict c) m rl (p_seg p) (seg_of m p) (pointerAddress p i) (p_depth p).
Proof.
  intros Hv Hi. unfold struct_ptr. rewrite Hv. cbn [negb orb].
  destruct (i >=? PointerCount (p_size p)) eqn:E; [lia|reflexivity].
Qed.

(* ------------------------------------------------------------------ bytes *)
Lemma bytes_eqb_eq a b : bytes_eqb a b = true <-> a = b.
Proof.
  revert b. induction a as [|x r IH]; intros [|y s]; cbn; split; intros H; try reflexivity; try discriminate.
  - apply andb_prop in H. destruct H as [H1 H2]. apply Z.eqb_eq in H1. apply IH in H2. congruence.
  - inversion H; subst. rewrite Z.eqb_refl. cbn. apply IH. reflexivity.
Qed.

Lemma bytes_eqb_refl a : bytes_eqb a a = true.
Proof. apply bytes_eqb_eq. reflexivity. Qed.

(* the three-way comparison of the struct case is zero-extended equality of the bytes *)
Lemma struct_data_equal_cons x r y s :
  struct_data_equal (x :: r) (y :: s) = (x =? y) && struct_data_equal r s.
Proof.
  unfold struct_data_equal. cbn [length].
  change (S (length r) <? S (length s))%nat with (length r <? length s)%nat.
  change (S (length s) <? S (length r))%nat with (length s <? length r)%nat.
  destruct (length r <? length s)%nat.
  - cbn [firstn skipn bytes_eqb]. rewrite andb_assoc. reflexivity.
  - destruct (length s <? length r)%nat.
    + cbn [firstn skipn bytes_eqb]. rewrite andb_assoc. reflexivity.
    + reflexivity.
Qed.

Lemma struct_data_equal_spec d1 d2 : struct_data_equal d1 d2 = data_eq d1 d2.
Proof.
  revert d2. induction d1 as [|x r IH]; intros d2.
  - unfold struct_data_equal. cbn [length]. destruct d2 as [|y s]; [reflexivity|].
    cbn. reflexivity.
  - destruct d2 as [|y s].
    + unfold struct_data_equal. cbn. reflexivity.
    + rewrite struct_data_equal_cons, IH. reflexivity.
Qed.

(* zero-extended equality is pointwise equality with default 0 *)
Lemma all_zero_nth l : all_zero l = true <-> forall i, nth i l 0 = 0.
Proof.
  induction l as [|x r IH].
  - split; [intros _ [|i]; reflexivity| reflexivity].
  - change (all_zero (x :: r)) with ((0 =? x) && all_zero r). rewrite andb_true_iff, Z.eqb_eq, IH. split.
    + intros [H1 H2] [|i]; cbn [nth]; [congruence| apply H2].
    + intros H. split; [symmetry; apply (H O)| intros i; apply (H (S i))].
Qed.

Lemma data_eq_nth a b : data_eq a b = true <-> forall i, nth i a 0 = nth i b 0.
Proof.
  revert b. induction a as [|x r IH]; intros b.
  - change (data_eq [] b) with (all_zero b). rewrite all_zero_nth.
    split; intros H i; specialize (H i); destruct i; cbn in *; congruence.
  - destruct b as [|y s].
    + change (data_eq (x :: r) []) with (all_zero (x :: r)). rewrite all_zero_nth.
      split; intros H i; specialize (H i); destruct i; cbn in *; congruence.
    + cbn [data_eq]. rewrite andb_true_iff, Z.eqb_eq, IH. split.
      * intros [H1 H2] [|i]; cbn; [assumption| apply H2].
      * intros H. split; [apply (H O)| intros i; apply (H (S i))].
Qed.

(* word k of a byte list *)
Definition byte_at (d : list Z) (i : nat) : Z := nth i d 0.
Definition word_at (d : list Z) (k : nat) : Z :=
  byte_at d (8 * k) + 256 * byte_at d (8 * k + 1) + 65536 * byte_at d (8 * k + 2)
  + 16777216 * byte_at d (8 * k + 3) + 4294967296 * byte_at d (8 * k + 4)
  + 1099511627776 * byte_at d (8 * k + 5) + 281474976710656 * byte_at d (8 * k + 6)
  + 72057594037927936 * byte_at d (8 * k + 7).

Lemma nth_words_of_bytes : forall k d, nth k (words_of_bytes d) 0 = word_at d k.
Proof.
  induction k as [|k IH]; intros d.
  - destruct d as [|b0 [|b1 [|b2 [|b3 [|b4 [|b5 [|b6 [|b7 r]]]]]]]];
      unfold word_at, byte_at; cbn [words_of_bytes nth le_decode Nat.mul Nat.add]; lia.
  - destruct d as [|b0 [|b1 [|b2 [|b3 [|b4 [|b5 [|b6 [|b7 r]]]]]]]];
      try (unfold word_at, byte_at; cbn [words_of_bytes nth];
           replace (8 * S k)%nat with (S (S (S (S (S (S (S (S (8 * k))))))))) by lia;
           cbn [nth Nat.add]; destruct k; cbn [nth]; lia).
    cbn [words_of_bytes nth]. rewrite IH. unfold word_at, byte_at.
    replace (8 * S k)%nat with (S (S (S (S (S (S (S (S (8 * k))))))))) by lia.
    cbn [nth Nat.add]. reflexivity.
Qed.

Lemma byte_at_range d i : bytes_ok d -> 0 <= byte_at d i < 256.
Proof.
  intros H. unfold byte_at. destruct (Nat.lt_ge_cases i (length d)) as [L|L].
  - unfold bytes_ok in H. rewrite Forall_forall in H. apply H. apply nth_In. assumption.
  - rewrite nth_overflow by assumption. lia.
Qed.

Lemma horner_inj a b x y : 0 <= a < 256 -> 0 <= b < 256 -> a + 256 * x = b + 256 * y -> a = b /\ x = y.
Proof. lia. Qed.

Lemma digits8_inj a0 a1 a2 a3 a4 a5 a6 a7 b0 b1 b2 b3 b4 b5 b6 b7 :
  0 <= a0 < 256 -> 0 <= a1 < 256 -> 0 <= a2 < 256 -> 0 <= a3 < 256 ->
  0 <= a4 < 256 -> 0 <= a5 < 256 -> 0 <= a6 < 256 -> 0 <= a7 < 256 ->
  0 <= b0 < 256 -> 0 <= b1 < 256 -> 0 <= b2 < 256 -> 0 <= b3 < 256 ->
  0 <= b4 < 256 -> 0 <= b5 < 256 -> 0 <= b6 < 256 -> 0 <= b7 < 256 ->
  a0 + 256 * a1 + 65536 * a2 + 16777216 * a3 + 4294967296 * a4 + 1099511627776 * a5
  + 281474976710656 * a6 + 72057594037927936 * a7 =
  b0 + 256 * b1 + 65536 * b2 + 16777216 * b3 + 4294967296 * b4 + 1099511627776 * b5
  + 281474976710656 * b6 + 72057594037927936 * b7 ->
  a0 = b0 /\ a1 = b1 /\ a2 = b2 /\ a3 = b3 /\ a4 = b4 /\ a5 = b5 /\ a6 = b6 /\ a7 = b7.
Proof.
  intros A0 A1 A2 A3 A4 A5 A6 A7 B0 B1 B2 B3 B4 B5 B6 B7 H.
  assert (H' : a0 + 256 * (a1 + 256 * (a2 + 256 * (a3 + 256 * (a4 + 256 * (a5 + 256 * (a6 + 256 * a7)))))) =
               b0 + 256 * (b1 + 256 * (b2 + 256 * (b3 + 256 * (b4 + 256 * (b5 + 256 * (b6 + 256 * b7))))))).
  { ring_simplify. ring_simplify in H. exact H. }
  apply horner_inj in H'; try assumption. destruct H' as [E0 H'].
  apply horner_inj in H'; try assumption. destruct H' as [E1 H'].
  apply horner_inj in H'; try assumption. destruct H' as [E2 H'].
  apply horner_inj in H'; try assumption. destruct H' as [E3 H'].
  apply horner_inj in H'; try assumption. destruct H' as [E4 H'].
  apply horner_inj in H'; try assumption. destruct H' as [E5 H'].
  apply horner_inj in H'; try assumption. destruct H' as [E6 E7].
  repeat split; assumption.
Qed.

Lemma data_eq_words d1 d2 : bytes_ok d1 -> bytes_ok d2 ->
  data_eq (words_of_bytes d1) (words_of_bytes d2) = data_eq d1 d2.
Proof.
  intros H1 H2. apply eq_true_iff_eq. rewrite !data_eq_nth. split.
  - intros H i. specialize (H (i / 8)%nat). rewrite !nth_words_of_bytes in H. unfold word_at in H.
    pose proof (byte_at_range d1 (8 * (i / 8)) H1). pose proof (byte_at_range d1 (8 * (i / 8) + 1) H1).
    pose proof (byte_at_range d1 (8 * (i / 8) + 2) H1). pose proof (byte_at_range d1 (8 * (i / 8) + 3) H1).
    pose proof (byte_at_range d1 (8 * (i / 8) + 4) H1). pose proof (byte_at_range d1 (8 * (i / 8) + 5) H1).
    pose proof (byte_at_range d1 (8 * (i / 8) + 6) H1). pose proof (byte_at_range d1 (8 * (i / 8) + 7) H1).
    pose proof (byte_at_range d2 (8 * (i / 8)) H2). pose proof (byte_at_range d2 (8 * (i / 8) + 1) H2).
    pose proof (byte_at_range d2 (8 * (i / 8) + 2) H2). pose proof (byte_at_range d2 (8 * (i / 8) + 3) H2).
    pose proof (byte_at_range d2 (8 * (i / 8) + 4) H2). pose proof (byte_at_range d2 (8 * (i / 8) + 5) H2).
    pose proof (byte_at_range d2 (8 * (i / 8) + 6) H2). pose proof (byte_at_range d2 (8 * (i / 8) + 7) H2).
    change (nth i d1 0) with (byte_at d1 i). change (nth i d2 0) with (byte_at d2 i).
    assert (Hi : (i = 8 * (i / 8) \/ i = 8 * (i / 8) + 1 \/ i = 8 * (i / 8) + 2 \/ i = 8 * (i / 8) + 3 \/
                  i = 8 * (i / 8) + 4 \/ i = 8 * (i / 8) + 5 \/ i = 8 * (i / 8) + 6 \/ i = 8 * (i / 8) + 7)%nat).
    { pose proof (Nat.div_mod i 8 ltac:(discriminate)). pose proof (Nat.mod_upper_bound i 8 ltac:(discriminate)). lia. }
    set (k := (i / 8)%nat) in *. clearbody k.
    match type of H with ?a0 + 256 * ?a1 + 65536 * ?a2 + 16777216 * ?a3 + 4294967296 * ?a4 + 1099511627776 * ?a5
                         + 281474976710656 * ?a6 + 72057594037927936 * ?a7 =
                         ?b0 + 256 * ?b1 + 65536 * ?b2 + 16777216 * ?b3 + 4294967296 * ?b4 + 1099511627776 * ?b5
                         + 281474976710656 * ?b6 + 72057594037927936 * ?b7 =>
      destruct (digits8_inj a0 a1 a2 a3 a4 a5 a6 a7 b0 b1 b2 b3 b4 b5 b6 b7) as (E0 & E1 & E2 & E3 & E4 & E5 & E6 & E7);
        try assumption
    end.
    destruct Hi as [-> | [-> | [-> | [-> | [-> | [-> | [-> | ->]]]]]]]; assumption.
  - intros H k. rewrite !nth_words_of_bytes. unfold word_at, byte_at. rewrite !H. reflexivity.
Qed.

Lemma struct_data_equal_words d1 d2 : bytes_ok d1 -> bytes_ok d2 ->
  struct_data_equal d1 d2 = data_eq (words_of_bytes d1) (words_of_bytes d2).
Proof. intros. rewrite data_eq_words by assumption. apply struct_data_equal_spec. Qed.

Lemma slice_bytes_ok m p base n d : msg_ok m -> slice (seg_of m p) base n = Ok d -> bytes_ok d.
Proof.
  intros Hm H. apply slice_sub in H. destruct H as (k & H & _). subst d.
  apply bytes_ok_sub. apply seg_of_ok. assumption.
Qed.

Lemma words_of_bytes_length : forall d, (8 * length (words_of_bytes d) <= length d + 7)%nat.
Proof.
  fix IH 1. intros d.
  destruct d as [|b0 [|b1 [|b2 [|b3 [|b4 [|b5 [|b6 [|b7 r]]]]]]]]; cbn [words_of_bytes length]; try lia.
  specialize (IH r). lia.
Qed.
