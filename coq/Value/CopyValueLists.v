(* C16 [T2] copy_value: writePtr of data-only lists and pointer lists *)
From CV Require Import Value.ValueEq Value.ValueEqProofs Value.EqualM Value.Den Value.DenFacts Value.DenLists
                       Value.CanonSpec Value.CanonProofs3 Value.CanonM Value.CanonMStruct Value.CanonMData Value.CanonMHeap
                       Value.CanonMLoop Value.CanonMInd Value.CanonMBytes Value.CanonMBlocks Value.CopyValue Value.CopyValueHeap Value.CopyValueDefs.
From CV Require Import Core.ReaderFacts Core.SafetyProofs Core.BuilderFacts Core.ArithFacts Core.CopySafe Core.WritePtrProofs.
From Coq Require Import ZifyBool ZifyNat.
Ltac Zify.zify_post_hook ::= Z.div_mod_to_equations.
Open Scope Z_scope.

Section Copy.
Context (m : segs) (Hm : msg_ok m).

(* ------------------------------------------------------------------ data-only lists *)
(* the copying branch of writePtr for a non-composite list without pointers *)
Lemma raw_list_copy f D cap rl a src fc w' lt :
  hinv D -> 0 <= a -> a mod 8 = 0 -> a + 8 <= zlen D ->
  p_valid src = true -> p_kind src = KList -> p_comp src = false ->
  (p_bit src || (PointerCount (p_size src) =? 0)) = true ->
  0 <= p_len src < 536870912 -> 0 <= lt < 7 ->
  list_raw (mkPtr true 0 (zlen D) (p_len src) (p_size src) maxDepth KList false (p_bit src) false)
    = Ok (rawListPointer 0 lt (p_len src)) ->
  (if lt =? 1 then mkOS 0 0 else es_of lt) = p_size src -> (lt =? 1) = p_bit src ->
  (if lt =? 1 then bitListSize (p_len src) else totalSize (es_of lt) * p_len src) = list_allocSize src ->
  0 <= p_off src -> p_off src + list_allocSize src <= zlen (seg_of m src) -> zlen (seg_of m src) <= 4294967288 ->
  write_ptr (S f) true (dstw D cap m rl) 0 a InSrc src fc = Ok w' ->
  let sz := list_allocSize src in
  let bs := sub (seg_of m src) (p_off src) sz in
  exists word pad cap',
    w' = dstw (put_word D a word ++ (bs ++ repeat 0 pad)) cap' m rl /\ hinv (D ++ (bs ++ repeat 0 pad)) /\ bytes_ok (bs ++ repeat 0 pad) /\
    forall pre' tail, zlen pre' = zlen D -> word_is pre' a word -> zlen (pre' ++ (bs ++ repeat 0 pad) ++ tail) <= BOUND ->
      exists rl', readPtr true [pre' ++ (bs ++ repeat 0 pad) ++ tail] 4294967288 0 (pre' ++ (bs ++ repeat 0 pad) ++ tail) a 1
        = (Ok (mkPtr true 0 (zlen D) (p_len src) (p_size src) (uint_dec 1) KList false (p_bit src) false), rl').
Proof.
  intros [Hi1 Hi2] Ha Ham Hab Hv Hk Hc Hraw Hn Hlt Hlr Hes Hbit Hls Ho Hbd Hsl H. cbv zeta.
  assert (Z0 : 0 <= zlen D) by (unfold zlen; lia).
  set (sz := list_allocSize src) in *.
  assert (Hsz : 0 <= sz).
  { rewrite <- Hls. destruct (lt =? 1); [unfold bitListSize, u32; lia|]. unfold totalSize, u32. nia. }
  rewrite write_ptr_S in H. rewrite Hv, Hk in H. cbn [negb] in H.
  replace (fc || is_src InSrc) with true in H by (cbn [is_src]; rewrite Bool.orb_true_r; reflexivity).
  cbv zeta in H. fold sz in H. cbn [w_dst dstw] in H.
  destruct (alloc (seg0 D cap) 0 sz) as [[[m1 sid1] addr]| |] eqn:Ea; try discriminate H.
  pose proof (alloc_bound_pad D cap sz m1 sid1 addr Ea) as Hbound0.
  destruct (alloc_seg0 D cap sz m1 sid1 addr Hi1 Hsz Ea) as (cap1 & -> & -> & ->).
  cbn [bind] in H. rewrite Hc, Hraw in H. cbn [bind] in H.
  unfold copy_bytes in H. cbn [w_segs w_set_dst w_src w_dst dstw] in H.
  change (nth (Z.to_nat (p_seg src)) m []) with (seg_of m src) in H.
  rewrite slice_ok in H by lia. cbn [bind] in H.
  set (bs := sub (seg_of m src) (p_off src) sz) in *.
  assert (Lbs : zlen bs = sz) by (unfold bs; apply sub_length; lia).
  assert (P0 : sz <= padToWord sz) by (unfold padToWord, u32; lia).
  assert (Pm : padToWord sz mod 8 = 0) by (unfold padToWord; lia).
  unfold lift0 in H. cbn [w_dst] in H.
  rewrite seg_write_raw in H; [| unfold zlen; lia | rewrite zlen_app; unfold zlen in *; rewrite repeat_length; lia
                               | rewrite zlen_app; unfold zlen in *; rewrite repeat_length; lia].
  cbn [bind] in H. rewrite write_bytes_end in H by (unfold zlen in *; lia).
  set (pad := (Z.to_nat (padToWord sz) - length bs)%nat) in *.
  set (body := bs ++ repeat 0 pad) in *.
  assert (Lbody : zlen body = padToWord sz) by (unfold body, pad; rewrite zlen_app; unfold zlen in *; rewrite repeat_length; lia).
  cbn [bind p_comp p_seg p_off] in H. rewrite Hlr in H. cbn [bind] in H.
  unfold place in H. cbn [w_dst w_set_dst] in H. change (0 =? 0) with true in H. cbv iota in H. unfold lift0 in H.
  rewrite writeRaw_seg0 in H by (rewrite ?zlen_app, ?Lbody; lia). cbn [bind] in H.
  apply Ok_inj in H. subst w'.
  set (raw := rawListPointer 0 lt (p_len src)) in *.
  set (word := withOffset raw (nearPointerOffset a (zlen D))) in *.
  exists word, pad, cap1. fold body.
  split.
  { unfold dstw, w_set_dst. cbn [w_src w_src_rl]. f_equal. f_equal. apply put_word_app_left; lia. }
  split; [split; rewrite zlen_app, Lbody; lia|].
  split; [unfold body; apply Forall_app; split; [unfold bs, sub; apply Forall_firstn', Forall_skipn'; apply (seg_of_ok m src Hm)|apply zeros_bytes_ok]|].
  intros pre' tail Lp Hw Hbound.
  set (M := pre' ++ body ++ tail) in *.
  assert (LM : zlen M = zlen D + padToWord sz + zlen tail) by (unfold M; rewrite !zlen_app, Lbody; lia).
  assert (Lt0 : 0 <= zlen tail) by (unfold zlen; lia).
  assert (HwM : word_is M a word) by (unfold word_is, M in *; rewrite sub_app_l by lia; exact Hw).
  pose proof (elementSize_raw lt (p_len src) Hlt Hn) as Ees.
  destruct (read_near_list true M a (zlen D) lt (p_len src) 1 Hlt Hn Ha Ham ltac:(lia) ltac:(unfold BOUND in *; lia) Z0 Hi1) as (rl' & RR).
  - cbv zeta. rewrite Ees. rewrite Hls. fold sz. lia.
  - exact HwM.
  - lia.
  - exists rl'. cbv zeta in RR. rewrite Ees in RR. rewrite Hes, Hbit in RR. exact RR.
Qed.

Lemma wp_raw_list f D cap rl a src v fc w' :
  hinv D -> 0 <= a -> a mod 8 = 0 -> a + 8 <= zlen D ->
  wf_ptr m src -> caligned src -> den true m 0 [] src v ->
  match v with VBits _ => True | VList k _ => k <> LPtr /\ k <> LComp | _ => False end ->
  write_ptr (S f) true (dstw D cap m rl) 0 a InSrc src fc = Ok w' ->
  exists word body cap' rl',
    w' = dstw (put_word D a word ++ body) cap' m rl' /\ hinv (D ++ body) /\ bytes_ok body /\
    forall pre' tail, zlen pre' = zlen D -> word_is pre' a word -> zlen (pre' ++ body ++ tail) <= BOUND ->
      reads_as (pre' ++ body ++ tail) a v.
Proof.
  intros Hi Ha Ham Hab Hwf Hcal D0 Hdom H.
  assert (Z0 : 0 <= zlen D) by (unfold zlen; lia).
  destruct v as [| | |k vs|bits]; try contradiction.
  - (* void / primitive list *)
    destruct Hdom as [K1 K2].
    destruct (den_prim_inv m _ _ _ D0 K1 K2) as (w & Hw & -> & Hv & Hk & Hb & Hc & Hsz & Lvs & K).
    destruct (Hwf Hv) as (Hseg & Hobj). unfold wf_obj in Hobj. rewrite Hk, Hb, Hsz in Hobj.
    destruct Hobj as (Ho & Hlen & _ & Hbd).
    assert (Hts : totalSize (mkOS w 0) = w) by (destruct Hw as [->|[->|[->|[->| ->]]]]; reflexivity).
    assert (Hw8 : 0 <= w <= 8) by (destruct Hw as [->|[->|[->|[->| ->]]]]; lia).
    rewrite Hts in Hbd.
    assert (Hsok : seg_ok (seg_of m src)) by (apply seg_of_ok; assumption).
    assert (Hsl : zlen (seg_of m src) <= 4294967288) by (apply Hsok).
    set (n := p_len src) in *.
    assert (Esz : list_allocSize src = n * w).
    { unfold list_allocSize. rewrite Hv, Hb, Hc, Hsz, Hts. cbn [negb]. fold n.
      rewrite times_some by (unfold maxSegmentSize; nia). lia. }
    set (lt := if w =? 0 then 0 else if w =? 1 then 2 else if w =? 2 then 3 else if w =? 4 then 4 else 5).
    assert (Hlt : 0 <= lt < 7 /\ (lt =? 1) = false /\ es_of lt = mkOS w 0)
      by (unfold lt; destruct Hw as [->|[->|[->|[->| ->]]]]; cbn; repeat split; try reflexivity; lia).
    destruct Hlt as (Hlt & Hl1 & Hes).
    destruct (raw_list_copy f D cap rl a src fc w' lt Hi Ha Ham Hab Hv Hk Hc
                ltac:(rewrite Hb, Hsz; reflexivity) Hlen Hlt) as (word & pad & cap' & -> & Hinv & Bb & Post); try assumption.
    + rewrite Hb, Hsz. unfold list_raw, lt. cbn [p_valid p_comp p_bit p_size PointerCount DataSize negb p_len].
      destruct Hw as [->|[->|[->|[->| ->]]]]; reflexivity.
    + rewrite Hl1, Hes, Hsz. reflexivity.
    + rewrite Hl1, Hb. reflexivity.
    + rewrite Hl1, Hes, Hts, Esz. lia.
    + rewrite Esz. nia.
    + cbv zeta in *. rewrite Esz in *.
      set (bs := sub (seg_of m src) (p_off src) (n * w)) in *.
      assert (Lbs : zlen bs = n * w) by (unfold bs; apply sub_length; nia).
      exists word, (bs ++ repeat 0 pad), cap', rl. split; [reflexivity|]. split; [exact Hinv|]. split; [exact Bb|].
      intros pre' tail Lp Hwd Hbound.
      destruct (Post pre' tail Lp Hwd Hbound) as (rl' & RR).
      set (M := pre' ++ (bs ++ repeat 0 pad) ++ tail) in *.
      set (q := mkPtr true 0 (zlen D) n (p_size src) (uint_dec 1) KList false (p_bit src) false) in *.
      exists 1, 4294967288, q, rl'. split; [exact RR|]. intros mid caps.
      apply (den_prim true [M] mid caps q w vs); try reflexivity; try assumption.
      { intros i Hi0. cbn [q p_len] in Hi0.
        destruct (K i Hi0) as (d & Sd & Ev).
        rewrite slice_ok in Sd by (unfold zlen in *; nia). apply Ok_inj in Sd. subst d.
        exists (sub (seg_of m src) (p_off src + i * w) w). split; [|exact Ev].
        unfold seg_of. cbn [q p_seg p_off Z.to_nat nth].
        assert (LM : zlen M = zlen D + zlen (bs ++ repeat 0 pad) + zlen tail) by (unfold M; rewrite !zlen_app; lia).
        assert (Lb2 : zlen (bs ++ repeat 0 pad) = n * w + Z.of_nat pad) by (rewrite zlen_app, Lbs; unfold zlen; rewrite repeat_length; lia).
        assert (Lt0 : 0 <= zlen tail) by (unfold zlen; lia).
        rewrite slice_ok by (unfold BOUND in *; nia). f_equal.
        unfold M. rewrite sub_app_r by (rewrite ?Lp; nia). rewrite Lp.
        replace (zlen D + i * w - zlen D) with (i * w) by lia.
        rewrite sub_app_l by (rewrite ?Lb2; nia). rewrite sub_app_l by nia.
        unfold bs. apply sub_sub; nia. }
  - (* bit list *)
    inversion D0 as [| | |p0 d Hv Hk Hb Hn Sl| | |]; subst p0 bits.
    assert (Hc : p_comp src = false).
    { destruct (p_comp src) eqn:E; [|reflexivity]. destruct (Hcal E) as [_ X]. congruence. }
    destruct (Hwf Hv) as (Hseg & Hobj). unfold wf_obj in Hobj. rewrite Hk, Hb in Hobj.
    destruct Hobj as (Ho & Hlen & Hsz & Hbd).
    assert (Hsok : seg_ok (seg_of m src)) by (apply seg_of_ok; assumption).
    assert (Hsl : zlen (seg_of m src) <= 4294967288) by (apply Hsok).
    set (n := p_len src) in *.
    assert (Ebl : bitListSize n = (n + 7) / 8) by (unfold bitListSize, u32; lia).
    assert (Esz : list_allocSize src = (n + 7) / 8).
    { unfold list_allocSize. rewrite Hv, Hb. cbn [negb]. exact Ebl. }
    destruct (raw_list_copy f D cap rl a src fc w' 1 Hi Ha Ham Hab Hv Hk Hc
                ltac:(rewrite Hb; reflexivity) Hlen ltac:(lia)) as (word & pad & cap' & -> & Hinv & Bb & Post); try assumption.
    + rewrite Hb. reflexivity.
    + cbn. symmetry. exact Hsz.
    + cbn. symmetry. exact Hb.
    + cbn [Z.eqb Pos.eqb]. fold n. rewrite Esz. exact Ebl.
    + rewrite Esz. lia.
    + cbv zeta in *. rewrite Esz in *.
      rewrite Ebl, slice_ok in Sl by lia. apply Ok_inj in Sl. subst d.
      set (bs := sub (seg_of m src) (p_off src) ((n + 7) / 8)) in *.
      assert (Lbs : zlen bs = (n + 7) / 8) by (unfold bs; apply sub_length; lia).
      exists word, (bs ++ repeat 0 pad), cap', rl. split; [reflexivity|]. split; [exact Hinv|]. split; [exact Bb|].
      intros pre' tail Lp Hwd Hbound.
      destruct (Post pre' tail Lp Hwd Hbound) as (rl' & RR).
      set (M := pre' ++ (bs ++ repeat 0 pad) ++ tail) in *.
      set (q := mkPtr true 0 (zlen D) n (p_size src) (uint_dec 1) KList false (p_bit src) false) in *.
      exists 1, 4294967288, q, rl'. split; [exact RR|]. intros mid caps.
      replace (bits_of (Z.to_nat n) bs) with (bits_of (Z.to_nat (p_len q)) bs) by reflexivity.
      apply den_bits; try reflexivity; try assumption.
      unfold seg_of. cbn [q p_seg p_off p_len Z.to_nat nth]. rewrite Ebl.
      assert (LM : zlen M = zlen D + zlen (bs ++ repeat 0 pad) + zlen tail) by (unfold M; rewrite !zlen_app; lia).
      assert (Lb2 : zlen (bs ++ repeat 0 pad) = (n + 7) / 8 + Z.of_nat pad) by (rewrite zlen_app, Lbs; unfold zlen; rewrite repeat_length; lia).
      assert (Lt0 : 0 <= zlen tail) by (unfold zlen; lia).
      rewrite slice_ok by (unfold BOUND in *; lia). f_equal.
      unfold M. rewrite sub_app_r by (rewrite ?Lp; lia). rewrite Lp, Z.sub_diag.
      rewrite sub_app_l by (rewrite ?Lb2; lia). rewrite sub_app_l by lia.
      unfold sub. cbn [Z.to_nat skipn]. apply firstn_all2. unfold zlen in Lbs. lia.
Qed.

(* ------------------------------------------------------------------ pointer lists *)
Lemma wp_ptr_list f : CopyValueDefs.P_cs m f -> forall D cap rl a src vs fc w',
  hinv D -> 0 <= a -> a mod 8 = 0 -> a + 8 <= zlen D ->
  wf_ptr m src -> den true m 0 [] src (VList LPtr vs) -> forallb cvdom vs = true ->
  write_ptr (S f) true (dstw D cap m rl) 0 a InSrc src fc = Ok w' ->
  exists word body cap' rl',
    w' = dstw (put_word D a word ++ body) cap' m rl' /\ hinv (D ++ body) /\ bytes_ok body /\
    forall pre' tail, zlen pre' = zlen D -> word_is pre' a word -> zlen (pre' ++ body ++ tail) <= BOUND ->
      reads_as (pre' ++ body ++ tail) a (VList LPtr vs).
Proof.
  intros HC D cap rl a src vs fc w' Hi Ha Ham Hab Hwf D0 Hsd H.
  destruct (den_ptrs_inv m _ _ D0) as (Hv & Hk & Hb & Hc & Hsz & Lvs & K).
  destruct (den_elem true m 0 [] src LPtr vs Hm D0 Hv) as (_ & _ & _ & DE).
  destruct (Hwf Hv) as (Hseg & Hobj). unfold wf_obj in Hobj. rewrite Hk, Hb, Hsz in Hobj.
  destruct Hobj as (Ho & Hlen & _ & Hbd). change (totalSize (mkOS 0 1)) with 8 in Hbd.
  assert (Hsl : zlen (seg_of m src) <= 4294967288) by (apply seg_of_ok; assumption).
  destruct Hi as [Hi1 Hi2]. assert (Z0 : 0 <= zlen D) by (unfold zlen; lia).
  set (n := p_len src) in *.
  assert (Esz : list_allocSize src = 8 * n).
  { unfold list_allocSize. rewrite Hv, Hb, Hc, Hsz. cbn [negb]. change (totalSize (mkOS 0 1)) with 8. fold n.
    rewrite times_some by (unfold maxSegmentSize; lia). reflexivity. }
  rewrite write_ptr_S in H. rewrite Hv, Hk in H. cbn [negb] in H.
  replace (fc || is_src InSrc) with true in H by (cbn [is_src]; rewrite Bool.orb_true_r; reflexivity).
  cbv zeta in H. rewrite Esz in H. cbn [w_dst dstw] in H.
  destruct (alloc (seg0 D cap) 0 (8 * n)) as [[[m1 sid1] addr]| |] eqn:Ea; try discriminate H.
  pose proof (alloc_bound D cap (8 * n) m1 sid1 addr ltac:(lia) ltac:(lia) Ea) as Hbound0.
  destruct (alloc_seg0 D cap (8 * n) m1 sid1 addr Hi1 ltac:(lia) Ea) as (cap1 & -> & -> & ->).
  rewrite (padToWord_mult (8 * n)) in * by lia.
  cbn [bind] in H. rewrite Hc, Hb, Hsz in H. cbn [bind PointerCount orb] in H. change (1 =? 0) with false in H. cbv iota in H.
  unfold list_len in H. rewrite Hv in H. fold n in H.
  set (D1 := D ++ repeat 0 (Z.to_nat (8 * n))) in *.
  change (w_set_dst (dstw D cap m rl) (seg0 D1 cap1)) with (dstw D1 cap1 m rl) in H.
  assert (L1 : zlen D1 = zlen D + 8 * n) by (unfold D1; rewrite zlen_app; unfold zlen; rewrite repeat_length; lia).
  set (dstl := mkPtr true 0 (zlen D) n (mkOS 0 1) maxDepth KList false false false) in *.
  match type of H with context [fold_res (iota (Z.to_nat n)) ?w0 ?st] => set (step := st) in * end.
  set (P := fun (i : Z) (M : list Z) => zlen M <= BOUND -> reads_as M (zlen D + 8 * i) (nthv (sptrs (nthv vs i)) 0)).
  assert (Hstep : forall i D0' cap0 rl0 w0, 0 <= i < Z.of_nat (Z.to_nat n) -> hinv D0' -> zlen D + 8 * Z.of_nat (Z.to_nat n) <= zlen D0' ->
            step (dstw D0' cap0 m rl0) i = Ok w0 ->
            exists word body cap' rl',
              w0 = dstw (put_word D0' (zlen D + 8 * i) word ++ body) cap' m rl' /\ hinv (D0' ++ body) /\ bytes_ok body /\
              forall pre' tail, zlen pre' = zlen D0' -> word_is pre' (zlen D + 8 * i) word -> P i (pre' ++ body ++ tail)).
  { intros i D0' cap0 rl0 w0 Hi0 Hinv0 Hb0 Hs0. unfold step in Hs0.
    assert (Hin : 0 <= i < n) by lia.
    assert (EA : list_struct true dstl i
                 = Ok (mkPtr true 0 (zlen D + 8 * i) 0 (mkOS 0 1) (if true && (maxDepth =? 0) then 0 else uint_dec maxDepth) KStruct false false true)).
    { unfold list_struct, dstl. cbn [p_valid p_len p_bit p_off p_size p_seg p_depth negb orb].
      destruct ((i <? 0) || (i >=? n)) eqn:E1; [lia|]. change (totalSize (mkOS 0 1)) with 8.
      rewrite element_some by lia. f_equal. f_equal. lia. }
    rewrite EA in Hs0. cbn [bind] in Hs0.
    set (de := mkPtr true 0 (zlen D + 8 * i) 0 (mkOS 0 1) (if true && (maxDepth =? 0) then 0 else uint_dec maxDepth) KStruct false false true) in *.
    assert (Ex : exists se, list_struct true src i = Ok se).
    { unfold list_struct. rewrite Hv, Hb. cbn [negb orb]. fold n.
      destruct ((i <? 0) || (i >=? n)) eqn:E; [lia|].
      destruct (element (p_off src) i (totalSize (p_size src))); eexists; reflexivity. }
    destruct Ex as (se & El). rewrite El in Hs0. cbn [bind] in Hs0.
    assert (Hbi : 0 <= p_off src + i * totalSize (p_size src) <= zlen (seg_of m src)) by (rewrite Hsz; change (totalSize (mkOS 0 1)) with 8; lia).
    pose proof (list_struct_elem m src i se Hm Hv Hb ltac:(lia) Hbi El) as Hcore.
    pose proof (list_struct_safe true m src i Hm (conj Hwf (fun _ => Hk)) ltac:(unfold list_len; rewrite Hv; lia)) as SS.
    rewrite El in SS. cbn [res_sat] in SS. destruct SS as [We Ke].
    destruct Hcore as (Cv & Cs & Co & Cl & Cz & Ck & Cc & Cb).
    assert (Ve : p_valid se = true) by (rewrite Cv; reflexivity).
    assert (Kse : p_kind se = KStruct) by (rewrite Ck; reflexivity).
    assert (De : den true m 0 [] se (nthv vs i)).
    { eapply den_core; [|apply (DE i); lia]. unfold same_core. repeat split; symmetry; assumption. }
    assert (Ale : aligned se) by (intros _; rewrite Cz; cbn [elem_ptr p_size]; rewrite Hsz; reflexivity).
    destruct (K i Hin) as (dep & rlk & q & rlk' & vi & RK & DK & Evi).
    rewrite Evi in De.
    assert (SDi : forallb cvdom [vi] = true).
    { assert (SD0 : cvdom (nthv vs i) = true).
      { unfold nthv. eapply forallb_In; [exact Hsd|]. apply nth_In. unfold zlen in *. lia. }
      rewrite Evi in SD0. exact SD0. }
    assert (Hdst : dst_at de (zlen D + 8 * i) 0 1) by (unfold dst_at, de; cbn; repeat split; reflexivity).
    destruct (HC D0' cap0 rl0 de se [] [vi] (zlen D + 8 * i) 0 1 w0 Hinv0 Hdst ltac:(lia) ltac:(lia)
                 ltac:(lia) ltac:(lia) ltac:(lia) Ve Kse We Ale De SDi Hs0)
      as (pwords & kids & cap2 & rl2 & Lp & -> & Hinv2 & Bk0 & PostC).
    destruct pwords as [|pw [|? ?]]; try (unfold zlen in Lp; cbn [length] in Lp; lia).
    cbn [Z.to_nat resize_words firstn repeat app Nat.sub length] in *.
    exists pw, kids, cap2, rl2. split; [rewrite set_slots_one; reflexivity|]. split; [exact Hinv2|]. split; [exact Bk0|].
    intros pre' tail Lp' Hwd Hbound.
    pose proof (PostC pre' tail Lp') as R. replace (8 * (0 + 1)) with 8 in R by lia.
    specialize (R ltac:(unfold word_is in Hwd; rewrite Hwd; unfold bytes_of_words; cbn [flat_map]; rewrite app_nil_r; reflexivity) Hbound 0 ltac:(lia)).
    replace (zlen D + 8 * i + 8 * 0 + 8 * 0) with (zlen D + 8 * i) in R by lia.
    rewrite Evi. cbn [sptrs]. unfold resize_ptrs in R. cbn [Z.to_nat Pos.to_nat Pos.iter_op Nat.add firstn length Nat.sub repeat app] in R.
    exact R. }
  destruct (fold_res (iota (Z.to_nat n)) (dstw D1 cap1 m rl) step) as [w3| |] eqn:E1; try discriminate H. cbn [bind] in H.
  destruct (sem_loop step m (zlen D) (Z.to_nat n) P ltac:(lia) Hi1 Hstep (Z.to_nat n) (le_n _) D1 cap1 rl w3
                     ltac:(split; lia) ltac:(rewrite L1; lia) E1)
    as (words & kids & cap2 & rl2 & Lw & -> & Hinvk & Bk & PostL).
  assert (Edata : set_slots D1 (zlen D) words = D ++ bytes_of_words words).
  { unfold D1. replace (Z.to_nat (8 * n)) with (8 * length words)%nat by lia. apply set_slots_end. }
  rewrite Edata in H.
  cbn [p_comp p_seg p_off dstl] in H.
  assert (Elr : list_raw dstl = Ok (rawListPointer 0 6 n)) by reflexivity.
  rewrite Elr in H. cbn [bind] in H.
  unfold place in H. cbn [w_dst dstw] in H. change (0 =? 0) with true in H. cbv iota in H. unfold lift0 in H.
  assert (Lbw : zlen (bytes_of_words words) = 8 * n) by (unfold zlen; rewrite bow_length; lia).
  assert (Lk0 : 0 <= zlen kids) by (unfold zlen; lia).
  assert (Hk2 : zlen D + 8 * n + zlen kids <= BOUND).
  { destruct Hinvk as [_ X]. rewrite zlen_app, L1 in X. unfold BOUND. lia. }
  rewrite writeRaw_seg0 in H by (rewrite ?zlen_app, ?Lbw; unfold BOUND in *; lia). cbn [bind] in H.
  apply Ok_inj in H. subst w'.
  set (word := withOffset (rawListPointer 0 6 n) (nearPointerOffset a (zlen D))) in *.
  exists word, (bytes_of_words words ++ kids), cap2, rl2.
  split.
  { unfold dstw, w_set_dst. cbn [w_src w_src_rl]. f_equal. f_equal. rewrite <- app_assoc. apply put_word_app_left; lia. }
  split.
  { unfold hinv in *. rewrite !zlen_app in *. rewrite L1 in Hinvk. rewrite Lbw. lia. }
  split; [apply Forall_app; split; [apply bow_bytes_ok|exact Bk]|].
  intros pre' tail Lp' Hw Hbound.
  set (M := pre' ++ (bytes_of_words words ++ kids) ++ tail) in *.
  assert (LM : zlen M = zlen D + 8 * n + zlen kids + zlen tail) by (unfold M; rewrite !zlen_app, Lbw; lia).
  assert (Lt0 : 0 <= zlen tail) by (unfold zlen; lia).
  assert (HwM : word_is M a word) by (unfold word_is, M in *; rewrite sub_app_l by lia; exact Hw).
  destruct (read_near_list true M a (zlen D) 6 n 1 ltac:(lia) Hlen Ha Ham ltac:(lia) ltac:(unfold BOUND in *; lia) Z0 Hi1) as (rl' & RR).
  - cbv zeta. rewrite (elementSize_raw 6 n) by lia. change (6 =? 1) with false. cbv iota.
    change (totalSize (es_of 6)) with 8. lia.
  - exact HwM.
  - lia.
  - cbv zeta in RR. rewrite (elementSize_raw 6 n) in RR by lia. change (6 =? 1) with false in RR. cbv iota in RR.
    change (es_of 6) with (mkOS 0 1) in RR.
    set (q := mkPtr true 0 (zlen D) n (mkOS 0 1) (uint_dec 1) KList false false false) in *.
    exists 1, 4294967288, q, rl'. split; [exact RR|]. intros mid caps.
    assert (EM : M = (pre' ++ bytes_of_words words) ++ kids ++ tail) by (unfold M; rewrite <- !app_assoc; reflexivity).
    assert (Hblock : sub (pre' ++ bytes_of_words words) (zlen D) (8 * Z.of_nat (Z.to_nat n)) = bytes_of_words words).
    { rewrite sub_app_r by lia. rewrite Lp', Z.sub_diag. unfold sub. cbn [Z.to_nat skipn]. apply firstn_all2.
      rewrite bow_length. lia. }
    apply den_ptrs; try reflexivity; try assumption.
    intros i Hi0. cbn [q p_len] in Hi0.
    destruct (K i Hi0) as (dep & rlk & q0 & rlk' & vi & RK & DK & Evi).
    pose proof (PostL (pre' ++ bytes_of_words words) tail ltac:(rewrite zlen_app, Lbw, L1; lia) Hblock i ltac:(lia)) as R.
    unfold P in R. rewrite <- EM in R. specialize (R Hbound).
    destruct R as (dep1 & rl1 & q1 & rl1' & R1 & D1').
    exists dep1, rl1, q1, rl1', vi. cbn [q p_seg p_off]. unfold seg_of. cbn [p_seg Z.to_nat nth].
    split; [exact R1|]. split; [|exact Evi]. rewrite Evi in D1'. cbn [sptrs nthv Z.to_nat nth] in D1'. exact (D1' mid caps).
Qed.

(* den of a struct of the single segment M from its block: data words and pointer slots *)

End Copy.
