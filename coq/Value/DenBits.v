(* Bit lists: the repaired comparison of Equal is equality of the bits. *)
From CV Require Import Value.ValueEq Value.ValueEqProofs Value.EqualM Value.Den Value.DenFacts.
From CV Require Import Core.ReaderFacts.
From Coq Require Import ZifyBool ZifyNat.
Ltac Zify.zify_post_hook ::= Z.div_mod_to_equations.
Open Scope Z_scope.

Lemma In_iota k a : In a (iota k) <-> 0 <= a < Z.of_nat k.
Proof.
  unfold iota. rewrite in_map_iff. split.
  - intros (j & <- & Hj). apply in_seq in Hj. lia.
  - intros H. exists (Z.to_nat a). split; [lia|]. apply in_seq. lia.
Qed.

Lemma bits_of_eq k d1 d2 :
  bools_eqb (bits_of k d1) (bits_of k d2) = true <-> forall i, 0 <= i < Z.of_nat k -> bit_at d1 i = bit_at d2 i.
Proof.
  rewrite bools_eqb_eq. unfold bits_of. rewrite map_ext_in_iff. split; intros H i Hi; apply H; apply In_iota; assumption.
Qed.

Lemma byte_high_bits a t : 0 <= a < 256 -> 8 <= t -> Z.testbit a t = false.
Proof.
  intros Ha Ht. rewrite <- (Z.mod_small a (2 ^ 8)) by (change (2 ^ 8) with 256; lia).
  apply Z.mod_pow2_bits_high. lia.
Qed.

Lemma byte_bits_inj a b : 0 <= a < 256 -> 0 <= b < 256 ->
  (forall t, 0 <= t < 8 -> Z.testbit a t = Z.testbit b t) -> a = b.
Proof.
  intros Ha Hb H. apply Z.bits_inj'. intros t Ht. destruct (Z.lt_ge_cases t 8) as [L|L].
  - apply H. lia.
  - rewrite !byte_high_bits by lia. reflexivity.
Qed.

Lemma bit_at_split d j t : 0 <= j -> 0 <= t < 8 -> bit_at d (8 * j + t) = Z.testbit (nth (Z.to_nat j) d 0) t.
Proof.
  intros Hj Ht. unfold bit_at. replace ((8 * j + t) / 8) with j by lia. replace ((8 * j + t) mod 8) with t by lia.
  reflexivity.
Qed.

Lemma nth_firstn {A} (d : A) : forall k j l, (j < k)%nat -> nth j (firstn k l) d = nth j l d.
Proof.
  induction k as [|k IH]; intros j l H; [lia|]. destruct l as [|x r]; [destruct j; reflexivity|].
  destruct j; cbn; [reflexivity| apply IH; lia].
Qed.

Lemma nth_bytes_ok d j : bytes_ok d -> 0 <= nth j d 0 < 256.
Proof. intros H. apply (byte_at_range d j H). Qed.

Lemma bits_equal_iff d1 d2 n : bytes_ok d1 -> bytes_ok d2 -> 0 <= n ->
  zlen d1 = (n + 7) / 8 -> zlen d2 = (n + 7) / 8 ->
  (bits_equal d1 d2 n = true <-> forall i, 0 <= i < n -> bit_at d1 i = bit_at d2 i).
Proof.
  intros B1 B2 Hn L1 L2. unfold bits_equal. cbv zeta. unfold zlen in L1, L2.
  destruct (n mod 8 =? 0) eqn:Er.
  - (* whole bytes *)
    rewrite bytes_eqb_eq. split; [intros ->; reflexivity|].
    intros H. apply (nth_ext _ _ 0 0); [lia|]. intros j Hj.
    apply byte_bits_inj; try (apply nth_bytes_ok; assumption).
    intros t Ht. rewrite <- (Nat2Z.id j), <- !bit_at_split by lia. apply H. lia.
  - (* a partial last byte *)
    set (j0 := (length d1 - 1)%nat).
    assert (Ej0 : Z.of_nat j0 = n / 8) by lia.
    replace (length d1 - 1)%nat with j0 by reflexivity.
    rewrite andb_true_iff, Z.eqb_eq, bytes_eqb_eq. split.
    + intros [Hl Hf] i Hi. unfold bit_at.
      destruct (Z.lt_ge_cases (i / 8) (n / 8)) as [Lt|Ge].
      * assert (E : nth (Z.to_nat (i / 8)) d1 0 = nth (Z.to_nat (i / 8)) d2 0).
        { rewrite <- (nth_firstn 0 j0 _ d1), <- (nth_firstn 0 j0 _ d2) by lia. rewrite Hf. reflexivity. }
        rewrite E. reflexivity.
      * assert (Ei : Z.to_nat (i / 8) = j0) by lia. rewrite Ei.
        rewrite <- (Z.mod_pow2_bits_low (nth j0 d1 0) (n mod 8)) by lia.
        rewrite <- (Z.mod_pow2_bits_low (nth j0 d2 0) (n mod 8)) by lia.
        rewrite Hl. reflexivity.
    + intros H. split.
      * apply Z.bits_inj'. intros t Ht. destruct (Z.lt_ge_cases t (n mod 8)) as [Lt|Ge].
        -- rewrite !Z.mod_pow2_bits_low by lia. rewrite <- (Nat2Z.id j0), <- !bit_at_split by lia. apply H. lia.
        -- rewrite !Z.mod_pow2_bits_high by lia. reflexivity.
      * apply (nth_ext _ _ 0 0); [rewrite !firstn_length; lia|]. intros j Hj. rewrite firstn_length in Hj.
        rewrite !nth_firstn by lia.
        apply byte_bits_inj; try (apply nth_bytes_ok; assumption).
        intros t Ht. rewrite <- (Nat2Z.id j), <- !bit_at_split by lia. apply H. lia.
Qed.

Lemma bits_equal_spec d1 d2 n : bytes_ok d1 -> bytes_ok d2 -> 0 <= n ->
  zlen d1 = (n + 7) / 8 -> zlen d2 = (n + 7) / 8 ->
  bits_equal d1 d2 n = bools_eqb (bits_of (Z.to_nat n) d1) (bits_of (Z.to_nat n) d2).
Proof.
  intros. apply eq_true_iff_eq. rewrite bits_equal_iff by assumption. rewrite bits_of_eq.
  rewrite Z2Nat.id by assumption. reflexivity.
Qed.
