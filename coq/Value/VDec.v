(* An executable decoder of the value a pointer denotes, mirroring [den] constructor by
   constructor (data through slice, children through readPtr with a generous budget and depth,
   list elements through their struct view).  VDecProofs.v: vdec is sound for den, so the
   value the correspondence harness evaluates value_eq on IS the value of theorem
   C17_equal_m_correct.  No proofs in this file. *)
From CV Require Export Value.Den.
Open Scope Z_scope.

Definition big_rl := 4611686018427387904.      (* 2^62 *)
Definition big_depth := 4611686018427387904.

Fixpoint all_opt {A} (l : list (option A)) : option (list A) :=
  match l with
  | [] => Some []
  | Some a :: r => match all_opt r with Some t => Some (a :: t) | None => None end
  | None :: _ => None
  end.

Definition wf_size_b (sz : ObjectSize) : bool :=
  (0 <=? DataSize sz) && (DataSize sz <=? 524280) && (0 <=? PointerCount sz) && (PointerCount sz <? 65536).

Definition prim_width_b (w : Z) : bool := (w =? 0) || (w =? 1) || (w =? 2) || (w =? 4) || (w =? 8).

(* [lcap]: lists longer than this are not decoded (the walker's cap; keeps void lists finite) *)
Fixpoint vdec (fuel : nat) (lcap : Z) (m : segs) (mid : Z) (caps : list Z) (p : Ptr) {struct fuel} : option value :=
  match fuel with
  | O => None
  | S f =>
    if negb (p_valid p) then Some VNull else
    let child (a : Z) : option value :=
      match readPtr true m big_rl (p_seg p) (seg_of m p) a big_depth with
      | (Ok q, _) => vdec f lcap m mid caps q
      | _ => None
      end in
    match p_kind p with
    | KIface => if 0 <=? p_len p then Some (VCap (mk_capv mid caps (p_len p))) else None
    | KStruct =>
      if negb (wf_size_b (p_size p)) then None else
      match slice (seg_of m p) (p_off p) (DataSize (p_size p)) with
      | Ok d =>
        match all_opt (map (fun i => child (pointerAddress p i)) (iota (Z.to_nat (PointerCount (p_size p))))) with
        | Some vs => Some (VStruct (words_of_bytes d) vs)
        | None => None
        end
      | _ => None
      end
    | KList =>
      if (p_len p <? 0) || (p_len p >? lcap) || (p_len p >=? 536870912) then None else
      let n := Z.to_nat (p_len p) in
      if p_bit p then
        match slice (seg_of m p) (p_off p) (bitListSize (p_len p)) with
        | Ok d => Some (VBits (bits_of n d))
        | _ => None
        end
      else if p_comp p then
        if negb (wf_size_b (p_size p)) then None else
        match all_opt (map (fun i => vdec f lcap m mid caps (elem_ptr p i)) (iota n)) with
        | Some vs => Some (VList LComp vs)
        | None => None
        end
      else if os_eqb (p_size p) (mkOS 0 1) then
        match all_opt (map (fun i => match child (p_off p + 8 * i) with
                                     | Some v => Some (VStruct [] [v])
                                     | None => None
                                     end) (iota n)) with
        | Some vs => Some (VList LPtr vs)
        | None => None
        end
      else if (PointerCount (p_size p) =? 0) && prim_width_b (DataSize (p_size p)) then
        let w := DataSize (p_size p) in
        match all_opt (map (fun i => match slice (seg_of m p) (p_off p + i * w) w with
                                     | Ok d => Some (VStruct (words_of_bytes d) [])
                                     | _ => None
                                     end) (iota n)) with
        | Some vs => Some (VList (kind_of_width w) vs)
        | None => None
        end
      else None
    end
  end.
