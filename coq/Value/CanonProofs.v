(* Spec-level theorems about the canonical form (C18 [T1]), part 1: the truncation stage.
     norm_unique   equal values (schema-level equality) have ONE normal form
     norm_veq      the normal form is equal to the value
     norm_idem     normalising twice changes nothing
   and their consequences for [canon]. *)
From CV Require Import Value.ValueEq Value.ValueEqProofs Value.CanonSpec.
Open Scope Z_scope.

Lemma is_null_norm : forall v, is_null (norm v) = is_null v.
Proof. destruct v; try reflexivity. destruct k; reflexivity. Qed.

Lemma is_null_eq : forall v, is_null v = true -> v = VNull.
Proof. destruct v; cbn; intros H; try discriminate; reflexivity. Qed.

Lemma veq_null_l : forall u y, veq u VNull y = is_null y.
Proof. destruct y; reflexivity. Qed.

(* ------------------------------------------------------------------ strip0 / stripN *)
Lemma all_zero_cons : forall x r, all_zero (x :: r) = (0 =? x) && all_zero r.
Proof. reflexivity. Qed.

Lemma strip0_all_zero : forall l, all_zero l = true -> strip0 l = [].
Proof.
  induction l as [|x r IH]; intros H; [reflexivity|].
  rewrite all_zero_cons in H. apply andb_prop in H. destruct H as [H1 H2].
  cbn [strip0]. rewrite (IH H2). apply Z.eqb_eq in H1. subst x. reflexivity.
Qed.

Lemma data_eq_strip0 : forall a b, data_eq a b = true -> strip0 a = strip0 b.
Proof.
  induction a as [|x r IH]; intros b H.
  - cbn [data_eq] in H. rewrite (strip0_all_zero _ H). reflexivity.
  - destruct b as [|y s].
    + cbn [data_eq] in H. rewrite (strip0_all_zero (x :: r) H). reflexivity.
    + cbn [data_eq] in H. apply andb_prop in H. destruct H as [H1 H2].
      apply Z.eqb_eq in H1. subst y. cbn [strip0]. rewrite (IH s H2). reflexivity.
Qed.

Lemma stripN_all_null : forall l, forallb is_null l = true -> stripN (map norm l) = [].
Proof.
  induction l as [|x r IH]; cbn; intros H; [reflexivity|].
  apply andb_prop in H. destruct H as [H1 H2]. rewrite (IH H2), is_null_norm, H1. reflexivity.
Qed.

Definition uniq_at (x : value) : Prop :=
  forall b, nocap x = true -> veq false x b = true -> norm x = norm b.

Lemma ptrs_eq_stripN : forall p1, Forall uniq_at p1 -> forallb nocap p1 = true ->
  forall p2, ptrs_eq false p1 p2 = true -> stripN (map norm p1) = stripN (map norm p2).
Proof.
  induction 1 as [|x r Hx Hr IH]; intros Hc p2 Hp.
  - cbn in Hp. rewrite (stripN_all_null _ Hp). reflexivity.
  - cbn in Hc. apply andb_prop in Hc. destruct Hc as [Hcx Hcr].
    destruct p2 as [|y s]; cbn in Hp; apply andb_prop in Hp; destruct Hp as [H1 H2].
    + rewrite ptrs_eq_nil_r in H2. cbn [map stripN].
      rewrite (stripN_all_null r H2), is_null_norm, H1. reflexivity.
    + cbn [map stripN]. rewrite (Hx _ Hcx H1), (IH Hcr _ H2). reflexivity.
Qed.

Lemma elems_eq_map_norm : forall e1, Forall uniq_at e1 -> forallb nocap e1 = true ->
  forall e2, elems_eq false e1 e2 = true -> map norm e1 = map norm e2.
Proof.
  induction 1 as [|x r Hx Hr IH]; intros Hc e2 He.
  - destruct e2; [reflexivity|discriminate].
  - cbn in Hc. apply andb_prop in Hc. destruct Hc as [Hcx Hcr].
    destruct e2 as [|y s]; cbn in He; [discriminate|].
    apply andb_prop in He. destruct He as [H1 H2].
    cbn. rewrite (Hx _ Hcx H1), (IH Hcr _ H2). reflexivity.
Qed.

(* ------------------------------------------------------------------ one normal form *)
Theorem norm_unique : forall a b, nocap a = true -> veq false a b = true -> norm a = norm b.
Proof.
  induction a using value_ind2; intros b Hc Hab; destruct b; try discriminate.
  - reflexivity.
  - rewrite veq_struct in Hab. apply andb_prop in Hab. destruct Hab as [Hd Hp].
    cbn [norm]. f_equal.
    + apply data_eq_strip0. exact Hd.
    + apply ptrs_eq_stripN; [exact H| exact Hc | exact Hp].
  - rewrite veq_list in Hab. apply andb_prop in Hab. destruct Hab as [Hk He].
    unfold kinds_compat in Hk. cbn in Hk. rewrite orb_false_r in Hk.
    apply lkind_eqb_eq in Hk. subst k0.
    cbn [norm]. rewrite (elems_eq_map_norm es H Hc _ He). reflexivity.
  - cbn in Hab. apply bools_eqb_eq in Hab. subst. reflexivity.
Qed.

(* ------------------------------------------------------------------ the normal form is equal *)
Lemma all_zero_app : forall a b, all_zero (a ++ b) = all_zero a && all_zero b.
Proof. intros. unfold all_zero. apply forallb_app. Qed.

Lemma all_zero_repeat : forall k, all_zero (repeat 0 k) = true.
Proof. induction k; cbn; [reflexivity| exact IHk]. Qed.

Lemma data_eq_nil_l : forall d, data_eq [] d = all_zero d.
Proof. destruct d; reflexivity. Qed.

Lemma data_eq_zeros_l : forall k d, data_eq (repeat 0 k) d = all_zero d.
Proof.
  induction k as [|k IH]; intros d; [apply data_eq_nil_l|].
  destruct d as [|y s]; cbn [repeat data_eq].
  - apply (all_zero_repeat (S k)).
  - rewrite IH. reflexivity.
Qed.

Lemma data_eq_app_zeros : forall l k d, data_eq (l ++ repeat 0 k) d = data_eq l d.
Proof.
  induction l as [|x r IH]; intros k d.
  - cbn [app]. rewrite data_eq_zeros_l. destruct d; reflexivity.
  - destruct d as [|y s]; cbn [app data_eq].
    + rewrite !all_zero_cons, all_zero_app, all_zero_repeat, andb_true_r. reflexivity.
    + rewrite IH. reflexivity.
Qed.

Lemma data_eq_cons : forall x r y s, data_eq (x :: r) (y :: s) = (x =? y) && data_eq r s.
Proof. reflexivity. Qed.

Lemma data_eq_strip0_self : forall d, data_eq (strip0 d) d = true.
Proof.
  induction d as [|x r IH]; [reflexivity|].
  cbn [strip0]. destruct (strip0 r) eqn:E.
  - rewrite data_eq_nil_l in IH.
    destruct (x =? 0) eqn:Ex.
    + apply Z.eqb_eq in Ex. subst x. change (all_zero (0 :: r) = true).
      rewrite all_zero_cons, IH. reflexivity.
    + change (((x =? x) && all_zero r) = true). rewrite Z.eqb_refl, IH. reflexivity.
  - rewrite data_eq_cons, Z.eqb_refl, IH. reflexivity.
Qed.

Lemma forallb_null_repeat : forall k, forallb is_null (repeat VNull k) = true.
Proof. induction k; cbn; [reflexivity| exact IHk]. Qed.

Lemma ptrs_eq_nulls_l : forall u k d, ptrs_eq u (repeat VNull k) d = forallb is_null d.
Proof.
  induction k as [|k IH]; intros d; [reflexivity|].
  destruct d as [|y s]; cbn [repeat ptrs_eq].
  - rewrite ptrs_eq_nil_r. cbn [is_null andb]. apply forallb_null_repeat.
  - rewrite IH, veq_null_l. reflexivity.
Qed.

Lemma ptrs_eq_app_nulls : forall u l k d, ptrs_eq u (l ++ repeat VNull k) d = ptrs_eq u l d.
Proof.
  induction l as [|x r IH]; intros k d.
  - cbn [app]. rewrite ptrs_eq_nulls_l. reflexivity.
  - destruct d as [|y s]; cbn [app ptrs_eq].
    + rewrite !ptrs_eq_nil_r, forallb_app, forallb_null_repeat, andb_true_r. reflexivity.
    + rewrite IH. reflexivity.
Qed.

Definition same_at (p : value) : Prop := wfv p = true -> veq false (norm p) p = true.

Lemma ptrs_eq_stripN_self : forall ps, Forall same_at ps -> forallb wfv ps = true ->
  ptrs_eq false (stripN (map norm ps)) ps = true.
Proof.
  induction 1 as [|x r Hx Hr IH]; intros Hw; [reflexivity|].
  cbn in Hw. apply andb_prop in Hw. destruct Hw as [Hwx Hwr].
  specialize (IH Hwr). specialize (Hx Hwx).
  cbn [map stripN]. destruct (stripN (map norm r)) eqn:E.
  - cbn in IH. destruct (is_null (norm x)) eqn:En.
    + cbn. rewrite <- is_null_norm, En. exact IH.
    + cbn. rewrite Hx. exact IH.
  - cbn. rewrite Hx. exact IH.
Qed.

Lemma elems_eq_map : forall (f : value -> value) es,
  (forall e, In e es -> veq false (f (norm e)) e = true) ->
  elems_eq false (map f (map norm es)) es = true.
Proof.
  induction es as [|x r IH]; intros H; [reflexivity|].
  cbn. rewrite (H x (or_introl eq_refl)). cbn. apply IH. intros e He. apply H. right. exact He.
Qed.

Lemma hd_word_strip1 : forall v, hd_word (strip0 [v]) = v.
Proof. intros v. cbn [strip0]. destruct (v =? 0) eqn:E; [apply Z.eqb_eq in E; subst|]; reflexivity. Qed.

Theorem norm_veq : forall v, wfv v = true -> veq false (norm v) v = true.
Proof.
  induction v using value_ind2; intros Hw; try reflexivity.
  - apply cap_eq_refl.
  - cbn [norm]. rewrite veq_struct, data_eq_strip0_self. cbn.
    apply ptrs_eq_stripN_self; [exact H | exact Hw].
  - cbn [wfv] in Hw. rewrite forallb_forall in Hw. rewrite Forall_forall in H.
    destruct k; cbn [norm]; rewrite veq_list; unfold kinds_compat; cbn [lkind_eqb orb andb].
    + (* void *)
      apply elems_eq_map. intros e He. specialize (Hw e He).
      destruct e as [| |d ps| |]; try discriminate. destruct d; [|discriminate]. destruct ps; [|discriminate].
      reflexivity.
    + apply elems_eq_map. intros e He. specialize (Hw e He).
      destruct e as [| |d ps| |]; try discriminate. destruct d as [|v [|]]; try discriminate.
      destruct ps; [|discriminate]. cbn [norm sdata map stripN]. rewrite hd_word_strip1. apply veq_refl.
    + apply elems_eq_map. intros e He. specialize (Hw e He).
      destruct e as [| |d ps| |]; try discriminate. destruct d as [|v [|]]; try discriminate.
      destruct ps; [|discriminate]. cbn [norm sdata map stripN]. rewrite hd_word_strip1. apply veq_refl.
    + apply elems_eq_map. intros e He. specialize (Hw e He).
      destruct e as [| |d ps| |]; try discriminate. destruct d as [|v [|]]; try discriminate.
      destruct ps; [|discriminate]. cbn [norm sdata map stripN]. rewrite hd_word_strip1. apply veq_refl.
    + apply elems_eq_map. intros e He. specialize (Hw e He).
      destruct e as [| |d ps| |]; try discriminate. destruct d as [|v [|]]; try discriminate.
      destruct ps; [|discriminate]. cbn [norm sdata map stripN]. rewrite hd_word_strip1. apply veq_refl.
    + (* pointer list *)
      apply elems_eq_map. intros e He. specialize (Hw e He). specialize (H e He).
      destruct e as [| |d ps| |]; try discriminate. destruct d; [|discriminate].
      destruct ps as [|p [|]]; try discriminate.
      assert (Hwe : wfv (VStruct [] [p]) = true) by (cbn; rewrite Hw; reflexivity).
      specialize (H Hwe). cbn [norm map strip0 stripN sptrs] in *.
      destruct (is_null (norm p)) eqn:En; cbn [hd_ptr].
      * rewrite veq_struct in *. cbn in H. apply andb_prop in H. destruct H as [H _].
        apply is_null_eq in H. subst p. reflexivity.
      * exact H.
    + (* struct list *)
      unfold pad_elems. apply elems_eq_map. intros e He. specialize (Hw e He). specialize (H e He).
      destruct e as [| |d ps| |]; try discriminate.
      specialize (H Hw). cbn [norm sdata sptrs] in *. unfold pad0, padN.
      rewrite veq_struct in *. rewrite data_eq_app_zeros, ptrs_eq_app_nulls. exact H.
  - cbn. apply bools_eqb_refl.
Qed.

Theorem norm_idem : forall v, wfv v = true -> nocap (norm v) = true -> norm (norm v) = norm v.
Proof. intros v Hw Hc. apply norm_unique; [exact Hc | apply norm_veq; exact Hw]. Qed.

(* ------------------------------------------------------------------ consequences for canon *)
(* layout / version independence: equal values have the same canonical bytes *)
Theorem canon_unique : forall a b, nocap a = true -> value_eqs a b = true -> canon a = canon b.
Proof.
  intros a b Hc Hab. unfold canon, canon_words. rewrite (norm_unique a b Hc Hab). reflexivity.
Qed.

Theorem canon_norm : forall v, wfv v = true -> nocap (norm v) = true -> canon (norm v) = canon v.
Proof. intros v Hw Hc. unfold canon, canon_words. rewrite (norm_idem v Hw Hc). reflexivity. Qed.

(* the output is one word-aligned segment *)
Lemma le_encode_length : forall n v, length (le_encode n v) = n.
Proof. induction n; intros; cbn; [reflexivity| rewrite IHn; reflexivity]. Qed.

Lemma bytes_of_words_length : forall ws, length (bytes_of_words ws) = (8 * length ws)%nat.
Proof.
  induction ws as [|w r IH]; [reflexivity|].
  unfold bytes_of_words in *. cbn [flat_map]. rewrite app_length, IH, le_encode_length. cbn [length]. lia.
Qed.

Theorem canon_aligned : forall v bs, canon v = Some bs ->
  (length bs mod 8 = 0)%nat /\ (8 <= length bs)%nat.
Proof.
  intros v bs. unfold canon. destruct (canon_words v) as [ws| | |] eqn:E; try discriminate.
  intros H. inversion H; subst. rewrite bytes_of_words_length. split.
  - rewrite Nat.mul_comm. apply Nat.mod_mul. discriminate.
  - unfold canon_words in E. destruct (enc _ _ _ _) as [[w body]| | |]; try discriminate.
    cbn in E. inversion E; subst. cbn [length]. lia.
Qed.
