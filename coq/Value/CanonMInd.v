(* C18 [T2]: the induction on depth.  Q_ptr f: canonicalPtr with fuel f appends the canonical
   bytes of the value (snd (enc (norm v))) at the end of the segment and returns a pointer whose
   word, wherever it is stored, is fst (enc (norm v)).  Q_fill: fillCanonicalStruct writes the
   block (data words, pointer words) and appends the children in pointer order = enc_cells.
   No domain restriction: a capability makes canonicalPtr fail, so the hypothesis 'returns KOk'
   already excludes values containing one. *)
From CV Require Import Value.ValueEq Value.ValueEqProofs Value.EqualM Value.Den Value.DenFacts Value.DenLists
                       Value.CanonSpec Value.CanonProofs Value.CanonProofs3 Value.CanonM Value.CanonMStruct
                       Value.CanonMWords Value.CanonMData Value.CanonMHeap Value.CanonMLoop Value.CanonSafe Value.EqualProofs Value.CanonMProofs.
From CV Require Import Core.ReaderFacts Core.SafetyProofs Core.BuilderFacts Core.ArithFacts Core.CopySafe.
From Coq Require Import ZifyBool ZifyNat.
Ltac Zify.zify_post_hook ::= Z.div_mod_to_equations.
Open Scope Z_scope.

Definition aligned (p : Ptr) : Prop := p_kind p = KStruct -> DataSize (p_size p) mod 8 = 0.

(* struct pointers handed out by readPtr have word-aligned data sections *)
Lemma readPtr_aligned strict m rl sid s a dep q rl' :
  readPtr strict m rl sid s a dep = (Ok q, rl') -> aligned q.
Proof.
  unfold readPtr. destruct (resolveFarPointer strict m sid s a) as [[[[dsid dst] base] val]| |]; try discriminate.
  destruct (val =? 0); [intros H; inversion H; subst; intros K; reflexivity|].
  destruct (dep =? 0); [discriminate|]. cbv zeta.
  destruct (pointerType val =? structPointer).
  { unfold readStructPtr. destruct (element base (ptr_offset val) 8); [|discriminate].
    destruct (negb (regionInBounds dst z (totalSize (structSize val)))); [discriminate|].
    unfold canRead, struct_readSize. cbn [p_valid p_size]. destruct (rl >=? totalSize (structSize val)); [|discriminate].
    intros H. inversion H; subst. intros _. cbn [p_size]. rewrite structSize_data. lia. }
  destruct (pointerType val =? listPointer).
  { destruct (readListPtr strict dsid dst base val) as [lp| |]; try discriminate.
    unfold canRead. destruct (rl >=? list_readSize lp); [|discriminate].
    intros H. inversion H; subst. intros K. discriminate K. }
  destruct (pointerType val =? otherPointer); [|discriminate].
  destruct (negb (otherPointerType val =? 0)); [discriminate|].
  intros H. inversion H; subst. intros K. discriminate K.
Qed.


(* composite lists handed out by readPtr have word-aligned element data sections (tag word) *)
Definition caligned (p : Ptr) : Prop := p_comp p = true -> DataSize (p_size p) mod 8 = 0 /\ p_bit p = false.

Lemma readListPtr_caligned strict sid s base val lp : readListPtr strict sid s base val = Ok lp -> caligned lp.
Proof.
  unfold readListPtr. destruct (element base (ptr_offset val) 8); [|discriminate].
  destruct (totalListSize val) as [[lsize|]|]; try discriminate.
  destruct (negb (regionInBounds s z lsize)); [discriminate|]. cbv zeta.
  destruct (listType val =? 7).
  - destruct (readRawPointer s z) as [hdr| |]; try discriminate. cbn [bind].
    destruct (addSize z 8); [|discriminate].
    destruct (negb (pointerType hdr =? structPointer)); [discriminate|].
    destruct (strict && (s32 (ptr_offset hdr) <? 0)); [discriminate|].
    destruct (times (totalSize (structSize hdr)) (s32 (ptr_offset hdr))); [|discriminate].
    destruct (negb (regionInBounds s z0 z1)); [discriminate|].
    intros H. inversion H; subst. intros _. cbn [p_size p_bit]. rewrite structSize_data. split; [lia|reflexivity].
  - destruct (listType val =? 1).
    + intros H. inversion H; subst. intros K. discriminate K.
    + destruct (elementSize val); [|discriminate]. intros H. inversion H; subst. intros K. discriminate K.
Qed.

Lemma readPtr_caligned strict m rl sid s a dep q rl' :
  readPtr strict m rl sid s a dep = (Ok q, rl') -> caligned q.
Proof.
  unfold readPtr. destruct (resolveFarPointer strict m sid s a) as [[[[dsid dst] base] val]| |]; try discriminate.
  destruct (val =? 0); [intros H; inversion H; subst; intros K; discriminate K|].
  destruct (dep =? 0); [discriminate|]. cbv zeta.
  destruct (pointerType val =? structPointer).
  { unfold readStructPtr. destruct (element base (ptr_offset val) 8); [|discriminate].
    destruct (negb (regionInBounds dst z (totalSize (structSize val)))); [discriminate|].
    unfold canRead, struct_readSize. cbn [p_valid p_size]. destruct (rl >=? totalSize (structSize val)); [|discriminate].
    intros H. inversion H; subst. intros K. discriminate K. }
  destruct (pointerType val =? listPointer).
  { destruct (readListPtr strict dsid dst base val) as [lp| |] eqn:EL; try discriminate.
    unfold canRead. destruct (rl >=? list_readSize lp); [|discriminate].
    intros H. inversion H; subst. pose proof (readListPtr_caligned _ _ _ _ _ _ EL) as C. intros K. cbn [p_comp p_size p_bit] in *. apply C. exact K. }
  destruct (pointerType val =? otherPointer); [|discriminate].
  destruct (negb (otherPointerType val =? 0)); [discriminate|].
  intros H. inversion H; subst. intros K. discriminate K.
Qed.

(* ------------------------------------------------------------------ helpers *)
Lemma seg_write_slots data cap A ws : 0 <= A -> A + 8 * zlen ws <= zlen data -> zlen data < 4294967296 ->
  seg_write (seg0 data cap) 0 A (bytes_of_words ws) = Ok (seg0 (set_slots data A ws) cap).
Proof.
  intros HA Hb Hl. unfold seg_write. change (get_seg (seg0 data cap) 0) with (mkBS data cap).
  unfold addSizeUnchecked, u32, blen. cbn [bs_data bs_cap].
  assert (Lb : zlen (bytes_of_words ws) = 8 * zlen ws) by (unfold zlen; rewrite bow_length; lia).
  assert (Z0 : 0 <= zlen ws) by (unfold zlen; lia). assert (Z1 : 0 <= zlen data) by (unfold zlen; lia).
  rewrite Lb. replace ((A + 8 * zlen ws) mod 4294967296) with (A + 8 * zlen ws) by lia.
  destruct ((0 <=? A) && (A <=? A + 8 * zlen ws) && (A + 8 * zlen ws <=? zlen data)) eqn:E; [|lia].
  unfold put_seg, seg0, set_slots, write_bytes. cbn [bm_arena bm_segs bm_caps bm_rl set_nth Z.to_nat].
  rewrite bow_length. reflexivity.
Qed.

Lemma set_slots_app data A w1 w2 : 0 <= A -> A + 8 * zlen (w1 ++ w2) <= zlen data ->
  set_slots (set_slots data A w1) (A + 8 * zlen w1) w2 = set_slots data A (w1 ++ w2).
Proof.
  intros HA Hb. unfold zlen in Hb. rewrite app_length in Hb.
  set (P := firstn (Z.to_nat A) data). set (M := bytes_of_words w1).
  set (R := skipn (Z.to_nat A + 8 * length w1) data).
  assert (LP : length P = Z.to_nat A) by (unfold P; rewrite firstn_length; lia).
  assert (LM : length M = (8 * length w1)%nat) by (unfold M; apply bow_length).
  assert (EX : set_slots data A w1 = (P ++ M) ++ R) by (unfold set_slots; fold P M R; apply app_assoc).
  assert (EB : Z.to_nat (A + 8 * zlen w1) = length (P ++ M)) by (rewrite app_length, LP, LM; unfold zlen; lia).
  unfold set_slots at 1. rewrite EX, EB, firstn_app_exact.
  assert (ES : skipn (length (P ++ M) + 8 * length w2) ((P ++ M) ++ R) = skipn (8 * length w2) R).
  { rewrite skipn_app. rewrite (skipn_all2 (P ++ M)) by lia. cbn [app]. f_equal. lia. }
  rewrite ES. unfold R. rewrite <- skipn_add.
  unfold set_slots. fold P. rewrite bow_app. fold M. rewrite <- !app_assoc. f_equal. f_equal. f_equal. f_equal.
  rewrite app_length. lia.
Qed.

Lemma put_word_app_left d t a w : 0 <= a -> a + 8 <= zlen d -> put_word (d ++ t) a w = put_word d a w ++ t.
Proof.
  intros Ha Hb. unfold put_word, zlen in *. rewrite firstn_app, skipn_app.
  replace (Z.to_nat a - length d)%nat with 0%nat by lia.
  replace (Z.to_nat a + 8 - length d)%nat with 0%nat by lia.
  change (firstn 0 t) with (@nil Z). change (skipn 0 t) with t. rewrite app_nil_r, <- !app_assoc. reflexivity.
Qed.

Lemma pointerAddress_eq p i : 0 <= p_off p -> 0 <= DataSize (p_size p) -> 0 <= i ->
  p_off p + DataSize (p_size p) + 8 * i <= 4294967288 ->
  pointerAddress p i = p_off p + DataSize (p_size p) + 8 * i.
Proof.
  intros Ho Hd Hi Hb. unfold pointerAddress.
  destruct (addSize (p_off p) (DataSize (p_size p))) as [ps|] eqn:Ea.
  - apply addSize_spec in Ea. destruct Ea as [-> _]. destruct (element _ i 8) as [x|] eqn:Ee.
    + apply element_spec in Ee. lia.
    + apply element_none in Ee. unfold maxSegmentSize in Ee. lia.
  - apply addSize_none in Ea. unfold maxSegmentSize in Ea. lia.
Qed.

Lemma firstn_bytes_words d k : bytes_ok d -> (length d mod 8 = 0)%nat ->
  firstn (8 * k) d = bytes_of_words (firstn k (words_of_bytes d)).
Proof. intros Hb Hl. rewrite bow_firstn, (bow_wob d Hb Hl). reflexivity. Qed.


Lemma vdepth_in_fold_max p ps : In p ps -> (vdepth p <= fold_right (fun p m => Nat.max (vdepth p) m) O ps)%nat.
Proof.
  induction ps as [|y r IH]; [intros []|]. intros [->|H]; cbn [fold_right]; [lia|]. specialize (IH H). lia.
Qed.

Lemma stripN_firstn l : stripN l = firstn (length (stripN l)) l.
Proof.
  induction l as [|y r IH]; [reflexivity|]. cbn [stripN]. destruct (stripN r) eqn:E.
  - destruct (is_null y); reflexivity.
  - cbn [length] in *. change (firstn (S (S (length l))) (y :: r)) with (y :: firstn (S (length l)) r).
    f_equal. exact IH.
Qed.

Lemma stripN_map_norm_length vs : length (stripN (map norm vs)) = length (stripN vs).
Proof.
  induction vs as [|y r IH]; [reflexivity|]. cbn [map stripN].
  destruct (stripN (map norm r)) eqn:E1; destruct (stripN r) eqn:E2; cbn [length] in IH; try discriminate.
  - rewrite is_null_norm. destruct (is_null y); reflexivity.
  - cbn [length]. lia.
Qed.

Lemma set_slots_end data ws : set_slots (data ++ repeat 0 (8 * length ws)) (zlen data) ws = data ++ bytes_of_words ws.
Proof.
  unfold set_slots, zlen. rewrite Nat2Z.id, firstn_app, Nat.sub_diag, firstn_all. cbn [firstn]. rewrite app_nil_r.
  f_equal. rewrite skipn_all2 by (rewrite app_length, repeat_length; lia). apply app_nil_r.
Qed.


Lemma alloc_bound data cap sz m1 s1 a1 : 0 <= sz <= 4294967288 -> sz mod 8 = 0 ->
  alloc (seg0 data cap) 0 sz = Ok (m1, s1, a1) -> zlen data + sz <= 4294967288.
Proof.
  intros Hs Hmm H. unfold alloc in H. destruct (sz >? maxAllocSize) eqn:E0; [discriminate H|].
  rewrite (padToWord_mult sz) in H by lia.
  change (get_seg (seg0 data cap) 0) with (mkBS data cap) in H.
  destruct (hasCapacity (mkBS data cap) sz) eqn:Hc.
  - cbn [bind] in H. change (get_seg (seg0 data cap) 0) with (mkBS data cap) in H. unfold blen in H. cbn [bs_data bs_cap] in H.
    destruct (addSize (zlen data) sz) eqn:Eas; [|discriminate H]. apply addSize_spec in Eas. unfold maxSegmentSize in Eas. lia.
  - unfold allocSegment in H. rewrite E0 in H. cbn [seg0 bm_arena] in H.
    change (get_seg (seg0 data cap) 0) with (mkBS data cap) in H.
    destruct (negb (blen (mkBS data cap) mod 8 =? 0)); [cbn [bind] in H; discriminate H|]. rewrite Hc in H.
    destruct (nextAlloc (blen (mkBS data cap)) maxAllocSize sz) as [inc| |]; try (cbn [bind] in H; discriminate H).
    cbn [bind bs_data bs_cap] in H.
    change (get_seg (put_seg (seg0 data cap) 0 (mkBS data (cap + inc))) 0) with (mkBS data (cap + inc)) in H.
    unfold blen in H. cbn [bs_data bs_cap] in H.
    destruct (addSize (zlen data) sz) eqn:Eas; [|discriminate H]. apply addSize_spec in Eas. unfold maxSegmentSize in Eas. lia.
Qed.

Section Ind.
Context (c : config) (fx : cfix) (m : segs).
Context (Hstrict : cfg_strict c = true) (Hfx : all_cfixed fx) (Hm : msg_ok m).

(* what canonicalPtr / canonicalList establish: the object's canonical words are appended at the
   end of the segment, and the returned pointer's word, wherever stored, is the specification's *)
Definition Qconcl (data : list Z) (v : value) (w' : world) (cp : Ptr) : Prop :=
  exists body cap' rl',
    w' = dstw (data ++ bytes_of_words body) cap' m rl' /\ hinv (data ++ bytes_of_words body) /\
    cp_shape cp (zlen (data ++ bytes_of_words body)) /\
    forall a F, 0 <= a -> a mod 8 = 0 -> a + 8 <= zlen data -> (vdepth (norm v) <= F)%nat ->
      enc F (norm v) (a / 8) (zlen data / 8) = COk (ptr_word cp a, body).

Definition Q_ptr (f : nat) : Prop := forall data cap rl p v w' cp,
  hinv data -> wf_ptr m p -> aligned p -> caligned p -> den true m 0 [] p v ->
  canonical_ptr c fx f (dstw data cap m rl) 0 p = KOk (w', cp) -> Qconcl data v w' cp.

Definition Q_list (f : nat) : Prop := forall data cap rl p v w' cp,
  hinv data -> wf_ptr m p -> p_valid p = true -> p_kind p = KList -> caligned p -> den true m 0 [] p v ->
  canonical_list c fx f (dstw data cap m rl) 0 p = KOk (w', cp) -> Qconcl data v w' cp.

(* the destination struct of a fill: a struct of segment 0 at byte address A with dn data words
   and pn pointers, inside the segment *)
Definition dst_at (dst : Ptr) (A dn pn : Z) : Prop :=
  p_valid dst = true /\ p_seg dst = 0 /\ p_off dst = A /\ p_size dst = mkOS (8 * dn) pn.

Definition Q_fill (f : nat) : Prop := forall data cap rl dst s ws vs A dn pn w',
  hinv data -> dst_at dst A dn pn -> 0 <= A -> A mod 8 = 0 -> 0 <= dn -> 0 <= pn < 65536 ->
  A + 8 * dn + 8 * pn <= zlen data ->
  p_valid s = true -> p_kind s = KStruct -> wf_ptr m s -> aligned s ->
  den true m 0 [] s (VStruct ws vs) ->
  dn <= zlen ws -> pn <= zlen vs ->
  fill_canonical c fx f (dstw data cap m rl) dst s = KOk w' ->
  exists pwords kids cap' rl',
    zlen pwords = pn /\
    w' = dstw (set_slots data A (firstn (Z.to_nat dn) ws ++ pwords) ++ bytes_of_words kids) cap' m rl' /\
    hinv (data ++ bytes_of_words kids) /\
    forall F, (forall i, 0 <= i < pn -> (vdepth (norm (nthv vs i)) <= F)%nat) ->
      enc_cells (enc F) (map CP (firstn (Z.to_nat pn) (map norm vs))) (A / 8 + dn) (zlen data / 8) = COk (pwords, kids).

Lemma fill_step f : Q_ptr f -> Q_fill (S f).
Proof.
  intros HQ data cap rl dst s ws vs A dn pn w' Hi (Dv & Dseg & Doff & Dsz) HA HAm Hdn Hpn Hb Hv Hk Hwf Hal D Hdw Hpv H.
  destruct Hi as [Hi1 Hi2].
  destruct (den_struct_inv _ _ _ _ _ _ D Hv Hk) as (d & vs0 & Ev & Wz & Sl & Lvs & K).
  inversion Ev; subst ws vs0; clear Ev.
  destruct Wz as [Wd Wp].
  apply slice_eq_sub in Sl as Sl'; [|apply seg_of_ok; assumption| lia]. destruct Sl' as (Ed & B1 & B2).
  assert (Ld : zlen d = DataSize (p_size s)) by (rewrite Ed; apply sub_length; lia).
  assert (Hbd : bytes_ok d) by (eapply slice_bytes_ok; eassumption).
  assert (Hal' : (length d mod 8 = 0)%nat).
  { apply Nat2Z.inj. rewrite Nat2Z.inj_mod. unfold zlen in Ld. rewrite Ld. exact (Hal Hk). }
  pose proof (words_of_bytes_length d) as Lw.
  rewrite fill_canonical_S in H. rewrite Doff, Dsz in H. cbn [DataSize PointerCount] in H.
  replace (dst_seg (dstw data cap m rl) dst) with data in H by (unfold dst_seg; rewrite Dseg; reflexivity).
  change (src_seg (dstw data cap m rl) s) with (seg_of m s) in H.
  assert (Z0 : 0 <= zlen data) by (unfold zlen; lia).
  rewrite slice_ok in H by lia. rewrite Sl in H. cbn [of_res kbind] in H.
  assert (Lsub : length (sub data A (8 * dn)) = Z.to_nat (8 * dn)).
  { apply Nat2Z.inj. change (zlen (sub data A (8 * dn)) = Z.of_nat (Z.to_nat (8 * dn))). rewrite sub_length by lia. lia. }
  rewrite Lsub in H. unfold zlen in Hdw, Ld.
  rewrite Nat.min_l in H by lia.
  replace (Z.to_nat (8 * dn)) with (8 * Z.to_nat dn)%nat in H by lia.
  rewrite (firstn_bytes_words d (Z.to_nat dn) Hbd Hal') in H.
  set (dws := firstn (Z.to_nat dn) (words_of_bytes d)) in *.
  assert (Ldw : zlen dws = dn) by (unfold dws, zlen; rewrite firstn_length; lia).
  unfold lift0 in H. cbn [w_dst dstw] in H. rewrite Dseg in H.
  rewrite seg_write_slots in H by lia. cbn [bind of_res kbind w_set_dst w_src w_src_rl] in H.
  change (mkW (seg0 (set_slots data A dws) cap) m rl) with (dstw (set_slots data A dws) cap m rl) in H.
  assert (Ls1 : zlen (set_slots data A dws) = zlen data).
  { apply set_slots_length; [lia|]. unfold zlen in *. lia. }
  set (data1 := set_slots data A dws) in *.
  set (vals := firstn (Z.to_nat pn) (map norm vs)).
  assert (Lvals : zlen vals = pn) by (unfold vals, zlen in *; rewrite firstn_length, map_length; lia).
  (* the loop *)
  set (step := fun (wa : world) (i : Z) =>
                 let '(r, rl') := struct_ptr c (w_src wa) (w_src_rl wa) s i in
                 let wb := w_set_rl wa InSrc rl' in
                 kbind (of_res r) (fun p0 : Ptr =>
                 kbind (canonical_ptr c fx f wb 0 p0) (fun wc : world * Ptr =>
                 let '(w2, cp) := wc in of_res (struct_set_ptr 4 w2 dst i InDst cp)))) in *.
  set (okF := fun F : nat => forall i, 0 <= i < pn -> (vdepth (norm (nthv vs i)) <= F)%nat).
  assert (Hstep : forall i data0 cap0 rl0 w0, 0 <= i < zlen vals -> hinv data0 -> (A + 8 * dn) + 8 * zlen vals <= zlen data0 ->
            step (dstw data0 cap0 m rl0) i = KOk w0 ->
            exists word body cap' rl',
              w0 = dstw (put_word data0 ((A + 8 * dn) + 8 * i) word ++ bytes_of_words body) cap' m rl' /\
              hinv (data0 ++ bytes_of_words body) /\
              forall F, okF F -> enc F (nth (Z.to_nat i) vals VNull) ((A + 8 * dn) / 8 + i) (zlen data0 / 8) = COk (word, body)).
  { intros i data0 cap0 rl0 w0 Hi0 Hinv0 Hb0 Hs0. unfold step in Hs0. cbn [w_src w_src_rl dstw] in Hs0.
    rewrite (struct_ptr_unfold c m rl0 s i Hv ltac:(unfold zlen in *; lia)) in Hs0. rewrite Hstrict in Hs0.
    destruct (readPtr true m rl0 (p_seg s) (seg_of m s) (pointerAddress s i) (p_depth s)) as [r rl1] eqn:ER.
    destruct r as [p0| |]; try discriminate. cbn [of_res kbind] in Hs0.
    destruct (K i ltac:(unfold zlen in *; lia)) as (dep & rlk & q & rlk' & RK & DK).
    assert (DP : den true m 0 [] p0 (nthv vs i)) by (eapply den_core; [eapply readPtr_core; [exact RK|exact ER]| exact DK]).
    assert (WP : wf_ptr m p0).
    { pose proof (struct_ptr_safe c m rl0 s i Hm (conj Hwf (fun _ => Hk)) ltac:(lia)) as SS.
      rewrite (struct_ptr_unfold c m rl0 s i Hv ltac:(unfold zlen in *; lia)), Hstrict, ER in SS. cbn in SS. apply SS. reflexivity. }
    assert (AP : aligned p0) by (eapply readPtr_aligned; exact ER).
    assert (CAP : caligned p0) by (eapply readPtr_caligned; exact ER).
    change (w_set_rl (dstw data0 cap0 m rl0) InSrc rl1) with (dstw data0 cap0 m rl1) in Hs0.
    destruct (canonical_ptr c fx f (dstw data0 cap0 m rl1) 0 p0) as [[w2 cp]| | |] eqn:EC; try discriminate.
    cbn [kbind] in Hs0.
    destruct (HQ data0 cap0 rl1 p0 (nthv vs i) w2 cp Hinv0 WP AP CAP DP EC) as (body & cap2 & rl2 & -> & Hinv2 & Hcp & Henc).
    unfold struct_set_ptr in Hs0. rewrite Dv, Dsz in Hs0. cbn [negb orb PointerCount] in Hs0.
    destruct (i >=? pn) eqn:Eip; [unfold zlen in *; lia|].
    rewrite Dseg in Hs0.
    assert (PA : pointerAddress dst i = (A + 8 * dn) + 8 * i).
    { rewrite pointerAddress_eq; rewrite ?Doff, ?Dsz; cbn [DataSize]; destruct Hinv0; unfold zlen in *; lia. }
    rewrite PA in Hs0.
    assert (Lb : zlen (data0 ++ bytes_of_words body) = zlen data0 + 8 * zlen body)
      by (rewrite zlen_app; unfold zlen; rewrite bow_length; lia).
    destruct Hinv2 as [Hv1 Hv2]. destruct Hinv0 as [Hu1 Hu2].
    rewrite (write_ptr_seg0 3) in Hs0; try lia; try assumption.
    2:{ rewrite Lb. unfold zlen in *. lia. }
    cbn [of_res] in Hs0. inversion Hs0; subst w0; clear Hs0.
    exists (ptr_word cp ((A + 8 * dn) + 8 * i)), body, cap2, rl2. split.
    - f_equal. apply put_word_app_left; unfold zlen in *; lia.
    - split; [split; assumption|]. intros F HF.
      replace ((A + 8 * dn) / 8 + i) with (((A + 8 * dn) + 8 * i) / 8) by lia.
      replace (nth (Z.to_nat i) vals VNull) with (norm (nthv vs i)).
      + apply Henc; try lia. apply HF. unfold zlen in *. lia.
      + unfold vals, nthv. rewrite nth_firstn_lt by (unfold zlen in *; lia).
        change VNull with (norm VNull) at 2. rewrite map_nth. reflexivity. }
  replace (Z.to_nat pn) with (length vals) in H by (unfold zlen in Lvals; lia).
  change (w_set_dst (dstw data cap m rl) (seg0 data1 cap)) with (dstw data1 cap m rl) in H.
  destruct (slots_loop step m (A + 8 * dn) vals okF enc ltac:(lia) ltac:(lia) Hstep (length vals) (le_n _)
                       data1 cap rl w' ltac:(unfold hinv; rewrite Ls1; split; assumption)
                       ltac:(rewrite Ls1; lia) H)
    as (pwords & kids & cap' & rl' & Lp & -> & Hinvk & Ec0).
  exists pwords, kids, cap', rl'. split; [unfold zlen in *; lia|]. split.
  - f_equal. f_equal. unfold data1. rewrite <- Ldw. rewrite set_slots_app; [reflexivity|lia|].
    rewrite zlen_app. unfold zlen in *. lia.
  - split.
    + unfold hinv in *. rewrite zlen_app in *. rewrite Ls1 in Hinvk. exact Hinvk.
    + intros F HF. specialize (Ec0 F HF). rewrite firstn_all in Ec0. rewrite Ls1 in Ec0.
      replace ((A + 8 * dn) / 8) with (A / 8 + dn) in Ec0 by lia. exact Ec0.
Qed.

(* ------------------------------------------------------------------ canonicalPtr
   Q_fill f -> Q_list f -> Q_ptr (S f): null; struct (canonicalStructSize_spec gives the size, alloc_seg0 the
   fresh block at the end, Q_fill the block and the children, then enc's struct case); list = Q_list;
   capability pointer: KErr, excluded by the hypothesis *)
Lemma ptr_step f : Q_fill f -> Q_list f -> Q_ptr (S f).
Proof.
  intros HF HL data cap rl p v w' cp Hi Hwf Hal Hcal D H. rewrite canonical_ptr_S in H.
  destruct (p_valid p) eqn:Hv; cbn [negb] in H.
  2:{ (* null *)
    inversion H; subst w' cp; clear H. pose proof (den_null_iff _ _ _ _ _ _ D) as Hn. rewrite Hv in Hn.
    destruct v; try discriminate. exists [], cap, rl. cbn [bytes_of_words flat_map]. rewrite app_nil_r.
    split; [reflexivity|]. split; [exact Hi|]. split; [left; reflexivity|].
    intros a F _ _ _ HFd. cbn [norm vdepth] in HFd. destruct F; [lia|]. reflexivity. }
  destruct (p_kind p) eqn:Hk.
  2:{ exact (HL data cap rl p v w' cp Hi Hwf Hv Hk Hcal D H). }
  2:{ discriminate H. }
  destruct v as [| |ws0 vs| |]; try (exfalso; inversion D; subst; congruence).
  destruct Hfx as (_ & _ & Hfn & _). rewrite Hfn, Hstrict in H. cbn [w_src dstw] in H.
  destruct (canonicalStructSize_spec m 0 [] p _ Hm Hwf Hv Hk (Hal Hk) D) as (ws' & vs' & E & Hcss).
  inversion E; subst ws' vs'; clear E. rewrite Hcss in H. cbn [of_res kbind] in H.
  destruct (den_struct_inv _ _ _ _ _ _ D Hv Hk) as (d & vs0 & Ev & Wz & Sl & Lvs & _).
  inversion Ev; subst ws0 vs0; clear Ev.
  set (ws := words_of_bytes d) in *.
  set (k := zlen (strip0 ws)) in *. set (j := zlen (stripN vs)) in *.
  destruct Wz as [Wd Wp].
  apply slice_eq_sub in Sl as Sl'; [|apply seg_of_ok; assumption| lia]. destruct Sl' as (Ed & B1 & B2).
  assert (Ld : zlen d = DataSize (p_size p)) by (rewrite Ed; apply sub_length; lia).
  pose proof (words_of_bytes_length d) as Lw. fold ws in Lw.
  pose proof (strip0_length_le ws) as Lk.
  assert (Lj : (length (stripN vs) <= length vs)%nat) by (rewrite (stripN_firstn vs) at 1; rewrite firstn_length; lia).
  assert (Hk0 : 0 <= k <= 65535) by (unfold k, zlen in *; lia).
  assert (Hj0 : 0 <= j < 65536) by (unfold j, zlen in *; lia).
  destruct Hi as [Hi1 Hi2]. assert (Z0 : 0 <= zlen data) by (unfold zlen; lia).
  (* newStruct *)
  unfold newStruct, os_isValid in H. cbn [DataSize PointerCount w_dst dstw] in H.
  destruct (8 * k <=? 65535 * 8) eqn:E8; [|lia]. cbn [negb] in H.
  rewrite (padToWord_mult (8 * k)) in H by lia.
  replace (totalSize (mkOS (8 * k) j)) with (8 * k + 8 * j) in H
    by (unfold totalSize, pointerSize, u32; cbn [DataSize PointerCount]; lia).
  unfold lift in H.
  destruct (alloc (seg0 data cap) 0 (8 * k + 8 * j)) as [[[m1 sid1] addr]| |] eqn:Ea; try discriminate.
  pose proof (alloc_bound data cap (8 * k + 8 * j) m1 sid1 addr ltac:(lia) ltac:(lia) Ea) as Hbound.
  destruct (alloc_seg0 data cap (8 * k + 8 * j) m1 sid1 addr Hi1 ltac:(lia) Ea) as (cap1 & -> & -> & ->).
  rewrite (padToWord_mult (8 * k + 8 * j)) in * by lia.
  cbn [bind of_res kbind w_set_dst w_src w_src_rl] in H.
  set (ss := mkPtr true 0 (zlen data) 0 (mkOS (8 * k) j) maxDepth KStruct false false false) in *.
  set (data1 := data ++ repeat 0 (Z.to_nat (8 * k + 8 * j))) in *.
  change (w_set_dst (dstw data cap m rl) (seg0 data1 cap1)) with (dstw data1 cap1 m rl) in H.
  destruct (fill_canonical c fx f (dstw data1 cap1 m rl) ss p) as [w2| | |] eqn:Ef; try discriminate.
  cbn [kbind] in H. inversion H; subst w' cp; clear H.
  assert (L1 : zlen data1 = zlen data + 8 * k + 8 * j) by (unfold data1; rewrite zlen_app; unfold zlen; rewrite repeat_length; lia).
  assert (Hinv1 : hinv data1) by (split; lia).
  assert (Hdst : dst_at ss (zlen data) k j) by (unfold dst_at, ss; cbn; repeat split; reflexivity).
  assert (T0 : 0 <= k) by lia. assert (T1 : zlen data + 8 * k + 8 * j <= zlen data1) by lia.
  assert (T3 : k <= zlen ws) by (unfold k, zlen in *; lia). assert (T4 : j <= zlen vs) by (unfold j, zlen in *; lia).
  destruct (HF data1 cap1 rl ss p ws vs (zlen data) k j w2 Hinv1 Hdst Z0 Hi1 T0 Hj0 T1
               Hv Hk Hwf Hal D T3 T4 Ef)
    as (pwords & kids & cap2 & rl2 & Lp & -> & Hinv2 & Hcells).
  set (dws := firstn (Z.to_nat k) ws) in *.
  assert (Edws : dws = strip0 ws) by (unfold dws, k, zlen; rewrite Nat2Z.id; symmetry; apply strip0_firstn).
  assert (Ldws : zlen dws = k) by (rewrite Edws; reflexivity).
  assert (Lblock : length (dws ++ pwords) = Z.to_nat (k + j)) by (rewrite app_length; unfold zlen in *; lia).
  assert (Edata : set_slots data1 (zlen data) (dws ++ pwords) = data ++ bytes_of_words (dws ++ pwords)).
  { unfold data1. replace (Z.to_nat (8 * k + 8 * j)) with (8 * length (dws ++ pwords))%nat by lia. apply set_slots_end. }
  rewrite Edata. exists ((dws ++ pwords) ++ kids), cap2, rl2.
  rewrite (bow_app (dws ++ pwords) kids), <- app_assoc. split; [reflexivity|].
  assert (Lbw : zlen (bytes_of_words (dws ++ pwords)) = 8 * k + 8 * j) by (unfold zlen; rewrite bow_length; lia).
  split.
  { unfold hinv in *. rewrite !zlen_app in *. rewrite Lbw. rewrite L1 in Hinv2. lia. }
  split.
  { right. unfold ss. cbn [p_valid p_seg p_member p_off p_kind p_size].
    split; [reflexivity|]. split; [reflexivity|]. split; [reflexivity|]. split; [exact Hi1|].
    split.
    - rewrite !zlen_app, Lbw. assert (0 <= zlen (bytes_of_words kids)) by (unfold zlen; lia). lia.
    - unfold os_wf. cbn [DataSize PointerCount]. lia. }
  intros a F Ha Ham Hab HFd.
  set (ps' := stripN (map norm vs)) in *.
  assert (Eps : ps' = firstn (Z.to_nat j) (map norm vs)).
  { unfold ps', j, zlen. rewrite Nat2Z.id, <- stripN_map_norm_length. apply stripN_firstn. }
  assert (Lps : zlen ps' = j) by (unfold ps', j, zlen; rewrite stripN_map_norm_length; reflexivity).
  change (norm (VStruct ws vs)) with (VStruct (strip0 ws) ps') in *. rewrite <- Edws in *.
  destruct F as [|F']; [cbn [vdepth] in HFd; lia|].
  assert (HFk : forall i, 0 <= i < j -> (vdepth (norm (nthv vs i)) <= F')%nat).
  { intros i Hi0. cbn [vdepth] in HFd.
    assert (Hin : In (norm (nthv vs i)) ps').
    { assert (En : norm (nthv vs i) = nth (Z.to_nat i) (map norm vs) VNull)
        by (unfold nthv; symmetry; exact (map_nth norm vs VNull (Z.to_nat i))).
      rewrite En, Eps. rewrite <- (nth_firstn_lt (Z.to_nat i) (Z.to_nat j)) by lia. apply nth_In.
      rewrite firstn_length, map_length. unfold j, zlen in *. lia. }
    pose proof (vdepth_in_fold_max _ _ Hin). lia. }
  specialize (Hcells F' HFk).
  cbn [enc]. rewrite Ldws, Lps.
  unfold ptr_word, ss. cbn [p_valid negb p_kind p_size p_off]. unfold os_isZero. cbn [DataSize PointerCount].
  destruct ((k =? 0) && (j =? 0)) eqn:E0.
  - (* the zero-sized struct *)
    assert (k = 0 /\ j = 0) as [Ek Ej] by lia.
    replace ((8 * k =? 0) && (j =? 0)) with true by lia.
    destruct dws; [|unfold zlen in Ldws; cbn [length] in Ldws; lia].
    destruct pwords; [|unfold zlen in Lp; cbn [length] in Lp; lia].
    rewrite Ej in Hcells. cbn [Z.to_nat firstn map enc_cells] in Hcells. inversion Hcells. reflexivity.
  - replace ((8 * k =? 0) && (j =? 0)) with false by lia.
    unfold two16, two29.
    destruct ((k >=? 65536) || (j >=? 65536) || (zlen data / 8 - a / 8 - 1 >=? 536870912)) eqn:E1; [lia|].
    unfold struct_cells. rewrite enc_cells_app_words, Ldws.
    replace (zlen data / 8 + k) with (zlen data / 8 + k) by reflexivity.
    rewrite <- Eps in Hcells.
    replace (zlen data1 / 8) with (zlen data / 8 + k + j) in Hcells by lia.
    rewrite Hcells. cbn [cbind fst snd]. replace (8 * k / 8) with k by lia. reflexivity.
Qed.


End Ind.
