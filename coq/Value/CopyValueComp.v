(* C16 [T2] copy_value: writePtr of struct lists *)
From CV Require Import Value.ValueEq Value.ValueEqProofs Value.EqualM Value.Den Value.DenFacts Value.DenLists
                       Value.CanonSpec Value.CanonProofs3 Value.CanonM Value.CanonMStruct Value.CanonMData Value.CanonMHeap
                       Value.CanonMLoop Value.CanonMInd Value.CanonMBytes Value.CanonMBlocks Value.CopyValue Value.CopyValueHeap Value.CopyValueDefs.
From CV Require Import Core.ReaderFacts Core.SafetyProofs Core.BuilderFacts Core.ArithFacts Core.CopySafe Core.WritePtrProofs.
From Coq Require Import ZifyBool ZifyNat.
Ltac Zify.zify_post_hook ::= Z.div_mod_to_equations.
Open Scope Z_scope.

Section Copy.
Context (m : segs) (Hm : msg_ok m).

(* ------------------------------------------------------------------ struct lists *)
Lemma wp_comp_list f : CopyValueDefs.P_cs m f -> forall D cap rl a src vs fc w',
  hinv D -> 0 <= a -> a mod 8 = 0 -> a + 8 <= zlen D ->
  wf_ptr m src -> caligned src -> ctag_ok m src -> den true m 0 [] src (VList LComp vs) -> forallb cvdom vs = true ->
  write_ptr (S f) true (dstw D cap m rl) 0 a InSrc src fc = Ok w' ->
  exists word body cap' rl',
    w' = dstw (put_word D a word ++ body) cap' m rl' /\ hinv (D ++ body) /\ bytes_ok body /\
    forall pre' tail, zlen pre' = zlen D -> word_is pre' a word -> zlen (pre' ++ body ++ tail) <= BOUND ->
      reads_as (pre' ++ body ++ tail) a (VList LComp vs).
Proof.
  intros HC D cap rl a src vs fc w' Hi Ha Ham Hab Hwf Hcal Hctg D0 Hsd H.
  destruct (den_comp_inv m _ _ D0) as (Hv & Hk & Hb & Hc & Hws & Lvs & DE).
  destruct (Hcal Hc) as [Hal _].
  destruct (Hctg Hv Hk Hc) as (Ho8 & t & Et & T64 & Tpt & Tsz & Tn).
  destruct (Hwf Hv) as (Hseg & Hobj). unfold wf_obj in Hobj. rewrite Hk, Hb in Hobj.
  destruct Hobj as (Ho & Hlen & _ & Hbd).
  assert (Hsl : zlen (seg_of m src) <= 4294967288) by (apply seg_of_ok; assumption).
  destruct Hi as [Hi1 Hi2]. assert (Z0 : 0 <= zlen D) by (unfold zlen; lia).
  destruct Hws as [Hws1 Hws2].
  set (n := p_len src) in *. set (dn := DataSize (p_size src) / 8) in *. set (pn := PointerCount (p_size src)) in *.
  set (bw := dn + pn) in *.
  assert (Eds : DataSize (p_size src) = 8 * dn) by (unfold dn; lia).
  assert (Esize : p_size src = mkOS (8 * dn) pn).
  { unfold pn. rewrite <- Eds. destruct (p_size src) as [ds pc]. reflexivity. }
  assert (Ets : totalSize (p_size src) = 8 * bw) by (unfold totalSize, pointerSize, u32, bw, pn; rewrite Eds; lia).
  rewrite Ets in Hbd.
  assert (Shape : forall i, 0 <= i < n -> exists ws ps, nthv vs i = VStruct ws ps /\ zlen ws = dn /\ zlen ps = pn).
  { intros i Hi0. destruct (comp_elem_shape m Hm src vs i Hwf Hv Hk Hb Hal Hi0 (DE i Hi0)) as (ws & ps & E & L1 & L2).
    exists ws, ps. split; [exact E|]. split; [lia|exact L2]. }
  assert (Esz : list_allocSize src = 8 * n * bw + 8).
  { unfold list_allocSize. rewrite Hv, Hb, Hc, Ets. cbn [negb]. fold n.
    rewrite times_some by (unfold maxSegmentSize; nia). unfold u32. nia. }
  assert (Bnb : 0 <= n * bw /\ 8 * (n * bw) <= 4294967288) by nia.
  rewrite write_ptr_S in H. rewrite Hv, Hk in H. cbn [negb] in H.
  replace (fc || is_src InSrc) with true in H by (cbn [is_src]; rewrite Bool.orb_true_r; reflexivity).
  cbv zeta in H. rewrite Esz in H. cbn [w_dst dstw] in H.
  destruct (alloc (seg0 D cap) 0 (8 * n * bw + 8)) as [[[m1 sid1] addr]| |] eqn:Ea; try discriminate H.
  pose proof (alloc_bound D cap (8 * n * bw + 8) m1 sid1 addr ltac:(lia) ltac:(lia) Ea) as Hbound0.
  destruct (alloc_seg0 D cap (8 * n * bw + 8) m1 sid1 addr Hi1 ltac:(lia) Ea) as (cap1 & -> & -> & ->).
  rewrite (padToWord_mult (8 * n * bw + 8)) in * by lia.
  cbn [bind] in H. rewrite Hc in H. cbn [w_segs w_set_dst w_src w_dst dstw] in H.
  change (nth (Z.to_nat (p_seg src)) m []) with (seg_of m src) in H.
  rewrite (u32_id (p_off src - 8)) in H by lia. rewrite Et in H. cbn [bind] in H.
  unfold lift0 in H. cbn [w_dst] in H.
  assert (Lz : zlen (D ++ repeat 0 (Z.to_nat (8 * n * bw + 8))) = zlen D + 8 * n * bw + 8)
    by (rewrite zlen_app; unfold zlen; rewrite repeat_length; lia).
  rewrite writeRaw_seg0 in H by lia. cbn [bind] in H.
  assert (EA : addSize (zlen D) 8 = Some (zlen D + 8)).
  { unfold addSize, maxSegmentSize. cbv zeta. destruct (zlen D + 8 >? 4294967288) eqn:E; [lia|reflexivity]. }
  rewrite EA in H. cbn [bind] in H. rewrite (u32_id (8 * n * bw + 8 - 8)) in H by lia.
  replace (8 * n * bw + 8 - 8) with (8 * n * bw) in H by lia.
  assert (Edata1 : put_word (D ++ repeat 0 (Z.to_nat (8 * n * bw + 8))) (zlen D) t
                   = (D ++ le_encode 8 t) ++ repeat 0 (Z.to_nat (8 * n * bw))).
  { pose proof (put_word_mid D (repeat 0 (Z.to_nat (8 * n * bw + 8))) [] t ltac:(rewrite repeat_length; lia)) as E.
    rewrite !app_nil_r in E. fold (zlen D) in E. rewrite E, skipn_repeat, <- app_assoc. f_equal. f_equal. f_equal. lia. }
  rewrite Edata1 in H.
  set (DT := D ++ le_encode 8 t) in *.
  assert (LT : zlen DT = zlen D + 8) by (unfold DT; rewrite zlen_app; unfold zlen; rewrite le_encode_length; lia).
  set (D1 := DT ++ repeat 0 (Z.to_nat (8 * n * bw))) in *.
  assert (L1 : zlen D1 = zlen D + 8 + 8 * n * bw) by (unfold D1; rewrite zlen_app, LT; unfold zlen; rewrite repeat_length; lia).
  rewrite Hb in H. cbn [orb] in H.
  set (dstl := mkPtr true 0 (zlen D + 8) n (p_size src) maxDepth KList true false false) in *.
  (* the elements are struct pointers of the same sizes as the source's *)
  set (elemq := fun i : Z => mkPtr true 0 (zlen D + 8 + i * (8 * bw)) 0 (p_size src) 0 KStruct false false true).
  set (P := fun (i : Z) (M : list Z) => zlen M <= BOUND -> forall mid caps, den true [M] mid caps (elemq i) (nthv vs i)).
  assert (Finish : forall cap3 rl3 (w3 : world) words kids,
            w3 = dstw (set_slots D1 (zlen D + 8) words ++ kids) cap3 m rl3 -> zlen words = bw * n -> hinv (D1 ++ kids) -> bytes_ok kids ->
            (forall pre' tail, zlen pre' = zlen D1 -> sub pre' (zlen D + 8) (8 * bw * n) = bytes_of_words words ->
               forall i, 0 <= i < n -> P i (pre' ++ kids ++ tail)) ->
            (do raw <- list_raw dstl; place w3 0 a (p_seg dstl) (if p_comp dstl then u32 (p_off dstl - 8) else p_off dstl) raw) = Ok w' ->
            exists word body cap' rl',
              w' = dstw (put_word D a word ++ body) cap' m rl' /\ hinv (D ++ body) /\ bytes_ok body /\
              forall pre' tail, zlen pre' = zlen D -> word_is pre' a word -> zlen (pre' ++ body ++ tail) <= BOUND ->
                reads_as (pre' ++ body ++ tail) a (VList LComp vs)).
  { intros cap3 rl3 w3 words kids -> Lw Hinvk Bk PostL HP.
    assert (Edata : set_slots D1 (zlen D + 8) words = DT ++ bytes_of_words words).
    { unfold D1. replace (Z.to_nat (8 * n * bw)) with (8 * length words)%nat by (unfold zlen in *; lia).
      rewrite <- LT. apply set_slots_end. }
    rewrite Edata in HP.
    assert (Elr : list_raw dstl = Ok (rawListPointer 0 7 (n * bw))).
    { unfold list_raw, dstl. cbn [p_valid p_comp p_size p_len negb]. unfold totalWordCount, dataWordCount. rewrite Eds.
      replace (8 * dn mod 8 =? 0) with true by lia. fold pn.
      replace (8 * dn / 8) with dn by lia. fold bw.
      f_equal. f_equal. unfold s32. cbv zeta.
      repeat match goal with |- context [if ?c then _ else _] => destruct c eqn:? end; nia. }
    rewrite Elr in HP. cbn [bind p_comp p_seg p_off dstl] in HP. rewrite (u32_id (zlen D + 8 - 8)) in HP by lia.
    replace (zlen D + 8 - 8) with (zlen D) in HP by lia.
    unfold place in HP. cbn [w_dst dstw] in HP. change (0 =? 0) with true in HP. cbv iota in HP. unfold lift0 in HP.
    assert (Lbw : zlen (bytes_of_words words) = 8 * n * bw) by (unfold zlen in *; rewrite bow_length; lia).
    assert (Lk0 : 0 <= zlen kids) by (unfold zlen; lia).
    assert (Hk2 : zlen D + 8 + 8 * n * bw + zlen kids <= BOUND).
    { destruct Hinvk as [_ X]. rewrite zlen_app, L1 in X. unfold BOUND. lia. }
    rewrite writeRaw_seg0 in HP by (rewrite ?zlen_app, ?LT, ?Lbw; unfold BOUND in *; lia). cbn [bind] in HP.
    apply Ok_inj in HP. subst w'.
    set (word := withOffset (rawListPointer 0 7 (n * bw)) (nearPointerOffset a (zlen D))) in *.
    exists word, ((le_encode 8 t ++ bytes_of_words words) ++ kids), cap3, rl3.
    split.
    { unfold dstw, w_set_dst. cbn [w_src w_src_rl]. f_equal. f_equal. unfold DT.
      rewrite <- !app_assoc. apply put_word_app_left; lia. }
    split.
    { assert (L8' : zlen (le_encode 8 t) = 8) by (unfold zlen; rewrite le_encode_length; lia).
      destruct Hinvk as [X1 X2]. rewrite zlen_app, L1 in X1, X2. split; rewrite !zlen_app, L8', Lbw; lia. }
    split; [apply Forall_app; split; [apply Forall_app; split; [apply le_encode_bytes|apply bow_bytes_ok]|exact Bk]|].
    intros pre' tail Lp' Hw Hbound.
    set (M := pre' ++ ((le_encode 8 t ++ bytes_of_words words) ++ kids) ++ tail) in *.
    assert (L8 : zlen (le_encode 8 t) = 8) by (unfold zlen; rewrite le_encode_length; lia).
    assert (LM : zlen M = zlen D + 8 + 8 * n * bw + zlen kids + zlen tail) by (unfold M; rewrite !zlen_app, Lbw, L8; lia).
    assert (Lt0 : 0 <= zlen tail) by (unfold zlen; lia).
    assert (HwM : word_is M a word) by (unfold word_is, M in *; rewrite sub_app_l by lia; exact Hw).
    assert (HtM : word_is M (zlen D) t).
    { unfold word_is, M. rewrite sub_app_r by lia. rewrite Lp', Z.sub_diag. rewrite <- !app_assoc.
      rewrite sub_app_l by lia. unfold sub. cbn [Z.to_nat skipn]. apply firstn_all2. rewrite le_encode_length. lia. }
    assert (Owf : os_wf (p_size src)) by (unfold os_wf; fold pn; lia).
    assert (Hwc : 0 <= n * bw < 536870912) by (split; [lia|nia]).
    assert (Hts' : totalSize (p_size src) * n = 8 * (n * bw)) by (rewrite Ets; lia).
    assert (HrdM : readRawPointer M (zlen D) = Ok t) by (apply rd_word; try assumption; unfold BOUND in *; lia).
    destruct (read_near_comp true M a (zlen D) n (p_size src) (n * bw) t 1 Hwc ltac:(lia) Owf Hts' Ha Ham ltac:(lia)
                ltac:(unfold BOUND in *; lia) Z0 Hi1 ltac:(lia) HwM HrdM Tpt Tsz Tn ltac:(lia)) as (rl' & RR).
    { set (q := mkPtr true 0 (zlen D + 8) n (p_size src) (uint_dec 1) KList true false false) in *.
      exists 1, 4294967288, q, rl'. split; [exact RR|]. intros mid caps.
      assert (EM : M = (pre' ++ le_encode 8 t ++ bytes_of_words words) ++ kids ++ tail) by (unfold M; rewrite <- !app_assoc; reflexivity).
      assert (Hblock : sub (pre' ++ le_encode 8 t ++ bytes_of_words words) (zlen D + 8) (8 * bw * n) = bytes_of_words words).
      { rewrite app_assoc. rewrite sub_app_r by (rewrite ?zlen_app, ?L8; lia). rewrite zlen_app, L8, Lp'.
        replace (zlen D + 8 - (zlen D + 8)) with 0 by lia. unfold sub. cbn [Z.to_nat skipn]. apply firstn_all2. unfold zlen in Lbw. lia. }
      apply den_comp; try reflexivity; try assumption.
      + split; assumption.
      + intros i Hi0. cbn [q p_len] in Hi0.
        pose proof (PostL (pre' ++ le_encode 8 t ++ bytes_of_words words) tail ltac:(rewrite !zlen_app, L8, Lbw, L1; lia) Hblock i Hi0) as R.
        unfold P in R. rewrite <- EM in R. specialize (R Hbound mid caps).
        eapply den_core; [|exact R]. unfold elemq, elem_ptr, q. cbn [p_seg p_off p_size]. rewrite Ets.
        repeat split. } }
  destruct (PointerCount (p_size src) =? 0) eqn:Epc.
  - (* elements without pointers: the bytes are copied *)
    assert (Epn : pn = 0) by (unfold pn; lia).
    unfold copy_bytes in H. cbn [w_segs w_src w_dst w_set_dst dstw] in H.
    change (nth (Z.to_nat (p_seg src)) m []) with (seg_of m src) in H.
    rewrite slice_ok in H by (unfold bw in *; nia). cbn [bind] in H.
    set (bs := sub (seg_of m src) (p_off src) (8 * n * bw)) in *.
    assert (Lbs : zlen bs = 8 * n * bw) by (unfold bs; apply sub_length; nia).
    unfold lift0 in H. cbn [w_dst] in H.
    rewrite seg_write_raw in H; [| lia | fold bs; rewrite ?L1, ?Lbs; lia | rewrite ?L1; lia].
    cbn [bind] in H.
    assert (Ewb : write_bytes D1 (zlen D + 8) bs = DT ++ bs).
    { unfold D1. rewrite <- LT. rewrite write_bytes_end by (unfold zlen in *; lia).
      replace (Z.to_nat (8 * n * bw) - length bs)%nat with 0%nat by (unfold zlen in *; lia). cbn [repeat]. rewrite app_nil_r. reflexivity. }
    rewrite Ewb in H. cbn [bind] in H.
    assert (Hbsok : bytes_ok bs) by (unfold bs, sub; apply Forall_firstn', Forall_skipn'; apply (seg_of_ok m src Hm)).
    assert (Hmod : (length bs mod 8 = 0)%nat).
    { apply Nat2Z.inj. rewrite Nat2Z.inj_mod. unfold zlen in Lbs. rewrite Lbs. change (Z.of_nat 8) with 8. change (Z.of_nat 0) with 0. lia. }
    set (words := words_of_bytes bs).
    assert (Ebw : bytes_of_words words = bs) by (apply bow_wob; assumption).
    assert (Lw : zlen words = bw * n).
    { pose proof (f_equal (@length Z) Ebw) as E. rewrite bow_length in E. unfold zlen in *. lia. }
    assert (Ew : DT ++ bs = set_slots D1 (zlen D + 8) words ++ []).
    { rewrite app_nil_r. unfold D1. rewrite <- LT. replace (Z.to_nat (8 * n * bw)) with (8 * length words)%nat by (unfold zlen in *; lia).
      rewrite set_slots_end, Ebw. reflexivity. }
    rewrite Ew in H.
    refine (Finish cap1 rl _ words [] eq_refl Lw _ (Forall_nil _) _ H).
    + rewrite app_nil_r. split; lia.
    + intros pre' tail Lp' Hs i Hi0 Hbound mid caps. cbn [app] in *.
      destruct (Shape i Hi0) as (ws & ps & Ev & Lws & Lps). rewrite Ev.
      assert (Hib : 0 <= i * (8 * bw) /\ i * (8 * bw) + 8 * bw <= n * (8 * bw)) by nia.
      assert (Hdb : bw = dn) by (unfold bw; lia).
      assert (Hz1 : i * pn = 0 /\ n * pn = 0) by (rewrite Epn; lia).
      assert (Eps : ps = []) by (destruct ps; [reflexivity|unfold zlen in Lps; cbn [length] in Lps; lia]). subst ps.
      (* the source element's words are the words of its bytes *)
      pose proof (DE i Hi0) as Dei. rewrite Ev in Dei.
      destruct (den_struct_inv _ _ _ _ _ _ Dei eq_refl eq_refl) as (d & vs0 & Evd & _ & Sl & _ & _).
      inversion Evd; subst ws vs0; clear Evd. cbn [elem_ptr p_size p_off p_seg seg_of] in Sl.
      rewrite Ets, Eds in Sl. change (nth (Z.to_nat (p_seg src)) m []) with (seg_of m src) in Sl.
      change (seg_of m (elem_ptr src i)) with (seg_of m src) in Sl.
      rewrite slice_ok in Sl by lia. apply Ok_inj in Sl. subst d.
      assert (Lt0 : 0 <= zlen tail) by (unfold zlen; lia).
      set (di := sub (seg_of m src) (p_off src + i * (8 * bw)) (8 * dn)) in *.
      assert (Hdiok : bytes_ok di) by (unfold di, sub; apply Forall_firstn', Forall_skipn'; apply (seg_of_ok m src Hm)).
      assert (Ldi : zlen di = 8 * dn) by (unfold di; apply sub_length; lia).
      assert (Hsz1 : zlen D + 8 + i * (8 * bw) + 8 * dn + 8 * 0 <= zlen (pre' ++ tail)) by (rewrite zlen_app, Lp', L1; lia).
      assert (Hw64 : Forall w64 (words_of_bytes di)) by (apply (wob_w64 (length di)); [lia|exact Hdiok]).
      assert (Hsub : sub (pre' ++ tail) (zlen D + 8 + i * (8 * bw)) (8 * dn) = bytes_of_words (words_of_bytes di)).
      { rewrite sub_app_l by (rewrite ?Lp', ?L1; lia).
        replace (sub pre' (zlen D + 8 + i * (8 * bw)) (8 * dn))
          with (sub (sub pre' (zlen D + 8) (8 * bw * n)) (i * (8 * bw)) (8 * dn)) by (apply sub_sub; lia).
        rewrite Hs, Ebw. unfold bs. rewrite sub_sub by lia. fold di.
        symmetry. apply bow_wob; [exact Hdiok|].
        apply Nat2Z.inj. rewrite Nat2Z.inj_mod. unfold zlen in Ldi. rewrite Ldi. change (Z.of_nat 8) with 8. change (Z.of_nat 0) with 0. lia. }
      apply (struct_den (pre' ++ tail) (elemq i) (zlen D + 8 + i * (8 * bw)) dn 0 (words_of_bytes di) []);
        try reflexivity; try lia; try assumption;
        try (unfold elemq; cbn [p_size]; rewrite Esize, Epn; reflexivity); try (intros j Hj; lia).
  - (* elements with pointers: copyStruct per element *)
    unfold list_len in H. rewrite Hv in H. fold n in H.
    change (w_set_dst (w_set_dst (dstw D cap m rl) (seg0 (D ++ repeat 0 (Z.to_nat (8 * n * bw + 8))) cap1)) (seg0 D1 cap1)) with (dstw D1 cap1 m rl) in H.
    match type of H with context [fold_res (iota (Z.to_nat n)) ?w0 ?st] => set (step := st) in * end.
    assert (Hstep : forall i D0' cap0 rl0 w0, 0 <= i < Z.of_nat (Z.to_nat n) -> hinv D0' ->
              (zlen D + 8) + 8 * bw * Z.of_nat (Z.to_nat n) <= zlen D0' ->
              step (dstw D0' cap0 m rl0) i = Ok w0 ->
              exists block body cap' rl',
                zlen block = bw /\
                w0 = dstw (set_slots D0' ((zlen D + 8) + 8 * bw * i) block ++ body) cap' m rl' /\ hinv (D0' ++ body) /\ bytes_ok body /\
                forall pre' tail, zlen pre' = zlen D0' -> sub pre' ((zlen D + 8) + 8 * bw * i) (8 * bw) = bytes_of_words block ->
                  P i (pre' ++ body ++ tail)).
    { intros i D0' cap0 rl0 w0 Hi0 Hinv0 Hb0 Hs0. unfold step in Hs0.
      assert (Hin : 0 <= i < n) by lia.
      assert (Hblk : bw * i + bw <= bw * n) by (unfold bw in *; nia).
      set (A := (zlen D + 8) + 8 * bw * i) in *.
      assert (EAl : list_struct true dstl i
                   = Ok (mkPtr true 0 A 0 (p_size src) (if true && (maxDepth =? 0) then 0 else uint_dec maxDepth) KStruct false false true)).
      { unfold list_struct, dstl. cbn [p_valid p_len p_bit p_off p_size p_seg p_depth negb orb].
        destruct ((i <? 0) || (i >=? n)) eqn:E1; [lia|]. rewrite Ets.
        rewrite element_some by (unfold bw in *; nia). f_equal. f_equal. unfold A. lia. }
      fold dstl in Hs0. rewrite EAl in Hs0. cbn [bind] in Hs0.
      set (de := mkPtr true 0 A 0 (p_size src) (if true && (maxDepth =? 0) then 0 else uint_dec maxDepth) KStruct false false true) in *.
      assert (Ex : exists se, list_struct true src i = Ok se).
      { unfold list_struct. rewrite Hv, Hb. cbn [negb orb]. fold n.
        destruct ((i <? 0) || (i >=? n)) eqn:E; [lia|].
        destruct (element (p_off src) i (totalSize (p_size src))); eexists; reflexivity. }
      destruct Ex as (se & El). rewrite El in Hs0. cbn [bind] in Hs0.
      assert (Hbi : 0 <= p_off src + i * totalSize (p_size src) <= zlen (seg_of m src)) by (rewrite Ets; unfold bw in *; nia).
      pose proof (list_struct_elem m src i se Hm Hv Hb ltac:(lia) Hbi El) as Hcore.
      pose proof (list_struct_safe true m src i Hm (conj Hwf (fun _ => Hk)) ltac:(unfold list_len; rewrite Hv; lia)) as SS.
      rewrite El in SS. cbn [res_sat] in SS. destruct SS as [We Ke].
      destruct Hcore as (Cv & Cs & Co & Cl & Cz & Ck & Cc & Cb).
      assert (Ve : p_valid se = true) by (rewrite Cv; reflexivity).
      assert (Kse : p_kind se = KStruct) by (rewrite Ck; reflexivity).
      assert (De : den true m 0 [] se (nthv vs i)).
      { eapply den_core; [|apply (DE i); lia]. unfold same_core. repeat split; symmetry; assumption. }
      assert (Ale : aligned se) by (intros _; rewrite Cz; exact Hal).
      destruct (Shape i Hin) as (ws & ps & Ev & Lws & Lps).
      rewrite Ev in De.
      assert (SDi : forallb cvdom ps = true).
      { assert (SD0 : cvdom (nthv vs i) = true).
        { unfold nthv. eapply forallb_In; [exact Hsd|]. apply nth_In. unfold zlen in *. lia. }
        rewrite Ev in SD0. exact SD0. }
      assert (Hdst : dst_at de A dn pn) by (unfold dst_at, de; cbn [p_valid p_seg p_off p_size]; repeat split; try reflexivity; exact Esize).
      destruct (HC D0' cap0 rl0 de se ws ps A dn pn w0 Hinv0 Hdst ltac:(unfold A, bw in *; nia) ltac:(unfold A; lia)
                   ltac:(lia) ltac:(unfold pn; lia) ltac:(unfold A, bw in *; nia) Ve Kse We Ale De SDi Hs0)
        as (pwords & kids & cap2 & rl2 & Lp & -> & Hinv2 & Bk0 & PostC).
      assert (Edw : resize_words ws (Z.to_nat dn) = ws).
      { replace (Z.to_nat dn) with (length ws) by (unfold zlen in Lws; lia). apply resize_words_id. }
      rewrite Edw in *.
      exists (ws ++ pwords), kids, cap2, rl2.
      split; [rewrite zlen_app; unfold bw; lia|]. split; [reflexivity|]. split; [exact Hinv2|]. split; [exact Bk0|].
      intros pre' tail Lp' Hs Hbound mid caps. rewrite Ev.
      assert (Lt0 : 0 <= zlen tail) by (unfold zlen; lia). assert (Lk0 : 0 <= zlen kids) by (unfold zlen; lia).
      destruct Hinv0 as [Hu1 Hu2].
      assert (Hsz1 : A + 8 * dn + 8 * pn <= zlen (pre' ++ kids ++ tail)) by (rewrite !zlen_app, Lp'; unfold A, bw in *; nia).
      assert (Hw64 : Forall w64 ws).
      { destruct (den_struct_inv _ _ _ _ _ _ De Ve Kse) as (d & vs0 & Evd & _ & Sl & _ & _). inversion Evd; subst.
        apply (wob_w64 (length d)); [lia|]. eapply slice_bytes_ok; eassumption. }
      assert (Hsub : sub (pre' ++ kids ++ tail) A (8 * dn) = bytes_of_words ws).
      { rewrite sub_app_l by (rewrite ?Lp'; unfold A, bw in *; nia).
        replace (sub pre' A (8 * dn)) with (sub (sub pre' A (8 * bw)) 0 (8 * dn)) by (rewrite sub_sub by (unfold bw; lia); f_equal; lia).
        rewrite Hs, bow_app, sub_app_l by (unfold zlen; rewrite ?bow_length; unfold zlen in *; lia).
        unfold sub. cbn [Z.to_nat skipn]. apply firstn_all2. rewrite bow_length. unfold zlen in *. lia. }
      assert (Hkids : forall j, 0 <= j < pn -> reads_as (pre' ++ kids ++ tail) (A + 8 * dn + 8 * j) (nthv ps j)).
      { intros j Hj.
        pose proof (PostC pre' tail Lp' ltac:(unfold bw in Hs; exact Hs) Hbound j Hj) as R.
        replace (Z.to_nat pn) with (length ps) in R by (unfold zlen in Lps; lia). rewrite resize_ptrs_id in R. exact R. }
      apply (struct_den (pre' ++ kids ++ tail) (elemq i) A dn pn ws ps); try reflexivity; try lia; try assumption;
        try (unfold elemq, A; cbn [p_off p_size]; try exact Esize; lia); try (unfold pn; lia). }
    destruct (fold_res (iota (Z.to_nat n)) (dstw D1 cap1 m rl) step) as [w3| |] eqn:E1; try discriminate H. cbn [bind] in H.
    assert (Hn0 : Z.of_nat (Z.to_nat n) = n) by lia.
    destruct (sem_blocks_loop step m (zlen D + 8) bw (Z.to_nat n) P ltac:(lia) ltac:(lia) ltac:(unfold bw; lia) Hstep
                 (Z.to_nat n) (le_n _) D1 cap1 rl w3 ltac:(split; lia) ltac:(rewrite L1, Hn0; lia) E1)
      as (words & kids & cap2 & rl2 & Lw & -> & Hinvk & Bk & PostL).
    rewrite Hn0 in *.
    refine (Finish cap2 rl2 _ words kids eq_refl Lw Hinvk Bk _ H).
    intros pre' tail Lp' Hs i Hi0. apply (PostL pre' tail Lp' Hs i Hi0).
Qed.


End Copy.
