(* L1: capnp.Equal (pointer.go) over the read-side model, following the Go code step by
   step: same checks in the same order, the bytewise fast path for data-only lists, the
   traversal limit consumed by every Struct.Ptr, Go panics as [EPanic].
   The two pointers live in message A and message B, or both in message A ([ec_same]); a
   message is its segments, capability table (client ids, 0 = nil client) and read limit.
   [fx_bitlist]: false = the code as found (defect F01: a bit list has element size 0, so
   the fast path compares 0 bytes), true = the repaired code.
   [fx_farnull]: false = as found (O3: the extra pointers of the longer struct are tested by
   their raw word, so a far pointer to a null landing pad counts as a pointer), true = repaired.
   No proofs in this file. *)
From CV Require Export Value.ValueEq.
Open Scope Z_scope.

Record efix := mkEFix { fx_bitlist : bool; fx_farnull : bool; fx_rd : fixes }.

(* the static context of one comparison: the two messages (segments, capability table) and
   whether both pointers belong to message A; the state is the pair of remaining read limits *)
Record ectx := mkEC {
  ec_segs_a : segs; ec_caps_a : list Z;
  ec_segs_b : segs; ec_caps_b : list Z;
  ec_same : bool
}.
Definition lims := (Z * Z)%type.

Inductive side := SA | SB.
Definition on_a (x : ectx) (s : side) : bool := ec_same x || match s with SA => true | SB => false end.
Definition segs_of (x : ectx) (s : side) : segs := if on_a x s then ec_segs_a x else ec_segs_b x.
Definition caps_of (x : ectx) (s : side) : list Z := if on_a x s then ec_caps_a x else ec_caps_b x.
Definition rl_of (x : ectx) (st : lims) (s : side) : Z := if on_a x s then fst st else snd st.
Definition put_rl (x : ectx) (st : lims) (s : side) (rl : Z) : lims :=
  if on_a x s then (rl, snd st) else (fst st, rl).

(* outcome of Equal: (bool, nil) / (false, err) / panic; fuel exhaustion is a separate
   outcome that the theorems exclude *)
Inductive eout := EOk (b : bool) | EErr | EPanic | EFuel.

Fixpoint bytes_eqb (a b : list Z) : bool :=
  match a, b with
  | [], [] => true
  | x :: r, y :: s => (x =? y) && bytes_eqb r s
  | _, _ => false
  end.

(* the three-way data comparison of the struct case *)
Definition struct_data_equal (d1 d2 : list Z) : bool :=
  let n1 := length d1 in
  let n2 := length d2 in
  if (n1 <? n2)%nat then bytes_eqb d1 (firstn n1 d2) && all_zero (skipn n1 d2)
  else if (n2 <? n1)%nat then bytes_eqb (firstn n2 d1) d2 && all_zero (skipn n2 d1)
  else bytes_eqb d1 d2.

(* Struct.hasNonNullPtr(i), i < PointerCount (the repair of O3): the raw word is non-zero and
   does not resolve, through a far pointer, to a null landing pad *)
Definition has_nonnull_ptr (strict : bool) (m : segs) (p : Ptr) (i : Z) : res bool :=
  do v <- readRawPointer (seg_of m p) (pointerAddress p i);
  if v =? 0 then Ok false
  else match resolveFarPointer strict m (p_seg p) (seg_of m p) (pointerAddress p i) with
       | Ok (_, _, _, val) => Ok (negb (val =? 0))
       | Err => Ok true
       | Panic => Panic
       end.

(* for i := from; i < from+n; i++ { if s.hasNonNullPtr(i) { return false } }
   ([fixed] = false, as found: s.HasPtr(i), the raw pointer word) *)
Fixpoint no_ptrs (fixed strict : bool) (m : segs) (p : Ptr) (n : nat) (i : Z) : res bool :=
  match n with
  | O => Ok true
  | S n' => do h <- (if fixed then has_nonnull_ptr strict m p i else struct_hasptr m p i);
            if h then Ok false else no_ptrs fixed strict m p n' (i + 1)
  end.

(* Interface case *)
Definition client_of (caps : list Z) (i : Z) : Z :=
  if (0 <=? i) && (i <? zlen caps) then nth (Z.to_nat i) caps 0 else 0.

Definition iface_equal (x : ectx) (p q : Ptr) : bool :=
  let same_msg := ec_same x in
  let c1 := caps_of x SA in
  let c2 := caps_of x SB in
  if same_msg && (p_len p =? p_len q) then true
  else if same_msg && ((p_len p >=? zlen c1) || (p_len q >=? zlen c1)) then false
  else client_of c1 (p_len p) =? client_of c2 (p_len q).

(* the repaired bit-list comparison: whole bytes, then the used bits of the last byte *)
Definition bits_equal (d1 d2 : list Z) (n : Z) : bool :=
  let sz := length d1 in
  let rem := n mod 8 in
  if rem =? 0 then bytes_eqb d1 d2
  else
    let l1 := nth (sz - 1) d1 0 in
    let l2 := nth (sz - 1) d2 0 in
    (l1 mod 2 ^ rem =? l2 mod 2 ^ rem) && bytes_eqb (firstn (sz - 1) d1) (firstn (sz - 1) d2).

(* [rec] is the recursive call (Equal on two child pointers / two list elements) *)
Definition erec := lims -> Ptr -> Ptr -> eout * lims.

(* for i := 0; i < n; i++ { sp1 := s1.Ptr(i); sp2 := s2.Ptr(i); Equal(sp1, sp2) } *)
Definition ptr_loop (c : config) (x : ectx) (rec : erec) (p q : Ptr) : nat -> Z -> lims -> eout * lims :=
  fix loop (k : nat) (i : Z) (w : lims) {struct k} : eout * lims :=
    match k with
    | O => (EOk true, w)
    | S k' =>
      let '(r1, rl1) := struct_ptr c (segs_of x SA) (rl_of x w SA) p i in
      let w1 := put_rl x w SA rl1 in
      match r1 with
      | Panic => (EPanic, w1) | Err => (EErr, w1)
      | Ok sp1 =>
        let '(r2, rl2) := struct_ptr c (segs_of x SB) (rl_of x w1 SB) q i in
        let w2 := put_rl x w1 SB rl2 in
        match r2 with
        | Panic => (EPanic, w2) | Err => (EErr, w2)
        | Ok sp2 =>
          match rec w2 sp1 sp2 with
          | (EOk true, w3) => loop k' (i + 1) w3
          | other => other
          end
        end
      end
    end.

(* for i := 0; i < l1.Len(); i++ { Equal(l1.Struct(i).ToPtr(), l2.Struct(i).ToPtr()) } *)
Definition elem_loop (fxd : bool) (rec : erec) (p q : Ptr) : nat -> Z -> lims -> eout * lims :=
  fix loop (k : nat) (i : Z) (w : lims) {struct k} : eout * lims :=
    match k with
    | O => (EOk true, w)
    | S k' =>
      match list_struct fxd p i with
      | Panic => (EPanic, w) | Err => (EErr, w)
      | Ok e1 =>
        match list_struct fxd q i with
        | Panic => (EPanic, w) | Err => (EErr, w)
        | Ok e2 =>
          match rec w e1 e2 with
          | (EOk true, w') => loop k' (i + 1) w'
          | other => other
          end
        end
      end
    end.

(* the struct case *)
Definition equal_struct (c : config) (fx : efix) (x : ectx) (rec : erec) (w : lims) (p q : Ptr) : eout * lims :=
  let m1 := segs_of x SA in
  let m2 := segs_of x SB in
  match slice (seg_of m1 p) (p_off p) (DataSize (p_size p)) with
  | Panic => (EPanic, w) | Err => (EErr, w)
  | Ok d1 =>
    match slice (seg_of m2 q) (p_off q) (DataSize (p_size q)) with
    | Panic => (EPanic, w) | Err => (EErr, w)
    | Ok d2 =>
      if negb (struct_data_equal d1 d2) then (EOk false, w) else
      let pc1 := PointerCount (p_size p) in
      let pc2 := PointerCount (p_size q) in
      let n := Z.min pc1 pc2 in
      match ptr_loop c x rec p q (Z.to_nat n) 0 w with
      | (EOk true, w') =>
        match no_ptrs (fx_farnull fx) (cfg_strict c) m1 p (Z.to_nat (pc1 - n)) n with
        | Panic => (EPanic, w') | Err => (EErr, w')
        | Ok false => (EOk false, w')
        | Ok true =>
          match no_ptrs (fx_farnull fx) (cfg_strict c) m2 q (Z.to_nat (pc2 - n)) n with
          | Panic => (EPanic, w') | Err => (EErr, w')
          | Ok b => (EOk b, w')
          end
        end
      | other => other
      end
    end
  end.

(* the list case *)
Definition equal_list (fx : efix) (x : ectx) (rec : erec) (w : lims) (p q : Ptr) : eout * lims :=
  let m1 := segs_of x SA in
  let m2 := segs_of x SB in
  if negb (list_len p =? list_len q) then (EOk false, w)
  else
    (* the repair of F01 *)
    let bit_case : option (eout * lims) :=
      if fx_bitlist fx then
        if negb (Bool.eqb (p_bit p) (p_bit q)) then Some (EOk false, w)
        else if p_bit p then
          let sz := bitListSize (p_len p) in
          match slice (seg_of m1 p) (p_off p) sz with
          | Panic => Some (EPanic, w) | Err => Some (EErr, w)
          | Ok d1 =>
            match slice (seg_of m2 q) (p_off q) sz with
            | Panic => Some (EPanic, w) | Err => Some (EErr, w)
            | Ok d2 => Some (EOk (bits_equal d1 d2 (p_len p)), w)
            end
          end
        else None
      else None in
    match bit_case with
    | Some r => r
    | None =>
      if negb (p_comp p) && negb (p_comp q) && negb (os_eqb (p_size p) (p_size q)) then (EOk false, w)
      else if (PointerCount (p_size p) =? 0) && (PointerCount (p_size q) =? 0)
              && (DataSize (p_size p) =? DataSize (p_size q)) then
        (* pure data lists are compared bytewise *)
        let sz := match times (totalSize (p_size p)) (p_len p) with Some x => x | None => 4294967295 end in
        match slice (seg_of m1 p) (p_off p) sz with
        | Panic => (EPanic, w) | Err => (EErr, w)
        | Ok d1 =>
          match slice (seg_of m2 q) (p_off q) sz with
          | Panic => (EPanic, w) | Err => (EErr, w)
          | Ok d2 => (EOk (bytes_eqb d1 d2), w)
          end
        end
      else elem_loop (fx_depth (fx_rd fx)) rec p q (Z.to_nat (list_len p)) 0 w
    end.

(* one level of Equal *)
Definition equal_step (c : config) (fx : efix) (x : ectx) (rec : erec) (w : lims) (p q : Ptr) : eout * lims :=
  if negb (p_valid p) && negb (p_valid q) then (EOk true, w)
  else if negb (p_valid p) || negb (p_valid q) then (EOk false, w)
  else
    match p_kind p, p_kind q with
    | KStruct, KStruct => equal_struct c fx x rec w p q
    | KList, KList => equal_list fx x rec w p q
    | KIface, KIface => (EOk (iface_equal x p q), w)
    | _, _ => (EOk false, w)
    end.

Fixpoint equal_m (fuel : nat) (c : config) (fx : efix) (x : ectx) (w : lims) (p q : Ptr) {struct fuel}
  : eout * lims :=
  match fuel with
  | O => (EFuel, w)
  | S f => equal_step c fx x (equal_m f c fx x) w p q
  end.

(* ------------------------------------------------------------------ the harness entry *)
(* how a pointer under comparison is obtained: the root, or field i of the root struct *)
Inductive sel := SelRoot | SelField (i : Z).

Definition select (c : config) (m : segs) (rl : Z) (s : sel) : res Ptr * Z :=
  match s with
  | SelRoot => root c m rl
  | SelField i =>
    match root c m rl with
    | (Ok r, rl1) => struct_ptr c m rl1 (as_struct r) i
    | other => other
    end
  end.

(* Equal(select A sa, select (same ? A : B) sb); result and the remaining limits *)
Definition run_equal (fuel : nat) (ca cb : config) (fx : efix)
           (ma : segs) (capsa : list Z) (mb : segs) (capsb : list Z) (same : bool)
           (sa sb : sel) : eout * Z * Z :=
  let '(rp, rla) := select ca ma (init_rlimit ca) sa in
  let '(rq, rlb) := if same then select ca ma rla sb else select cb mb (init_rlimit cb) sb in
  let x := mkEC ma capsa mb capsb same in
  let w : lims := if same then (rlb, 0) else (rla, rlb) in
  match rp, rq with
  | Ok p, Ok q =>
    let '(r, w') := equal_m fuel ca fx x w p q in (r, fst w', snd w')
  | Panic, _ | _, Panic => (EPanic, fst w, snd w)
  | _, _ => (EErr, fst w, snd w)
  end.

(* every declared list length is within the walker's cap (nothing was cut off, and [denote]
   does not expand a huge void list) *)
Fixpoint tree_small (cap : Z) (t : tree) : bool :=
  match t with
  | TStruct _ ps => forallb (tree_small cap) ps
  | TPtrs n es | TComp n _ es => (n <=? cap) && forallb (tree_small cap) es
  | TPrim _ n _ | TBits n _ => n <=? cap
  | _ => true
  end.

(* the documented equality evaluated on the walked trees (fresh limits) *)
Definition spec_equal (fuel : nat) (ca cb : config) (fx : fixes)
           (ma : segs) (capsa : list Z) (mb : segs) (capsb : list Z) (same : bool)
           (sa sb : sel) (dcap pcap : Z) : option bool * tree * tree :=
  let '(rp, rla) := select ca ma (init_rlimit ca) sa in
  let '(ta, _) := walk ca fx ma dcap pcap fuel rla rp in
  let cb' := if same then ca else cb in
  let mb' := if same then ma else mb in
  let capsb' := if same then capsa else capsb in
  let '(rq, rlb) := select cb' mb' (init_rlimit cb') sb in
  let '(tb, _) := walk cb' fx mb' dcap pcap fuel rlb rq in
  (if tree_ok ta && tree_ok tb && tree_small pcap ta && tree_small pcap tb
   then Some (value_eq (denote 0 capsa ta) (denote (if same then 0 else 1) capsb' tb))
   else None, ta, tb).
