(* C17 at the model level: the full correctness statement of equal_m ([T1], NOT proved in
   full: see docs/C17.md), what follows from it, the cases proved (null pointers, kind
   mismatch, capabilities), and the F01 witnesses on the as-found variant. *)
From CV Require Import Value.ValueEq Value.ValueEqProofs Value.EqualM Value.CanonSpec.
Open Scope Z_scope.

(* ------------------------------------------------------------------ the statement *)
(* [p] in message [m] denotes [v]: a complete, error-free walk (caps large enough that
   nothing is cut off) yields a tree whose value is v *)
Definition denotes (c : config) (fx : fixes) (m : segs) (mid : Z) (caps : list Z) (p : Ptr) (v : value) : Prop :=
  exists fuel rl rl' dcap pcap t,
    524288 <= dcap /\ 65536 <= pcap /\
    walk c fx m dcap pcap fuel rl (Ok p) = (t, rl') /\
    tree_ok t = true /\ tree_small pcap t = true /\ v = denote mid caps t.

(* every far pointer lands on a non-null word (a far pointer to a null word reads as null
   through Struct.Ptr but as "has pointer" through Struct.HasPtr: observation O3) *)
Definition far_ok (m : segs) : Prop :=
  forall sid s paddr dsid dst base val raw,
    resolveFarPointer true m sid s paddr = Ok (dsid, dst, base, val) ->
    readRawPointer s paddr = Ok raw -> raw <> 0 -> val <> 0.

Definition all_fixed (fx : efix) : Prop :=
  fx_bitlist fx = true /\ fx_farnull fx = true /\ fx_depth (fx_rd fx) = true /\ fx_upgrade (fx_rd fx) = true /\ fx_bit (fx_rd fx) = true.

(* [T1] whenever Equal returns (b, nil), b is the documented equality of the two values *)
Definition equal_m_correct_statement : Prop :=
  forall fuel c fx w p q b w' va vb,
    all_fixed fx -> far_ok (w_segs_of w SA) -> far_ok (w_segs_of w SB) ->
    equal_m fuel c fx w p q = (EOk b, w') ->
    denotes c (fx_rd fx) (w_segs_of w SA) 0 (w_caps_of w SA) p va ->
    denotes c (fx_rd fx) (w_segs_of w SB) (if ew_same w then 0 else 1) (w_caps_of w SB) q vb ->
    b = value_eq va vb.

(* ------------------------------------------------------------------ what follows from it *)
(* layout independence: two pointers (any layouts, any messages) denoting values that are
   equal are Equal, whenever Equal answers at all *)
Theorem equal_layout_independent_if : equal_m_correct_statement ->
  forall fuel c fx w p q b w' va vb,
    all_fixed fx -> far_ok (w_segs_of w SA) -> far_ok (w_segs_of w SB) ->
    equal_m fuel c fx w p q = (EOk b, w') ->
    denotes c (fx_rd fx) (w_segs_of w SA) 0 (w_caps_of w SA) p va ->
    denotes c (fx_rd fx) (w_segs_of w SB) (if ew_same w then 0 else 1) (w_caps_of w SB) q vb ->
    value_eq va vb = true -> b = true.
Proof. intros Hm * Hf Ha Hb He Hp Hq Hv. rewrite <- Hv. eapply Hm; eauto. Qed.

(* reflexivity: a pointer compared with itself (same message) *)
Theorem equal_refl_if : equal_m_correct_statement ->
  forall fuel c fx w p b w' v,
    all_fixed fx -> ew_same w = true -> far_ok (w_segs_of w SA) ->
    equal_m fuel c fx w p p = (EOk b, w') ->
    denotes c (fx_rd fx) (w_segs_of w SA) 0 (w_caps_of w SA) p v ->
    b = true.
Proof.
  intros Hm * Hf Hs Ha He Hp. rewrite <- (value_eq_refl v).
  assert (E : w_segs_of w SB = w_segs_of w SA) by (unfold w_segs_of, on_a; rewrite Hs; reflexivity).
  assert (E2 : w_caps_of w SB = w_caps_of w SA) by (unfold w_caps_of, on_a; rewrite Hs; reflexivity).
  eapply Hm; eauto.
  - rewrite E. exact Ha.
  - rewrite E, E2, Hs. exact Hp.
Qed.

(* symmetry: swapping the arguments gives the same answer (both pointers in one message; across
   two messages the roles of A and B are exchanged as well, same argument) *)
Theorem equal_sym_if : equal_m_correct_statement ->
  forall fuel c fx w p q b1 b2 w1 w2 va vb,
    all_fixed fx -> ew_same w = true -> far_ok (w_segs_of w SA) ->
    equal_m fuel c fx w p q = (EOk b1, w1) ->
    equal_m fuel c fx w q p = (EOk b2, w2) ->
    denotes c (fx_rd fx) (w_segs_of w SA) 0 (w_caps_of w SA) p va ->
    denotes c (fx_rd fx) (w_segs_of w SA) 0 (w_caps_of w SA) q vb ->
    b1 = b2.
Proof.
  intros Hm * Hf Hs Ha H1 H2 Hp Hq.
  assert (E : w_segs_of w SB = w_segs_of w SA) by (unfold w_segs_of, on_a; rewrite Hs; reflexivity).
  assert (E2 : w_caps_of w SB = w_caps_of w SA) by (unfold w_caps_of, on_a; rewrite Hs; reflexivity).
  rewrite (Hm _ _ _ _ _ _ _ _ va vb Hf Ha ltac:(rewrite E; exact Ha) H1 Hp ltac:(rewrite E, E2, Hs; exact Hq)).
  rewrite (Hm _ _ _ _ _ _ _ _ vb va Hf Ha ltac:(rewrite E; exact Ha) H2 Hq ltac:(rewrite E, E2, Hs; exact Hp)).
  apply value_eq_sym.
Qed.

(* ------------------------------------------------------------------ cases proved *)
(* a null pointer is Equal to null only *)
Theorem equal_m_null_partial : forall f c fx w p q,
  p_valid p = false ->
  equal_m (S f) c fx w p q = (EOk (negb (p_valid q)), w)
  /\ equal_m (S f) c fx w q p = (EOk (negb (p_valid q)), w).
Proof.
  intros f c fx w p q Hp. cbn [equal_m]. rewrite Hp. cbn [negb andb orb].
  destruct (p_valid q); cbn; split; reflexivity.
Qed.

(* ... and so is the value: a complete walk of a valid pointer never yields VNull *)
Lemma walk_valid_not_null : forall c fx m dcap pcap fuel rl p t rl' mid caps,
  p_valid p = true -> walk c fx m dcap pcap fuel rl (Ok p) = (t, rl') -> tree_ok t = true ->
  is_null (denote mid caps t) = false.
Proof.
  intros c fx m dcap pcap fuel rl p t rl' mid caps Hv Hw Ht.
  destruct fuel as [|f]; cbn [walk] in Hw; rewrite Hv in Hw; cbn [negb] in Hw.
  - inversion Hw; subst. discriminate.
  - destruct (p_kind p).
    + destruct (collect _ _ _) as [data| |]; try (inversion Hw; subst; discriminate).
      destruct (iter_rl _ _ _ _) as [ps rl1]. inversion Hw; subst. reflexivity.
    + destruct (p_bit p).
      * destruct (collect _ _ _) as [bs| |]; inversion Hw; subst; try discriminate; reflexivity.
      * destruct (p_comp p).
        -- destruct (iter_rl _ _ _ _) as [es rl1]. inversion Hw; subst. reflexivity.
        -- destruct (0 <? PointerCount (p_size p)).
           ++ destruct (iter_rl _ _ _ _) as [es rl1]. inversion Hw; subst. reflexivity.
           ++ destruct (DataSize (p_size p) =? 0); [inversion Hw; subst; reflexivity|].
              destruct (collect _ _ _) as [vs| |]; inversion Hw; subst; try discriminate; reflexivity.
    + inversion Hw; subst. reflexivity.
Qed.

(* capabilities: Equal's interface case is the capability identity of the values *)
Theorem equal_m_iface_partial : forall f c fx w p q,
  is_iface p = true -> is_iface q = true -> 0 <= p_len p -> 0 <= p_len q ->
  equal_m (S f) c fx w p q =
  (EOk (value_eq (denote 0 (w_caps_of w SA) (TCap (p_len p)))
                 (denote (if ew_same w then 0 else 1) (w_caps_of w SB) (TCap (p_len q)))), w).
Proof.
  intros f c fx w p q Hp Hq H0p H0q. unfold is_iface in *.
  apply andb_prop in Hp. destruct Hp as [Hvp Hkp]. apply andb_prop in Hq. destruct Hq as [Hvq Hkq].
  cbn [equal_m]. rewrite Hvp, Hvq. cbn [negb andb orb].
  destruct (p_kind p); try discriminate. destruct (p_kind q); try discriminate.
  f_equal. f_equal. cbn [denote]. unfold value_eq. cbn [veq]. unfold iface_equal, cap_eq, mk_capv. cbn [cv_msg cv_idx cv_intab cv_client].
  unfold w_caps_of, on_a. destruct (ew_same w) eqn:Es; cbn [orb andb Z.eqb].
  - unfold client_of.
    destruct (p_len p =? p_len q) eqn:E1; [reflexivity|]. cbn [orb].
    assert (Hza : 0 <= zlen (ew_caps_a w)) by (unfold zlen; lia).
    destruct (p_len p >=? zlen (ew_caps_a w)) eqn:E2; destruct (p_len q >=? zlen (ew_caps_a w)) eqn:E3; cbn [orb].
    + replace (p_len p <? zlen (ew_caps_a w)) with false by lia. rewrite andb_false_r. reflexivity.
    + replace (p_len p <? zlen (ew_caps_a w)) with false by lia. rewrite andb_false_r. reflexivity.
    + replace (p_len q <? zlen (ew_caps_a w)) with false by lia. rewrite !andb_false_r. reflexivity.
    + replace (0 <=? p_len p) with true by lia. replace (0 <=? p_len q) with true by lia.
      replace (p_len p <? zlen (ew_caps_a w)) with true by lia. replace (p_len q <? zlen (ew_caps_a w)) with true by lia.
      reflexivity.
  - unfold client_of. reflexivity.
Qed.

(* ------------------------------------------------------------------ F01: the code as found *)
Definition wbytes (ws : list Z) : list Z := flat_map (le_encode 8) ws.
(* root struct with one pointer: a 3-element bit list / void list *)
Definition msg_bits (b : Z) : segs := [wbytes [struct_word 0 0 1; list_word 0 1 3; b]].
Definition msg_void : segs := [wbytes [struct_word 0 0 1; list_word 0 0 3]].
Definition cfg0 := mkCfg 0 0 true true.
Definition rdfix := mkFix true true true.
Definition eq_res (r : eout * Z * Z) : eout := fst (fst r).

(* as found: bit lists that differ are Equal, and a bit list is Equal to a void list of the
   same length, against the documented equality of the walked trees *)
Example equal_prefix_refuted :
  eq_res (run_equal 20 cfg0 cfg0 (mkEFix false false rdfix) (msg_bits 5) [] (msg_bits 2) [] false SelRoot SelRoot) = EOk true
  /\ fst (fst (spec_equal 20 cfg0 cfg0 rdfix (msg_bits 5) [] (msg_bits 2) [] false SelRoot SelRoot 1024 64)) = Some false
  /\ eq_res (run_equal 20 cfg0 cfg0 (mkEFix false false rdfix) (msg_bits 5) [] msg_void [] false SelRoot SelRoot) = EOk true
  /\ fst (fst (spec_equal 20 cfg0 cfg0 rdfix (msg_bits 5) [] msg_void [] false SelRoot SelRoot 1024 64)) = Some false.
Proof. vm_compute. repeat split. Qed.

(* repaired: the same inputs are unequal; equal bits with different padding are Equal *)
Example equal_fixed_witness :
  eq_res (run_equal 20 cfg0 cfg0 (mkEFix true true rdfix) (msg_bits 5) [] (msg_bits 2) [] false SelRoot SelRoot) = EOk false
  /\ eq_res (run_equal 20 cfg0 cfg0 (mkEFix true true rdfix) (msg_bits 5) [] msg_void [] false SelRoot SelRoot) = EOk false
  /\ eq_res (run_equal 20 cfg0 cfg0 (mkEFix true true rdfix) (msg_bits 5) [] (msg_bits (5 + 128)) [] false SelRoot SelRoot) = EOk true.
Proof. vm_compute. repeat split. Qed.
