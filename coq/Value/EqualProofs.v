(* C17 at the model level: witnesses.  The correctness theorem of equal_m is in
   EqualCorrect.v (equal_m_correct and its corollaries).  Here: non-vacuity of [den], and the
   defects F01 / O3 on the as-found variants of the model. *)
From CV Require Import Value.ValueEq Value.ValueEqProofs Value.EqualM Value.CanonSpec Value.Den.
Open Scope Z_scope.

Definition wbytes (ws : list Z) : list Z := flat_map (le_encode 8) ws.
(* root struct with one pointer: a 3-element bit list / void list *)
Definition msg_bits (b : Z) : segs := [wbytes [struct_word 0 0 1; list_word 0 1 3; b]].
Definition msg_void : segs := [wbytes [struct_word 0 0 1; list_word 0 0 3]].
Definition cfg0 := mkCfg 0 0 true true.
Definition rdfix := mkFix true true true.
Definition eq_res (r : eout * Z * Z) : eout := fst (fst r).
Definition asfound_e := mkEFix false false rdfix.
Definition repaired_e := mkEFix true true rdfix.

(* ------------------------------------------------------------------ den is inhabited *)
Example den_example :
  exists p, fst (root cfg0 (msg_bits 5) 1000) = Ok p
            /\ den true (msg_bits 5) 0 [] p (VStruct [] [VBits [true; false; true]]).
Proof.
  eexists. split; [vm_compute; reflexivity|].
  change (@nil Z) with (words_of_bytes []).
  eapply den_struct; try reflexivity.
  - unfold wf_size. cbn. lia.
  - intros i Hi. cbn in Hi. assert (i = 0) by lia. subst i.
    exists 1, 1000. eexists. eexists. split; [vm_compute; reflexivity|].
    change [true; false; true] with (bits_of (Z.to_nat 3) [5]).
    apply den_bits; try reflexivity. cbn. lia.
Qed.

(* ------------------------------------------------------------------ F01: the code as found *)
(* as found: bit lists that differ are Equal, and a bit list is Equal to a void list of the
   same length, against the documented equality of the walked trees *)
Example equal_prefix_refuted :
  eq_res (run_equal 20 cfg0 cfg0 asfound_e (msg_bits 5) [] (msg_bits 2) [] false SelRoot SelRoot) = EOk true
  /\ fst (fst (spec_equal 20 cfg0 cfg0 rdfix (msg_bits 5) [] (msg_bits 2) [] false SelRoot SelRoot 1024 64)) = Some false
  /\ eq_res (run_equal 20 cfg0 cfg0 asfound_e (msg_bits 5) [] msg_void [] false SelRoot SelRoot) = EOk true
  /\ fst (fst (spec_equal 20 cfg0 cfg0 rdfix (msg_bits 5) [] msg_void [] false SelRoot SelRoot 1024 64)) = Some false.
Proof. vm_compute. repeat split. Qed.

(* repaired: the same inputs are unequal; equal bits with different padding are Equal *)
Example equal_fixed_witness :
  eq_res (run_equal 20 cfg0 cfg0 repaired_e (msg_bits 5) [] (msg_bits 2) [] false SelRoot SelRoot) = EOk false
  /\ eq_res (run_equal 20 cfg0 cfg0 repaired_e (msg_bits 5) [] msg_void [] false SelRoot SelRoot) = EOk false
  /\ eq_res (run_equal 20 cfg0 cfg0 repaired_e (msg_bits 5) [] (msg_bits (5 + 128)) [] false SelRoot SelRoot) = EOk true.
Proof. vm_compute. repeat split. Qed.

(* ------------------------------------------------------------------ O3: the code as found *)
(* struct with pointers [null; far pointer to a null landing pad]  vs  struct with [null]:
   the values are equal (both pointers read as null); as found Equal says false *)
Definition msg_farnull : segs := [wbytes [struct_word 0 0 2; 0; 2 + 3 * 8; 0]].
Definition msg_onenull : segs := [wbytes [struct_word 0 0 1; 0]].

Example equal_farnull_prefix_refuted :
  eq_res (run_equal 20 cfg0 cfg0 (mkEFix true false rdfix) msg_farnull [] msg_onenull [] false SelRoot SelRoot) = EOk false
  /\ fst (fst (spec_equal 20 cfg0 cfg0 rdfix msg_farnull [] msg_onenull [] false SelRoot SelRoot 1024 64)) = Some true
  /\ eq_res (run_equal 20 cfg0 cfg0 repaired_e msg_farnull [] msg_onenull [] false SelRoot SelRoot) = EOk true.
Proof. vm_compute. repeat split. Qed.
