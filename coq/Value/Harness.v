(* Entries for the correspondence drivers that evaluate the specification on the value of
   VDec.vdec -- the executable decoder proved sound for [den] (VDecProofs.vdec_den), i.e. on the
   very value the theorems C17_equal_m_correct / C18 [T2] speak about.  The walked trees are
   still produced (they tie the Go walker to the model walker) and gate the comparison: the
   value is only used when both walks are complete.  No proofs in this file. *)
From CV Require Export Value.EqualM Value.VDec Value.CanonSpec Value.CanonM.
Open Scope Z_scope.

Definition vdec_res (lcap : Z) (m : segs) (mid : Z) (caps : list Z) (r : res Ptr) : option value :=
  match r with Ok p => vdec 64 lcap m mid caps p | _ => None end.

(* None: a walk is incomplete; Some None: walks complete but the decoder gave no value (must not
   happen); Some (Some b): the documented equality of the two values *)
Definition spec_equal_v (fuel : nat) (ca cb : config) (fx : fixes)
           (ma : segs) (capsa : list Z) (mb : segs) (capsb : list Z) (same : bool)
           (sa sb : sel) (dcap pcap : Z) : option (option bool) * tree * tree :=
  let '(rp, rla) := select ca ma (init_rlimit ca) sa in
  let '(ta, _) := walk ca fx ma dcap pcap fuel rla rp in
  let cb' := if same then ca else cb in
  let mb' := if same then ma else mb in
  let capsb' := if same then capsa else capsb in
  let '(rq, rlb) := select cb' mb' (init_rlimit cb') sb in
  let '(tb, _) := walk cb' fx mb' dcap pcap fuel rlb rq in
  (if tree_ok ta && tree_ok tb && tree_small pcap ta && tree_small pcap tb
   then Some (match vdec_res pcap ma 0 capsa rp, vdec_res pcap mb' (if same then 0 else 1) capsb' rq with
              | Some va, Some vb => Some (value_eq va vb)
              | _, _ => None
              end)
   else None, ta, tb).

(* the canonical form of the decoded value: None: walk incomplete; Some None: no value;
   Some (Some r): r = canon v (None inside = capability / size) *)
Definition spec_canon_v (fuel : nat) (c : config) (fx : fixes) (m : segs) (s : sel) (dcap pcap : Z)
  : option (option (option (list Z))) * tree :=
  let '(rp, rl) := select c m (init_rlimit c) s in
  let rp := match rp with Ok p => Ok (as_struct p) | other => other end in
  let '(t, _) := walk c fx m dcap pcap fuel rl rp in
  (if tree_ok t && tree_small pcap t
   then Some (match vdec_res pcap m 0 [] rp with Some v => Some (canon v) | None => None end)
   else None, t).

(* the same with the pointer already selected (list members) *)
Definition spec_canon_v_p (fuel : nat) (c : config) (fx : fixes) (m : segs) (sp : res Ptr * Z) (dcap pcap : Z)
  : option (option (option (list Z))) * tree :=
  let '(rp, rl) := sp in
  let rp := match rp with Ok p => Ok (as_struct p) | other => other end in
  let '(t, _) := walk c fx m dcap pcap fuel rl rp in
  (if tree_ok t && tree_small pcap t
   then Some (match vdec_res pcap m 0 [] rp with Some v => Some (canon v) | None => None end)
   else None, t).

(* boundary-size inputs: the walker and the step-by-step models are quadratic on the list-based
   memory, the decoder and the specification are not: spec only, no tree *)
Definition spec_canon_big (c : config) (m : segs) (s : sel) (lcap : Z) : option (option (list Z)) :=
  let '(rp, _) := select c m (init_rlimit c) s in
  match rp with
  | Ok p => match vdec 64 lcap m 0 [] (as_struct p) with Some v => Some (canon v) | None => None end
  | _ => None
  end.

Definition spec_equal_big (ca cb : config) (ma mb : segs) (sa sb : sel) (lcap : Z) : option bool :=
  let '(rp, _) := select ca ma (init_rlimit ca) sa in
  let '(rq, _) := select cb mb (init_rlimit cb) sb in
  match vdec_res lcap ma 0 [] rp, vdec_res lcap mb 1 [] rq with
  | Some va, Some vb => Some (value_eq va vb)
  | _, _ => None
  end.
