(* C02 for capnp.Canonicalize (Value/CanonM.v): the bytes appended to the destination are bounded
   by the traversal budget consumed from the (hostile) source.  Same ghost counter and
   potential as Core/CopyAlloc.v:  Phi w = tot (destination) + 5 * (remaining source budget).
     fill_canonical into dst:  Phi w' <= Phi w + 32 * PointerCount (p_size dst)
     canonical_ptr / canonical_list of p: Phi w' <= Phi w + readSize p + 15 + 32 * slots p
   The canonical size of a struct never exceeds its size in the source, so a canonical copy
   costs at most the object's read size + 15 (padding, composite tag) and one landing pad (16)
   per pointer written. *)
From CV Require Import Value.CanonM Value.EqualSafe Value.CanonSafe Core.CopySafe Core.CopyAlloc Core.LimitProofs
                       Core.BuilderFacts Core.AllocProofs Core.WritePtrProofs Core.HeapProofs.
From Coq Require Import ZifyBool ZifyNat.
Open Scope Z_scope.
Ltac Zify.zify_post_hook ::= Z.div_mod_to_equations.

(* ------------------------------------------------------------------ canonical sizes are not larger *)
Lemma css_data_le m s : msg_ok m -> wf_struct m s -> p_valid s = true ->
  forall k, Z.of_nat k <= 65535 -> res_sat (css_data m s k) (fun d => 0 <= d <= DataSize (p_size s) /\ d mod 8 = 0).
Proof.
  intros Hm Hw V. destruct (wf_struct_inv m s Hw V) as (_ & Hz & _). unfold wf_size in Hz.
  assert (forall k, Z.of_nat k <= 65535 ->
            match struct_uint m s (8 * Z.of_nat k) 8 with
            | Ok v => v <> 0 -> 8 * Z.of_nat k + 8 <= DataSize (p_size s) | _ => False end) as Hrd.
  { intros k Hk. rewrite (struct_uint_spec m s (8 * Z.of_nat k) 8 Hm Hw V) by lia.
    destruct (8 * Z.of_nat k + 8 <=? DataSize (p_size s)) eqn:E; intros; lia. }
  induction k as [|k IH]; intros Hk; cbn [css_data].
  - specialize (Hrd 0%nat Hk). destruct (struct_uint m s (8 * Z.of_nat 0) 8) as [v| |]; cbn [bind]; [|destruct Hrd|destruct Hrd].
    destruct (v =? 0) eqn:E; cbn [negb res_sat]; cbv beta; [lia|]. specialize (Hrd ltac:(lia)). lia.
  - specialize (Hrd (S k) Hk). destruct (struct_uint m s (8 * Z.of_nat (S k)) 8) as [v| |]; cbn [bind]; [|destruct Hrd|destruct Hrd].
    destruct (v =? 0) eqn:E; cbn [negb]; [apply IH; lia|]. cbn [res_sat]. cbv beta. specialize (Hrd ltac:(lia)). lia.
Qed.

(* canonicalStructSize s <= size of s, data size a whole number of words *)
Definition csz_le (s : Ptr) (sz : ObjectSize) : Prop :=
  0 <= DataSize sz /\ DataSize sz mod 8 = 0 /\ 0 <= PointerCount sz /\
  (p_valid s = true -> DataSize sz <= DataSize (p_size s) /\ PointerCount sz <= PointerCount (p_size s)) /\
  (p_valid s = false -> DataSize sz = 0 /\ PointerCount sz = 0).

Lemma canonicalStructSize_le fixed strict m s : msg_ok m -> wf_struct m s ->
  res_sat (canonicalStructSize fixed strict m s) (csz_le s).
Proof.
  intros Hm Hw. unfold canonicalStructSize. destruct (p_valid s) eqn:V; cbn [negb].
  2:{ cbn [res_sat]. unfold csz_le. cbn [DataSize PointerCount]. split; [lia|]. split; [reflexivity|]. split; [lia|].
      split; [intros X; congruence|intros _; split; reflexivity]. }
  destruct (wf_struct_inv m s Hw V) as (_ & Hz & _). unfold wf_size in Hz.
  eapply res_sat_bind; [apply (css_data_le m s Hm Hw V); lia|]. intros d Hd.
  eapply res_sat_bind; [apply (css_ptrs_safe fixed strict m s Hm Hw V); lia|]. intros p Hp.
  cbv beta in Hd, Hp. cbn [res_sat]. unfold csz_le. cbn [DataSize PointerCount].
  split; [lia|]. split; [lia|]. split; [lia|]. split; [intros _; lia|intros X; congruence].
Qed.

(* element sizes of a composite list: bounded by the list's element size *)
Definition esz_le (l : Ptr) (sz : ObjectSize) : Prop :=
  0 <= DataSize sz <= DataSize (p_size l) /\ DataSize sz mod 8 = 0 /\
  0 <= PointerCount sz <= PointerCount (p_size l).

Lemma elem_size_le fixed strict fxd m l : msg_ok m -> wf_list m l -> p_valid l = true -> p_bit l = false ->
  forall n i acc, 0 <= i -> i + Z.of_nat n <= list_len l -> esz_le l acc ->
  res_sat (elem_size fixed strict fxd m l n i acc) (esz_le l).
Proof.
  intros Hm Hw V B. induction n as [|n IH]; intros i acc Hi Hn Ha; cbn [elem_size]; [exact Ha|].
  pose proof (list_struct_safe fxd m l i Hm Hw ltac:(lia)) as LS.
  assert (forall e, list_struct fxd l i = Ok e -> p_valid e = true -> p_size e = p_size l) as Hsz.
  { intros e. unfold list_struct. destruct (_ || _ || _); [discriminate|]. rewrite B.
    destruct (element _ _ _); intros X; inversion X; [reflexivity|discriminate]. }
  destruct (list_struct fxd l i) as [e| |]; cbn [bind res_sat] in *; [|exact I|exact LS].
  pose proof (canonicalStructSize_le fixed strict m e Hm LS) as CS.
  destruct (canonicalStructSize fixed strict m e) as [sz| |]; cbn [bind res_sat] in *; [|exact I|exact CS].
  apply IH; try lia. destruct CS as (C1 & C2 & C3 & C4 & C5). destruct Ha as (A1 & A2 & A3).
  unfold esz_le. cbn [DataSize PointerCount].
  destruct (p_valid e) eqn:Ve.
  - rewrite (Hsz e eq_refl Ve) in C4. specialize (C4 eq_refl).
    repeat split; lia.
  - specialize (C5 eq_refl). destruct C5 as [-> ->]. rewrite !Z.max_l by lia. repeat split; lia.
Qed.

(* ------------------------------------------------------------------ constructors: bytes appended *)
Lemma padToWord_id x : 0 <= x <= 4294967288 -> x mod 8 = 0 -> padToWord x = x.
Proof. unfold padToWord, u32. lia. Qed.

Lemma newStruct_tot m sid sz m' p : dok m -> 0 <= sid < nsegs m -> csz_ok sz ->
  newStruct m sid sz = Ok (m', p) ->
  tot m' = tot m + padToWord (DataSize sz) + 8 * PointerCount sz /\
  p_size p = mkOS (padToWord (DataSize sz)) (PointerCount sz).
Proof.
  intros Hd Hs Hc. unfold newStruct. destruct (os_isValid sz) eqn:Hv; cbn [negb]; [|discriminate].
  destruct (padded_size sz Hc Hv) as (Hw & H8 & Hts). cbv zeta in Hw, H8, Hts.
  set (sz' := mkOS (padToWord (DataSize sz)) (PointerCount sz)) in *.
  destruct (alloc m sid (totalSize sz')) as [[[m1 s1] addr]| |] eqn:EA; cbn [bind]; try discriminate.
  intros X. inversion X; subst m' p. clear X. pose proof (totalSize_bound _ Hw) as Hb.
  rewrite (alloc_tot m sid (totalSize sz') m1 s1 addr Hd Hs ltac:(lia) EA). split; [|reflexivity].
  rewrite Hts. subst sz'. unfold wf_size in Hw. cbn [DataSize PointerCount] in *.
  rewrite padToWord_id; lia.
Qed.

Lemma newPointerList_tot m sid n m' p : dok m -> 0 <= sid < nsegs m ->
  newPointerList m sid n = Ok (m', p) -> tot m' = tot m + 8 * n.
Proof.
  intros Hd Hs. unfold newPointerList. destruct (times 8 n) as [total|] eqn:Et; [|discriminate].
  apply times_spec in Et. destruct Et as [-> Et].
  destruct (alloc m sid (8 * n)) as [[[m1 s1] addr]| |] eqn:EA; cbn [bind]; try discriminate.
  intros X. inversion X; subst m' p. rewrite (alloc_tot m sid (8 * n) m1 s1 addr Hd Hs ltac:(lia) EA).
  unfold padToWord, u32, maxSegmentSize in *. lia.
Qed.

Lemma newCompositeList_tot m sid sz n m' p : dok m -> 0 <= sid < nsegs m -> csz_ok sz ->
  newCompositeList m sid sz n = Ok (m', p) ->
  tot m' = tot m + 8 + n * (padToWord (DataSize sz) + 8 * PointerCount sz) /\
  p_size p = mkOS (padToWord (DataSize sz)) (PointerCount sz).
Proof.
  intros Hd Hs Hc. unfold newCompositeList. destruct (os_isValid sz) eqn:Hv; cbn [negb]; [|discriminate].
  destruct ((n <? 0) || (n >=? 536870912)) eqn:En; [discriminate|].
  destruct (padded_size sz Hc Hv) as (Hw & H8 & Hts). cbv zeta in Hw, H8, Hts.
  set (sz' := mkOS (padToWord (DataSize sz)) (PointerCount sz)) in *.
  destruct (times (totalSize sz') n) as [total|] eqn:Et; [|discriminate].
  apply times_spec in Et. destruct Et as [-> Et].
  destruct (totalSize sz' * n >? maxSegmentSize - 8) eqn:Eb; [discriminate|]. unfold maxSegmentSize in *.
  rewrite (u32_id (8 + totalSize sz' * n)) by lia.
  destruct (alloc m sid (8 + totalSize sz' * n)) as [[[m1 s1] addr]| |] eqn:EA; cbn [bind]; try discriminate.
  pose proof (alloc_tot m sid (8 + totalSize sz' * n) m1 s1 addr Hd Hs ltac:(lia) EA) as T1.
  destruct (alloc_safe m sid (8 + totalSize sz' * n) m1 s1 addr Hd Hs ltac:(lia) EA)
    as (D1 & G1 & S1 & A0 & A1 & A2 & A3 & _).
  destruct (rawStructPointer_some n sz' H8) as [tag ->]. cbn [of_opt_panic bind].
  assert (region_ok m1 s1 addr 8) as R8 by (unfold region_ok; lia).
  destruct (writeRaw_safe m1 s1 addr tag D1 R8) as (m2 & E2 & D2 & N2 & L2 & _).
  rewrite E2. cbn [bind]. intros X. inversion X; subst m' p. clear X.
  rewrite (tot_same _ _ N2 L2), T1. split; [|reflexivity].
  rewrite Hts in *. subst sz'. cbn [DataSize PointerCount] in *.
  rewrite padToWord_id; lia.
Qed.

(* ------------------------------------------------------------------ outcomes with the potential *)
Definition kpostwk (w : world) (k : Z) (r : cout world) : Prop :=
  match r with KPanic => False | KOk w' => wgood w w' /\ Phi w' <= Phi w + k | _ => True end.
Definition kpostpk (w : world) (k : Z) (r : cout (world * Ptr)) : Prop :=
  match r with
  | KPanic => False
  | KOk (w', cp) => wgood w w' /\ cp_ok (w_dst w') cp /\ Phi w' <= Phi w + k
  | _ => True
  end.

Definition pcost (p : Ptr) : Z := if p_valid p then readSize p + 15 + 32 * slots p else 0.

Lemma kfold_postk {A} (I : A -> Prop) (Ph : A -> Z) (c : Z) (f : A -> Z -> cout A) : forall l a,
  (forall x b, In x l -> I b ->
     match f b x with KPanic => False | KOk b' => I b' /\ Ph b' <= Ph b + c | _ => True end) -> I a ->
  match kfold l a f with KPanic => False | KOk a' => I a' /\ Ph a' <= Ph a + c * zlen l | _ => True end.
Proof.
  induction l as [|x l IH]; intros a Hf Ha; cbn [kfold].
  - split; [exact Ha|]. unfold zlen. cbn [length]. lia.
  - pose proof (Hf x a (or_introl eq_refl) Ha) as H. destruct (f a x) as [b| | |]; cbn [kbind]; auto.
    destruct H as [Hb Pb].
    specialize (IH b ltac:(intros y c0 Hy; apply Hf; right; assumption) Hb).
    destruct (kfold l b f); auto. destruct IH as [I2 P2]. split; [exact I2|].
    unfold zlen in *. cbn [length]. lia.
Qed.

Lemma write_ptr_nocopy_k f w dsid off cp : dok (w_dst w) -> 0 <= w_src_rl w ->
  region_ok (w_dst w) dsid off 8 -> cp_ok (w_dst w) cp ->
  rpostk w 16 (write_ptr (S f) true w dsid off InDst cp false).
Proof.
  intros Hd Hr Hreg Hcp. rewrite write_ptr_S.
  destruct (p_valid cp) eqn:V; cbn [negb]; [|eapply rpostk_weaken; [|apply lift0_write_k; assumption]; lia].
  destruct (Hcp V) as (Hs & Hm & Hsh & Hal). specialize (Hsh V).
  destruct (p_kind cp) eqn:K.
  - destruct (os_isZero (p_size cp)).
    { destruct (rawStructPointer (-1) (mkOS 0 0)) eqn:E; [|vm_compute in E; discriminate].
      cbn [of_opt_panic bind]. eapply rpostk_weaken; [|apply lift0_write_k; assumption]. lia. }
    cbn [is_src orb]. rewrite Hm. cbn [bind].
    destruct (rawStructPointer_some 0 (p_size cp) (Hal eq_refl)) as [raw ->]. cbn [of_opt_panic bind].
    apply place_k; assumption.
  - cbn [is_src orb bind].
    pose proof (list_raw_shape cp V K ltac:(intros _; rewrite K; exact Hsh)) as NR.
    destruct (list_raw cp) as [raw| |]; cbn [bind]; [|exact I|congruence].
    apply place_k; assumption.
  - cbn [is_src]. eapply rpostk_weaken; [|apply lift0_write_k; assumption]. lia.
Qed.

Definition A_fill (c : config) (fx : cfix) (f : nat) : Prop := forall w dst s,
  dok (w_dst w) -> msg_ok (w_src w) -> 0 <= w_src_rl w -> dst_ok (w_dst w) dst ->
  wf_struct (w_src w) s -> p_valid s = true ->
  kpostwk w (32 * PointerCount (p_size dst)) (fill_canonical c fx f w dst s).
Definition A_ptr (c : config) (fx : cfix) (f : nat) : Prop := forall w sid p,
  dok (w_dst w) -> msg_ok (w_src w) -> 0 <= w_src_rl w -> 0 <= sid < nsegs (w_dst w) ->
  wf_ptr (w_src w) p -> shape_ok p ->
  kpostpk w (pcost p) (canonical_ptr c fx f w sid p).
Definition A_list (c : config) (fx : cfix) (f : nat) : Prop := forall w sid l,
  dok (w_dst w) -> msg_ok (w_src w) -> 0 <= w_src_rl w -> 0 <= sid < nsegs (w_dst w) ->
  wf_list (w_src w) l -> shape_ok l ->
  kpostpk w (pcost l) (canonical_list c fx f w sid l).

(* one pointer slot of the destination: dereference in the source (charged), canonical copy,
   pointer written with at most one landing pad: at most 32 on the potential *)
Lemma slot_cost m p rl rl' : msg_ok m -> wf_ptr m p -> 0 <= rl' -> rl' + readSize p = rl ->
  - 5 * readSize p + pcost p + 16 <= 32.
Proof.
  intros Hm Hw H0 H1. unfold pcost. pose proof (readSize_nonneg p). pose proof (slots_le_readSize m p Hm Hw).
  destruct (p_valid p); lia.
Qed.

Lemma afill_step c fx f : cfg_strict c = true -> A_ptr c fx f -> A_fill c fx (S f).
Proof.
  intros Hc IH w dst s Hd Hm Hr Hdst Hs V. pose proof Hdst as (Vd & Zd & Rd). rewrite fill_canonical_S.
  unfold dst_seg, src_seg. rewrite nth_bm_data. unfold wf_size in Zd.
  assert (region_ok (w_dst w) (p_seg dst) (p_off dst) (DataSize (p_size dst))) as Rdd
    by (destruct Rd as (R1 & R2 & R3); unfold region_ok; lia).
  destruct (dst_slice (w_dst w) (p_seg dst) (p_off dst) (DataSize (p_size dst)) Hd Rdd ltac:(lia)) as [-> Ld].
  cbn [of_res kbind].
  destruct (src_data_slice _ s Hm Hs V) as [-> Ls]. cbn [of_res kbind].
  set (sd := sub (seg_of (w_src w) s) (p_off s) (DataSize (p_size s))) in *.
  set (dd := sub (mem (w_dst w) (p_seg dst)) (p_off dst) (DataSize (p_size dst))) in *.
  assert (zlen (firstn (Nat.min (length dd) (length sd)) sd) <= DataSize (p_size dst)) as Lb.
  { unfold zlen in *. rewrite firstn_length. lia. }
  assert (region_ok (w_dst w) (p_seg dst) (p_off dst) (zlen (firstn (Nat.min (length dd) (length sd)) sd))) as Rbs
    by (destruct Rdd as (R1 & R2 & R3); unfold region_ok; lia).
  destruct (seg_write_safe (w_dst w) (p_seg dst) (p_off dst) _ Hd Rbs) as (m1 & E1 & D1 & N1 & L1 & _).
  pose proof (seg_write_tot _ _ _ _ _ Hd Rbs E1) as T1. rewrite E1.
  cbn [lift0 bind of_res kbind].
  assert (wgood w (w_set_dst w m1)) as G1 by (apply wgood_set_dst; auto; apply same_len_grows; auto).
  pose proof (kfold_postk (wgood w) Phi 32
    (fun wa i =>
       let '(r, rl') := struct_ptr c (w_src wa) (w_src_rl wa) s i in
       let wb := w_set_rl wa InSrc rl' in
       kbind (of_res r) (fun p => kbind (canonical_ptr c fx f wb (p_seg dst) p) (fun wc =>
       let '(w2, cp) := wc in of_res (struct_set_ptr 4 w2 dst i InDst cp))))
    (iota (Z.to_nat (PointerCount (p_size dst)))) (w_set_dst w m1)) as KF.
  match type of KF with ?A -> ?B -> ?C => assert A as HA end.
  { intros i wa Hi Ga. apply in_iota in Hi. pose proof Ga as (Da & Gra & Sa & Ra). rewrite Sa. cbv zeta.
    pose proof (struct_ptr_safe c (w_src w) (w_src_rl wa) s i Hm Hs ltac:(lia)) as SS.
    pose proof (struct_ptr_charge c (w_src w) (w_src_rl wa) s i ltac:(lia)) as [SC SX].
    assert (forall q, fst (struct_ptr c (w_src w) (w_src_rl wa) s i) = Ok q -> shape_ok q) as SH'.
    { intros q. unfold struct_ptr. destruct (_ || _); [cbn [fst]; intros E; inversion E; apply shape_null|apply readPtr_shape]. }
    destruct (struct_ptr c (w_src w) (w_src_rl wa) s i) as [r rl']. cbn [fst snd] in *.
    destruct r as [p| |]; cbn [of_res kbind res_sat] in *; [|exact I|exact SS].
    pose proof (wgood_rl w wa rl' Ga SC) as Gb. pose proof (SS Hc) as Wp.
    pose proof (IH (w_set_rl wa InSrc rl') (p_seg dst) p) as CP. cbn [w_set_rl w_dst w_src w_src_rl] in CP.
    specialize (CP Da ltac:(rewrite Sa; exact Hm) ltac:(lia)
                   ltac:(destruct Rd as (R1 & _); destruct Gra as [Gn _]; lia)
                   ltac:(rewrite Sa; exact Wp) (SH' p eq_refl)).
    destruct (canonical_ptr c fx f _ (p_seg dst) p) as [[w2 cp]| | |]; cbn [kbind kpostpk] in *; [|exact I|exact CP|exact I].
    destruct CP as (G2 & Cp & P2). pose proof (wgood_trans _ _ _ Gb G2) as Gw2. destruct Gw2 as (D2 & Gr2 & S2 & R2).
    unfold struct_set_ptr. rewrite Vd. cbn [negb orb]. destruct (i >=? PointerCount (p_size dst)) eqn:Ei; [lia|].
    pose proof (write_ptr_nocopy_k 3 w2 (p_seg dst) (pointerAddress dst i) cp D2 ltac:(lia)
                  ltac:(eapply region_grows; [exact Gr2|]; apply dst_ptr_slot; auto; lia) Cp) as WP.
    destruct (write_ptr 4 true w2 (p_seg dst) (pointerAddress dst i) InDst cp false) as [w3| |];
      cbn [of_res rpostk] in *; [|exact I|exact WP].
    destruct WP as [G3 P3]. split.
    - eapply wgood_trans; [|exact G3]. split; [exact D2|]. split; [exact Gr2|]. split; [exact S2|exact R2].
    - pose proof (slot_cost _ p _ _ Hm Wp (proj1 SC) SX). unfold Phi in *. cbn [w_dst w_src_rl] in P2. lia. }
  specialize (KF HA G1). clear HA.
  destruct (kfold _ _ _) as [w3| | |]; cbn [kpostwk]; [|exact I|exact KF|exact I].
  destruct KF as [G3 P3]. split; [exact G3|]. rewrite zlen_iota in P3.
  unfold Phi in *. cbn [w_dst w_set_dst w_src_rl] in P3. rewrite T1 in P3. lia.
Qed.
