(* C02 for capnp.Canonicalize (Value/CanonM.v): the bytes appended to the destination are bounded
   by the traversal budget consumed from the (hostile) source.  Same ghost counter and
   potential as Core/CopyAlloc.v:  Phi w = tot (destination) + 5 * (remaining source budget).
     fill_canonical into dst:  Phi w' <= Phi w + 32 * PointerCount (p_size dst)
     canonical_ptr / canonical_list of p: Phi w' <= Phi w + readSize p + 15 + 32 * slots p
   The canonical size of a struct never exceeds its size in the source, so a canonical copy
   costs at most the object's read size + 15 (padding, composite tag) and one landing pad (16)
   per pointer written. *)
From CV Require Import Value.CanonM Value.EqualSafe Value.CanonSafe Core.CopySafe Core.CopyAlloc Core.LimitProofs
                       Core.BuilderFacts Core.AllocProofs Core.WritePtrProofs Core.HeapProofs.
From Coq Require Import ZifyBool ZifyNat.
Open Scope Z_scope.
Ltac Zify.zify_post_hook ::= Z.div_mod_to_equations.

(* ------------------------------------------------------------------ canonical sizes are not larger *)
Lemma css_data_le m s : msg_ok m -> wf_struct m s -> p_valid s = true ->
  forall k, Z.of_nat k <= 65535 -> res_sat (css_data m s k) (fun d => 0 <= d <= DataSize (p_size s) /\ d mod 8 = 0).
Proof.
  intros Hm Hw V. destruct (wf_struct_inv m s Hw V) as (_ & Hz & _). unfold wf_size in Hz.
  assert (forall k, Z.of_nat k <= 65535 ->
            match struct_uint m s (8 * Z.of_nat k) 8 with
            | Ok v => v <> 0 -> 8 * Z.of_nat k + 8 <= DataSize (p_size s) | _ => False end) as Hrd.
  { intros k Hk. rewrite (struct_uint_spec m s (8 * Z.of_nat k) 8 Hm Hw V) by lia.
    destruct (8 * Z.of_nat k + 8 <=? DataSize (p_size s)) eqn:E; intros; lia. }
  induction k as [|k IH]; intros Hk; cbn [css_data].
  - specialize (Hrd 0%nat Hk). destruct (struct_uint m s (8 * Z.of_nat 0) 8) as [v| |]; cbn [bind]; [|destruct Hrd|destruct Hrd].
    destruct (v =? 0) eqn:E; cbn [negb res_sat]; cbv beta; [lia|]. specialize (Hrd ltac:(lia)). lia.
  - specialize (Hrd (S k) Hk). destruct (struct_uint m s (8 * Z.of_nat (S k)) 8) as [v| |]; cbn [bind]; [|destruct Hrd|destruct Hrd].
    destruct (v =? 0) eqn:E; cbn [negb]; [apply IH; lia|]. cbn [res_sat]. cbv beta. specialize (Hrd ltac:(lia)). lia.
Qed.

(* canonicalStructSize s <= size of s, data size a whole number of words *)
Definition csz_le (s : Ptr) (sz : ObjectSize) : Prop :=
  0 <= DataSize sz /\ DataSize sz mod 8 = 0 /\ 0 <= PointerCount sz /\
  (p_valid s = true -> DataSize sz <= DataSize (p_size s) /\ PointerCount sz <= PointerCount (p_size s)) /\
  (p_valid s = false -> DataSize sz = 0 /\ PointerCount sz = 0).

Lemma canonicalStructSize_le fixed strict m s : msg_ok m -> wf_struct m s ->
  res_sat (canonicalStructSize fixed strict m s) (csz_le s).
Proof.
  intros Hm Hw. unfold canonicalStructSize. destruct (p_valid s) eqn:V; cbn [negb].
  2:{ cbn [res_sat]. unfold csz_le. cbn [DataSize PointerCount]. split; [lia|]. split; [reflexivity|]. split; [lia|].
      split; [intros X; congruence|intros _; split; reflexivity]. }
  destruct (wf_struct_inv m s Hw V) as (_ & Hz & _). unfold wf_size in Hz.
  eapply res_sat_bind; [apply (css_data_le m s Hm Hw V); lia|]. intros d Hd.
  eapply res_sat_bind; [apply (css_ptrs_safe fixed strict m s Hm Hw V); lia|]. intros p Hp.
  cbv beta in Hd, Hp. cbn [res_sat]. unfold csz_le. cbn [DataSize PointerCount].
  split; [lia|]. split; [lia|]. split; [lia|]. split; [intros _; lia|intros X; congruence].
Qed.

(* element sizes of a composite list: bounded by the list's element size *)
Definition esz_le (l : Ptr) (sz : ObjectSize) : Prop :=
  0 <= DataSize sz <= DataSize (p_size l) /\ DataSize sz mod 8 = 0 /\
  0 <= PointerCount sz <= PointerCount (p_size l).

Lemma elem_size_le fixed strict fxd m l : msg_ok m -> wf_list m l -> p_valid l = true -> p_bit l = false ->
  forall n i acc, 0 <= i -> i + Z.of_nat n <= list_len l -> esz_le l acc ->
  res_sat (elem_size fixed strict fxd m l n i acc) (esz_le l).
Proof.
  intros Hm Hw V B. induction n as [|n IH]; intros i acc Hi Hn Ha; cbn [elem_size]; [exact Ha|].
  pose proof (list_struct_safe fxd m l i Hm Hw ltac:(lia)) as LS.
  assert (forall e, list_struct fxd l i = Ok e -> p_valid e = true -> p_size e = p_size l) as Hsz.
  { intros e. unfold list_struct. destruct (_ || _ || _); [discriminate|]. rewrite B.
    destruct (element _ _ _); intros X; inversion X; [reflexivity|discriminate]. }
  destruct (list_struct fxd l i) as [e| |]; cbn [bind res_sat] in *; [|exact I|exact LS].
  pose proof (canonicalStructSize_le fixed strict m e Hm LS) as CS.
  destruct (canonicalStructSize fixed strict m e) as [sz| |]; cbn [bind res_sat] in *; [|exact I|exact CS].
  apply IH; try lia. destruct CS as (C1 & C2 & C3 & C4 & C5). destruct Ha as (A1 & A2 & A3).
  unfold esz_le. cbn [DataSize PointerCount].
  destruct (p_valid e) eqn:Ve.
  - rewrite (Hsz e eq_refl Ve) in C4. specialize (C4 eq_refl).
    repeat split; lia.
  - specialize (C5 eq_refl). destruct C5 as [-> ->]. rewrite !Z.max_l by lia. repeat split; lia.
Qed.

(* ------------------------------------------------------------------ constructors: bytes appended *)
Lemma padToWord_id x : 0 <= x <= 4294967288 -> x mod 8 = 0 -> padToWord x = x.
Proof. unfold padToWord, u32. lia. Qed.

Lemma newStruct_tot m sid sz m' p : dok m -> 0 <= sid < nsegs m -> csz_ok sz ->
  newStruct m sid sz = Ok (m', p) ->
  tot m' = tot m + padToWord (DataSize sz) + 8 * PointerCount sz /\
  p_size p = mkOS (padToWord (DataSize sz)) (PointerCount sz).
Proof.
  intros Hd Hs Hc. unfold newStruct. destruct (os_isValid sz) eqn:Hv; cbn [negb]; [|discriminate].
  destruct (padded_size sz Hc Hv) as (Hw & H8 & Hts). cbv zeta in Hw, H8, Hts.
  set (sz' := mkOS (padToWord (DataSize sz)) (PointerCount sz)) in *.
  destruct (alloc m sid (totalSize sz')) as [[[m1 s1] addr]| |] eqn:EA; cbn [bind]; try discriminate.
  intros X. inversion X; subst m' p. clear X. pose proof (totalSize_bound _ Hw) as Hb.
  rewrite (alloc_tot m sid (totalSize sz') m1 s1 addr Hd Hs ltac:(lia) EA). split; [|reflexivity].
  rewrite Hts. subst sz'. unfold wf_size in Hw. cbn [DataSize PointerCount] in *.
  rewrite padToWord_id; lia.
Qed.

Lemma newPointerList_tot m sid n m' p : dok m -> 0 <= sid < nsegs m ->
  newPointerList m sid n = Ok (m', p) -> tot m' = tot m + 8 * n.
Proof.
  intros Hd Hs. unfold newPointerList. destruct (times 8 n) as [total|] eqn:Et; [|discriminate].
  apply times_spec in Et. destruct Et as [-> Et].
  destruct (alloc m sid (8 * n)) as [[[m1 s1] addr]| |] eqn:EA; cbn [bind]; try discriminate.
  intros X. inversion X; subst m' p. rewrite (alloc_tot m sid (8 * n) m1 s1 addr Hd Hs ltac:(lia) EA).
  unfold padToWord, u32, maxSegmentSize in *. lia.
Qed.

Lemma newCompositeList_tot m sid sz n m' p : dok m -> 0 <= sid < nsegs m -> csz_ok sz ->
  newCompositeList m sid sz n = Ok (m', p) ->
  tot m' = tot m + 8 + n * (padToWord (DataSize sz) + 8 * PointerCount sz) /\
  p_size p = mkOS (padToWord (DataSize sz)) (PointerCount sz).
Proof.
  intros Hd Hs Hc. unfold newCompositeList. destruct (os_isValid sz) eqn:Hv; cbn [negb]; [|discriminate].
  destruct ((n <? 0) || (n >=? 536870912)) eqn:En; [discriminate|].
  destruct (padded_size sz Hc Hv) as (Hw & H8 & Hts). cbv zeta in Hw, H8, Hts.
  set (sz' := mkOS (padToWord (DataSize sz)) (PointerCount sz)) in *.
  destruct (times (totalSize sz') n) as [total|] eqn:Et; [|discriminate].
  apply times_spec in Et. destruct Et as [-> Et].
  destruct (totalSize sz' * n >? maxSegmentSize - 8) eqn:Eb; [discriminate|]. unfold maxSegmentSize in *.
  rewrite (u32_id (8 + totalSize sz' * n)) by lia.
  destruct (alloc m sid (8 + totalSize sz' * n)) as [[[m1 s1] addr]| |] eqn:EA; cbn [bind]; try discriminate.
  pose proof (alloc_tot m sid (8 + totalSize sz' * n) m1 s1 addr Hd Hs ltac:(lia) EA) as T1.
  destruct (alloc_safe m sid (8 + totalSize sz' * n) m1 s1 addr Hd Hs ltac:(lia) EA)
    as (D1 & G1 & S1 & A0 & A1 & A2 & A3 & _).
  destruct (rawStructPointer_some n sz' H8) as [tag ->]. cbn [of_opt_panic bind].
  assert (region_ok m1 s1 addr 8) as R8 by (unfold region_ok; lia).
  destruct (writeRaw_safe m1 s1 addr tag D1 R8) as (m2 & E2 & D2 & N2 & L2 & _).
  rewrite E2. cbn [bind]. intros X. inversion X; subst m' p. clear X.
  rewrite (tot_same _ _ N2 L2), T1. split; [|reflexivity].
  rewrite Hts in *. subst sz'. cbn [DataSize PointerCount] in *.
  rewrite padToWord_id; lia.
Qed.
