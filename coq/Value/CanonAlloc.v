(* C02 for capnp.Canonicalize (Value/CanonM.v): the bytes appended to the destination are bounded
   by the traversal budget consumed from the (hostile) source.  Same ghost counter and
   potential as Core/CopyAlloc.v:  Phi w = tot (destination) + 5 * (remaining source budget).
     fill_canonical into dst:  Phi w' <= Phi w + 32 * PointerCount (p_size dst)
     canonical_ptr / canonical_list of p: Phi w' <= Phi w + readSize p + 15 + 32 * slots p
   The canonical size of a struct never exceeds its size in the source, so a canonical copy
   costs at most the object's read size + 15 (padding, composite tag) and one landing pad (16)
   per pointer written. *)
From CV Require Import Value.CanonM Value.EqualSafe Value.CanonSafe Core.CopySafe Core.CopyAlloc Core.LimitProofs
                       Core.BuilderFacts Core.AllocProofs Core.WritePtrProofs Core.HeapProofs.
From Coq Require Import ZifyBool ZifyNat.
Open Scope Z_scope.
Ltac Zify.zify_post_hook ::= Z.div_mod_to_equations.

(* ------------------------------------------------------------------ canonical sizes are not larger *)
Lemma css_data_le m s : msg_ok m -> wf_struct m s -> p_valid s = true ->
  forall k, Z.of_nat k <= 65535 -> res_sat (css_data m s k) (fun d => 0 <= d <= DataSize (p_size s) /\ d mod 8 = 0).
Proof.
  intros Hm Hw V. destruct (wf_struct_inv m s Hw V) as (_ & Hz & _). unfold wf_size in Hz.
  assert (forall k, Z.of_nat k <= 65535 ->
            match struct_uint m s (8 * Z.of_nat k) 8 with
            | Ok v => v <> 0 -> 8 * Z.of_nat k + 8 <= DataSize (p_size s) | _ => False end) as Hrd.
  { intros k Hk. rewrite (struct_uint_spec m s (8 * Z.of_nat k) 8 Hm Hw V) by lia.
    destruct (8 * Z.of_nat k + 8 <=? DataSize (p_size s)) eqn:E; intros; lia. }
  induction k as [|k IH]; intros Hk; cbn [css_data].
  - specialize (Hrd 0%nat Hk). destruct (struct_uint m s (8 * Z.of_nat 0) 8) as [v| |]; cbn [bind]; [|destruct Hrd|destruct Hrd].
    destruct (v =? 0) eqn:E; cbn [negb res_sat]; cbv beta; [lia|]. specialize (Hrd ltac:(lia)). lia.
  - specialize (Hrd (S k) Hk). destruct (struct_uint m s (8 * Z.of_nat (S k)) 8) as [v| |]; cbn [bind]; [|destruct Hrd|destruct Hrd].
    destruct (v =? 0) eqn:E; cbn [negb]; [apply IH; lia|]. cbn [res_sat]. cbv beta. specialize (Hrd ltac:(lia)). lia.
Qed.

(* canonicalStructSize s <= size of s, data size a whole number of words *)
Definition csz_le (s : Ptr) (sz : ObjectSize) : Prop :=
  0 <= DataSize sz /\ DataSize sz mod 8 = 0 /\ 0 <= PointerCount sz /\
  (p_valid s = true -> DataSize sz <= DataSize (p_size s) /\ PointerCount sz <= PointerCount (p_size s)) /\
  (p_valid s = false -> DataSize sz = 0 /\ PointerCount sz = 0).

Lemma canonicalStructSize_le fixed strict m s : msg_ok m -> wf_struct m s ->
  res_sat (canonicalStructSize fixed strict m s) (csz_le s).
Proof.
  intros Hm Hw. unfold canonicalStructSize. destruct (p_valid s) eqn:V; cbn [negb].
  2:{ cbn [res_sat]. unfold csz_le. cbn [DataSize PointerCount]. split; [lia|]. split; [reflexivity|]. split; [lia|].
      split; [intros X; congruence|intros _; split; reflexivity]. }
  destruct (wf_struct_inv m s Hw V) as (_ & Hz & _). unfold wf_size in Hz.
  eapply res_sat_bind; [apply (css_data_le m s Hm Hw V); lia|]. intros d Hd.
  eapply res_sat_bind; [apply (css_ptrs_safe fixed strict m s Hm Hw V); lia|]. intros p Hp.
  cbv beta in Hd, Hp. cbn [res_sat]. unfold csz_le. cbn [DataSize PointerCount].
  split; [lia|]. split; [lia|]. split; [lia|]. split; [intros _; lia|intros X; congruence].
Qed.

(* element sizes of a composite list: bounded by the list's element size *)
Definition esz_le (l : Ptr) (sz : ObjectSize) : Prop :=
  0 <= DataSize sz <= DataSize (p_size l) /\ DataSize sz mod 8 = 0 /\
  0 <= PointerCount sz <= PointerCount (p_size l).

Lemma elem_size_le fixed strict fxd m l : msg_ok m -> wf_list m l -> p_valid l = true -> p_bit l = false ->
  forall n i acc, 0 <= i -> i + Z.of_nat n <= list_len l -> esz_le l acc ->
  res_sat (elem_size fixed strict fxd m l n i acc) (esz_le l).
Proof.
  intros Hm Hw V B. induction n as [|n IH]; intros i acc Hi Hn Ha; cbn [elem_size]; [exact Ha|].
  pose proof (list_struct_safe fxd m l i Hm Hw ltac:(lia)) as LS.
  assert (forall e, list_struct fxd l i = Ok e -> p_valid e = true -> p_size e = p_size l) as Hsz.
  { intros e. unfold list_struct. destruct (_ || _ || _); [discriminate|]. rewrite B.
    destruct (element _ _ _); intros X; inversion X; [reflexivity|discriminate]. }
  destruct (list_struct fxd l i) as [e| |]; cbn [bind res_sat] in *; [|exact I|exact LS].
  pose proof (canonicalStructSize_le fixed strict m e Hm LS) as CS.
  destruct (canonicalStructSize fixed strict m e) as [sz| |]; cbn [bind res_sat] in *; [|exact I|exact CS].
  apply IH; try lia. destruct CS as (C1 & C2 & C3 & C4 & C5). destruct Ha as (A1 & A2 & A3).
  unfold esz_le. cbn [DataSize PointerCount].
  destruct (p_valid e) eqn:Ve.
  - rewrite (Hsz e eq_refl Ve) in C4. specialize (C4 eq_refl).
    repeat split; lia.
  - specialize (C5 eq_refl). destruct C5 as [-> ->]. rewrite !Z.max_l by lia. repeat split; lia.
Qed.

(* ------------------------------------------------------------------ constructors: bytes appended *)
Lemma padToWord_id x : 0 <= x <= 4294967288 -> x mod 8 = 0 -> padToWord x = x.
Proof. unfold padToWord, u32. lia. Qed.

Lemma newStruct_tot m sid sz m' p : dok m -> 0 <= sid < nsegs m -> csz_ok sz ->
  newStruct m sid sz = Ok (m', p) ->
  tot m' = tot m + padToWord (DataSize sz) + 8 * PointerCount sz /\
  p_size p = mkOS (padToWord (DataSize sz)) (PointerCount sz).
Proof.
  intros Hd Hs Hc. unfold newStruct. destruct (os_isValid sz) eqn:Hv; cbn [negb]; [|discriminate].
  destruct (padded_size sz Hc Hv) as (Hw & H8 & Hts). cbv zeta in Hw, H8, Hts.
  set (sz' := mkOS (padToWord (DataSize sz)) (PointerCount sz)) in *.
  destruct (alloc m sid (totalSize sz')) as [[[m1 s1] addr]| |] eqn:EA; cbn [bind]; try discriminate.
  intros X. inversion X; subst m' p. clear X. pose proof (totalSize_bound _ Hw) as Hb.
  rewrite (alloc_tot m sid (totalSize sz') m1 s1 addr Hd Hs ltac:(lia) EA). split; [|reflexivity].
  rewrite Hts. subst sz'. unfold wf_size in Hw. cbn [DataSize PointerCount] in *.
  rewrite padToWord_id; lia.
Qed.

Lemma newPointerList_tot m sid n m' p : dok m -> 0 <= sid < nsegs m ->
  newPointerList m sid n = Ok (m', p) -> tot m' = tot m + 8 * n.
Proof.
  intros Hd Hs. unfold newPointerList. destruct (times 8 n) as [total|] eqn:Et; [|discriminate].
  apply times_spec in Et. destruct Et as [-> Et].
  destruct (alloc m sid (8 * n)) as [[[m1 s1] addr]| |] eqn:EA; cbn [bind]; try discriminate.
  intros X. inversion X; subst m' p. rewrite (alloc_tot m sid (8 * n) m1 s1 addr Hd Hs ltac:(lia) EA).
  unfold padToWord, u32, maxSegmentSize in *. lia.
Qed.

Lemma newCompositeList_tot m sid sz n m' p : dok m -> 0 <= sid < nsegs m -> csz_ok sz ->
  newCompositeList m sid sz n = Ok (m', p) ->
  tot m' = tot m + 8 + n * (padToWord (DataSize sz) + 8 * PointerCount sz) /\
  p_size p = mkOS (padToWord (DataSize sz)) (PointerCount sz).
Proof.
  intros Hd Hs Hc. unfold newCompositeList. destruct (os_isValid sz) eqn:Hv; cbn [negb]; [|discriminate].
  destruct ((n <? 0) || (n >=? 536870912)) eqn:En; [discriminate|].
  destruct (padded_size sz Hc Hv) as (Hw & H8 & Hts). cbv zeta in Hw, H8, Hts.
  set (sz' := mkOS (padToWord (DataSize sz)) (PointerCount sz)) in *.
  destruct (times (totalSize sz') n) as [total|] eqn:Et; [|discriminate].
  apply times_spec in Et. destruct Et as [-> Et].
  destruct (totalSize sz' * n >? maxSegmentSize - 8) eqn:Eb; [discriminate|]. unfold maxSegmentSize in *.
  rewrite (u32_id (8 + totalSize sz' * n)) by lia.
  destruct (alloc m sid (8 + totalSize sz' * n)) as [[[m1 s1] addr]| |] eqn:EA; cbn [bind]; try discriminate.
  pose proof (alloc_tot m sid (8 + totalSize sz' * n) m1 s1 addr Hd Hs ltac:(lia) EA) as T1.
  destruct (alloc_safe m sid (8 + totalSize sz' * n) m1 s1 addr Hd Hs ltac:(lia) EA)
    as (D1 & G1 & S1 & A0 & A1 & A2 & A3 & _).
  destruct (rawStructPointer_some n sz' H8) as [tag ->]. cbn [of_opt_panic bind].
  assert (region_ok m1 s1 addr 8) as R8 by (unfold region_ok; lia).
  destruct (writeRaw_safe m1 s1 addr tag D1 R8) as (m2 & E2 & D2 & N2 & L2 & _).
  rewrite E2. cbn [bind]. intros X. inversion X; subst m' p. clear X.
  rewrite (tot_same _ _ N2 L2), T1. split; [|reflexivity].
  rewrite Hts in *. subst sz'. cbn [DataSize PointerCount] in *.
  rewrite padToWord_id; lia.
Qed.

(* ------------------------------------------------------------------ outcomes with the potential *)
Definition kpostwk (w : world) (k : Z) (r : cout world) : Prop :=
  match r with KPanic => False | KOk w' => wgood w w' /\ Phi w' <= Phi w + k | _ => True end.
Definition kpostpk (w : world) (k : Z) (r : cout (world * Ptr)) : Prop :=
  match r with
  | KPanic => False
  | KOk (w', cp) => wgood w w' /\ cp_ok (w_dst w') cp /\ Phi w' <= Phi w + k
  | _ => True
  end.

Definition pcost (p : Ptr) : Z := if p_valid p then readSize p + 15 + 32 * slots p else 0.

Lemma kfold_postk {A} (I : A -> Prop) (Ph : A -> Z) (c : Z) (f : A -> Z -> cout A) : forall l a,
  (forall x b, In x l -> I b ->
     match f b x with KPanic => False | KOk b' => I b' /\ Ph b' <= Ph b + c | _ => True end) -> I a ->
  match kfold l a f with KPanic => False | KOk a' => I a' /\ Ph a' <= Ph a + c * zlen l | _ => True end.
Proof.
  induction l as [|x l IH]; intros a Hf Ha; cbn [kfold].
  - split; [exact Ha|]. unfold zlen. cbn [length]. lia.
  - pose proof (Hf x a (or_introl eq_refl) Ha) as H. destruct (f a x) as [b| | |]; cbn [kbind]; auto.
    destruct H as [Hb Pb].
    specialize (IH b ltac:(intros y c0 Hy; apply Hf; right; assumption) Hb).
    destruct (kfold l b f); auto. destruct IH as [I2 P2]. split; [exact I2|].
    unfold zlen in *. cbn [length]. lia.
Qed.

Lemma write_ptr_nocopy_k f w dsid off cp : dok (w_dst w) -> 0 <= w_src_rl w ->
  region_ok (w_dst w) dsid off 8 -> cp_ok (w_dst w) cp ->
  rpostk w 16 (write_ptr (S f) true w dsid off InDst cp false).
Proof.
  intros Hd Hr Hreg Hcp. rewrite write_ptr_S.
  destruct (p_valid cp) eqn:V; cbn [negb]; [|eapply rpostk_weaken; [|apply lift0_write_k; assumption]; lia].
  destruct (Hcp V) as (Hs & Hm & Hsh & Hal). specialize (Hsh V).
  destruct (p_kind cp) eqn:K.
  - destruct (os_isZero (p_size cp)).
    { destruct (rawStructPointer (-1) (mkOS 0 0)) eqn:E; [|vm_compute in E; discriminate].
      cbn [of_opt_panic bind]. eapply rpostk_weaken; [|apply lift0_write_k; assumption]. lia. }
    cbn [is_src orb]. rewrite Hm. cbn [bind].
    destruct (rawStructPointer_some 0 (p_size cp) (Hal eq_refl)) as [raw ->]. cbn [of_opt_panic bind].
    apply place_k; assumption.
  - cbn [is_src orb bind].
    pose proof (list_raw_shape cp V K ltac:(intros _; rewrite K; exact Hsh)) as NR.
    destruct (list_raw cp) as [raw| |]; cbn [bind]; [|exact I|congruence].
    apply place_k; assumption.
  - cbn [is_src]. eapply rpostk_weaken; [|apply lift0_write_k; assumption]. lia.
Qed.

Definition A_fill (c : config) (fx : cfix) (f : nat) : Prop := forall w dst s,
  dok (w_dst w) -> msg_ok (w_src w) -> 0 <= w_src_rl w -> dst_ok (w_dst w) dst ->
  wf_struct (w_src w) s -> p_valid s = true ->
  kpostwk w (32 * PointerCount (p_size dst)) (fill_canonical c fx f w dst s).
Definition A_ptr (c : config) (fx : cfix) (f : nat) : Prop := forall w sid p,
  dok (w_dst w) -> msg_ok (w_src w) -> 0 <= w_src_rl w -> 0 <= sid < nsegs (w_dst w) ->
  wf_ptr (w_src w) p -> shape_ok p ->
  kpostpk w (pcost p) (canonical_ptr c fx f w sid p).
Definition A_list (c : config) (fx : cfix) (f : nat) : Prop := forall w sid l,
  dok (w_dst w) -> msg_ok (w_src w) -> 0 <= w_src_rl w -> 0 <= sid < nsegs (w_dst w) ->
  wf_list (w_src w) l -> shape_ok l ->
  kpostpk w (pcost l) (canonical_list c fx f w sid l).

(* one pointer slot of the destination: dereference in the source (charged), canonical copy,
   pointer written with at most one landing pad: at most 32 on the potential *)
Lemma slot_cost m p rl rl' : msg_ok m -> wf_ptr m p -> 0 <= rl' -> rl' + readSize p = rl ->
  - 5 * readSize p + pcost p + 16 <= 32.
Proof.
  intros Hm Hw H0 H1. unfold pcost. pose proof (readSize_nonneg p). pose proof (slots_le_readSize m p Hm Hw).
  destruct (p_valid p); lia.
Qed.

Lemma afill_step c fx f : cfg_strict c = true -> A_ptr c fx f -> A_fill c fx (S f).
Proof.
  intros Hc IH w dst s Hd Hm Hr Hdst Hs V. pose proof Hdst as (Vd & Zd & Rd). rewrite fill_canonical_S.
  unfold dst_seg, src_seg. rewrite nth_bm_data. unfold wf_size in Zd.
  assert (region_ok (w_dst w) (p_seg dst) (p_off dst) (DataSize (p_size dst))) as Rdd
    by (destruct Rd as (R1 & R2 & R3); unfold region_ok; lia).
  destruct (dst_slice (w_dst w) (p_seg dst) (p_off dst) (DataSize (p_size dst)) Hd Rdd ltac:(lia)) as [-> Ld].
  cbn [of_res kbind].
  destruct (src_data_slice _ s Hm Hs V) as [-> Ls]. cbn [of_res kbind].
  set (sd := sub (seg_of (w_src w) s) (p_off s) (DataSize (p_size s))) in *.
  set (dd := sub (mem (w_dst w) (p_seg dst)) (p_off dst) (DataSize (p_size dst))) in *.
  assert (zlen (firstn (Nat.min (length dd) (length sd)) sd) <= DataSize (p_size dst)) as Lb.
  { unfold zlen in *. rewrite firstn_length. lia. }
  assert (region_ok (w_dst w) (p_seg dst) (p_off dst) (zlen (firstn (Nat.min (length dd) (length sd)) sd))) as Rbs
    by (destruct Rdd as (R1 & R2 & R3); unfold region_ok; lia).
  destruct (seg_write_safe (w_dst w) (p_seg dst) (p_off dst) _ Hd Rbs) as (m1 & E1 & D1 & N1 & L1 & _).
  pose proof (seg_write_tot _ _ _ _ _ Hd Rbs E1) as T1. rewrite E1.
  cbn [lift0 bind of_res kbind].
  assert (wgood w (w_set_dst w m1)) as G1 by (apply wgood_set_dst; auto; apply same_len_grows; auto).
  pose proof (kfold_postk (wgood w) Phi 32
    (fun wa i =>
       let '(r, rl') := struct_ptr c (w_src wa) (w_src_rl wa) s i in
       let wb := w_set_rl wa InSrc rl' in
       kbind (of_res r) (fun p => kbind (canonical_ptr c fx f wb (p_seg dst) p) (fun wc =>
       let '(w2, cp) := wc in of_res (struct_set_ptr 4 w2 dst i InDst cp))))
    (iota (Z.to_nat (PointerCount (p_size dst)))) (w_set_dst w m1)) as KF.
  match type of KF with ?A -> ?B -> ?C => assert A as HA end.
  { intros i wa Hi Ga. apply in_iota in Hi. pose proof Ga as (Da & Gra & Sa & Ra). rewrite Sa. cbv zeta.
    pose proof (struct_ptr_safe c (w_src w) (w_src_rl wa) s i Hm Hs ltac:(lia)) as SS.
    pose proof (struct_ptr_charge c (w_src w) (w_src_rl wa) s i ltac:(lia)) as [SC SX].
    assert (forall q, fst (struct_ptr c (w_src w) (w_src_rl wa) s i) = Ok q -> shape_ok q) as SH'.
    { intros q. unfold struct_ptr. destruct (_ || _); [cbn [fst]; intros E; inversion E; apply shape_null|apply readPtr_shape]. }
    destruct (struct_ptr c (w_src w) (w_src_rl wa) s i) as [r rl']. cbn [fst snd] in *.
    destruct r as [p| |]; cbn [of_res kbind res_sat] in *; [|exact I|exact SS].
    pose proof (wgood_rl w wa rl' Ga SC) as Gb. pose proof (SS Hc) as Wp.
    pose proof (IH (w_set_rl wa InSrc rl') (p_seg dst) p) as CP. cbn [w_set_rl w_dst w_src w_src_rl] in CP.
    specialize (CP Da ltac:(rewrite Sa; exact Hm) ltac:(lia)
                   ltac:(destruct Rd as (R1 & _); destruct Gra as [Gn _]; lia)
                   ltac:(rewrite Sa; exact Wp) (SH' p eq_refl)).
    destruct (canonical_ptr c fx f _ (p_seg dst) p) as [[w2 cp]| | |]; cbn [kbind kpostpk] in *; [|exact I|exact CP|exact I].
    destruct CP as (G2 & Cp & P2). pose proof (wgood_trans _ _ _ Gb G2) as Gw2. destruct Gw2 as (D2 & Gr2 & S2 & R2).
    unfold struct_set_ptr. rewrite Vd. cbn [negb orb]. destruct (i >=? PointerCount (p_size dst)) eqn:Ei; [lia|].
    pose proof (write_ptr_nocopy_k 3 w2 (p_seg dst) (pointerAddress dst i) cp D2 ltac:(lia)
                  ltac:(eapply region_grows; [exact Gr2|]; apply dst_ptr_slot; auto; lia) Cp) as WP.
    destruct (write_ptr 4 true w2 (p_seg dst) (pointerAddress dst i) InDst cp false) as [w3| |];
      cbn [of_res rpostk] in *; [|exact I|exact WP].
    destruct WP as [G3 P3]. split.
    - eapply wgood_trans; [|exact G3]. split; [exact D2|]. split; [exact Gr2|]. split; [exact S2|exact R2].
    - pose proof (slot_cost _ p _ _ Hm Wp (proj1 SC) SX). unfold Phi in *. cbn [w_dst w_src_rl] in P2. lia. }
  specialize (KF HA G1). clear HA.
  destruct (kfold _ _ _) as [w3| | |]; cbn [kpostwk]; [|exact I|exact KF|exact I].
  destruct KF as [G3 P3]. split; [exact G3|]. rewrite zlen_iota in P3.
  unfold Phi in *. cbn [w_dst w_set_dst w_src_rl] in P3. rewrite T1 in P3. lia.
Qed.

Lemma aptr_step c fx f : A_fill c fx f -> A_list c fx f -> A_ptr c fx (S f).
Proof.
  intros IHf IHl w sid p Hd Hm Hr Hsid Hp Hsh. rewrite canonical_ptr_S.
  destruct (p_valid p) eqn:V; cbn [negb].
  2:{ cbn [kpostpk]. split; [apply wgood_refl; assumption|]. split; [apply cp_ok_null|]. unfold pcost. rewrite V. lia. }
  destruct (p_kind p) eqn:K; [| |exact I].
  - assert (wf_struct (w_src w) p) as Hs by (split; [assumption|intros _; assumption]).
    pose proof (canonicalStructSize_safe (cx_farnull fx) (cfg_strict c) (w_src w) p Hm Hs) as CS.
    pose proof (canonicalStructSize_le (cx_farnull fx) (cfg_strict c) (w_src w) p Hm Hs) as CL.
    destruct (canonicalStructSize _ _ _ p) as [sz| |]; cbn [of_res kbind res_sat] in *; [|exact I|exact CS].
    pose proof (newStruct_safe (w_dst w) sid sz Hd Hsid CS) as NS.
    pose proof (newStruct_tot (w_dst w) sid sz) as NT.
    destruct (newStruct (w_dst w) sid sz) as [[m1 ss]| |]; cbn [lift bind of_res kbind]; [|exact I|exact NS].
    destruct NS as (D1 & G1 & Do1 & Cp1 & K1 & _). destruct (NT m1 ss Hd Hsid CS eq_refl) as [T1 Ess].
    assert (wgood w (w_set_dst w m1)) as Gw1 by (apply wgood_set_dst; auto).
    pose proof (IHf (w_set_dst w m1) ss p D1 Hm Hr Do1 Hs V) as FC.
    destruct (fill_canonical c fx f (w_set_dst w m1) ss p) as [w2| | |]; cbn [kbind kpostwk kpostpk] in *;
      [|exact I|exact FC|exact I].
    destruct FC as [FC P2]. split; [eapply wgood_trans; eassumption|]. split.
    { destruct FC as (_ & G2 & _). cbn [w_dst w_set_dst] in G2. eapply cp_ok_grows; eassumption. }
    destruct CL as (C1 & C2 & C3 & C4 & _). specialize (C4 V).
    destruct (wf_struct_inv _ p Hs V) as (_ & Hz & _).
    unfold pcost, readSize, slots, struct_readSize. rewrite V, K. rewrite (totalSize_wf _ Hz).
    rewrite Ess in P2. cbn [PointerCount] in P2. unfold Phi in *. cbn [w_dst w_set_dst w_src_rl] in P2.
    rewrite padToWord_id in T1 by (unfold wf_size in Hz; lia). lia.
  - pose proof (IHl w sid p Hd Hm Hr Hsid (conj Hp (fun _ => K)) Hsh) as L. exact L.
Qed.

(* what a list costs to read covers its content *)
Lemma list_content_le m l : msg_ok m -> wf_list m l -> p_valid l = true -> shape_ok l ->
  (if p_bit l then (p_len l + 7) / 8 else p_len l * totalSize (p_size l)) + (if p_comp l then 8 else 0)
  <= readSize l + 8.
Proof.
  intros Hm Hw V Hsh. destruct (list_alloc_facts m l Hm Hw V Hsh) as [_ H].
  unfold readSize. rewrite (proj2 Hw V).
  destruct (wf_list_inv m l Hw V) as (Hs & Ho & Hl & Hr). destruct (seg_of_ok m l Hm) as [Hsl _].
  unfold list_allocSize in H. rewrite V in H. cbn [negb] in H. cbv zeta in H.
  pose proof (Hsh V) as Hs'. rewrite (proj2 Hw V) in Hs'.
  destruct (p_bit l) eqn:B.
  - rewrite bitListSize_spec in H by lia. destruct (p_comp l); [destruct Hs' as (_ & _ & X); discriminate X|lia].
  - destruct Hr as [Hz Hr]. pose proof (totalSize_bound _ Hz).
    rewrite times_some in H by (unfold maxSegmentSize in *; nia).
    destruct (p_comp l); cbn [negb] in H; [|lia]. destruct Hs' as (H8 & _). unfold maxSegmentSize in *.
    rewrite u32_id in H by nia. lia.
Qed.

Lemma alist_step c fx f : cfg_strict c = true -> cx_complist fx = true ->
  A_ptr c fx f -> A_fill c fx f -> A_list c fx (S f).
Proof.
  intros Hc Hcl IHp IHf w sid l Hd Hm Hr Hsid Hl Hsh. rewrite canonical_list_S.
  destruct (p_valid l) eqn:V; cbn [negb].
  2:{ cbn [kpostpk]. split; [apply wgood_refl; assumption|]. split; [apply cp_ok_null|]. unfold pcost. rewrite V. lia. }
  destruct (wf_list_inv _ l Hl V) as (Hsg & Ho & Hln & Hr'). pose proof (proj2 Hl V) as K.
  pose proof (Hsh V) as Hsh'. rewrite K in Hsh'.
  pose proof (list_content_le _ l Hm Hl V Hsh) as Hcont.
  assert (pcost l = readSize l + 15 + 32 * (if p_bit l then 0 else p_len l * PointerCount (p_size l))) as Epc
    by (unfold pcost, slots; rewrite V, K; reflexivity).
  destruct (seg_of_ok (w_src w) l Hm) as [Hsl _]. unfold maxSegmentSize in Hsl.
  rewrite Hcl. cbn [andb].
  destruct ((PointerCount (p_size l) =? 0) && negb (p_comp l)) eqn:Edata.
  - (* data only *)
    assert (p_comp l = false) as C by (destruct (p_comp l); [rewrite Bool.andb_false_r in Edata; discriminate|reflexivity]).
    cbv zeta. unfold src_seg.
    set (content := if p_bit l then (p_len l + 7) / 8 else p_len l * totalSize (p_size l)) in *.
    assert (0 <= content /\ p_off l + content <= zlen (seg_of (w_src w) l)) as [Hc0 Hc1].
    { unfold content. destruct (p_bit l); [lia|]. destruct Hr' as [Hz Hr']. pose proof (totalSize_bound _ Hz). split; [nia|lia]. }
    assert (list_allocSize l = content) as Hsz.
    { unfold list_allocSize, content. rewrite V, C. cbn [negb]. destruct (p_bit l) eqn:B; [apply bitListSize_spec; lia|].
      destruct Hr' as [Hz Hr']. pose proof (totalSize_bound _ Hz).
      rewrite times_some by (unfold maxSegmentSize; nia). lia. }
    rewrite Hsz.
    pose proof (alloc_nopanic (w_dst w) sid content) as NP.
    destruct (alloc (w_dst w) sid content) as [[[m1 nsid] naddr]| |] eqn:EA; cbn [of_res kbind]; [|exact I|congruence].
    pose proof (alloc_tot (w_dst w) sid content m1 nsid naddr Hd Hsid Hc0 EA) as T1.
    destruct (alloc_safe (w_dst w) sid content m1 nsid naddr Hd Hsid Hc0 EA) as (D1 & G1 & S1 & A0 & A1 & A2 & A3 & _).
    rewrite slice_ok by lia. cbn [of_res kbind].
    set (bs := if cx_bitpad fx && p_bit l then mask_last (p_len l) (sub (seg_of (w_src w) l) (p_off l) content)
               else sub (seg_of (w_src w) l) (p_off l) content).
    assert (zlen bs = content) as Lb.
    { unfold bs. destruct (cx_bitpad fx && p_bit l); [unfold zlen; rewrite mask_last_length|];
        apply sub_length; lia. }
    assert (region_ok m1 nsid naddr (zlen bs)) as Rb by (unfold region_ok; lia).
    destruct (seg_write_safe m1 nsid naddr bs D1 Rb) as (m2 & E2 & D2 & N2 & L2 & _).
    pose proof (seg_write_tot _ _ _ _ _ D1 Rb E2) as T2. rewrite E2.
    cbn [lift0 bind of_res kbind kpostpk w_set_dst w_dst].
    split; [change (wgood w (w_set_dst w m2)); apply wgood_set_dst; auto;
            eapply grows_trans; [exact G1|apply same_len_grows; auto]|].
    split.
    + intros _. cbn [p_seg p_member]. split; [rewrite N2; exact S1|]. split; [reflexivity|].
      split; [|cbn [p_kind]; discriminate]. intros _. cbn [p_kind p_comp p_bit p_size]. rewrite C in *. exact Hsh'.
    + unfold Phi. cbn [w_dst w_set_dst w_src_rl]. rewrite T2, T1. rewrite C in Hcont.
      assert (0 <= content <= maxSegmentSize) as Hcm by (unfold maxSegmentSize; lia).
      pose proof (padToWord_facts content Hcm).
      assert (0 <= (if p_bit l then 0 else p_len l * PointerCount (p_size l))) as Hsl0.
      { destruct (p_bit l); [lia|]. destruct Hr' as [[_ Hz] _]. nia. }
      lia.
  - destruct (p_comp l) eqn:C; cbn [negb].
    + (* struct list *)
      assert (p_bit l = false) as B by (destruct Hsh' as (_ & _ & X); exact X).
      rewrite B in *. destruct Hr' as [Hz Hr']. destruct Hsh' as (H8 & HD8 & _).
      pose proof (elem_size_safe (cx_farnull fx) (cfg_strict c) (fx_depth (cx_rd fx)) (w_src w) l Hm Hl
                    (Z.to_nat (list_len l)) 0 (mkOS 0 0) ltac:(lia)
                    ltac:(unfold list_len; rewrite V; lia) ltac:(unfold csz_ok; cbn; lia)) as ES.
      pose proof (elem_size_le (cx_farnull fx) (cfg_strict c) (fx_depth (cx_rd fx)) (w_src w) l Hm Hl V B
                    (Z.to_nat (list_len l)) 0 (mkOS 0 0) ltac:(lia)
                    ltac:(unfold list_len; rewrite V; lia)
                    ltac:(unfold esz_le, wf_size in *; cbn [DataSize PointerCount]; lia)) as EL.
      destruct (elem_size _ _ _ _ l _ 0 _) as [esz| |]; cbn [of_res kbind res_sat] in *; [|exact I|exact ES].
      pose proof (newCompositeList_safe (w_dst w) sid esz (p_len l) Hd Hsid ES) as NC.
      pose proof (newCompositeList_tot (w_dst w) sid esz (p_len l)) as NT.
      destruct (newCompositeList (w_dst w) sid esz (p_len l)) as [[m1 cl]| |]; cbn [lift bind of_res kbind];
        [|exact I|exact NC].
      destruct NC as (D1 & G1 & Hn0 & Hwc & Rc & Cp1 & Ecl & _).
      destruct (NT m1 cl Hd Hsid ES eq_refl) as [T1 Esz].
      assert (wgood w (w_set_dst w m1)) as Gw1 by (apply wgood_set_dst; auto).
      assert (list_len cl = p_len l) as Lcl by (rewrite Ecl; reflexivity).
      rewrite Lcl.
      pose proof (kfold_postk (wgood (w_set_dst w m1)) Phi (32 * PointerCount (p_size cl))
        (fun wa i => kbind (of_res (list_struct (fx_depth (cx_rd fx)) cl i)) (fun de =>
                     kbind (of_res (list_struct (fx_depth (cx_rd fx)) l i)) (fun se => fill_canonical c fx f wa de se)))
        (iota (Z.to_nat (p_len l))) (w_set_dst w m1)) as KF.
      match type of KF with ?A -> ?B -> ?C => assert A as HA end.
      { intros i wa Hi Ga. apply in_iota in Hi. pose proof Ga as (Da & Gra & Sa & Ra).
        pose proof (totalSize_bound _ Hwc) as Htc. pose proof (totalSize_wf _ Hwc) as Etc.
        assert (i * totalSize (p_size cl) + totalSize (p_size cl) <= p_len l * totalSize (p_size cl)) as Hie by nia.
        assert (0 <= i * totalSize (p_size cl)) as Hi0 by nia.
        destruct D1 as [I1 Sm1]. pose proof (Sm1 (p_seg cl)) as Smn. destruct Rc as (Rc1 & Rc2 & Rc3).
        assert (list_struct (fx_depth (cx_rd fx)) cl i =
                Ok (mkPtr true (p_seg cl) (p_off cl + i * totalSize (p_size cl)) 0 (p_size cl)
                          (if fx_depth (cx_rd fx) && (p_depth cl =? 0) then 0 else uint_dec (p_depth cl))
                          KStruct false false true)) as ->.
        { rewrite Ecl at 1. unfold list_struct. cbn [p_valid p_len p_bit p_off p_size p_seg p_depth negb orb].
          destruct (i <? 0) eqn:E1; [lia|]. destruct (i >=? p_len l) eqn:E2; [lia|]. cbn [orb].
          destruct (element _ _ _) eqn:E; [apply element_spec in E; destruct E as [-> _]|apply element_none in E; lia].
          rewrite Ecl. reflexivity. }
        cbn [of_res kbind].
        pose proof (list_struct_safe (fx_depth (cx_rd fx)) (w_src w) l i Hm Hl ltac:(unfold list_len; rewrite V; lia)) as Hse.
        assert (forall se, list_struct (fx_depth (cx_rd fx)) l i = Ok se -> p_valid se = true) as Vse.
        { intros se. unfold list_struct. rewrite V, B. cbn [negb orb].
          destruct (_ || _); [discriminate|]. destruct (element _ _ _) eqn:E.
          - intros H; inversion H; reflexivity.
          - exfalso. apply element_none in E. pose proof (totalSize_bound _ Hz).
            assert (i * totalSize (p_size l) + totalSize (p_size l) <= p_len l * totalSize (p_size l)) by nia.
            assert (0 <= i * totalSize (p_size l)) by nia. unfold maxSegmentSize in E. lia. }
        destruct (list_struct (fx_depth (cx_rd fx)) l i) as [se| |]; cbn [of_res kbind res_sat] in *; [|exact I|exact Hse].
        pose proof (IHf wa (mkPtr true (p_seg cl) (p_off cl + i * totalSize (p_size cl)) 0 (p_size cl)
                                  (if fx_depth (cx_rd fx) && (p_depth cl =? 0) then 0 else uint_dec (p_depth cl))
                                  KStruct false false true) se Da ltac:(rewrite Sa; exact Hm) ltac:(cbn [w_set_dst w_src_rl] in Ra; lia)) as FC.
        specialize (FC ltac:(split; [reflexivity|]; split; [exact Hwc|]; cbn [p_seg p_off p_size];
                             eapply region_grows; [exact Gra|]; cbn [w_dst w_set_dst]; unfold region_ok; rewrite <- Etc; lia)
                       ltac:(rewrite Sa; exact Hse) (Vse se eq_refl)).
        destruct (fill_canonical c fx f wa _ se) as [w'| | |]; cbn [kpostwk] in *; [|exact I|exact FC|exact I].
        cbn [p_size] in FC. destruct FC as [Gc Pc]. split; [eapply wgood_trans; [exact Ga|exact Gc]|lia]. }
      specialize (KF HA (wgood_refl (w_set_dst w m1) D1 Hr)). clear HA.
      destruct (kfold _ _ _) as [w3| | |]; cbn [kbind kpostpk]; [|exact I|exact KF|exact I].
      destruct KF as [KF P3]. split; [eapply wgood_trans; eassumption|]. split.
      { destruct KF as (_ & G3 & _). cbn [w_dst w_set_dst] in G3. eapply cp_ok_grows; eassumption. }
      rewrite zlen_iota in P3. rewrite Epc. rewrite Esz in P3. cbn [PointerCount] in P3.
      destruct EL as ((E1 & E1') & E2 & (E3 & E3')). pose proof (totalSize_wf _ Hz) as Etl. unfold wf_size in Hz.
      rewrite padToWord_id in T1 by lia.
      unfold Phi in *. cbn [w_dst w_set_dst w_src_rl] in P3. rewrite Etl in Hcont. nia.
    + (* pointer list *)
      assert (p_bit l = false /\ p_size l = mkOS 0 1) as [B Esl].
      { destruct (p_bit l) eqn:B.
        - exfalso. destruct Hr' as [Hz _]. rewrite Hz in Edata. cbn in Edata. discriminate.
        - split; [reflexivity|].
          destruct Hsh' as [E|[E|[E|[E|[E|E]]]]]; rewrite E in Edata; cbn in Edata; try discriminate. exact E. }
      rewrite B, Esl in *. change (totalSize (mkOS 0 1)) with 8 in *. cbn [PointerCount] in *.
      pose proof (newPointerList_safe (w_dst w) sid (p_len l) Hd Hsid) as NP.
      pose proof (newPointerList_tot (w_dst w) sid (p_len l)) as NT.
      destruct (newPointerList (w_dst w) sid (p_len l)) as [[m1 cl]| |]; cbn [lift bind of_res kbind];
        [|exact I|exact NP].
      destruct NP as (D1 & G1 & Hn0 & Rc & Cp1 & Ecl & _). pose proof (NT m1 cl Hd Hsid eq_refl) as T1.
      assert (wgood w (w_set_dst w m1)) as Gw1 by (apply wgood_set_dst; auto).
      pose proof (kfold_postk (wgood (w_set_dst w m1)) Phi 32
        (fun wa i =>
           let '(r, rl') := ptrlist_at c (fx_upgrade (cx_rd fx)) (w_src wa) (w_src_rl wa) l i in
           let wb := w_set_rl wa InSrc rl' in
           kbind (of_res r) (fun p => kbind (canonical_ptr c fx f wb sid p) (fun wd =>
           let '(w2, cp) := wd in of_res (ptrlist_set 4 w2 cl i InDst cp))))
        (iota (Z.to_nat (list_len l))) (w_set_dst w m1)) as KF.
      match type of KF with ?A -> ?B -> ?C => assert A as HA end.
      { intros i wa Hi Ga. apply in_iota in Hi. pose proof Ga as (Da & Gra & Sa & Ra).
        cbn [w_set_dst w_src w_src_rl] in Sa, Ra. rewrite Sa. cbv zeta.
        assert (0 <= i < p_len l) as Hi' by (unfold list_len in Hi; rewrite V in Hi; lia).
        pose proof (ptrlist_at_safe c (fx_upgrade (cx_rd fx)) (w_src w) (w_src_rl wa) l i Hm Hl
                      ltac:(unfold list_len; rewrite V; lia)) as PS.
        pose proof (ptrlist_at_charge c (fx_upgrade (cx_rd fx)) (w_src w) (w_src_rl wa) l i ltac:(lia)) as [PC PX].
        assert (forall q, fst (ptrlist_at c (fx_upgrade (cx_rd fx)) (w_src w) (w_src_rl wa) l i) = Ok q -> shape_ok q) as SH.
        { intros q. unfold ptrlist_at. destruct (primitiveElem _ _ _ _); try discriminate. apply readPtr_shape. }
        destruct (ptrlist_at c (fx_upgrade (cx_rd fx)) (w_src w) (w_src_rl wa) l i) as [r rl']. cbn [fst snd] in *.
        destruct r as [p| |]; cbn [of_res kbind res_sat] in *; [|exact I|exact PS].
        pose proof (wgood_rl _ wa rl' Ga PC) as Gb. pose proof (PS Hc) as Wp.
        pose proof (IHp (w_set_rl wa InSrc rl') sid p) as CP. cbn [w_set_rl w_dst w_src w_src_rl] in CP.
        specialize (CP Da ltac:(rewrite Sa; exact Hm) ltac:(lia)
                       ltac:(destruct Gra as [Gn _]; destruct G1 as [Gn1 _]; cbn [w_dst w_set_dst] in Gn; lia)
                       ltac:(rewrite Sa; exact Wp) (SH p eq_refl)).
        destruct (canonical_ptr c fx f _ sid p) as [[w2 cp]| | |]; cbn [kbind kpostpk] in *; [|exact I|exact CP|exact I].
        destruct CP as (G2 & Cp & P2). pose proof (wgood_trans _ _ _ Gb G2) as Gw2. destruct Gw2 as (D2 & Gr2 & S2 & R2).
        unfold ptrlist_set.
        assert (primitiveElem true cl i (mkOS 0 1) = Ok (p_off cl + i * 8)) as ->.
        { rewrite Ecl at 1. unfold primitiveElem.
          cbn [p_valid p_len p_bit p_comp p_size p_off negb orb andb DataSize PointerCount].
          destruct (i <? 0) eqn:E1; [lia|]. destruct (i >=? p_len l) eqn:E2; [lia|]. cbn [orb].
          change (os_eqb (mkOS 0 1) (mkOS 0 1)) with true. cbn [negb orb andb].
          change (totalSize (mkOS 0 1)) with 8.
          destruct D1 as [I1 Sm1]. pose proof (Sm1 (p_seg cl)) as Smn. destruct Rc as (Rc1 & Rc2 & Rc3).
          destruct (element _ _ _) eqn:E; [apply element_spec in E; destruct E as [-> _]|apply element_none in E; lia].
          try rewrite Bool.andb_false_r. cbn [andb]. reflexivity. }
        cbn [bind].
        pose proof (write_ptr_nocopy_k 3 w2 (p_seg cl) (p_off cl + i * 8) cp D2 ltac:(lia)
                      ltac:(eapply region_grows; [exact Gr2|]; cbn [w_dst w_set_dst];
                            destruct Rc as (Rc1 & Rc2 & Rc3); unfold region_ok; lia) Cp) as WP.
        destruct (write_ptr 4 true w2 (p_seg cl) (p_off cl + i * 8) InDst cp false) as [w3| |];
          cbn [of_res rpostk] in *; [|exact I|exact WP].
        destruct WP as [G3 P3]. split.
        - eapply wgood_trans; [|exact G3]. split; [exact D2|]. split; [exact Gr2|]. split; [exact S2|exact R2].
        - pose proof (slot_cost _ p _ _ Hm Wp (proj1 PC) PX). unfold Phi in *. cbn [w_dst w_src_rl] in P2. lia. }
      specialize (KF HA (wgood_refl (w_set_dst w m1) D1 Hr)). clear HA.
      destruct (kfold _ _ _) as [w3| | |]; cbn [kbind kpostpk]; [|exact I|exact KF|exact I].
      destruct KF as [KF P3]. split; [eapply wgood_trans; eassumption|]. split.
      { destruct KF as (_ & G3 & _). cbn [w_dst w_set_dst] in G3. eapply cp_ok_grows; eassumption. }
      rewrite zlen_iota in P3. unfold list_len in P3. rewrite V in P3. rewrite Epc.
      unfold Phi in *. cbn [w_dst w_set_dst w_src_rl] in P3. lia.
Qed.

Theorem canon_alloc_all c fx : cfg_strict c = true -> cx_complist fx = true ->
  forall f, A_fill c fx f /\ A_ptr c fx f /\ A_list c fx f.
Proof.
  intros Hc Hcl. induction f as [|f (IHf & IHp & IHl)].
  - split; [|split]; intros ?; intros; exact I.
  - split; [apply afill_step; assumption|]. split; [apply aptr_step; assumption|apply alist_step; assumption].
Qed.

Lemma set_root_k w root : dok (w_dst w) -> 0 <= w_src_rl w -> cp_ok (w_dst w) root ->
  rpostk w 16 (set_root 4 w InDst root).
Proof.
  intros Hd Hr Hcp. unfold set_root, set_root_gen. cbv zeta.
  destruct (bm_segs (w_dst w)) as [|s0 rest] eqn:Es; [exact I|].
  destruct (regionInBounds (bs_data s0) 0 8) eqn:Er; cbn [negb]; [|exact I].
  apply regionInBounds_spec in Er.
  apply write_ptr_nocopy_k; auto. unfold region_ok, nsegs, mem, get_seg. rewrite Es.
  cbn [nth Z.to_nat]. unfold zlen at 1. cbn [length]. split; [lia|]. split; [lia|]. change (Z.to_nat 0) with 0%nat. cbn [nth]. lia.
Qed.

Lemma new_single_tot : exists m0, new_message ASingle [] 0 = Ok m0 /\ dok m0 /\ nsegs m0 = 1 /\ tot m0 = 8.
Proof.
  eexists. split; [vm_compute; reflexivity|]. split; [|split; reflexivity].
  split; [split|].
  - repeat constructor; cbn; lia.
  - intros _. reflexivity.
  - intros i. unfold mem, get_seg. cbn. destruct (Z.to_nat i) as [|[|n]]; cbn; unfold maxSegmentSize; lia.
Qed.

Lemma sumN_nonneg f n : (forall i, 0 <= f i) -> 0 <= sumN f n.
Proof. intros H. induction n; cbn [sumN]; [lia|]. specialize (H n). lia. Qed.
Lemma seg0_le_tot m : 1 <= nsegs m -> zlen (mem m 0) <= tot m.
Proof.
  intros H. unfold tot, nsegs, zlen in *. destruct (length (bm_segs m)) as [|n] eqn:E; [lia|].
  assert (forall k, lenf m 0 <= sumN (lenf m) (S k)) as G.
  { induction k as [|k IH]; cbn [sumN]; [lia|]. cbn [sumN] in IH.
    assert (0 <= lenf m (S k)) by (unfold lenf; apply zlen_nonneg). lia. }
  apply G.
Qed.

(* canon_alloc: the canonical form of a hostile struct is at most
   5 x (its own size + traversal budget consumed) + 47 bytes long, and the budget only goes down.
   With C02_traversal the budget consumed is at most what is left of T: no amplification. *)
Theorem canonicalize_alloc c fx fuel src rl s bs :
  cfg_strict c = true -> cx_complist fx = true -> msg_ok src -> wf_struct src s -> p_valid s = true -> 0 <= rl ->
  fst (canonicalize c fx fuel src rl s) = KOk bs ->
  let rl' := snd (canonicalize c fx fuel src rl s) in
  0 <= rl' <= rl /\ zlen bs <= 5 * (totalSize (p_size s) + (rl - rl')) + 47.
Proof.
  intros Hc Hcl Hm Hs V Hr. unfold canonicalize.
  destruct new_single_tot as (m0 & -> & D0 & N0 & T0).
  rewrite V. cbn [negb]. set (w0 := mkW m0 src rl).
  pose proof (canonicalStructSize_safe (cx_farnull fx) (cfg_strict c) src s Hm Hs) as CS.
  pose proof (canonicalStructSize_le (cx_farnull fx) (cfg_strict c) src s Hm Hs) as CL.
  destruct (canonicalStructSize _ _ src s) as [sz| |]; cbn [of_res kbind res_sat] in *; try discriminate.
  pose proof (newStruct_safe m0 0 sz D0 ltac:(lia) CS) as NS.
  pose proof (newStruct_tot m0 0 sz) as NT.
  destruct (newStruct m0 0 sz) as [[m1 root]| |]; cbn [lift bind of_res kbind]; try discriminate.
  destruct NS as (D1 & G1 & Do1 & Cp1 & K1 & _). destruct (NT m1 root D0 ltac:(lia) CS eq_refl) as [T1 Ert].
  pose proof (set_root_k (w_set_dst w0 m1) root D1 Hr Cp1) as R1.
  destruct (set_root 4 (w_set_dst w0 m1) InDst root) as [w2| |]; cbn [of_res kbind rpostk] in *; try discriminate.
  destruct R1 as [(D2 & G2 & S2 & Rl2) P2]. cbn [w_dst w_set_dst w_src w_src_rl w0] in *.
  pose proof (set_root_k w2 root D2 ltac:(lia) (cp_ok_grows _ _ _ G2 Cp1)) as R2.
  destruct (set_root 4 w2 InDst root) as [w3| |]; cbn [of_res kbind rpostk] in *; try discriminate.
  destruct R2 as [(D3 & G3 & S3 & Rl3) P3].
  destruct (canon_alloc_all c fx Hc Hcl fuel) as (PF & _ & _).
  pose proof (PF w3 root s D3 ltac:(rewrite S3, S2; exact Hm) ltac:(lia)
                ltac:(destruct Do1 as (A & B & C0); split; [exact A|split; [exact B|]];
                      eapply region_grows; [exact G3|]; eapply region_grows; [exact G2|exact C0])
                ltac:(rewrite S3, S2; exact Hs) V) as FC.
  destruct (fill_canonical c fx fuel w3 root s) as [w4| | |]; cbn [kpostwk fst snd] in *; try discriminate.
  intros E. inversion E; subst bs. clear E. destruct FC as [(D4 & G4 & S4 & Rl4) P4].
  cbv zeta. split; [lia|].
  assert (1 <= nsegs (w_dst w4)) as N4.
  { destruct G4 as [Gn4 _]. destruct G3 as [Gn3 _]. destruct G2 as [Gn2 _]. destruct G1 as [Gn1 _].
    cbn [w_dst w_set_dst] in *. lia. }
  pose proof (seg0_le_tot _ N4) as S0. change (bs_data (get_seg (w_dst w4) 0)) with (mem (w_dst w4) 0).
  destruct CL as (C1 & C2 & C3 & C4 & _). specialize (C4 V).
  destruct (wf_struct_inv _ s Hs V) as (_ & Hz & _). rewrite (totalSize_wf _ Hz). unfold wf_size in Hz.
  rewrite Ert in P4. cbn [PointerCount] in P4. rewrite padToWord_id in T1 by lia.
  unfold Phi in *. subst w0. cbn [w_dst w_set_dst w_src_rl] in *. lia.
Qed.
