(* C18 [T2]: canonicalList, the data-only case (void lists and lists of 1/2/4/8-byte values):
   the source bytes are copied to freshly allocated zero bytes at the end of the segment; read as
   words (last word zero-padded) they are the specification's [pack] of the element values. *)
From CV Require Import Value.ValueEq Value.ValueEqProofs Value.EqualM Value.Den Value.DenFacts Value.DenLists
                       Value.CanonSpec Value.CanonProofs Value.CanonProofs3 Value.CanonM Value.CanonMStruct
                       Value.CanonMWords Value.CanonMData Value.CanonMHeap Value.CanonMLoop Value.CanonSafe Value.EqualProofs
                       Value.CanonMProofs Value.CanonMInd Value.VDecProofs.
From CV Require Import Core.ReaderFacts Core.SafetyProofs Core.BuilderFacts Core.ArithFacts Core.CopySafe.
From Coq Require Import ZifyBool ZifyNat.
Ltac Zify.zify_post_hook ::= Z.div_mod_to_equations.
Open Scope Z_scope.

(* ------------------------------------------------------------------ bytes, words and pack *)
Lemma le_decode_app a b : le_decode (a ++ b) = le_decode a + 256 ^ zlen a * le_decode b.
Proof.
  induction a as [|x a IH]; cbn [app le_decode].
  - unfold zlen. cbn [length]. change (256 ^ Z.of_nat 0) with 1. lia.
  - rewrite IH. unfold zlen. cbn [length]. rewrite Nat2Z.inj_succ, Z.pow_succ_r by lia. ring.
Qed.

Lemma pack_word_chunks w g : Forall (fun c : list Z => length c = w) g ->
  pack_word (256 ^ Z.of_nat w) (map le_decode g) = le_decode (concat g).
Proof.
  induction 1 as [|c g Hc Hg IH]; cbn [map pack_word concat le_decode]; [reflexivity|].
  rewrite le_decode_app, IH. unfold zlen. rewrite Hc. reflexivity.
Qed.

Lemma concat_length_const w (g : list (list Z)) : Forall (fun c => length c = w) g -> length (concat g) = (w * length g)%nat.
Proof. induction 1 as [|c g Hc Hg IH]; cbn [concat length]; [lia|]. rewrite app_length, IH, Hc. lia. Qed.

Lemma Forall_firstn' {A} (P : A -> Prop) k l : Forall P l -> Forall P (firstn k l).
Proof. intros H. revert k. induction H; intros [|k]; cbn [firstn]; constructor; auto. Qed.
Lemma Forall_skipn' {A} (P : A -> Prop) k l : Forall P l -> Forall P (skipn k l).
Proof. intros H. revert k. induction H; intros [|k]; cbn [skipn]; try constructor; auto. Qed.

Lemma wob_8 a r : length a = 8%nat -> words_of_bytes (a ++ r) = le_decode a :: words_of_bytes r.
Proof.
  intros H. do 8 (destruct a as [|? a]; [discriminate H|]). destruct a; [|discriminate H]. reflexivity.
Qed.

Lemma wob_small l : (0 < length l < 8)%nat -> words_of_bytes l = [le_decode l].
Proof.
  intros H. destruct l as [|b0 l]; [cbn in H; lia|].
  do 7 (destruct l as [|? l]; [reflexivity|]). cbn [length] in H. lia.
Qed.

Lemma pack_chunks w per : (w * per = 8)%nat -> forall fuel cs, (length cs <= fuel)%nat ->
  Forall (fun c : list Z => length c = w) cs ->
  pack_all fuel (256 ^ Z.of_nat w) per (map le_decode cs) = words_of_bytes (concat cs).
Proof.
  intros Hwp. assert (Hw : (1 <= w)%nat) by (destruct w; lia). assert (Hp : (1 <= per)%nat) by (destruct per; lia).
  induction fuel as [|fuel IH]; intros cs Hl Hf.
  - destruct cs; [reflexivity| cbn [length] in Hl; lia].
  - destruct cs as [|c0 r] eqn:Ecs; [reflexivity|].
    assert (Hne : (1 <= length cs)%nat) by (rewrite Ecs; cbn [length]; lia).
    cbn [map pack_all]. change (le_decode c0 :: map le_decode r) with (map le_decode (c0 :: r)). rewrite <- Ecs in *.
    rewrite firstn_map, skipn_map.
    rewrite (pack_word_chunks w) by (apply Forall_firstn'; exact Hf).
    rewrite IH; [| rewrite skipn_length; lia | apply Forall_skipn'; exact Hf].
    rewrite <- (firstn_skipn per cs) at 3. rewrite concat_app.
    pose proof (concat_length_const w _ (Forall_firstn' _ per cs Hf)) as Lg. rewrite firstn_length in Lg.
    destruct (Nat.le_gt_cases per (length cs)) as [Hge|Hlt].
    + rewrite Nat.min_l in Lg by lia. rewrite wob_8 by lia. reflexivity.
    + rewrite Nat.min_r in Lg by lia.
      rewrite (skipn_all2 cs) by lia. cbn [concat]. rewrite app_nil_r.
      assert (w * length cs < w * per)%nat by (apply Nat.mul_lt_mono_pos_l; lia).
      assert (1 * 1 <= w * length cs)%nat by (apply Nat.mul_le_mono; lia).
      change (words_of_bytes []) with (@nil Z). rewrite wob_small by lia. reflexivity.
Qed.

Lemma le_encode_zero n : le_encode n 0 = repeat 0 n.
Proof. induction n; cbn [le_encode repeat]; [reflexivity|]. change (0 mod 256) with 0. change (0 / 256) with 0. rewrite IHn. reflexivity. Qed.

Lemma le_encode_decode_pad : forall l n, bytes_ok l -> (length l <= n)%nat ->
  le_encode n (le_decode l) = l ++ repeat 0 (n - length l).
Proof.
  induction l as [|b l IH]; intros n Hb Hl.
  - cbn [le_decode length app]. rewrite Nat.sub_0_r. apply le_encode_zero.
  - destruct n as [|n]; [cbn [length] in Hl; lia|]. inversion Hb as [|? ? Hb0 Hbl]; subst.
    cbn [le_decode le_encode length app Nat.sub].
    replace ((b + 256 * le_decode l) mod 256) with b by lia.
    replace ((b + 256 * le_decode l) / 256) with (le_decode l) by lia.
    rewrite IH; [reflexivity|exact Hbl|cbn [length] in Hl; lia].
Qed.

(* read as words and written back, bytes come back zero-padded to a word boundary *)
Lemma bow_wob_pad : forall fuel d, (length d <= fuel)%nat -> bytes_ok d ->
  exists k, bytes_of_words (words_of_bytes d) = d ++ repeat 0 k /\ ((length d + k) mod 8 = 0)%nat /\ (k < 8)%nat.
Proof.
  induction fuel as [|fuel IH]; intros d Hl Hb.
  - destruct d; [|cbn [length] in Hl; lia]. exists 0%nat. split; [reflexivity|]. split; [reflexivity|lia].
  - destruct (Nat.le_gt_cases 8 (length d)) as [Hge|Hlt].
    + assert (Ew : words_of_bytes d = le_decode (firstn 8 d) :: words_of_bytes (skipn 8 d)).
      { rewrite <- (firstn_skipn 8 d) at 1. apply wob_8. rewrite firstn_length; lia. }
      destruct (IH (skipn 8 d)) as (k & E & Hm & Hk); [rewrite skipn_length; lia| apply Forall_skipn'; exact Hb|].
      exists k. rewrite Ew. unfold bytes_of_words. cbn [flat_map]. fold (bytes_of_words (words_of_bytes (skipn 8 d))). rewrite E.
      assert (L8 : length (firstn 8 d) = 8%nat) by (rewrite firstn_length; lia).
      pose proof (le_encode_decode (firstn 8 d) (Forall_firstn' _ 8 d Hb)) as E8. rewrite L8 in E8. rewrite E8.
      rewrite app_assoc, firstn_skipn. split; [reflexivity|]. split; [|exact Hk].
      rewrite skipn_length in Hm. replace (length d + k)%nat with ((length d - 8 + k) + 1 * 8)%nat by lia.
      rewrite Nat.mod_add by discriminate. exact Hm.
    + destruct d as [|b0 r] eqn:Ed.
      * exists 0%nat. split; [reflexivity|]. split; [reflexivity|lia].
      * rewrite <- Ed in *. assert (0 < length d)%nat by (rewrite Ed; cbn [length]; lia).
        rewrite wob_small by lia. exists (8 - length d)%nat. unfold bytes_of_words. cbn [flat_map]. rewrite app_nil_r.
        rewrite le_encode_decode_pad by (assumption || lia). split; [reflexivity|].
        split; [|lia]. replace (length d + (8 - length d))%nat with 8%nat by lia. reflexivity.
Qed.

(* ------------------------------------------------------------------ heap facts for the raw copy *)
Lemma alloc_bound_pad data cap sz m1 s1 a1 :
  alloc (seg0 data cap) 0 sz = Ok (m1, s1, a1) -> zlen data + padToWord sz <= 4294967288.
Proof.
  intros H. unfold alloc in H. destruct (sz >? maxAllocSize) eqn:E0; [discriminate H|].
  change (get_seg (seg0 data cap) 0) with (mkBS data cap) in H.
  destruct (hasCapacity (mkBS data cap) (padToWord sz)) eqn:Hc.
  - cbn [bind] in H. change (get_seg (seg0 data cap) 0) with (mkBS data cap) in H. unfold blen in H. cbn [bs_data bs_cap] in H.
    destruct (addSize (zlen data) (padToWord sz)) eqn:Eas; [|discriminate H]. apply addSize_spec in Eas. unfold maxSegmentSize in Eas. lia.
  - unfold allocSegment in H. destruct (padToWord sz >? maxAllocSize); [cbn [bind] in H; discriminate H|]. cbn [seg0 bm_arena] in H.
    change (get_seg (seg0 data cap) 0) with (mkBS data cap) in H.
    destruct (negb (blen (mkBS data cap) mod 8 =? 0)); [cbn [bind] in H; discriminate H|]. rewrite Hc in H.
    destruct (nextAlloc (blen (mkBS data cap)) maxAllocSize (padToWord sz)) as [inc| |]; try (cbn [bind] in H; discriminate H).
    cbn [bind bs_data bs_cap] in H.
    change (get_seg (put_seg (seg0 data cap) 0 (mkBS data (cap + inc))) 0) with (mkBS data (cap + inc)) in H.
    unfold blen in H. cbn [bs_data bs_cap] in H.
    destruct (addSize (zlen data) (padToWord sz)) eqn:Eas; [|discriminate H]. apply addSize_spec in Eas. unfold maxSegmentSize in Eas. lia.
Qed.

Lemma seg_write_raw data cap A bs : 0 <= A -> A + zlen bs <= zlen data -> zlen data < 4294967296 ->
  seg_write (seg0 data cap) 0 A bs = Ok (seg0 (write_bytes data A bs) cap).
Proof.
  intros HA Hb Hl. unfold seg_write. change (get_seg (seg0 data cap) 0) with (mkBS data cap).
  unfold addSizeUnchecked, u32, blen. cbn [bs_data bs_cap].
  assert (Z0 : 0 <= zlen bs) by (unfold zlen; lia). assert (Z1 : 0 <= zlen data) by (unfold zlen; lia).
  replace ((A + zlen bs) mod 4294967296) with (A + zlen bs) by lia.
  destruct ((0 <=? A) && (A <=? A + zlen bs) && (A + zlen bs <=? zlen data)) eqn:E; [|lia].
  reflexivity.
Qed.

Lemma skipn_repeat {A} (x : A) : forall k n, skipn k (repeat x n) = repeat x (n - k).
Proof. induction k; intros [|n]; cbn [skipn repeat Nat.sub]; auto. Qed.

Lemma write_bytes_end data P bs : (length bs <= P)%nat ->
  write_bytes (data ++ repeat 0 P) (zlen data) bs = data ++ bs ++ repeat 0 (P - length bs).
Proof.
  intros H. unfold write_bytes, zlen. rewrite Nat2Z.id, firstn_app, Nat.sub_diag, firstn_all. cbn [firstn]. rewrite app_nil_r.
  f_equal. f_equal. rewrite skipn_app, skipn_all2 by lia. cbn [app].
  replace (length data + length bs - length data)%nat with (length bs) by lia. apply skipn_repeat.
Qed.

Lemma mask_last_length n bs : length (mask_last n bs) = length bs.
Proof.
  unfold mask_last. cbv zeta. destruct (n mod 8 =? 0); [reflexivity|].
  destruct (rev bs) as [|l pre] eqn:E.
  - apply (f_equal (@length Z)) in E. rewrite rev_length in E. cbn [length] in *. lia.
  - apply (f_equal (@length Z)) in E. rewrite rev_length in E. rewrite app_length, rev_length. cbn [length] in *. lia.
Qed.

Lemma hd_word_strip1 x : hd_word (strip0 [x]) = x.
Proof. cbn [strip0]. destruct (x =? 0) eqn:E; cbn [hd_word]; lia. Qed.

Lemma concat_chunks s o w : 0 <= o -> 0 <= w -> forall n : nat,
  concat (map (fun i => sub s (o + i * w) w) (iota n)) = sub s o (Z.of_nat n * w).
Proof.
  intros Ho Hw. induction n as [|n IH].
  - cbn. unfold sub. cbn. reflexivity.
  - rewrite iota_S, map_app, concat_app, IH. cbn [map concat]. rewrite app_nil_r.
    replace (Z.of_nat (S n) * w) with (Z.of_nat n * w + w) by lia. rewrite sub_split by lia. reflexivity.
Qed.

Lemma iota_length n : length (iota n) = n.
Proof. unfold iota; rewrite map_length, seq_length; reflexivity. Qed.

Lemma nth_map_iota {A} (h : Z -> A) n i d : (i < n)%nat -> nth i (map h (iota n)) d = h (Z.of_nat i).
Proof.
  intros H. rewrite (nth_indep _ d (h 0)) by (rewrite map_length, iota_length; exact H).
  rewrite (map_nth h (iota n) 0 i), nth_iota by exact H. reflexivity.
Qed.

Lemma zlen_map {A B} (h : A -> B) l : zlen (map h l) = zlen l.
Proof. unfold zlen. rewrite map_length. reflexivity. Qed.

Section ListR.
Context (c : config) (fx : cfix) (m : segs).
Context (Hstrict : cfg_strict c = true) (Hfx : all_cfixed fx) (Hm : msg_ok m).

(* the data-only branch of canonicalList *)
Lemma raw_copy f data cap rl p w' cp :
  hinv data -> p_valid p = true -> p_comp p = false -> PointerCount (p_size p) = 0 ->
  0 <= p_off p -> 0 <= list_allocSize p -> p_off p + list_allocSize p <= zlen (seg_of m p) ->
  zlen (seg_of m p) <= 4294967288 ->
  canonical_list c fx (S f) (dstw data cap m rl) 0 p = KOk (w', cp) ->
  let sz := list_allocSize p in
  let bs := sub (seg_of m p) (p_off p) sz in
  let bs' := if p_bit p then mask_last (p_len p) bs else bs in
  zlen data + padToWord sz <= 4294967288 /\
  cp = mkPtr true 0 (zlen data) (p_len p) (p_size p) maxDepth KList false (p_bit p) false /\
  exists cap', w' = dstw (data ++ bs' ++ repeat 0 (Z.to_nat (padToWord sz) - length bs')) cap' m rl.
Proof.
  intros [Hi1 Hi2] Hv Hc Hpc Ho Hsz Hbd Hsl H. cbv zeta.
  rewrite canonical_list_S in H. rewrite Hv, Hpc, Hc, Bool.andb_false_r in H. cbn [negb andb] in H.
  change (0 =? 0) with true in H. cbn [andb] in H. cbv zeta in H. cbn [w_dst dstw] in H.
  set (sz := list_allocSize p) in *.
  destruct (alloc (seg0 data cap) 0 sz) as [[[m1 sid1] addr]| |] eqn:Ea; try discriminate H.
  pose proof (alloc_bound_pad data cap sz m1 sid1 addr Ea) as Hbound.
  destruct (alloc_seg0 data cap sz m1 sid1 addr Hi1 Hsz Ea) as (cap1 & -> & -> & ->).
  cbn [of_res kbind] in H. change (src_seg (dstw data cap m rl) p) with (seg_of m p) in H.
  rewrite slice_ok in H by lia. cbn [of_res kbind] in H.
  destruct Hfx as (_ & Hbp & _). rewrite Hbp in H. cbn [andb] in H.
  set (bs := sub (seg_of m p) (p_off p) sz) in *.
  set (bs' := if p_bit p then mask_last (p_len p) bs else bs) in *.
  assert (Lbs : zlen bs = sz) by (unfold bs; apply sub_length; lia).
  assert (Lbs' : length bs' = length bs) by (unfold bs'; destruct (p_bit p); [apply mask_last_length|reflexivity]).
  assert (P0 : sz <= padToWord sz) by (unfold padToWord, u32; lia).
  unfold lift0 in H. cbn [w_dst w_set_dst] in H.
  rewrite seg_write_raw in H.
  2:{ unfold zlen; lia. }
  2:{ rewrite zlen_app. unfold zlen in *. rewrite repeat_length, Lbs'. lia. }
  2:{ rewrite zlen_app. unfold zlen in *. rewrite repeat_length. lia. }
  cbn [bind of_res kbind] in H. inversion H; subst w' cp; clear H.
  split; [exact Hbound|]. split; [reflexivity|]. exists cap1.
  rewrite write_bytes_end by (unfold zlen in *; lia). reflexivity.
Qed.

Lemma den_prim_inv p k vs : den true m 0 [] p (VList k vs) -> k <> LPtr -> k <> LComp ->
  exists w, prim_width w /\ k = kind_of_width w /\
  p_valid p = true /\ p_kind p = KList /\ p_bit p = false /\ p_comp p = false /\ p_size p = mkOS w 0 /\
  zlen vs = p_len p /\
  (forall i, 0 <= i < p_len p -> exists d, slice (seg_of m p) (p_off p + i * w) w = Ok d
                 /\ nthv vs i = VStruct (words_of_bytes d) []).
Proof.
  intros D K1 K2. inversion D; subst; try congruence.
  exists w. split; [assumption|]. split; [reflexivity|]. split; [assumption|]. split; [assumption|].
  split; [assumption|]. split; [assumption|]. split; [assumption|]. split; assumption.
Qed.

Lemma list_prim_case f data cap rl p k vs w' cp :
  hinv data -> wf_ptr m p -> den true m 0 [] p (VList k vs) -> k <> LPtr -> k <> LComp ->
  canonical_list c fx (S f) (dstw data cap m rl) 0 p = KOk (w', cp) -> Qconcl m data (VList k vs) w' cp.
Proof.
  intros Hi Hwf D K1 K2 H.
  destruct (den_prim_inv _ _ _ D K1 K2) as (w & Hw & -> & Hv & Hk & Hb & Hc & Hsz & Lvs & K).
  destruct (Hwf Hv) as (Hseg & Hobj). unfold wf_obj in Hobj. rewrite Hk, Hb, Hsz in Hobj.
  destruct Hobj as (Ho & Hlen & _ & Hbd).
  assert (Hts : totalSize (mkOS w 0) = w) by (destruct Hw as [->|[->|[->|[->| ->]]]]; reflexivity).
  assert (Hw8 : 0 <= w <= 8) by (destruct Hw as [->|[->|[->|[->| ->]]]]; lia).
  rewrite Hts in Hbd.
  assert (Hsok : seg_ok (seg_of m p)) by (apply seg_of_ok; assumption).
  assert (Hsl : zlen (seg_of m p) <= 4294967288) by (apply Hsok).
  set (n := p_len p) in *.
  assert (Esz : list_allocSize p = n * w).
  { unfold list_allocSize. rewrite Hv, Hb, Hc, Hsz, Hts. cbn [negb]. fold n.
    rewrite times_some by (unfold maxSegmentSize; nia). lia. }
  pose proof (raw_copy f data cap rl p w' cp Hi Hv Hc ltac:(rewrite Hsz; reflexivity) Ho ltac:(rewrite Esz; nia)
                       ltac:(rewrite Esz; lia) Hsl H) as R.
  cbv zeta in R. rewrite Esz, Hb, Hsz in R. fold n in R. destruct R as (Hbound & -> & cap1 & ->).
  destruct Hi as [Hi1 Hi2].
  set (bs := sub (seg_of m p) (p_off p) (n * w)) in *.
  assert (Lbs : zlen bs = n * w) by (unfold bs; apply sub_length; nia).
  assert (Hbs : bytes_ok bs) by (unfold bs, sub; apply Forall_firstn', Forall_skipn'; apply Hsok).
  destruct (bow_wob_pad (length bs) bs (le_n _) Hbs) as (kp & Ebow & Hkm & Hk8).
  assert (Ekp : (Z.to_nat (padToWord (n * w)) - length bs)%nat = kp).
  { unfold padToWord, u32 in *. unfold zlen in Lbs. assert (0 <= n * w) by nia. lia. }
  rewrite Ekp, <- Ebow. exists (words_of_bytes bs), cap1, rl. split; [reflexivity|].
  assert (Lbow : zlen (bytes_of_words (words_of_bytes bs)) = padToWord (n * w)).
  { rewrite Ebow, zlen_app. unfold zlen in *. rewrite repeat_length. unfold padToWord, u32 in *. assert (0 <= n * w) by nia. lia. }
  assert (Pm : padToWord (n * w) mod 8 = 0) by (unfold padToWord; lia).
  assert (P0 : 0 <= padToWord (n * w)) by (unfold padToWord, u32; lia).
  split; [split; rewrite zlen_app, Lbow; lia|].
  split.
  { right. cbn [p_valid p_seg p_member p_off p_kind p_size p_len p_comp p_bit].
    split; [reflexivity|]. split; [reflexivity|]. split; [reflexivity|]. split; [exact Hi1|].
    split; [rewrite zlen_app, Lbow; unfold zlen; lia|]. split; [lia|]. right. exists w. split; [exact Hw|reflexivity]. }
  intros a F Ha Ham Hab HFd.
  set (digs := map (fun v => hd_word (sdata (norm v))) vs).
  assert (Ldigs : zlen digs = n) by (unfold digs, zlen in *; rewrite map_length; lia).
  assert (Edigs : digs = map le_decode (map (fun i => sub (seg_of m p) (p_off p + i * w) w) (iota (Z.to_nat n)))).
  { apply (nth_ext _ _ 0 0).
    - unfold digs. rewrite !map_length, iota_length. unfold zlen in *. lia.
    - intros i Hi0. unfold digs in Hi0. rewrite map_length in Hi0.
      rewrite map_map. unfold digs.
      change 0 with ((fun v => hd_word (sdata (norm v))) VNull) at 1. rewrite map_nth.
      change (nth i vs VNull) with (nthv vs (Z.of_nat i)) || idtac.
      destruct (K (Z.of_nat i) ltac:(unfold zlen in *; lia)) as (d & Sd & Ev).
      rewrite slice_ok in Sd by (unfold zlen in *; nia). inversion Sd; subst d; clear Sd.
      unfold nthv in Ev. rewrite Nat2Z.id in Ev. rewrite Ev.
      rewrite nth_map_iota by (unfold zlen in *; lia).
      set (di := sub (seg_of m p) (p_off p + Z.of_nat i * w) w).
      assert (Ldi : zlen di = w) by (unfold di; apply sub_length; unfold zlen in *; nia).
      cbn [norm sdata map stripN].
      destruct (Z.eq_dec w 0) as [W0|W0].
      + assert (di = []) by (destruct di; [reflexivity|unfold zlen in Ldi; cbn [length] in Ldi; lia]).
        rewrite H0. reflexivity.
      + destruct (Z.eq_dec w 8) as [W8|W8].
        * rewrite <- (app_nil_r di) at 1. rewrite wob_8 by (unfold zlen in Ldi; lia).
          change (words_of_bytes []) with (@nil Z). apply hd_word_strip1.
        * rewrite wob_small by (unfold zlen in Ldi; lia). apply hd_word_strip1. }
  assert (En : norm (VList (kind_of_width w) vs)
               = VList (kind_of_width w) (match kind_of_width w with
                                          | LVoid => map (fun _ => VStruct [] []) (map norm vs)
                                          | _ => map (fun n0 => VStruct [hd_word (sdata n0)] []) (map norm vs) end)).
  { destruct Hw as [->|[->|[->|[->| ->]]]]; reflexivity. }
  rewrite En in *. clear En.
  destruct F as [|F']; [cbn [vdepth] in HFd; destruct (kind_of_width w); lia|].
  assert (Lcs : Forall (fun c0 : list Z => length c0 = Z.to_nat w)
                       (map (fun i => sub (seg_of m p) (p_off p + i * w) w) (iota (Z.to_nat n)))).
  { apply Forall_forall. intros x Hx. apply in_map_iff in Hx. destruct Hx as (i & <- & Hin).
    apply in_map_iff in Hin. destruct Hin as (j & <- & Hj). apply in_seq in Hj.
    pose proof (sub_length (seg_of m p) (p_off p + Z.of_nat j * w) w ltac:(nia) ltac:(lia) ltac:(nia)) as L. unfold zlen in L. lia. }
  assert (Hoff : zlen data / 8 - a / 8 - 1 < 536870912) by lia.
  assert (Epack : forall per, (Z.to_nat w * per = 8)%nat ->
             pack (256 ^ w) per digs = words_of_bytes bs).
  { intros per Hper. unfold pack. rewrite Edigs. rewrite map_length.
    replace w with (Z.of_nat (Z.to_nat w)) at 1 by lia.
    rewrite (pack_chunks (Z.to_nat w) per Hper) by (exact Lcs || lia).
    rewrite concat_chunks by lia. unfold bs. f_equal. f_equal. lia. }
  unfold ptr_word. cbn [p_valid negb p_kind p_comp p_bit p_size PointerCount DataSize p_off p_len].
  change (0 =? 1) with false. cbv iota.
  destruct Hw as [->|[->|[->|[->| ->]]]]; cbn [kind_of_width Z.eqb Pos.eqb enc] in *;
    rewrite !zlen_map, Lvs; unfold two29;
    (destruct ((n >=? 536870912) || (zlen data / 8 - a / 8 - 1 >=? 536870912)) eqn:E1; [lia|]).
  - replace bs with (@nil Z) by (destruct bs; [reflexivity|unfold zlen in Lbs; cbn [length] in Lbs; lia]). reflexivity.
  - rewrite map_map. cbn [sdata hd_word kind_code kind_base kind_per]. rewrite map_map. fold digs.
    rewrite <- (Epack 8%nat eq_refl). reflexivity.
  - rewrite map_map. cbn [sdata hd_word kind_code kind_base kind_per]. rewrite map_map. fold digs.
    rewrite <- (Epack 4%nat eq_refl). reflexivity.
  - rewrite map_map. cbn [sdata hd_word kind_code kind_base kind_per]. rewrite map_map. fold digs.
    rewrite <- (Epack 2%nat eq_refl). reflexivity.
  - rewrite map_map. cbn [sdata hd_word kind_code kind_base kind_per]. rewrite map_map. fold digs.
    rewrite <- (Epack 1%nat eq_refl). reflexivity.
Qed.

End ListR.
