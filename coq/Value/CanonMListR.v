(* C18 [T2]: canonicalList, the data-only case (void lists and lists of 1/2/4/8-byte values):
   the source bytes are copied to freshly allocated zero bytes at the end of the segment; read as
   words (last word zero-padded) they are the specification's [pack] of the element values. *)
From CV Require Import Value.ValueEq Value.ValueEqProofs Value.EqualM Value.Den Value.DenFacts Value.DenLists
                       Value.CanonSpec Value.CanonProofs Value.CanonProofs3 Value.CanonM Value.CanonMStruct
                       Value.CanonMWords Value.CanonMData Value.CanonMHeap Value.CanonMLoop Value.CanonSafe Value.EqualProofs
                       Value.CanonMProofs Value.CanonMInd Value.VDecProofs.
From CV Require Import Core.ReaderFacts Core.SafetyProofs Core.BuilderFacts Core.ArithFacts Core.CopySafe.
From Coq Require Import ZifyBool ZifyNat.
Ltac Zify.zify_post_hook ::= Z.div_mod_to_equations.
Open Scope Z_scope.
From CV Require Import Value.CanonMBytes.

Section ListR.
Context (c : config) (fx : cfix) (m : segs).
Context (Hstrict : cfg_strict c = true) (Hfx : all_cfixed fx) (Hm : msg_ok m).

(* the data-only branch of canonicalList *)
Lemma raw_copy f data cap rl p w' cp :
  hinv data -> p_valid p = true -> p_comp p = false -> PointerCount (p_size p) = 0 ->
  0 <= p_off p -> 0 <= list_allocSize p -> p_off p + list_allocSize p <= zlen (seg_of m p) ->
  zlen (seg_of m p) <= 4294967288 ->
  canonical_list c fx (S f) (dstw data cap m rl) 0 p = KOk (w', cp) ->
  let sz := list_allocSize p in
  let bs := sub (seg_of m p) (p_off p) sz in
  let bs' := if p_bit p then mask_last (p_len p) bs else bs in
  zlen data + padToWord sz <= 4294967288 /\
  cp = mkPtr true 0 (zlen data) (p_len p) (p_size p) maxDepth KList false (p_bit p) false /\
  exists cap', w' = dstw (data ++ bs' ++ repeat 0 (Z.to_nat (padToWord sz) - length bs')) cap' m rl.
Proof.
  intros [Hi1 Hi2] Hv Hc Hpc Ho Hsz Hbd Hsl H. cbv zeta.
  rewrite canonical_list_S in H. rewrite Hv, Hpc, Hc, Bool.andb_false_r in H. cbn [negb andb] in H.
  change (0 =? 0) with true in H. cbn [andb] in H. cbv zeta in H. cbn [w_dst dstw] in H.
  set (sz := list_allocSize p) in *.
  destruct (alloc (seg0 data cap) 0 sz) as [[[m1 sid1] addr]| |] eqn:Ea; try discriminate H.
  pose proof (alloc_bound_pad data cap sz m1 sid1 addr Ea) as Hbound.
  destruct (alloc_seg0 data cap sz m1 sid1 addr Hi1 Hsz Ea) as (cap1 & -> & -> & ->).
  cbn [of_res kbind] in H. change (src_seg (dstw data cap m rl) p) with (seg_of m p) in H.
  rewrite slice_ok in H by lia. cbn [of_res kbind] in H.
  destruct Hfx as (_ & Hbp & _). rewrite Hbp in H. cbn [andb] in H.
  set (bs := sub (seg_of m p) (p_off p) sz) in *.
  set (bs' := if p_bit p then mask_last (p_len p) bs else bs) in *.
  assert (Lbs : zlen bs = sz) by (unfold bs; apply sub_length; lia).
  assert (Lbs' : length bs' = length bs) by (unfold bs'; destruct (p_bit p); [apply mask_last_length|reflexivity]).
  assert (P0 : sz <= padToWord sz) by (unfold padToWord, u32; lia).
  unfold lift0 in H. cbn [w_dst w_set_dst] in H.
  rewrite seg_write_raw in H.
  2:{ unfold zlen; lia. }
  2:{ rewrite zlen_app. unfold zlen in *. rewrite repeat_length, Lbs'. lia. }
  2:{ rewrite zlen_app. unfold zlen in *. rewrite repeat_length. lia. }
  cbn [bind of_res kbind] in H. inversion H; subst w' cp; clear H.
  split; [exact Hbound|]. split; [reflexivity|]. exists cap1.
  rewrite write_bytes_end by (unfold zlen in *; lia). reflexivity.
Qed.


Lemma list_prim_case f data cap rl p k vs w' cp :
  hinv data -> wf_ptr m p -> den true m 0 [] p (VList k vs) -> k <> LPtr -> k <> LComp ->
  canonical_list c fx (S f) (dstw data cap m rl) 0 p = KOk (w', cp) -> Qconcl m data (VList k vs) w' cp.
Proof.
  intros Hi Hwf D K1 K2 H.
  destruct (den_prim_inv m _ _ _ D K1 K2) as (w & Hw & -> & Hv & Hk & Hb & Hc & Hsz & Lvs & K).
  destruct (Hwf Hv) as (Hseg & Hobj). unfold wf_obj in Hobj. rewrite Hk, Hb, Hsz in Hobj.
  destruct Hobj as (Ho & Hlen & _ & Hbd).
  assert (Hts : totalSize (mkOS w 0) = w) by (destruct Hw as [->|[->|[->|[->| ->]]]]; reflexivity).
  assert (Hw8 : 0 <= w <= 8) by (destruct Hw as [->|[->|[->|[->| ->]]]]; lia).
  rewrite Hts in Hbd.
  assert (Hsok : seg_ok (seg_of m p)) by (apply seg_of_ok; assumption).
  assert (Hsl : zlen (seg_of m p) <= 4294967288) by (apply Hsok).
  set (n := p_len p) in *.
  assert (Esz : list_allocSize p = n * w).
  { unfold list_allocSize. rewrite Hv, Hb, Hc, Hsz, Hts. cbn [negb]. fold n.
    rewrite times_some by (unfold maxSegmentSize; nia). lia. }
  pose proof (raw_copy f data cap rl p w' cp Hi Hv Hc ltac:(rewrite Hsz; reflexivity) Ho ltac:(rewrite Esz; nia)
                       ltac:(rewrite Esz; lia) Hsl H) as R.
  cbv zeta in R. rewrite Esz, Hb, Hsz in R. fold n in R. destruct R as (Hbound & -> & cap1 & ->).
  destruct Hi as [Hi1 Hi2].
  set (bs := sub (seg_of m p) (p_off p) (n * w)) in *.
  assert (Lbs : zlen bs = n * w) by (unfold bs; apply sub_length; nia).
  assert (Hbs : bytes_ok bs) by (unfold bs, sub; apply Forall_firstn', Forall_skipn'; apply Hsok).
  destruct (bow_wob_pad (length bs) bs (le_n _) Hbs) as (kp & Ebow & Hkm & Hk8).
  assert (Ekp : (Z.to_nat (padToWord (n * w)) - length bs)%nat = kp).
  { unfold padToWord, u32 in *. unfold zlen in Lbs. assert (0 <= n * w) by nia. lia. }
  rewrite Ekp, <- Ebow. exists (words_of_bytes bs), cap1, rl. split; [reflexivity|].
  assert (Lbow : zlen (bytes_of_words (words_of_bytes bs)) = padToWord (n * w)).
  { rewrite Ebow, zlen_app. unfold zlen in *. rewrite repeat_length. unfold padToWord, u32 in *. assert (0 <= n * w) by nia. lia. }
  assert (Pm : padToWord (n * w) mod 8 = 0) by (unfold padToWord; lia).
  assert (P0 : 0 <= padToWord (n * w)) by (unfold padToWord, u32; lia).
  split; [split; rewrite zlen_app, Lbow; lia|].
  split.
  { right. cbn [p_valid p_seg p_member p_off p_kind p_size p_len p_comp p_bit].
    split; [reflexivity|]. split; [reflexivity|]. split; [reflexivity|]. split; [exact Hi1|].
    split; [rewrite zlen_app, Lbow; unfold zlen; lia|]. split; [lia|]. right. exists w. split; [exact Hw|reflexivity]. }
  intros a F Ha Ham Hab HFd.
  set (digs := map (fun v => hd_word (sdata (norm v))) vs).
  assert (Ldigs : zlen digs = n) by (unfold digs, zlen in *; rewrite map_length; lia).
  assert (Edigs : digs = map le_decode (map (fun i => sub (seg_of m p) (p_off p + i * w) w) (iota (Z.to_nat n)))).
  { apply (nth_ext _ _ 0 0).
    - unfold digs. rewrite !map_length, iota_length. unfold zlen in *. lia.
    - intros i Hi0. unfold digs in Hi0. rewrite map_length in Hi0.
      rewrite map_map. unfold digs.
      change 0 with ((fun v => hd_word (sdata (norm v))) VNull) at 1. rewrite map_nth.
      change (nth i vs VNull) with (nthv vs (Z.of_nat i)) || idtac.
      destruct (K (Z.of_nat i) ltac:(unfold zlen in *; lia)) as (d & Sd & Ev).
      rewrite slice_ok in Sd by (unfold zlen in *; nia). inversion Sd; subst d; clear Sd.
      unfold nthv in Ev. rewrite Nat2Z.id in Ev. rewrite Ev.
      rewrite nth_map_iota by (unfold zlen in *; lia).
      set (di := sub (seg_of m p) (p_off p + Z.of_nat i * w) w).
      assert (Ldi : zlen di = w) by (unfold di; apply sub_length; unfold zlen in *; nia).
      cbn [norm sdata map stripN].
      destruct (Z.eq_dec w 0) as [W0|W0].
      + assert (di = []) by (destruct di; [reflexivity|unfold zlen in Ldi; cbn [length] in Ldi; lia]).
        rewrite H0. reflexivity.
      + destruct (Z.eq_dec w 8) as [W8|W8].
        * rewrite <- (app_nil_r di) at 1. rewrite wob_8 by (unfold zlen in Ldi; lia).
          change (words_of_bytes []) with (@nil Z). apply hd_word_strip1.
        * rewrite wob_small by (unfold zlen in Ldi; lia). apply hd_word_strip1. }
  assert (En : norm (VList (kind_of_width w) vs)
               = VList (kind_of_width w) (match kind_of_width w with
                                          | LVoid => map (fun _ => VStruct [] []) (map norm vs)
                                          | _ => map (fun n0 => VStruct [hd_word (sdata n0)] []) (map norm vs) end)).
  { destruct Hw as [->|[->|[->|[->| ->]]]]; reflexivity. }
  rewrite En in *. clear En.
  destruct F as [|F']; [cbn [vdepth] in HFd; destruct (kind_of_width w); lia|].
  assert (Lcs : Forall (fun c0 : list Z => length c0 = Z.to_nat w)
                       (map (fun i => sub (seg_of m p) (p_off p + i * w) w) (iota (Z.to_nat n)))).
  { apply Forall_forall. intros x Hx. apply in_map_iff in Hx. destruct Hx as (i & <- & Hin).
    apply in_map_iff in Hin. destruct Hin as (j & <- & Hj). apply in_seq in Hj.
    pose proof (sub_length (seg_of m p) (p_off p + Z.of_nat j * w) w ltac:(nia) ltac:(lia) ltac:(nia)) as L. unfold zlen in L. lia. }
  assert (Hoff : zlen data / 8 - a / 8 - 1 < 536870912) by lia.
  assert (Epack : forall per, (Z.to_nat w * per = 8)%nat ->
             pack (256 ^ w) per digs = words_of_bytes bs).
  { intros per Hper. unfold pack. rewrite Edigs. rewrite map_length.
    replace w with (Z.of_nat (Z.to_nat w)) at 1 by lia.
    rewrite (pack_chunks (Z.to_nat w) per Hper) by (exact Lcs || lia).
    rewrite concat_chunks by lia. unfold bs. f_equal. f_equal. lia. }
  unfold ptr_word. cbn [p_valid negb p_kind p_comp p_bit p_size PointerCount DataSize p_off p_len].
  change (0 =? 1) with false. cbv iota.
  destruct Hw as [->|[->|[->|[->| ->]]]]; cbn [kind_of_width Z.eqb Pos.eqb enc] in *;
    rewrite !zlen_map, Lvs; unfold two29;
    (destruct ((n >=? 536870912) || (zlen data / 8 - a / 8 - 1 >=? 536870912)) eqn:E1; [lia|]).
  - replace bs with (@nil Z) by (destruct bs; [reflexivity|unfold zlen in Lbs; cbn [length] in Lbs; lia]). reflexivity.
  - rewrite map_map. cbn [sdata hd_word kind_code kind_base kind_per]. rewrite map_map. fold digs.
    rewrite <- (Epack 8%nat eq_refl). reflexivity.
  - rewrite map_map. cbn [sdata hd_word kind_code kind_base kind_per]. rewrite map_map. fold digs.
    rewrite <- (Epack 4%nat eq_refl). reflexivity.
  - rewrite map_map. cbn [sdata hd_word kind_code kind_base kind_per]. rewrite map_map. fold digs.
    rewrite <- (Epack 2%nat eq_refl). reflexivity.
  - rewrite map_map. cbn [sdata hd_word kind_code kind_base kind_per]. rewrite map_map. fold digs.
    rewrite <- (Epack 1%nat eq_refl). reflexivity.
Qed.

End ListR.
