(* C18 [T2] / C16 [T2]: block-level helper lemmas for struct lists (enc_cells over appends, the block
   loop, padding = keeping more of the original, the element size of a struct list) and the
   inversion of den for struct lists. *)
From CV Require Import Value.ValueEq Value.ValueEqProofs Value.EqualM Value.Den Value.DenFacts Value.DenLists
                       Value.CanonSpec Value.CanonProofs Value.CanonProofs2 Value.CanonProofs3 Value.CanonM Value.CanonMStruct
                       Value.CanonMWords Value.CanonMData Value.CanonMHeap Value.CanonMLoop Value.CanonSafe Value.EqualProofs
                       Value.CanonMProofs Value.CanonMInd Value.CanonMBytes.
From CV Require Import Core.ReaderFacts Core.SafetyProofs Core.BuilderFacts Core.ArithFacts Core.CopySafe.
From Coq Require Import ZifyBool ZifyNat.
Ltac Zify.zify_post_hook ::= Z.div_mod_to_equations.
Open Scope Z_scope.

Lemma skipn_nth_cons {A} (l : list A) i d : (i < length l)%nat -> skipn i l = nth i l d :: skipn (S i) l.
Proof.
  revert i. induction l as [|x r IH]; intros i H; [cbn [length] in H; lia|].
  destruct i as [|i]; [reflexivity|]. cbn [skipn nth]. apply IH. cbn [length] in H. lia.
Qed.

(* ------------------------------------------------------------------ enc_cells over an append *)
Lemma enc_cells_app ev : forall c1 c2 pos cur b1 k1 b2 k2,
  enc_cells ev c1 pos cur = COk (b1, k1) ->
  enc_cells ev c2 (pos + zlen c1) (cur + zlen k1) = COk (b2, k2) ->
  enc_cells ev (c1 ++ c2) pos cur = COk (b1 ++ b2, k1 ++ k2).
Proof.
  induction c1 as [|c c1 IH]; intros c2 pos cur b1 k1 b2 k2 H1 H2.
  - cbn in H1. inversion H1; subst. cbn [app].
    replace (pos + zlen (@nil cell)) with pos in H2 by (unfold zlen; cbn; lia).
    replace (cur + zlen (@nil Z)) with cur in H2 by (unfold zlen; cbn; lia). exact H2.
  - destruct c as [w0|v0]; cbn [app enc_cells] in *.
    + destruct (enc_cells ev c1 (pos + 1) cur) as [[b' k']| | |] eqn:E; try discriminate.
      cbn in H1. inversion H1; subst.
      rewrite (IH c2 (pos + 1) cur b' k1 b2 k2 E)
        by (replace (pos + 1 + zlen c1) with (pos + zlen (CW w0 :: c1)) by (unfold zlen; cbn [length]; lia); exact H2).
      reflexivity.
    + destruct (ev v0 pos cur) as [[w1 body1]| | |] eqn:E0; try discriminate. cbn [cbind fst snd] in *.
      destruct (enc_cells ev c1 (pos + 1) (cur + zlen body1)) as [[b' k']| | |] eqn:E; try discriminate.
      cbn in H1. inversion H1; subst.
      rewrite (IH c2 (pos + 1) (cur + zlen body1) b' k' b2 k2 E).
      * cbn [cbind fst snd]. rewrite app_assoc. reflexivity.
      * replace (pos + 1 + zlen c1) with (pos + zlen (CP v0 :: c1)) by (unfold zlen; cbn [length]; lia).
        replace (cur + zlen body1 + zlen k') with (cur + zlen (body1 ++ k')) by (unfold zlen; rewrite app_length; lia). exact H2.
Qed.

Lemma set_slots_app_left d t A ws : 0 <= A -> A + 8 * zlen ws <= zlen d ->
  set_slots (d ++ t) A ws = set_slots d A ws ++ t.
Proof.
  intros Ha Hb. unfold set_slots, zlen in *. rewrite firstn_app, skipn_app.
  replace (Z.to_nat A - length d)%nat with 0%nat by lia.
  replace (Z.to_nat A + 8 * length ws - length d)%nat with 0%nat by lia.
  change (firstn 0 t) with (@nil Z). change (skipn 0 t) with t. rewrite app_nil_r, <- !app_assoc. reflexivity.
Qed.

(* ------------------------------------------------------------------ the block loop *)
(* [step] handles element i: it writes the block of bw words at B + 8*bw*i and appends bytes *)
Lemma blocks_loop (step : world -> Z -> cout world) (m : segs) (B bw : Z) (n0 : nat) (cellsOf : Z -> list cell)
      (okF : nat -> Prop) (evs : nat -> value -> Z -> Z -> cres (Z * list Z)) :
  0 <= B -> B mod 8 = 0 -> 0 <= bw -> (forall i, zlen (cellsOf i) = bw) ->
  (forall i data cap rl w', 0 <= i < Z.of_nat n0 -> hinv data -> B + 8 * bw * Z.of_nat n0 <= zlen data ->
     step (dstw data cap m rl) i = KOk w' ->
     exists block body cap' rl',
       zlen block = bw /\
       w' = dstw (set_slots data (B + 8 * bw * i) block ++ bytes_of_words body) cap' m rl' /\
       hinv (data ++ bytes_of_words body) /\
       forall F, okF F -> enc_cells (evs F) (cellsOf i) (B / 8 + bw * i) (zlen data / 8) = COk (block, body)) ->
  forall n, (n <= n0)%nat -> forall data cap rl w',
    hinv data -> B + 8 * bw * Z.of_nat n0 <= zlen data ->
    kfold (iota n) (dstw data cap m rl) step = KOk w' ->
    exists words kids cap' rl',
      zlen words = bw * Z.of_nat n /\ w' = dstw (set_slots data B words ++ bytes_of_words kids) cap' m rl' /\
      hinv (data ++ bytes_of_words kids) /\
      forall F, okF F -> enc_cells (evs F) (flat_map cellsOf (iota n)) (B / 8) (zlen data / 8) = COk (words, kids).
Proof.
  intros HB HBm Hbw Hcl Hstep. induction n as [|n IH]; intros Hn data cap rl w' Hi Hb H.
  - cbn in H. inversion H; subst. exists [], [], cap, rl. split; [unfold zlen; cbn; lia|].
    rewrite set_slots_nil by (unfold zlen in *; nia). cbn [bytes_of_words flat_map]. rewrite !app_nil_r.
    split; [reflexivity|]. split; [exact Hi| intros F _; reflexivity].
  - rewrite iota_S, kfold_app in H.
    destruct (kfold (iota n) (dstw data cap m rl) step) as [wk| | |] eqn:Ek; try discriminate. cbn [kbind] in H.
    destruct (IH ltac:(lia) data cap rl wk Hi Hb Ek) as (words & kids & cap1 & rl1 & Lw & -> & Hi1 & Ec).
    cbn [kfold] in H. destruct (step _ (Z.of_nat n)) as [w2| | |] eqn:Es; try discriminate. cbn [kbind] in H.
    inversion H; subst w'; clear H.
    assert (Hnn : bw * Z.of_nat n + bw <= bw * Z.of_nat n0) by nia.
    assert (Lsl : zlen (set_slots data B words) = zlen data).
    { apply set_slots_length; [assumption|]. unfold zlen in *. lia. }
    assert (Hi1' : hinv (set_slots data B words ++ bytes_of_words kids)).
    { unfold hinv in *. rewrite zlen_app, Lsl. rewrite zlen_app in Hi1. exact Hi1. }
    destruct (Hstep (Z.of_nat n) _ cap1 rl1 w2 ltac:(lia) Hi1'
                    ltac:(rewrite zlen_app, Lsl; unfold zlen in *; lia) Es)
      as (block & body & cap2 & rl2 & Lbk & -> & Hi2 & Ev).
    exists (words ++ block), (kids ++ body), cap2, rl2.
    split; [rewrite zlen_app; lia|]. split.
    + f_equal. rewrite set_slots_app_left by (try rewrite Lsl; lia).
      replace (B + 8 * bw * Z.of_nat n) with (B + 8 * zlen words) by lia.
      rewrite set_slots_app by (try rewrite zlen_app; lia).
      rewrite bow_app, <- !app_assoc. reflexivity.
    + split.
      * unfold hinv in *. rewrite bow_app. rewrite !zlen_app in *. rewrite Lsl in Hi2. lia.
      * intros F HF. specialize (Ec F HF). specialize (Ev F HF).
        rewrite iota_S, flat_map_app. cbn [flat_map]. rewrite app_nil_r.
        apply (enc_cells_app (evs F) _ _ _ _ words kids block body Ec).
        assert (Lfm : zlen (flat_map cellsOf (iota n)) = bw * Z.of_nat n).
        { clear - Hcl. induction n as [|n IHn]; [unfold zlen; cbn; lia|].
          rewrite iota_S, flat_map_app, zlen_app, IHn. cbn [flat_map]. rewrite app_nil_r, Hcl. lia. }
        rewrite Lfm.
        replace (zlen data / 8 + zlen kids) with (zlen (set_slots data B words ++ bytes_of_words kids) / 8).
        -- exact Ev.
        -- rewrite zlen_app, Lsl. unfold zlen at 2. rewrite bow_length. destruct Hi as [Hmm _]. unfold zlen in *. lia.
Qed.

(* ------------------------------------------------------------------ padding = keeping more of the original *)
Lemma firstn_repeat {A} (x : A) : forall k n, firstn k (repeat x n) = repeat x (Nat.min k n).
Proof. induction k; intros [|n]; cbn [firstn repeat Nat.min]; try reflexivity. rewrite IHk. reflexivity. Qed.

Lemma strip0_zeros : forall l, l = strip0 l ++ repeat 0 (length l - length (strip0 l)).
Proof.
  induction l as [|x r IH]; [reflexivity|]. cbn [strip0]. destruct (strip0 r) as [|y r'] eqn:E.
  - cbn [length app] in IH. replace (length r - 0)%nat with (length r) in IH by lia. destruct (x =? 0) eqn:Ex.
    + cbn [length app]. replace (S (length r) - 0)%nat with (S (length r)) by lia. cbn [repeat]. rewrite <- IH. f_equal. lia.
    + cbn [length app]. replace (S (length r) - 1)%nat with (length r) by lia. rewrite <- IH. reflexivity.
  - cbn [length app] in *. replace (S (length r) - S (S (length r')))%nat with (length r - S (length r'))%nat by lia.
    rewrite <- IH. reflexivity.
Qed.

Lemma is_null_eq x : is_null x = true -> x = VNull.
Proof. destruct x; try discriminate. reflexivity. Qed.

Lemma stripN_nulls : forall l, l = stripN l ++ repeat VNull (length l - length (stripN l)).
Proof.
  induction l as [|x r IH]; [reflexivity|]. cbn [stripN]. destruct (stripN r) as [|y r'] eqn:E.
  - cbn [length app] in IH. replace (length r - 0)%nat with (length r) in IH by lia. destruct (is_null x) eqn:Ex.
    + cbn [length app]. replace (S (length r) - 0)%nat with (S (length r)) by lia. cbn [repeat]. rewrite <- IH. f_equal.
      apply is_null_eq. exact Ex.
    + cbn [length app]. replace (S (length r) - 1)%nat with (length r) by lia. rewrite <- IH. reflexivity.
  - cbn [length app] in *. replace (S (length r) - S (S (length r')))%nat with (length r - S (length r'))%nat by lia.
    rewrite <- IH. reflexivity.
Qed.

Lemma pad0_strip0 dn ws : (length (strip0 ws) <= dn <= length ws)%nat -> pad0 dn (strip0 ws) = firstn dn ws.
Proof.
  intros H. rewrite (strip0_zeros ws) at 2. rewrite firstn_app, firstn_all2 by lia. unfold pad0. f_equal.
  rewrite firstn_repeat. f_equal. lia.
Qed.

Lemma padN_stripN pn l : (length (stripN l) <= pn <= length l)%nat -> padN pn (stripN l) = firstn pn l.
Proof.
  intros H. rewrite (stripN_nulls l) at 2. rewrite firstn_app, firstn_all2 by lia. unfold padN. f_equal.
  rewrite firstn_repeat. f_equal. lia.
Qed.

Section ListC.
Context (m : segs) (Hm : msg_ok m).

Theorem elem_size_spec p vs :
  wf_ptr m p -> p_valid p = true -> p_kind p = KList -> p_bit p = false ->
  DataSize (p_size p) mod 8 = 0 -> zlen vs = p_len p ->
  (forall i, 0 <= i < p_len p -> den true m 0 [] (elem_ptr p i) (nthv vs i)) ->
  forall cnt i acc, 0 <= i -> i + Z.of_nat cnt = p_len p -> 0 <= DataSize acc -> 0 <= PointerCount acc ->
  elem_size true true true m p cnt i acc
  = Ok (mkOS (Z.max (DataSize acc) (8 * Z.of_nat (max_len sdata (skipn (Z.to_nat i) (map norm vs)))))
             (Z.max (PointerCount acc) (Z.of_nat (max_len sptrs (skipn (Z.to_nat i) (map norm vs)))))).
Proof.
  intros Hwf Hv Hk Hb Hal Lvs K.
  destruct (Hwf Hv) as (Hseg & Hobj). unfold wf_obj in Hobj. rewrite Hk, Hb in Hobj.
  destruct Hobj as (Ho & Hlen & Hws & Hbd).
  induction cnt as [|cnt IH]; intros i acc Hi Hn Ha1 Ha2.
  - cbn [elem_size]. rewrite skipn_all2 by (rewrite map_length; unfold zlen in *; lia).
    cbn [max_len fold_right]. destruct acc as [ad ap]. cbn [DataSize PointerCount] in *.
    f_equal. f_equal; lia.
  - cbn [elem_size].
    assert (Hts : 0 <= totalSize (p_size p)) by (destruct Hws; unfold totalSize, pointerSize, u32; lia).
    assert (Hbi : 0 <= p_off p + i * totalSize (p_size p) <= zlen (seg_of m p)) by nia.
    assert (Ex : exists e, list_struct true p i = Ok e).
    { unfold list_struct. rewrite Hv, Hb. cbn [negb orb].
      destruct ((i <? 0) || (i >=? p_len p)) eqn:E; [lia|].
      destruct (element (p_off p) i (totalSize (p_size p))); eexists; reflexivity. }
    destruct Ex as (e & El). rewrite El.
    pose proof (list_struct_elem m p i e Hm Hv Hb ltac:(lia) Hbi El) as Hcore.
    pose proof (list_struct_safe true m p i Hm (conj Hwf (fun _ => Hk)) ltac:(unfold list_len; rewrite Hv; lia)) as SS.
    rewrite El in SS. cbn [res_sat] in SS. destruct SS as [We Ke].
    destruct Hcore as (Cv & Cs & Co & Cl & Cz & Ck & Cc & Cb).
    assert (Ve : p_valid e = true) by (rewrite Cv; reflexivity).
    assert (Kde : p_kind e = KStruct) by (rewrite Ck; reflexivity).
    assert (De : den true m 0 [] e (nthv vs i)).
    { eapply den_core; [|apply (K i); lia]. unfold same_core. repeat split; symmetry; assumption. }
    assert (Ale : DataSize (p_size e) mod 8 = 0) by (rewrite Cz; exact Hal).
    cbn [bind].
    destruct (canonicalStructSize_spec m 0 [] e _ Hm We Ve Kde Ale De) as (ws' & vs' & Ev & Hcss).
    rewrite Hcss. cbn [bind].
    rewrite IH by (cbn [DataSize PointerCount]; unfold zlen; lia).
    cbn [DataSize PointerCount].
    rewrite (skipn_nth_cons (map norm vs) (Z.to_nat i) VNull) by (rewrite map_length; unfold zlen in *; lia).
    replace (Z.to_nat (i + 1)) with (S (Z.to_nat i)) by lia.
    change VNull with (norm VNull) at 1 2. rewrite map_nth. change (nth (Z.to_nat i) vs VNull) with (nthv vs i).
    rewrite Ev. cbn [norm max_len fold_right sdata sptrs].
    fold (max_len sdata (skipn (S (Z.to_nat i)) (map norm vs))). fold (max_len sptrs (skipn (S (Z.to_nat i)) (map norm vs))).
    rewrite stripN_map_norm_length. unfold zlen. f_equal. f_equal; lia.
Qed.

Corollary elem_size_list p vs :
  wf_ptr m p -> p_valid p = true -> p_kind p = KList -> p_bit p = false ->
  DataSize (p_size p) mod 8 = 0 -> zlen vs = p_len p ->
  (forall i, 0 <= i < p_len p -> den true m 0 [] (elem_ptr p i) (nthv vs i)) ->
  elem_size true true true m p (Z.to_nat (p_len p)) 0 (mkOS 0 0)
  = Ok (mkOS (8 * Z.of_nat (max_len sdata (map norm vs))) (Z.of_nat (max_len sptrs (map norm vs)))).
Proof.
  intros Hwf Hv Hk Hb Hal Lvs K.
  assert (Hlen : 0 <= p_len p) by (unfold zlen in Lvs; lia).
  rewrite (elem_size_spec p vs Hwf Hv Hk Hb Hal Lvs K (Z.to_nat (p_len p)) 0 (mkOS 0 0)) by (cbn [DataSize PointerCount]; lia).
  cbn [DataSize PointerCount Z.to_nat skipn]. f_equal. f_equal; lia.
Qed.

End ListC.

(* ------------------------------------------------------------------ the struct-list case *)
Lemma flat_map_map {A B C} (h : A -> B) (g : B -> list C) l : flat_map g (map h l) = flat_map (fun a => g (h a)) l.
Proof. induction l as [|x r IH]; cbn [map flat_map]; [reflexivity|]. rewrite IH. reflexivity. Qed.

Lemma flat_map_ext_in {A B} (g1 g2 : A -> list B) l : (forall a, In a l -> g1 a = g2 a) -> flat_map g1 l = flat_map g2 l.
Proof.
  induction l as [|x r IH]; intros H; cbn [flat_map]; [reflexivity|].
  rewrite (H x (or_introl eq_refl)), IH; [reflexivity|]. intros a Ha. apply H. right. exact Ha.
Qed.

Lemma map_nthv_iota vs : map (nthv vs) (iota (length vs)) = vs.
Proof.
  apply (nth_ext _ _ VNull VNull).
  - rewrite map_length, iota_length. reflexivity.
  - intros i Hi. rewrite map_length, iota_length in Hi. rewrite nth_map_iota by exact Hi.
    unfold nthv. rewrite Nat2Z.id. reflexivity.
Qed.

Lemma max_len_le {A} (f : value -> list A) es k : (forall e, In e es -> (length (f e) <= k)%nat) -> (max_len f es <= k)%nat.
Proof.
  induction es as [|e r IH]; intros H; cbn [max_len fold_right]; [lia|].
  pose proof (H e (or_introl eq_refl)). assert (max_len f r <= k)%nat by (apply IH; intros x Hx; apply H; right; exact Hx).
  unfold max_len in *. lia.
Qed.


Section InvC.
Context (m : segs) (Hm : msg_ok m).

Lemma den_comp_inv p vs : den true m 0 [] p (VList LComp vs) ->
  p_valid p = true /\ p_kind p = KList /\ p_bit p = false /\ p_comp p = true /\ wf_size (p_size p) /\
  zlen vs = p_len p /\ (forall i, 0 <= i < p_len p -> den true m 0 [] (elem_ptr p i) (nthv vs i)).
Proof.
  intros D. inversion D; subst.
  - split; [assumption|]. split; [assumption|]. split; [assumption|]. split; [assumption|]. split; [assumption|].
    split; assumption.
  - match goal with H : prim_width ?w |- _ => destruct H as [->|[->|[->|[->| ->]]]]; discriminate end.
Qed.

(* every element of a struct list denotes a struct with the allocated section sizes *)
Lemma comp_elem_shape p vs i :
  wf_ptr m p -> p_valid p = true -> p_kind p = KList -> p_bit p = false -> DataSize (p_size p) mod 8 = 0 ->
  0 <= i < p_len p -> den true m 0 [] (elem_ptr p i) (nthv vs i) ->
  exists ws ps, nthv vs i = VStruct ws ps /\ 8 * zlen ws = DataSize (p_size p) /\ zlen ps = PointerCount (p_size p).
Proof.
  intros Hwf Hv Hk Hb Hal Hi D.
  destruct (Hwf Hv) as (Hseg & Hobj). unfold wf_obj in Hobj. rewrite Hk, Hb in Hobj.
  destruct Hobj as (Ho & Hlen & Hws & Hbd).
  destruct (den_struct_inv _ _ _ _ _ _ D eq_refl eq_refl) as (d & ps & Ev & _ & Sl & Lps & _).
  cbn [elem_ptr p_size p_off p_seg] in *.
  exists (words_of_bytes d), ps. split; [exact Ev|]. split; [|exact Lps].
  assert (Hsok : seg_ok (seg_of m (elem_ptr p i))) by (apply seg_of_ok; assumption).
  apply slice_eq_sub in Sl; [|exact Hsok|destruct Hws; lia]. destruct Sl as (Ed & B1 & B2).
  assert (Ld : zlen d = DataSize (p_size p)) by (rewrite Ed; apply sub_length; destruct Hws; lia).
  assert (Hbd' : bytes_ok d) by (rewrite Ed; unfold sub; apply Forall_firstn', Forall_skipn'; apply Hsok).
  assert (Hmod : (length d mod 8 = 0)%nat).
  { apply Nat2Z.inj. rewrite Nat2Z.inj_mod. unfold zlen in Ld. rewrite Ld. exact Hal. }
  pose proof (bow_wob d Hbd' Hmod) as E. apply (f_equal (@length Z)) in E. rewrite bow_length in E.
  unfold zlen in *. lia.
Qed.

End InvC.
