(* C18 [T2]: canonicalList, the struct-list case.  elem_size_list: the element size computed for a
   struct list is the specification's (maxima of the truncated data / pointer section sizes,
   CanonSpec.pad_elems).  blocks_loop: the loop invariant for one fillCanonicalStruct per element.
   list_comp_case: newCompositeList appends the tag word struct_word n dn pn and n zero blocks; each
   element fills its block (possibly larger than its own truncated size = pad0 / padN) and appends
   its children: exactly enc's LComp case. *)
From CV Require Import Value.ValueEq Value.ValueEqProofs Value.EqualM Value.Den Value.DenFacts Value.DenLists
                       Value.CanonSpec Value.CanonProofs Value.CanonProofs2 Value.CanonProofs3 Value.CanonM Value.CanonMStruct
                       Value.CanonMWords Value.CanonMData Value.CanonMHeap Value.CanonMLoop Value.CanonSafe Value.EqualProofs
                       Value.CanonMProofs Value.CanonMInd Value.CanonMListP Value.CanonMListR.
From CV Require Import Core.ReaderFacts Core.SafetyProofs Core.BuilderFacts Core.ArithFacts Core.CopySafe.
From Coq Require Import ZifyBool ZifyNat.
Ltac Zify.zify_post_hook ::= Z.div_mod_to_equations.
Open Scope Z_scope.
From CV Require Import Value.CanonMBlocks Value.CanonMBytes.

Section ListC2.
Context (c : config) (fx : cfix) (m : segs).
Context (Hstrict : cfg_strict c = true) (Hfx : all_cfixed fx) (Hm : msg_ok m).



Lemma list_comp_case f : Q_fill c fx m f -> forall data cap rl p vs w' cp,
  hinv data -> wf_ptr m p -> caligned p -> den true m 0 [] p (VList LComp vs) ->
  canonical_list c fx (S f) (dstw data cap m rl) 0 p = KOk (w', cp) -> Qconcl m data (VList LComp vs) w' cp.
Proof.
  intros HF data cap rl p vs w' cp Hi Hwf Hcal D H.
  destruct (den_comp_inv m _ _ D) as (Hv & Hk & Hb & Hc & Hws & Lvs & K).
  destruct (Hcal Hc) as [Hal _].
  destruct (Hwf Hv) as (Hseg & Hobj). unfold wf_obj in Hobj. rewrite Hk, Hb in Hobj.
  destruct Hobj as (Ho & Hlen & _ & Hbd).
  destruct Hfx as (Hcl & Hbp & Hfn & Hfd & Hfu & Hfb).
  set (n := p_len p) in *.
  set (ns := map norm vs).
  set (dn' := max_len sdata ns). set (pn' := max_len sptrs ns).
  set (dn := Z.of_nat dn'). set (pn := Z.of_nat pn').
  set (aw := DataSize (p_size p) / 8). set (ap := PointerCount (p_size p)).
  destruct Hws as [Hws1 Hws2].
  (* shapes of the elements *)
  assert (Shape : forall i, 0 <= i < n -> exists ws ps, nthv vs i = VStruct ws ps /\ zlen ws = aw /\ zlen ps = ap).
  { intros i Hi0. destruct (comp_elem_shape m Hm p vs i Hwf Hv Hk Hb Hal Hi0 (K i Hi0)) as (ws & ps & E & L1 & L2).
    exists ws, ps. split; [exact E|]. split; [unfold aw; lia|exact L2]. }
  assert (ShapeIn : forall e, In e ns -> (length (sdata e) <= Z.to_nat aw)%nat /\ (length (sptrs e) <= Z.to_nat ap)%nat).
  { intros e He. unfold ns in He. apply in_map_iff in He. destruct He as (v & <- & Hin).
    destruct (In_nth _ _ VNull Hin) as (i & Hil & Env).
    destruct (Shape (Z.of_nat i) ltac:(unfold zlen in *; lia)) as (ws & ps & E & L1 & L2).
    unfold nthv in E. rewrite Nat2Z.id, Env in E. rewrite E. cbn [norm sdata sptrs].
    pose proof (strip0_length_le ws). rewrite stripN_map_norm_length.
    assert ((length (stripN ps) <= length ps)%nat) by (rewrite (stripN_firstn ps) at 1; rewrite firstn_length; lia).
    unfold zlen in *. lia. }
  assert (Hdn : (dn' <= Z.to_nat aw)%nat) by (apply max_len_le; intros e He; apply (ShapeIn e He)).
  assert (Hpn : (pn' <= Z.to_nat ap)%nat) by (apply max_len_le; intros e He; apply (ShapeIn e He)).
  assert (LeD : forall i, (length (sdata (norm (nthv vs i))) <= dn')%nat).
  { intros i. unfold nthv. destruct (Nat.lt_ge_cases (Z.to_nat i) (length vs)) as [Hlt|Hge].
    - apply length_le_max_len. unfold ns. apply in_map. apply nth_In. exact Hlt.
    - rewrite nth_overflow by exact Hge. cbn. lia. }
  assert (LeP : forall i, (length (sptrs (norm (nthv vs i))) <= pn')%nat).
  { intros i. unfold nthv. destruct (Nat.lt_ge_cases (Z.to_nat i) (length vs)) as [Hlt|Hge].
    - apply length_le_max_len. unfold ns. apply in_map. apply nth_In. exact Hlt.
    - rewrite nth_overflow by exact Hge. cbn. lia. }
  assert (Bdn : 0 <= dn <= 65535) by (unfold dn, aw in *; lia).
  assert (Bpn : 0 <= pn < 65536) by (unfold pn, ap in *; lia).
  destruct Hi as [Hi1 Hi2]. assert (Z0 : 0 <= zlen data) by (unfold zlen; lia).
  (* the code *)
  rewrite canonical_list_S in H. rewrite Hv, Hcl, Hc in H. cbn [negb andb] in H. rewrite Bool.andb_false_r in H.
  rewrite Hfn, Hstrict, Hfd in H. cbn [w_src dstw] in H. unfold list_len at 1 in H. rewrite Hv in H. fold n in H.
  pose proof (elem_size_list m Hm p vs Hwf Hv Hk Hb Hal Lvs K) as Esz. fold n in Esz. rewrite Esz in H. clear Esz. fold ns dn' pn' dn pn in H. cbn [of_res kbind] in H.
  unfold newCompositeList, os_isValid in H. cbn [DataSize PointerCount w_dst dstw] in H.
  destruct (8 * dn <=? 65535 * 8) eqn:E8; [|lia]. cbn [negb] in H.
  destruct ((n <? 0) || (n >=? 536870912)) eqn:En; [lia|].
  rewrite (padToWord_mult (8 * dn)) in H by lia.
  replace (totalSize (mkOS (8 * dn) pn)) with (8 * dn + 8 * pn) in H
    by (unfold totalSize, pointerSize, u32; cbn [DataSize PointerCount]; lia).
  set (bw := dn + pn) in *.
  destruct (times (8 * dn + 8 * pn) n) as [total|] eqn:Et; [|discriminate H].
  apply times_spec in Et. destruct Et as [-> Ht]. unfold maxSegmentSize in *.
  set (total := (8 * dn + 8 * pn) * n) in *.
  destruct (total >? 4294967288 - 8) eqn:Egt; [discriminate H|].
  rewrite (u32_id (8 + total)) in H by lia.
  unfold lift in H.
  destruct (alloc (seg0 data cap) 0 (8 + total)) as [[[m1 sid1] addr]| |] eqn:Ea; try discriminate H.
  assert (Tm : total mod 8 = 0) by (unfold total; lia).
  pose proof (alloc_bound data cap (8 + total) m1 sid1 addr ltac:(lia) ltac:(lia) Ea) as Hbound.
  destruct (alloc_seg0 data cap (8 + total) m1 sid1 addr Hi1 ltac:(lia) Ea) as (cap1 & -> & -> & ->).
  rewrite (padToWord_mult (8 + total)) in * by lia.
  cbn [bind] in H.
  assert (Owf : os_wf (mkOS (8 * dn) pn)) by (unfold os_wf; cbn [DataSize PointerCount]; lia).
  rewrite (tag_is_struct_word n (mkOS (8 * dn) pn) Owf) in H. cbn [of_opt_panic bind DataSize PointerCount] in H.
  replace (8 * dn / 8) with dn in H by lia.
  set (tag := struct_word n dn pn) in *.
  assert (Lz : zlen (data ++ repeat 0 (Z.to_nat (8 + total))) = zlen data + 8 + total)
    by (rewrite zlen_app; unfold zlen; rewrite repeat_length; lia).
  rewrite writeRaw_seg0 in H by lia. cbn [bind of_res kbind w_set_dst w_src w_src_rl] in H.
  replace (addSizeUnchecked (zlen data) 8) with (zlen data + 8) in H by (unfold addSizeUnchecked, u32; lia).
  assert (Edata1 : put_word (data ++ repeat 0 (Z.to_nat (8 + total))) (zlen data) tag
                   = (data ++ le_encode 8 tag) ++ repeat 0 (Z.to_nat total)).
  { pose proof (put_word_mid data (repeat 0 (Z.to_nat (8 + total))) [] tag ltac:(rewrite repeat_length; lia)) as E.
    rewrite !app_nil_r in E. fold (zlen data) in E. rewrite E, skipn_repeat, <- app_assoc. f_equal. f_equal. f_equal. lia. }
  rewrite Edata1 in H.
  set (dataT := data ++ le_encode 8 tag) in *.
  assert (LT : zlen dataT = zlen data + 8) by (unfold dataT; rewrite zlen_app; unfold zlen; rewrite le_encode_length; lia).
  set (data1 := dataT ++ repeat 0 (Z.to_nat total)) in *.
  assert (L1 : zlen data1 = zlen data + 8 + total) by (unfold data1; rewrite zlen_app, LT; unfold zlen; rewrite repeat_length; lia).
  set (cl := mkPtr true 0 (zlen data + 8) n (mkOS (8 * dn) pn) maxDepth KList true false false) in *.
  change (w_set_dst (dstw data cap m rl) (seg0 data1 cap1)) with (dstw data1 cap1 m rl) in H.
  unfold list_len in H. cbn [p_valid p_len cl] in H.
  match type of H with context [kfold ?l ?w0 ?st] => destruct (kfold l w0 st) as [w3| | |] eqn:Ek end; try discriminate H.
  cbn [kbind] in H. inversion H; subst w' cp; clear H.
  (* the loop *)
  set (step := fun (wa : world) (i : Z) =>
                 kbind (of_res (list_struct true cl i)) (fun de : Ptr =>
                 kbind (of_res (list_struct true p i)) (fun se : Ptr => fill_canonical c fx f wa de se))) in *.
  set (cellsOf := fun i : Z => struct_cells (pad0 dn' (sdata (norm (nthv vs i)))) (padN pn' (sptrs (norm (nthv vs i))))).
  assert (Hcells : forall i, zlen (cellsOf i) = bw).
  { intros i. unfold cellsOf, struct_cells, zlen. rewrite app_length, !map_length, pad0_length, padN_length by auto. unfold bw, dn, pn. lia. }
  set (okF := fun F : nat => forall i j, 0 <= i < n -> 0 <= j < pn ->
                (vdepth (norm (nthv (sptrs (nthv vs i)) j)) <= F)%nat).
  assert (Hstep : forall i data0 cap0 rl0 w0, 0 <= i < Z.of_nat (Z.to_nat n) -> hinv data0 ->
            (zlen data + 8) + 8 * bw * Z.of_nat (Z.to_nat n) <= zlen data0 ->
            step (dstw data0 cap0 m rl0) i = KOk w0 ->
            exists block body cap' rl',
              zlen block = bw /\
              w0 = dstw (set_slots data0 ((zlen data + 8) + 8 * bw * i) block ++ bytes_of_words body) cap' m rl' /\
              hinv (data0 ++ bytes_of_words body) /\
              forall F, okF F -> enc_cells (enc F) (cellsOf i) ((zlen data + 8) / 8 + bw * i) (zlen data0 / 8) = COk (block, body)).
  { intros i data0 cap0 rl0 w0 Hi0 Hinv0 Hb0 Hs0. unfold step in Hs0.
    assert (Hin : 0 <= i < n) by lia.
    assert (Hblk : bw * i + bw <= bw * n) by (unfold bw in *; nia).
    set (A := (zlen data + 8) + 8 * bw * i) in *.
    assert (EA : list_struct true cl i
                 = Ok (mkPtr true 0 A 0 (mkOS (8 * dn) pn) (if true && (maxDepth =? 0) then 0 else uint_dec maxDepth) KStruct false false true)).
    { unfold list_struct, cl. cbn [p_valid p_len p_bit p_off p_size p_seg p_depth negb orb].
      destruct ((i <? 0) || (i >=? n)) eqn:E1; [lia|].
      replace (totalSize (mkOS (8 * dn) pn)) with (8 * bw)
        by (unfold totalSize, pointerSize, u32, bw; cbn [DataSize PointerCount]; lia).
      rewrite element_some by (unfold total, bw in *; nia). f_equal. f_equal. unfold A. lia. }
    rewrite EA in Hs0. cbn [of_res kbind] in Hs0.
    set (de := mkPtr true 0 A 0 (mkOS (8 * dn) pn) (if true && (maxDepth =? 0) then 0 else uint_dec maxDepth) KStruct false false true) in *.
    assert (Ex : exists se, list_struct true p i = Ok se).
    { unfold list_struct. rewrite Hv, Hb. cbn [negb orb]. fold n.
      destruct ((i <? 0) || (i >=? n)) eqn:E; [lia|].
      destruct (element (p_off p) i (totalSize (p_size p))); eexists; reflexivity. }
    destruct Ex as (se & El). rewrite El in Hs0. cbn [of_res kbind] in Hs0.
    assert (Hts : 0 <= totalSize (p_size p)) by (unfold totalSize, pointerSize, u32; lia).
    assert (Hbi : 0 <= p_off p + i * totalSize (p_size p) <= zlen (seg_of m p)) by nia.
    pose proof (list_struct_elem m p i se Hm Hv Hb ltac:(lia) Hbi El) as Hcore.
    pose proof (list_struct_safe true m p i Hm (conj Hwf (fun _ => Hk)) ltac:(unfold list_len; rewrite Hv; lia)) as SS.
    rewrite El in SS. cbn [res_sat] in SS. destruct SS as [We Ke].
    destruct Hcore as (Cv & Cs & Co & Cl & Cz & Ck & Cc & Cb).
    assert (Ve : p_valid se = true) by (rewrite Cv; reflexivity).
    assert (Kse : p_kind se = KStruct) by (rewrite Ck; reflexivity).
    assert (De : den true m 0 [] se (nthv vs i)).
    { eapply den_core; [|apply (K i); lia]. unfold same_core. repeat split; symmetry; assumption. }
    assert (Ale : aligned se) by (intros _; rewrite Cz; exact Hal).
    destruct (Shape i Hin) as (ws & ps & Ev & Lws & Lps).
    rewrite Ev in De.
    assert (Hdst : dst_at de A dn pn) by (unfold dst_at, de; cbn; repeat split; reflexivity).
    destruct (HF data0 cap0 rl0 de se ws ps A dn pn w0 Hinv0 Hdst ltac:(unfold A, bw in *; nia) ltac:(unfold A; lia)
                 ltac:(lia) Bpn ltac:(unfold A, bw in *; nia) Ve Kse We Ale De ltac:(lia) ltac:(lia) Hs0)
      as (pwords & kids & cap2 & rl2 & Lp & -> & Hinv2 & Hc0).
    exists (firstn (Z.to_nat dn) ws ++ pwords), kids, cap2, rl2.
    assert (Lf : zlen (firstn (Z.to_nat dn) ws) = dn) by (unfold zlen in *; rewrite firstn_length; lia).
    split; [rewrite zlen_app; unfold bw; lia|]. split; [reflexivity|]. split; [exact Hinv2|].
    intros F HFo.
    assert (Ecell : cellsOf i = map CW (firstn (Z.to_nat dn) ws) ++ map CP (firstn (Z.to_nat pn) (map norm ps))).
    { unfold cellsOf, struct_cells. rewrite Ev. cbn [norm sdata sptrs]. unfold dn, pn. rewrite !Nat2Z.id.
      pose proof (LeD i) as L1'. pose proof (LeP i) as L2'. rewrite Ev in L1', L2'. cbn [norm sdata sptrs] in L1', L2'.
      rewrite pad0_strip0 by (unfold zlen in *; lia).
      rewrite padN_stripN by (rewrite map_length; unfold zlen in *; lia). reflexivity. }
    rewrite Ecell, enc_cells_app_words, Lf.
    replace ((zlen data + 8) / 8 + bw * i + dn) with (A / 8 + dn) by (unfold A; lia).
    rewrite Hc0; [reflexivity|].
    intros j Hj. specialize (HFo i j Hin Hj). rewrite Ev in HFo. exact HFo. }
  assert (Hn0 : Z.of_nat (Z.to_nat n) = n) by lia.
  destruct (blocks_loop step m (zlen data + 8) bw (Z.to_nat n) cellsOf okF enc ltac:(lia) ltac:(lia) ltac:(unfold bw; lia)
                        Hcells Hstep (Z.to_nat n) (le_n _) data1 cap1 rl w3 ltac:(split; lia)
                        ltac:(rewrite L1, Hn0; unfold total, bw; lia) Ek)
    as (words & kids & cap' & rl' & Lw & -> & Hinvk & Ec0).
  rewrite Hn0 in Lw.
  assert (Edata : set_slots data1 (zlen data + 8) words = dataT ++ bytes_of_words words).
  { unfold data1. replace (Z.to_nat total) with (8 * length words)%nat by (unfold zlen, total, bw in *; lia).
    rewrite <- LT. apply set_slots_end. }
  rewrite Edata. exists ((tag :: words) ++ kids), cap', rl'.
  assert (Ebody : (dataT ++ bytes_of_words words) ++ bytes_of_words kids = data ++ bytes_of_words ((tag :: words) ++ kids)).
  { unfold dataT. rewrite bow_app. change (bytes_of_words (tag :: words)) with (le_encode 8 tag ++ bytes_of_words words).
    rewrite <- !app_assoc. reflexivity. }
  rewrite Ebody. split; [reflexivity|].
  assert (Lbw : zlen (bytes_of_words words) = total) by (unfold zlen in *; rewrite bow_length; unfold total, bw in *; lia).
  assert (Hinv3 : hinv (data ++ bytes_of_words ((tag :: words) ++ kids))).
  { rewrite <- Ebody. unfold hinv in *. rewrite !zlen_app in *. rewrite L1 in Hinvk. rewrite LT, Lbw. lia. }
  split; [exact Hinv3|].
  split.
  { right. unfold cl. cbn [p_valid p_seg p_member p_off p_kind p_size p_len p_comp p_bit DataSize PointerCount].
    split; [reflexivity|]. split; [reflexivity|]. split; [reflexivity|]. split; [lia|].
    split.
    - rewrite <- Ebody, !zlen_app, LT. assert (0 <= zlen (bytes_of_words kids)) by (unfold zlen; lia). lia.
    - split; [lia|]. split; [exact Owf|]. split; [lia|]. replace (8 * dn / 8) with dn by lia. unfold total, bw in *. nia. }
  intros a F Ha Ham Hab HFd.
  (* the specification *)
  assert (Lpe : zlen (pad_elems ns) = n) by (unfold pad_elems, ns; rewrite !zlen_map; exact Lvs).
  assert (Ecells : flat_map (fun e => struct_cells (pad0 dn' (sdata e)) (padN pn' (sptrs e))) (pad_elems ns)
                   = flat_map cellsOf (iota (Z.to_nat n))).
  { unfold pad_elems. fold dn' pn'. rewrite flat_map_map. cbn [sdata sptrs].
    rewrite (flat_map_ext_in _ (fun e => struct_cells (pad0 dn' (sdata e)) (padN pn' (sptrs e)))).
    2:{ intros e He. rewrite pad0_id, padN_id; [reflexivity| |].
        - apply padN_length. apply length_le_max_len. exact He.
        - apply pad0_length. apply length_le_max_len. exact He. }
    unfold ns. rewrite flat_map_map. rewrite <- (map_nthv_iota vs) at 1. rewrite flat_map_map.
    replace (length vs) with (Z.to_nat n) by (unfold zlen in *; lia). reflexivity. }
  change (norm (VList LComp vs)) with (VList LComp (pad_elems ns)) in *.
  destruct F as [|F']; [cbn [vdepth] in HFd; lia|].
  assert (HFk : okF F').
  { intros i j Hi0 Hj0. cbn [vdepth] in HFd.
    destruct (Shape i Hi0) as (ws & ps & Ev & Lws & Lps). rewrite Ev. cbn [sptrs].
    set (e' := VStruct (pad0 dn' (strip0 ws)) (padN pn' (stripN (map norm ps)))).
    assert (Hin : In e' (pad_elems ns)).
    { unfold pad_elems. fold dn' pn'. apply in_map_iff. exists (norm (nthv vs i)). split.
      - rewrite Ev. reflexivity.
      - unfold ns. apply in_map. unfold nthv. apply nth_In. unfold zlen in *. lia. }
    pose proof (vdepth_in_fold_max _ _ Hin) as Hd. unfold e' in Hd. cbn [vdepth] in Hd.
    pose proof (LeP i) as L2'. rewrite Ev in L2'. cbn [norm sptrs] in L2'.
    rewrite padN_stripN in Hd by (rewrite map_length; unfold zlen, pn, ap in *; lia).
    assert (Hin2 : In (norm (nthv ps j)) (firstn pn' (map norm ps))).
    { assert (Enj : norm (nthv ps j) = nth (Z.to_nat j) (map norm ps) VNull)
        by (unfold nthv; symmetry; exact (map_nth norm ps VNull (Z.to_nat j))).
      rewrite Enj. rewrite <- (nth_firstn_lt (Z.to_nat j) pn') by (unfold pn in *; lia). apply nth_In.
      rewrite firstn_length, map_length. unfold zlen, pn, ap in *. lia. }
    pose proof (vdepth_in_fold_max _ _ Hin2). lia. }
  specialize (Ec0 F' HFk).
  cbn [enc]. rewrite Lpe. rewrite max_len_pad_elems_d, max_len_pad_elems_p. fold dn' pn' dn pn.
  unfold two29, two16.
  destruct ((n >=? 536870912) || (zlen data / 8 - a / 8 - 1 >=? 536870912)) eqn:E1; [lia|].
  destruct ((dn >=? 65536) || (pn >=? 65536) || (n * (dn + pn) >=? 536870912)) eqn:E2; [unfold total in *; lia|].
  replace (Z.to_nat dn) with dn' by (unfold dn; lia). replace (Z.to_nat pn) with pn' by (unfold pn; lia).
  rewrite Ecells. cbn [enc_cells].
  replace (zlen data / 8 + 1) with ((zlen data + 8) / 8) by lia.
  replace ((zlen data + 8) / 8 + n * (dn + pn)) with (zlen data1 / 8) by (rewrite L1; unfold total; lia).
  rewrite Ec0. cbn [cbind fst snd].
  unfold ptr_word, cl. cbn [p_valid negb p_kind p_comp p_bit p_size PointerCount DataSize p_off p_len].
  replace (8 * dn / 8) with dn by lia. replace ((zlen data + 8 - 8) / 8) with (zlen data / 8) by lia.
  fold tag. reflexivity.
Qed.

End ListC2.
