(* C18 [T2], towards the struct-list case of canonicalList (open): the element size computed by
   canonicalList for a struct list is the specification's -- the maximum over the elements of the
   truncated data and pointer section sizes (CanonSpec.pad_elems / max_len on the normalised
   elements).  Not yet used by the induction (CanonMTop.Q_all covers void, primitive and pointer
   lists); the remaining work is newCompositeList's tag word and one fillCanonicalStruct per element. *)
From CV Require Import Value.ValueEq Value.ValueEqProofs Value.EqualM Value.Den Value.DenFacts Value.DenLists
                       Value.CanonSpec Value.CanonProofs Value.CanonProofs3 Value.CanonM Value.CanonMStruct
                       Value.CanonMWords Value.CanonMData Value.CanonMHeap Value.CanonMLoop Value.CanonSafe Value.EqualProofs
                       Value.CanonMProofs Value.CanonMInd.
From CV Require Import Core.ReaderFacts Core.SafetyProofs Core.BuilderFacts Core.ArithFacts Core.CopySafe.
From Coq Require Import ZifyBool ZifyNat.
Ltac Zify.zify_post_hook ::= Z.div_mod_to_equations.
Open Scope Z_scope.

Lemma skipn_nth_cons {A} (l : list A) i d : (i < length l)%nat -> skipn i l = nth i l d :: skipn (S i) l.
Proof.
  revert i. induction l as [|x r IH]; intros i H; [cbn [length] in H; lia|].
  destruct i as [|i]; [reflexivity|]. cbn [skipn nth]. apply IH. cbn [length] in H. lia.
Qed.

Section ListC.
Context (m : segs) (Hm : msg_ok m).

Theorem elem_size_spec p vs :
  wf_ptr m p -> p_valid p = true -> p_kind p = KList -> p_bit p = false ->
  DataSize (p_size p) mod 8 = 0 -> zlen vs = p_len p ->
  (forall i, 0 <= i < p_len p -> den true m 0 [] (elem_ptr p i) (nthv vs i)) ->
  forall cnt i acc, 0 <= i -> i + Z.of_nat cnt = p_len p -> 0 <= DataSize acc -> 0 <= PointerCount acc ->
  elem_size true true true m p cnt i acc
  = Ok (mkOS (Z.max (DataSize acc) (8 * Z.of_nat (max_len sdata (skipn (Z.to_nat i) (map norm vs)))))
             (Z.max (PointerCount acc) (Z.of_nat (max_len sptrs (skipn (Z.to_nat i) (map norm vs)))))).
Proof.
  intros Hwf Hv Hk Hb Hal Lvs K.
  destruct (Hwf Hv) as (Hseg & Hobj). unfold wf_obj in Hobj. rewrite Hk, Hb in Hobj.
  destruct Hobj as (Ho & Hlen & Hws & Hbd).
  induction cnt as [|cnt IH]; intros i acc Hi Hn Ha1 Ha2.
  - cbn [elem_size]. rewrite skipn_all2 by (rewrite map_length; unfold zlen in *; lia).
    cbn [max_len fold_right]. destruct acc as [ad ap]. cbn [DataSize PointerCount] in *.
    f_equal. f_equal; lia.
  - cbn [elem_size].
    assert (Hts : 0 <= totalSize (p_size p)) by (destruct Hws; unfold totalSize, pointerSize, u32; lia).
    assert (Hbi : 0 <= p_off p + i * totalSize (p_size p) <= zlen (seg_of m p)) by nia.
    assert (Ex : exists e, list_struct true p i = Ok e).
    { unfold list_struct. rewrite Hv, Hb. cbn [negb orb].
      destruct ((i <? 0) || (i >=? p_len p)) eqn:E; [lia|].
      destruct (element (p_off p) i (totalSize (p_size p))); eexists; reflexivity. }
    destruct Ex as (e & El). rewrite El.
    pose proof (list_struct_elem m p i e Hm Hv Hb ltac:(lia) Hbi El) as Hcore.
    pose proof (list_struct_safe true m p i Hm (conj Hwf (fun _ => Hk)) ltac:(unfold list_len; rewrite Hv; lia)) as SS.
    rewrite El in SS. cbn [res_sat] in SS. destruct SS as [We Ke].
    destruct Hcore as (Cv & Cs & Co & Cl & Cz & Ck & Cc & Cb).
    assert (Ve : p_valid e = true) by (rewrite Cv; reflexivity).
    assert (Kde : p_kind e = KStruct) by (rewrite Ck; reflexivity).
    assert (De : den true m 0 [] e (nthv vs i)).
    { eapply den_core; [|apply (K i); lia]. unfold same_core. repeat split; symmetry; assumption. }
    assert (Ale : DataSize (p_size e) mod 8 = 0) by (rewrite Cz; exact Hal).
    cbn [bind].
    destruct (canonicalStructSize_spec m 0 [] e _ Hm We Ve Kde Ale De) as (ws' & vs' & Ev & Hcss).
    rewrite Hcss. cbn [bind].
    rewrite IH by (cbn [DataSize PointerCount]; unfold zlen; lia).
    cbn [DataSize PointerCount].
    rewrite (skipn_nth_cons (map norm vs) (Z.to_nat i) VNull) by (rewrite map_length; unfold zlen in *; lia).
    replace (Z.to_nat (i + 1)) with (S (Z.to_nat i)) by lia.
    change VNull with (norm VNull) at 1 2. rewrite map_nth. change (nth (Z.to_nat i) vs VNull) with (nthv vs i).
    rewrite Ev. cbn [norm max_len fold_right sdata sptrs].
    fold (max_len sdata (skipn (S (Z.to_nat i)) (map norm vs))). fold (max_len sptrs (skipn (S (Z.to_nat i)) (map norm vs))).
    rewrite stripN_map_norm_length. unfold zlen. f_equal. f_equal; lia.
Qed.

Corollary elem_size_list p vs :
  wf_ptr m p -> p_valid p = true -> p_kind p = KList -> p_bit p = false ->
  DataSize (p_size p) mod 8 = 0 -> zlen vs = p_len p ->
  (forall i, 0 <= i < p_len p -> den true m 0 [] (elem_ptr p i) (nthv vs i)) ->
  elem_size true true true m p (Z.to_nat (p_len p)) 0 (mkOS 0 0)
  = Ok (mkOS (8 * Z.of_nat (max_len sdata (map norm vs))) (Z.of_nat (max_len sptrs (map norm vs)))).
Proof.
  intros Hwf Hv Hk Hb Hal Lvs K.
  assert (Hlen : 0 <= p_len p) by (unfold zlen in Lvs; lia).
  rewrite (elem_size_spec p vs Hwf Hv Hk Hb Hal Lvs K (Z.to_nat (p_len p)) 0 (mkOS 0 0)) by (cbn [DataSize PointerCount]; lia).
  cbn [DataSize PointerCount Z.to_nat skipn]. f_equal. f_equal; lia.
Qed.

End ListC.
