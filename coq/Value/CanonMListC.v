(* C18 [T2]: canonicalList, the struct-list case.  elem_size_list: the element size computed for a
   struct list is the specification's (maxima of the truncated data / pointer section sizes,
   CanonSpec.pad_elems).  blocks_loop: the loop invariant for one fillCanonicalStruct per element.
   list_comp_case: newCompositeList appends the tag word struct_word n dn pn and n zero blocks; each
   element fills its block (possibly larger than its own truncated size = pad0 / padN) and appends
   its children: exactly enc's LComp case. *)
From CV Require Import Value.ValueEq Value.ValueEqProofs Value.EqualM Value.Den Value.DenFacts Value.DenLists
                       Value.CanonSpec Value.CanonProofs Value.CanonProofs2 Value.CanonProofs3 Value.CanonM Value.CanonMStruct
                       Value.CanonMWords Value.CanonMData Value.CanonMHeap Value.CanonMLoop Value.CanonSafe Value.EqualProofs
                       Value.CanonMProofs Value.CanonMInd Value.CanonMListP Value.CanonMListR.
From CV Require Import Core.ReaderFacts Core.SafetyProofs Core.BuilderFacts Core.ArithFacts Core.CopySafe.
From Coq Require Import ZifyBool ZifyNat.
Ltac Zify.zify_post_hook ::= Z.div_mod_to_equations.
Open Scope Z_scope.

Lemma skipn_nth_cons {A} (l : list A) i d : (i < length l)%nat -> skipn i l = nth i l d :: skipn (S i) l.
Proof.
  revert i. induction l as [|x r IH]; intros i H; [cbn [length] in H; lia|].
  destruct i as [|i]; [reflexivity|]. cbn [skipn nth]. apply IH. cbn [length] in H. lia.
Qed.

(* ------------------------------------------------------------------ enc_cells over an append *)
Lemma enc_cells_app ev : forall c1 c2 pos cur b1 k1 b2 k2,
  enc_cells ev c1 pos cur = COk (b1, k1) ->
  enc_cells ev c2 (pos + zlen c1) (cur + zlen k1) = COk (b2, k2) ->
  enc_cells ev (c1 ++ c2) pos cur = COk (b1 ++ b2, k1 ++ k2).
Proof.
  induction c1 as [|c c1 IH]; intros c2 pos cur b1 k1 b2 k2 H1 H2.
  - cbn in H1. inversion H1; subst. cbn [app].
    replace (pos + zlen (@nil cell)) with pos in H2 by (unfold zlen; cbn; lia).
    replace (cur + zlen (@nil Z)) with cur in H2 by (unfold zlen; cbn; lia). exact H2.
  - destruct c as [w0|v0]; cbn [app enc_cells] in *.
    + destruct (enc_cells ev c1 (pos + 1) cur) as [[b' k']| | |] eqn:E; try discriminate.
      cbn in H1. inversion H1; subst.
      rewrite (IH c2 (pos + 1) cur b' k1 b2 k2 E)
        by (replace (pos + 1 + zlen c1) with (pos + zlen (CW w0 :: c1)) by (unfold zlen; cbn [length]; lia); exact H2).
      reflexivity.
    + destruct (ev v0 pos cur) as [[w1 body1]| | |] eqn:E0; try discriminate. cbn [cbind fst snd] in *.
      destruct (enc_cells ev c1 (pos + 1) (cur + zlen body1)) as [[b' k']| | |] eqn:E; try discriminate.
      cbn in H1. inversion H1; subst.
      rewrite (IH c2 (pos + 1) (cur + zlen body1) b' k' b2 k2 E).
      * cbn [cbind fst snd]. rewrite app_assoc. reflexivity.
      * replace (pos + 1 + zlen c1) with (pos + zlen (CP v0 :: c1)) by (unfold zlen; cbn [length]; lia).
        replace (cur + zlen body1 + zlen k') with (cur + zlen (body1 ++ k')) by (unfold zlen; rewrite app_length; lia). exact H2.
Qed.

Lemma set_slots_app_left d t A ws : 0 <= A -> A + 8 * zlen ws <= zlen d ->
  set_slots (d ++ t) A ws = set_slots d A ws ++ t.
Proof.
  intros Ha Hb. unfold set_slots, zlen in *. rewrite firstn_app, skipn_app.
  replace (Z.to_nat A - length d)%nat with 0%nat by lia.
  replace (Z.to_nat A + 8 * length ws - length d)%nat with 0%nat by lia.
  change (firstn 0 t) with (@nil Z). change (skipn 0 t) with t. rewrite app_nil_r, <- !app_assoc. reflexivity.
Qed.

(* ------------------------------------------------------------------ the block loop *)
(* [step] handles element i: it writes the block of bw words at B + 8*bw*i and appends bytes *)
Lemma blocks_loop (step : world -> Z -> cout world) (m : segs) (B bw : Z) (n0 : nat) (cellsOf : Z -> list cell)
      (okF : nat -> Prop) (evs : nat -> value -> Z -> Z -> cres (Z * list Z)) :
  0 <= B -> B mod 8 = 0 -> 0 <= bw -> (forall i, zlen (cellsOf i) = bw) ->
  (forall i data cap rl w', 0 <= i < Z.of_nat n0 -> hinv data -> B + 8 * bw * Z.of_nat n0 <= zlen data ->
     step (dstw data cap m rl) i = KOk w' ->
     exists block body cap' rl',
       zlen block = bw /\
       w' = dstw (set_slots data (B + 8 * bw * i) block ++ bytes_of_words body) cap' m rl' /\
       hinv (data ++ bytes_of_words body) /\
       forall F, okF F -> enc_cells (evs F) (cellsOf i) (B / 8 + bw * i) (zlen data / 8) = COk (block, body)) ->
  forall n, (n <= n0)%nat -> forall data cap rl w',
    hinv data -> B + 8 * bw * Z.of_nat n0 <= zlen data ->
    kfold (iota n) (dstw data cap m rl) step = KOk w' ->
    exists words kids cap' rl',
      zlen words = bw * Z.of_nat n /\ w' = dstw (set_slots data B words ++ bytes_of_words kids) cap' m rl' /\
      hinv (data ++ bytes_of_words kids) /\
      forall F, okF F -> enc_cells (evs F) (flat_map cellsOf (iota n)) (B / 8) (zlen data / 8) = COk (words, kids).
Proof.
  intros HB HBm Hbw Hcl Hstep. induction n as [|n IH]; intros Hn data cap rl w' Hi Hb H.
  - cbn in H. inversion H; subst. exists [], [], cap, rl. split; [unfold zlen; cbn; lia|].
    rewrite set_slots_nil by (unfold zlen in *; nia). cbn [bytes_of_words flat_map]. rewrite !app_nil_r.
    split; [reflexivity|]. split; [exact Hi| intros F _; reflexivity].
  - rewrite iota_S, kfold_app in H.
    destruct (kfold (iota n) (dstw data cap m rl) step) as [wk| | |] eqn:Ek; try discriminate. cbn [kbind] in H.
    destruct (IH ltac:(lia) data cap rl wk Hi Hb Ek) as (words & kids & cap1 & rl1 & Lw & -> & Hi1 & Ec).
    cbn [kfold] in H. destruct (step _ (Z.of_nat n)) as [w2| | |] eqn:Es; try discriminate. cbn [kbind] in H.
    inversion H; subst w'; clear H.
    assert (Hnn : bw * Z.of_nat n + bw <= bw * Z.of_nat n0) by nia.
    assert (Lsl : zlen (set_slots data B words) = zlen data).
    { apply set_slots_length; [assumption|]. unfold zlen in *. lia. }
    assert (Hi1' : hinv (set_slots data B words ++ bytes_of_words kids)).
    { unfold hinv in *. rewrite zlen_app, Lsl. rewrite zlen_app in Hi1. exact Hi1. }
    destruct (Hstep (Z.of_nat n) _ cap1 rl1 w2 ltac:(lia) Hi1'
                    ltac:(rewrite zlen_app, Lsl; unfold zlen in *; lia) Es)
      as (block & body & cap2 & rl2 & Lbk & -> & Hi2 & Ev).
    exists (words ++ block), (kids ++ body), cap2, rl2.
    split; [rewrite zlen_app; lia|]. split.
    + f_equal. rewrite set_slots_app_left by (try rewrite Lsl; lia).
      replace (B + 8 * bw * Z.of_nat n) with (B + 8 * zlen words) by lia.
      rewrite set_slots_app by (try rewrite zlen_app; lia).
      rewrite bow_app, <- !app_assoc. reflexivity.
    + split.
      * unfold hinv in *. rewrite bow_app. rewrite !zlen_app in *. rewrite Lsl in Hi2. lia.
      * intros F HF. specialize (Ec F HF). specialize (Ev F HF).
        rewrite iota_S, flat_map_app. cbn [flat_map]. rewrite app_nil_r.
        apply (enc_cells_app (evs F) _ _ _ _ words kids block body Ec).
        assert (Lfm : zlen (flat_map cellsOf (iota n)) = bw * Z.of_nat n).
        { clear - Hcl. induction n as [|n IHn]; [unfold zlen; cbn; lia|].
          rewrite iota_S, flat_map_app, zlen_app, IHn. cbn [flat_map]. rewrite app_nil_r, Hcl. lia. }
        rewrite Lfm.
        replace (zlen data / 8 + zlen kids) with (zlen (set_slots data B words ++ bytes_of_words kids) / 8).
        -- exact Ev.
        -- rewrite zlen_app, Lsl. unfold zlen at 2. rewrite bow_length. destruct Hi as [Hmm _]. unfold zlen in *. lia.
Qed.

(* ------------------------------------------------------------------ padding = keeping more of the original *)
Lemma firstn_repeat {A} (x : A) : forall k n, firstn k (repeat x n) = repeat x (Nat.min k n).
Proof. induction k; intros [|n]; cbn [firstn repeat Nat.min]; try reflexivity. rewrite IHk. reflexivity. Qed.

Lemma strip0_zeros : forall l, l = strip0 l ++ repeat 0 (length l - length (strip0 l)).
Proof.
  induction l as [|x r IH]; [reflexivity|]. cbn [strip0]. destruct (strip0 r) as [|y r'] eqn:E.
  - cbn [length app] in IH. replace (length r - 0)%nat with (length r) in IH by lia. destruct (x =? 0) eqn:Ex.
    + cbn [length app]. replace (S (length r) - 0)%nat with (S (length r)) by lia. cbn [repeat]. rewrite <- IH. f_equal. lia.
    + cbn [length app]. replace (S (length r) - 1)%nat with (length r) by lia. rewrite <- IH. reflexivity.
  - cbn [length app] in *. replace (S (length r) - S (S (length r')))%nat with (length r - S (length r'))%nat by lia.
    rewrite <- IH. reflexivity.
Qed.

Lemma is_null_eq x : is_null x = true -> x = VNull.
Proof. destruct x; try discriminate. reflexivity. Qed.

Lemma stripN_nulls : forall l, l = stripN l ++ repeat VNull (length l - length (stripN l)).
Proof.
  induction l as [|x r IH]; [reflexivity|]. cbn [stripN]. destruct (stripN r) as [|y r'] eqn:E.
  - cbn [length app] in IH. replace (length r - 0)%nat with (length r) in IH by lia. destruct (is_null x) eqn:Ex.
    + cbn [length app]. replace (S (length r) - 0)%nat with (S (length r)) by lia. cbn [repeat]. rewrite <- IH. f_equal.
      apply is_null_eq. exact Ex.
    + cbn [length app]. replace (S (length r) - 1)%nat with (length r) by lia. rewrite <- IH. reflexivity.
  - cbn [length app] in *. replace (S (length r) - S (S (length r')))%nat with (length r - S (length r'))%nat by lia.
    rewrite <- IH. reflexivity.
Qed.

Lemma pad0_strip0 dn ws : (length (strip0 ws) <= dn <= length ws)%nat -> pad0 dn (strip0 ws) = firstn dn ws.
Proof.
  intros H. rewrite (strip0_zeros ws) at 2. rewrite firstn_app, firstn_all2 by lia. unfold pad0. f_equal.
  rewrite firstn_repeat. f_equal. lia.
Qed.

Lemma padN_stripN pn l : (length (stripN l) <= pn <= length l)%nat -> padN pn (stripN l) = firstn pn l.
Proof.
  intros H. rewrite (stripN_nulls l) at 2. rewrite firstn_app, firstn_all2 by lia. unfold padN. f_equal.
  rewrite firstn_repeat. f_equal. lia.
Qed.

Section ListC.
Context (m : segs) (Hm : msg_ok m).

Theorem elem_size_spec p vs :
  wf_ptr m p -> p_valid p = true -> p_kind p = KList -> p_bit p = false ->
  DataSize (p_size p) mod 8 = 0 -> zlen vs = p_len p ->
  (forall i, 0 <= i < p_len p -> den true m 0 [] (elem_ptr p i) (nthv vs i)) ->
  forall cnt i acc, 0 <= i -> i + Z.of_nat cnt = p_len p -> 0 <= DataSize acc -> 0 <= PointerCount acc ->
  elem_size true true true m p cnt i acc
  = Ok (mkOS (Z.max (DataSize acc) (8 * Z.of_nat (max_len sdata (skipn (Z.to_nat i) (map norm vs)))))
             (Z.max (PointerCount acc) (Z.of_nat (max_len sptrs (skipn (Z.to_nat i) (map norm vs)))))).
Proof.
  intros Hwf Hv Hk Hb Hal Lvs K.
  destruct (Hwf Hv) as (Hseg & Hobj). unfold wf_obj in Hobj. rewrite Hk, Hb in Hobj.
  destruct Hobj as (Ho & Hlen & Hws & Hbd).
  induction cnt as [|cnt IH]; intros i acc Hi Hn Ha1 Ha2.
  - cbn [elem_size]. rewrite skipn_all2 by (rewrite map_length; unfold zlen in *; lia).
    cbn [max_len fold_right]. destruct acc as [ad ap]. cbn [DataSize PointerCount] in *.
    f_equal. f_equal; lia.
  - cbn [elem_size].
    assert (Hts : 0 <= totalSize (p_size p)) by (destruct Hws; unfold totalSize, pointerSize, u32; lia).
    assert (Hbi : 0 <= p_off p + i * totalSize (p_size p) <= zlen (seg_of m p)) by nia.
    assert (Ex : exists e, list_struct true p i = Ok e).
    { unfold list_struct. rewrite Hv, Hb. cbn [negb orb].
      destruct ((i <? 0) || (i >=? p_len p)) eqn:E; [lia|].
      destruct (element (p_off p) i (totalSize (p_size p))); eexists; reflexivity. }
    destruct Ex as (e & El). rewrite El.
    pose proof (list_struct_elem m p i e Hm Hv Hb ltac:(lia) Hbi El) as Hcore.
    pose proof (list_struct_safe true m p i Hm (conj Hwf (fun _ => Hk)) ltac:(unfold list_len; rewrite Hv; lia)) as SS.
    rewrite El in SS. cbn [res_sat] in SS. destruct SS as [We Ke].
    destruct Hcore as (Cv & Cs & Co & Cl & Cz & Ck & Cc & Cb).
    assert (Ve : p_valid e = true) by (rewrite Cv; reflexivity).
    assert (Kde : p_kind e = KStruct) by (rewrite Ck; reflexivity).
    assert (De : den true m 0 [] e (nthv vs i)).
    { eapply den_core; [|apply (K i); lia]. unfold same_core. repeat split; symmetry; assumption. }
    assert (Ale : DataSize (p_size e) mod 8 = 0) by (rewrite Cz; exact Hal).
    cbn [bind].
    destruct (canonicalStructSize_spec m 0 [] e _ Hm We Ve Kde Ale De) as (ws' & vs' & Ev & Hcss).
    rewrite Hcss. cbn [bind].
    rewrite IH by (cbn [DataSize PointerCount]; unfold zlen; lia).
    cbn [DataSize PointerCount].
    rewrite (skipn_nth_cons (map norm vs) (Z.to_nat i) VNull) by (rewrite map_length; unfold zlen in *; lia).
    replace (Z.to_nat (i + 1)) with (S (Z.to_nat i)) by lia.
    change VNull with (norm VNull) at 1 2. rewrite map_nth. change (nth (Z.to_nat i) vs VNull) with (nthv vs i).
    rewrite Ev. cbn [norm max_len fold_right sdata sptrs].
    fold (max_len sdata (skipn (S (Z.to_nat i)) (map norm vs))). fold (max_len sptrs (skipn (S (Z.to_nat i)) (map norm vs))).
    rewrite stripN_map_norm_length. unfold zlen. f_equal. f_equal; lia.
Qed.

Corollary elem_size_list p vs :
  wf_ptr m p -> p_valid p = true -> p_kind p = KList -> p_bit p = false ->
  DataSize (p_size p) mod 8 = 0 -> zlen vs = p_len p ->
  (forall i, 0 <= i < p_len p -> den true m 0 [] (elem_ptr p i) (nthv vs i)) ->
  elem_size true true true m p (Z.to_nat (p_len p)) 0 (mkOS 0 0)
  = Ok (mkOS (8 * Z.of_nat (max_len sdata (map norm vs))) (Z.of_nat (max_len sptrs (map norm vs)))).
Proof.
  intros Hwf Hv Hk Hb Hal Lvs K.
  assert (Hlen : 0 <= p_len p) by (unfold zlen in Lvs; lia).
  rewrite (elem_size_spec p vs Hwf Hv Hk Hb Hal Lvs K (Z.to_nat (p_len p)) 0 (mkOS 0 0)) by (cbn [DataSize PointerCount]; lia).
  cbn [DataSize PointerCount Z.to_nat skipn]. f_equal. f_equal; lia.
Qed.

End ListC.

(* ------------------------------------------------------------------ the struct-list case *)
Lemma flat_map_map {A B C} (h : A -> B) (g : B -> list C) l : flat_map g (map h l) = flat_map (fun a => g (h a)) l.
Proof. induction l as [|x r IH]; cbn [map flat_map]; [reflexivity|]. rewrite IH. reflexivity. Qed.

Lemma flat_map_ext_in {A B} (g1 g2 : A -> list B) l : (forall a, In a l -> g1 a = g2 a) -> flat_map g1 l = flat_map g2 l.
Proof.
  induction l as [|x r IH]; intros H; cbn [flat_map]; [reflexivity|].
  rewrite (H x (or_introl eq_refl)), IH; [reflexivity|]. intros a Ha. apply H. right. exact Ha.
Qed.

Lemma map_nthv_iota vs : map (nthv vs) (iota (length vs)) = vs.
Proof.
  apply (nth_ext _ _ VNull VNull).
  - rewrite map_length, iota_length. reflexivity.
  - intros i Hi. rewrite map_length, iota_length in Hi. rewrite nth_map_iota by exact Hi.
    unfold nthv. rewrite Nat2Z.id. reflexivity.
Qed.

Lemma max_len_le {A} (f : value -> list A) es k : (forall e, In e es -> (length (f e) <= k)%nat) -> (max_len f es <= k)%nat.
Proof.
  induction es as [|e r IH]; intros H; cbn [max_len fold_right]; [lia|].
  pose proof (H e (or_introl eq_refl)). assert (max_len f r <= k)%nat by (apply IH; intros x Hx; apply H; right; exact Hx).
  unfold max_len in *. lia.
Qed.

Section ListC2.
Context (c : config) (fx : cfix) (m : segs).
Context (Hstrict : cfg_strict c = true) (Hfx : all_cfixed fx) (Hm : msg_ok m).

Lemma den_comp_inv p vs : den true m 0 [] p (VList LComp vs) ->
  p_valid p = true /\ p_kind p = KList /\ p_bit p = false /\ p_comp p = true /\ wf_size (p_size p) /\
  zlen vs = p_len p /\ (forall i, 0 <= i < p_len p -> den true m 0 [] (elem_ptr p i) (nthv vs i)).
Proof.
  intros D. inversion D; subst.
  - split; [assumption|]. split; [assumption|]. split; [assumption|]. split; [assumption|]. split; [assumption|].
    split; assumption.
  - match goal with H : prim_width ?w |- _ => destruct H as [->|[->|[->|[->| ->]]]]; discriminate end.
Qed.

(* every element of a struct list denotes a struct with the allocated section sizes *)
Lemma comp_elem_shape p vs i :
  wf_ptr m p -> p_valid p = true -> p_kind p = KList -> p_bit p = false -> DataSize (p_size p) mod 8 = 0 ->
  0 <= i < p_len p -> den true m 0 [] (elem_ptr p i) (nthv vs i) ->
  exists ws ps, nthv vs i = VStruct ws ps /\ 8 * zlen ws = DataSize (p_size p) /\ zlen ps = PointerCount (p_size p).
Proof.
  intros Hwf Hv Hk Hb Hal Hi D.
  destruct (Hwf Hv) as (Hseg & Hobj). unfold wf_obj in Hobj. rewrite Hk, Hb in Hobj.
  destruct Hobj as (Ho & Hlen & Hws & Hbd).
  destruct (den_struct_inv _ _ _ _ _ _ D eq_refl eq_refl) as (d & ps & Ev & _ & Sl & Lps & _).
  cbn [elem_ptr p_size p_off p_seg] in *.
  exists (words_of_bytes d), ps. split; [exact Ev|]. split; [|exact Lps].
  assert (Hsok : seg_ok (seg_of m (elem_ptr p i))) by (apply seg_of_ok; assumption).
  apply slice_eq_sub in Sl; [|exact Hsok|destruct Hws; lia]. destruct Sl as (Ed & B1 & B2).
  assert (Ld : zlen d = DataSize (p_size p)) by (rewrite Ed; apply sub_length; destruct Hws; lia).
  assert (Hbd' : bytes_ok d) by (rewrite Ed; unfold sub; apply Forall_firstn', Forall_skipn'; apply Hsok).
  assert (Hmod : (length d mod 8 = 0)%nat).
  { apply Nat2Z.inj. rewrite Nat2Z.inj_mod. unfold zlen in Ld. rewrite Ld. exact Hal. }
  pose proof (bow_wob d Hbd' Hmod) as E. apply (f_equal (@length Z)) in E. rewrite bow_length in E.
  unfold zlen in *. lia.
Qed.


Lemma list_comp_case f : Q_fill c fx m f -> forall data cap rl p vs w' cp,
  hinv data -> wf_ptr m p -> caligned p -> den true m 0 [] p (VList LComp vs) ->
  canonical_list c fx (S f) (dstw data cap m rl) 0 p = KOk (w', cp) -> Qconcl m data (VList LComp vs) w' cp.
Proof.
  intros HF data cap rl p vs w' cp Hi Hwf Hcal D H.
  destruct (den_comp_inv _ _ D) as (Hv & Hk & Hb & Hc & Hws & Lvs & K).
  destruct (Hcal Hc) as [Hal _].
  destruct (Hwf Hv) as (Hseg & Hobj). unfold wf_obj in Hobj. rewrite Hk, Hb in Hobj.
  destruct Hobj as (Ho & Hlen & _ & Hbd).
  destruct Hfx as (Hcl & Hbp & Hfn & Hfd & Hfu & Hfb).
  set (n := p_len p) in *.
  set (ns := map norm vs).
  set (dn' := max_len sdata ns). set (pn' := max_len sptrs ns).
  set (dn := Z.of_nat dn'). set (pn := Z.of_nat pn').
  set (aw := DataSize (p_size p) / 8). set (ap := PointerCount (p_size p)).
  destruct Hws as [Hws1 Hws2].
  (* shapes of the elements *)
  assert (Shape : forall i, 0 <= i < n -> exists ws ps, nthv vs i = VStruct ws ps /\ zlen ws = aw /\ zlen ps = ap).
  { intros i Hi0. destruct (comp_elem_shape p vs i Hwf Hv Hk Hb Hal Hi0 (K i Hi0)) as (ws & ps & E & L1 & L2).
    exists ws, ps. split; [exact E|]. split; [unfold aw; lia|exact L2]. }
  assert (ShapeIn : forall e, In e ns -> (length (sdata e) <= Z.to_nat aw)%nat /\ (length (sptrs e) <= Z.to_nat ap)%nat).
  { intros e He. unfold ns in He. apply in_map_iff in He. destruct He as (v & <- & Hin).
    destruct (In_nth _ _ VNull Hin) as (i & Hil & Env).
    destruct (Shape (Z.of_nat i) ltac:(unfold zlen in *; lia)) as (ws & ps & E & L1 & L2).
    unfold nthv in E. rewrite Nat2Z.id, Env in E. rewrite E. cbn [norm sdata sptrs].
    pose proof (strip0_length_le ws). rewrite stripN_map_norm_length.
    assert ((length (stripN ps) <= length ps)%nat) by (rewrite (stripN_firstn ps) at 1; rewrite firstn_length; lia).
    unfold zlen in *. lia. }
  assert (Hdn : (dn' <= Z.to_nat aw)%nat) by (apply max_len_le; intros e He; apply (ShapeIn e He)).
  assert (Hpn : (pn' <= Z.to_nat ap)%nat) by (apply max_len_le; intros e He; apply (ShapeIn e He)).
  assert (LeD : forall i, (length (sdata (norm (nthv vs i))) <= dn')%nat).
  { intros i. unfold nthv. destruct (Nat.lt_ge_cases (Z.to_nat i) (length vs)) as [Hlt|Hge].
    - apply length_le_max_len. unfold ns. apply in_map. apply nth_In. exact Hlt.
    - rewrite nth_overflow by exact Hge. cbn. lia. }
  assert (LeP : forall i, (length (sptrs (norm (nthv vs i))) <= pn')%nat).
  { intros i. unfold nthv. destruct (Nat.lt_ge_cases (Z.to_nat i) (length vs)) as [Hlt|Hge].
    - apply length_le_max_len. unfold ns. apply in_map. apply nth_In. exact Hlt.
    - rewrite nth_overflow by exact Hge. cbn. lia. }
  assert (Bdn : 0 <= dn <= 65535) by (unfold dn, aw in *; lia).
  assert (Bpn : 0 <= pn < 65536) by (unfold pn, ap in *; lia).
  destruct Hi as [Hi1 Hi2]. assert (Z0 : 0 <= zlen data) by (unfold zlen; lia).
  (* the code *)
  rewrite canonical_list_S in H. rewrite Hv, Hcl, Hc in H. cbn [negb andb] in H. rewrite Bool.andb_false_r in H.
  rewrite Hfn, Hstrict, Hfd in H. cbn [w_src dstw] in H. unfold list_len at 1 in H. rewrite Hv in H. fold n in H.
  pose proof (elem_size_list m Hm p vs Hwf Hv Hk Hb Hal Lvs K) as Esz. fold n in Esz. rewrite Esz in H. clear Esz. fold ns dn' pn' dn pn in H. cbn [of_res kbind] in H.
  unfold newCompositeList, os_isValid in H. cbn [DataSize PointerCount w_dst dstw] in H.
  destruct (8 * dn <=? 65535 * 8) eqn:E8; [|lia]. cbn [negb] in H.
  destruct ((n <? 0) || (n >=? 536870912)) eqn:En; [lia|].
  rewrite (padToWord_mult (8 * dn)) in H by lia.
  replace (totalSize (mkOS (8 * dn) pn)) with (8 * dn + 8 * pn) in H
    by (unfold totalSize, pointerSize, u32; cbn [DataSize PointerCount]; lia).
  set (bw := dn + pn) in *.
  destruct (times (8 * dn + 8 * pn) n) as [total|] eqn:Et; [|discriminate H].
  apply times_spec in Et. destruct Et as [-> Ht]. unfold maxSegmentSize in *.
  set (total := (8 * dn + 8 * pn) * n) in *.
  destruct (total >? 4294967288 - 8) eqn:Egt; [discriminate H|].
  rewrite (u32_id (8 + total)) in H by lia.
  unfold lift in H.
  destruct (alloc (seg0 data cap) 0 (8 + total)) as [[[m1 sid1] addr]| |] eqn:Ea; try discriminate H.
  assert (Tm : total mod 8 = 0) by (unfold total; lia).
  pose proof (alloc_bound data cap (8 + total) m1 sid1 addr ltac:(lia) ltac:(lia) Ea) as Hbound.
  destruct (alloc_seg0 data cap (8 + total) m1 sid1 addr Hi1 ltac:(lia) Ea) as (cap1 & -> & -> & ->).
  rewrite (padToWord_mult (8 + total)) in * by lia.
  cbn [bind] in H.
  assert (Owf : os_wf (mkOS (8 * dn) pn)) by (unfold os_wf; cbn [DataSize PointerCount]; lia).
  rewrite (tag_is_struct_word n (mkOS (8 * dn) pn) Owf) in H. cbn [of_opt_panic bind DataSize PointerCount] in H.
  replace (8 * dn / 8) with dn in H by lia.
  set (tag := struct_word n dn pn) in *.
  assert (Lz : zlen (data ++ repeat 0 (Z.to_nat (8 + total))) = zlen data + 8 + total)
    by (rewrite zlen_app; unfold zlen; rewrite repeat_length; lia).
  rewrite writeRaw_seg0 in H by lia. cbn [bind of_res kbind w_set_dst w_src w_src_rl] in H.
  replace (addSizeUnchecked (zlen data) 8) with (zlen data + 8) in H by (unfold addSizeUnchecked, u32; lia).
  assert (Edata1 : put_word (data ++ repeat 0 (Z.to_nat (8 + total))) (zlen data) tag
                   = (data ++ le_encode 8 tag) ++ repeat 0 (Z.to_nat total)).
  { pose proof (put_word_mid data (repeat 0 (Z.to_nat (8 + total))) [] tag ltac:(rewrite repeat_length; lia)) as E.
    rewrite !app_nil_r in E. fold (zlen data) in E. rewrite E, skipn_repeat, <- app_assoc. f_equal. f_equal. f_equal. lia. }
  rewrite Edata1 in H.
  set (dataT := data ++ le_encode 8 tag) in *.
  assert (LT : zlen dataT = zlen data + 8) by (unfold dataT; rewrite zlen_app; unfold zlen; rewrite le_encode_length; lia).
  set (data1 := dataT ++ repeat 0 (Z.to_nat total)) in *.
  assert (L1 : zlen data1 = zlen data + 8 + total) by (unfold data1; rewrite zlen_app, LT; unfold zlen; rewrite repeat_length; lia).
  set (cl := mkPtr true 0 (zlen data + 8) n (mkOS (8 * dn) pn) maxDepth KList true false false) in *.
  change (w_set_dst (dstw data cap m rl) (seg0 data1 cap1)) with (dstw data1 cap1 m rl) in H.
  unfold list_len in H. cbn [p_valid p_len cl] in H.
  match type of H with context [kfold ?l ?w0 ?st] => destruct (kfold l w0 st) as [w3| | |] eqn:Ek end; try discriminate H.
  cbn [kbind] in H. inversion H; subst w' cp; clear H.
  (* the loop *)
  set (step := fun (wa : world) (i : Z) =>
                 kbind (of_res (list_struct true cl i)) (fun de : Ptr =>
                 kbind (of_res (list_struct true p i)) (fun se : Ptr => fill_canonical c fx f wa de se))) in *.
  set (cellsOf := fun i : Z => struct_cells (pad0 dn' (sdata (norm (nthv vs i)))) (padN pn' (sptrs (norm (nthv vs i))))).
  assert (Hcells : forall i, zlen (cellsOf i) = bw).
  { intros i. unfold cellsOf, struct_cells, zlen. rewrite app_length, !map_length, pad0_length, padN_length by auto. unfold bw, dn, pn. lia. }
  set (okF := fun F : nat => forall i j, 0 <= i < n -> 0 <= j < pn ->
                (vdepth (norm (nthv (sptrs (nthv vs i)) j)) <= F)%nat).
  assert (Hstep : forall i data0 cap0 rl0 w0, 0 <= i < Z.of_nat (Z.to_nat n) -> hinv data0 ->
            (zlen data + 8) + 8 * bw * Z.of_nat (Z.to_nat n) <= zlen data0 ->
            step (dstw data0 cap0 m rl0) i = KOk w0 ->
            exists block body cap' rl',
              zlen block = bw /\
              w0 = dstw (set_slots data0 ((zlen data + 8) + 8 * bw * i) block ++ bytes_of_words body) cap' m rl' /\
              hinv (data0 ++ bytes_of_words body) /\
              forall F, okF F -> enc_cells (enc F) (cellsOf i) ((zlen data + 8) / 8 + bw * i) (zlen data0 / 8) = COk (block, body)).
  { intros i data0 cap0 rl0 w0 Hi0 Hinv0 Hb0 Hs0. unfold step in Hs0.
    assert (Hin : 0 <= i < n) by lia.
    assert (Hblk : bw * i + bw <= bw * n) by (unfold bw in *; nia).
    set (A := (zlen data + 8) + 8 * bw * i) in *.
    assert (EA : list_struct true cl i
                 = Ok (mkPtr true 0 A 0 (mkOS (8 * dn) pn) (if true && (maxDepth =? 0) then 0 else uint_dec maxDepth) KStruct false false true)).
    { unfold list_struct, cl. cbn [p_valid p_len p_bit p_off p_size p_seg p_depth negb orb].
      destruct ((i <? 0) || (i >=? n)) eqn:E1; [lia|].
      replace (totalSize (mkOS (8 * dn) pn)) with (8 * bw)
        by (unfold totalSize, pointerSize, u32, bw; cbn [DataSize PointerCount]; lia).
      rewrite element_some by (unfold total, bw in *; nia). f_equal. f_equal. unfold A. lia. }
    rewrite EA in Hs0. cbn [of_res kbind] in Hs0.
    set (de := mkPtr true 0 A 0 (mkOS (8 * dn) pn) (if true && (maxDepth =? 0) then 0 else uint_dec maxDepth) KStruct false false true) in *.
    assert (Ex : exists se, list_struct true p i = Ok se).
    { unfold list_struct. rewrite Hv, Hb. cbn [negb orb]. fold n.
      destruct ((i <? 0) || (i >=? n)) eqn:E; [lia|].
      destruct (element (p_off p) i (totalSize (p_size p))); eexists; reflexivity. }
    destruct Ex as (se & El). rewrite El in Hs0. cbn [of_res kbind] in Hs0.
    assert (Hts : 0 <= totalSize (p_size p)) by (unfold totalSize, pointerSize, u32; lia).
    assert (Hbi : 0 <= p_off p + i * totalSize (p_size p) <= zlen (seg_of m p)) by nia.
    pose proof (list_struct_elem m p i se Hm Hv Hb ltac:(lia) Hbi El) as Hcore.
    pose proof (list_struct_safe true m p i Hm (conj Hwf (fun _ => Hk)) ltac:(unfold list_len; rewrite Hv; lia)) as SS.
    rewrite El in SS. cbn [res_sat] in SS. destruct SS as [We Ke].
    destruct Hcore as (Cv & Cs & Co & Cl & Cz & Ck & Cc & Cb).
    assert (Ve : p_valid se = true) by (rewrite Cv; reflexivity).
    assert (Kse : p_kind se = KStruct) by (rewrite Ck; reflexivity).
    assert (De : den true m 0 [] se (nthv vs i)).
    { eapply den_core; [|apply (K i); lia]. unfold same_core. repeat split; symmetry; assumption. }
    assert (Ale : aligned se) by (intros _; rewrite Cz; exact Hal).
    destruct (Shape i Hin) as (ws & ps & Ev & Lws & Lps).
    rewrite Ev in De.
    assert (Hdst : dst_at de A dn pn) by (unfold dst_at, de; cbn; repeat split; reflexivity).
    destruct (HF data0 cap0 rl0 de se ws ps A dn pn w0 Hinv0 Hdst ltac:(unfold A, bw in *; nia) ltac:(unfold A; lia)
                 ltac:(lia) Bpn ltac:(unfold A, bw in *; nia) Ve Kse We Ale De ltac:(lia) ltac:(lia) Hs0)
      as (pwords & kids & cap2 & rl2 & Lp & -> & Hinv2 & Hc0).
    exists (firstn (Z.to_nat dn) ws ++ pwords), kids, cap2, rl2.
    assert (Lf : zlen (firstn (Z.to_nat dn) ws) = dn) by (unfold zlen in *; rewrite firstn_length; lia).
    split; [rewrite zlen_app; unfold bw; lia|]. split; [reflexivity|]. split; [exact Hinv2|].
    intros F HFo.
    assert (Ecell : cellsOf i = map CW (firstn (Z.to_nat dn) ws) ++ map CP (firstn (Z.to_nat pn) (map norm ps))).
    { unfold cellsOf, struct_cells. rewrite Ev. cbn [norm sdata sptrs]. unfold dn, pn. rewrite !Nat2Z.id.
      pose proof (LeD i) as L1'. pose proof (LeP i) as L2'. rewrite Ev in L1', L2'. cbn [norm sdata sptrs] in L1', L2'.
      rewrite pad0_strip0 by (unfold zlen in *; lia).
      rewrite padN_stripN by (rewrite map_length; unfold zlen in *; lia). reflexivity. }
    rewrite Ecell, enc_cells_app_words, Lf.
    replace ((zlen data + 8) / 8 + bw * i + dn) with (A / 8 + dn) by (unfold A; lia).
    rewrite Hc0; [reflexivity|].
    intros j Hj. specialize (HFo i j Hin Hj). rewrite Ev in HFo. exact HFo. }
  assert (Hn0 : Z.of_nat (Z.to_nat n) = n) by lia.
  destruct (blocks_loop step m (zlen data + 8) bw (Z.to_nat n) cellsOf okF enc ltac:(lia) ltac:(lia) ltac:(unfold bw; lia)
                        Hcells Hstep (Z.to_nat n) (le_n _) data1 cap1 rl w3 ltac:(split; lia)
                        ltac:(rewrite L1, Hn0; unfold total, bw; lia) Ek)
    as (words & kids & cap' & rl' & Lw & -> & Hinvk & Ec0).
  rewrite Hn0 in Lw.
  assert (Edata : set_slots data1 (zlen data + 8) words = dataT ++ bytes_of_words words).
  { unfold data1. replace (Z.to_nat total) with (8 * length words)%nat by (unfold zlen, total, bw in *; lia).
    rewrite <- LT. apply set_slots_end. }
  rewrite Edata. exists ((tag :: words) ++ kids), cap', rl'.
  assert (Ebody : (dataT ++ bytes_of_words words) ++ bytes_of_words kids = data ++ bytes_of_words ((tag :: words) ++ kids)).
  { unfold dataT. rewrite bow_app. change (bytes_of_words (tag :: words)) with (le_encode 8 tag ++ bytes_of_words words).
    rewrite <- !app_assoc. reflexivity. }
  rewrite Ebody. split; [reflexivity|].
  assert (Lbw : zlen (bytes_of_words words) = total) by (unfold zlen in *; rewrite bow_length; unfold total, bw in *; lia).
  assert (Hinv3 : hinv (data ++ bytes_of_words ((tag :: words) ++ kids))).
  { rewrite <- Ebody. unfold hinv in *. rewrite !zlen_app in *. rewrite L1 in Hinvk. rewrite LT, Lbw. lia. }
  split; [exact Hinv3|].
  split.
  { right. unfold cl. cbn [p_valid p_seg p_member p_off p_kind p_size p_len p_comp p_bit DataSize PointerCount].
    split; [reflexivity|]. split; [reflexivity|]. split; [reflexivity|]. split; [lia|].
    split.
    - rewrite <- Ebody, !zlen_app, LT. assert (0 <= zlen (bytes_of_words kids)) by (unfold zlen; lia). lia.
    - split; [lia|]. split; [exact Owf|]. split; [lia|]. replace (8 * dn / 8) with dn by lia. unfold total, bw in *. nia. }
  intros a F Ha Ham Hab HFd.
  (* the specification *)
  assert (Lpe : zlen (pad_elems ns) = n) by (unfold pad_elems, ns; rewrite !zlen_map; exact Lvs).
  assert (Ecells : flat_map (fun e => struct_cells (pad0 dn' (sdata e)) (padN pn' (sptrs e))) (pad_elems ns)
                   = flat_map cellsOf (iota (Z.to_nat n))).
  { unfold pad_elems. fold dn' pn'. rewrite flat_map_map. cbn [sdata sptrs].
    rewrite (flat_map_ext_in _ (fun e => struct_cells (pad0 dn' (sdata e)) (padN pn' (sptrs e)))).
    2:{ intros e He. rewrite pad0_id, padN_id; [reflexivity| |].
        - apply padN_length. apply length_le_max_len. exact He.
        - apply pad0_length. apply length_le_max_len. exact He. }
    unfold ns. rewrite flat_map_map. rewrite <- (map_nthv_iota vs) at 1. rewrite flat_map_map.
    replace (length vs) with (Z.to_nat n) by (unfold zlen in *; lia). reflexivity. }
  change (norm (VList LComp vs)) with (VList LComp (pad_elems ns)) in *.
  destruct F as [|F']; [cbn [vdepth] in HFd; lia|].
  assert (HFk : okF F').
  { intros i j Hi0 Hj0. cbn [vdepth] in HFd.
    destruct (Shape i Hi0) as (ws & ps & Ev & Lws & Lps). rewrite Ev. cbn [sptrs].
    set (e' := VStruct (pad0 dn' (strip0 ws)) (padN pn' (stripN (map norm ps)))).
    assert (Hin : In e' (pad_elems ns)).
    { unfold pad_elems. fold dn' pn'. apply in_map_iff. exists (norm (nthv vs i)). split.
      - rewrite Ev. reflexivity.
      - unfold ns. apply in_map. unfold nthv. apply nth_In. unfold zlen in *. lia. }
    pose proof (vdepth_in_fold_max _ _ Hin) as Hd. unfold e' in Hd. cbn [vdepth] in Hd.
    pose proof (LeP i) as L2'. rewrite Ev in L2'. cbn [norm sptrs] in L2'.
    rewrite padN_stripN in Hd by (rewrite map_length; unfold zlen, pn, ap in *; lia).
    assert (Hin2 : In (norm (nthv ps j)) (firstn pn' (map norm ps))).
    { assert (Enj : norm (nthv ps j) = nth (Z.to_nat j) (map norm ps) VNull)
        by (unfold nthv; symmetry; exact (map_nth norm ps VNull (Z.to_nat j))).
      rewrite Enj. rewrite <- (nth_firstn_lt (Z.to_nat j) pn') by (unfold pn in *; lia). apply nth_In.
      rewrite firstn_length, map_length. unfold zlen, pn, ap in *. lia. }
    pose proof (vdepth_in_fold_max _ _ Hin2). lia. }
  specialize (Ec0 F' HFk).
  cbn [enc]. rewrite Lpe. rewrite max_len_pad_elems_d, max_len_pad_elems_p. fold dn' pn' dn pn.
  unfold two29, two16.
  destruct ((n >=? 536870912) || (zlen data / 8 - a / 8 - 1 >=? 536870912)) eqn:E1; [lia|].
  destruct ((dn >=? 65536) || (pn >=? 65536) || (n * (dn + pn) >=? 536870912)) eqn:E2; [unfold total in *; lia|].
  replace (Z.to_nat dn) with dn' by (unfold dn; lia). replace (Z.to_nat pn) with pn' by (unfold pn; lia).
  rewrite Ecells. cbn [enc_cells].
  replace (zlen data / 8 + 1) with ((zlen data + 8) / 8) by lia.
  replace ((zlen data + 8) / 8 + n * (dn + pn)) with (zlen data1 / 8) by (rewrite L1; unfold total; lia).
  rewrite Ec0. cbn [cbind fst snd].
  unfold ptr_word, cl. cbn [p_valid negb p_kind p_comp p_bit p_size PointerCount DataSize p_off p_len].
  replace (8 * dn / 8) with dn by lia. replace ((zlen data + 8 - 8) / 8) with (zlen data / 8) by lia.
  fold tag. reflexivity.
Qed.

End ListC2.
