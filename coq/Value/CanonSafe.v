(* C01 / C02 for the recursive consumer capnp.Canonicalize (model Value/CanonM.v): canonicalising
   an ARBITRARY (hostile) source struct into a fresh message never panics in the repaired
   configuration (cx_complist: as found, F04, the raw copy of a data-only composite list reads
   8 bytes past the list and panics, see canon_complist_refuted), keeps the destination
   well-formed, never touches the source and never increases the source's traversal budget.
   Standing assumptions: [msg_ok] source, [dok] destination, strict reader, pointers handed
   out by the reader ([wf_ptr], [shape_ok]). *)
From CV Require Import Value.CanonM Value.EqualSafe Core.CopySafe Core.LimitProofs
                       Core.BuilderFacts Core.AllocProofs Core.WritePtrProofs Core.HeapProofs.
From Coq Require Import ZifyBool ZifyNat.
Open Scope Z_scope.
Ltac Zify.zify_post_hook ::= Z.div_mod_to_equations.

(* ------------------------------------------------------------------ outcomes *)
(* a pointer created in the destination by canonical_ptr / canonical_list *)
Definition cp_ok (m : bmsg) (cp : Ptr) : Prop :=
  p_valid cp = true -> 0 <= p_seg cp < nsegs m /\ p_member cp = false /\ shape_ok cp /\
                       (p_kind cp = KStruct -> DataSize (p_size cp) mod 8 = 0).

Definition kpostw (w : world) (r : cout world) : Prop :=
  match r with KPanic => False | KOk w' => wgood w w' | _ => True end.
Definition kpostp (w : world) (r : cout (world * Ptr)) : Prop :=
  match r with KPanic => False | KOk (w', cp) => wgood w w' /\ cp_ok (w_dst w') cp | _ => True end.

Lemma cp_ok_grows m m' cp : grows m m' -> cp_ok m cp -> cp_ok m' cp.
Proof. intros [G _] H V. destruct (H V) as (A & B & C & D). split; [lia|]. split; [assumption|]. split; assumption. Qed.
Lemma cp_ok_null m : cp_ok m nullPtr.
Proof. intros X. discriminate X. Qed.

Lemma kpostw_trans a b r : wgood a b -> kpostw b r -> kpostw a r.
Proof. intros H. destruct r; cbn; auto. intros G. eapply wgood_trans; eauto. Qed.
Lemma kpostp_trans a b r : wgood a b -> kpostp b r -> kpostp a r.
Proof. intros H. destruct r as [[w' cp]| | |]; cbn; auto. intros [G C]. split; [eapply wgood_trans; eauto|exact C]. Qed.

Lemma kfold_post {A} (I : A -> Prop) (f : A -> Z -> cout A) : forall l a,
  (forall x b, In x l -> I b -> match f b x with KPanic => False | KOk b' => I b' | _ => True end) -> I a ->
  match kfold l a f with KPanic => False | KOk a' => I a' | _ => True end.
Proof.
  induction l as [|x l IH]; intros a Hf Ha; cbn [kfold]; [exact Ha|].
  pose proof (Hf x a (or_introl eq_refl) Ha) as H. destruct (f a x) as [b| | |]; cbn [kbind]; auto.
  apply IH; auto. intros y c Hy. apply Hf. right. assumption.
Qed.

(* ------------------------------------------------------------------ writePtr without a copy *)
(* Struct.SetPtr / PointerList.Set with an object that already lives in the destination *)
Lemma write_ptr_nocopy_safe f w dsid off cp : dok (w_dst w) -> 0 <= w_src_rl w ->
  region_ok (w_dst w) dsid off 8 -> cp_ok (w_dst w) cp ->
  rpost w (write_ptr (S f) true w dsid off InDst cp false).
Proof.
  intros Hd Hr Hreg Hcp. rewrite write_ptr_S.
  destruct (p_valid cp) eqn:V; cbn [negb]; [|apply lift0_write_safe; assumption].
  destruct (Hcp V) as (Hs & Hm & Hsh & Hal). specialize (Hsh V).
  destruct (p_kind cp) eqn:K.
  - destruct (os_isZero (p_size cp)).
    { destruct (rawStructPointer (-1) (mkOS 0 0)) eqn:E; [|vm_compute in E; discriminate].
      cbn [of_opt_panic bind]. apply lift0_write_safe; assumption. }
    cbn [is_src orb]. rewrite Hm. cbn [bind].
    destruct (rawStructPointer_some 0 (p_size cp) (Hal eq_refl)) as [raw ->]. cbn [of_opt_panic bind].
    apply place_safe; assumption.
  - cbn [is_src orb bind].
    pose proof (list_raw_shape cp V K ltac:(intros _; rewrite K; exact Hsh)) as NR.
    destruct (list_raw cp) as [raw| |]; cbn [bind]; [|exact I|congruence].
    apply place_safe; assumption.
  - cbn [is_src]. apply lift0_write_safe; assumption.
Qed.

(* ------------------------------------------------------------------ canonicalStructSize *)
Lemma css_data_safe m s : msg_ok m -> wf_struct m s -> forall k, Z.of_nat k <= 65535 ->
  res_sat (css_data m s k) (fun d => 0 <= d <= 8 * Z.of_nat k + 8).
Proof.
  intros Hm Hw. induction k as [|k IH]; intros Hk; cbn [css_data].
  - pose proof (struct_uint_safe m s (8 * Z.of_nat 0) 8 Hm Hw ltac:(lia) ltac:(lia)) as H.
    destruct (struct_uint m s (8 * Z.of_nat 0) 8) as [v| |]; cbn [bind]; [|exact I|congruence].
    destruct (negb (v =? 0)); cbn [res_sat]; lia.
  - pose proof (struct_uint_safe m s (8 * Z.of_nat (S k)) 8 Hm Hw ltac:(lia) ltac:(lia)) as H.
    destruct (struct_uint m s (8 * Z.of_nat (S k)) 8) as [v| |]; cbn [bind]; [|exact I|congruence].
    destruct (negb (v =? 0)); [cbn [res_sat]; lia|].
    eapply res_sat_weaken; [apply IH; lia|]. cbv beta. intros a Ha. lia.
Qed.

Lemma css_ptrs_safe fixed strict m s : msg_ok m -> wf_struct m s -> p_valid s = true ->
  forall k, Z.of_nat k <= PointerCount (p_size s) ->
  res_sat (css_ptrs fixed strict m s k) (fun p => 0 <= p <= Z.of_nat k).
Proof.
  intros Hm Hw V. induction k as [|k IH]; intros Hk; cbn [css_ptrs]; [cbn; lia|].
  assert ((if fixed then has_nonnull_ptr strict m s (Z.of_nat k)
           else do v <- readRawPointer (seg_of m s) (pointerAddress s (Z.of_nat k)); Ok (negb (v =? 0))) <> Panic) as H.
  { destruct fixed; [apply has_nonnull_ptr_safe; auto; lia|].
    destruct (wf_struct_inv m s Hw V) as (Hs & Hz & Ho & He). unfold wf_size in Hz.
    rewrite (pointerAddress_spec m s (Z.of_nat k) Hm Hw V ltac:(lia)).
    destruct (readRawPointer_ok (seg_of m s) (p_off s + DataSize (p_size s) + 8 * Z.of_nat k) (seg_of_ok m s Hm)
                ltac:(lia) ltac:(lia)) as [v [-> _]]. discriminate. }
  destruct (if fixed then _ else _) as [h| |]; cbn [bind]; [|exact I|congruence].
  destruct h; [cbn [res_sat]; lia|].
  eapply res_sat_weaken; [apply IH; lia|]. cbv beta. intros a Ha. lia.
Qed.

Definition csz_ok (sz : ObjectSize) : Prop := 0 <= DataSize sz /\ 0 <= PointerCount sz < 65536.

Lemma canonicalStructSize_safe fixed strict m s : msg_ok m -> wf_struct m s ->
  res_sat (canonicalStructSize fixed strict m s) csz_ok.
Proof.
  intros Hm Hw. unfold canonicalStructSize. destruct (p_valid s) eqn:V; cbn [negb]; [|cbn; unfold csz_ok; cbn; lia].
  destruct (wf_struct_inv m s Hw V) as (_ & Hz & _). unfold wf_size in Hz.
  eapply res_sat_bind; [apply (css_data_safe m s Hm Hw); lia|]. intros d Hd.
  eapply res_sat_bind; [apply (css_ptrs_safe fixed strict m s Hm Hw V); lia|]. intros p Hp.
  cbv beta in Hd, Hp. cbn [res_sat]. unfold csz_ok. cbn [DataSize PointerCount]. lia.
Qed.

Lemma elem_size_safe fixed strict fxd m l : msg_ok m -> wf_list m l ->
  forall n i acc, 0 <= i -> i + Z.of_nat n <= list_len l -> csz_ok acc ->
  res_sat (elem_size fixed strict fxd m l n i acc) csz_ok.
Proof.
  intros Hm Hw. induction n as [|n IH]; intros i acc Hi Hn Ha; cbn [elem_size]; [exact Ha|].
  eapply res_sat_bind; [apply (list_struct_safe fxd m l i Hm Hw); lia|]. intros e He.
  eapply res_sat_bind; [apply (canonicalStructSize_safe fixed strict m e Hm He)|]. intros sz Hsz.
  apply IH; try lia. unfold csz_ok in *. cbn [DataSize PointerCount]. lia.
Qed.

(* ------------------------------------------------------------------ constructors in the destination *)
Lemma padded_size sz : csz_ok sz -> os_isValid sz = true ->
  let sz' := mkOS (padToWord (DataSize sz)) (PointerCount sz) in
  wf_size sz' /\ DataSize sz' mod 8 = 0 /\ totalSize sz' = DataSize sz' + 8 * PointerCount sz'.
Proof.
  intros [H1 H2] Hv. unfold os_isValid in Hv. cbv zeta.
  assert (wf_size (mkOS (padToWord (DataSize sz)) (PointerCount sz))) as Hw.
  { unfold wf_size, padToWord, u32. cbn [DataSize PointerCount]. lia. }
  split; [exact Hw|]. split; [|apply totalSize_wf; exact Hw].
  cbn [DataSize]. unfold padToWord, u32. lia.
Qed.

Lemma newStruct_safe m sid sz : dok m -> 0 <= sid < nsegs m -> csz_ok sz ->
  match newStruct m sid sz with
  | Panic => False | Err => True
  | Ok (m', p) => dok m' /\ grows m m' /\ dst_ok m' p /\ cp_ok m' p /\ p_kind p = KStruct /\
                  bm_caps m' = bm_caps m /\ bm_rl m' = bm_rl m
  end.
Proof.
  intros Hd Hs Hc. unfold newStruct. destruct (os_isValid sz) eqn:Hv; cbn [negb]; [|exact I].
  destruct (padded_size sz Hc Hv) as (Hw & H8 & Hts). cbv zeta in Hw, H8, Hts.
  set (sz' := mkOS (padToWord (DataSize sz)) (PointerCount sz)) in *.
  pose proof (alloc_nopanic m sid (totalSize sz')) as NP.
  destruct (alloc m sid (totalSize sz')) as [[[m1 s1] addr]| |] eqn:EA; cbn [bind]; [|exact I|congruence].
  pose proof (totalSize_bound _ Hw) as Hb.
  destruct (alloc_safe m sid (totalSize sz') m1 s1 addr Hd Hs ltac:(lia) EA) as (D1 & G1 & S1 & A0 & A1 & A2 & A3 & _ & C1 & C2).
  split; [exact D1|]. split; [exact G1|]. split.
  { split; [reflexivity|]. split; [exact Hw|]. unfold region_ok. cbn [p_seg p_off p_size]. lia. }
  split; [|split; [reflexivity|split; assumption]].
  intros _. cbn [p_seg p_member]. split; [exact S1|]. split; [reflexivity|]. split; [intros _; exact I|]. intros _. cbn [p_size]. exact H8.
Qed.

Lemma mask_last_length n bs : length (mask_last n bs) = length bs.
Proof.
  unfold mask_last. cbv zeta. destruct (_ =? 0); [reflexivity|].
  destruct (rev bs) as [|l pre] eqn:E.
  - apply (f_equal (@length Z)) in E. rewrite rev_length in E. cbn in *. lia.
  - rewrite app_length, rev_length. apply (f_equal (@length Z)) in E. rewrite rev_length in E. cbn in *. lia.
Qed.

Lemma newPointerList_safe m sid n : dok m -> 0 <= sid < nsegs m ->
  match newPointerList m sid n with
  | Panic => False | Err => True
  | Ok (m', p) => dok m' /\ grows m m' /\ 0 <= n /\ region_ok m' (p_seg p) (p_off p) (8 * n) /\ cp_ok m' p /\
                  p = mkPtr true (p_seg p) (p_off p) n (mkOS 0 1) maxDepth KList false false false /\
                  bm_caps m' = bm_caps m /\ bm_rl m' = bm_rl m
  end.
Proof.
  intros Hd Hs. unfold newPointerList. destruct (times 8 n) as [total|] eqn:Et; [|exact I].
  apply times_spec in Et. destruct Et as [-> Et].
  pose proof (alloc_nopanic m sid (8 * n)) as NP.
  destruct (alloc m sid (8 * n)) as [[[m1 s1] addr]| |] eqn:EA; cbn [bind]; [|exact I|congruence].
  destruct (alloc_safe m sid (8 * n) m1 s1 addr Hd Hs ltac:(lia) EA) as (D1 & G1 & S1 & A0 & A1 & A2 & A3 & _ & C1 & C2).
  cbn [p_seg p_off]. split; [exact D1|]. split; [exact G1|]. split; [lia|]. split; [unfold region_ok; lia|].
  split; [|split; [reflexivity|split; assumption]].
  intros _. cbn [p_seg p_member]. split; [exact S1|]. split; [reflexivity|].
  split; [|cbn [p_kind]; discriminate]. intros _. cbn [p_kind p_comp p_bit p_size]. unfold prim_size. tauto.
Qed.

Lemma newCompositeList_safe m sid sz n : dok m -> 0 <= sid < nsegs m -> csz_ok sz ->
  match newCompositeList m sid sz n with
  | Panic => False | Err => True
  | Ok (m', p) => dok m' /\ grows m m' /\ 0 <= n /\ wf_size (p_size p) /\
                  region_ok m' (p_seg p) (p_off p) (n * totalSize (p_size p)) /\ cp_ok m' p /\
                  p = mkPtr true (p_seg p) (p_off p) n (p_size p) maxDepth KList true false false /\
                  bm_caps m' = bm_caps m /\ bm_rl m' = bm_rl m
  end.
Proof.
  intros Hd Hs Hc. unfold newCompositeList. destruct (os_isValid sz) eqn:Hv; cbn [negb]; [|exact I].
  destruct ((n <? 0) || (n >=? 536870912)) eqn:En; [exact I|].
  destruct (padded_size sz Hc Hv) as (Hw & H8 & Hts). cbv zeta in Hw, H8, Hts.
  set (sz' := mkOS (padToWord (DataSize sz)) (PointerCount sz)) in *.
  destruct (times (totalSize sz') n) as [total|] eqn:Et; [|exact I].
  apply times_spec in Et. destruct Et as [-> Et].
  destruct (totalSize sz' * n >? maxSegmentSize - 8) eqn:Eb; [exact I|]. unfold maxSegmentSize in *.
  rewrite (u32_id (8 + totalSize sz' * n)) by lia.
  pose proof (alloc_nopanic m sid (8 + totalSize sz' * n)) as NP.
  destruct (alloc m sid (8 + totalSize sz' * n)) as [[[m1 s1] addr]| |] eqn:EA; cbn [bind]; [|exact I|congruence].
  destruct (alloc_safe m sid (8 + totalSize sz' * n) m1 s1 addr Hd Hs ltac:(lia) EA)
    as (D1 & G1 & S1 & A0 & A1 & A2 & A3 & _ & C1 & C2).
  destruct (rawStructPointer_some n sz' H8) as [tag ->]. cbn [of_opt_panic bind].
  destruct (writeRaw_safe m1 s1 addr tag D1 ltac:(unfold region_ok; lia)) as (m2 & -> & D2 & N2 & L2 & C3 & C4).
  cbn [bind]. destruct D1 as [I1 Sm1]. pose proof (Sm1 s1) as Sm. unfold maxSegmentSize in Sm.
  unfold addSizeUnchecked. rewrite (u32_id (addr + 8)) by lia. cbn [p_seg p_off p_size].
  split; [exact D2|]. split; [eapply grows_trans; [exact G1|apply same_len_grows; auto]|].
  split; [lia|]. split; [exact Hw|]. split; [unfold region_ok; rewrite N2, (L2 s1) by lia; lia|].
  split; [|split; [reflexivity|split; congruence]].
  intros _. cbn [p_seg p_member]. split; [rewrite N2; exact S1|]. split; [reflexivity|].
  split; [|cbn [p_kind]; discriminate]. intros _. cbn [p_kind p_comp p_bit p_size p_off]. split; [lia|]. split; [exact H8|reflexivity].
Qed.

(* ------------------------------------------------------------------ unfolding equations *)
Lemma fill_canonical_S c fx f w dst s :
  fill_canonical c fx (S f) w dst s =
    kbind (of_res (slice (dst_seg w dst) (p_off dst) (DataSize (p_size dst)))) (fun dd =>
    kbind (of_res (slice (src_seg w s) (p_off s) (DataSize (p_size s)))) (fun sd =>
    let n := Nat.min (length dd) (length sd) in
    kbind (of_res (lift0 w (seg_write (w_dst w) (p_seg dst) (p_off dst) (firstn n sd)))) (fun w1 =>
    kfold (iota (Z.to_nat (PointerCount (p_size dst)))) w1
      (fun wa i =>
         let '(r, rl') := struct_ptr c (w_src wa) (w_src_rl wa) s i in
         let wb := w_set_rl wa InSrc rl' in
         kbind (of_res r) (fun p =>
         kbind (canonical_ptr c fx f wb (p_seg dst) p) (fun wc =>
         let '(w2, cp) := wc in
         of_res (struct_set_ptr 4 w2 dst i InDst cp))))))).
Proof. reflexivity. Qed.

Lemma canonical_ptr_S c fx f w sid p :
  canonical_ptr c fx (S f) w sid p =
    if negb (p_valid p) then KOk (w, nullPtr) else
    match p_kind p with
    | KStruct =>
      kbind (of_res (canonicalStructSize (cx_farnull fx) (cfg_strict c) (w_src w) p)) (fun sz =>
      kbind (of_res (lift w (newStruct (w_dst w) sid sz))) (fun ws =>
      let '(w1, ss) := ws in
      kbind (fill_canonical c fx f w1 ss p) (fun w2 => KOk (w2, ss))))
    | KList => canonical_list c fx f w sid p
    | KIface => KErr
    end.
Proof. reflexivity. Qed.

Lemma canonical_list_S c fx f w sid l :
  canonical_list c fx (S f) w sid l =
    if negb (p_valid l) then KOk (w, nullPtr)
    else if (PointerCount (p_size l) =? 0) && negb (cx_complist fx && p_comp l) then
      let sz := list_allocSize l in
      kbind (of_res (alloc (w_dst w) sid sz)) (fun a =>
      let '(m1, nsid, naddr) := a in
      let cl := mkPtr true nsid naddr (p_len l) (p_size l) maxDepth KList (p_comp l) (p_bit l) false in
      kbind (of_res (slice (src_seg w l) (p_off l) sz)) (fun bs =>
      let bs := if cx_bitpad fx && p_bit l then mask_last (p_len l) bs else bs in
      kbind (of_res (lift0 (w_set_dst w m1) (seg_write m1 nsid naddr bs))) (fun w2 =>
      KOk (w2, cl))))
    else if negb (p_comp l) then
      kbind (of_res (lift w (newPointerList (w_dst w) sid (p_len l)))) (fun wc =>
      let '(w1, cl) := wc in
      kbind (kfold (iota (Z.to_nat (list_len l))) w1
               (fun wa i =>
                  let '(r, rl') := ptrlist_at c (fx_upgrade (cx_rd fx)) (w_src wa) (w_src_rl wa) l i in
                  let wb := w_set_rl wa InSrc rl' in
                  kbind (of_res r) (fun p =>
                  kbind (canonical_ptr c fx f wb sid p) (fun wd =>
                  let '(w2, cp) := wd in
                  of_res (ptrlist_set 4 w2 cl i InDst cp)))))
            (fun w3 => KOk (w3, cl)))
    else
      kbind (of_res (elem_size (cx_farnull fx) (cfg_strict c) (fx_depth (cx_rd fx)) (w_src w) l (Z.to_nat (list_len l)) 0 (mkOS 0 0))) (fun esz =>
      kbind (of_res (lift w (newCompositeList (w_dst w) sid esz (p_len l)))) (fun wc =>
      let '(w1, cl) := wc in
      kbind (kfold (iota (Z.to_nat (list_len cl))) w1
               (fun wa i =>
                  kbind (of_res (list_struct (fx_depth (cx_rd fx)) cl i)) (fun de =>
                  kbind (of_res (list_struct (fx_depth (cx_rd fx)) l i)) (fun se =>
                  fill_canonical c fx f wa de se))))
            (fun w3 => KOk (w3, cl)))).
Proof. reflexivity. Qed.

(* ------------------------------------------------------------------ the three mutually recursive functions *)
Definition P_fill (c : config) (fx : cfix) (f : nat) : Prop := forall w dst s,
  dok (w_dst w) -> msg_ok (w_src w) -> 0 <= w_src_rl w -> dst_ok (w_dst w) dst ->
  wf_struct (w_src w) s -> p_valid s = true ->
  kpostw w (fill_canonical c fx f w dst s).
Definition P_ptr (c : config) (fx : cfix) (f : nat) : Prop := forall w sid p,
  dok (w_dst w) -> msg_ok (w_src w) -> 0 <= w_src_rl w -> 0 <= sid < nsegs (w_dst w) ->
  wf_ptr (w_src w) p -> shape_ok p ->
  kpostp w (canonical_ptr c fx f w sid p).
Definition P_list (c : config) (fx : cfix) (f : nat) : Prop := forall w sid l,
  dok (w_dst w) -> msg_ok (w_src w) -> 0 <= w_src_rl w -> 0 <= sid < nsegs (w_dst w) ->
  wf_list (w_src w) l -> shape_ok l ->
  kpostp w (canonical_list c fx f w sid l).

Lemma wgood_rl w wa rl' : wgood w wa -> 0 <= rl' <= w_src_rl wa -> wgood w (w_set_rl wa InSrc rl').
Proof. intros (D & G & S & R) H. split; [exact D|]. split; [exact G|]. split; [exact S|]. cbn. lia. Qed.

Lemma fill_step c fx f : cfg_strict c = true -> P_ptr c fx f -> P_fill c fx (S f).
Proof.
  intros Hc IH w dst s Hd Hm Hr Hdst Hs V. pose proof Hdst as (Vd & Zd & Rd). rewrite fill_canonical_S.
  unfold dst_seg, src_seg. rewrite nth_bm_data. unfold wf_size in Zd.
  destruct (dst_slice (w_dst w) (p_seg dst) (p_off dst) (DataSize (p_size dst)) Hd
              ltac:(destruct Rd as (R1 & R2 & R3); unfold region_ok; lia) ltac:(lia)) as [-> Ld].
  cbn [of_res kbind].
  destruct (src_data_slice _ s Hm Hs V) as [-> Ls]. cbn [of_res kbind].
  set (sd := sub (seg_of (w_src w) s) (p_off s) (DataSize (p_size s))) in *.
  set (dd := sub (mem (w_dst w) (p_seg dst)) (p_off dst) (DataSize (p_size dst))) in *.
  assert (zlen (firstn (Nat.min (length dd) (length sd)) sd) <= DataSize (p_size dst)) as Lb.
  { unfold zlen in *. rewrite firstn_length. lia. }
  destruct (seg_write_safe (w_dst w) (p_seg dst) (p_off dst) (firstn (Nat.min (length dd) (length sd)) sd) Hd
              ltac:(destruct Rd as (R1 & R2 & R3); unfold region_ok; lia)) as (m1 & -> & D1 & N1 & L1 & _).
  cbn [lift0 bind of_res kbind].
  assert (wgood w (w_set_dst w m1)) as G1 by (apply wgood_set_dst; auto; apply same_len_grows; auto).
  apply (kfold_post (wgood w)); [|exact G1].
  intros i wa Hi Ga. apply in_iota in Hi. pose proof Ga as (Da & Gra & Sa & Ra). rewrite Sa.
  pose proof (struct_ptr_safe c (w_src w) (w_src_rl wa) s i Hm Hs ltac:(lia)) as SS.
  pose proof (struct_ptr_charge c (w_src w) (w_src_rl wa) s i ltac:(lia)) as [SC _].
  pose proof (fun q => readPtr_shape (cfg_strict c) (w_src w) (w_src_rl wa) (p_seg s) (seg_of (w_src w) s)
                         (pointerAddress s i) (p_depth s) q) as SH.
  assert (forall q, fst (struct_ptr c (w_src w) (w_src_rl wa) s i) = Ok q -> shape_ok q) as SH'.
  { intros q. unfold struct_ptr. destruct (_ || _); [cbn [fst]; intros E; inversion E; apply shape_null|apply SH]. }
  destruct (struct_ptr c (w_src w) (w_src_rl wa) s i) as [r rl']. cbn [fst snd] in *.
  destruct r as [p| |]; cbn [of_res kbind res_sat] in *; [|exact I|exact SS].
  pose proof (wgood_rl w wa rl' Ga SC) as Gb.
  pose proof (IH (w_set_rl wa InSrc rl') (p_seg dst) p) as CP. cbn [w_set_rl w_dst w_src w_src_rl] in CP.
  specialize (CP Da ltac:(rewrite Sa; exact Hm) ltac:(lia)
                 ltac:(destruct Rd as (R1 & _); destruct Gra as [Gn _]; lia)
                 ltac:(rewrite Sa; apply SS; exact Hc) (SH' p eq_refl)).
  destruct (canonical_ptr c fx f _ (p_seg dst) p) as [[w2 cp]| | |]; cbn [kbind]; [|exact I|exact CP|exact I].
  destruct CP as [G2 Cp]. pose proof (wgood_trans _ _ _ Gb G2) as Gw2. destruct Gw2 as (D2 & Gr2 & S2 & R2).
  unfold struct_set_ptr. rewrite Vd. cbn [negb orb]. destruct (i >=? PointerCount (p_size dst)) eqn:Ei; [lia|].
  pose proof (write_ptr_nocopy_safe 3 w2 (p_seg dst) (pointerAddress dst i) cp D2 ltac:(lia)
                ltac:(eapply region_grows; [exact Gr2|]; apply dst_ptr_slot; auto; lia) Cp) as WP.
  destruct (write_ptr 4 true w2 (p_seg dst) (pointerAddress dst i) InDst cp false) as [w3| |];
    cbn [of_res rpost] in *; [|exact I|exact WP].
  eapply wgood_trans; [|exact WP]. split; [exact D2|]. split; [exact Gr2|]. split; [exact S2|exact R2].
Qed.

Lemma ptr_step c fx f : P_fill c fx f -> P_list c fx f -> P_ptr c fx (S f).
Proof.
  intros IHf IHl w sid p Hd Hm Hr Hsid Hp Hsh. rewrite canonical_ptr_S.
  destruct (p_valid p) eqn:V; cbn [negb].
  2:{ cbn [kpostp]. split; [apply wgood_refl; assumption|apply cp_ok_null]. }
  destruct (p_kind p) eqn:K; [| |exact I].
  - assert (wf_struct (w_src w) p) as Hs by (split; [assumption|intros _; assumption]).
    pose proof (canonicalStructSize_safe (cx_farnull fx) (cfg_strict c) (w_src w) p Hm Hs) as CS.
    destruct (canonicalStructSize _ _ _ p) as [sz| |]; cbn [of_res kbind res_sat] in *; [|exact I|exact CS].
    pose proof (newStruct_safe (w_dst w) sid sz Hd Hsid CS) as NS.
    destruct (newStruct (w_dst w) sid sz) as [[m1 ss]| |]; cbn [lift bind of_res kbind]; [|exact I|exact NS].
    destruct NS as (D1 & G1 & Do1 & Cp1 & K1 & _).
    assert (wgood w (w_set_dst w m1)) as Gw1 by (apply wgood_set_dst; auto).
    pose proof (IHf (w_set_dst w m1) ss p D1 Hm Hr Do1 Hs V) as FC.
    destruct (fill_canonical c fx f (w_set_dst w m1) ss p) as [w2| | |]; cbn [kbind kpostw kpostp] in *;
      [|exact I|exact FC|exact I].
    split; [eapply wgood_trans; eassumption|]. destruct FC as (_ & G2 & _). cbn [w_dst w_set_dst] in G2.
    eapply cp_ok_grows; eassumption.
  - apply IHl; auto. split; [assumption|intros _; assumption].
Qed.

Lemma list_step c fx f : cfg_strict c = true -> cx_complist fx = true ->
  P_ptr c fx f -> P_fill c fx f -> P_list c fx (S f).
Proof.
  intros Hc Hcl IHp IHf w sid l Hd Hm Hr Hsid Hl Hsh. rewrite canonical_list_S.
  destruct (p_valid l) eqn:V; cbn [negb].
  2:{ cbn [kpostp]. split; [apply wgood_refl; assumption|apply cp_ok_null]. }
  destruct (wf_list_inv _ l Hl V) as (Hsg & Ho & Hln & Hr'). pose proof (proj2 Hl V) as K.
  pose proof (Hsh V) as Hsh'. rewrite K in Hsh'.
  destruct (seg_of_ok (w_src w) l Hm) as [Hsl _]. unfold maxSegmentSize in Hsl.
  rewrite Hcl. cbn [andb].
  destruct ((PointerCount (p_size l) =? 0) && negb (p_comp l)) eqn:Edata.
  - (* data only (not composite) *)
    assert (p_comp l = false) as C by (destruct (p_comp l); [rewrite Bool.andb_false_r in Edata; discriminate|reflexivity]).
    cbv zeta. unfold src_seg.
    set (content := if p_bit l then (p_len l + 7) / 8 else p_len l * totalSize (p_size l)).
    assert (0 <= content /\ p_off l + content <= zlen (seg_of (w_src w) l)) as [Hc0 Hc1].
    { unfold content. destruct (p_bit l); [lia|]. destruct Hr' as [Hz Hr']. pose proof (totalSize_bound _ Hz). split; [nia|lia]. }
    assert (list_allocSize l = content) as Hsz.
    { unfold list_allocSize, content. rewrite V, C. cbn [negb]. destruct (p_bit l) eqn:B; [apply bitListSize_spec; lia|].
      destruct Hr' as [Hz Hr']. pose proof (totalSize_bound _ Hz).
      rewrite times_some by (unfold maxSegmentSize; nia). lia. }
    rewrite Hsz.
    pose proof (alloc_nopanic (w_dst w) sid content) as NP.
    destruct (alloc (w_dst w) sid content) as [[[m1 nsid] naddr]| |] eqn:EA; cbn [of_res kbind]; [|exact I|congruence].
    destruct (alloc_safe (w_dst w) sid content m1 nsid naddr Hd Hsid Hc0 EA) as (D1 & G1 & S1 & A0 & A1 & A2 & A3 & _).
    rewrite slice_ok by lia. cbn [of_res kbind].
    set (bs := if cx_bitpad fx && p_bit l then mask_last (p_len l) (sub (seg_of (w_src w) l) (p_off l) content)
               else sub (seg_of (w_src w) l) (p_off l) content).
    assert (zlen bs = content) as Lb.
    { unfold bs. destruct (cx_bitpad fx && p_bit l); [unfold zlen; rewrite mask_last_length|];
        apply sub_length; lia. }
    destruct (seg_write_safe m1 nsid naddr bs D1 ltac:(unfold region_ok; lia)) as (m2 & -> & D2 & N2 & L2 & _).
    cbn [lift0 bind of_res kbind kpostp w_set_dst w_dst].
    split.
    + change (wgood w (w_set_dst w m2)). apply wgood_set_dst; auto. eapply grows_trans; [exact G1|apply same_len_grows; auto].
    + intros _. cbn [p_seg p_member]. split; [rewrite N2; exact S1|]. split; [reflexivity|].
      split; [|cbn [p_kind]; discriminate]. intros _. cbn [p_kind p_comp p_bit p_size]. rewrite C in *. exact Hsh'.
  - destruct (p_comp l) eqn:C; cbn [negb].
    + (* struct list *)
      assert (p_bit l = false) as B by (destruct Hsh' as (_ & _ & X); exact X).
      rewrite B in Hr'. destruct Hr' as [Hz Hr'].
      pose proof (elem_size_safe (cx_farnull fx) (cfg_strict c) (fx_depth (cx_rd fx)) (w_src w) l Hm Hl
                    (Z.to_nat (list_len l)) 0 (mkOS 0 0) ltac:(lia)
                    ltac:(unfold list_len; rewrite V; lia) ltac:(unfold csz_ok; cbn; lia)) as ES.
      destruct (elem_size _ _ _ _ l _ 0 _) as [esz| |]; cbn [of_res kbind res_sat] in *; [|exact I|exact ES].
      pose proof (newCompositeList_safe (w_dst w) sid esz (p_len l) Hd Hsid ES) as NC.
      destruct (newCompositeList (w_dst w) sid esz (p_len l)) as [[m1 cl]| |]; cbn [lift bind of_res kbind];
        [|exact I|exact NC].
      destruct NC as (D1 & G1 & Hn0 & Hwc & Rc & Cp1 & Ecl & _).
      assert (wgood w (w_set_dst w m1)) as Gw1 by (apply wgood_set_dst; auto).
      assert (list_len cl = p_len l) as Lcl by (rewrite Ecl; reflexivity).
      rewrite Lcl.
      pose proof (kfold_post (wgood (w_set_dst w m1))
        (fun wa i => kbind (of_res (list_struct (fx_depth (cx_rd fx)) cl i)) (fun de =>
                     kbind (of_res (list_struct (fx_depth (cx_rd fx)) l i)) (fun se => fill_canonical c fx f wa de se)))
        (iota (Z.to_nat (p_len l))) (w_set_dst w m1)) as KF.
      match type of KF with ?A -> ?B -> ?C => assert A as HA end.
      { intros i wa Hi Ga. apply in_iota in Hi. pose proof Ga as (Da & Gra & Sa & Ra).
        pose proof (totalSize_bound _ Hwc) as Htc. pose proof (totalSize_wf _ Hwc) as Etc.
        assert (i * totalSize (p_size cl) + totalSize (p_size cl) <= p_len l * totalSize (p_size cl)) as Hie by nia.
        assert (0 <= i * totalSize (p_size cl)) as Hi0 by nia.
        destruct D1 as [I1 Sm1]. pose proof (Sm1 (p_seg cl)) as Smn. destruct Rc as (Rc1 & Rc2 & Rc3).
        assert (list_struct (fx_depth (cx_rd fx)) cl i =
                Ok (mkPtr true (p_seg cl) (p_off cl + i * totalSize (p_size cl)) 0 (p_size cl)
                          (if fx_depth (cx_rd fx) && (p_depth cl =? 0) then 0 else uint_dec (p_depth cl))
                          KStruct false false true)) as ->.
        { rewrite Ecl at 1. unfold list_struct. cbn [p_valid p_len p_bit p_off p_size p_seg p_depth negb orb].
          destruct (i <? 0) eqn:E1; [lia|]. destruct (i >=? p_len l) eqn:E2; [lia|]. cbn [orb].
          destruct (element _ _ _) eqn:E; [apply element_spec in E; destruct E as [-> _]|apply element_none in E; lia].
          rewrite Ecl. reflexivity. }
        cbn [of_res kbind].
        pose proof (list_struct_safe (fx_depth (cx_rd fx)) (w_src w) l i Hm Hl ltac:(unfold list_len; rewrite V; lia)) as Hse.
        assert (forall se, list_struct (fx_depth (cx_rd fx)) l i = Ok se -> p_valid se = true) as Vse.
        { intros se. unfold list_struct. rewrite V, B. cbn [negb orb].
          destruct (_ || _); [discriminate|]. destruct (element _ _ _) eqn:E.
          - intros H; inversion H; reflexivity.
          - exfalso. apply element_none in E. pose proof (totalSize_bound _ Hz).
            assert (i * totalSize (p_size l) + totalSize (p_size l) <= p_len l * totalSize (p_size l)) by nia.
            assert (0 <= i * totalSize (p_size l)) by nia. unfold maxSegmentSize in E. lia. }
        destruct (list_struct (fx_depth (cx_rd fx)) l i) as [se| |]; cbn [of_res kbind res_sat] in *; [|exact I|exact Hse].
        eapply kpostw_trans; [exact Ga|].
        apply IHf; auto; try lia.
        - rewrite Sa. exact Hm.
        - split; [reflexivity|]. split; [exact Hwc|]. cbn [p_seg p_off p_size].
          eapply region_grows; [exact Gra|]. cbn [w_dst w_set_dst]. unfold region_ok. rewrite <- Etc. lia.
        - rewrite Sa. exact Hse. }
      specialize (KF HA (wgood_refl (w_set_dst w m1) D1 Hr)). clear HA.
      destruct (kfold _ _ _) as [w3| | |]; cbn [kbind kpostp]; [|exact I|exact KF|exact I].
      split; [eapply wgood_trans; eassumption|]. destruct KF as (_ & G3 & _). cbn [w_dst w_set_dst] in G3.
      eapply cp_ok_grows; eassumption.
    + (* pointer list *)
      pose proof (newPointerList_safe (w_dst w) sid (p_len l) Hd Hsid) as NP.
      destruct (newPointerList (w_dst w) sid (p_len l)) as [[m1 cl]| |]; cbn [lift bind of_res kbind];
        [|exact I|exact NP].
      destruct NP as (D1 & G1 & Hn0 & Rc & Cp1 & Ecl & _).
      assert (wgood w (w_set_dst w m1)) as Gw1 by (apply wgood_set_dst; auto).
      pose proof (kfold_post (wgood (w_set_dst w m1))
        (fun wa i =>
           let '(r, rl') := ptrlist_at c (fx_upgrade (cx_rd fx)) (w_src wa) (w_src_rl wa) l i in
           let wb := w_set_rl wa InSrc rl' in
           kbind (of_res r) (fun p => kbind (canonical_ptr c fx f wb sid p) (fun wd =>
           let '(w2, cp) := wd in of_res (ptrlist_set 4 w2 cl i InDst cp))))
        (iota (Z.to_nat (list_len l))) (w_set_dst w m1)) as KF.
      match type of KF with ?A -> ?B -> ?C => assert A as HA end.
      { intros i wa Hi Ga. apply in_iota in Hi. pose proof Ga as (Da & Gra & Sa & Ra).
        cbn [w_set_dst w_src w_src_rl] in Sa, Ra. rewrite Sa. cbv zeta.
        assert (0 <= i < p_len l) as Hi' by (unfold list_len in Hi; rewrite V in Hi; lia).
        pose proof (ptrlist_at_safe c (fx_upgrade (cx_rd fx)) (w_src w) (w_src_rl wa) l i Hm Hl
                      ltac:(unfold list_len; rewrite V; lia)) as PS.
        pose proof (ptrlist_at_charge c (fx_upgrade (cx_rd fx)) (w_src w) (w_src_rl wa) l i ltac:(lia)) as [PC _].
        assert (forall q, fst (ptrlist_at c (fx_upgrade (cx_rd fx)) (w_src w) (w_src_rl wa) l i) = Ok q -> shape_ok q) as SH.
        { intros q. unfold ptrlist_at. destruct (primitiveElem _ _ _ _); try discriminate. apply readPtr_shape. }
        destruct (ptrlist_at c (fx_upgrade (cx_rd fx)) (w_src w) (w_src_rl wa) l i) as [r rl']. cbn [fst snd] in *.
        destruct r as [p| |]; cbn [of_res kbind res_sat] in *; [|exact I|exact PS].
        pose proof (wgood_rl _ wa rl' Ga PC) as Gb.
        pose proof (IHp (w_set_rl wa InSrc rl') sid p) as CP. cbn [w_set_rl w_dst w_src w_src_rl] in CP.
        specialize (CP Da ltac:(rewrite Sa; exact Hm) ltac:(lia)
                       ltac:(destruct Gra as [Gn _]; destruct G1 as [Gn1 _]; cbn [w_dst w_set_dst] in Gn; lia)
                       ltac:(rewrite Sa; apply PS; exact Hc) (SH p eq_refl)).
        destruct (canonical_ptr c fx f _ sid p) as [[w2 cp]| | |]; cbn [kbind]; [|exact I|exact CP|exact I].
        destruct CP as [G2 Cp]. pose proof (wgood_trans _ _ _ Gb G2) as Gw2. destruct Gw2 as (D2 & Gr2 & S2 & R2).
        unfold ptrlist_set.
        assert (primitiveElem true cl i (mkOS 0 1) = Ok (p_off cl + i * 8)) as ->.
        { rewrite Ecl at 1. unfold primitiveElem.
          cbn [p_valid p_len p_bit p_comp p_size p_off negb orb andb DataSize PointerCount].
          destruct (i <? 0) eqn:E1; [lia|]. destruct (i >=? p_len l) eqn:E2; [lia|]. cbn [orb].
          change (os_eqb (mkOS 0 1) (mkOS 0 1)) with true. cbn [negb orb andb].
          change (totalSize (mkOS 0 1)) with 8.
          destruct D1 as [I1 Sm1]. pose proof (Sm1 (p_seg cl)) as Smn. destruct Rc as (Rc1 & Rc2 & Rc3).
          destruct (element _ _ _) eqn:E; [apply element_spec in E; destruct E as [-> _]|apply element_none in E; lia].
          try rewrite Bool.andb_false_r. cbn [andb]. reflexivity. }
        cbn [bind].
        pose proof (write_ptr_nocopy_safe 3 w2 (p_seg cl) (p_off cl + i * 8) cp D2 ltac:(lia)
                      ltac:(eapply region_grows; [exact Gr2|]; cbn [w_dst w_set_dst];
                            destruct Rc as (Rc1 & Rc2 & Rc3); unfold region_ok; lia) Cp) as WP.
        destruct (write_ptr 4 true w2 (p_seg cl) (p_off cl + i * 8) InDst cp false) as [w3| |];
          cbn [of_res rpost] in *; [|exact I|exact WP].
        eapply wgood_trans; [|exact WP]. split; [exact D2|]. split; [exact Gr2|]. split; [exact S2|exact R2]. }
      specialize (KF HA (wgood_refl (w_set_dst w m1) D1 Hr)). clear HA.
      destruct (kfold _ _ _) as [w3| | |]; cbn [kbind kpostp]; [|exact I|exact KF|exact I].
      split; [eapply wgood_trans; eassumption|]. destruct KF as (_ & G3 & _). cbn [w_dst w_set_dst] in G3.
      eapply cp_ok_grows; eassumption.
Qed.

Theorem canon_all c fx : cfg_strict c = true -> cx_complist fx = true ->
  forall f, P_fill c fx f /\ P_ptr c fx f /\ P_list c fx f.
Proof.
  intros Hc Hcl. induction f as [|f (IHf & IHp & IHl)].
  - split; [|split]; intros ?; intros; exact I.
  - split; [apply fill_step; assumption|]. split; [apply ptr_step; assumption|apply list_step; assumption].
Qed.

Lemma set_root_safe w root : dok (w_dst w) -> 0 <= w_src_rl w -> cp_ok (w_dst w) root ->
  rpost w (set_root 4 w InDst root).
Proof.
  intros Hd Hr Hcp. unfold set_root, set_root_gen. cbv zeta.
  destruct (bm_segs (w_dst w)) as [|s0 rest] eqn:Es; [exact I|].
  destruct (regionInBounds (bs_data s0) 0 8) eqn:Er; cbn [negb]; [|exact I].
  apply regionInBounds_spec in Er.
  apply write_ptr_nocopy_safe; auto. unfold region_ok, nsegs, mem, get_seg. rewrite Es.
  cbn [nth Z.to_nat]. unfold zlen at 1. cbn [length]. split; [lia|]. split; [lia|]. change (Z.to_nat 0) with 0%nat. cbn [nth]. lia.
Qed.

Lemma new_single_dok : exists m0, new_message ASingle [] 0 = Ok m0 /\ dok m0 /\ nsegs m0 = 1.
Proof.
  eexists. split; [vm_compute; reflexivity|]. split; [|reflexivity].
  split; [split|].
  - repeat constructor; cbn; lia.
  - intros _. reflexivity.
  - intros i. unfold mem, get_seg. cbn. destruct (Z.to_nat i) as [|[|n]]; cbn; unfold maxSegmentSize; lia.
Qed.

(* canon_m_safe, part 1: Canonicalize on an arbitrary source struct never panics (repaired
   configuration), and the source's traversal budget only goes down and stays >= 0.  Any fuel. *)
Theorem canonicalize_safe c fx fuel src rl s :
  cfg_strict c = true -> cx_complist fx = true -> msg_ok src -> wf_struct src s -> 0 <= rl ->
  fst (canonicalize c fx fuel src rl s) <> KPanic /\ 0 <= snd (canonicalize c fx fuel src rl s) <= rl.
Proof.
  intros Hc Hcl Hm Hs Hr. unfold canonicalize.
  destruct new_single_dok as (m0 & -> & D0 & N0).
  destruct (p_valid s) eqn:V; cbn [negb]; [|cbn; split; [discriminate|lia]].
  set (w0 := mkW m0 src rl).
  pose proof (canonicalStructSize_safe (cx_farnull fx) (cfg_strict c) src s Hm Hs) as CS.
  destruct (canonicalStructSize _ _ src s) as [sz| |]; cbn [of_res kbind res_sat] in *;
    [|cbn; split; [discriminate|lia]|destruct CS].
  pose proof (newStruct_safe m0 0 sz D0 ltac:(lia) CS) as NS.
  destruct (newStruct m0 0 sz) as [[m1 root]| |]; cbn [lift bind of_res kbind];
    [|cbn; split; [discriminate|lia]|destruct NS].
  destruct NS as (D1 & G1 & Do1 & Cp1 & K1 & _).
  pose proof (set_root_safe (w_set_dst w0 m1) root D1 Hr Cp1) as R1.
  destruct (set_root 4 (w_set_dst w0 m1) InDst root) as [w2| |]; cbn [of_res kbind rpost] in *;
    [|cbn; split; [discriminate|lia]|destruct R1].
  destruct R1 as (D2 & G2 & S2 & Rl2). cbn [w_dst w_set_dst w_src w_src_rl w0] in *.
  pose proof (set_root_safe w2 root D2 ltac:(lia) (cp_ok_grows _ _ _ G2 Cp1)) as R2.
  destruct (set_root 4 w2 InDst root) as [w3| |]; cbn [of_res kbind rpost] in *;
    [|cbn; split; [discriminate|lia]|destruct R2].
  destruct R2 as (D3 & G3 & S3 & Rl3).
  destruct (canon_all c fx Hc Hcl fuel) as (PF & _ & _).
  pose proof (PF w3 root s D3 ltac:(rewrite S3, S2; exact Hm) ltac:(lia)
                ltac:(destruct Do1 as (A & B & C0); split; [exact A|split; [exact B|]];
                      eapply region_grows; [exact G3|]; eapply region_grows; [exact G2|exact C0])
                ltac:(rewrite S3, S2; exact Hs) V) as FC.
  destruct (fill_canonical c fx fuel w3 root s) as [w4| | |]; cbn [kpostw fst snd] in *;
    try (split; [discriminate|lia]); [|destruct FC].
  destruct FC as (_ & _ & _ & Rl4). split; [discriminate|lia].
Qed.

(* F04 as found (cx_complist = false): a data-only composite list at the end of its segment;
   the raw copy reads allocSize = content + 8 bytes from AFTER the tag word and panics *)
Definition complist_msg : segs :=
  [[0;0;0;0;0;0;1;0;  1;0;0;0;15;0;0;0;  4;0;0;0;1;0;0;0;  7;0;0;0;0;0;0;0]].
Example canon_complist_refuted :
  let c := mkCfg 0 0 true true in
  msg_ok complist_msg /\
  run_canon 10 c (mkCFix false true true (mkFix true true true)) complist_msg SelRoot = KPanic /\
  exists bs, run_canon 10 c (mkCFix true true true (mkFix true true true)) complist_msg SelRoot = KOk bs.
Proof.
  split; [repeat constructor; cbn; try lia; unfold maxSegmentSize; lia|].
  split; [vm_compute; reflexivity|]. eexists. vm_compute. reflexivity.
Qed.

(* ------------------------------------------------------------------ fuel *)
(* fill -> ptr -> fill/list costs two units per pointer level: fill_canonical from a struct
   with depth budget d needs 2d + 3 (2 when d = 0), canonical_ptr 2d + 4 (1 for a null
   pointer), canonical_list 2d + 3. *)
Definition ffuel (s : Ptr) (f : nat) : Prop :=
  0 <= p_depth s /\ (2 * p_depth s + 3 <= Z.of_nat f \/ (p_depth s = 0 /\ (2 <= f)%nat)).
Definition pfuel (p : Ptr) (f : nat) : Prop :=
  (1 <= f)%nat /\ (p_valid p = true -> 0 <= p_depth p /\ 2 * p_depth p + 4 <= Z.of_nat f).
Definition lfuel (l : Ptr) (f : nat) : Prop :=
  (1 <= f)%nat /\ (p_valid l = true -> 0 <= p_depth l /\ 2 * p_depth l + 3 <= Z.of_nat f).

Lemma kbind_nofuel {A B} (r : cout A) (k : A -> cout B) :
  r <> KFuel -> (forall a, r = KOk a -> k a <> KFuel) -> kbind r k <> KFuel.
Proof. destruct r; cbn; intros H1 H2; try discriminate; [apply H2; reflexivity|congruence]. Qed.
Lemma of_res_nofuel {A} (r : res A) : of_res r <> KFuel.
Proof. destruct r; discriminate. Qed.
Lemma kfold_nofuel {A} (f : A -> Z -> cout A) : forall l a,
  (forall x b, In x l -> f b x <> KFuel) -> kfold l a f <> KFuel.
Proof.
  induction l as [|x l IH]; intros a H; cbn [kfold]; [discriminate|].
  apply kbind_nofuel; [apply H; left; reflexivity|]. intros b _. apply IH. intros y c Hy. apply H. right. assumption.
Qed.

Definition NF_fill c fx f := forall w dst s, ffuel s f -> fill_canonical c fx f w dst s <> KFuel.
Definition NF_ptr c fx f := forall w sid p, pfuel p f -> canonical_ptr c fx f w sid p <> KFuel.
Definition NF_list c fx f := forall w sid l, lfuel l f -> canonical_list c fx f w sid l <> KFuel.

Lemma nf_fill_step c fx f : NF_ptr c fx f -> NF_fill c fx (S f).
Proof.
  intros IH w dst s [Hd Hf]. rewrite fill_canonical_S.
  apply kbind_nofuel; [apply of_res_nofuel|]. intros dd _.
  apply kbind_nofuel; [apply of_res_nofuel|]. intros sd _. cbv zeta.
  apply kbind_nofuel; [apply of_res_nofuel|]. intros w1 _.
  apply kfold_nofuel. intros i wa _.
  destruct (struct_ptr c (w_src wa) (w_src_rl wa) s i) as [r rl'] eqn:E. cbv zeta.
  apply kbind_nofuel; [apply of_res_nofuel|]. intros p Ep. destruct r as [p'| |]; try discriminate.
  inversion Ep; subst p'.
  apply kbind_nofuel.
  - apply IH. split; [lia|]. intros Vp.
    pose proof (struct_ptr_depth c (w_src wa) (w_src_rl wa) s i p Hd) as H. rewrite E in H.
    specialize (H eq_refl Vp). lia.
  - intros [w2 cp] _. apply of_res_nofuel.
Qed.

Lemma nf_ptr_step c fx f : NF_fill c fx f -> NF_list c fx f -> NF_ptr c fx (S f).
Proof.
  intros IHf IHl w sid p [H1 Hp]. rewrite canonical_ptr_S.
  destruct (p_valid p) eqn:V; cbn [negb]; [|discriminate]. destruct (Hp eq_refl) as [Hd Hf].
  destruct (p_kind p); [| |discriminate].
  - apply kbind_nofuel; [apply of_res_nofuel|]. intros sz _.
    apply kbind_nofuel; [apply of_res_nofuel|]. intros [w1 ss] _.
    apply kbind_nofuel; [|intros; discriminate]. apply IHf. split; [lia|]. left. lia.
  - apply IHl. split; [lia|]. intros _. split; [lia|]. lia.
Qed.

Lemma nf_list_step c fx f : fx_depth (cx_rd fx) = true ->
  NF_ptr c fx f -> NF_fill c fx f -> NF_list c fx (S f).
Proof.
  intros Hfd IHp IHf w sid l [H1 Hl]. rewrite canonical_list_S.
  destruct (p_valid l) eqn:V; cbn [negb]; [|discriminate]. destruct (Hl eq_refl) as [Hd Hf].
  destruct (_ && _).
  { cbv zeta. apply kbind_nofuel; [apply of_res_nofuel|]. intros [[m1 nsid] naddr] _.
    apply kbind_nofuel; [apply of_res_nofuel|]. intros bs _.
    apply kbind_nofuel; [apply of_res_nofuel|]. intros; discriminate. }
  destruct (negb (p_comp l)).
  - apply kbind_nofuel; [apply of_res_nofuel|]. intros [w1 cl] _.
    apply kbind_nofuel; [|intros; discriminate].
    apply kfold_nofuel. intros i wa _.
    destruct (ptrlist_at c (fx_upgrade (cx_rd fx)) (w_src wa) (w_src_rl wa) l i) as [r rl'] eqn:E. cbv zeta.
    apply kbind_nofuel; [apply of_res_nofuel|]. intros q Eq. destruct r as [q'| |]; try discriminate.
    inversion Eq; subst q'.
    apply kbind_nofuel.
    + apply IHp. split; [lia|]. intros Vq.
      pose proof (ptrlist_at_depth c (fx_upgrade (cx_rd fx)) (w_src wa) (w_src_rl wa) l i q Hd) as H. rewrite E in H.
      specialize (H eq_refl Vq). lia.
    + intros [w2 cp] _. apply of_res_nofuel.
  - apply kbind_nofuel; [apply of_res_nofuel|]. intros esz _.
    apply kbind_nofuel; [apply of_res_nofuel|]. intros [w1 cl] _.
    apply kbind_nofuel; [|intros; discriminate].
    apply kfold_nofuel. intros i wa _.
    apply kbind_nofuel; [apply of_res_nofuel|]. intros de _.
    apply kbind_nofuel; [apply of_res_nofuel|]. intros se Ese. rewrite Hfd in Ese.
    destruct (list_struct true l i) as [se'| |] eqn:E; try discriminate. inversion Ese; subst se'.
    apply IHf. destruct (p_valid se) eqn:Vse.
    + destruct (list_struct_depth' l i se Hd E Vse) as (_ & N & Hq). split; [exact N|].
      destruct Hq as [Hq|[Hq1 Hq2]]; [left; lia|right; split; [exact Hq2|lia]].
    + assert (p_depth se = 0) as D0.
      { unfold list_struct in E. destruct (_ || _ || _); [discriminate|].
        destruct (p_bit l); [inversion E; reflexivity|].
        destruct (element _ _ _); inversion E; subst se; [discriminate Vse|reflexivity]. }
      split; [lia|]. right. split; [exact D0|lia].
Qed.

Theorem canon_nofuel_all c fx : fx_depth (cx_rd fx) = true ->
  forall f, NF_fill c fx f /\ NF_ptr c fx f /\ NF_list c fx f.
Proof.
  intros Hfd. induction f as [|f (IHf & IHp & IHl)].
  - split; [|split].
    + intros w dst s [Hd [H|[_ H]]]; lia.
    + intros w sid p [H _]. lia.
    + intros w sid l [H _]. lia.
  - split; [apply nf_fill_step; assumption|]. split; [apply nf_ptr_step; assumption|apply nf_list_step; assumption].
Qed.

(* canon_m_safe, part 2: for a source struct read under depth limit D (depth budget <= D - 1)
   fuel 2D + 1 excludes the out-of-fuel outcome *)
Theorem canonicalize_nofuel c fx fuel src rl s D :
  fx_depth (cx_rd fx) = true -> 0 <= p_depth s <= D - 1 -> 2 * D + 1 <= Z.of_nat fuel ->
  fst (canonicalize c fx fuel src rl s) <> KFuel.
Proof.
  intros Hfd Hd Hf. unfold canonicalize.
  destruct (new_message ASingle [] 0) as [m0| |]; try discriminate.
  destruct (negb (p_valid s)); [discriminate|].
  match goal with |- fst (match ?r with _ => _ end) <> _ => assert (r <> KFuel) as H; [|destruct r; cbn; congruence] end.
  apply kbind_nofuel; [apply of_res_nofuel|]. intros sz _.
  apply kbind_nofuel; [apply of_res_nofuel|]. intros [w1 root] _.
  apply kbind_nofuel; [apply of_res_nofuel|]. intros w2 _.
  apply kbind_nofuel; [apply of_res_nofuel|]. intros w3 _.
  destruct (canon_nofuel_all c fx Hfd fuel) as (NF & _ & _). apply NF. split; [lia|]. left. lia.
Qed.

(* The allocation bounds (bytes appended to the destination vs traversal budget consumed) are in
   Value/CanonAlloc.v (canon_alloc_all, canonicalize_alloc) and Core/CopyAlloc.v
   (copy_alloc_all, write_ptr_alloc, copy_struct_alloc). *)
