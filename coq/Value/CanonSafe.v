(* C01 / C02 for the recursive consumer capnp.Canonicalize (model Value/CanonM.v): canonicalising
   an ARBITRARY (hostile) source struct into a fresh message never panics in the repaired
   configuration (cx_complist: as found, F04, the raw copy of a data-only composite list reads
   8 bytes past the list and panics, see canon_complist_refuted), keeps the destination
   well-formed, never touches the source and never increases the source's traversal budget.
   Standing assumptions: [msg_ok] source, [dok] destination, strict reader, pointers handed
   out by the reader ([wf_ptr], [shape_ok]). *)
From CV Require Import Value.CanonM Value.EqualSafe Core.CopySafe Core.LimitProofs
                       Core.BuilderFacts Core.AllocProofs Core.WritePtrProofs Core.HeapProofs.
From Coq Require Import ZifyBool ZifyNat.
Open Scope Z_scope.
Ltac Zify.zify_post_hook ::= Z.div_mod_to_equations.

(* ------------------------------------------------------------------ outcomes *)
(* a pointer created in the destination by canonical_ptr / canonical_list *)
Definition cp_ok (m : bmsg) (cp : Ptr) : Prop :=
  p_valid cp = true -> 0 <= p_seg cp < nsegs m /\ p_member cp = false /\ shape_ok cp.

Definition kpostw (w : world) (r : cout world) : Prop :=
  match r with KPanic => False | KOk w' => wgood w w' | _ => True end.
Definition kpostp (w : world) (r : cout (world * Ptr)) : Prop :=
  match r with KPanic => False | KOk (w', cp) => wgood w w' /\ cp_ok (w_dst w') cp | _ => True end.

Lemma cp_ok_grows m m' cp : grows m m' -> cp_ok m cp -> cp_ok m' cp.
Proof. intros [G _] H V. destruct (H V) as (A & B & C). split; [lia|]. split; assumption. Qed.
Lemma cp_ok_null m : cp_ok m nullPtr.
Proof. intros X. discriminate X. Qed.

Lemma kpostw_trans a b r : wgood a b -> kpostw b r -> kpostw a r.
Proof. intros H. destruct r; cbn; auto. intros G. eapply wgood_trans; eauto. Qed.
Lemma kpostp_trans a b r : wgood a b -> kpostp b r -> kpostp a r.
Proof. intros H. destruct r as [[w' cp]| | |]; cbn; auto. intros [G C]. split; [eapply wgood_trans; eauto|exact C]. Qed.

Lemma kfold_post {A} (I : A -> Prop) (f : A -> Z -> cout A) : forall l a,
  (forall x b, In x l -> I b -> match f b x with KPanic => False | KOk b' => I b' | _ => True end) -> I a ->
  match kfold l a f with KPanic => False | KOk a' => I a' | _ => True end.
Proof.
  induction l as [|x l IH]; intros a Hf Ha; cbn [kfold]; [exact Ha|].
  pose proof (Hf x a (or_introl eq_refl) Ha) as H. destruct (f a x) as [b| | |]; cbn [kbind]; auto.
  apply IH; auto. intros y c Hy. apply Hf. right. assumption.
Qed.

(* ------------------------------------------------------------------ writePtr without a copy *)
(* Struct.SetPtr / PointerList.Set with an object that already lives in the destination *)
Lemma write_ptr_nocopy_safe f w dsid off cp : dok (w_dst w) -> 0 <= w_src_rl w ->
  region_ok (w_dst w) dsid off 8 -> cp_ok (w_dst w) cp ->
  rpost w (write_ptr (S f) true w dsid off InDst cp false).
Proof.
  intros Hd Hr Hreg Hcp. cbn [write_ptr].
  destruct (p_valid cp) eqn:V; cbn [negb]; [|apply lift0_write_safe; assumption].
  destruct (Hcp V) as (Hs & Hm & Hsh). specialize (Hsh V).
  destruct (p_kind cp) eqn:K.
  - destruct (os_isZero (p_size cp)).
    { destruct (rawStructPointer (-1) (mkOS 0 0)) eqn:E; [|vm_compute in E; discriminate].
      cbn [of_opt_panic bind]. apply lift0_write_safe; assumption. }
    cbn [is_src orb]. rewrite Hm. cbn [bind].
    destruct (rawStructPointer_some 0 (p_size cp) Hsh) as [raw ->]. cbn [of_opt_panic bind].
    apply place_safe; assumption.
  - cbn [is_src orb bind].
    pose proof (list_raw_shape cp V K ltac:(intros _; rewrite K; exact Hsh)) as NR.
    destruct (list_raw cp) as [raw| |]; cbn [bind]; [|exact I|congruence].
    apply place_safe; assumption.
  - cbn [is_src]. apply lift0_write_safe; assumption.
Qed.

(* ------------------------------------------------------------------ canonicalStructSize *)
Lemma css_data_safe m s : msg_ok m -> wf_struct m s -> forall k, Z.of_nat k <= 65535 ->
  res_sat (css_data m s k) (fun d => 0 <= d <= 8 * Z.of_nat k + 8).
Proof.
  intros Hm Hw. induction k as [|k IH]; intros Hk; cbn [css_data].
  - pose proof (struct_uint_safe m s (8 * Z.of_nat 0) 8 Hm Hw ltac:(lia) ltac:(lia)) as H.
    destruct (struct_uint m s (8 * Z.of_nat 0) 8) as [v| |]; cbn [bind]; [|exact I|congruence].
    destruct (negb (v =? 0)); cbn [res_sat]; lia.
  - pose proof (struct_uint_safe m s (8 * Z.of_nat (S k)) 8 Hm Hw ltac:(lia) ltac:(lia)) as H.
    destruct (struct_uint m s (8 * Z.of_nat (S k)) 8) as [v| |]; cbn [bind]; [|exact I|congruence].
    destruct (negb (v =? 0)); [cbn [res_sat]; lia|].
    eapply res_sat_weaken; [apply IH; lia|]. cbv beta. intros a Ha. lia.
Qed.

Lemma css_ptrs_safe fixed strict m s : msg_ok m -> wf_struct m s -> p_valid s = true ->
  forall k, Z.of_nat k <= PointerCount (p_size s) ->
  res_sat (css_ptrs fixed strict m s k) (fun p => 0 <= p <= Z.of_nat k).
Proof.
  intros Hm Hw V. induction k as [|k IH]; intros Hk; cbn [css_ptrs]; [cbn; lia|].
  assert ((if fixed then has_nonnull_ptr strict m s (Z.of_nat k)
           else do v <- readRawPointer (seg_of m s) (pointerAddress s (Z.of_nat k)); Ok (negb (v =? 0))) <> Panic) as H.
  { destruct fixed; [apply has_nonnull_ptr_safe; auto; lia|].
    destruct (wf_struct_inv m s Hw V) as (Hs & Hz & Ho & He). unfold wf_size in Hz.
    rewrite (pointerAddress_spec m s (Z.of_nat k) Hm Hw V ltac:(lia)).
    destruct (readRawPointer_ok (seg_of m s) (p_off s + DataSize (p_size s) + 8 * Z.of_nat k) (seg_of_ok m s Hm)
                ltac:(lia) ltac:(lia)) as [v [-> _]]. discriminate. }
  destruct (if fixed then _ else _) as [h| |]; cbn [bind]; [|exact I|congruence].
  destruct h; [cbn [res_sat]; lia|].
  eapply res_sat_weaken; [apply IH; lia|]. cbv beta. intros a Ha. lia.
Qed.

Definition csz_ok (sz : ObjectSize) : Prop := 0 <= DataSize sz /\ 0 <= PointerCount sz < 65536.

Lemma canonicalStructSize_safe fixed strict m s : msg_ok m -> wf_struct m s ->
  res_sat (canonicalStructSize fixed strict m s) csz_ok.
Proof.
  intros Hm Hw. unfold canonicalStructSize. destruct (p_valid s) eqn:V; cbn [negb]; [|cbn; unfold csz_ok; cbn; lia].
  destruct (wf_struct_inv m s Hw V) as (_ & Hz & _). unfold wf_size in Hz.
  eapply res_sat_bind; [apply (css_data_safe m s Hm Hw); lia|]. intros d Hd.
  eapply res_sat_bind; [apply (css_ptrs_safe fixed strict m s Hm Hw V); lia|]. intros p Hp.
  cbv beta in Hd, Hp. cbn [res_sat]. unfold csz_ok. cbn [DataSize PointerCount]. lia.
Qed.

Lemma elem_size_safe fixed strict fxd m l : msg_ok m -> wf_list m l ->
  forall n i acc, 0 <= i -> i + Z.of_nat n <= list_len l -> csz_ok acc ->
  res_sat (elem_size fixed strict fxd m l n i acc) csz_ok.
Proof.
  intros Hm Hw. induction n as [|n IH]; intros i acc Hi Hn Ha; cbn [elem_size]; [exact Ha|].
  eapply res_sat_bind; [apply (list_struct_safe fxd m l i Hm Hw); lia|]. intros e He.
  eapply res_sat_bind; [apply (canonicalStructSize_safe fixed strict m e Hm He)|]. intros sz Hsz.
  apply IH; try lia. unfold csz_ok in *. cbn [DataSize PointerCount]. lia.
Qed.

(* ------------------------------------------------------------------ constructors in the destination *)
Lemma padded_size sz : csz_ok sz -> os_isValid sz = true ->
  let sz' := mkOS (padToWord (DataSize sz)) (PointerCount sz) in
  wf_size sz' /\ DataSize sz' mod 8 = 0 /\ totalSize sz' = DataSize sz' + 8 * PointerCount sz'.
Proof.
  intros [H1 H2] Hv. unfold os_isValid in Hv. cbv zeta.
  assert (wf_size (mkOS (padToWord (DataSize sz)) (PointerCount sz))) as Hw.
  { unfold wf_size, padToWord, u32. cbn [DataSize PointerCount]. lia. }
  split; [exact Hw|]. split; [|apply totalSize_wf; exact Hw].
  cbn [DataSize]. unfold padToWord, u32. lia.
Qed.

Lemma newStruct_safe m sid sz : dok m -> 0 <= sid < nsegs m -> csz_ok sz ->
  match newStruct m sid sz with
  | Panic => False | Err => True
  | Ok (m', p) => dok m' /\ grows m m' /\ dst_ok m' p /\ cp_ok m' p /\ p_kind p = KStruct /\
                  bm_caps m' = bm_caps m /\ bm_rl m' = bm_rl m
  end.
Proof.
  intros Hd Hs Hc. unfold newStruct. destruct (os_isValid sz) eqn:Hv; cbn [negb]; [|exact I].
  destruct (padded_size sz Hc Hv) as (Hw & H8 & Hts). cbv zeta in Hw, H8, Hts.
  set (sz' := mkOS (padToWord (DataSize sz)) (PointerCount sz)) in *.
  pose proof (alloc_nopanic m sid (totalSize sz')) as NP.
  destruct (alloc m sid (totalSize sz')) as [[[m1 s1] addr]| |] eqn:EA; cbn [bind]; [|exact I|congruence].
  pose proof (totalSize_bound _ Hw) as Hb.
  destruct (alloc_safe m sid (totalSize sz') m1 s1 addr Hd Hs ltac:(lia) EA) as (D1 & G1 & S1 & A0 & A1 & A2 & A3 & _ & C1 & C2).
  split; [exact D1|]. split; [exact G1|]. split.
  { split; [reflexivity|]. split; [exact Hw|]. unfold region_ok. cbn [p_seg p_off p_size]. lia. }
  split; [|split; [reflexivity|split; assumption]].
  intros _. cbn [p_seg p_member]. split; [exact S1|]. split; [reflexivity|]. intros _. cbn [p_kind p_size]. exact H8.
Qed.

Lemma mask_last_length n bs : length (mask_last n bs) = length bs.
Proof.
  unfold mask_last. cbv zeta. destruct (_ =? 0); [reflexivity|].
  destruct (rev bs) as [|l pre] eqn:E.
  - apply (f_equal (@length Z)) in E. rewrite rev_length in E. cbn in *. lia.
  - rewrite app_length, rev_length. apply (f_equal (@length Z)) in E. rewrite rev_length in E. cbn in *. lia.
Qed.
