(* C18 [T2], first stage: canonicalStructSize computes the size of the canonical
   representative -- the data section truncated of trailing zero WORDS and the pointer section
   truncated of trailing NULL pointers of the value the struct denotes (for every struct of
   every message).  Then: every struct whose fields are all default canonicalises to the
   empty-struct message, which is the specification's canonical form. *)
From CV Require Import Value.ValueEq Value.ValueEqProofs Value.EqualM Value.Den Value.DenFacts Value.DenLists
                       Value.CanonSpec Value.CanonProofs Value.CanonM.
From CV Require Import Core.ReaderFacts Core.SafetyProofs Core.BuilderFacts.
From Coq Require Import ZifyBool ZifyNat.
Ltac Zify.zify_post_hook ::= Z.div_mod_to_equations.
Open Scope Z_scope.

(* ------------------------------------------------------------------ strip at the end *)
Lemma strip0_snoc l x : strip0 (l ++ [x]) = if x =? 0 then strip0 l else l ++ [x].
Proof.
  induction l as [|y r IH]; cbn [app strip0].
  - destruct (x =? 0); reflexivity.
  - rewrite IH. destruct (x =? 0) eqn:E; [reflexivity|]. destruct (r ++ [x]) eqn:E2; [destruct r; discriminate| reflexivity].
Qed.

Lemma stripN_snoc l x : stripN (l ++ [x]) = if is_null x then stripN l else l ++ [x].
Proof.
  induction l as [|y r IH]; cbn [app stripN].
  - destruct (is_null x); reflexivity.
  - rewrite IH. destruct (is_null x) eqn:E; [reflexivity|]. destruct (r ++ [x]) eqn:E2; [destruct r; discriminate| reflexivity].
Qed.

Lemma firstn_snoc {A} (d : A) k l : (k < length l)%nat -> firstn (S k) l = firstn k l ++ [nth k l d].
Proof.
  revert l. induction k as [|k IH]; intros [|y r] H; cbn in H; try lia; [reflexivity|].
  change (firstn (S (S k)) (y :: r)) with (y :: firstn (S k) r). rewrite (IH r) by lia. reflexivity.
Qed.

(* ------------------------------------------------------------------ the pointer section *)
Lemma css_ptrs_spec m mid caps s vs : kids_of m mid caps s vs -> zlen vs = PointerCount (p_size s) ->
  forall k, Z.of_nat k <= PointerCount (p_size s) ->
  css_ptrs true true m s k = Ok (zlen (stripN (firstn k vs))).
Proof.
  intros K L. induction k as [|k IH]; intros Hk; [reflexivity|].
  cbn [css_ptrs]. destruct (K (Z.of_nat k) ltac:(lia)) as (dep & rl & q & rl' & R & D).
  rewrite (readPtr_nonnull _ _ _ _ _ _ _ _ R). cbn [bind].
  pose proof (den_null_iff _ _ _ _ _ _ D) as Hn. unfold nthv in Hn. rewrite Nat2Z.id in Hn.
  unfold zlen in L. rewrite (firstn_snoc VNull k vs) by lia. rewrite stripN_snoc, Hn.
  destruct (p_valid q); cbn [negb].
  - f_equal. unfold zlen. rewrite app_length, firstn_length. cbn [length]. lia.
  - apply IH. lia.
Qed.

(* ------------------------------------------------------------------ the data section *)
Lemma nth_sub s base n i : 0 <= base -> (i < Z.to_nat n)%nat -> nth i (sub s base n) 0 = nth (Z.to_nat base + i) s 0.
Proof. intros Hb Hi. unfold sub. rewrite nth_firstn_lt by assumption. apply nth_skipn_add. Qed.

Lemma le_decode_8 l : length l = 8%nat ->
  le_decode l = nth 0 l 0 + 256 * nth 1 l 0 + 65536 * nth 2 l 0 + 16777216 * nth 3 l 0 + 4294967296 * nth 4 l 0
                + 1099511627776 * nth 5 l 0 + 281474976710656 * nth 6 l 0 + 72057594037927936 * nth 7 l 0.
Proof.
  intros H. destruct l as [|b0 [|b1 [|b2 [|b3 [|b4 [|b5 [|b6 [|b7 [|]]]]]]]]]; try discriminate.
  cbn [le_decode nth]. lia.
Qed.

(* Struct.Uint64(8k) is word k of the data section (0 beyond it) *)
Lemma struct_word_k m s d k : msg_ok m -> wf_struct m s -> p_valid s = true ->
  DataSize (p_size s) mod 8 = 0 ->
  slice (seg_of m s) (p_off s) (DataSize (p_size s)) = Ok d -> 0 <= 8 * Z.of_nat k < 524288 ->
  struct_uint m s (8 * Z.of_nat k) 8 = Ok (nth k (words_of_bytes d) 0).
Proof.
  intros Hm Hw Hv Hal Sl Hk. destruct (wf_struct_inv _ _ Hw Hv) as (Hseg & Wz & Ho & Hb). destruct Wz as [Wd Wp].
  rewrite struct_uint_spec by (try assumption; lia). f_equal.
  apply slice_eq_sub in Sl; [|apply seg_of_ok; assumption| lia]. destruct Sl as (-> & _ & _).
  rewrite nth_words_of_bytes. unfold word_at, byte_at.
  destruct (8 * Z.of_nat k + 8 <=? DataSize (p_size s)) eqn:E.
  - rewrite le_decode_8.
    2:{ apply Nat2Z.inj. change (zlen (sub (seg_of m s) (p_off s + 8 * Z.of_nat k) 8) = 8). apply sub_length; lia. }
    rewrite !nth_sub by lia.
    replace (Z.to_nat (p_off s + 8 * Z.of_nat k)) with (Z.to_nat (p_off s) + 8 * k)%nat by lia.
    repeat match goal with |- context [nth (?a + 8 * k + ?j)%nat _ _] => replace (a + 8 * k + j)%nat with (a + (8 * k + j))%nat by lia end.
    replace (Z.to_nat (p_off s) + 8 * k + 0)%nat with (Z.to_nat (p_off s) + 8 * k)%nat by lia.
    rewrite (Nat.add_0_r (8 * k)). reflexivity.
  - (* beyond the section: every byte index is outside d *)
    assert (L : zlen (sub (seg_of m s) (p_off s) (DataSize (p_size s))) = DataSize (p_size s)) by (apply sub_length; lia).
    unfold zlen in L. rewrite !nth_overflow by lia. reflexivity.
Qed.

Lemma css_data_spec m s d : msg_ok m -> wf_struct m s -> p_valid s = true ->
  DataSize (p_size s) mod 8 = 0 ->
  slice (seg_of m s) (p_off s) (DataSize (p_size s)) = Ok d ->
  forall k, Z.of_nat k <= DataSize (p_size s) / 8 ->
  css_data m s k = Ok (8 * zlen (strip0 (firstn (S k) (words_of_bytes d)))).
Proof.
  intros Hm Hw Hv Hal Sl. destruct (wf_struct_inv _ _ Hw Hv) as (_ & Wz & _ & _). destruct Wz as [Wz _].
  set (ws := words_of_bytes d).
  induction k as [|k IH]; intros Hk; cbn [css_data].
  - rewrite (struct_word_k m s d 0 Hm Hw Hv Hal Sl) by lia. cbn [bind]. fold ws.
    destruct ws as [|w0 r]; cbn [nth firstn strip0].
    + reflexivity.
    + destruct (w0 =? 0); reflexivity.
  - rewrite (struct_word_k m s d (S k) Hm Hw Hv Hal Sl) by lia. cbn [bind]. fold ws.
    destruct (Nat.lt_ge_cases (S k) (length ws)) as [Lt|Ge].
    + rewrite (firstn_snoc 0 (S k) ws Lt), strip0_snoc.
      destruct (nth (S k) ws 0 =? 0) eqn:E; cbn [negb].
      * apply IH. lia.
      * f_equal. unfold zlen. rewrite app_length, firstn_length. cbn [length]. lia.
    + rewrite nth_overflow by lia. cbn [Z.eqb negb]. rewrite IH by lia.
      rewrite !firstn_all2 by lia. reflexivity.
Qed.

(* ------------------------------------------------------------------ canonicalStructSize *)
Theorem canonicalStructSize_spec : forall m mid caps s v,
  msg_ok m -> wf_ptr m s -> p_valid s = true -> p_kind s = KStruct -> DataSize (p_size s) mod 8 = 0 ->
  den true m mid caps s v ->
  exists ws vs, v = VStruct ws vs /\
    canonicalStructSize true true m s = Ok (mkOS (8 * zlen (strip0 ws)) (zlen (stripN vs))).
Proof.
  intros m mid caps s v Hm Hwf Hv Hk Hal D.
  destruct (den_struct_inv _ _ _ _ _ _ D Hv Hk) as (d & vs & -> & Wz & Sl & L & K).
  exists (words_of_bytes d), vs. split; [reflexivity|].
  assert (Hw : wf_struct m s) by (split; [assumption| intros _; assumption]).
  unfold canonicalStructSize. rewrite Hv. cbn [negb].
  destruct Wz as [Wd Wp].
  rewrite (css_data_spec m s d Hm Hw Hv Hal Sl) by lia. cbn [bind].
  rewrite (css_ptrs_spec m mid caps s vs K L) by lia. cbn [bind].
  f_equal. f_equal.
  - (* all words *)
    assert (Ll : (length (words_of_bytes d) <= S (Z.to_nat (DataSize (p_size s) / 8)))%nat).
    { apply slice_eq_sub in Sl; [|apply seg_of_ok; assumption| lia]. destruct Sl as (-> & B1 & B2).
      pose proof (sub_length (seg_of m s) (p_off s) (DataSize (p_size s)) B1 ltac:(lia) B2) as Ls.
      pose proof (words_of_bytes_length (sub (seg_of m s) (p_off s) (DataSize (p_size s)))) as Lw.
      unfold zlen in Ls. lia. }
    rewrite firstn_all2 by assumption. reflexivity.
  - unfold zlen in L. rewrite firstn_all2 by lia. reflexivity.
Qed.

(* ------------------------------------------------------------------ all-default structs *)
Definition all_cfixed (fx : cfix) : Prop :=
  cx_complist fx = true /\ cx_bitpad fx = true /\ cx_farnull fx = true /\
  fx_depth (cx_rd fx) = true /\ fx_upgrade (cx_rd fx) = true /\ fx_bit (cx_rd fx) = true.

(* fillCanonicalStruct into a zero-sized destination copies nothing and visits no pointer *)
Lemma fill_zero c fx f w dst s d m' :
  p_size dst = mkOS 0 0 ->
  slice (dst_seg w dst) (p_off dst) 0 = Ok [] ->
  slice (src_seg w s) (p_off s) (DataSize (p_size s)) = Ok d ->
  seg_write (w_dst w) (p_seg dst) (p_off dst) [] = Ok m' ->
  fill_canonical c fx (S f) w dst s = KOk (w_set_dst w m').
Proof.
  intros Hz S1 S2 Wr. cbn [fill_canonical]. rewrite Hz. cbn [DataSize PointerCount]. rewrite S1, S2.
  cbn [of_res kbind length Nat.min firstn]. rewrite Wr. cbn [lift0 bind of_res kbind Z.to_nat iota seq map kfold].
  reflexivity.
Qed.

Definition empty_struct_msg : list Z := le_encode 8 (struct_word (-1) 0 0).

Theorem canon_m_default_struct_partial : forall c fx fuel m rl s v,
  cfg_strict c = true -> all_cfixed fx -> msg_ok m -> wf_ptr m s ->
  p_valid s = true -> p_kind s = KStruct -> DataSize (p_size s) mod 8 = 0 ->
  den true m 0 [] s v ->
  (exists ws vs, v = VStruct ws vs /\ all_zero ws = true /\ forallb is_null vs = true) ->
  canonicalize c fx (S fuel) m rl s = (KOk empty_struct_msg, rl) /\ canon v = Some empty_struct_msg.
Proof.
  intros c fx fuel m rl s v Hs (_ & _ & Hfn & _) Hm Hwf Hv Hk Hal D (ws & vs & -> & Hz & Hn).
  destruct (canonicalStructSize_spec m 0 [] s _ Hm Hwf Hv Hk Hal D) as (ws' & vs' & E & Hcss).
  inversion E; subst ws' vs'; clear E.
  rewrite (strip0_all_zero ws Hz) in Hcss.
  assert (Hsn : stripN vs = []).
  { clear -Hn. induction vs as [|y r IH]; [reflexivity|]. cbn [forallb] in Hn. apply andb_prop in Hn. destruct Hn as [H1 H2].
    cbn [stripN]. rewrite (IH H2), H1. reflexivity. }
  rewrite Hsn in Hcss. change (8 * zlen (@nil Z)) with 0 in Hcss. change (zlen (@nil value)) with 0 in Hcss.
  destruct (den_struct_inv _ _ _ _ _ _ D Hv Hk) as (d & vs2 & _ & _ & Sl & _ & _).
  split.
  - unfold canonicalize.
    replace (new_message ASingle [] 0) with (Ok (mkBM ASingle [mkBS (repeat 0 8%nat) 1024] [] 0)) by (vm_compute; reflexivity).
    rewrite Hv. cbn [negb]. cbv zeta. rewrite Hfn, Hs, Hcss. cbn [of_res kbind].
    set (m0 := mkBM ASingle [mkBS (repeat 0 8%nat) 1024] [] 0).
    set (root := mkPtr true 0 8 0 (mkOS 0 0) maxDepth KStruct false false false).
    replace (lift (mkW m0 m rl) (newStruct m0 0 (mkOS 0 0))) with (Ok (mkW m0 m rl, root)) by (vm_compute; reflexivity).
    cbn [of_res kbind].
    set (m1 := mkBM ASingle [mkBS (le_encode 8 (struct_word (-1) 0 0)) 1024] [] 0).
    replace (set_root 4 (mkW m0 m rl) InDst root) with (Ok (mkW m1 m rl)) by (vm_compute; reflexivity).
    cbn [of_res kbind].
    replace (set_root 4 (mkW m1 m rl) InDst root) with (Ok (mkW m1 m rl)) by (vm_compute; reflexivity).
    cbn [of_res kbind].
    rewrite (fill_zero c fx fuel (mkW m1 m rl) root s d m1) by (first [exact Sl | reflexivity]).
    reflexivity.
  - unfold canon, canon_words. cbn [norm]. rewrite (strip0_all_zero ws Hz), (stripN_all_null vs Hn). vm_compute. reflexivity.
Qed.
