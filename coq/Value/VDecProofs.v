(* vdec is sound for den: the executable value of a pointer is the value of the theorems. *)
From CV Require Import Value.ValueEq Value.Den Value.DenFacts Value.VDec.
From Coq Require Import ZifyBool ZifyNat.
Open Scope Z_scope.

Lemma all_opt_spec {A} (d : A) : forall (l : list (option A)) vs, all_opt l = Some vs ->
  length vs = length l /\ forall i, (i < length l)%nat -> nth i l None = Some (nth i vs d).
Proof.
  induction l as [|o r IH]; intros vs H.
  - inversion H. split; [reflexivity| intros i Hi; cbn in Hi; lia].
  - cbn [all_opt] in H. destruct o as [a|]; [|discriminate].
    destruct (all_opt r) as [t|] eqn:E; [|discriminate]. inversion H; subst. destruct (IH t eq_refl) as [L N].
    split; [cbn; lia|]. intros [|i] Hi; cbn [nth]; [reflexivity| apply N; cbn in Hi; lia].
Qed.

Lemma nth_iota n i : (i < n)%nat -> nth i (iota n) 0 = Z.of_nat i.
Proof. intros H. unfold iota. rewrite (map_nth Z.of_nat (seq 0 n) O i) at 1. rewrite seq_nth by assumption. reflexivity. Qed.

Lemma all_opt_iota {A} (d : A) (g : Z -> option A) n vs : all_opt (map g (iota n)) = Some vs ->
  length vs = n /\ forall i, 0 <= i < Z.of_nat n -> g i = Some (nth (Z.to_nat i) vs d).
Proof.
  intros H. destruct (all_opt_spec d _ _ H) as [L N]. rewrite map_length in L, N.
  assert (Li : length (iota n) = n) by (unfold iota; rewrite map_length, seq_length; reflexivity).
  rewrite Li in L, N. split; [exact L|]. intros i Hi. specialize (N (Z.to_nat i) ltac:(lia)).
  rewrite <- N. rewrite (nth_indep _ None (g 0)) by (rewrite map_length, Li; lia).
  rewrite (map_nth g (iota n) 0). rewrite nth_iota by lia. f_equal. lia.
Qed.

Lemma wf_size_b_spec sz : wf_size_b sz = true -> wf_size sz.
Proof. unfold wf_size_b, wf_size. lia. Qed.

Lemma prim_width_b_spec w : prim_width_b w = true -> prim_width w.
Proof. unfold prim_width_b, prim_width. lia. Qed.

Theorem vdec_den : forall fuel lcap m mid caps p v, vdec fuel lcap m mid caps p = Some v -> den true m mid caps p v.
Proof.
  induction fuel as [|f IH]; intros lcap m mid caps p v H; [discriminate|].
  cbn [vdec] in H. destruct (p_valid p) eqn:Hv; cbn [negb] in H; [|inversion H; apply den_null; assumption].
  set (child := fun a => match readPtr true m big_rl (p_seg p) (seg_of m p) a big_depth with
                         | (Ok q, _) => vdec f lcap m mid caps q | _ => None end) in *.
  assert (HC : forall a w, child a = Some w -> exists dep rl q rl',
               readPtr true m rl (p_seg p) (seg_of m p) a dep = (Ok q, rl') /\ den true m mid caps q w).
  { intros a w Hc. unfold child in Hc. destruct (readPtr true m big_rl (p_seg p) (seg_of m p) a big_depth) as [r rl'] eqn:E.
    destruct r as [q| |]; try discriminate. exists big_depth, big_rl, q, rl'. split; [exact E| apply (IH _ _ _ _ _ _ Hc)]. }
  destruct (p_kind p) eqn:Hk.
  - (* struct *)
    destruct (wf_size_b (p_size p)) eqn:Hw; cbn [negb] in H; [|discriminate].
    destruct (slice (seg_of m p) (p_off p) (DataSize (p_size p))) as [d| |] eqn:Sl; try discriminate.
    match type of H with context [all_opt ?l] => destruct (all_opt l) as [vs|] eqn:E end; [|discriminate]. inversion H; subst v; clear H.
    apply wf_size_b_spec in Hw. pose proof Hw as [_ Wp].
    destruct (all_opt_iota VNull _ _ _ E) as [L N].
    eapply den_struct; try eassumption.
    + unfold zlen. lia.
    + intros i Hi. apply HC. apply N. lia.
  - (* lists *)
    destruct ((p_len p <? 0) || (p_len p >? lcap) || (p_len p >=? 536870912)) eqn:Eb; [discriminate|].
    destruct (p_bit p) eqn:Hb.
    + destruct (slice (seg_of m p) (p_off p) (bitListSize (p_len p))) as [d| |] eqn:Sl; try discriminate.
      inversion H; subst v. apply den_bits; try assumption. lia.
    + destruct (p_comp p) eqn:Hc.
      * destruct (wf_size_b (p_size p)) eqn:Hw; cbn [negb] in H; [|discriminate].
        match type of H with context [all_opt ?l] => destruct (all_opt l) as [vs|] eqn:E end; [|discriminate]. inversion H; subst v; clear H.
        destruct (all_opt_iota VNull _ _ _ E) as [L N].
        apply den_comp; try assumption; [apply wf_size_b_spec; assumption| unfold zlen; lia|].
        intros i Hi. apply (IH lcap). apply N. lia.
      * destruct (os_eqb (p_size p) (mkOS 0 1)) eqn:Es.
        -- match type of H with context [all_opt ?l] => destruct (all_opt l) as [vs|] eqn:E end; [|discriminate]. inversion H; subst v; clear H.
           destruct (all_opt_iota VNull _ _ _ E) as [L N].
           apply den_ptrs; try assumption.
           ++ unfold os_eqb in Es. cbn [DataSize PointerCount] in Es. destruct (p_size p) as [ds pc]. cbn [DataSize PointerCount] in Es.
              f_equal; lia.
           ++ unfold zlen; lia.
           ++ intros i Hi. specialize (N i ltac:(lia)). lazy beta in N.
              change (match child (p_off p + 8 * i) with Some v0 => Some (VStruct [] [v0]) | None => None end
                      = Some (nth (Z.to_nat i) vs VNull)) in N.
              destruct (child (p_off p + 8 * i)) as [w|] eqn:Ec; [|discriminate N].
              destruct (HC _ _ Ec) as (dep & rl & q & rl' & R & D).
              exists dep, rl, q, rl', w. split; [exact R|]. split; [exact D|]. unfold nthv. inversion N. reflexivity.
        -- destruct ((PointerCount (p_size p) =? 0) && prim_width_b (DataSize (p_size p))) eqn:Ew; [|discriminate].
           match type of H with context [all_opt ?l] => destruct (all_opt l) as [vs|] eqn:E end; [|discriminate]. inversion H; subst v; clear H.
           destruct (all_opt_iota VNull _ _ _ E) as [L N].
           apply andb_prop in Ew. destruct Ew as [E0 Ew].
           apply (den_prim true m mid caps p (DataSize (p_size p)) vs); try assumption.
           ++ destruct (p_size p) as [ds pc]. cbn [DataSize PointerCount] in *. f_equal. lia.
           ++ apply prim_width_b_spec. assumption.
           ++ unfold zlen; lia.
           ++ intros i Hi. specialize (N i ltac:(lia)). lazy beta in N.
              destruct (slice (seg_of m p) (p_off p + i * DataSize (p_size p)) (DataSize (p_size p))) as [d| |] eqn:Sl; try discriminate.
              exists d. split; [reflexivity|]. unfold nthv. inversion N. reflexivity.
  - (* capability *)
    destruct (0 <=? p_len p) eqn:E; [|discriminate]. inversion H; subst v. apply den_cap; try assumption. lia.
Qed.
