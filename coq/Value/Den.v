(* The value a pointer denotes, defined directly on the message bytes (no traversal limit, no
   depth limit, no walker caps): [den strict m mid caps p v] -- pointer [p] of message [m]
   (message id [mid], capability table [caps]) denotes the value [v].
   Child pointers are obtained with Segment.readPtr (any budget, any depth that lets it
   succeed), list elements through their struct view, data through [slice].  The relation
   does not look at the depth limit or the list-member flag of [p] (den_core).
   No proofs about Equal in this file. *)
From CV Require Export Value.ValueEq Core.ReaderFacts.
Open Scope Z_scope.

(* the struct view of element i of a (non-bit) list: what List.Struct(i) designates *)
Definition elem_ptr (p : Ptr) (i : Z) : Ptr :=
  mkPtr true (p_seg p) (p_off p + i * totalSize (p_size p)) 0 (p_size p) 0 KStruct false false true.

(* bit i of a bit list stored in the bytes d *)
Definition bit_at (d : list Z) (i : Z) : bool := Z.testbit (nth (Z.to_nat (i / 8)) d 0) (i mod 8).
Definition bits_of (n : nat) (d : list Z) : list bool := map (bit_at d) (iota n).

Definition nthv (vs : list value) (i : Z) : value := nth (Z.to_nat i) vs VNull.

Definition prim_width (w : Z) : Prop := w = 0 \/ w = 1 \/ w = 2 \/ w = 4 \/ w = 8.

Inductive den (strict : bool) (m : segs) (mid : Z) (caps : list Z) : Ptr -> value -> Prop :=
| den_null p : p_valid p = false -> den strict m mid caps p VNull
| den_cap p :
    p_valid p = true -> p_kind p = KIface -> 0 <= p_len p ->
    den strict m mid caps p (VCap (mk_capv mid caps (p_len p)))
| den_struct p d vs :
    p_valid p = true -> p_kind p = KStruct -> wf_size (p_size p) ->
    slice (seg_of m p) (p_off p) (DataSize (p_size p)) = Ok d ->
    zlen vs = PointerCount (p_size p) ->
    (forall i, 0 <= i < PointerCount (p_size p) ->
       exists dep rl q rl',
         readPtr strict m rl (p_seg p) (seg_of m p) (pointerAddress p i) dep = (Ok q, rl')
         /\ den strict m mid caps q (nthv vs i)) ->
    den strict m mid caps p (VStruct (words_of_bytes d) vs)
| den_bits p d :
    p_valid p = true -> p_kind p = KList -> p_bit p = true -> 0 <= p_len p < 536870912 ->
    slice (seg_of m p) (p_off p) (bitListSize (p_len p)) = Ok d ->
    den strict m mid caps p (VBits (bits_of (Z.to_nat (p_len p)) d))
| den_comp p vs :
    p_valid p = true -> p_kind p = KList -> p_bit p = false -> p_comp p = true ->
    wf_size (p_size p) -> zlen vs = p_len p ->
    (forall i, 0 <= i < p_len p -> den strict m mid caps (elem_ptr p i) (nthv vs i)) ->
    den strict m mid caps p (VList LComp vs)
| den_ptrs p vs :
    p_valid p = true -> p_kind p = KList -> p_bit p = false -> p_comp p = false ->
    p_size p = mkOS 0 1 -> zlen vs = p_len p ->
    (forall i, 0 <= i < p_len p ->
       exists dep rl q rl' v,
         readPtr strict m rl (p_seg p) (seg_of m p) (p_off p + 8 * i) dep = (Ok q, rl')
         /\ den strict m mid caps q v /\ nthv vs i = VStruct [] [v]) ->
    den strict m mid caps p (VList LPtr vs)
| den_prim p w vs :
    p_valid p = true -> p_kind p = KList -> p_bit p = false -> p_comp p = false ->
    p_size p = mkOS w 0 -> prim_width w -> zlen vs = p_len p ->
    (forall i, 0 <= i < p_len p ->
       exists d, slice (seg_of m p) (p_off p + i * w) w = Ok d
                 /\ nthv vs i = VStruct (words_of_bytes d) []) ->
    den strict m mid caps p (VList (kind_of_width w) vs).

(* everything but the depth limit and the list-member flag *)
Definition same_core (p q : Ptr) : Prop :=
  p_valid p = p_valid q /\ p_seg p = p_seg q /\ p_off p = p_off q /\ p_len p = p_len q /\
  p_size p = p_size q /\ p_kind p = p_kind q /\ p_comp p = p_comp q /\ p_bit p = p_bit q.
