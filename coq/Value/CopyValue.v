(* C16 [T2] copy_value, value level: what a deep copy denotes.
   A whole-pointer copy (SetPtr / SetRoot / a pointer slot inside copyStruct) allocates the
   source's own section sizes, so the copy denotes the source's value.  copyStruct into an
   existing struct (List.SetStruct, Struct.CopyFrom, version skew) resizes the TOP struct to the
   destination's section sizes: data words truncated / zero-extended, pointers beyond the
   destination's count dropped, missing ones null; the children are whole-pointer copies. *)
From CV Require Import Value.ValueEq Value.ValueEqProofs.
Open Scope Z_scope.

Definition resize_words (ws : list Z) (n : nat) : list Z := firstn n ws ++ repeat 0 (n - length ws).
Definition resize_ptrs (ps : list value) (n : nat) : list value := firstn n ps ++ repeat VNull (n - length ps).
Definition resize (v : value) (dn pn : nat) : value :=
  match v with VStruct ws ps => VStruct (resize_words ws dn) (resize_ptrs ps pn) | _ => v end.

Lemma resize_words_length ws n : length (resize_words ws n) = n.
Proof. unfold resize_words. rewrite app_length, firstn_length, repeat_length. lia. Qed.
Lemma resize_ptrs_length ps n : length (resize_ptrs ps n) = n.
Proof. unfold resize_ptrs. rewrite app_length, firstn_length, repeat_length. lia. Qed.

Lemma resize_words_id ws : resize_words ws (length ws) = ws.
Proof. unfold resize_words. rewrite firstn_all, Nat.sub_diag. apply app_nil_r. Qed.
Lemma resize_ptrs_id ps : resize_ptrs ps (length ps) = ps.
Proof. unfold resize_ptrs. rewrite firstn_all, Nat.sub_diag. apply app_nil_r. Qed.
Lemma resize_id ws ps : resize (VStruct ws ps) (length ws) (length ps) = VStruct ws ps.
Proof. cbn [resize]. rewrite resize_words_id, resize_ptrs_id. reflexivity. Qed.

