(* C16 [T2] copy_value: the induction, for a single-segment destination.
   P_wp f : writePtr (fuel f) of a pointer of the read-only source message into slot a of the
            destination stores one word there and appends the copy at the end of the segment;
            in EVERY memory that keeps that word and the appended bytes (whatever precedes them
            or is appended later), the reader reads the slot as a pointer denoting the source's value.
   P_cs f : copyStruct (fuel f) into a destination struct of any section sizes writes the data
            words resized (truncated / zero-extended), the pointer words of the first
            min(ns, nd) children, null for the missing ones, and appends the children.
   Domain of this file ([cvdom]): values built from structs (any sizes), nulls and data-only lists
   (void, 1/2/4/8-byte, bit lists), any depth; not yet: pointer lists, struct lists, capabilities. *)
From CV Require Import Value.ValueEq Value.ValueEqProofs Value.EqualM Value.Den Value.DenFacts Value.DenLists
                       Value.CanonSpec Value.CanonProofs3 Value.CanonM Value.CanonMStruct Value.CanonMData Value.CanonMHeap
                       Value.CanonMLoop Value.CanonMInd Value.CanonMListR Value.CanonMListP Value.CanonMListC Value.CopyValue Value.CopyValueHeap.
From CV Require Import Core.ReaderFacts Core.SafetyProofs Core.BuilderFacts Core.ArithFacts Core.CopySafe Core.WritePtrProofs.
From Coq Require Import ZifyBool ZifyNat.
Ltac Zify.zify_post_hook ::= Z.div_mod_to_equations.
Open Scope Z_scope.

Fixpoint cvdom (v : value) : bool :=
  match v with
  | VNull => true
  | VStruct _ ps => forallb cvdom ps
  | VBits _ => true
  | VList LPtr es | VList LComp es => forallb cvdom es
  | VList _ _ => true
  | VCap _ => false
  end.

(* ------------------------------------------------------------------ words and bytes *)
Lemma wob_w64 : forall fuel d, (length d <= fuel)%nat -> bytes_ok d -> Forall w64 (words_of_bytes d).
Proof.
  induction fuel as [|fuel IH]; intros d Hl Hb.
  - destruct d; [constructor|cbn [length] in Hl; lia].
  - assert (W : forall l, bytes_ok l -> (length l <= 8)%nat -> w64 (le_decode l)).
    { intros l Hbl Hll. pose proof (le_decode_range l Hbl) as R. unfold w64, two64.
      assert (256 ^ zlen l <= 256 ^ 8) by (apply Z.pow_le_mono_r; [lia|unfold zlen; clear - Hll; lia]).
      change (256 ^ 8) with 18446744073709551616 in *. set (X := 256 ^ zlen l) in *. clearbody X. split; [apply R|]. destruct R as [_ R2]. eapply Z.lt_le_trans; [exact R2|exact H]. }
    destruct (Nat.le_gt_cases 8 (length d)) as [Hge|Hlt].
    + rewrite <- (firstn_skipn 8 d). rewrite wob_8 by (rewrite firstn_length; lia). constructor.
      * apply W; [apply Forall_firstn'; exact Hb| rewrite firstn_length; lia].
      * apply IH; [rewrite skipn_length; lia| apply Forall_skipn'; exact Hb].
    + destruct d as [|b0 r] eqn:Ed; [constructor|]. rewrite <- Ed in *.
      assert (0 < length d)%nat by (rewrite Ed; cbn [length]; lia).
      rewrite wob_small by lia. constructor; [|constructor]. apply W; [exact Hb|lia].
Qed.

Lemma bow_zeros n : bytes_of_words (repeat 0 n) = repeat 0 (8 * n).
Proof.
  induction n as [|n IH]; [reflexivity|]. cbn [repeat]. unfold bytes_of_words in *. cbn [flat_map]. rewrite IH.
  replace (8 * S n)%nat with (8 + 8 * n)%nat by lia. reflexivity.
Qed.

(* the bytes copyStruct writes into the data section are the resized words *)
Lemma copy_data_words d dn : bytes_ok d -> (length d mod 8 = 0)%nat ->
  let n := Nat.min (length d) (8 * dn) in
  firstn n d ++ repeat 0 (8 * dn - n) = bytes_of_words (resize_words (words_of_bytes d) dn).
Proof.
  intros Hb Hm. cbv zeta. unfold resize_words. rewrite bow_app, bow_zeros.
  rewrite <- (firstn_bytes_words d dn Hb Hm).
  pose proof (bow_wob d Hb Hm) as E. apply (f_equal (@length Z)) in E. rewrite bow_length in E.
  f_equal.
  - destruct (Nat.le_gt_cases (length d) (8 * dn)) as [H|H].
    + rewrite Nat.min_l by lia. rewrite !firstn_all2 by lia. reflexivity.
    + rewrite Nat.min_r by lia. reflexivity.
  - f_equal. lia.
Qed.

Lemma bow_sub_word : forall blk k, (k < length blk)%nat ->
  sub (bytes_of_words blk) (8 * Z.of_nat k) 8 = le_encode 8 (nth k blk 0).
Proof.
  induction blk as [|x r IH]; intros k Hk; [cbn [length] in Hk; lia|].
  change (bytes_of_words (x :: r)) with (le_encode 8 x ++ bytes_of_words r).
  destruct k as [|k].
  - cbn [nth]. rewrite sub_app_l by (unfold zlen; rewrite ?le_encode_length; lia).
    unfold sub. cbn [Z.to_nat skipn]. apply firstn_all2. rewrite le_encode_length. lia.
  - cbn [nth]. rewrite sub_app_r by (unfold zlen; rewrite ?le_encode_length; lia).
    unfold zlen. rewrite le_encode_length. replace (8 * Z.of_nat (S k) - Z.of_nat 8) with (8 * Z.of_nat k) by lia.
    apply IH. cbn [length] in Hk. lia.
Qed.

Lemma block_word M A blk k : 0 <= A -> sub M A (8 * zlen blk) = bytes_of_words blk -> (k < length blk)%nat ->
  word_is M (A + 8 * Z.of_nat k) (nth k blk 0).
Proof.
  intros HA Hs Hk. unfold word_is.
  replace (sub M (A + 8 * Z.of_nat k) 8) with (sub (sub M A (8 * zlen blk)) (8 * Z.of_nat k) 8)
    by (apply sub_sub; unfold zlen; lia).
  rewrite Hs. apply bow_sub_word. exact Hk.
Qed.

Lemma bow_sub_mid a b c : sub (bytes_of_words (a ++ b ++ c)) (8 * zlen a) (8 * zlen b) = bytes_of_words b.
Proof.
  rewrite !bow_app. rewrite sub_app_r by (unfold zlen; rewrite ?bow_length; lia).
  replace (8 * zlen a - zlen (bytes_of_words a)) with 0 by (unfold zlen; rewrite bow_length; lia).
  rewrite sub_app_l by (unfold zlen; rewrite ?bow_length; lia).
  unfold sub. cbn [Z.to_nat skipn]. apply firstn_all2. rewrite bow_length. unfold zlen. lia.
Qed.

Lemma nthv_resize_ptrs ps n i : 0 <= i < Z.of_nat n ->
  nthv (resize_ptrs ps n) i = if i <? zlen ps then nthv ps i else VNull.
Proof.
  intros Hi. unfold nthv, resize_ptrs, zlen. destruct (i <? Z.of_nat (length ps)) eqn:E.
  - rewrite app_nth1 by (rewrite firstn_length; lia). apply nth_firstn_lt. lia.
  - rewrite app_nth2 by (rewrite firstn_length; lia).
    destruct (Nat.lt_ge_cases (Z.to_nat i - length (firstn n ps)) (n - length ps)) as [H|H].
    + apply nth_repeat.
    + apply nth_overflow. rewrite repeat_length. exact H.
Qed.

(* ------------------------------------------------------------------ the statements *)
Definition BOUND := 4294967288.

(* the slot at byte address a of the single segment M reads as a pointer denoting v *)
Definition reads_as (M : list Z) (a : Z) (v : value) : Prop :=
  exists dep rl q rl', readPtr true [M] rl 0 M a dep = (Ok q, rl') /\ forall mid caps, den true [M] mid caps q v.

Lemma reads_null M a : 0 <= a -> a + 8 <= zlen M -> zlen M <= BOUND -> word_is M a 0 -> reads_as M a VNull.
Proof.
  intros Ha Hb Hl Hw. exists 1, 0, nullPtr, 0. split; [apply read_zero_word; assumption|]. intros mid caps. apply den_null. reflexivity.
Qed.

Section Copy.
Context (m : segs) (Hm : msg_ok m).

Definition P_wp (f : nat) : Prop := forall D cap rl a src v fc w',
  hinv D -> 0 <= a -> a mod 8 = 0 -> a + 8 <= zlen D ->
  wf_ptr m src -> aligned src -> caligned src -> ctag_ok m src -> den true m 0 [] src v -> cvdom v = true ->
  write_ptr f true (dstw D cap m rl) 0 a InSrc src fc = Ok w' ->
  exists word body cap' rl',
    w' = dstw (put_word D a word ++ body) cap' m rl' /\ hinv (D ++ body) /\
    forall pre' tail, zlen pre' = zlen D -> word_is pre' a word -> zlen (pre' ++ body ++ tail) <= BOUND ->
      reads_as (pre' ++ body ++ tail) a v.

Definition P_cs (f : nat) : Prop := forall D cap rl dst s ws vs A dn pn w',
  hinv D -> dst_at dst A dn pn -> 0 <= A -> A mod 8 = 0 -> 0 <= dn <= 65535 -> 0 <= pn < 65536 ->
  A + 8 * dn + 8 * pn <= zlen D ->
  p_valid s = true -> p_kind s = KStruct -> wf_ptr m s -> aligned s ->
  den true m 0 [] s (VStruct ws vs) -> forallb cvdom vs = true ->
  copy_struct f true (dstw D cap m rl) dst InSrc s = Ok w' ->
  exists pwords kids cap' rl',
    zlen pwords = pn /\
    w' = dstw (set_slots D A (resize_words ws (Z.to_nat dn) ++ pwords) ++ kids) cap' m rl' /\
    hinv (D ++ kids) /\
    forall pre' tail, zlen pre' = zlen D ->
      sub pre' A (8 * (dn + pn)) = bytes_of_words (resize_words ws (Z.to_nat dn) ++ pwords) ->
      zlen (pre' ++ kids ++ tail) <= BOUND ->
      forall i, 0 <= i < pn -> reads_as (pre' ++ kids ++ tail) (A + 8 * dn + 8 * i) (nthv (resize_ptrs vs (Z.to_nat pn)) i).

(* the second loop of copyStruct: destination slots beyond the source's count are set to null *)
Lemma zero_loop dst B D cap rl ns : forall k ws kids, 0 <= B -> zlen ws = ns ->
  B + 8 * (ns + Z.of_nat k) <= zlen D -> zlen D + zlen kids <= BOUND ->
  (forall j, 0 <= j < ns + Z.of_nat k -> pointerAddress dst j = B + 8 * j) ->
  fold_res (map (fun i => ns + i) (iota k)) (dstw (set_slots D B ws ++ kids) cap m rl)
           (fun wa j => do m1 <- writeRawPointer (w_dst wa) 0 (pointerAddress dst j) 0; Ok (w_set_dst wa m1))
  = Ok (dstw (set_slots D B (ws ++ repeat 0 k) ++ kids) cap m rl).
Proof.
  induction k as [|k IH]; intros ws kids HB Lw Hb Hbd PA.
  - cbn. rewrite app_nil_r. reflexivity.
  - rewrite iota_S, map_app, fold_res_app, IH by (try assumption; try lia; intros j Hj; apply PA; lia).
    cbn [bind map fold_res]. rewrite PA by (unfold zlen in *; lia). cbn [w_dst dstw].
    assert (Lsl : zlen (set_slots D B (ws ++ repeat 0 k)) = zlen D).
    { apply set_slots_length; [assumption|]. rewrite app_length, repeat_length. unfold zlen in *. lia. }
    rewrite writeRaw_seg0 by (rewrite ?zlen_app, ?Lsl; unfold zlen, BOUND in *; lia). cbn [bind].
    unfold dstw, w_set_dst. cbn [w_src w_src_rl]. f_equal. f_equal.
    replace (B + 8 * (ns + Z.of_nat k)) with (B + 8 * Z.of_nat (length (ws ++ repeat 0 k)))
      by (rewrite app_length, repeat_length; unfold zlen in *; lia).
    rewrite put_word_slot by (rewrite ?app_length, ?repeat_length; unfold zlen in *; lia).
    rewrite <- app_assoc. replace (repeat 0 k ++ [0]) with (repeat 0 (S k)); [reflexivity|].
    clear. induction k; [reflexivity|]. cbn [repeat app]. f_equal. exact IHk.
Qed.

Lemma cs_step f : P_wp f -> P_cs (S f).
Proof.
  intros HW D cap rl dst s ws vs A dn pn w' Hi (Dv & Dseg & Doff & Dsz) HA HAm Hdn Hpn Hb Hv Hk Hwf Hal D0 Hsd H.
  destruct Hi as [Hi1 Hi2].
  destruct (den_struct_inv _ _ _ _ _ _ D0 Hv Hk) as (d & vs0 & Ev & Wz & Sl & Lvs & K).
  inversion Ev; subst ws vs0; clear Ev.
  destruct Wz as [Wd Wp].
  apply slice_eq_sub in Sl as Sl'; [|apply seg_of_ok; assumption| lia]. destruct Sl' as (Ed & B1 & B2).
  assert (Ld : zlen d = DataSize (p_size s)) by (rewrite Ed; apply sub_length; lia).
  assert (Hbd : bytes_ok d) by (eapply slice_bytes_ok; eassumption).
  assert (Hal' : (length d mod 8 = 0)%nat).
  { apply Nat2Z.inj. rewrite Nat2Z.inj_mod. unfold zlen in Ld. rewrite Ld. exact (Hal Hk). }
  set (ns := PointerCount (p_size s)) in *.
  assert (Z0 : 0 <= zlen D) by (unfold zlen; lia).
  rewrite copy_struct_S in H. rewrite Dv, Hv in H. cbn [negb] in H.
  change (nth (Z.to_nat (p_seg s)) (w_segs (dstw D cap m rl) InSrc) []) with (seg_of m s) in H.
  rewrite Sl in H. cbn [bind] in H.
  rewrite Dseg, Doff, Dsz in H. cbn [DataSize PointerCount] in H.
  change (nth (Z.to_nat 0) (bm_data (w_dst (dstw D cap m rl))) []) with D in H.
  rewrite slice_ok in H by lia. cbn [bind] in H.
  assert (Lsub : length (sub D A (8 * dn)) = (8 * Z.to_nat dn)%nat).
  { apply Nat2Z.inj. change (zlen (sub D A (8 * dn)) = Z.of_nat (8 * Z.to_nat dn)). rewrite sub_length by lia. lia. }
  rewrite Lsub in H. rewrite (copy_data_words d (Z.to_nat dn) Hbd Hal') in H.
  set (dws := resize_words (words_of_bytes d) (Z.to_nat dn)) in *.
  assert (Ldw : zlen dws = dn) by (unfold dws, zlen; rewrite resize_words_length; lia).
  unfold lift0 in H. cbn [w_dst dstw] in H.
  rewrite seg_write_slots in H by lia. cbn [bind w_set_dst w_src w_src_rl] in H.
  change (w_set_dst (dstw D cap m rl) (seg0 (set_slots D A dws) cap)) with (dstw (set_slots D A dws) cap m rl) in H.
  fold ns in H.
  assert (Ls1 : zlen (set_slots D A dws) = zlen D) by (apply set_slots_length; [lia|unfold zlen in *; lia]).
  set (D1 := set_slots D A dws) in *.
  set (nmin := Z.to_nat (Z.min ns pn)) in *.
  (* the first loop *)
  match type of H with context [fold_res (iota nmin) ?w0 ?st] => set (step := st) in * end.
  set (P := fun (i : Z) (M : list Z) => zlen M <= BOUND -> reads_as M ((A + 8 * dn) + 8 * i) (nthv vs i)).
  assert (Hstep : forall i D0' cap0 rl0 w0, 0 <= i < Z.of_nat nmin -> hinv D0' -> (A + 8 * dn) + 8 * Z.of_nat nmin <= zlen D0' ->
            step (dstw D0' cap0 m rl0) i = Ok w0 ->
            exists word body cap' rl',
              w0 = dstw (put_word D0' ((A + 8 * dn) + 8 * i) word ++ body) cap' m rl' /\ hinv (D0' ++ body) /\
              forall pre' tail, zlen pre' = zlen D0' -> word_is pre' ((A + 8 * dn) + 8 * i) word -> P i (pre' ++ body ++ tail)).
  { intros i D0' cap0 rl0 w0 Hi0 Hinv0 Hb0 Hs0. unfold step in Hs0. cbn [w_segs w_rl dstw w_src w_src_rl] in Hs0.
    change (nth (Z.to_nat (p_seg s)) m []) with (seg_of m s) in Hs0.
    destruct (readPtr true m rl0 (p_seg s) (seg_of m s) (pointerAddress s i) (p_depth s)) as [r rl1] eqn:ER.
    destruct r as [p0| |]; try discriminate. cbn [bind] in Hs0.
    destruct (K i ltac:(unfold nmin, ns in *; lia)) as (dep & rlk & q & rlk' & RK & DK).
    assert (DP : den true m 0 [] p0 (nthv vs i)) by (eapply den_core; [eapply readPtr_core; [exact RK|exact ER]| exact DK]).
    assert (WP : wf_ptr m p0).
    { pose proof (struct_ptr_safe (mkCfg 0 0 true true) m rl0 s i Hm (conj Hwf (fun _ => Hk)) ltac:(lia)) as SS.
      unfold struct_ptr in SS. rewrite Hv in SS. cbn [negb orb] in SS.
      destruct (i >=? PointerCount (p_size s)) eqn:Eip; [unfold nmin, ns in *; lia|].
      cbn [cfg_strict] in SS. rewrite ER in SS. cbn in SS. apply SS. reflexivity. }
    assert (AP : aligned p0) by (eapply readPtr_aligned; exact ER).
    assert (CAP : caligned p0) by (eapply readPtr_caligned; exact ER).
    assert (CTG : ctag_ok m p0).
    { destruct (Hwf Hv) as (Hsg & Hob). unfold wf_obj in Hob. rewrite Hk in Hob. destruct Hob as (_ & Ho1 & Ho2).
      assert (PAs : pointerAddress s i = p_off s + DataSize (p_size s) + 8 * i).
      { apply pointerAddress_eq; try lia. pose proof (seg_of_ok m s Hm) as [Sl1 _]. unfold maxSegmentSize in Sl1. unfold nmin, ns in *. lia. }
      eapply (readPtr_ctag true m rl0 (p_seg s) (seg_of m s)); [exact Hm|split; [exact Hsg|reflexivity]| | |exact ER];
        rewrite PAs; unfold nmin, ns in *; lia. }
    assert (SD : cvdom (nthv vs i) = true).
    { unfold nthv. eapply forallb_In; [exact Hsd|]. apply nth_In. unfold zlen, nmin, ns in *. lia. }
    change (w_set_rl (dstw D0' cap0 m rl0) InSrc rl1) with (dstw D0' cap0 m rl1) in Hs0.
    try rewrite Dseg in Hs0.
    assert (PA : pointerAddress dst i = (A + 8 * dn) + 8 * i).
    { rewrite pointerAddress_eq; rewrite ?Doff, ?Dsz; cbn [DataSize]; destruct Hinv0; unfold zlen, nmin in *; lia. }
    rewrite PA in Hs0.
    destruct (HW D0' cap0 rl1 ((A + 8 * dn) + 8 * i) p0 (nthv vs i) true w0 Hinv0 ltac:(lia) ltac:(lia)
                 ltac:(unfold nmin in *; lia) WP AP CAP CTG DP SD Hs0) as (word & body & cap2 & rl2 & -> & Hinv2 & Post).
    exists word, body, cap2, rl2. split; [reflexivity|]. split; [exact Hinv2|].
    intros pre' tail Lp Hwd Hbound. apply Post; assumption. }
  destruct (fold_res (iota nmin) (dstw D1 cap m rl) step) as [w2| |] eqn:E1; try discriminate H. cbn [bind] in H.
  destruct (sem_loop step m (A + 8 * dn) nmin P ltac:(lia) ltac:(lia) Hstep nmin (le_n _) D1 cap rl w2
                     ltac:(split; lia) ltac:(rewrite Ls1; unfold nmin; lia) E1)
    as (words & kids & cap1 & rl1 & Lw & -> & Hinvk & PostL).
  (* the second loop *)
  set (k2 := Z.to_nat (pn - ns)) in *.
  assert (Hbk : zlen D + zlen kids <= BOUND).
  { destruct Hinvk as [_ Hk2]. rewrite zlen_app, Ls1 in Hk2. unfold BOUND. lia. }
  assert (E2 : set_slots D1 (A + 8 * dn) words = set_slots D A (dws ++ words)).
  { unfold D1. rewrite <- Ldw. apply set_slots_app; [lia|]. rewrite zlen_app. unfold zlen, nmin in *. lia. }
  rewrite E2 in *.
  destruct (Z_lt_le_dec ns pn) as [Hlt|Hge].
  - (* missing pointers: null *)
    assert (Lw' : zlen words = ns) by (unfold zlen, nmin in *; lia).
    assert (E3 : set_slots D A (dws ++ words) = set_slots D1 (A + 8 * dn) words) by (symmetry; exact E2).
    rewrite E3 in H.
    rewrite (zero_loop dst (A + 8 * dn) D1 cap1 rl1 ns k2 words kids) in H;
      try lia; try assumption; try (rewrite Ls1; unfold k2; lia).
    2:{ intros j Hj. rewrite pointerAddress_eq; rewrite ?Doff, ?Dsz; cbn [DataSize]; unfold k2 in *; lia. }
    apply Ok_inj in H. subst w'.
    exists (words ++ repeat 0 k2), kids, cap1, rl1.
    split; [rewrite zlen_app; unfold zlen in *; rewrite repeat_length; unfold k2; lia|].
    split.
    { assert (E4 : set_slots D1 (A + 8 * dn) (words ++ repeat 0 k2) = set_slots D A (dws ++ words ++ repeat 0 k2)).
      { unfold D1. rewrite <- Ldw. apply set_slots_app; [lia|]. rewrite !zlen_app. unfold zlen in *. rewrite repeat_length. unfold k2. lia. }
      rewrite E4. reflexivity. }
    split; [unfold hinv in *; rewrite zlen_app in *; rewrite Ls1 in Hinvk; exact Hinvk|].
    intros pre' tail Lp Hs Hbound i Hi0.
    assert (Lblk : zlen (dws ++ words ++ repeat 0 k2) = dn + pn)
      by (rewrite !zlen_app; unfold zlen in *; rewrite repeat_length; unfold k2; lia).
    rewrite nthv_resize_ptrs by lia.
    destruct (i <? zlen vs) eqn:Ei.
    + assert (HsL : sub pre' (A + 8 * dn) (8 * Z.of_nat nmin) = bytes_of_words words).
      { replace (sub pre' (A + 8 * dn) (8 * Z.of_nat nmin))
          with (sub (sub pre' A (8 * (dn + pn))) (8 * zlen dws) (8 * zlen words)) by (rewrite sub_sub; [f_equal; unfold zlen, nmin in *; lia| | | |]; unfold zlen, nmin in *; lia).
        rewrite Hs. apply bow_sub_mid. }
      exact (PostL pre' tail (eq_trans Lp (eq_sym Ls1)) HsL i ltac:(unfold nmin, zlen in *; lia) Hbound).
    + apply reads_null; try (rewrite !zlen_app in *; unfold zlen in *; lia).
      assert (Hwd : word_is pre' (A + 8 * Z.of_nat (Z.to_nat (dn + i))) (nth (Z.to_nat (dn + i)) (dws ++ words ++ repeat 0 k2) 0)).
      { apply block_word; [lia| rewrite Lblk; exact Hs| unfold zlen in Lblk; lia]. }
      replace (A + 8 * Z.of_nat (Z.to_nat (dn + i))) with (A + 8 * dn + 8 * i) in Hwd by lia.
      assert (Enth : nth (Z.to_nat (dn + i)) (dws ++ words ++ repeat 0 k2) 0 = 0).
      { rewrite app_nth2 by (unfold zlen in *; lia). rewrite app_nth2 by (unfold zlen in *; lia).
        destruct (Nat.lt_ge_cases (Z.to_nat (dn + i) - length dws - length words) k2) as [Hx|Hx];
          [apply nth_repeat| apply nth_overflow; rewrite repeat_length; exact Hx]. }
      rewrite Enth in Hwd. unfold word_is in *. rewrite sub_app_l by (unfold zlen in *; lia). exact Hwd.
  - (* the source has at least as many pointers *)
    replace k2 with 0%nat in H by (unfold k2; lia). cbn [iota seq map fold_res] in H.
    apply Ok_inj in H. subst w'.
    exists words, kids, cap1, rl1.
    split; [unfold zlen, nmin in *; lia|]. split; [reflexivity|].
    split; [unfold hinv in *; rewrite zlen_app in *; rewrite Ls1 in Hinvk; exact Hinvk|].
    intros pre' tail Lp Hs Hbound i Hi0.
    rewrite nthv_resize_ptrs by lia. replace (i <? zlen vs) with true by (unfold zlen, ns in *; lia).
    assert (HsL : sub pre' (A + 8 * dn) (8 * Z.of_nat nmin) = bytes_of_words words).
    { replace (sub pre' (A + 8 * dn) (8 * Z.of_nat nmin))
        with (sub (sub pre' A (8 * (dn + pn))) (8 * zlen dws) (8 * zlen words)) by (rewrite sub_sub; [f_equal; unfold zlen, nmin in *; lia| | | |]; unfold zlen, nmin in *; lia).
      rewrite Hs. rewrite <- (app_nil_r words) at 1. apply bow_sub_mid. }
    exact (PostL pre' tail (eq_trans Lp (eq_sym Ls1)) HsL i ltac:(unfold nmin, zlen in *; lia) Hbound).
Qed.

(* ------------------------------------------------------------------ data-only lists *)
(* the copying branch of writePtr for a non-composite list without pointers *)
Lemma raw_list_copy f D cap rl a src fc w' lt :
  hinv D -> 0 <= a -> a mod 8 = 0 -> a + 8 <= zlen D ->
  p_valid src = true -> p_kind src = KList -> p_comp src = false ->
  (p_bit src || (PointerCount (p_size src) =? 0)) = true ->
  0 <= p_len src < 536870912 -> 0 <= lt < 7 ->
  list_raw (mkPtr true 0 (zlen D) (p_len src) (p_size src) maxDepth KList false (p_bit src) false)
    = Ok (rawListPointer 0 lt (p_len src)) ->
  (if lt =? 1 then mkOS 0 0 else es_of lt) = p_size src -> (lt =? 1) = p_bit src ->
  (if lt =? 1 then bitListSize (p_len src) else totalSize (es_of lt) * p_len src) = list_allocSize src ->
  0 <= p_off src -> p_off src + list_allocSize src <= zlen (seg_of m src) -> zlen (seg_of m src) <= 4294967288 ->
  write_ptr (S f) true (dstw D cap m rl) 0 a InSrc src fc = Ok w' ->
  let sz := list_allocSize src in
  let bs := sub (seg_of m src) (p_off src) sz in
  exists word pad cap',
    w' = dstw (put_word D a word ++ (bs ++ repeat 0 pad)) cap' m rl /\ hinv (D ++ (bs ++ repeat 0 pad)) /\
    forall pre' tail, zlen pre' = zlen D -> word_is pre' a word -> zlen (pre' ++ (bs ++ repeat 0 pad) ++ tail) <= BOUND ->
      exists rl', readPtr true [pre' ++ (bs ++ repeat 0 pad) ++ tail] 4294967288 0 (pre' ++ (bs ++ repeat 0 pad) ++ tail) a 1
        = (Ok (mkPtr true 0 (zlen D) (p_len src) (p_size src) (uint_dec 1) KList false (p_bit src) false), rl').
Proof.
  intros [Hi1 Hi2] Ha Ham Hab Hv Hk Hc Hraw Hn Hlt Hlr Hes Hbit Hls Ho Hbd Hsl H. cbv zeta.
  assert (Z0 : 0 <= zlen D) by (unfold zlen; lia).
  set (sz := list_allocSize src) in *.
  assert (Hsz : 0 <= sz).
  { rewrite <- Hls. destruct (lt =? 1); [unfold bitListSize, u32; lia|]. unfold totalSize, u32. nia. }
  rewrite write_ptr_S in H. rewrite Hv, Hk in H. cbn [negb] in H.
  replace (fc || is_src InSrc) with true in H by (cbn [is_src]; rewrite Bool.orb_true_r; reflexivity).
  cbv zeta in H. fold sz in H. cbn [w_dst dstw] in H.
  destruct (alloc (seg0 D cap) 0 sz) as [[[m1 sid1] addr]| |] eqn:Ea; try discriminate H.
  pose proof (alloc_bound_pad D cap sz m1 sid1 addr Ea) as Hbound0.
  destruct (alloc_seg0 D cap sz m1 sid1 addr Hi1 Hsz Ea) as (cap1 & -> & -> & ->).
  cbn [bind] in H. rewrite Hc, Hraw in H. cbn [bind] in H.
  unfold copy_bytes in H. cbn [w_segs w_set_dst w_src w_dst dstw] in H.
  change (nth (Z.to_nat (p_seg src)) m []) with (seg_of m src) in H.
  rewrite slice_ok in H by lia. cbn [bind] in H.
  set (bs := sub (seg_of m src) (p_off src) sz) in *.
  assert (Lbs : zlen bs = sz) by (unfold bs; apply sub_length; lia).
  assert (P0 : sz <= padToWord sz) by (unfold padToWord, u32; lia).
  assert (Pm : padToWord sz mod 8 = 0) by (unfold padToWord; lia).
  unfold lift0 in H. cbn [w_dst] in H.
  rewrite seg_write_raw in H; [| unfold zlen; lia | rewrite zlen_app; unfold zlen in *; rewrite repeat_length; lia
                               | rewrite zlen_app; unfold zlen in *; rewrite repeat_length; lia].
  cbn [bind] in H. rewrite write_bytes_end in H by (unfold zlen in *; lia).
  set (pad := (Z.to_nat (padToWord sz) - length bs)%nat) in *.
  set (body := bs ++ repeat 0 pad) in *.
  assert (Lbody : zlen body = padToWord sz) by (unfold body, pad; rewrite zlen_app; unfold zlen in *; rewrite repeat_length; lia).
  cbn [bind p_comp p_seg p_off] in H. rewrite Hlr in H. cbn [bind] in H.
  unfold place in H. cbn [w_dst w_set_dst] in H. change (0 =? 0) with true in H. cbv iota in H. unfold lift0 in H.
  rewrite writeRaw_seg0 in H by (rewrite ?zlen_app, ?Lbody; lia). cbn [bind] in H.
  apply Ok_inj in H. subst w'.
  set (raw := rawListPointer 0 lt (p_len src)) in *.
  set (word := withOffset raw (nearPointerOffset a (zlen D))) in *.
  exists word, pad, cap1. fold body.
  split.
  { unfold dstw, w_set_dst. cbn [w_src w_src_rl]. f_equal. f_equal. apply put_word_app_left; lia. }
  split; [split; rewrite zlen_app, Lbody; lia|].
  intros pre' tail Lp Hw Hbound.
  set (M := pre' ++ body ++ tail) in *.
  assert (LM : zlen M = zlen D + padToWord sz + zlen tail) by (unfold M; rewrite !zlen_app, Lbody; lia).
  assert (Lt0 : 0 <= zlen tail) by (unfold zlen; lia).
  assert (HwM : word_is M a word) by (unfold word_is, M in *; rewrite sub_app_l by lia; exact Hw).
  pose proof (elementSize_raw lt (p_len src) Hlt Hn) as Ees.
  destruct (read_near_list true M a (zlen D) lt (p_len src) 1 Hlt Hn Ha Ham ltac:(lia) ltac:(unfold BOUND in *; lia) Z0 Hi1) as (rl' & RR).
  - cbv zeta. rewrite Ees. rewrite Hls. fold sz. lia.
  - exact HwM.
  - lia.
  - exists rl'. cbv zeta in RR. rewrite Ees in RR. rewrite Hes, Hbit in RR. exact RR.
Qed.

Lemma wp_raw_list f D cap rl a src v fc w' :
  hinv D -> 0 <= a -> a mod 8 = 0 -> a + 8 <= zlen D ->
  wf_ptr m src -> caligned src -> den true m 0 [] src v ->
  match v with VBits _ => True | VList k _ => k <> LPtr /\ k <> LComp | _ => False end ->
  write_ptr (S f) true (dstw D cap m rl) 0 a InSrc src fc = Ok w' ->
  exists word body cap' rl',
    w' = dstw (put_word D a word ++ body) cap' m rl' /\ hinv (D ++ body) /\
    forall pre' tail, zlen pre' = zlen D -> word_is pre' a word -> zlen (pre' ++ body ++ tail) <= BOUND ->
      reads_as (pre' ++ body ++ tail) a v.
Proof.
  intros Hi Ha Ham Hab Hwf Hcal D0 Hdom H.
  assert (Z0 : 0 <= zlen D) by (unfold zlen; lia).
  destruct v as [| | |k vs|bits]; try contradiction.
  - (* void / primitive list *)
    destruct Hdom as [K1 K2].
    destruct (den_prim_inv m _ _ _ D0 K1 K2) as (w & Hw & -> & Hv & Hk & Hb & Hc & Hsz & Lvs & K).
    destruct (Hwf Hv) as (Hseg & Hobj). unfold wf_obj in Hobj. rewrite Hk, Hb, Hsz in Hobj.
    destruct Hobj as (Ho & Hlen & _ & Hbd).
    assert (Hts : totalSize (mkOS w 0) = w) by (destruct Hw as [->|[->|[->|[->| ->]]]]; reflexivity).
    assert (Hw8 : 0 <= w <= 8) by (destruct Hw as [->|[->|[->|[->| ->]]]]; lia).
    rewrite Hts in Hbd.
    assert (Hsok : seg_ok (seg_of m src)) by (apply seg_of_ok; assumption).
    assert (Hsl : zlen (seg_of m src) <= 4294967288) by (apply Hsok).
    set (n := p_len src) in *.
    assert (Esz : list_allocSize src = n * w).
    { unfold list_allocSize. rewrite Hv, Hb, Hc, Hsz, Hts. cbn [negb]. fold n.
      rewrite times_some by (unfold maxSegmentSize; nia). lia. }
    set (lt := if w =? 0 then 0 else if w =? 1 then 2 else if w =? 2 then 3 else if w =? 4 then 4 else 5).
    assert (Hlt : 0 <= lt < 7 /\ (lt =? 1) = false /\ es_of lt = mkOS w 0)
      by (unfold lt; destruct Hw as [->|[->|[->|[->| ->]]]]; cbn; repeat split; try reflexivity; lia).
    destruct Hlt as (Hlt & Hl1 & Hes).
    destruct (raw_list_copy f D cap rl a src fc w' lt Hi Ha Ham Hab Hv Hk Hc
                ltac:(rewrite Hb, Hsz; reflexivity) Hlen Hlt) as (word & pad & cap' & -> & Hinv & Post); try assumption.
    + rewrite Hb, Hsz. unfold list_raw, lt. cbn [p_valid p_comp p_bit p_size PointerCount DataSize negb p_len].
      destruct Hw as [->|[->|[->|[->| ->]]]]; reflexivity.
    + rewrite Hl1, Hes, Hsz. reflexivity.
    + rewrite Hl1, Hb. reflexivity.
    + rewrite Hl1, Hes, Hts, Esz. lia.
    + rewrite Esz. nia.
    + cbv zeta in *. rewrite Esz in *.
      set (bs := sub (seg_of m src) (p_off src) (n * w)) in *.
      assert (Lbs : zlen bs = n * w) by (unfold bs; apply sub_length; nia).
      exists word, (bs ++ repeat 0 pad), cap', rl. split; [reflexivity|]. split; [exact Hinv|].
      intros pre' tail Lp Hwd Hbound.
      destruct (Post pre' tail Lp Hwd Hbound) as (rl' & RR).
      set (M := pre' ++ (bs ++ repeat 0 pad) ++ tail) in *.
      set (q := mkPtr true 0 (zlen D) n (p_size src) (uint_dec 1) KList false (p_bit src) false) in *.
      exists 1, 4294967288, q, rl'. split; [exact RR|]. intros mid caps.
      apply (den_prim true [M] mid caps q w vs); try reflexivity; try assumption.
      { intros i Hi0. cbn [q p_len] in Hi0.
        destruct (K i Hi0) as (d & Sd & Ev).
        rewrite slice_ok in Sd by (unfold zlen in *; nia). apply Ok_inj in Sd. subst d.
        exists (sub (seg_of m src) (p_off src + i * w) w). split; [|exact Ev].
        unfold seg_of. cbn [q p_seg p_off Z.to_nat nth].
        assert (LM : zlen M = zlen D + zlen (bs ++ repeat 0 pad) + zlen tail) by (unfold M; rewrite !zlen_app; lia).
        assert (Lb2 : zlen (bs ++ repeat 0 pad) = n * w + Z.of_nat pad) by (rewrite zlen_app, Lbs; unfold zlen; rewrite repeat_length; lia).
        assert (Lt0 : 0 <= zlen tail) by (unfold zlen; lia).
        rewrite slice_ok by (unfold BOUND in *; nia). f_equal.
        unfold M. rewrite sub_app_r by (rewrite ?Lp; nia). rewrite Lp.
        replace (zlen D + i * w - zlen D) with (i * w) by lia.
        rewrite sub_app_l by (rewrite ?Lb2; nia). rewrite sub_app_l by nia.
        unfold bs. apply sub_sub; nia. }
  - (* bit list *)
    inversion D0 as [| | |p0 d Hv Hk Hb Hn Sl| | |]; subst p0 bits.
    assert (Hc : p_comp src = false).
    { destruct (p_comp src) eqn:E; [|reflexivity]. destruct (Hcal E) as [_ X]. congruence. }
    destruct (Hwf Hv) as (Hseg & Hobj). unfold wf_obj in Hobj. rewrite Hk, Hb in Hobj.
    destruct Hobj as (Ho & Hlen & Hsz & Hbd).
    assert (Hsok : seg_ok (seg_of m src)) by (apply seg_of_ok; assumption).
    assert (Hsl : zlen (seg_of m src) <= 4294967288) by (apply Hsok).
    set (n := p_len src) in *.
    assert (Ebl : bitListSize n = (n + 7) / 8) by (unfold bitListSize, u32; lia).
    assert (Esz : list_allocSize src = (n + 7) / 8).
    { unfold list_allocSize. rewrite Hv, Hb. cbn [negb]. exact Ebl. }
    destruct (raw_list_copy f D cap rl a src fc w' 1 Hi Ha Ham Hab Hv Hk Hc
                ltac:(rewrite Hb; reflexivity) Hlen ltac:(lia)) as (word & pad & cap' & -> & Hinv & Post); try assumption.
    + rewrite Hb. reflexivity.
    + cbn. symmetry. exact Hsz.
    + cbn. symmetry. exact Hb.
    + cbn [Z.eqb Pos.eqb]. fold n. rewrite Esz. exact Ebl.
    + rewrite Esz. lia.
    + cbv zeta in *. rewrite Esz in *.
      rewrite Ebl, slice_ok in Sl by lia. apply Ok_inj in Sl. subst d.
      set (bs := sub (seg_of m src) (p_off src) ((n + 7) / 8)) in *.
      assert (Lbs : zlen bs = (n + 7) / 8) by (unfold bs; apply sub_length; lia).
      exists word, (bs ++ repeat 0 pad), cap', rl. split; [reflexivity|]. split; [exact Hinv|].
      intros pre' tail Lp Hwd Hbound.
      destruct (Post pre' tail Lp Hwd Hbound) as (rl' & RR).
      set (M := pre' ++ (bs ++ repeat 0 pad) ++ tail) in *.
      set (q := mkPtr true 0 (zlen D) n (p_size src) (uint_dec 1) KList false (p_bit src) false) in *.
      exists 1, 4294967288, q, rl'. split; [exact RR|]. intros mid caps.
      replace (bits_of (Z.to_nat n) bs) with (bits_of (Z.to_nat (p_len q)) bs) by reflexivity.
      apply den_bits; try reflexivity; try assumption.
      unfold seg_of. cbn [q p_seg p_off p_len Z.to_nat nth]. rewrite Ebl.
      assert (LM : zlen M = zlen D + zlen (bs ++ repeat 0 pad) + zlen tail) by (unfold M; rewrite !zlen_app; lia).
      assert (Lb2 : zlen (bs ++ repeat 0 pad) = (n + 7) / 8 + Z.of_nat pad) by (rewrite zlen_app, Lbs; unfold zlen; rewrite repeat_length; lia).
      assert (Lt0 : 0 <= zlen tail) by (unfold zlen; lia).
      rewrite slice_ok by (unfold BOUND in *; lia). f_equal.
      unfold M. rewrite sub_app_r by (rewrite ?Lp; lia). rewrite Lp, Z.sub_diag.
      rewrite sub_app_l by (rewrite ?Lb2; lia). rewrite sub_app_l by lia.
      unfold sub. cbn [Z.to_nat skipn]. apply firstn_all2. unfold zlen in Lbs. lia.
Qed.

(* ------------------------------------------------------------------ pointer lists *)
Lemma wp_ptr_list f : P_cs f -> forall D cap rl a src vs fc w',
  hinv D -> 0 <= a -> a mod 8 = 0 -> a + 8 <= zlen D ->
  wf_ptr m src -> den true m 0 [] src (VList LPtr vs) -> forallb cvdom vs = true ->
  write_ptr (S f) true (dstw D cap m rl) 0 a InSrc src fc = Ok w' ->
  exists word body cap' rl',
    w' = dstw (put_word D a word ++ body) cap' m rl' /\ hinv (D ++ body) /\
    forall pre' tail, zlen pre' = zlen D -> word_is pre' a word -> zlen (pre' ++ body ++ tail) <= BOUND ->
      reads_as (pre' ++ body ++ tail) a (VList LPtr vs).
Proof.
  intros HC D cap rl a src vs fc w' Hi Ha Ham Hab Hwf D0 Hsd H.
  destruct (CanonMListP.den_ptrs_inv m _ _ D0) as (Hv & Hk & Hb & Hc & Hsz & Lvs & K).
  destruct (den_elem true m 0 [] src LPtr vs Hm D0 Hv) as (_ & _ & _ & DE).
  destruct (Hwf Hv) as (Hseg & Hobj). unfold wf_obj in Hobj. rewrite Hk, Hb, Hsz in Hobj.
  destruct Hobj as (Ho & Hlen & _ & Hbd). change (totalSize (mkOS 0 1)) with 8 in Hbd.
  assert (Hsl : zlen (seg_of m src) <= 4294967288) by (apply seg_of_ok; assumption).
  destruct Hi as [Hi1 Hi2]. assert (Z0 : 0 <= zlen D) by (unfold zlen; lia).
  set (n := p_len src) in *.
  assert (Esz : list_allocSize src = 8 * n).
  { unfold list_allocSize. rewrite Hv, Hb, Hc, Hsz. cbn [negb]. change (totalSize (mkOS 0 1)) with 8. fold n.
    rewrite times_some by (unfold maxSegmentSize; lia). reflexivity. }
  rewrite write_ptr_S in H. rewrite Hv, Hk in H. cbn [negb] in H.
  replace (fc || is_src InSrc) with true in H by (cbn [is_src]; rewrite Bool.orb_true_r; reflexivity).
  cbv zeta in H. rewrite Esz in H. cbn [w_dst dstw] in H.
  destruct (alloc (seg0 D cap) 0 (8 * n)) as [[[m1 sid1] addr]| |] eqn:Ea; try discriminate H.
  pose proof (alloc_bound D cap (8 * n) m1 sid1 addr ltac:(lia) ltac:(lia) Ea) as Hbound0.
  destruct (alloc_seg0 D cap (8 * n) m1 sid1 addr Hi1 ltac:(lia) Ea) as (cap1 & -> & -> & ->).
  rewrite (padToWord_mult (8 * n)) in * by lia.
  cbn [bind] in H. rewrite Hc, Hb, Hsz in H. cbn [bind PointerCount orb] in H. change (1 =? 0) with false in H. cbv iota in H.
  unfold list_len in H. rewrite Hv in H. fold n in H.
  set (D1 := D ++ repeat 0 (Z.to_nat (8 * n))) in *.
  change (w_set_dst (dstw D cap m rl) (seg0 D1 cap1)) with (dstw D1 cap1 m rl) in H.
  assert (L1 : zlen D1 = zlen D + 8 * n) by (unfold D1; rewrite zlen_app; unfold zlen; rewrite repeat_length; lia).
  set (dstl := mkPtr true 0 (zlen D) n (mkOS 0 1) maxDepth KList false false false) in *.
  match type of H with context [fold_res (iota (Z.to_nat n)) ?w0 ?st] => set (step := st) in * end.
  set (P := fun (i : Z) (M : list Z) => zlen M <= BOUND -> reads_as M (zlen D + 8 * i) (nthv (sptrs (nthv vs i)) 0)).
  assert (Hstep : forall i D0' cap0 rl0 w0, 0 <= i < Z.of_nat (Z.to_nat n) -> hinv D0' -> zlen D + 8 * Z.of_nat (Z.to_nat n) <= zlen D0' ->
            step (dstw D0' cap0 m rl0) i = Ok w0 ->
            exists word body cap' rl',
              w0 = dstw (put_word D0' (zlen D + 8 * i) word ++ body) cap' m rl' /\ hinv (D0' ++ body) /\
              forall pre' tail, zlen pre' = zlen D0' -> word_is pre' (zlen D + 8 * i) word -> P i (pre' ++ body ++ tail)).
  { intros i D0' cap0 rl0 w0 Hi0 Hinv0 Hb0 Hs0. unfold step in Hs0.
    assert (Hin : 0 <= i < n) by lia.
    assert (EA : list_struct true dstl i
                 = Ok (mkPtr true 0 (zlen D + 8 * i) 0 (mkOS 0 1) (if true && (maxDepth =? 0) then 0 else uint_dec maxDepth) KStruct false false true)).
    { unfold list_struct, dstl. cbn [p_valid p_len p_bit p_off p_size p_seg p_depth negb orb].
      destruct ((i <? 0) || (i >=? n)) eqn:E1; [lia|]. change (totalSize (mkOS 0 1)) with 8.
      rewrite CanonMListP.element_some by lia. f_equal. f_equal. lia. }
    rewrite EA in Hs0. cbn [bind] in Hs0.
    set (de := mkPtr true 0 (zlen D + 8 * i) 0 (mkOS 0 1) (if true && (maxDepth =? 0) then 0 else uint_dec maxDepth) KStruct false false true) in *.
    assert (Ex : exists se, list_struct true src i = Ok se).
    { unfold list_struct. rewrite Hv, Hb. cbn [negb orb]. fold n.
      destruct ((i <? 0) || (i >=? n)) eqn:E; [lia|].
      destruct (element (p_off src) i (totalSize (p_size src))); eexists; reflexivity. }
    destruct Ex as (se & El). rewrite El in Hs0. cbn [bind] in Hs0.
    assert (Hbi : 0 <= p_off src + i * totalSize (p_size src) <= zlen (seg_of m src)) by (rewrite Hsz; change (totalSize (mkOS 0 1)) with 8; lia).
    pose proof (list_struct_elem m src i se Hm Hv Hb ltac:(lia) Hbi El) as Hcore.
    pose proof (list_struct_safe true m src i Hm (conj Hwf (fun _ => Hk)) ltac:(unfold list_len; rewrite Hv; lia)) as SS.
    rewrite El in SS. cbn [res_sat] in SS. destruct SS as [We Ke].
    destruct Hcore as (Cv & Cs & Co & Cl & Cz & Ck & Cc & Cb).
    assert (Ve : p_valid se = true) by (rewrite Cv; reflexivity).
    assert (Kse : p_kind se = KStruct) by (rewrite Ck; reflexivity).
    assert (De : den true m 0 [] se (nthv vs i)).
    { eapply den_core; [|apply (DE i); lia]. unfold same_core. repeat split; symmetry; assumption. }
    assert (Ale : aligned se) by (intros _; rewrite Cz; cbn [elem_ptr p_size]; rewrite Hsz; reflexivity).
    destruct (K i Hin) as (dep & rlk & q & rlk' & vi & RK & DK & Evi).
    rewrite Evi in De.
    assert (SDi : forallb cvdom [vi] = true).
    { assert (SD0 : cvdom (nthv vs i) = true).
      { unfold nthv. eapply forallb_In; [exact Hsd|]. apply nth_In. unfold zlen in *. lia. }
      rewrite Evi in SD0. exact SD0. }
    assert (Hdst : dst_at de (zlen D + 8 * i) 0 1) by (unfold dst_at, de; cbn; repeat split; reflexivity).
    destruct (HC D0' cap0 rl0 de se [] [vi] (zlen D + 8 * i) 0 1 w0 Hinv0 Hdst ltac:(lia) ltac:(lia)
                 ltac:(lia) ltac:(lia) ltac:(lia) Ve Kse We Ale De SDi Hs0)
      as (pwords & kids & cap2 & rl2 & Lp & -> & Hinv2 & PostC).
    destruct pwords as [|pw [|? ?]]; try (unfold zlen in Lp; cbn [length] in Lp; lia).
    cbn [Z.to_nat resize_words firstn repeat app Nat.sub length] in *.
    exists pw, kids, cap2, rl2. split; [rewrite set_slots_one; reflexivity|]. split; [exact Hinv2|].
    intros pre' tail Lp' Hwd Hbound.
    pose proof (PostC pre' tail Lp') as R. replace (8 * (0 + 1)) with 8 in R by lia.
    specialize (R ltac:(unfold word_is in Hwd; rewrite Hwd; unfold bytes_of_words; cbn [flat_map]; rewrite app_nil_r; reflexivity) Hbound 0 ltac:(lia)).
    replace (zlen D + 8 * i + 8 * 0 + 8 * 0) with (zlen D + 8 * i) in R by lia.
    rewrite Evi. cbn [sptrs]. unfold resize_ptrs in R. cbn [Z.to_nat Pos.to_nat Pos.iter_op Nat.add firstn length Nat.sub repeat app] in R.
    exact R. }
  destruct (fold_res (iota (Z.to_nat n)) (dstw D1 cap1 m rl) step) as [w3| |] eqn:E1; try discriminate H. cbn [bind] in H.
  destruct (sem_loop step m (zlen D) (Z.to_nat n) P ltac:(lia) Hi1 Hstep (Z.to_nat n) (le_n _) D1 cap1 rl w3
                     ltac:(split; lia) ltac:(rewrite L1; lia) E1)
    as (words & kids & cap2 & rl2 & Lw & -> & Hinvk & PostL).
  assert (Edata : set_slots D1 (zlen D) words = D ++ bytes_of_words words).
  { unfold D1. replace (Z.to_nat (8 * n)) with (8 * length words)%nat by lia. apply set_slots_end. }
  rewrite Edata in H.
  cbn [p_comp p_seg p_off dstl] in H.
  assert (Elr : list_raw dstl = Ok (rawListPointer 0 6 n)) by reflexivity.
  rewrite Elr in H. cbn [bind] in H.
  unfold place in H. cbn [w_dst dstw] in H. change (0 =? 0) with true in H. cbv iota in H. unfold lift0 in H.
  assert (Lbw : zlen (bytes_of_words words) = 8 * n) by (unfold zlen; rewrite bow_length; lia).
  assert (Lk0 : 0 <= zlen kids) by (unfold zlen; lia).
  assert (Hk2 : zlen D + 8 * n + zlen kids <= BOUND).
  { destruct Hinvk as [_ X]. rewrite zlen_app, L1 in X. unfold BOUND. lia. }
  rewrite writeRaw_seg0 in H by (rewrite ?zlen_app, ?Lbw; unfold BOUND in *; lia). cbn [bind] in H.
  apply Ok_inj in H. subst w'.
  set (word := withOffset (rawListPointer 0 6 n) (nearPointerOffset a (zlen D))) in *.
  exists word, (bytes_of_words words ++ kids), cap2, rl2.
  split.
  { unfold dstw, w_set_dst. cbn [w_src w_src_rl]. f_equal. f_equal. rewrite <- app_assoc. apply put_word_app_left; lia. }
  split.
  { unfold hinv in *. rewrite !zlen_app in *. rewrite L1 in Hinvk. rewrite Lbw. lia. }
  intros pre' tail Lp' Hw Hbound.
  set (M := pre' ++ (bytes_of_words words ++ kids) ++ tail) in *.
  assert (LM : zlen M = zlen D + 8 * n + zlen kids + zlen tail) by (unfold M; rewrite !zlen_app, Lbw; lia).
  assert (Lt0 : 0 <= zlen tail) by (unfold zlen; lia).
  assert (HwM : word_is M a word) by (unfold word_is, M in *; rewrite sub_app_l by lia; exact Hw).
  destruct (read_near_list true M a (zlen D) 6 n 1 ltac:(lia) Hlen Ha Ham ltac:(lia) ltac:(unfold BOUND in *; lia) Z0 Hi1) as (rl' & RR).
  - cbv zeta. rewrite (elementSize_raw 6 n) by lia. change (6 =? 1) with false. cbv iota.
    change (totalSize (es_of 6)) with 8. lia.
  - exact HwM.
  - lia.
  - cbv zeta in RR. rewrite (elementSize_raw 6 n) in RR by lia. change (6 =? 1) with false in RR. cbv iota in RR.
    change (es_of 6) with (mkOS 0 1) in RR.
    set (q := mkPtr true 0 (zlen D) n (mkOS 0 1) (uint_dec 1) KList false false false) in *.
    exists 1, 4294967288, q, rl'. split; [exact RR|]. intros mid caps.
    assert (EM : M = (pre' ++ bytes_of_words words) ++ kids ++ tail) by (unfold M; rewrite <- !app_assoc; reflexivity).
    assert (Hblock : sub (pre' ++ bytes_of_words words) (zlen D) (8 * Z.of_nat (Z.to_nat n)) = bytes_of_words words).
    { rewrite sub_app_r by lia. rewrite Lp', Z.sub_diag. unfold sub. cbn [Z.to_nat skipn]. apply firstn_all2.
      rewrite bow_length. lia. }
    apply den_ptrs; try reflexivity; try assumption.
    intros i Hi0. cbn [q p_len] in Hi0.
    destruct (K i Hi0) as (dep & rlk & q0 & rlk' & vi & RK & DK & Evi).
    pose proof (PostL (pre' ++ bytes_of_words words) tail ltac:(rewrite zlen_app, Lbw, L1; lia) Hblock i ltac:(lia)) as R.
    unfold P in R. rewrite <- EM in R. specialize (R Hbound).
    destruct R as (dep1 & rl1 & q1 & rl1' & R1 & D1').
    exists dep1, rl1, q1, rl1', vi. cbn [q p_seg p_off]. unfold seg_of. cbn [p_seg Z.to_nat nth].
    split; [exact R1|]. split; [|exact Evi]. rewrite Evi in D1'. cbn [sptrs nthv Z.to_nat nth] in D1'. exact (D1' mid caps).
Qed.

(* den of a struct of the single segment M from its block: data words and pointer slots *)
Lemma struct_den M q A dn pn dws vs' :
  p_valid q = true -> p_kind q = KStruct -> p_seg q = 0 -> p_off q = A -> p_size q = mkOS (8 * dn) pn ->
  0 <= A -> 0 <= dn <= 65535 -> 0 <= pn < 65536 -> A + 8 * dn + 8 * pn <= zlen M -> zlen M <= BOUND ->
  zlen dws = dn -> Forall w64 dws -> sub M A (8 * dn) = bytes_of_words dws ->
  zlen vs' = pn ->
  (forall i, 0 <= i < pn -> reads_as M (A + 8 * dn + 8 * i) (nthv vs' i)) ->
  forall mid caps, den true [M] mid caps q (VStruct dws vs').
Proof.
  intros Hv Hk Hs Ho Hsz HA Hdn Hpn Hb Hl Ldw Hw Hsub Lvs Hp mid caps.
  rewrite <- (words_of_bytes_of_words dws Hw).
  apply den_struct; try assumption.
  - rewrite Hsz. unfold wf_size. cbn [DataSize PointerCount]. lia.
  - unfold seg_of. rewrite Hs, Ho, Hsz. cbn [Z.to_nat nth DataSize]. rewrite slice_ok by (unfold BOUND in *; lia).
    rewrite Hsub. reflexivity.
  - rewrite Hsz. exact Lvs.
  - intros i Hi. rewrite Hsz in Hi. cbn [PointerCount] in Hi.
    destruct (Hp i Hi) as (dep & rl & q0 & rl' & R & Dq). exists dep, rl, q0, rl'.
    unfold seg_of. rewrite Hs. cbn [Z.to_nat nth].
    rewrite pointerAddress_eq by (rewrite ?Ho, ?Hsz; cbn [DataSize]; unfold BOUND in *; lia).
    rewrite Ho, Hsz. cbn [DataSize]. split; [exact R|exact (Dq mid caps)].
Qed.


(* ------------------------------------------------------------------ struct lists *)
Lemma wp_comp_list f : P_cs f -> forall D cap rl a src vs fc w',
  hinv D -> 0 <= a -> a mod 8 = 0 -> a + 8 <= zlen D ->
  wf_ptr m src -> caligned src -> ctag_ok m src -> den true m 0 [] src (VList LComp vs) -> forallb cvdom vs = true ->
  write_ptr (S f) true (dstw D cap m rl) 0 a InSrc src fc = Ok w' ->
  exists word body cap' rl',
    w' = dstw (put_word D a word ++ body) cap' m rl' /\ hinv (D ++ body) /\
    forall pre' tail, zlen pre' = zlen D -> word_is pre' a word -> zlen (pre' ++ body ++ tail) <= BOUND ->
      reads_as (pre' ++ body ++ tail) a (VList LComp vs).
Proof.
  intros HC D cap rl a src vs fc w' Hi Ha Ham Hab Hwf Hcal Hctg D0 Hsd H.
  destruct (den_comp_inv m _ _ D0) as (Hv & Hk & Hb & Hc & Hws & Lvs & DE).
  destruct (Hcal Hc) as [Hal _].
  destruct (Hctg Hv Hk Hc) as (Ho8 & t & Et & T64 & Tpt & Tsz & Tn).
  destruct (Hwf Hv) as (Hseg & Hobj). unfold wf_obj in Hobj. rewrite Hk, Hb in Hobj.
  destruct Hobj as (Ho & Hlen & _ & Hbd).
  assert (Hsl : zlen (seg_of m src) <= 4294967288) by (apply seg_of_ok; assumption).
  destruct Hi as [Hi1 Hi2]. assert (Z0 : 0 <= zlen D) by (unfold zlen; lia).
  destruct Hws as [Hws1 Hws2].
  set (n := p_len src) in *. set (dn := DataSize (p_size src) / 8) in *. set (pn := PointerCount (p_size src)) in *.
  set (bw := dn + pn) in *.
  assert (Eds : DataSize (p_size src) = 8 * dn) by (unfold dn; lia).
  assert (Esize : p_size src = mkOS (8 * dn) pn).
  { unfold pn. rewrite <- Eds. destruct (p_size src) as [ds pc]. reflexivity. }
  assert (Ets : totalSize (p_size src) = 8 * bw) by (unfold totalSize, pointerSize, u32, bw, pn; rewrite Eds; lia).
  rewrite Ets in Hbd.
  assert (Shape : forall i, 0 <= i < n -> exists ws ps, nthv vs i = VStruct ws ps /\ zlen ws = dn /\ zlen ps = pn).
  { intros i Hi0. destruct (comp_elem_shape (mkCfg 0 0 true true) m Hm src vs i Hwf Hv Hk Hb Hal Hi0 (DE i Hi0)) as (ws & ps & E & L1 & L2).
    exists ws, ps. split; [exact E|]. split; [lia|exact L2]. }
  assert (Esz : list_allocSize src = 8 * n * bw + 8).
  { unfold list_allocSize. rewrite Hv, Hb, Hc, Ets. cbn [negb]. fold n.
    rewrite times_some by (unfold maxSegmentSize; nia). unfold u32. nia. }
  assert (Bnb : 0 <= n * bw /\ 8 * (n * bw) <= 4294967288) by nia.
  rewrite write_ptr_S in H. rewrite Hv, Hk in H. cbn [negb] in H.
  replace (fc || is_src InSrc) with true in H by (cbn [is_src]; rewrite Bool.orb_true_r; reflexivity).
  cbv zeta in H. rewrite Esz in H. cbn [w_dst dstw] in H.
  destruct (alloc (seg0 D cap) 0 (8 * n * bw + 8)) as [[[m1 sid1] addr]| |] eqn:Ea; try discriminate H.
  pose proof (alloc_bound D cap (8 * n * bw + 8) m1 sid1 addr ltac:(lia) ltac:(lia) Ea) as Hbound0.
  destruct (alloc_seg0 D cap (8 * n * bw + 8) m1 sid1 addr Hi1 ltac:(lia) Ea) as (cap1 & -> & -> & ->).
  rewrite (padToWord_mult (8 * n * bw + 8)) in * by lia.
  cbn [bind] in H. rewrite Hc in H. cbn [w_segs w_set_dst w_src w_dst dstw] in H.
  change (nth (Z.to_nat (p_seg src)) m []) with (seg_of m src) in H.
  rewrite (u32_id (p_off src - 8)) in H by lia. rewrite Et in H. cbn [bind] in H.
  unfold lift0 in H. cbn [w_dst] in H.
  assert (Lz : zlen (D ++ repeat 0 (Z.to_nat (8 * n * bw + 8))) = zlen D + 8 * n * bw + 8)
    by (rewrite zlen_app; unfold zlen; rewrite repeat_length; lia).
  rewrite writeRaw_seg0 in H by lia. cbn [bind] in H.
  assert (EA : addSize (zlen D) 8 = Some (zlen D + 8)).
  { unfold addSize, maxSegmentSize. cbv zeta. destruct (zlen D + 8 >? 4294967288) eqn:E; [lia|reflexivity]. }
  rewrite EA in H. cbn [bind] in H. rewrite (u32_id (8 * n * bw + 8 - 8)) in H by lia.
  replace (8 * n * bw + 8 - 8) with (8 * n * bw) in H by lia.
  assert (Edata1 : put_word (D ++ repeat 0 (Z.to_nat (8 * n * bw + 8))) (zlen D) t
                   = (D ++ le_encode 8 t) ++ repeat 0 (Z.to_nat (8 * n * bw))).
  { pose proof (put_word_mid D (repeat 0 (Z.to_nat (8 * n * bw + 8))) [] t ltac:(rewrite repeat_length; lia)) as E.
    rewrite !app_nil_r in E. fold (zlen D) in E. rewrite E, skipn_repeat, <- app_assoc. f_equal. f_equal. f_equal. lia. }
  rewrite Edata1 in H.
  set (DT := D ++ le_encode 8 t) in *.
  assert (LT : zlen DT = zlen D + 8) by (unfold DT; rewrite zlen_app; unfold zlen; rewrite le_encode_length; lia).
  set (D1 := DT ++ repeat 0 (Z.to_nat (8 * n * bw))) in *.
  assert (L1 : zlen D1 = zlen D + 8 + 8 * n * bw) by (unfold D1; rewrite zlen_app, LT; unfold zlen; rewrite repeat_length; lia).
  rewrite Hb in H. cbn [orb] in H.
  set (dstl := mkPtr true 0 (zlen D + 8) n (p_size src) maxDepth KList true false false) in *.
  (* the elements are struct pointers of the same sizes as the source's *)
  set (elemq := fun i : Z => mkPtr true 0 (zlen D + 8 + i * (8 * bw)) 0 (p_size src) 0 KStruct false false true).
  set (P := fun (i : Z) (M : list Z) => zlen M <= BOUND -> forall mid caps, den true [M] mid caps (elemq i) (nthv vs i)).
  assert (Finish : forall cap3 rl3 (w3 : world) words kids,
            w3 = dstw (set_slots D1 (zlen D + 8) words ++ kids) cap3 m rl3 -> zlen words = bw * n -> hinv (D1 ++ kids) ->
            (forall pre' tail, zlen pre' = zlen D1 -> sub pre' (zlen D + 8) (8 * bw * n) = bytes_of_words words ->
               forall i, 0 <= i < n -> P i (pre' ++ kids ++ tail)) ->
            (do raw <- list_raw dstl; place w3 0 a (p_seg dstl) (if p_comp dstl then u32 (p_off dstl - 8) else p_off dstl) raw) = Ok w' ->
            exists word body cap' rl',
              w' = dstw (put_word D a word ++ body) cap' m rl' /\ hinv (D ++ body) /\
              forall pre' tail, zlen pre' = zlen D -> word_is pre' a word -> zlen (pre' ++ body ++ tail) <= BOUND ->
                reads_as (pre' ++ body ++ tail) a (VList LComp vs)).
  { intros cap3 rl3 w3 words kids -> Lw Hinvk PostL HP.
    assert (Edata : set_slots D1 (zlen D + 8) words = DT ++ bytes_of_words words).
    { unfold D1. replace (Z.to_nat (8 * n * bw)) with (8 * length words)%nat by (unfold zlen in *; lia).
      rewrite <- LT. apply set_slots_end. }
    rewrite Edata in HP.
    assert (Elr : list_raw dstl = Ok (rawListPointer 0 7 (n * bw))).
    { unfold list_raw, dstl. cbn [p_valid p_comp p_size p_len negb]. unfold totalWordCount, dataWordCount. rewrite Eds.
      replace (8 * dn mod 8 =? 0) with true by lia. fold pn.
      replace (8 * dn / 8) with dn by lia. fold bw.
      f_equal. f_equal. unfold s32. cbv zeta.
      repeat match goal with |- context [if ?c then _ else _] => destruct c eqn:? end; nia. }
    rewrite Elr in HP. cbn [bind p_comp p_seg p_off dstl] in HP. rewrite (u32_id (zlen D + 8 - 8)) in HP by lia.
    replace (zlen D + 8 - 8) with (zlen D) in HP by lia.
    unfold place in HP. cbn [w_dst dstw] in HP. change (0 =? 0) with true in HP. cbv iota in HP. unfold lift0 in HP.
    assert (Lbw : zlen (bytes_of_words words) = 8 * n * bw) by (unfold zlen in *; rewrite bow_length; lia).
    assert (Lk0 : 0 <= zlen kids) by (unfold zlen; lia).
    assert (Hk2 : zlen D + 8 + 8 * n * bw + zlen kids <= BOUND).
    { destruct Hinvk as [_ X]. rewrite zlen_app, L1 in X. unfold BOUND. lia. }
    rewrite writeRaw_seg0 in HP by (rewrite ?zlen_app, ?LT, ?Lbw; unfold BOUND in *; lia). cbn [bind] in HP.
    apply Ok_inj in HP. subst w'.
    set (word := withOffset (rawListPointer 0 7 (n * bw)) (nearPointerOffset a (zlen D))) in *.
    exists word, ((le_encode 8 t ++ bytes_of_words words) ++ kids), cap3, rl3.
    split.
    { unfold dstw, w_set_dst. cbn [w_src w_src_rl]. f_equal. f_equal. unfold DT.
      rewrite <- !app_assoc. apply put_word_app_left; lia. }
    split.
    { assert (L8' : zlen (le_encode 8 t) = 8) by (unfold zlen; rewrite le_encode_length; lia).
      destruct Hinvk as [X1 X2]. rewrite zlen_app, L1 in X1, X2. split; rewrite !zlen_app, L8', Lbw; lia. }
    intros pre' tail Lp' Hw Hbound.
    set (M := pre' ++ ((le_encode 8 t ++ bytes_of_words words) ++ kids) ++ tail) in *.
    assert (L8 : zlen (le_encode 8 t) = 8) by (unfold zlen; rewrite le_encode_length; lia).
    assert (LM : zlen M = zlen D + 8 + 8 * n * bw + zlen kids + zlen tail) by (unfold M; rewrite !zlen_app, Lbw, L8; lia).
    assert (Lt0 : 0 <= zlen tail) by (unfold zlen; lia).
    assert (HwM : word_is M a word) by (unfold word_is, M in *; rewrite sub_app_l by lia; exact Hw).
    assert (HtM : word_is M (zlen D) t).
    { unfold word_is, M. rewrite sub_app_r by lia. rewrite Lp', Z.sub_diag. rewrite <- !app_assoc.
      rewrite sub_app_l by lia. unfold sub. cbn [Z.to_nat skipn]. apply firstn_all2. rewrite le_encode_length. lia. }
    assert (Owf : os_wf (p_size src)) by (unfold os_wf; fold pn; lia).
    assert (Hwc : 0 <= n * bw < 536870912) by (split; [lia|nia]).
    assert (Hts' : totalSize (p_size src) * n = 8 * (n * bw)) by (rewrite Ets; lia).
    assert (HrdM : readRawPointer M (zlen D) = Ok t) by (apply rd_word; try assumption; unfold BOUND in *; lia).
    destruct (read_near_comp true M a (zlen D) n (p_size src) (n * bw) t 1 Hwc ltac:(lia) Owf Hts' Ha Ham ltac:(lia)
                ltac:(unfold BOUND in *; lia) Z0 Hi1 ltac:(lia) HwM HrdM Tpt Tsz Tn ltac:(lia)) as (rl' & RR).
    { set (q := mkPtr true 0 (zlen D + 8) n (p_size src) (uint_dec 1) KList true false false) in *.
      exists 1, 4294967288, q, rl'. split; [exact RR|]. intros mid caps.
      assert (EM : M = (pre' ++ le_encode 8 t ++ bytes_of_words words) ++ kids ++ tail) by (unfold M; rewrite <- !app_assoc; reflexivity).
      assert (Hblock : sub (pre' ++ le_encode 8 t ++ bytes_of_words words) (zlen D + 8) (8 * bw * n) = bytes_of_words words).
      { rewrite app_assoc. rewrite sub_app_r by (rewrite ?zlen_app, ?L8; lia). rewrite zlen_app, L8, Lp'.
        replace (zlen D + 8 - (zlen D + 8)) with 0 by lia. unfold sub. cbn [Z.to_nat skipn]. apply firstn_all2. unfold zlen in Lbw. lia. }
      apply den_comp; try reflexivity; try assumption.
      + split; assumption.
      + intros i Hi0. cbn [q p_len] in Hi0.
        pose proof (PostL (pre' ++ le_encode 8 t ++ bytes_of_words words) tail ltac:(rewrite !zlen_app, L8, Lbw, L1; lia) Hblock i Hi0) as R.
        unfold P in R. rewrite <- EM in R. specialize (R Hbound mid caps).
        eapply den_core; [|exact R]. unfold elemq, elem_ptr, q. cbn [p_seg p_off p_size]. rewrite Ets.
        repeat split. } }
  destruct (PointerCount (p_size src) =? 0) eqn:Epc.
  - (* elements without pointers: the bytes are copied *)
    assert (Epn : pn = 0) by (unfold pn; lia).
    unfold copy_bytes in H. cbn [w_segs w_src w_dst w_set_dst dstw] in H.
    change (nth (Z.to_nat (p_seg src)) m []) with (seg_of m src) in H.
    rewrite slice_ok in H by (unfold bw in *; nia). cbn [bind] in H.
    set (bs := sub (seg_of m src) (p_off src) (8 * n * bw)) in *.
    assert (Lbs : zlen bs = 8 * n * bw) by (unfold bs; apply sub_length; nia).
    unfold lift0 in H. cbn [w_dst] in H.
    rewrite seg_write_raw in H; [| lia | fold bs; rewrite ?L1, ?Lbs; lia | rewrite ?L1; lia].
    cbn [bind] in H.
    assert (Ewb : write_bytes D1 (zlen D + 8) bs = DT ++ bs).
    { unfold D1. rewrite <- LT. rewrite write_bytes_end by (unfold zlen in *; lia).
      replace (Z.to_nat (8 * n * bw) - length bs)%nat with 0%nat by (unfold zlen in *; lia). cbn [repeat]. rewrite app_nil_r. reflexivity. }
    rewrite Ewb in H. cbn [bind] in H.
    assert (Hbsok : bytes_ok bs) by (unfold bs, sub; apply Forall_firstn', Forall_skipn'; apply (seg_of_ok m src Hm)).
    assert (Hmod : (length bs mod 8 = 0)%nat).
    { apply Nat2Z.inj. rewrite Nat2Z.inj_mod. unfold zlen in Lbs. rewrite Lbs. change (Z.of_nat 8) with 8. change (Z.of_nat 0) with 0. lia. }
    set (words := words_of_bytes bs).
    assert (Ebw : bytes_of_words words = bs) by (apply bow_wob; assumption).
    assert (Lw : zlen words = bw * n).
    { pose proof (f_equal (@length Z) Ebw) as E. rewrite bow_length in E. unfold zlen in *. lia. }
    assert (Ew : DT ++ bs = set_slots D1 (zlen D + 8) words ++ []).
    { rewrite app_nil_r. unfold D1. rewrite <- LT. replace (Z.to_nat (8 * n * bw)) with (8 * length words)%nat by (unfold zlen in *; lia).
      rewrite set_slots_end, Ebw. reflexivity. }
    rewrite Ew in H.
    refine (Finish cap1 rl _ words [] eq_refl Lw _ _ H).
    + rewrite app_nil_r. split; lia.
    + intros pre' tail Lp' Hs i Hi0 Hbound mid caps. cbn [app] in *.
      destruct (Shape i Hi0) as (ws & ps & Ev & Lws & Lps). rewrite Ev.
      assert (Hib : 0 <= i * (8 * bw) /\ i * (8 * bw) + 8 * bw <= n * (8 * bw)) by nia.
      assert (Hdb : bw = dn) by (unfold bw; lia).
      assert (Hz1 : i * pn = 0 /\ n * pn = 0) by (rewrite Epn; lia).
      assert (Eps : ps = []) by (destruct ps; [reflexivity|unfold zlen in Lps; cbn [length] in Lps; lia]). subst ps.
      (* the source element's words are the words of its bytes *)
      pose proof (DE i Hi0) as Dei. rewrite Ev in Dei.
      destruct (den_struct_inv _ _ _ _ _ _ Dei eq_refl eq_refl) as (d & vs0 & Evd & _ & Sl & _ & _).
      inversion Evd; subst ws vs0; clear Evd. cbn [elem_ptr p_size p_off p_seg seg_of] in Sl.
      rewrite Ets, Eds in Sl. change (nth (Z.to_nat (p_seg src)) m []) with (seg_of m src) in Sl.
      change (seg_of m (elem_ptr src i)) with (seg_of m src) in Sl.
      rewrite slice_ok in Sl by lia. apply Ok_inj in Sl. subst d.
      assert (Lt0 : 0 <= zlen tail) by (unfold zlen; lia).
      set (di := sub (seg_of m src) (p_off src + i * (8 * bw)) (8 * dn)) in *.
      assert (Hdiok : bytes_ok di) by (unfold di, sub; apply Forall_firstn', Forall_skipn'; apply (seg_of_ok m src Hm)).
      assert (Ldi : zlen di = 8 * dn) by (unfold di; apply sub_length; lia).
      assert (Hsz1 : zlen D + 8 + i * (8 * bw) + 8 * dn + 8 * 0 <= zlen (pre' ++ tail)) by (rewrite zlen_app, Lp', L1; lia).
      assert (Hw64 : Forall w64 (words_of_bytes di)) by (apply (wob_w64 (length di)); [lia|exact Hdiok]).
      assert (Hsub : sub (pre' ++ tail) (zlen D + 8 + i * (8 * bw)) (8 * dn) = bytes_of_words (words_of_bytes di)).
      { rewrite sub_app_l by (rewrite ?Lp', ?L1; lia).
        replace (sub pre' (zlen D + 8 + i * (8 * bw)) (8 * dn))
          with (sub (sub pre' (zlen D + 8) (8 * bw * n)) (i * (8 * bw)) (8 * dn)) by (apply sub_sub; lia).
        rewrite Hs, Ebw. unfold bs. rewrite sub_sub by lia. fold di.
        symmetry. apply bow_wob; [exact Hdiok|].
        apply Nat2Z.inj. rewrite Nat2Z.inj_mod. unfold zlen in Ldi. rewrite Ldi. change (Z.of_nat 8) with 8. change (Z.of_nat 0) with 0. lia. }
      apply (struct_den (pre' ++ tail) (elemq i) (zlen D + 8 + i * (8 * bw)) dn 0 (words_of_bytes di) []);
        try reflexivity; try lia; try assumption;
        try (unfold elemq; cbn [p_size]; rewrite Esize, Epn; reflexivity); try (intros j Hj; lia).
  - (* elements with pointers: copyStruct per element *)
    unfold list_len in H. rewrite Hv in H. fold n in H.
    change (w_set_dst (w_set_dst (dstw D cap m rl) (seg0 (D ++ repeat 0 (Z.to_nat (8 * n * bw + 8))) cap1)) (seg0 D1 cap1)) with (dstw D1 cap1 m rl) in H.
    match type of H with context [fold_res (iota (Z.to_nat n)) ?w0 ?st] => set (step := st) in * end.
    assert (Hstep : forall i D0' cap0 rl0 w0, 0 <= i < Z.of_nat (Z.to_nat n) -> hinv D0' ->
              (zlen D + 8) + 8 * bw * Z.of_nat (Z.to_nat n) <= zlen D0' ->
              step (dstw D0' cap0 m rl0) i = Ok w0 ->
              exists block body cap' rl',
                zlen block = bw /\
                w0 = dstw (set_slots D0' ((zlen D + 8) + 8 * bw * i) block ++ body) cap' m rl' /\ hinv (D0' ++ body) /\
                forall pre' tail, zlen pre' = zlen D0' -> sub pre' ((zlen D + 8) + 8 * bw * i) (8 * bw) = bytes_of_words block ->
                  P i (pre' ++ body ++ tail)).
    { intros i D0' cap0 rl0 w0 Hi0 Hinv0 Hb0 Hs0. unfold step in Hs0.
      assert (Hin : 0 <= i < n) by lia.
      assert (Hblk : bw * i + bw <= bw * n) by (unfold bw in *; nia).
      set (A := (zlen D + 8) + 8 * bw * i) in *.
      assert (EAl : list_struct true dstl i
                   = Ok (mkPtr true 0 A 0 (p_size src) (if true && (maxDepth =? 0) then 0 else uint_dec maxDepth) KStruct false false true)).
      { unfold list_struct, dstl. cbn [p_valid p_len p_bit p_off p_size p_seg p_depth negb orb].
        destruct ((i <? 0) || (i >=? n)) eqn:E1; [lia|]. rewrite Ets.
        rewrite CanonMListP.element_some by (unfold bw in *; nia). f_equal. f_equal. unfold A. lia. }
      fold dstl in Hs0. rewrite EAl in Hs0. cbn [bind] in Hs0.
      set (de := mkPtr true 0 A 0 (p_size src) (if true && (maxDepth =? 0) then 0 else uint_dec maxDepth) KStruct false false true) in *.
      assert (Ex : exists se, list_struct true src i = Ok se).
      { unfold list_struct. rewrite Hv, Hb. cbn [negb orb]. fold n.
        destruct ((i <? 0) || (i >=? n)) eqn:E; [lia|].
        destruct (element (p_off src) i (totalSize (p_size src))); eexists; reflexivity. }
      destruct Ex as (se & El). rewrite El in Hs0. cbn [bind] in Hs0.
      assert (Hbi : 0 <= p_off src + i * totalSize (p_size src) <= zlen (seg_of m src)) by (rewrite Ets; unfold bw in *; nia).
      pose proof (list_struct_elem m src i se Hm Hv Hb ltac:(lia) Hbi El) as Hcore.
      pose proof (list_struct_safe true m src i Hm (conj Hwf (fun _ => Hk)) ltac:(unfold list_len; rewrite Hv; lia)) as SS.
      rewrite El in SS. cbn [res_sat] in SS. destruct SS as [We Ke].
      destruct Hcore as (Cv & Cs & Co & Cl & Cz & Ck & Cc & Cb).
      assert (Ve : p_valid se = true) by (rewrite Cv; reflexivity).
      assert (Kse : p_kind se = KStruct) by (rewrite Ck; reflexivity).
      assert (De : den true m 0 [] se (nthv vs i)).
      { eapply den_core; [|apply (DE i); lia]. unfold same_core. repeat split; symmetry; assumption. }
      assert (Ale : aligned se) by (intros _; rewrite Cz; exact Hal).
      destruct (Shape i Hin) as (ws & ps & Ev & Lws & Lps).
      rewrite Ev in De.
      assert (SDi : forallb cvdom ps = true).
      { assert (SD0 : cvdom (nthv vs i) = true).
        { unfold nthv. eapply forallb_In; [exact Hsd|]. apply nth_In. unfold zlen in *. lia. }
        rewrite Ev in SD0. exact SD0. }
      assert (Hdst : dst_at de A dn pn) by (unfold dst_at, de; cbn [p_valid p_seg p_off p_size]; repeat split; try reflexivity; exact Esize).
      destruct (HC D0' cap0 rl0 de se ws ps A dn pn w0 Hinv0 Hdst ltac:(unfold A, bw in *; nia) ltac:(unfold A; lia)
                   ltac:(lia) ltac:(unfold pn; lia) ltac:(unfold A, bw in *; nia) Ve Kse We Ale De SDi Hs0)
        as (pwords & kids & cap2 & rl2 & Lp & -> & Hinv2 & PostC).
      assert (Edw : resize_words ws (Z.to_nat dn) = ws).
      { replace (Z.to_nat dn) with (length ws) by (unfold zlen in Lws; lia). apply resize_words_id. }
      rewrite Edw in *.
      exists (ws ++ pwords), kids, cap2, rl2.
      split; [rewrite zlen_app; unfold bw; lia|]. split; [reflexivity|]. split; [exact Hinv2|].
      intros pre' tail Lp' Hs Hbound mid caps. rewrite Ev.
      assert (Lt0 : 0 <= zlen tail) by (unfold zlen; lia). assert (Lk0 : 0 <= zlen kids) by (unfold zlen; lia).
      destruct Hinv0 as [Hu1 Hu2].
      assert (Hsz1 : A + 8 * dn + 8 * pn <= zlen (pre' ++ kids ++ tail)) by (rewrite !zlen_app, Lp'; unfold A, bw in *; nia).
      assert (Hw64 : Forall w64 ws).
      { destruct (den_struct_inv _ _ _ _ _ _ De Ve Kse) as (d & vs0 & Evd & _ & Sl & _ & _). inversion Evd; subst.
        apply (wob_w64 (length d)); [lia|]. eapply slice_bytes_ok; eassumption. }
      assert (Hsub : sub (pre' ++ kids ++ tail) A (8 * dn) = bytes_of_words ws).
      { rewrite sub_app_l by (rewrite ?Lp'; unfold A, bw in *; nia).
        replace (sub pre' A (8 * dn)) with (sub (sub pre' A (8 * bw)) 0 (8 * dn)) by (rewrite sub_sub by (unfold bw; lia); f_equal; lia).
        rewrite Hs, bow_app, sub_app_l by (unfold zlen; rewrite ?bow_length; unfold zlen in *; lia).
        unfold sub. cbn [Z.to_nat skipn]. apply firstn_all2. rewrite bow_length. unfold zlen in *. lia. }
      assert (Hkids : forall j, 0 <= j < pn -> reads_as (pre' ++ kids ++ tail) (A + 8 * dn + 8 * j) (nthv ps j)).
      { intros j Hj.
        pose proof (PostC pre' tail Lp' ltac:(unfold bw in Hs; exact Hs) Hbound j Hj) as R.
        replace (Z.to_nat pn) with (length ps) in R by (unfold zlen in Lps; lia). rewrite resize_ptrs_id in R. exact R. }
      apply (struct_den (pre' ++ kids ++ tail) (elemq i) A dn pn ws ps); try reflexivity; try lia; try assumption;
        try (unfold elemq, A; cbn [p_off p_size]; try exact Esize; lia); try (unfold pn; lia). }
    destruct (fold_res (iota (Z.to_nat n)) (dstw D1 cap1 m rl) step) as [w3| |] eqn:E1; try discriminate H. cbn [bind] in H.
    assert (Hn0 : Z.of_nat (Z.to_nat n) = n) by lia.
    destruct (sem_blocks_loop step m (zlen D + 8) bw (Z.to_nat n) P ltac:(lia) ltac:(lia) ltac:(unfold bw; lia) Hstep
                 (Z.to_nat n) (le_n _) D1 cap1 rl w3 ltac:(split; lia) ltac:(rewrite L1, Hn0; lia) E1)
      as (words & kids & cap2 & rl2 & Lw & -> & Hinvk & PostL).
    rewrite Hn0 in *.
    refine (Finish cap2 rl2 _ words kids eq_refl Lw Hinvk _ H).
    intros pre' tail Lp' Hs i Hi0. apply (PostL pre' tail Lp' Hs i Hi0).
Qed.

Lemma wp_step f : P_cs f -> P_wp (S f).
Proof.
  intros HC D cap rl a src v fc w' Hi Ha Ham Hab Hwf Hal Hcal Hctg D0 Hsd H.
  pose proof H as H0. pose proof Hi as Hinv0.
  destruct Hi as [Hi1 Hi2]. assert (Z0 : 0 <= zlen D) by (unfold zlen; lia).
  rewrite write_ptr_S in H.
  destruct (p_valid src) eqn:Hv; cbn [negb] in H.
  2:{ (* null *)
    unfold lift0 in H. cbn [w_dst dstw] in H. rewrite writeRaw_seg0 in H by lia. cbn [bind] in H.
    apply Ok_inj in H. subst w'.
    pose proof (den_null_iff _ _ _ _ _ _ D0) as Hn. rewrite Hv in Hn. destruct v; try discriminate.
    exists 0, [], cap, rl. rewrite !app_nil_r. split; [reflexivity|]. split; [split; assumption|].
    intros pre' tail Lp Hw Hbound. cbn [app] in *.
    apply reads_null; try (rewrite zlen_app in *; unfold zlen in *; lia).
    unfold word_is in *. rewrite sub_app_l by lia. exact Hw. }
  destruct v as [| |ws vs|k vs|bits]; try discriminate Hsd.
  { pose proof (den_null_iff _ _ _ _ _ _ D0) as Hn. rewrite Hv in Hn. discriminate. }
  2:{ destruct k; try discriminate Hsd;
        try (apply (wp_raw_list f D cap rl a src (VList _ vs) fc w'); try assumption; split; discriminate).
      - apply (wp_ptr_list f HC D cap rl a src vs fc w'); assumption.
      - apply (wp_comp_list f HC D cap rl a src vs fc w'); assumption. }
  2:{ apply (wp_raw_list f D cap rl a src (VBits bits) fc w'); try assumption. exact I. }
  assert (Hk : p_kind src = KStruct) by (inversion D0; subst; congruence).
  rewrite Hk in H.
  destruct (den_struct_inv _ _ _ _ _ _ D0 Hv Hk) as (d & vs0 & Ev & Wz & Sl & Lvs & _).
  inversion Ev; subst ws vs0; clear Ev. destruct Wz as [Wd Wp].
  apply slice_eq_sub in Sl as Sl'; [|apply seg_of_ok; assumption| lia]. destruct Sl' as (Ed & B1 & B2).
  assert (Ld : zlen d = DataSize (p_size src)) by (rewrite Ed; apply sub_length; lia).
  assert (Hbd : bytes_ok d) by (eapply slice_bytes_ok; eassumption).
  assert (Hal' : (length d mod 8 = 0)%nat).
  { apply Nat2Z.inj. rewrite Nat2Z.inj_mod. unfold zlen in Ld. rewrite Ld. exact (Hal Hk). }
  pose proof (bow_wob d Hbd Hal') as Ebw. apply (f_equal (@length Z)) in Ebw. rewrite bow_length in Ebw.
  set (ws := words_of_bytes d) in *.
  destruct (os_isZero (p_size src)) eqn:Ez.
  - (* the zero-sized struct: one inline word *)
    destruct (rawStructPointer (-1) (mkOS 0 0)) as [w0|] eqn:Ew0; [|vm_compute in Ew0; discriminate Ew0].
    cbn [of_opt_panic bind] in H. unfold lift0 in H. cbn [w_dst dstw] in H. rewrite writeRaw_seg0 in H by lia. cbn [bind] in H.
    apply Ok_inj in H. subst w'.
    unfold os_isZero in Ez.
    assert (DataSize (p_size src) = 0 /\ PointerCount (p_size src) = 0) as [Ed0 Ep0] by lia.
    assert (Ews : ws = []) by (destruct ws; [reflexivity|cbn [length] in Ebw; unfold zlen in Ld; lia]).
    assert (Evs : vs = []) by (destruct vs; [reflexivity|unfold zlen in Lvs; cbn [length] in Lvs; lia]).
    rewrite Ews, Evs.
    exists w0, [], cap, rl. rewrite !app_nil_r. split; [reflexivity|]. split; [split; assumption|].
    intros pre' tail Lp Hw Hbound. cbn [app] in *.
    assert (Hw' : word_is (pre' ++ tail) a w0) by (unfold word_is in *; rewrite sub_app_l by lia; exact Hw).
    exists 1, 0, (mkPtr true 0 a 0 (mkOS 0 0) (uint_dec 1) KStruct false false false), 0.
    split; [apply (read_empty_struct true (pre' ++ tail) a 1 0 w0 Ew0); try lia; try assumption; rewrite zlen_app; unfold zlen in *; lia|].
    apply (struct_den (pre' ++ tail) _ a 0 0 [] []); try reflexivity; try lia; try (rewrite zlen_app; unfold zlen, BOUND in *; lia); try exact Hbound; try constructor; try (intros i Hi0; lia).
  - (* a struct: allocate the source's sizes, copyStruct, place near *)
    replace (fc || is_src InSrc || p_member src) with true in H by (cbn [is_src]; rewrite Bool.orb_true_r; reflexivity).
    cbv zeta in H.
    set (dn := DataSize (p_size src) / 8) in *. set (pn := PointerCount (p_size src)) in *.
    assert (Eds : DataSize (p_size src) = 8 * dn) by (unfold dn; pose proof (Hal Hk); lia).
    rewrite (padToWord_mult (DataSize (p_size src))) in H by (pose proof (Hal Hk); lia).
    rewrite Eds in H. fold pn in H.
    replace (totalSize (mkOS (8 * dn) pn)) with (8 * dn + 8 * pn) in H
      by (unfold totalSize, pointerSize, u32; cbn [DataSize PointerCount]; unfold pn; lia).
    cbn [w_dst dstw] in H.
    destruct (alloc (seg0 D cap) 0 (8 * dn + 8 * pn)) as [[[m1 sid1] addr]| |] eqn:Ea; try discriminate H.
    pose proof (alloc_bound D cap (8 * dn + 8 * pn) m1 sid1 addr ltac:(unfold pn; lia) ltac:(lia) Ea) as Hbound0.
    destruct (alloc_seg0 D cap (8 * dn + 8 * pn) m1 sid1 addr Hi1 ltac:(unfold pn; lia) Ea) as (cap1 & -> & -> & ->).
    rewrite (padToWord_mult (8 * dn + 8 * pn)) in * by (unfold pn; lia).
    cbn [bind] in H.
    set (dstp := mkPtr true 0 (zlen D) 0 (mkOS (8 * dn) pn) maxDepth KStruct false false false) in *.
    set (D1 := D ++ repeat 0 (Z.to_nat (8 * dn + 8 * pn))) in *.
    change (w_set_dst (dstw D cap m rl) (seg0 D1 cap1)) with (dstw D1 cap1 m rl) in H.
    destruct (copy_struct f true (dstw D1 cap1 m rl) dstp InSrc src) as [w2| |] eqn:Ec; try discriminate H.
    cbn [bind p_size p_seg p_off dstp] in H.
    assert (L1 : zlen D1 = zlen D + 8 * dn + 8 * pn) by (unfold D1; rewrite zlen_app; unfold zlen; rewrite repeat_length; unfold pn; lia).
    assert (Hdst : dst_at dstp (zlen D) dn pn) by (unfold dst_at, dstp; cbn; repeat split; reflexivity).
    assert (Bdn : 0 <= dn <= 65535) by (unfold dn; lia). assert (Bpn : 0 <= pn < 65536) by (unfold pn; lia).
    destruct (HC D1 cap1 rl dstp src ws vs (zlen D) dn pn w2 ltac:(split; lia) Hdst Z0 Hi1 Bdn Bpn ltac:(lia)
                 Hv Hk Hwf Hal D0 Hsd Ec) as (pwords & kids & cap2 & rl2 & Lp & -> & Hinv2 & PostC).
    assert (Edw : resize_words ws (Z.to_nat dn) = ws).
    { replace (Z.to_nat dn) with (length ws) by (unfold zlen in Ld; lia). apply resize_words_id. }
    rewrite Edw in *.
    set (blk := ws ++ pwords) in *.
    assert (Lblk : length blk = Z.to_nat (dn + pn)) by (unfold blk; rewrite app_length; unfold zlen in *; lia).
    assert (Edata : set_slots D1 (zlen D) blk = D ++ bytes_of_words blk).
    { unfold D1. replace (Z.to_nat (8 * dn + 8 * pn)) with (8 * length blk)%nat by lia. apply set_slots_end. }
    rewrite Edata in H.
    assert (Owf : os_wf (mkOS (8 * dn) pn)) by (unfold os_wf; cbn [DataSize PointerCount]; lia).
    destruct (struct_pointer_roundtrip 0 (mkOS (8 * dn) pn) ltac:(unfold off_ok; lia) Owf) as (raw & Eraw & _).
    rewrite Eraw in H. cbn [of_opt_panic bind] in H.
    unfold place in H. cbn [w_dst dstw] in H. change (0 =? 0) with true in H. cbv iota in H.
    unfold lift0 in H.
    assert (Lbb : zlen (bytes_of_words blk) = 8 * dn + 8 * pn) by (unfold zlen; rewrite bow_length; lia).
    assert (Lk0 : 0 <= zlen kids) by (unfold zlen; lia).
    assert (Hk2 : zlen D + (8 * dn + 8 * pn) + zlen kids <= BOUND).
    { destruct Hinv2 as [_ X]. rewrite zlen_app, L1 in X. unfold BOUND. lia. }
    rewrite writeRaw_seg0 in H by (rewrite ?zlen_app, ?Lbb; unfold BOUND in *; lia). cbn [bind] in H.
    apply Ok_inj in H. subst w'.
    set (word := withOffset raw (nearPointerOffset a (zlen D))) in *.
    exists word, (bytes_of_words blk ++ kids), cap2, rl2.
    split.
    { unfold dstw, w_set_dst. cbn [w_src w_src_rl]. f_equal. f_equal.
      rewrite <- app_assoc. apply put_word_app_left; lia. }
    split.
    { unfold hinv in *. rewrite !zlen_app in *. rewrite L1 in Hinv2. rewrite Lbb. lia. }
    intros pre' tail Lp' Hw Hbound.
    set (M := pre' ++ (bytes_of_words blk ++ kids) ++ tail) in *.
    assert (LM : zlen M = zlen D + (8 * dn + 8 * pn) + zlen kids + zlen tail)
      by (unfold M; rewrite !zlen_app, Lbb; lia).
    assert (Lt0 : 0 <= zlen tail) by (unfold zlen; lia).
    assert (HwM : word_is M a word) by (unfold word_is, M in *; rewrite sub_app_l by lia; exact Hw).
    assert (Hnz : os_isZero (mkOS (8 * dn) pn) = false) by (unfold os_isZero in *; cbn [DataSize PointerCount]; rewrite <- Eds; exact Ez).
    set (q := mkPtr true 0 (zlen D) 0 (mkOS (8 * dn) pn) (uint_dec 1) KStruct false false false).
    exists 1, (8 * dn + 8 * pn), q, (8 * dn + 8 * pn - totalSize (mkOS (8 * dn) pn)). split.
    { apply (read_near_struct true M a (zlen D) (mkOS (8 * dn) pn) raw 1 (8 * dn + 8 * pn) Owf Hnz Eraw);
        try lia; try exact HwM; unfold BOUND in *;
        try (unfold totalSize, pointerSize, u32; cbn [DataSize PointerCount]; lia). }
    assert (EM : M = (pre' ++ bytes_of_words blk) ++ kids ++ tail) by (unfold M; rewrite <- !app_assoc; reflexivity).
    assert (Hblock : sub (pre' ++ bytes_of_words blk) (zlen D) (8 * (dn + pn)) = bytes_of_words blk).
    { rewrite sub_app_r by lia. rewrite Lp', Z.sub_diag. unfold sub. cbn [Z.to_nat skipn]. apply firstn_all2.
      rewrite bow_length. lia. }
    apply (struct_den M q (zlen D) dn pn ws vs); try reflexivity; try lia; try exact Hbound.
    + unfold zlen in *. lia.
    + apply (wob_w64 (length d)); [lia|exact Hbd].
    + rewrite EM. rewrite sub_app_l by (rewrite ?zlen_app, ?Lbb; lia).
      replace (sub (pre' ++ bytes_of_words blk) (zlen D) (8 * dn))
        with (sub (sub (pre' ++ bytes_of_words blk) (zlen D) (8 * (dn + pn))) 0 (8 * dn)) by (rewrite sub_sub by lia; f_equal; lia).
      rewrite Hblock. unfold blk. rewrite bow_app, sub_app_l by (unfold zlen; rewrite ?bow_length; unfold zlen in *; lia).
      unfold sub. cbn [Z.to_nat skipn]. apply firstn_all2. rewrite bow_length. unfold zlen in *. lia.
    + intros i Hi0.
      pose proof (PostC (pre' ++ bytes_of_words blk) tail ltac:(rewrite zlen_app, Lbb, L1; lia) Hblock
                        ltac:(rewrite <- EM; exact Hbound) i Hi0) as R.
      rewrite <- EM in R. replace (Z.to_nat pn) with (length vs) in R by (unfold zlen in Lvs; lia).
      rewrite resize_ptrs_id in R. exact R.
Qed.

Theorem P_all : forall f, P_wp f /\ P_cs f.
Proof.
  induction f as [|f [IHw IHc]].
  - split.
    + intros D cap rl a src v fc w' _ _ _ _ _ _ _ _ _ _ H. discriminate H.
    + intros D cap rl dst s ws vs A dn pn w' _ _ _ _ _ _ _ _ _ _ _ _ _ H. discriminate H.
  - split; [apply wp_step; exact IHc| apply cs_step; exact IHw].
Qed.

End Copy.

(* ------------------------------------------------------------------ closed statements *)
(* SetPtr / SetRoot / PointerList.Set of a pointer of another message (deep copy): afterwards the
   slot reads as a pointer denoting the source's value *)
Theorem copy_value_ptr : forall m f D cap rl a src v fc w',
  msg_ok m -> hinv D -> 0 <= a -> a mod 8 = 0 -> a + 8 <= zlen D ->
  wf_ptr m src -> aligned src -> caligned src -> ctag_ok m src -> den true m 0 [] src v -> cvdom v = true ->
  write_ptr f true (dstw D cap m rl) 0 a InSrc src fc = Ok w' ->
  exists D' cap' rl', w' = dstw D' cap' m rl' /\ hinv D' /\ reads_as D' a v.
Proof.
  intros m f D cap rl a src v fc w' Hm Hi Ha Ham Hab Hwf Hal Hcal Hctg D0 Hsd H.
  destruct (P_all m Hm f) as [HW _].
  destruct (HW D cap rl a src v fc w' Hi Ha Ham Hab Hwf Hal Hcal Hctg D0 Hsd H) as (word & body & cap' & rl' & -> & Hinv & Post).
  assert (Lp : zlen (put_word D a word) = zlen D) by (apply put_word_length; lia).
  exists (put_word D a word ++ body), cap', rl'. split; [reflexivity|].
  assert (Hinv' : hinv (put_word D a word ++ body)) by (unfold hinv in *; rewrite zlen_app in *; rewrite Lp; exact Hinv).
  split; [exact Hinv'|].
  specialize (Post (put_word D a word) [] Lp). rewrite app_nil_r in Post. apply Post.
  - unfold word_is, put_word, sub. rewrite skipn_app, skipn_all2 by (rewrite firstn_length; unfold zlen in *; lia).
    rewrite firstn_length. replace (Z.to_nat a - Nat.min (Z.to_nat a) (length D))%nat with 0%nat by (unfold zlen in *; lia).
    cbn [skipn app]. rewrite firstn_app, firstn_all2 by (rewrite le_encode_length; lia).
    rewrite le_encode_length. cbn [Z.to_nat Pos.to_nat Pos.iter_op Nat.add Nat.sub firstn]. apply app_nil_r.
  - destruct Hinv' as [_ X]. exact X.
Qed.

(* copyStruct into an existing struct (List.SetStruct, Struct.CopyFrom; version skew in either
   direction): the destination struct afterwards denotes the source's value resized to the
   destination's section sizes *)
Theorem copy_value_struct : forall m f D cap rl dst s ws vs A dn pn w',
  msg_ok m -> hinv D -> dst_at dst A dn pn -> p_kind dst = KStruct -> 0 <= A -> A mod 8 = 0 -> 0 <= dn <= 65535 -> 0 <= pn < 65536 ->
  A + 8 * dn + 8 * pn <= zlen D ->
  p_valid s = true -> p_kind s = KStruct -> wf_ptr m s -> aligned s ->
  den true m 0 [] s (VStruct ws vs) -> forallb cvdom vs = true ->
  copy_struct f true (dstw D cap m rl) dst InSrc s = Ok w' ->
  exists D' cap' rl', w' = dstw D' cap' m rl' /\ hinv D' /\
    forall mid caps, den true [D'] mid caps dst (resize (VStruct ws vs) (Z.to_nat dn) (Z.to_nat pn)).
Proof.
  intros m f D cap rl dst s ws vs A dn pn w' Hm Hi Hdst Hkd HA HAm Hdn Hpn Hb Hv Hk Hwf Hal D0 Hsd H.
  destruct (P_all m Hm f) as [_ HC].
  destruct (HC D cap rl dst s ws vs A dn pn w' Hi Hdst HA HAm Hdn Hpn Hb Hv Hk Hwf Hal D0 Hsd H)
    as (pwords & kids & cap' & rl' & Lp & -> & Hinv & Post).
  set (blk := resize_words ws (Z.to_nat dn) ++ pwords) in *.
  assert (Lblk : zlen blk = dn + pn) by (unfold blk; rewrite zlen_app; unfold zlen; rewrite resize_words_length; unfold zlen in Lp; lia).
  assert (Ls : zlen (set_slots D A blk) = zlen D) by (apply set_slots_length; [lia|unfold zlen in *; lia]).
  exists (set_slots D A blk ++ kids), cap', rl'. split; [reflexivity|].
  assert (Hinv' : hinv (set_slots D A blk ++ kids)) by (unfold hinv in *; rewrite zlen_app in *; rewrite Ls; exact Hinv).
  split; [exact Hinv'|].
  assert (Hsub : sub (set_slots D A blk) A (8 * (dn + pn)) = bytes_of_words blk).
  { rewrite <- Lblk. apply sub_set_slots; [lia|unfold zlen in *; lia]. }
  specialize (Post (set_slots D A blk) [] Ls Hsub). rewrite app_nil_r in Post.
  destruct Hdst as (Dv & Dseg & Doff & Dsz). destruct Hinv' as [_ Hbnd].
  cbn [resize]. destruct Hi as [_ Hi2].
  destruct (den_struct_inv _ _ _ _ _ _ D0 Hv Hk) as (d & vs0 & Ev & Wz & Sl & Lvs & _).
  inversion Ev; subst ws vs0; clear Ev.
  assert (Hbd : bytes_ok d) by (eapply slice_bytes_ok; eassumption).
  apply (struct_den _ dst A dn pn); try assumption; try lia.
  - rewrite zlen_app, Ls. assert (0 <= zlen kids) by (unfold zlen; lia). lia.
  - unfold zlen. rewrite resize_words_length. lia.
  - unfold resize_words. apply Forall_app. split.
    + apply Forall_firstn'. apply (wob_w64 (length d)); [lia|exact Hbd].
    + apply Forall_forall. intros x Hx. apply repeat_spec in Hx. subst x. split; [lia|reflexivity].
  - rewrite sub_app_l by (rewrite ?Ls; lia).
    replace (sub (set_slots D A blk) A (8 * dn)) with (sub (sub (set_slots D A blk) A (8 * (dn + pn))) 0 (8 * dn))
      by (rewrite sub_sub by lia; f_equal; lia).
    rewrite Hsub. unfold blk. rewrite bow_app, sub_app_l by (unfold zlen; rewrite ?bow_length, ?resize_words_length; lia).
    unfold sub. cbn [Z.to_nat skipn]. apply firstn_all2. rewrite bow_length, resize_words_length. lia.
  - unfold zlen. rewrite resize_ptrs_length. lia.
  - intros i Hi0. apply Post; [exact Hbnd|exact Hi0].
Qed.
