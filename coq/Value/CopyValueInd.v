(* C16 [T2] copy_value: writePtr (P_cs f -> P_wp (S f)), all fuels, closed statements *)
From CV Require Import Value.ValueEq Value.ValueEqProofs Value.EqualM Value.Den Value.DenFacts Value.DenLists
                       Value.CanonSpec Value.CanonProofs3 Value.CanonM Value.CanonMStruct Value.CanonMData Value.CanonMHeap
                       Value.CanonMLoop Value.CanonMInd Value.CanonMBytes Value.CanonMBlocks Value.CopyValue Value.CopyValueHeap Value.CopyValueDefs Value.CopyValueCs Value.CopyValueLists Value.CopyValueComp.
From CV Require Import Core.ReaderFacts Core.SafetyProofs Core.BuilderFacts Core.ArithFacts Core.CopySafe Core.WritePtrProofs.
From Coq Require Import ZifyBool ZifyNat.
Ltac Zify.zify_post_hook ::= Z.div_mod_to_equations.
Open Scope Z_scope.

Section Copy.
Context (m : segs) (Hm : msg_ok m).

Lemma wp_step f : CopyValueDefs.P_cs m f -> CopyValueDefs.P_wp m (S f).
Proof.
  intros HC D cap rl a src v fc w' Hi Ha Ham Hab Hwf Hal Hcal Hctg D0 Hsd H.
  pose proof H as H0. pose proof Hi as Hinv0.
  destruct Hi as [Hi1 Hi2]. assert (Z0 : 0 <= zlen D) by (unfold zlen; lia).
  rewrite write_ptr_S in H.
  destruct (p_valid src) eqn:Hv; cbn [negb] in H.
  2:{ (* null *)
    unfold lift0 in H. cbn [w_dst dstw] in H. rewrite writeRaw_seg0 in H by lia. cbn [bind] in H.
    apply Ok_inj in H. subst w'.
    pose proof (den_null_iff _ _ _ _ _ _ D0) as Hn. rewrite Hv in Hn. destruct v; try discriminate.
    exists 0, [], cap, rl. rewrite !app_nil_r. split; [reflexivity|]. split; [split; assumption|]. split; [constructor|].
    intros pre' tail Lp Hw Hbound. cbn [app] in *.
    apply reads_null; try (rewrite zlen_app in *; unfold zlen in *; lia).
    unfold word_is in *. rewrite sub_app_l by lia. exact Hw. }
  destruct v as [| |ws vs|k vs|bits]; try discriminate Hsd.
  { pose proof (den_null_iff _ _ _ _ _ _ D0) as Hn. rewrite Hv in Hn. discriminate. }
  2:{ destruct k; try discriminate Hsd;
        try (apply (wp_raw_list m Hm f D cap rl a src (VList _ vs) fc w'); try assumption; split; discriminate).
      - apply (wp_ptr_list m Hm f HC D cap rl a src vs fc w'); assumption.
      - apply (wp_comp_list m Hm f HC D cap rl a src vs fc w'); assumption. }
  2:{ apply (wp_raw_list m Hm f D cap rl a src (VBits bits) fc w'); try assumption. exact I. }
  assert (Hk : p_kind src = KStruct) by (inversion D0; subst; congruence).
  rewrite Hk in H.
  destruct (den_struct_inv _ _ _ _ _ _ D0 Hv Hk) as (d & vs0 & Ev & Wz & Sl & Lvs & _).
  inversion Ev; subst ws vs0; clear Ev. destruct Wz as [Wd Wp].
  apply slice_eq_sub in Sl as Sl'; [|apply seg_of_ok; assumption| lia]. destruct Sl' as (Ed & B1 & B2).
  assert (Ld : zlen d = DataSize (p_size src)) by (rewrite Ed; apply sub_length; lia).
  assert (Hbd : bytes_ok d) by (eapply slice_bytes_ok; eassumption).
  assert (Hal' : (length d mod 8 = 0)%nat).
  { apply Nat2Z.inj. rewrite Nat2Z.inj_mod. unfold zlen in Ld. rewrite Ld. exact (Hal Hk). }
  pose proof (bow_wob d Hbd Hal') as Ebw. apply (f_equal (@length Z)) in Ebw. rewrite bow_length in Ebw.
  set (ws := words_of_bytes d) in *.
  destruct (os_isZero (p_size src)) eqn:Ez.
  - (* the zero-sized struct: one inline word *)
    destruct (rawStructPointer (-1) (mkOS 0 0)) as [w0|] eqn:Ew0; [|vm_compute in Ew0; discriminate Ew0].
    cbn [of_opt_panic bind] in H. unfold lift0 in H. cbn [w_dst dstw] in H. rewrite writeRaw_seg0 in H by lia. cbn [bind] in H.
    apply Ok_inj in H. subst w'.
    unfold os_isZero in Ez.
    assert (DataSize (p_size src) = 0 /\ PointerCount (p_size src) = 0) as [Ed0 Ep0] by lia.
    assert (Ews : ws = []) by (destruct ws; [reflexivity|cbn [length] in Ebw; unfold zlen in Ld; lia]).
    assert (Evs : vs = []) by (destruct vs; [reflexivity|unfold zlen in Lvs; cbn [length] in Lvs; lia]).
    rewrite Ews, Evs.
    exists w0, [], cap, rl. rewrite !app_nil_r. split; [reflexivity|]. split; [split; assumption|]. split; [constructor|].
    intros pre' tail Lp Hw Hbound. cbn [app] in *.
    assert (Hw' : word_is (pre' ++ tail) a w0) by (unfold word_is in *; rewrite sub_app_l by lia; exact Hw).
    exists 1, 0, (mkPtr true 0 a 0 (mkOS 0 0) (uint_dec 1) KStruct false false false), 0.
    split; [apply (read_empty_struct true (pre' ++ tail) a 1 0 w0 Ew0); try lia; try assumption; rewrite zlen_app; unfold zlen in *; lia|].
    apply (struct_den (pre' ++ tail) _ a 0 0 [] []); try reflexivity; try lia; try (rewrite zlen_app; unfold zlen, BOUND in *; lia); try exact Hbound; try constructor; try (intros i Hi0; lia).
  - (* a struct: allocate the source's sizes, copyStruct, place near *)
    replace (fc || is_src InSrc || p_member src) with true in H by (cbn [is_src]; rewrite Bool.orb_true_r; reflexivity).
    cbv zeta in H.
    set (dn := DataSize (p_size src) / 8) in *. set (pn := PointerCount (p_size src)) in *.
    assert (Eds : DataSize (p_size src) = 8 * dn) by (unfold dn; pose proof (Hal Hk); lia).
    rewrite (padToWord_mult (DataSize (p_size src))) in H by (pose proof (Hal Hk); lia).
    rewrite Eds in H. fold pn in H.
    replace (totalSize (mkOS (8 * dn) pn)) with (8 * dn + 8 * pn) in H
      by (unfold totalSize, pointerSize, u32; cbn [DataSize PointerCount]; unfold pn; lia).
    cbn [w_dst dstw] in H.
    destruct (alloc (seg0 D cap) 0 (8 * dn + 8 * pn)) as [[[m1 sid1] addr]| |] eqn:Ea; try discriminate H.
    pose proof (alloc_bound D cap (8 * dn + 8 * pn) m1 sid1 addr ltac:(unfold pn; lia) ltac:(lia) Ea) as Hbound0.
    destruct (alloc_seg0 D cap (8 * dn + 8 * pn) m1 sid1 addr Hi1 ltac:(unfold pn; lia) Ea) as (cap1 & -> & -> & ->).
    rewrite (padToWord_mult (8 * dn + 8 * pn)) in * by (unfold pn; lia).
    cbn [bind] in H.
    set (dstp := mkPtr true 0 (zlen D) 0 (mkOS (8 * dn) pn) maxDepth KStruct false false false) in *.
    set (D1 := D ++ repeat 0 (Z.to_nat (8 * dn + 8 * pn))) in *.
    change (w_set_dst (dstw D cap m rl) (seg0 D1 cap1)) with (dstw D1 cap1 m rl) in H.
    destruct (copy_struct f true (dstw D1 cap1 m rl) dstp InSrc src) as [w2| |] eqn:Ec; try discriminate H.
    cbn [bind p_size p_seg p_off dstp] in H.
    assert (L1 : zlen D1 = zlen D + 8 * dn + 8 * pn) by (unfold D1; rewrite zlen_app; unfold zlen; rewrite repeat_length; unfold pn; lia).
    assert (Hdst : dst_at dstp (zlen D) dn pn) by (unfold dst_at, dstp; cbn; repeat split; reflexivity).
    assert (Bdn : 0 <= dn <= 65535) by (unfold dn; lia). assert (Bpn : 0 <= pn < 65536) by (unfold pn; lia).
    destruct (HC D1 cap1 rl dstp src ws vs (zlen D) dn pn w2 ltac:(split; lia) Hdst Z0 Hi1 Bdn Bpn ltac:(lia)
                 Hv Hk Hwf Hal D0 Hsd Ec) as (pwords & kids & cap2 & rl2 & Lp & -> & Hinv2 & Bk & PostC).
    assert (Edw : resize_words ws (Z.to_nat dn) = ws).
    { replace (Z.to_nat dn) with (length ws) by (unfold zlen in Ld; lia). apply resize_words_id. }
    rewrite Edw in *.
    set (blk := ws ++ pwords) in *.
    assert (Lblk : length blk = Z.to_nat (dn + pn)) by (unfold blk; rewrite app_length; unfold zlen in *; lia).
    assert (Edata : set_slots D1 (zlen D) blk = D ++ bytes_of_words blk).
    { unfold D1. replace (Z.to_nat (8 * dn + 8 * pn)) with (8 * length blk)%nat by lia. apply set_slots_end. }
    rewrite Edata in H.
    assert (Owf : os_wf (mkOS (8 * dn) pn)) by (unfold os_wf; cbn [DataSize PointerCount]; lia).
    destruct (struct_pointer_roundtrip 0 (mkOS (8 * dn) pn) ltac:(unfold off_ok; lia) Owf) as (raw & Eraw & _).
    rewrite Eraw in H. cbn [of_opt_panic bind] in H.
    unfold place in H. cbn [w_dst dstw] in H. change (0 =? 0) with true in H. cbv iota in H.
    unfold lift0 in H.
    assert (Lbb : zlen (bytes_of_words blk) = 8 * dn + 8 * pn) by (unfold zlen; rewrite bow_length; lia).
    assert (Lk0 : 0 <= zlen kids) by (unfold zlen; lia).
    assert (Hk2 : zlen D + (8 * dn + 8 * pn) + zlen kids <= BOUND).
    { destruct Hinv2 as [_ X]. rewrite zlen_app, L1 in X. unfold BOUND. lia. }
    rewrite writeRaw_seg0 in H by (rewrite ?zlen_app, ?Lbb; unfold BOUND in *; lia). cbn [bind] in H.
    apply Ok_inj in H. subst w'.
    set (word := withOffset raw (nearPointerOffset a (zlen D))) in *.
    exists word, (bytes_of_words blk ++ kids), cap2, rl2.
    split.
    { unfold dstw, w_set_dst. cbn [w_src w_src_rl]. f_equal. f_equal.
      rewrite <- app_assoc. apply put_word_app_left; lia. }
    split.
    { unfold hinv in *. rewrite !zlen_app in *. rewrite L1 in Hinv2. rewrite Lbb. lia. }
    split; [apply Forall_app; split; [apply bow_bytes_ok|exact Bk]|].
    intros pre' tail Lp' Hw Hbound.
    set (M := pre' ++ (bytes_of_words blk ++ kids) ++ tail) in *.
    assert (LM : zlen M = zlen D + (8 * dn + 8 * pn) + zlen kids + zlen tail)
      by (unfold M; rewrite !zlen_app, Lbb; lia).
    assert (Lt0 : 0 <= zlen tail) by (unfold zlen; lia).
    assert (HwM : word_is M a word) by (unfold word_is, M in *; rewrite sub_app_l by lia; exact Hw).
    assert (Hnz : os_isZero (mkOS (8 * dn) pn) = false) by (unfold os_isZero in *; cbn [DataSize PointerCount]; rewrite <- Eds; exact Ez).
    set (q := mkPtr true 0 (zlen D) 0 (mkOS (8 * dn) pn) (uint_dec 1) KStruct false false false).
    exists 1, (8 * dn + 8 * pn), q, (8 * dn + 8 * pn - totalSize (mkOS (8 * dn) pn)). split.
    { apply (read_near_struct true M a (zlen D) (mkOS (8 * dn) pn) raw 1 (8 * dn + 8 * pn) Owf Hnz Eraw);
        try lia; try exact HwM; unfold BOUND in *;
        try (unfold totalSize, pointerSize, u32; cbn [DataSize PointerCount]; lia). }
    assert (EM : M = (pre' ++ bytes_of_words blk) ++ kids ++ tail) by (unfold M; rewrite <- !app_assoc; reflexivity).
    assert (Hblock : sub (pre' ++ bytes_of_words blk) (zlen D) (8 * (dn + pn)) = bytes_of_words blk).
    { rewrite sub_app_r by lia. rewrite Lp', Z.sub_diag. unfold sub. cbn [Z.to_nat skipn]. apply firstn_all2.
      rewrite bow_length. lia. }
    apply (struct_den M q (zlen D) dn pn ws vs); try reflexivity; try lia; try exact Hbound.
    + unfold zlen in *. lia.
    + apply (wob_w64 (length d)); [lia|exact Hbd].
    + rewrite EM. rewrite sub_app_l by (rewrite ?zlen_app, ?Lbb; lia).
      replace (sub (pre' ++ bytes_of_words blk) (zlen D) (8 * dn))
        with (sub (sub (pre' ++ bytes_of_words blk) (zlen D) (8 * (dn + pn))) 0 (8 * dn)) by (rewrite sub_sub by lia; f_equal; lia).
      rewrite Hblock. unfold blk. rewrite bow_app, sub_app_l by (unfold zlen; rewrite ?bow_length; unfold zlen in *; lia).
      unfold sub. cbn [Z.to_nat skipn]. apply firstn_all2. rewrite bow_length. unfold zlen in *. lia.
    + intros i Hi0.
      pose proof (PostC (pre' ++ bytes_of_words blk) tail ltac:(rewrite zlen_app, Lbb, L1; lia) Hblock
                        ltac:(rewrite <- EM; exact Hbound) i Hi0) as R.
      rewrite <- EM in R. replace (Z.to_nat pn) with (length vs) in R by (unfold zlen in Lvs; lia).
      rewrite resize_ptrs_id in R. exact R.
Qed.

Theorem P_all : forall f, CopyValueDefs.P_wp m f /\ CopyValueDefs.P_cs m f.
Proof.
  induction f as [|f [IHw IHc]].
  - split.
    + intros D cap rl a src v fc w' _ _ _ _ _ _ _ _ _ _ H. discriminate H.
    + intros D cap rl dst s ws vs A dn pn w' _ _ _ _ _ _ _ _ _ _ _ _ _ H. discriminate H.
  - split; [apply wp_step; exact IHc| apply (CopyValueCs.cs_step m Hm); exact IHw].
Qed.


End Copy.

(* ------------------------------------------------------------------ closed statements *)
(* SetPtr / SetRoot / PointerList.Set of a pointer of another message (deep copy): afterwards the
   slot reads as a pointer denoting the source's value *)
Theorem copy_value_ptr : forall m f D cap rl a src v fc w',
  msg_ok m -> hinv D -> 0 <= a -> a mod 8 = 0 -> a + 8 <= zlen D ->
  wf_ptr m src -> aligned src -> caligned src -> ctag_ok m src -> den true m 0 [] src v -> cvdom v = true ->
  write_ptr f true (dstw D cap m rl) 0 a InSrc src fc = Ok w' ->
  exists D' cap' rl', w' = dstw D' cap' m rl' /\ hinv D' /\ (bytes_ok D -> bytes_ok D') /\ reads_as D' a v.
Proof.
  intros m f D cap rl a src v fc w' Hm Hi Ha Ham Hab Hwf Hal Hcal Hctg D0 Hsd H.
  destruct (P_all m Hm f) as [HW _].
  destruct (HW D cap rl a src v fc w' Hi Ha Ham Hab Hwf Hal Hcal Hctg D0 Hsd H) as (word & body & cap' & rl' & -> & Hinv & Bb & Post).
  assert (Lp : zlen (put_word D a word) = zlen D) by (apply put_word_length; lia).
  exists (put_word D a word ++ body), cap', rl'. split; [reflexivity|].
  assert (Hinv' : hinv (put_word D a word ++ body)) by (unfold hinv in *; rewrite zlen_app in *; rewrite Lp; exact Hinv).
  split; [exact Hinv'|].
  split.
  { intros HbD. apply Forall_app. split; [|exact Bb]. unfold put_word. apply Forall_app. split; [apply Forall_firstn'; exact HbD|].
    apply Forall_app. split; [apply le_encode_bytes|apply Forall_skipn'; exact HbD]. }
  specialize (Post (put_word D a word) [] Lp). rewrite app_nil_r in Post. apply Post.
  - unfold word_is, put_word, sub. rewrite skipn_app, skipn_all2 by (rewrite firstn_length; unfold zlen in *; lia).
    rewrite firstn_length. replace (Z.to_nat a - Nat.min (Z.to_nat a) (length D))%nat with 0%nat by (unfold zlen in *; lia).
    cbn [skipn app]. rewrite firstn_app, firstn_all2 by (rewrite le_encode_length; lia).
    rewrite le_encode_length. cbn [Z.to_nat Pos.to_nat Pos.iter_op Nat.add Nat.sub firstn]. apply app_nil_r.
  - destruct Hinv' as [_ X]. exact X.
Qed.

(* copyStruct into an existing struct (List.SetStruct, Struct.CopyFrom; version skew in either
   direction): the destination struct afterwards denotes the source's value resized to the
   destination's section sizes *)
Theorem copy_value_struct : forall m f D cap rl dst s ws vs A dn pn w',
  msg_ok m -> hinv D -> dst_at dst A dn pn -> p_kind dst = KStruct -> 0 <= A -> A mod 8 = 0 -> 0 <= dn <= 65535 -> 0 <= pn < 65536 ->
  A + 8 * dn + 8 * pn <= zlen D ->
  p_valid s = true -> p_kind s = KStruct -> wf_ptr m s -> aligned s ->
  den true m 0 [] s (VStruct ws vs) -> forallb cvdom vs = true ->
  copy_struct f true (dstw D cap m rl) dst InSrc s = Ok w' ->
  exists D' cap' rl', w' = dstw D' cap' m rl' /\ hinv D' /\ (bytes_ok D -> bytes_ok D') /\
    forall mid caps, den true [D'] mid caps dst (resize (VStruct ws vs) (Z.to_nat dn) (Z.to_nat pn)).
Proof.
  intros m f D cap rl dst s ws vs A dn pn w' Hm Hi Hdst Hkd HA HAm Hdn Hpn Hb Hv Hk Hwf Hal D0 Hsd H.
  destruct (P_all m Hm f) as [_ HC].
  destruct (HC D cap rl dst s ws vs A dn pn w' Hi Hdst HA HAm Hdn Hpn Hb Hv Hk Hwf Hal D0 Hsd H)
    as (pwords & kids & cap' & rl' & Lp & -> & Hinv & Bk & Post).
  set (blk := resize_words ws (Z.to_nat dn) ++ pwords) in *.
  assert (Lblk : zlen blk = dn + pn) by (unfold blk; rewrite zlen_app; unfold zlen; rewrite resize_words_length; unfold zlen in Lp; lia).
  assert (Ls : zlen (set_slots D A blk) = zlen D) by (apply set_slots_length; [lia|unfold zlen in *; lia]).
  exists (set_slots D A blk ++ kids), cap', rl'. split; [reflexivity|].
  assert (Hinv' : hinv (set_slots D A blk ++ kids)) by (unfold hinv in *; rewrite zlen_app in *; rewrite Ls; exact Hinv).
  split; [exact Hinv'|].
  split.
  { intros HbD. apply Forall_app. split; [|exact Bk]. unfold set_slots. apply Forall_app. split; [apply Forall_firstn'; exact HbD|].
    apply Forall_app. split; [apply bow_bytes_ok|apply Forall_skipn'; exact HbD]. }
  assert (Hsub : sub (set_slots D A blk) A (8 * (dn + pn)) = bytes_of_words blk).
  { rewrite <- Lblk. apply sub_set_slots; [lia|unfold zlen in *; lia]. }
  specialize (Post (set_slots D A blk) [] Ls Hsub). rewrite app_nil_r in Post.
  destruct Hdst as (Dv & Dseg & Doff & Dsz). destruct Hinv' as [_ Hbnd].
  cbn [resize]. destruct Hi as [_ Hi2].
  destruct (den_struct_inv _ _ _ _ _ _ D0 Hv Hk) as (d & vs0 & Ev & Wz & Sl & Lvs & _).
  inversion Ev; subst ws vs0; clear Ev.
  assert (Hbd : bytes_ok d) by (eapply slice_bytes_ok; eassumption).
  apply (struct_den _ dst A dn pn); try assumption; try lia.
  - rewrite zlen_app, Ls. assert (0 <= zlen kids) by (unfold zlen; lia). lia.
  - unfold zlen. rewrite resize_words_length. lia.
  - unfold resize_words. apply Forall_app. split.
    + apply Forall_firstn'. apply (wob_w64 (length d)); [lia|exact Hbd].
    + apply Forall_forall. intros x Hx. apply repeat_spec in Hx. subst x. split; [lia|reflexivity].
  - rewrite sub_app_l by (rewrite ?Ls; lia).
    replace (sub (set_slots D A blk) A (8 * dn)) with (sub (sub (set_slots D A blk) A (8 * (dn + pn))) 0 (8 * dn))
      by (rewrite sub_sub by lia; f_equal; lia).
    rewrite Hsub. unfold blk. rewrite bow_app, sub_app_l by (unfold zlen; rewrite ?bow_length, ?resize_words_length; lia).
    unfold sub. cbn [Z.to_nat skipn]. apply firstn_all2. rewrite bow_length, resize_words_length. lia.
  - unfold zlen. rewrite resize_ptrs_length. lia.
  - intros i Hi0. apply Post; [exact Hbnd|exact Hi0].
Qed.

