(* L1: capnp.Canonicalize (canonical.go) over Builder.v (destination: a fresh single-segment
   message) and Reader.v (source: read-only segments with cap = len and their own read
   limit), following the Go code step by step.
   Switches (false = the code as found, true = repaired):
     cx_complist  F04: canonicalList sent every list with PointerCount = 0 through the raw
                  "data only" copy, including composite lists: allocSize bytes are copied
                  from AFTER the tag word (tag lost, 8 bytes read past the list: Go panics
                  when that is past the segment's capacity), nothing is truncated, and the
                  resulting list pointer refers to the word before the copy;
     cx_bitpad    O2: the unused bits of the last byte of a bit list were copied verbatim;
     cx_farnull   O3: canonicalStructSize tested the raw pointer word, so a far pointer to a
                  null landing pad in the last slot was not truncated.
   No proofs in this file. *)
From CV Require Export Value.ValueEq Value.EqualM.
Open Scope Z_scope.

Record cfix := mkCFix { cx_complist : bool; cx_bitpad : bool; cx_farnull : bool; cx_rd : fixes }.

(* canonicalStructSize: scan the data section backwards from the word AFTER the last one
   (Uint64 out of bounds reads 0), then the pointer section for a non-zero raw word *)
Fixpoint css_data (m : segs) (s : Ptr) (k : nat) : res Z :=
  do v <- struct_uint m s (8 * Z.of_nat k) 8;
  if negb (v =? 0) then Ok (8 * Z.of_nat k + 8)
  else match k with O => Ok 0 | S k' => css_data m s k' end.

(* [fixed] = false, as found (O3): the raw pointer word is tested *)
Fixpoint css_ptrs (fixed strict : bool) (m : segs) (s : Ptr) (k : nat) : res Z :=
  match k with
  | O => Ok 0
  | S k' => do h <- (if fixed then has_nonnull_ptr strict m s (Z.of_nat k')
                     else do v <- readRawPointer (seg_of m s) (pointerAddress s (Z.of_nat k')); Ok (negb (v =? 0)));
            if h then Ok (Z.of_nat k) else css_ptrs fixed strict m s k'
  end.

Definition canonicalStructSize (fixed strict : bool) (m : segs) (s : Ptr) : res ObjectSize :=
  if negb (p_valid s) then Ok (mkOS 0 0)
  else do d <- css_data m s (Z.to_nat (DataSize (p_size s) / 8));
       do p <- css_ptrs fixed strict m s (Z.to_nat (PointerCount (p_size s)));
       Ok (mkOS d p).

(* max of the canonical sizes of the elements of a struct list *)
Fixpoint elem_size (fixed strict : bool) (fxd : bool) (m : segs) (l : Ptr) (n : nat) (i : Z) (acc : ObjectSize) : res ObjectSize :=
  match n with
  | O => Ok acc
  | S n' => do e <- list_struct fxd l i;
            do sz <- canonicalStructSize fixed strict m e;
            elem_size fixed strict fxd m l n' (i + 1)
                      (mkOS (Z.max (DataSize acc) (DataSize sz)) (Z.max (PointerCount acc) (PointerCount sz)))
  end.

Definition src_seg (w : world) (p : Ptr) : seg := seg_of (w_src w) p.
Definition dst_seg (w : world) (p : Ptr) : seg := nth (Z.to_nat (p_seg p)) (bm_data (w_dst w)) [].

Definition mask_last (n : Z) (bs : list Z) : list Z :=
  let r := n mod 8 in
  if r =? 0 then bs
  else match rev bs with
       | [] => []
       | l :: pre => rev pre ++ [l mod 2 ^ r]
       end.

(* outcome with fuel exhaustion kept apart (excluded by the theorems) *)
Inductive cout (A : Type) : Type := KOk (a : A) | KErr | KPanic | KFuel.
Arguments KOk {A} a.
Arguments KErr {A}.
Arguments KPanic {A}.
Arguments KFuel {A}.
Definition kbind {A B} (r : cout A) (f : A -> cout B) : cout B :=
  match r with KOk a => f a | KErr => KErr | KPanic => KPanic | KFuel => KFuel end.
Definition of_res {A} (r : res A) : cout A := match r with Ok a => KOk a | Err => KErr | Panic => KPanic end.

Fixpoint kfold {A} (l : list Z) (a : A) (f : A -> Z -> cout A) : cout A :=
  match l with
  | [] => KOk a
  | x :: r => kbind (f a x) (fun a' => kfold r a' f)
  end.

Section Canon.
Context (c : config) (fx : cfix).

(* fillCanonicalStruct(dst, s) *)
Fixpoint fill_canonical (fuel : nat) (w : world) (dst s : Ptr) {struct fuel} : cout world :=
  match fuel with
  | O => KFuel
  | S f =>
    kbind (of_res (slice (dst_seg w dst) (p_off dst) (DataSize (p_size dst)))) (fun dd =>
    kbind (of_res (slice (src_seg w s) (p_off s) (DataSize (p_size s)))) (fun sd =>
    let n := Nat.min (length dd) (length sd) in
    kbind (of_res (lift0 w (seg_write (w_dst w) (p_seg dst) (p_off dst) (firstn n sd)))) (fun w1 =>
    kfold (iota (Z.to_nat (PointerCount (p_size dst)))) w1
      (fun wa i =>
         let '(r, rl') := struct_ptr c (w_src wa) (w_src_rl wa) s i in
         let wb := w_set_rl wa InSrc rl' in
         kbind (of_res r) (fun p =>
         kbind (canonical_ptr f wb (p_seg dst) p) (fun wc =>
         let '(w2, cp) := wc in
         of_res (struct_set_ptr 4 w2 dst i InDst cp)))))))
  end

(* canonicalPtr(dst segment, p) *)
with canonical_ptr (fuel : nat) (w : world) (sid : Z) (p : Ptr) {struct fuel} : cout (world * Ptr) :=
  match fuel with
  | O => KFuel
  | S f =>
    if negb (p_valid p) then KOk (w, nullPtr) else
    match p_kind p with
    | KStruct =>
      kbind (of_res (canonicalStructSize (cx_farnull fx) (cfg_strict c) (w_src w) p)) (fun sz =>
      kbind (of_res (lift w (newStruct (w_dst w) sid sz))) (fun ws =>
      let '(w1, ss) := ws in
      kbind (fill_canonical f w1 ss p) (fun w2 => KOk (w2, ss))))
    | KList => canonical_list f w sid p
    | KIface => KErr
    end
  end

(* canonicalList(dst segment, l) *)
with canonical_list (fuel : nat) (w : world) (sid : Z) (l : Ptr) {struct fuel} : cout (world * Ptr) :=
  match fuel with
  | O => KFuel
  | S f =>
    if negb (p_valid l) then KOk (w, nullPtr)
    else if (PointerCount (p_size l) =? 0) && negb (cx_complist fx && p_comp l) then
      (* data only: copy allocSize bytes starting at l.off *)
      let sz := list_allocSize l in
      kbind (of_res (alloc (w_dst w) sid sz)) (fun a =>
      let '(m1, nsid, naddr) := a in
      let cl := mkPtr true nsid naddr (p_len l) (p_size l) maxDepth KList (p_comp l) (p_bit l) false in
      kbind (of_res (slice (src_seg w l) (p_off l) sz)) (fun bs =>
      let bs := if cx_bitpad fx && p_bit l then mask_last (p_len l) bs else bs in
      kbind (of_res (lift0 (w_set_dst w m1) (seg_write m1 nsid naddr bs))) (fun w2 =>
      KOk (w2, cl))))
    else if negb (p_comp l) then
      (* pointer list *)
      kbind (of_res (lift w (newPointerList (w_dst w) sid (p_len l)))) (fun wc =>
      let '(w1, cl) := wc in
      kbind (kfold (iota (Z.to_nat (list_len l))) w1
               (fun wa i =>
                  let '(r, rl') := ptrlist_at c (fx_upgrade (cx_rd fx)) (w_src wa) (w_src_rl wa) l i in
                  let wb := w_set_rl wa InSrc rl' in
                  kbind (of_res r) (fun p =>
                  kbind (canonical_ptr f wb sid p) (fun wd =>
                  let '(w2, cp) := wd in
                  of_res (ptrlist_set 4 w2 cl i InDst cp)))))
            (fun w3 => KOk (w3, cl)))
    else
      (* struct list *)
      kbind (of_res (elem_size (cx_farnull fx) (cfg_strict c) (fx_depth (cx_rd fx)) (w_src w) l (Z.to_nat (list_len l)) 0 (mkOS 0 0))) (fun esz =>
      kbind (of_res (lift w (newCompositeList (w_dst w) sid esz (p_len l)))) (fun wc =>
      let '(w1, cl) := wc in
      kbind (kfold (iota (Z.to_nat (list_len cl))) w1
               (fun wa i =>
                  kbind (of_res (list_struct (fx_depth (cx_rd fx)) cl i)) (fun de =>
                  kbind (of_res (list_struct (fx_depth (cx_rd fx)) l i)) (fun se =>
                  fill_canonical f wa de se))))
            (fun w3 => KOk (w3, cl))))
  end.

(* Canonicalize(s): the bytes of segment 0, and the source's remaining read limit *)
Definition canonicalize (fuel : nat) (src : segs) (rl : Z) (s : Ptr) : cout (list Z) * Z :=
  match new_message ASingle [] 0 with
  | Ok m0 =>
    if negb (p_valid s) then (KOk (bs_data (get_seg m0 0)), rl) else
    let w0 := mkW m0 src rl in
    let r :=
      kbind (of_res (canonicalStructSize (cx_farnull fx) (cfg_strict c) src s)) (fun sz =>
      kbind (of_res (lift w0 (newStruct m0 0 sz))) (fun wr =>
      let '(w1, root) := wr in
      kbind (of_res (set_root 4 w1 InDst root)) (fun w2 =>      (* NewRootStruct *)
      kbind (of_res (set_root 4 w2 InDst root)) (fun w3 =>      (* msg.SetRoot again *)
      fill_canonical fuel w3 root s)))) in
    match r with
    | KOk w => (KOk (bs_data (get_seg (w_dst w) 0)), w_src_rl w)
    | KErr => (KErr, rl) | KPanic => (KPanic, rl) | KFuel => (KFuel, rl)
    end
  | _ => (KErr, rl)
  end.
(* S1 (sub-word data sections): Canonicalize(l.Struct(i)) for an element of a 1-, 2- or 4-byte list.
   The struct view has a data section that is not a whole number of words.  As found,
   canonicalStructSize scanned whole words only (Uint64 of the partial word is out of bounds and
   reads 0), so the data was dropped and the EMPTY struct came out.  Repaired ([fixsub]): a
   non-zero byte in the partial last word makes the data section one more word (zero-extended by
   fillCanonicalStruct, as writePtr copies such a struct).  Only the ROOT struct handed to
   Canonicalize can be such a struct: children come from readPtr and composite-list elements,
   whose data sections are whole words (CanonMInd.readPtr_aligned / readPtr_caligned), so the
   other two call sites of canonicalStructSize never take this branch and keep the plain scan. *)
Definition css_sub (fixsub : bool) (m : segs) (s : Ptr) (sz : ObjectSize) : res ObjectSize :=
  let ds := DataSize (p_size s) in
  let whole := ds / 8 * 8 in
  if fixsub && p_valid s && negb (ds mod 8 =? 0) then
    do b <- slice (seg_of m s) (p_off s + whole) (ds - whole);
    if all_zero b then Ok sz else Ok (mkOS (whole + 8) (PointerCount sz))
  else Ok sz.

(* Canonicalize with the sub-word repair switch; [canonicalize] is [canonicalize2 false] *)
Definition canonicalize2 (fixsub : bool) (fuel : nat) (src : segs) (rl : Z) (s : Ptr) : cout (list Z) * Z :=
  match new_message ASingle [] 0 with
  | Ok m0 =>
    if negb (p_valid s) then (KOk (bs_data (get_seg m0 0)), rl) else
    let w0 := mkW m0 src rl in
    let r :=
      kbind (of_res (do sz0 <- canonicalStructSize (cx_farnull fx) (cfg_strict c) src s; css_sub fixsub src s sz0)) (fun sz =>
      kbind (of_res (lift w0 (newStruct m0 0 sz))) (fun wr =>
      let '(w1, root) := wr in
      kbind (of_res (set_root 4 w1 InDst root)) (fun w2 =>
      kbind (of_res (set_root 4 w2 InDst root)) (fun w3 =>
      fill_canonical fuel w3 root s)))) in
    match r with
    | KOk w => (KOk (bs_data (get_seg (w_dst w) 0)), w_src_rl w)
    | KErr => (KErr, rl) | KPanic => (KPanic, rl) | KFuel => (KFuel, rl)
    end
  | _ => (KErr, rl)
  end.
End Canon.

(* ------------------------------------------------------------------ the harness entry *)
From CV Require Import Value.CanonSpec.

(* Canonicalize(select msg sel).Struct() *)
Definition run_canon (fuel : nat) (c : config) (fx : cfix) (m : segs) (s : sel) : cout (list Z) :=
  let '(rp, rl) := select c m (init_rlimit c) s in
  match rp with
  | Ok p => fst (canonicalize c fx fuel m rl (as_struct p))
  | Err => KErr
  | Panic => KPanic
  end.

(* Canonicalize(msg.field(i).List().Struct(j)): a list member as the struct to canonicalise *)
Definition select_member (c : config) (m : segs) (rl : Z) (i j : Z) : res Ptr * Z :=
  match select c m rl (SelField i) with
  | (Ok l, rl2) => (list_struct true (as_list l) j, rl2)
  | other => other
  end.

(* the run with the pointer already selected ([sp] = select or select_member) and the sub-word switch *)
Definition run_canon_p (fixsub : bool) (fuel : nat) (c : config) (fx : cfix) (m : segs) (sp : res Ptr * Z) : cout (list Z) :=
  let '(rp, rl) := sp in
  match rp with
  | Ok p => fst (canonicalize2 c fx fixsub fuel m rl (as_struct p))
  | Err => KErr
  | Panic => KPanic
  end.

(* the spec's canonical form of the walked tree: Some (Some bytes) | Some None (capability or
   size error) | None (tree incomplete) *)
Definition spec_canon (fuel : nat) (c : config) (fx : fixes) (m : segs) (s : sel) (dcap pcap : Z)
  : option (option (list Z)) * tree :=
  let '(rp, rl) := select c m (init_rlimit c) s in
  let rp := match rp with Ok p => Ok (as_struct p) | other => other end in
  let '(t, _) := walk c fx m dcap pcap fuel rl rp in
  (if tree_ok t && tree_small pcap t then Some (canon (denote 0 [] t)) else None, t).

(* strict decode of canonical bytes, re-canonicalised: Some bytes' *)
Definition spec_recanon (bs : list Z) : option (list Z) :=
  match cdecode (S (length bs)) bs with
  | Some v => canon v
  | None => None
  end.
