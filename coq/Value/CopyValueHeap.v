(* C16 [T2] copy_value, heap-level facts for a single-segment destination:
     rd_word / near_resolves   the reader resolves a near pointer word to its target
     read_near_struct, read_zero_word, read_empty_struct   Segment.readPtr on the words writePtr places
     sem_loop      the pointer loop of copyStruct: slot i gets child i's pointer word, child i's
                   bytes are appended; child i's postcondition holds in every memory that keeps
                   the slots and the appended bytes (whatever else changes before them or is
                   appended later) *)
From CV Require Import Value.ValueEq Value.EqualM Value.Den Value.DenFacts Value.DenLists Value.CanonSpec Value.CanonM
                       Value.CanonMData Value.CanonMHeap Value.CanonMLoop Value.CanonMInd Value.CanonMBytes Value.CanonMBlocks.
From CV Require Import Core.ReaderFacts Core.SafetyProofs Core.BuilderFacts Core.ArithFacts Core.CopySafe Core.WritePtrProofs.
From CV Require Core.HeapInv.
From Coq Require Import ZifyBool ZifyNat.
Ltac Zify.zify_post_hook ::= Z.div_mod_to_equations.
Open Scope Z_scope.

(* the word stored at byte address a *)
Definition word_is (M : list Z) (a w : Z) : Prop := sub M a 8 = le_encode 8 w.

Lemma rd_word M a w : word_is M a w -> word64 w -> 0 <= a -> a + 8 <= zlen M -> zlen M < 4294967296 ->
  readRawPointer M a = Ok w.
Proof.
  intros Hw H64 Ha Hb Hl. unfold readRawPointer, readUintN. rewrite slice_ok by lia. cbn [bind].
  rewrite Hw. rewrite le_decode_encode; [reflexivity|]. unfold word64 in H64. change (256 ^ Z.of_nat 8) with 18446744073709551616. lia.
Qed.

Lemma near_resolves M a taddr raw :
  raw_ok raw -> 0 <= a -> a mod 8 = 0 -> a + 8 <= zlen M -> zlen M <= 4294967288 ->
  0 <= taddr <= zlen M -> taddr mod 8 = 0 ->
  word_is M a (withOffset raw (nearPointerOffset a taddr)) ->
  resolves_to [M] 0 a 0 taddr raw.
Proof.
  intros (Rw & Rt & Ro & Rnz) Ha Ham Hab Hl Ht Htm Hw.
  destruct (nearPointerOffset_ok a taddr) as [N1 N2]; try lia.
  destruct (withOffset_roundtrip raw (nearPointerOffset a taddr) Rw N1 Rt) as (Q1 & Q2 & Q3 & Q4 & Q5 & Q6).
  cbv zeta in *. set (v := withOffset raw (nearPointerOffset a taddr)) in *.
  assert (Rd : readRawPointer M a = Ok v) by (apply rd_word; auto; lia).
  unfold word64 in Rw. destruct (raw_type raw Rt ltac:(lia)) as (_ & T1 & T2).
  exists (a + 8), v. cbn [Z.to_nat nth]. split.
  - intros strict. unfold resolveFarPointer. rewrite Rd. cbn [bind]. cbv zeta. rewrite Q2, T1, T2.
    unfold addSize. cbv zeta. destruct (a + 8 >? maxSegmentSize) eqn:E; [unfold maxSegmentSize in E; lia|]. reflexivity.
  - split; [exact Q1|]. split; [exact Q2|]. split; [exact Q4|]. split; [exact Q5|]. split; [exact Q6|].
    rewrite Q3. apply element_words; [unfold maxSegmentSize; lia|lia].
Qed.

(* the pointer word of a non-empty struct placed near *)
Lemma read_near_struct strict M a taddr sz raw dep rl :
  os_wf sz -> os_isZero sz = false -> rawStructPointer 0 sz = Some raw ->
  0 <= a -> a mod 8 = 0 -> a + 8 <= zlen M -> zlen M <= 4294967288 ->
  0 <= taddr -> taddr mod 8 = 0 -> taddr + totalSize sz <= zlen M ->
  word_is M a (withOffset raw (nearPointerOffset a taddr)) ->
  dep <> 0 -> totalSize sz <= rl ->
  readPtr strict [M] rl 0 M a dep =
  (Ok (mkPtr true 0 taddr 0 sz (uint_dec dep) KStruct false false false), rl - totalSize sz).
Proof.
  intros Hwf Hnz Hraw Ha Ham Hab Hl Ht Htm Htb Hw Hd Hrl.
  destruct (struct_pointer_roundtrip 0 sz ltac:(unfold off_ok; lia) Hwf) as (p & Ep & P64 & Pt & Po & Ps).
  rewrite Hraw in Ep. inversion Ep; subst p.
  assert (Tn : 0 <= totalSize sz) by (unfold totalSize, u32; lia).
  assert (Rok : raw_ok raw).
  { split; [exact P64|]. split.
    - destruct (HeapInv.fields_struct sz Hwf) as (raw' & E' & _ & R2 & _). rewrite Hraw in E'. inversion E'; subst raw'. lia.
    - split; [exact Po|]. intros ->. rewrite <- Ps in Hnz. cbv in Hnz. discriminate Hnz. }
  pose proof (near_resolves M a taddr raw Rok Ha Ham Hab Hl ltac:(lia) Htm Hw) as R.
  pose proof (resolved_read_struct strict [M] rl 0 a 0 taddr raw dep R Pt) as RR. rewrite Ps in RR.
  cbn [Z.to_nat nth] in RR. apply RR; try assumption.
  unfold regionInBounds, addSize, maxSegmentSize. cbv zeta. destruct (taddr + totalSize sz >? 4294967288) eqn:E; lia.
Qed.

(* the zero word reads as the null pointer *)
Lemma read_zero_word strict M a dep rl :
  0 <= a -> a + 8 <= zlen M -> zlen M <= 4294967288 -> word_is M a 0 ->
  readPtr strict [M] rl 0 M a dep = (Ok nullPtr, rl).
Proof.
  intros Ha Hab Hl Hw. unfold readPtr, resolveFarPointer.
  rewrite (rd_word M a 0 Hw) by (unfold word64; lia). cbn [bind]. cbv zeta.
  change (pointerType 0 =? doubleFarPointer) with false. change (pointerType 0 =? farPointer) with false. cbv iota.
  unfold addSize. cbv zeta. destruct (a + 8 >? maxSegmentSize) eqn:E; [unfold maxSegmentSize in E; lia|].
  change (0 =? 0) with true. reflexivity.
Qed.

(* the inline word of a zero-sized struct (offset -1): a struct of size 0 at the word itself *)
Lemma read_empty_struct strict M a dep rl w0 :
  rawStructPointer (-1) (mkOS 0 0) = Some w0 ->
  0 <= a -> a mod 8 = 0 -> a + 8 <= zlen M -> zlen M <= 4294967288 -> word_is M a w0 -> dep <> 0 -> 0 <= rl ->
  readPtr strict [M] rl 0 M a dep =
  (Ok (mkPtr true 0 a 0 (mkOS 0 0) (uint_dec dep) KStruct false false false), rl).
Proof.
  intros Hw0 Ha Ham Hab Hl Hw Hd Hrl.
  assert (E0 : w0 = 4294967292) by (vm_compute in Hw0; inversion Hw0; reflexivity). subst w0.
  unfold readPtr, resolveFarPointer.
  rewrite (rd_word M a _ Hw) by (unfold word64; lia). cbn [bind]. cbv zeta.
  change (pointerType 4294967292 =? doubleFarPointer) with false. change (pointerType 4294967292 =? farPointer) with false. cbv iota.
  unfold addSize. cbv zeta. destruct (a + 8 >? maxSegmentSize) eqn:E; [unfold maxSegmentSize in E; lia|].
  change (4294967292 =? 0) with false. cbv iota. destruct (dep =? 0) eqn:Ed; [lia|].
  change (pointerType 4294967292 =? structPointer) with true. cbv iota.
  unfold readStructPtr. change (ptr_offset 4294967292) with (-1). change (structSize 4294967292) with (mkOS 0 0).
  rewrite (element_words (a + 8) (-1) a) by (unfold maxSegmentSize; lia).
  change (totalSize (mkOS 0 0)) with 0.
  assert (RB : regionInBounds M a 0 = true).
  { unfold regionInBounds, addSize, maxSegmentSize. cbv zeta. destruct (a + 0 >? 4294967288) eqn:E2; lia. }
  rewrite RB. cbn [negb]. unfold canRead, struct_readSize. cbn [p_valid p_size]. change (totalSize (mkOS 0 0)) with 0.
  destruct (rl >=? 0) eqn:E3; [|lia]. f_equal. lia.
Qed.

Lemma list_readSize_le lp : list_readSize lp <= 4294967288.
Proof.
  unfold list_readSize. destruct (p_valid lp); [|lia]. cbv zeta.
  destruct (times _ (p_len lp)) as [x|] eqn:E; [|unfold maxSegmentSize; lia].
  apply times_spec in E. unfold maxSegmentSize in E. lia.
Qed.

(* the pointer word of a non-composite list placed near *)
Lemma read_near_list strict M a taddr lt n dep :
  0 <= lt < 7 -> 0 <= n < 536870912 ->
  0 <= a -> a mod 8 = 0 -> a + 8 <= zlen M -> zlen M <= 4294967288 ->
  0 <= taddr -> taddr mod 8 = 0 ->
  let es := match elementSize (rawListPointer 0 lt n) with Some e => e | None => mkOS 0 0 end in
  let lsize := if lt =? 1 then bitListSize n else totalSize es * n in
  taddr + lsize <= zlen M ->
  word_is M a (withOffset (rawListPointer 0 lt n) (nearPointerOffset a taddr)) -> dep <> 0 ->
  exists rl',
  readPtr strict [M] 4294967288 0 M a dep =
  (Ok (mkPtr true 0 taddr n (if lt =? 1 then mkOS 0 0 else es) (uint_dec dep) KList false (lt =? 1) false), rl').
Proof.
  intros Hlt Hn Ha Ham Hab Hl Ht Htm es lsize Htb Hw Hd.
  set (raw := rawListPointer 0 lt n) in *.
  destruct (list_pointer_roundtrip 0 lt n ltac:(unfold off_ok; lia) ltac:(lia) Hn) as (P64 & Pt & Po & Plt & Pn).
  fold raw in P64, Pt, Po, Plt, Pn.
  destruct (HeapInv.fields_list lt n ltac:(lia) Hn) as (_ & Rm4 & _). fold raw in Rm4.
  assert (Rok : raw_ok raw).
  { split; [exact P64|]. split; [lia|]. split; [exact Po|]. intros E0. rewrite E0 in Rm4. cbv in Rm4. discriminate Rm4. }
  assert (Hes : elementSize raw = Some es).
  { unfold es, elementSize. rewrite Plt. cbv zeta.
    assert (lt = 0 \/ lt = 1 \/ lt = 2 \/ lt = 3 \/ lt = 4 \/ lt = 5 \/ lt = 6) as [->|[->|[->|[->|[->|[->| ->]]]]]] by lia; reflexivity. }
  assert (Hts : totalListSize raw = Some (Some lsize)).
  { unfold totalListSize. rewrite Plt, Pn, Hes. cbv zeta. unfold lsize.
    destruct (lt =? 1) eqn:E1; [reflexivity|]. destruct (lt =? 7) eqn:E7; [lia|]. unfold timesUnchecked.
    assert (0 <= totalSize es <= 8).
    { unfold es, elementSize. rewrite Plt. cbv zeta.
      assert (lt = 0 \/ lt = 2 \/ lt = 3 \/ lt = 4 \/ lt = 5 \/ lt = 6) as [->|[->|[->|[->|[->| ->]]]]] by lia; cbv; split; discriminate. }
    f_equal. f_equal. unfold u32. nia. }
  assert (L0 : 0 <= lsize).
  { unfold lsize. destruct (lt =? 1); [unfold bitListSize, u32; lia|]. unfold totalSize, u32. nia. }
  pose proof (near_resolves M a taddr raw Rok Ha Ham Hab Hl ltac:(lia) Htm Hw) as R.
  pose proof (resolved_read_list strict [M] 4294967288 0 a 0 taddr raw dep lsize es R Pt ltac:(rewrite Plt; lia) Hts Hes) as RR.
  cbn [Z.to_nat nth] in RR. rewrite Plt, Pn in RR. cbv zeta in RR.
  assert (RB : regionInBounds M taddr lsize = true).
  { unfold regionInBounds, addSize, maxSegmentSize. cbv zeta. destruct (taddr + lsize >? 4294967288) eqn:E; lia. }
  specialize (RR RB Hd (list_readSize_le _)).
  destruct (lt =? 1) eqn:E1; cbn [p_size p_bit] in RR; eexists; exact RR.
Qed.

(* element size of a list pointer word by its type code *)
Definition es_of (lt : Z) : ObjectSize :=
  if lt =? 2 then mkOS 1 0 else if lt =? 3 then mkOS 2 0 else if lt =? 4 then mkOS 4 0
  else if lt =? 5 then mkOS 8 0 else if lt =? 6 then mkOS 0 1 else mkOS 0 0.

Lemma elementSize_raw lt n : 0 <= lt < 7 -> 0 <= n < 536870912 -> elementSize (rawListPointer 0 lt n) = Some (es_of lt).
Proof.
  intros Hlt Hn. destruct (list_pointer_roundtrip 0 lt n ltac:(unfold off_ok; lia) ltac:(lia) Hn) as (_ & _ & _ & Plt & _).
  unfold elementSize. rewrite Plt. cbv zeta. unfold es_of.
  assert (lt = 0 \/ lt = 1 \/ lt = 2 \/ lt = 3 \/ lt = 4 \/ lt = 5 \/ lt = 6) as [->|[->|[->|[->|[->|[->| ->]]]]]] by lia; reflexivity.
Qed.

(* ------------------------------------------------------------------ sub / word_is bookkeeping *)
Lemma fold_res_app {A} (f : A -> Z -> res A) : forall l1 l2 a,
  fold_res (l1 ++ l2) a f = bind (fold_res l1 a f) (fun a' => fold_res l2 a' f).
Proof.
  induction l1 as [|y r IH]; intros l2 a; [reflexivity|]. cbn [app fold_res].
  destruct (f a y); cbn [bind]; auto.
Qed.

Lemma sub_app_l d t o n : 0 <= o -> 0 <= n -> o + n <= zlen d -> sub (d ++ t) o n = sub d o n.
Proof.
  intros Ho Hn Hb. unfold sub, zlen in *. rewrite skipn_app, firstn_app.
  replace (Z.to_nat o - length d)%nat with 0%nat by lia. cbn [skipn].
  rewrite skipn_length. replace (Z.to_nat n - (length d - Z.to_nat o))%nat with 0%nat by lia.
  cbn [firstn]. apply app_nil_r.
Qed.

Lemma sub_app_r d t o n : zlen d <= o -> 0 <= n -> sub (d ++ t) o n = sub t (o - zlen d) n.
Proof.
  intros Ho Hn. unfold sub, zlen in *. rewrite skipn_app, skipn_all2 by lia. cbn [app].
  f_equal. f_equal. lia.
Qed.

Lemma sub_set_slots D B ws : 0 <= B -> B + 8 * zlen ws <= zlen D -> sub (set_slots D B ws) B (8 * zlen ws) = bytes_of_words ws.
Proof.
  intros HB Hb. unfold sub, set_slots, zlen in *.
  assert (Lp : length (firstn (Z.to_nat B) D) = Z.to_nat B) by (rewrite firstn_length; lia).
  rewrite skipn_app, skipn_all2, Lp, Nat.sub_diag by lia. cbn [skipn app].
  rewrite firstn_app, firstn_all2 by (rewrite bow_length; lia).
  rewrite bow_length. replace (Z.to_nat (8 * Z.of_nat (length ws)) - 8 * length ws)%nat with 0%nat by lia.
  cbn [firstn]. apply app_nil_r.
Qed.

Lemma sub_prefix M o a b : 0 <= o -> 0 <= a -> 0 <= b -> sub M o a = firstn (Z.to_nat a) (sub M o (a + b)).
Proof.
  intros. unfold sub. rewrite firstn_firstn. f_equal. lia.
Qed.

Lemma sub_sub M o n o2 n2 : 0 <= o -> 0 <= o2 -> 0 <= n2 -> o2 + n2 <= n ->
  sub (sub M o n) o2 n2 = sub M (o + o2) n2.
Proof.
  intros Ho Ho2 Hn2 Hb. unfold sub. rewrite skipn_firstn_comm, firstn_firstn, <- skipn_add.
  f_equal; [lia|]. f_equal. lia.
Qed.

(* ------------------------------------------------------------------ the pointer loop, semantically *)
Lemma sem_loop (step : world -> Z -> res world) (m : segs) (B : Z) (n : nat) (P : Z -> list Z -> Prop) :
  0 <= B -> B mod 8 = 0 ->
  (forall i D cap rl w', 0 <= i < Z.of_nat n -> hinv D -> B + 8 * Z.of_nat n <= zlen D ->
     step (dstw D cap m rl) i = Ok w' ->
     exists word body cap' rl',
       w' = dstw (put_word D (B + 8 * i) word ++ body) cap' m rl' /\ hinv (D ++ body) /\ bytes_ok body /\
       forall pre' tail, zlen pre' = zlen D -> word_is pre' (B + 8 * i) word -> P i (pre' ++ body ++ tail)) ->
  forall k, (k <= n)%nat -> forall D cap rl w',
    hinv D -> B + 8 * Z.of_nat n <= zlen D ->
    fold_res (iota k) (dstw D cap m rl) step = Ok w' ->
    exists words kids cap' rl',
      length words = k /\ w' = dstw (set_slots D B words ++ kids) cap' m rl' /\ hinv (D ++ kids) /\ bytes_ok kids /\
      forall pre' tail, zlen pre' = zlen D -> sub pre' B (8 * Z.of_nat k) = bytes_of_words words ->
        forall i, 0 <= i < Z.of_nat k -> P i (pre' ++ kids ++ tail).
Proof.
  intros HB HBm Hstep. induction k as [|k IH]; intros Hk D cap rl w' Hi Hb H.
  - cbn in H. inversion H; subst. exists [], [], cap, rl. split; [reflexivity|].
    rewrite set_slots_nil by (unfold zlen in *; lia). rewrite !app_nil_r.
    split; [reflexivity|]. split; [exact Hi|]. split; [constructor|]. intros pre' tail _ _ i Hi0. lia.
  - rewrite iota_S, fold_res_app in H.
    destruct (fold_res (iota k) (dstw D cap m rl) step) as [wk| |] eqn:Ek; try discriminate. cbn [bind] in H.
    destruct (IH ltac:(lia) D cap rl wk Hi Hb Ek) as (words & kids & cap1 & rl1 & Lw & -> & Hi1 & Bk & Post).
    cbn [fold_res] in H. destruct (step _ (Z.of_nat k)) as [w2| |] eqn:Es; try discriminate. cbn [bind] in H.
    inversion H; subst w'; clear H.
    assert (Lsl : zlen (set_slots D B words) = zlen D).
    { apply set_slots_length; [assumption|]. unfold zlen in *. lia. }
    assert (Hi1' : hinv (set_slots D B words ++ kids)).
    { unfold hinv in *. rewrite zlen_app, Lsl. rewrite zlen_app in Hi1. exact Hi1. }
    destruct (Hstep (Z.of_nat k) _ cap1 rl1 w2 ltac:(lia) Hi1'
                    ltac:(rewrite zlen_app, Lsl; unfold zlen in *; lia) Es)
      as (word & body & cap2 & rl2 & -> & Hi2 & Bb & PostK).
    exists (words ++ [word]), (kids ++ body), cap2, rl2.
    split; [rewrite app_length; cbn [length]; lia|]. split.
    + f_equal. rewrite <- Lw at 1. rewrite put_word_slot by (unfold zlen in *; lia).
      rewrite <- !app_assoc. reflexivity.
    + split.
      * unfold hinv in *. rewrite !zlen_app in *. rewrite Lsl in Hi2. lia.
      * split; [apply Forall_app; split; assumption|]. intros pre' tail Lp Hs i Hi0.
        assert (Lbw : zlen (bytes_of_words words) = 8 * Z.of_nat k) by (unfold zlen; rewrite bow_length; lia).
        assert (Hs1 : sub pre' B (8 * Z.of_nat k) = bytes_of_words words).
        { rewrite (sub_prefix pre' B (8 * Z.of_nat k) 8) by lia.
          replace (8 * Z.of_nat k + 8) with (8 * Z.of_nat (S k)) by lia. rewrite Hs, bow_app.
          rewrite firstn_app, firstn_all2 by (rewrite bow_length; lia).
          rewrite bow_length. replace (Z.to_nat (8 * Z.of_nat k) - 8 * length words)%nat with 0%nat by lia.
          cbn [firstn]. apply app_nil_r. }
        destruct (Z.eq_dec i (Z.of_nat k)) as [->|Hne].
        -- rewrite <- app_assoc. rewrite (app_assoc pre' kids). apply PostK.
           ++ rewrite !zlen_app, Lsl. lia.
           ++ unfold word_is. rewrite sub_app_l by (unfold zlen in *; lia).
              replace (sub pre' (B + 8 * Z.of_nat k) 8) with (sub (sub pre' B (8 * Z.of_nat (S k))) (8 * Z.of_nat k) 8)
                by (apply sub_sub; lia).
              rewrite Hs, bow_app. rewrite sub_app_r by lia. rewrite Lbw, Z.sub_diag.
              unfold bytes_of_words. cbn [flat_map]. rewrite app_nil_r. unfold sub. cbn [Z.to_nat skipn].
              apply firstn_all2. rewrite le_encode_length. lia.
        -- rewrite <- app_assoc. apply (Post pre' (body ++ tail) Lp Hs1 i). lia.
Qed.

(* ------------------------------------------------------------------ the element loop of a list copy, semantically *)
(* [step] handles element i: it writes the block of bw words at B + 8*bw*i and appends bytes *)
Lemma sem_blocks_loop (step : world -> Z -> res world) (m : segs) (B bw : Z) (n : nat) (P : Z -> list Z -> Prop) :
  0 <= B -> B mod 8 = 0 -> 0 <= bw ->
  (forall i D cap rl w', 0 <= i < Z.of_nat n -> hinv D -> B + 8 * bw * Z.of_nat n <= zlen D ->
     step (dstw D cap m rl) i = Ok w' ->
     exists block body cap' rl',
       zlen block = bw /\
       w' = dstw (set_slots D (B + 8 * bw * i) block ++ body) cap' m rl' /\ hinv (D ++ body) /\ bytes_ok body /\
       forall pre' tail, zlen pre' = zlen D -> sub pre' (B + 8 * bw * i) (8 * bw) = bytes_of_words block ->
         P i (pre' ++ body ++ tail)) ->
  forall k, (k <= n)%nat -> forall D cap rl w',
    hinv D -> B + 8 * bw * Z.of_nat n <= zlen D ->
    fold_res (iota k) (dstw D cap m rl) step = Ok w' ->
    exists words kids cap' rl',
      zlen words = bw * Z.of_nat k /\ w' = dstw (set_slots D B words ++ kids) cap' m rl' /\ hinv (D ++ kids) /\ bytes_ok kids /\
      forall pre' tail, zlen pre' = zlen D -> sub pre' B (8 * bw * Z.of_nat k) = bytes_of_words words ->
        forall i, 0 <= i < Z.of_nat k -> P i (pre' ++ kids ++ tail).
Proof.
  intros HB HBm Hbw Hstep. induction k as [|k IH]; intros Hk D cap rl w' Hi Hb H.
  - cbn in H. inversion H; subst. exists [], [], cap, rl. split; [unfold zlen; cbn; lia|].
    rewrite set_slots_nil by (unfold zlen in *; nia). rewrite !app_nil_r.
    split; [reflexivity|]. split; [exact Hi|]. split; [constructor|]. intros pre' tail _ _ i Hi0. lia.
  - rewrite iota_S, fold_res_app in H.
    destruct (fold_res (iota k) (dstw D cap m rl) step) as [wk| |] eqn:Ek; try discriminate. cbn [bind] in H.
    destruct (IH ltac:(lia) D cap rl wk Hi Hb Ek) as (words & kids & cap1 & rl1 & Lw & -> & Hi1 & Bk & Post).
    cbn [fold_res] in H. destruct (step _ (Z.of_nat k)) as [w2| |] eqn:Es; try discriminate. cbn [bind] in H.
    inversion H; subst w'; clear H.
    assert (Hnn : bw * Z.of_nat k + bw <= bw * Z.of_nat n) by nia.
    assert (Lsl : zlen (set_slots D B words) = zlen D).
    { apply set_slots_length; [assumption|]. unfold zlen in *. lia. }
    assert (Hi1' : hinv (set_slots D B words ++ kids)).
    { unfold hinv in *. rewrite zlen_app, Lsl. rewrite zlen_app in Hi1. exact Hi1. }
    destruct (Hstep (Z.of_nat k) _ cap1 rl1 w2 ltac:(lia) Hi1'
                    ltac:(rewrite zlen_app, Lsl; unfold zlen in *; lia) Es)
      as (block & body & cap2 & rl2 & Lbk & -> & Hi2 & Bb & PostK).
    exists (words ++ block), (kids ++ body), cap2, rl2.
    split; [rewrite zlen_app; lia|]. split.
    + f_equal. rewrite set_slots_app_left by (try rewrite Lsl; lia).
      replace (B + 8 * bw * Z.of_nat k) with (B + 8 * zlen words) by lia.
      rewrite set_slots_app by (try rewrite zlen_app; lia).
      rewrite <- !app_assoc. reflexivity.
    + split.
      * unfold hinv in *. rewrite !zlen_app in *. rewrite Lsl in Hi2. lia.
      * split; [apply Forall_app; split; assumption|]. intros pre' tail Lp Hs i Hi0.
        assert (Lbw : zlen (bytes_of_words words) = 8 * bw * Z.of_nat k) by (unfold zlen in *; rewrite bow_length; lia).
        assert (Lbb : zlen (bytes_of_words block) = 8 * bw) by (unfold zlen in *; rewrite bow_length; lia).
        replace (8 * bw * Z.of_nat (S k)) with (8 * bw * Z.of_nat k + 8 * bw) in Hs by lia.
        assert (Hs1 : sub pre' B (8 * bw * Z.of_nat k) = bytes_of_words words).
        { rewrite (sub_prefix pre' B (8 * bw * Z.of_nat k) (8 * bw)) by lia. rewrite Hs, bow_app.
          rewrite firstn_app, firstn_all2 by (unfold zlen in Lbw; lia).
          replace (Z.to_nat (8 * bw * Z.of_nat k) - length (bytes_of_words words))%nat with 0%nat by (unfold zlen in Lbw; lia).
          cbn [firstn]. apply app_nil_r. }
        destruct (Z.eq_dec i (Z.of_nat k)) as [->|Hne].
        -- rewrite <- app_assoc. rewrite (app_assoc pre' kids). apply PostK.
           ++ rewrite !zlen_app, Lsl. lia.
           ++ rewrite sub_app_l by (unfold zlen in *; lia).
              replace (sub pre' (B + 8 * bw * Z.of_nat k) (8 * bw))
                with (sub (sub pre' B (8 * bw * Z.of_nat k + 8 * bw)) (8 * bw * Z.of_nat k) (8 * bw))
                by (apply sub_sub; lia).
              rewrite Hs, bow_app. rewrite sub_app_r by lia. rewrite Lbw, Z.sub_diag.
              unfold sub. cbn [Z.to_nat skipn]. apply firstn_all2. unfold zlen in Lbb. lia.
        -- rewrite <- app_assoc. apply (Post pre' (body ++ tail) Lp Hs1 i). lia.
Qed.

Lemma set_slots_one D A w : set_slots D A [w] = put_word D A w.
Proof. unfold set_slots, put_word. cbn [bytes_of_words flat_map length]. rewrite app_nil_r. reflexivity. Qed.

(* ------------------------------------------------------------------ composite lists: the tag word *)
(* a composite list pointer handed out by the reader sits behind a tag word that agrees with it *)
Definition ctag_ok (m : segs) (p : Ptr) : Prop :=
  p_valid p = true -> p_kind p = KList -> p_comp p = true ->
  8 <= p_off p /\ exists t, readRawPointer (seg_of m p) (p_off p - 8) = Ok t /\ word64 t /\
    pointerType t = structPointer /\ structSize t = p_size p /\ s32 (ptr_offset t) = p_len p.

Lemma readListPtr_ctag strict m sid s base val lp : seg_ok s -> is_seg m sid s ->
  readListPtr strict sid s base val = Ok lp -> ctag_ok m lp.
Proof.
  intros Hok Hs. unfold readListPtr. destruct (element base (ptr_offset val) 8) as [addr|] eqn:Ee; [|discriminate].
  destruct (totalListSize val) as [[lsize|]|]; try discriminate.
  destruct (regionInBounds s addr lsize) eqn:RB; cbn [negb]; [|discriminate]. cbv zeta.
  destruct (listType val =? 7).
  - destruct (readRawPointer s addr) as [hdr| |] eqn:Eh; try discriminate. cbn [bind].
    destruct (addSize addr 8) as [addr'|] eqn:Ea; [|discriminate].
    destruct (pointerType hdr =? structPointer) eqn:Ept; cbn [negb]; [|discriminate].
    destruct (strict && (s32 (ptr_offset hdr) <? 0)); [discriminate|].
    destruct (times (totalSize (structSize hdr)) (s32 (ptr_offset hdr))); [|discriminate].
    destruct (negb (regionInBounds s addr' z)); [discriminate|].
    intros H. inversion H; subst. intros _ _ _. cbn [p_off p_size p_len p_seg].
    apply addSize_spec in Ea. destruct Ea as [-> _]. apply element_spec in Ee.
    unfold seg_of. cbn [p_seg]. destruct Hs as [_ <-].
    split; [lia|]. exists hdr. replace (addr + 8 - 8) with addr by lia.
    split; [exact Eh|]. split.
    + unfold readRawPointer, readUintN in Eh. destruct (slice s addr 8) as [b| |] eqn:Es; try discriminate. cbn [bind] in Eh.
      inversion Eh; subst hdr. apply slice_eq_sub in Es; [|exact Hok|lia]. destruct Es as (Eb & B1 & B2).
      assert (Hb : bytes_ok b) by (rewrite Eb; unfold sub; apply Forall_firstn', Forall_skipn'; apply Hok).
      pose proof (le_decode_range b Hb) as R.
      assert (zlen b = 8) by (rewrite Eb; apply sub_length; lia). rewrite H0 in R. unfold word64. change (256 ^ 8) with 18446744073709551616 in R. exact R.
    + split; [lia|]. split; reflexivity.
  - destruct (listType val =? 1).
    + intros H. inversion H; subst. intros _ _ K. discriminate K.
    + destruct (elementSize val); [|discriminate]. intros H. inversion H; subst. intros _ _ K. discriminate K.
Qed.

Lemma readPtr_ctag strict m rl sid s a dep q rl' : msg_ok m -> is_seg m sid s -> 0 <= a -> a + 8 <= zlen s ->
  readPtr strict m rl sid s a dep = (Ok q, rl') -> ctag_ok m q.
Proof.
  intros Hm Hs Ha Hb. unfold readPtr.
  pose proof (resolveFarPointer_safe strict m sid s a Hm Hs Ha Hb) as RS.
  destruct (resolveFarPointer strict m sid s a) as [[[[dsid dst] base] val]| |]; try discriminate.
  cbn [res_sat far_post] in RS. destruct RS as (Hds & _ & _).
  destruct (val =? 0); [intros H; inversion H; subst; intros K; discriminate K|].
  destruct (dep =? 0); [discriminate|]. cbv zeta.
  destruct (pointerType val =? structPointer).
  { unfold readStructPtr. destruct (element base (ptr_offset val) 8); [|discriminate].
    destruct (negb (regionInBounds dst z (totalSize (structSize val)))); [discriminate|].
    unfold canRead, struct_readSize. cbn [p_valid p_size]. destruct (rl >=? totalSize (structSize val)); [|discriminate].
    intros H. inversion H; subst. intros _ K. discriminate K. }
  destruct (pointerType val =? listPointer).
  { destruct (readListPtr strict dsid dst base val) as [lp| |] eqn:EL; try discriminate.
    unfold canRead. destruct (rl >=? list_readSize lp); [|discriminate].
    intros H. inversion H; subst.
    pose proof (readListPtr_ctag strict m dsid dst base val lp (is_seg_ok m dsid dst Hm Hds) Hds EL) as C.
    intros V K Cc. cbn [p_valid p_kind p_comp p_off p_size p_len p_seg] in *.
    unfold ctag_ok in C. unfold seg_of in *. cbn [p_seg] in *. apply C; try assumption.
    - unfold readListPtr in EL. destruct (element base (ptr_offset val) 8); [|discriminate].
      destruct (totalListSize val) as [[?|]|]; try discriminate. destruct (negb _); [discriminate|]. cbv zeta in EL.
      destruct (listType val =? 7).
      + destruct (readRawPointer dst z); try discriminate. cbn [bind] in EL. destruct (addSize z 8); [|discriminate].
        destruct (negb _); [discriminate|]. destruct (strict && _); [discriminate|]. destruct (times _ _); [|discriminate].
        destruct (negb _); [discriminate|]. inversion EL; reflexivity.
      + destruct (listType val =? 1); [inversion EL; reflexivity|]. destruct (elementSize val); [|discriminate]. inversion EL; reflexivity.
    - unfold readListPtr in EL. destruct (element base (ptr_offset val) 8); [|discriminate].
      destruct (totalListSize val) as [[?|]|]; try discriminate. destruct (negb _); [discriminate|]. cbv zeta in EL.
      destruct (listType val =? 7).
      + destruct (readRawPointer dst z); try discriminate. cbn [bind] in EL. destruct (addSize z 8); [|discriminate].
        destruct (negb _); [discriminate|]. destruct (strict && _); [discriminate|]. destruct (times _ _); [|discriminate].
        destruct (negb _); [discriminate|]. inversion EL; reflexivity.
      + destruct (listType val =? 1); [inversion EL; reflexivity|]. destruct (elementSize val); [|discriminate]. inversion EL; reflexivity. }
  destruct (pointerType val =? otherPointer); [|discriminate].
  destruct (negb (otherPointerType val =? 0)); [discriminate|].
  intros H. inversion H; subst. intros _ K. discriminate K.
Qed.

(* the pointer word of a composite list placed near: the tag word at taddr, the elements behind it *)
Lemma read_near_comp strict M a taddr n sz wc t dep :
  0 <= wc < 536870912 -> 0 <= n -> os_wf sz -> totalSize sz * n = 8 * wc ->
  0 <= a -> a mod 8 = 0 -> a + 8 <= zlen M -> zlen M <= 4294967288 ->
  0 <= taddr -> taddr mod 8 = 0 -> taddr + 8 + 8 * wc <= zlen M ->
  word_is M a (withOffset (rawListPointer 0 7 wc) (nearPointerOffset a taddr)) ->
  readRawPointer M taddr = Ok t -> pointerType t = structPointer -> structSize t = sz -> s32 (ptr_offset t) = n ->
  dep <> 0 ->
  exists rl',
  readPtr strict [M] 4294967288 0 M a dep =
  (Ok (mkPtr true 0 (taddr + 8) n sz (uint_dec dep) KList true false false), rl').
Proof.
  intros Hwc Hn Hwf Hts Ha Ham Hab Hl Ht Htm Htb Hw Htag Tpt Tsz Tn Hd.
  set (raw := rawListPointer 0 7 wc) in *.
  destruct (list_pointer_roundtrip 0 7 wc ltac:(unfold off_ok; lia) ltac:(lia) Hwc) as (P64 & Pt & Po & Plt & Pn).
  fold raw in P64, Pt, Po, Plt, Pn.
  destruct (HeapInv.fields_list 7 wc ltac:(lia) Hwc) as (_ & Rm4 & _). fold raw in Rm4.
  assert (Rok : raw_ok raw).
  { split; [exact P64|]. split; [lia|]. split; [exact Po|]. intros E0. rewrite E0 in Rm4. cbv in Rm4. discriminate Rm4. }
  destruct (near_resolves M a taddr raw Rok Ha Ham Hab Hl ltac:(lia) Htm Hw) as (base & val & R & Vw & Vt & Vs & Vl & Vn & Ve).
  pose proof (R strict) as Rs. cbn [Z.to_nat nth] in Rs. unfold readPtr. rewrite Rs.
  assert (Hv0 : (val =? 0) = false).
  { destruct (val =? 0) eqn:E; auto. assert (val = 0) by lia. subst val. rewrite Pt in Vt. cbv in Vt. discriminate. }
  rewrite Hv0. destruct (dep =? 0) eqn:ED; [lia|]. cbv zeta. rewrite Vt, Pt.
  change (listPointer =? structPointer) with false. change (listPointer =? listPointer) with true. cbv iota.
  unfold readListPtr. rewrite Ve.
  assert (HT : totalListSize val = Some (Some (8 * (wc + 1)))).
  { unfold totalListSize. rewrite Vl, Vn, Plt, Pn. cbv zeta. change (7 =? 1) with false. change (7 =? 7) with true. cbv iota.
    f_equal. replace (s32 (wc + 1)) with (wc + 1) by (unfold s32; cbv zeta; destruct (_ <? _) eqn:E; lia).
    apply times_some. unfold maxSegmentSize. lia. }
  rewrite HT.
  assert (RB1 : regionInBounds M taddr (8 * (wc + 1)) = true).
  { unfold regionInBounds, addSize, maxSegmentSize. cbv zeta. destruct (taddr + 8 * (wc + 1) >? 4294967288) eqn:E; lia. }
  rewrite RB1. cbn [negb]. cbv zeta. rewrite Vl, Plt. change (7 =? 7) with true. cbv iota.
  rewrite Htag. cbn [bind].
  assert (EA : addSize taddr 8 = Some (taddr + 8)).
  { unfold addSize, maxSegmentSize. cbv zeta. destruct (taddr + 8 >? 4294967288) eqn:E; [lia|reflexivity]. }
  rewrite EA, Tpt. change (structPointer =? structPointer) with true. cbn [negb]. rewrite Tsz, Tn.
  destruct (strict && (n <? 0)) eqn:En; [lia|].
  rewrite (times_some (totalSize sz) n) by (rewrite Hts; unfold maxSegmentSize; lia). rewrite Hts.
  assert (RB2 : regionInBounds M (taddr + 8) (8 * wc) = true).
  { unfold regionInBounds, addSize, maxSegmentSize. cbv zeta. destruct (taddr + 8 + 8 * wc >? 4294967288) eqn:E; lia. }
  rewrite RB2. cbn [negb]. unfold canRead.
  match goal with |- context [if ?c then _ else _] => destruct c eqn:EC end.
  - eexists. reflexivity.
  - pose proof (list_readSize_le (mkPtr true 0 (taddr + 8) n sz 0 KList true false false)). lia.
Qed.
