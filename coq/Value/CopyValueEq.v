(* C16 [T2] copy_value, consequences:
   resize_value_eq   a struct resized to section sizes not smaller than its truncated sizes is Equal
                     (value_eq) to the original -- version skew loses nothing that is not default;
   copy_then_equal   capnp.Equal(source, copy) is true for a deep copy (model equal_m, C17). *)
From CV Require Import Value.ValueEq Value.ValueEqProofs Value.EqualM Value.Den Value.DenFacts Value.DenLists
                       Value.CanonSpec Value.CanonProofs Value.CanonProofs2 Value.CanonMBlocks Value.EqualCorrect
                       Value.CanonMLoop Value.CanonMHeap Value.CanonMInd Value.CopyValue Value.CopyValueHeap Value.CopyValueDefs Value.CopyValueInd Value.VDec Value.VDecProofs Value.EqualProofs.
From CV Require Import Core.ReaderFacts Core.SafetyProofs Core.BuilderFacts Core.CopySafe.
From Coq Require Import ZifyBool ZifyNat.
Open Scope Z_scope.

Lemma data_eq_resize ws dn : (length (strip0 ws) <= dn)%nat -> data_eq (resize_words ws dn) ws = true.
Proof.
  intros H. unfold resize_words. rewrite data_eq_app_zeros.
  destruct (Nat.le_gt_cases (length ws) dn) as [Hge|Hlt].
  - rewrite firstn_all2 by lia. apply data_eq_refl.
  - rewrite <- (pad0_strip0 dn ws) by lia. unfold pad0. rewrite data_eq_app_zeros. apply data_eq_strip0_self.
Qed.

Lemma nthv_over' (vs : list value) i : zlen vs <= i -> nthv vs i = VNull.
Proof. intros H. unfold nthv. apply nth_overflow. unfold zlen in H. lia. Qed.

Lemma nthv_stripped ps i : Z.of_nat (length (stripN ps)) <= i -> nthv ps i = VNull.
Proof.
  intros H. unfold nthv. rewrite (stripN_nulls ps). rewrite app_nth2 by lia.
  destruct (Nat.lt_ge_cases (Z.to_nat i - length (stripN ps)) (length ps - length (stripN ps))) as [Hx|Hx];
    [apply nth_repeat| apply nth_overflow; rewrite repeat_length; exact Hx].
Qed.

Lemma ptrs_eq_resize ps pn : (length (stripN ps) <= pn)%nat -> ptrs_eq true (resize_ptrs ps pn) ps = true.
Proof.
  intros H. apply (proj2 (ptrs_eq_nth true _ _)). intros k.
  change (nth k (resize_ptrs ps pn) VNull) with (nth k (resize_ptrs ps pn) VNull).
  assert (E1 : nth k (resize_ptrs ps pn) VNull = nthv (resize_ptrs ps pn) (Z.of_nat k)) by (unfold nthv; rewrite Nat2Z.id; reflexivity).
  assert (E2 : nth k ps VNull = nthv ps (Z.of_nat k)) by (unfold nthv; rewrite Nat2Z.id; reflexivity).
  rewrite E1, E2. set (i := Z.of_nat k). assert (Hi : 0 <= i) by (unfold i; lia).
  destruct (Z_lt_le_dec i (Z.of_nat pn)) as [Hlt|Hge].
  - rewrite nthv_resize_ptrs by lia. destruct (i <? zlen ps) eqn:E.
    + apply (veq_refl true).
    + rewrite (nthv_over' ps i) by lia. reflexivity.
  - rewrite (nthv_over' (resize_ptrs ps pn) i) by (unfold zlen; rewrite resize_ptrs_length; lia).
    rewrite (nthv_stripped ps i) by lia. reflexivity.
Qed.

Theorem resize_value_eq : forall ws ps dn pn,
  (length (strip0 ws) <= dn)%nat -> (length (stripN ps) <= pn)%nat ->
  value_eq (resize (VStruct ws ps) dn pn) (VStruct ws ps) = true.
Proof.
  intros ws ps dn pn Hd Hp. cbn [resize]. unfold value_eq. rewrite veq_struct.
  rewrite data_eq_resize by exact Hd. rewrite ptrs_eq_resize by exact Hp. reflexivity.
Qed.

(* Equal(source, copy): after the deep copy of src into slot a, comparing src (in its message) with
   the pointer read back from the slot (in the destination) gives true whenever Equal returns a
   result.  [msg_ok [D']]: the destination segment consists of bytes (an invariant of the builder
   model not tracked by this development's single-segment view, hence a hypothesis here). *)
Theorem copy_then_equal : forall m f D cap rl a src v fc w' c fx,
  msg_ok m -> hinv D -> bytes_ok D -> 0 <= a -> a mod 8 = 0 -> a + 8 <= zlen D ->
  wf_ptr m src -> aligned src -> caligned src -> ctag_ok m src -> den true m 0 [] src v -> cvdom v = true ->
  write_ptr f true (dstw D cap m rl) 0 a InSrc src fc = Ok w' ->
  cfg_strict c = true -> all_fixed fx ->
  exists D' cap' rl' q, w' = dstw D' cap' m rl' /\
    (exists dep rlx rlx', readPtr true [D'] rlx 0 D' a dep = (Ok q, rlx')) /\
    (forall fuel st b st',
       equal_m fuel c fx (mkEC m [] [D'] [] false) st src q = (EOk b, st') -> b = true).
Proof.
  intros m f D cap rl a src v fc w' c fx Hm Hi HbD Ha Ham Hab Hwf Hal Hcal Hctg D0 Hsd H Hs Hfx.
  destruct (copy_value_ptr m f D cap rl a src v fc w' Hm Hi Ha Ham Hab Hwf Hal Hcal Hctg D0 Hsd H)
    as (D' & cap' & rl' & -> & Hinv & Hbd' & (dep & rlx & q & rlx' & R & Dq)).
  exists D', cap', rl', q. split; [reflexivity|]. split; [exists dep, rlx, rlx'; exact R|].
  intros fuel st b st' E.
  assert (Hmd : msg_ok [D']).
  { constructor; [|constructor]. split; [destruct Hinv as [_ X]; unfold maxSegmentSize; exact X|apply Hbd'; exact HbD]. }
  eapply (equal_layout_independent c fx (mkEC m [] [D'] [] false) fuel st src q b st' v v Hs Hfx); try eassumption.
  - exact (Dq 1 []).
  - apply value_eq_refl.
Qed.

(* ------------------------------------------------------------------ non-vacuity *)
(* source: a struct (data word 7) with a byte list "abc", a pointer list holding one struct, a bit
   list (3 bits, byte 0xfd) and a struct list of two elements; destination: a fresh single-segment message (root word allocated).  Every
   hypothesis of copy_value_ptr holds and the copy succeeds. *)
Definition msg_cv : segs :=
  [wbytes [struct_word 0 1 4; 7; list_word 3 2 3; list_word 3 6 1; list_word 4 1 3; list_word 4 7 2;
           6513249; struct_word 0 1 0; 5; 253; struct_word 2 1 0; 7; 0]].
Definition root_cv : Ptr :=
  match fst (readPtr true msg_cv 1000000 0 (nth 0 msg_cv []) 0 64) with Ok q => q | _ => nullPtr end.

Example copy_value_nonvacuous :
  hinv (repeat 0 8%nat) /\ wf_ptr msg_cv root_cv /\ aligned root_cv /\ caligned root_cv /\ ctag_ok msg_cv root_cv /\ p_valid root_cv = true /\
  exists v w', den true msg_cv 0 [] root_cv v /\ cvdom v = true /\
               write_ptr 20 true (dstw (repeat 0 8%nat) 1024 msg_cv 1000000) 0 0 InSrc root_cv false = Ok w'.
Proof.
  split; [split; vm_compute; [reflexivity|discriminate]|].
  split.
  { intros _. vm_compute. repeat split; discriminate. }
  split; [intros _; reflexivity|]. split; [intros K; vm_compute in K; discriminate K|]. split; [intros _ K; vm_compute in K; discriminate K|]. split; [reflexivity|].
  eexists. eexists. split; [apply (vdec_den 10 1000000); vm_compute; reflexivity|].
  split; vm_compute; reflexivity.
Qed.
