(* C18 [T2]: the loop invariant of Canonicalize's pointer loops (struct pointers, pointer-list
   elements, struct-list elements): slot i of a block is set to the pointer word of child i
   and child i's canonical bytes are appended at the end of the segment -- exactly enc_cells. *)
From CV Require Import Value.ValueEq Value.EqualM Value.CanonSpec Value.CanonProofs Value.CanonProofs3 Value.CanonM Value.CanonMStruct Value.CanonMData Value.CanonMHeap Value.DenLists.
From CV Require Import Core.ReaderFacts Core.SafetyProofs Core.BuilderFacts.
From Coq Require Import ZifyBool ZifyNat.
Ltac Zify.zify_post_hook ::= Z.div_mod_to_equations.
Open Scope Z_scope.

(* ------------------------------------------------------------------ enc_cells: prefix and snoc *)
Lemma enc_cells_app_words ev d cs pos cur :
  enc_cells ev (map CW d ++ cs) pos cur =
  match enc_cells ev cs (pos + zlen d) cur with
  | COk bk => COk (d ++ fst bk, snd bk) | CCap => CCap | CSize => CSize | CFuel => CFuel
  end.
Proof.
  revert pos. induction d as [|w r IH]; intros pos.
  - cbn [map app]. replace (pos + zlen (@nil Z)) with pos by (unfold zlen; cbn; lia).
    destruct (enc_cells ev cs pos cur) as [[b k]| | |]; reflexivity.
  - cbn [map app enc_cells]. rewrite IH. replace (pos + 1 + zlen r) with (pos + zlen (w :: r)) by (unfold zlen; cbn [length]; lia).
    destruct (enc_cells ev cs (pos + zlen (w :: r)) cur) as [[b k]| | |]; reflexivity.
Qed.

Lemma enc_cells_snoc ev v w body : forall cs pos cur b k,
  enc_cells ev cs pos cur = COk (b, k) ->
  ev v (pos + zlen cs) (cur + zlen k) = COk (w, body) ->
  enc_cells ev (cs ++ [CP v]) pos cur = COk (b ++ [w], k ++ body).
Proof.
  induction cs as [|c cs IH]; intros pos cur b k H Hv.
  - cbn in H. inversion H; subst. cbn [app enc_cells]. 
    replace (pos + zlen (@nil cell)) with pos in Hv by (unfold zlen; cbn; lia).
    replace (cur + zlen (@nil Z)) with cur in Hv by (unfold zlen; cbn; lia).
    rewrite Hv. cbn [cbind fst snd]. rewrite app_nil_r. reflexivity.
  - destruct c as [w0|v0]; cbn [app enc_cells] in *.
    + destruct (enc_cells ev cs (pos + 1) cur) as [[b' k']| | |] eqn:E; try discriminate.
      cbn in H. inversion H; subst.
      rewrite (IH (pos + 1) cur b' k E) by (replace (pos + 1 + zlen cs) with (pos + zlen (CW w0 :: cs)) by (unfold zlen; cbn [length]; lia); exact Hv).
      reflexivity.
    + destruct (ev v0 pos cur) as [[w1 body1]| | |] eqn:E0; try discriminate. cbn [cbind fst snd] in *.
      destruct (enc_cells ev cs (pos + 1) (cur + zlen body1)) as [[b' k']| | |] eqn:E; try discriminate.
      cbn in H. inversion H; subst.
      rewrite (IH (pos + 1) (cur + zlen body1) b' k' E).
      * cbn [cbind fst snd]. rewrite app_assoc. reflexivity.
      * replace (pos + 1 + zlen cs) with (pos + zlen (CP v0 :: cs)) by (unfold zlen; cbn [length]; lia).
        replace (cur + zlen body1 + zlen k') with (cur + zlen (body1 ++ k')) by (unfold zlen; rewrite app_length; lia). exact Hv.
Qed.

(* ------------------------------------------------------------------ kfold *)
Lemma kfold_app {A} (f : A -> Z -> cout A) : forall l1 l2 a,
  kfold (l1 ++ l2) a f = kbind (kfold l1 a f) (fun a' => kfold l2 a' f).
Proof.
  induction l1 as [|y r IH]; intros l2 a; [reflexivity|]. cbn [app kfold].
  destruct (f a y); cbn [kbind]; auto.
Qed.

Lemma iota_S n : iota (S n) = iota n ++ [Z.of_nat n].
Proof. unfold iota. rewrite seq_S, map_app. reflexivity. Qed.

(* ------------------------------------------------------------------ the slots of a block *)
Definition set_slots (data : list Z) (B : Z) (ws : list Z) : list Z :=
  firstn (Z.to_nat B) data ++ bytes_of_words ws ++ skipn (Z.to_nat B + 8 * length ws) data.

Lemma bow_app a b : bytes_of_words (a ++ b) = bytes_of_words a ++ bytes_of_words b.
Proof. unfold bytes_of_words. apply flat_map_app. Qed.

Lemma bow_length ws : length (bytes_of_words ws) = (8 * length ws)%nat.
Proof. apply bytes_of_words_length. Qed.

Lemma set_slots_nil data B : 0 <= B <= zlen data -> set_slots data B [] = data.
Proof. intros H. unfold set_slots. cbn [bytes_of_words flat_map length app]. rewrite Nat.mul_0_r, Nat.add_0_r. apply firstn_skipn. Qed.

Lemma put_word_mid l1 r kids w : (8 <= length r)%nat ->
  put_word ((l1 ++ r) ++ kids) (Z.of_nat (length l1)) w = (l1 ++ le_encode 8 w ++ skipn 8 r) ++ kids.
Proof.
  intros Hr. unfold put_word. rewrite Nat2Z.id, <- !app_assoc, firstn_app_exact. f_equal. f_equal.
  rewrite skipn_app, (skipn_all2 l1) by lia. cbn [app].
  replace (length l1 + 8 - length l1)%nat with 8%nat by lia.
  rewrite skipn_app. replace (8 - length r)%nat with 0%nat by lia. reflexivity.
Qed.

(* setting slot k after slots 0..k-1, with children already appended behind the old data *)
Lemma put_word_slot data B ws kids w : 0 <= B -> B + 8 * Z.of_nat (length ws) + 8 <= zlen data ->
  put_word (set_slots data B ws ++ kids) (B + 8 * Z.of_nat (length ws)) w = set_slots data B (ws ++ [w]) ++ kids.
Proof.
  intros HB Hb. unfold zlen in Hb. unfold set_slots.
  assert (Lp : length (firstn (Z.to_nat B) data) = Z.to_nat B) by (rewrite firstn_length; lia).
  pose proof (bow_length ws) as Lm.
  replace (B + 8 * Z.of_nat (length ws)) with (Z.of_nat (length (firstn (Z.to_nat B) data ++ bytes_of_words ws)))
    by (rewrite app_length, Lp, Lm; lia).
  rewrite (app_assoc (firstn (Z.to_nat B) data)).
  rewrite put_word_mid by (rewrite skipn_length; lia).
  rewrite bow_app, app_length. cbn [length]. unfold bytes_of_words at 3. cbn [flat_map]. rewrite app_nil_r.
  rewrite <- skipn_add, <- !app_assoc. f_equal. f_equal. f_equal. f_equal. f_equal. lia.
Qed.

Lemma set_slots_length data B ws : 0 <= B -> B + 8 * Z.of_nat (length ws) <= zlen data ->
  zlen (set_slots data B ws) = zlen data.
Proof.
  intros HB Hb. unfold set_slots, zlen in *. rewrite !app_length, firstn_length, skipn_length, bow_length. lia.
Qed.

Definition hinv (data : list Z) : Prop := zlen data mod 8 = 0 /\ zlen data <= 4294967288.

(* ------------------------------------------------------------------ the slot loop *)
(* [step] handles slot i: reads the i-th source pointer, canonicalises it (appending its bytes)
   and stores the resulting pointer in slot i of the block at byte address B *)
Lemma slots_loop (step : world -> Z -> cout world) (m : segs) (B : Z) (vals : list value)
      (okF : nat -> Prop) (evs : nat -> value -> Z -> Z -> cres (Z * list Z)) :
  0 <= B -> B mod 8 = 0 ->
  (forall i data cap rl w', 0 <= i < zlen vals -> hinv data -> B + 8 * zlen vals <= zlen data ->
     step (dstw data cap m rl) i = KOk w' ->
     exists word body cap' rl',
       w' = dstw (put_word data (B + 8 * i) word ++ bytes_of_words body) cap' m rl' /\
       hinv (data ++ bytes_of_words body) /\
       forall F, okF F -> evs F (nth (Z.to_nat i) vals VNull) (B / 8 + i) (zlen data / 8) = COk (word, body)) ->
  forall n, (n <= length vals)%nat -> forall data cap rl w',
    hinv data -> B + 8 * zlen vals <= zlen data ->
    kfold (iota n) (dstw data cap m rl) step = KOk w' ->
    exists words kids cap' rl',
      length words = n /\ w' = dstw (set_slots data B words ++ bytes_of_words kids) cap' m rl' /\
      hinv (data ++ bytes_of_words kids) /\
      forall F, okF F -> enc_cells (evs F) (map CP (firstn n vals)) (B / 8) (zlen data / 8) = COk (words, kids).
Proof.
  intros HB HBm Hstep. induction n as [|n IH]; intros Hn data cap rl w' Hi Hb H.
  - cbn in H. inversion H; subst. exists [], [], cap, rl. split; [reflexivity|].
    rewrite set_slots_nil by (unfold zlen in *; lia). cbn [bytes_of_words flat_map]. rewrite !app_nil_r.
    split; [reflexivity|]. split; [exact Hi| intros F _; reflexivity].
  - rewrite iota_S, kfold_app in H.
    destruct (kfold (iota n) (dstw data cap m rl) step) as [wk| | |] eqn:Ek; try discriminate. cbn [kbind] in H.
    destruct (IH ltac:(lia) data cap rl wk Hi Hb Ek) as (words & kids & cap1 & rl1 & Lw & -> & Hi1 & Ec).
    cbn [kfold] in H. destruct (step _ (Z.of_nat n)) as [w2| | |] eqn:Es; try discriminate. cbn [kbind] in H.
    inversion H; subst w'; clear H.
    assert (Lsl : zlen (set_slots data B words) = zlen data).
    { apply set_slots_length; [assumption|]. unfold zlen in *. lia. }
    assert (Hi1' : hinv (set_slots data B words ++ bytes_of_words kids)).
    { unfold hinv in *. rewrite zlen_app, Lsl. rewrite zlen_app in Hi1. exact Hi1. }
    destruct (Hstep (Z.of_nat n) _ cap1 rl1 w2 ltac:(unfold zlen; lia) Hi1'
                    ltac:(rewrite zlen_app, Lsl; unfold zlen in *; lia) Es)
      as (word & body & cap2 & rl2 & -> & Hi2 & Ev).
    exists (words ++ [word]), (kids ++ body), cap2, rl2.
    split; [rewrite app_length; cbn [length]; lia|]. split.
    + f_equal. rewrite <- Lw at 1. rewrite put_word_slot by (unfold zlen in *; lia).
      rewrite bow_app, <- !app_assoc. reflexivity.
    + split.
      * unfold hinv in *. rewrite bow_app. rewrite !zlen_app in *. rewrite Lsl in Hi2. lia.
      * intros F HF. specialize (Ec F HF). specialize (Ev F HF).
        rewrite (firstn_snoc VNull n vals) by lia. rewrite map_app. cbn [map].
        apply (enc_cells_snoc (evs F) _ word body _ _ _ words kids Ec).
        rewrite zlen_map. rewrite Nat2Z.id in Ev.
        replace (B / 8 + zlen (firstn n vals)) with (B / 8 + Z.of_nat n) by (unfold zlen; rewrite firstn_length; lia).
        replace (zlen data / 8 + zlen kids) with (zlen (set_slots data B words ++ bytes_of_words kids) / 8).
        -- exact Ev.
        -- rewrite zlen_app, Lsl. unfold zlen at 2. rewrite bow_length. destruct Hi as [Hm _]. unfold zlen in *. lia.
Qed.
