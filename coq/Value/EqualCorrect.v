(* C17 [T1]: whenever the (repaired) model of Equal answers (b, nil), b is the documented
   equality of the values the two pointers denote -- for all messages, pointers, limits. *)
From CV Require Import Value.ValueEq Value.ValueEqProofs Value.EqualM Value.Den Value.DenFacts
                       Value.DenLists Value.DenBits.
From CV Require Import Core.ReaderFacts Core.SafetyProofs.
From Coq Require Import ZifyBool ZifyNat.
Ltac Zify.zify_post_hook ::= Z.div_mod_to_equations.
Open Scope Z_scope.

Definition all_fixed (fx : efix) : Prop :=
  fx_bitlist fx = true /\ fx_farnull fx = true /\ fx_depth (fx_rd fx) = true.

Section Correct.
Context (c : config) (fx : efix) (x : ectx).
Context (Hstrict : cfg_strict c = true) (Hfx : all_fixed fx).
Context (Hma : msg_ok (segs_of x SA)) (Hmb : msg_ok (segs_of x SB)).

Definition denA := den true (segs_of x SA) 0 (caps_of x SA).
Definition denB := den true (segs_of x SB) (if ec_same x then 0 else 1) (caps_of x SB).

Definition rec_ok (rec : erec) : Prop :=
  forall st p q b st' va vb, rec st p q = (EOk b, st') -> denA p va -> denB q vb -> b = value_eq va vb.

Definition kids (m : segs) (mid : Z) (caps : list Z) (p : Ptr) (vs : list value) : Prop :=
  forall i, 0 <= i < PointerCount (p_size p) ->
    exists dep rl q rl',
      readPtr true m rl (p_seg p) (seg_of m p) (pointerAddress p i) dep = (Ok q, rl')
      /\ den true m mid caps q (nthv vs i).

(* ------------------------------------------------------------------ the pointer loop *)
Lemma ptr_loop_spec rec p q vs1 vs2 : rec_ok rec ->
  p_valid p = true -> p_valid q = true ->
  kids (segs_of x SA) 0 (caps_of x SA) p vs1 ->
  kids (segs_of x SB) (if ec_same x then 0 else 1) (caps_of x SB) q vs2 ->
  forall k i0 st b st', 0 <= i0 ->
    i0 + Z.of_nat k <= PointerCount (p_size p) -> i0 + Z.of_nat k <= PointerCount (p_size q) ->
    ptr_loop c x rec p q k i0 st = (EOk b, st') ->
    if b then forall j, i0 <= j < i0 + Z.of_nat k -> value_eq (nthv vs1 j) (nthv vs2 j) = true
    else exists j, i0 <= j < i0 + Z.of_nat k /\ value_eq (nthv vs1 j) (nthv vs2 j) = false.
Proof.
  intros Hrec Hvp Hvq K1 K2. induction k as [|k IH]; intros i0 st b st' Hi B1 B2 H.
  - cbn in H. inversion H; subst. intros j Hj. lia.
  - cbn [ptr_loop] in H.
    rewrite (struct_ptr_unfold c _ _ p i0 Hvp) in H by lia. rewrite Hstrict in H.
    destruct (readPtr true (segs_of x SA) (rl_of x st SA) (p_seg p) (seg_of (segs_of x SA) p)
                      (pointerAddress p i0) (p_depth p)) as [r1 rl1] eqn:E1.
    destruct r1 as [sp1| |]; try discriminate.
    rewrite (struct_ptr_unfold c _ _ q i0 Hvq) in H by lia. rewrite Hstrict in H.
    destruct (readPtr true (segs_of x SB) (rl_of x (put_rl x st SA rl1) SB) (p_seg q) (seg_of (segs_of x SB) q)
                      (pointerAddress q i0) (p_depth q)) as [r2 rl2] eqn:E2.
    destruct r2 as [sp2| |]; try discriminate.
    destruct (K1 i0 ltac:(lia)) as (d1 & l1 & q1 & l1' & R1 & D1).
    destruct (K2 i0 ltac:(lia)) as (d2 & l2 & q2 & l2' & R2 & D2).
    assert (DA : denA sp1 (nthv vs1 i0)) by (eapply den_core; [eapply readPtr_core; [exact R1| exact E1]| exact D1]).
    assert (DB : denB sp2 (nthv vs2 i0)) by (eapply den_core; [eapply readPtr_core; [exact R2| exact E2]| exact D2]).
    destruct (rec (put_rl x (put_rl x st SA rl1) SB rl2) sp1 sp2) as [r w3] eqn:Er.
    destruct r as [[|]| | |]; try discriminate.
    + pose proof (Hrec _ _ _ _ _ _ _ Er DA DB) as Hv.
      specialize (IH (i0 + 1) w3 b st' ltac:(lia) ltac:(lia) ltac:(lia) H).
      destruct b.
      * intros j Hj. destruct (Z.eq_dec j i0) as [->|Ne]; [symmetry; assumption| apply IH; lia].
      * destruct IH as (j & Hj & Hf). exists j. split; [lia| assumption].
    + inversion H; subst. pose proof (Hrec _ _ _ _ _ _ _ Er DA DB) as Hv.
      exists i0. split; [lia| symmetry; assumption].
Qed.

(* ------------------------------------------------------------------ the extra pointers *)
Lemma no_ptrs_spec m mid caps p vs : kids m mid caps p vs ->
  forall k i0 b, 0 <= i0 -> i0 + Z.of_nat k <= PointerCount (p_size p) ->
    no_ptrs true true m p k i0 = Ok b ->
    if b then forall j, i0 <= j < i0 + Z.of_nat k -> is_null (nthv vs j) = true
    else exists j, i0 <= j < i0 + Z.of_nat k /\ is_null (nthv vs j) = false.
Proof.
  intros K. induction k as [|k IH]; intros i0 b Hi B H.
  - cbn in H. inversion H; subst. intros j Hj. lia.
  - cbn [no_ptrs] in H. destruct (K i0 ltac:(lia)) as (d1 & l1 & q1 & l1' & R1 & D1).
    rewrite (readPtr_nonnull _ _ _ _ _ _ _ _ R1) in H. cbn [bind] in H.
    pose proof (den_null_iff _ _ _ _ _ _ D1) as Hn.
    destruct (p_valid q1).
    + inversion H; subst. exists i0. split; [lia| exact Hn].
    + specialize (IH (i0 + 1) b ltac:(lia) ltac:(lia) H). destruct b.
      * intros j Hj. destruct (Z.eq_dec j i0) as [->|Ne]; [exact Hn| apply IH; lia].
      * destruct IH as (j & Hj & Hf). exists j. split; [lia| assumption].
Qed.

Lemma nthv_over vs i : zlen vs <= i -> nthv vs i = VNull.
Proof. intros H. unfold nthv. apply nth_overflow. unfold zlen in H. lia. Qed.

Lemma ptrs_eq_nthv u a b :
  ptrs_eq u a b = true <-> forall i, 0 <= i -> veq u (nthv a i) (nthv b i) = true.
Proof.
  rewrite ptrs_eq_nth. unfold nthv. split.
  - intros H i _. apply H.
  - intros H i. specialize (H (Z.of_nat i) ltac:(lia)). rewrite Nat2Z.id in H. exact H.
Qed.

(* ------------------------------------------------------------------ structs *)
Lemma equal_struct_spec rec p q st b st' va vb : rec_ok rec ->
  p_valid p = true -> p_valid q = true -> p_kind p = KStruct -> p_kind q = KStruct ->
  equal_struct c fx x rec st p q = (EOk b, st') -> denA p va -> denB q vb -> b = value_eq va vb.
Proof.
  intros Hrec Hvp Hvq Kp Kq H DA DB.
  destruct (den_struct_inv _ _ _ _ _ _ DA Hvp Kp) as (d1 & vs1 & -> & W1 & S1 & L1 & K1).
  destruct (den_struct_inv _ _ _ _ _ _ DB Hvq Kq) as (d2 & vs2 & -> & W2 & S2 & L2 & K2).
  unfold equal_struct in H. cbv zeta in H. rewrite S1, S2 in H.
  unfold value_eq. rewrite veq_struct.
  rewrite <- (struct_data_equal_words d1 d2)
    by (eapply slice_bytes_ok; [| eassumption]; assumption).
  destruct (struct_data_equal d1 d2); cbn [negb] in H; [|inversion H; reflexivity].
  cbn [andb]. destruct Hfx as (_ & Hfn & _). rewrite Hfn, Hstrict in H.
  destruct W1 as [_ W1]. destruct W2 as [_ W2].
  set (pc1 := PointerCount (p_size p)) in *. set (pc2 := PointerCount (p_size q)) in *.
  destruct (ptr_loop c x rec p q (Z.to_nat (Z.min pc1 pc2)) 0 st) as [r w'] eqn:El.
  destruct r as [[|]| | |]; try discriminate.
  - pose proof (ptr_loop_spec rec p q vs1 vs2 Hrec Hvp Hvq K1 K2 (Z.to_nat (Z.min pc1 pc2)) 0 st true w' ltac:(lia)
                              ltac:(fold pc1; lia) ltac:(fold pc2; lia) El) as Hc.
    cbn beta iota in Hc.
    destruct (no_ptrs true true (segs_of x SA) p (Z.to_nat (pc1 - Z.min pc1 pc2)) (Z.min pc1 pc2)) as [b1| |] eqn:N1;
      try discriminate.
    pose proof (no_ptrs_spec _ _ _ p vs1 K1 (Z.to_nat (pc1 - Z.min pc1 pc2)) (Z.min pc1 pc2) b1 ltac:(lia) ltac:(fold pc1; lia) N1) as Hn1.
    destruct b1.
    + destruct (no_ptrs true true (segs_of x SB) q (Z.to_nat (pc2 - Z.min pc1 pc2)) (Z.min pc1 pc2)) as [b2| |] eqn:N2;
        try discriminate.
      pose proof (no_ptrs_spec _ _ _ q vs2 K2 (Z.to_nat (pc2 - Z.min pc1 pc2)) (Z.min pc1 pc2) b2 ltac:(lia) ltac:(fold pc2; lia) N2) as Hn2.
      inversion H; subst b st'. destruct b2.
      * symmetry. apply ptrs_eq_nthv. intros i Hi.
        destruct (Z.lt_ge_cases i (Z.min pc1 pc2)) as [Lt|Ge]; [apply Hc; lia|].
        destruct (Z.lt_ge_cases i pc1) as [Lt1|Ge1].
        -- rewrite (nthv_over vs2 i) by lia. rewrite veq_null_r. apply Hn1. lia.
        -- rewrite (nthv_over vs1 i) by lia. rewrite veq_null_l.
           destruct (Z.lt_ge_cases i pc2) as [Lt2|Ge2]; [apply Hn2; lia| rewrite nthv_over by lia; reflexivity].
      * destruct Hn2 as (j & Hj & Hf). symmetry. apply not_true_is_false. intros Hp.
        rewrite ptrs_eq_nthv in Hp. specialize (Hp j ltac:(lia)).
        rewrite (nthv_over vs1 j) in Hp by lia. rewrite veq_null_l in Hp. congruence.
    + inversion H; subst b st'. destruct Hn1 as (j & Hj & Hf). symmetry. apply not_true_is_false. intros Hp.
      rewrite ptrs_eq_nthv in Hp. specialize (Hp j ltac:(lia)).
      rewrite (nthv_over vs2 j) in Hp by lia. rewrite veq_null_r in Hp. congruence.
  - inversion H; subst b st'.
    pose proof (ptr_loop_spec rec p q vs1 vs2 Hrec Hvp Hvq K1 K2 (Z.to_nat (Z.min pc1 pc2)) 0 st false w' ltac:(lia)
                              ltac:(fold pc1; lia) ltac:(fold pc2; lia) El) as (j & Hj & Hf).
    symmetry. apply not_true_is_false. intros Hp. rewrite ptrs_eq_nthv in Hp.
    specialize (Hp j ltac:(lia)). unfold value_eq in Hf. congruence.
Qed.

(* ------------------------------------------------------------------ lists *)
(* the kind of a non-bit list is determined by its flags and element size *)
Definition kind_ok (p : Ptr) (k : lkind) : Prop :=
  (p_comp p = true /\ k = LComp /\ wf_size (p_size p)) \/
  (p_comp p = false /\
   ((p_size p = mkOS 0 1 /\ k = LPtr) \/ (exists w, prim_width w /\ p_size p = mkOS w 0 /\ k = kind_of_width w))).

Lemma den_list_inv strict m mid caps p v : den strict m mid caps p v ->
  p_valid p = true -> p_kind p = KList ->
  (p_bit p = true /\ 0 <= p_len p < 536870912 /\
   exists d, slice (seg_of m p) (p_off p) (bitListSize (p_len p)) = Ok d /\ v = VBits (bits_of (Z.to_nat (p_len p)) d))
  \/ (p_bit p = false /\ exists k vs, v = VList k vs /\ kind_ok p k).
Proof.
  intros H Hv Hk. inversion H; subst; try congruence.
  - left. split; [assumption|]. split; [assumption|]. eexists. split; [eassumption|reflexivity].
  - right. split; [assumption|]. exists LComp, vs. split; [reflexivity|]. left. split; [assumption|]. split; [reflexivity|assumption].
  - right. split; [assumption|]. exists LPtr, vs. split; [reflexivity|]. right. split; [assumption|]. left. split; [assumption|reflexivity].
  - right. split; [assumption|]. exists (kind_of_width w), vs. split; [reflexivity|]. right. split; [assumption|].
    right. exists w. repeat split; assumption.
Qed.

Lemma kind_ok_wf p k : kind_ok p k -> wf_size (p_size p).
Proof.
  intros [(_ & _ & W)|(_ & [(E & _)|(w & Hw & E & _)])]; [assumption| |]; rewrite E; unfold wf_size; cbn;
    [lia| destruct Hw as [->|[->|[->|[->| ->]]]]; lia].
Qed.

Lemma kinds_differ p q k1 k2 : kind_ok p k1 -> kind_ok q k2 ->
  negb (p_comp p) && negb (p_comp q) && negb (os_eqb (p_size p) (p_size q)) = true ->
  kinds_compat true k1 k2 = false.
Proof.
  intros [(C1 & _)|(C1 & K1)] [(C2 & _)|(C2 & K2)] H; rewrite ?C1, ?C2 in H; try discriminate.
  cbn [negb andb] in H.
  destruct K1 as [(E1 & ->)|(w1 & W1 & E1 & ->)]; destruct K2 as [(E2 & ->)|(w2 & W2 & E2 & ->)];
    rewrite E1, E2 in H.
  - discriminate.
  - destruct W2 as [->|[->|[->|[->| ->]]]]; reflexivity.
  - destruct W1 as [->|[->|[->|[->| ->]]]]; reflexivity.
  - destruct W1 as [->|[->|[->|[->| ->]]]]; destruct W2 as [->|[->|[->|[->| ->]]]]; try discriminate; reflexivity.
Qed.

Lemma kinds_same p q k1 k2 : kind_ok p k1 -> kind_ok q k2 ->
  negb (p_comp p) && negb (p_comp q) && negb (os_eqb (p_size p) (p_size q)) = false ->
  kinds_compat true k1 k2 = true.
Proof.
  intros [(C1 & -> & _)|(C1 & K1)] [(C2 & -> & _)|(C2 & K2)] H; try reflexivity.
  - destruct k2; reflexivity.
  - destruct k1; reflexivity.
  - rewrite C1, C2 in H. cbn [negb andb] in H.
    destruct K1 as [(E1 & ->)|(w1 & W1 & E1 & ->)]; destruct K2 as [(E2 & ->)|(w2 & W2 & E2 & ->)];
      rewrite E1, E2 in H.
    + reflexivity.
    + destruct W2 as [->|[->|[->|[->| ->]]]]; discriminate.
    + destruct W1 as [->|[->|[->|[->| ->]]]]; discriminate.
    + destruct W1 as [->|[->|[->|[->| ->]]]]; destruct W2 as [->|[->|[->|[->| ->]]]]; try discriminate; reflexivity.
Qed.

(* where the struct view of element i lies *)
Lemma elem_bounds strict m mid caps p i v : msg_ok m -> wf_size (p_size p) ->
  den strict m mid caps (elem_ptr p i) v ->
  exists d vs, v = VStruct (words_of_bytes d) vs /\ zlen vs = PointerCount (p_size p) /\
    d = sub (seg_of m p) (p_off p + i * totalSize (p_size p)) (DataSize (p_size p)) /\
    0 <= p_off p + i * totalSize (p_size p) /\
    p_off p + i * totalSize (p_size p) + DataSize (p_size p) <= zlen (seg_of m p).
Proof.
  intros Hm W D.
  destruct (den_struct_inv _ _ _ _ _ _ D eq_refl eq_refl) as (d & vs & -> & _ & S & L & _).
  cbn [elem_ptr p_size p_off] in S, L. change (seg_of m (elem_ptr p i)) with (seg_of m p) in S.
  apply slice_eq_sub in S; [| apply seg_of_ok; assumption| destruct W; lia].
  destruct S as (-> & B1 & B2). eexists; exists vs. repeat split; try assumption; reflexivity.
Qed.

Definition elems (m : segs) (mid : Z) (caps : list Z) (p : Ptr) (vs : list value) : Prop :=
  forall i, 0 <= i < p_len p -> den true m mid caps (elem_ptr p i) (nthv vs i).

Lemma elem_loop_spec rec p q vs1 vs2 : rec_ok rec ->
  p_valid p = true -> p_valid q = true -> p_bit p = false -> p_bit q = false ->
  wf_size (p_size p) -> wf_size (p_size q) ->
  elems (segs_of x SA) 0 (caps_of x SA) p vs1 ->
  elems (segs_of x SB) (if ec_same x then 0 else 1) (caps_of x SB) q vs2 ->
  forall k i0 st b st', 0 <= i0 -> i0 + Z.of_nat k <= p_len p -> i0 + Z.of_nat k <= p_len q ->
    elem_loop true rec p q k i0 st = (EOk b, st') ->
    if b then forall j, i0 <= j < i0 + Z.of_nat k -> value_eq (nthv vs1 j) (nthv vs2 j) = true
    else exists j, i0 <= j < i0 + Z.of_nat k /\ value_eq (nthv vs1 j) (nthv vs2 j) = false.
Proof.
  intros Hrec Hvp Hvq Bp Bq Wp Wq E1 E2. induction k as [|k IH]; intros i0 st b st' Hi B1 B2 H.
  - cbn in H. inversion H; subst. intros j Hj. lia.
  - cbn [elem_loop] in H.
    destruct (list_struct true p i0) as [e1| |] eqn:L1; try discriminate.
    destruct (list_struct true q i0) as [e2| |] eqn:L2; try discriminate.
    pose proof (E1 i0 ltac:(lia)) as D1. pose proof (E2 i0 ltac:(lia)) as D2.
    destruct (elem_bounds _ _ _ _ _ _ _ Hma Wp D1) as (? & ? & _ & _ & _ & Ba & Bb).
    destruct (elem_bounds _ _ _ _ _ _ _ Hmb Wq D2) as (? & ? & _ & _ & _ & Bc & Bd).
    destruct Wp as [Wp1 _]. destruct Wq as [Wq1 _].
    assert (DA : denA e1 (nthv vs1 i0)).
    { eapply den_core; [apply same_core_sym; eapply (list_struct_elem _ p i0 e1 Hma Hvp Bp); [lia|lia|exact L1]| exact D1]. }
    assert (DB : denB e2 (nthv vs2 i0)).
    { eapply den_core; [apply same_core_sym; eapply (list_struct_elem _ q i0 e2 Hmb Hvq Bq); [lia|lia|exact L2]| exact D2]. }
    destruct (rec st e1 e2) as [r w3] eqn:Er.
    destruct r as [[|]| | |]; try discriminate.
    + pose proof (Hrec _ _ _ _ _ _ _ Er DA DB) as Hv.
      specialize (IH (i0 + 1) w3 b st' ltac:(lia) ltac:(lia) ltac:(lia) H).
      destruct b.
      * intros j Hj. destruct (Z.eq_dec j i0) as [->|Ne]; [symmetry; assumption| apply IH; lia].
      * destruct IH as (j & Hj & Hf). exists j. split; [lia| assumption].
    + inversion H; subst. pose proof (Hrec _ _ _ _ _ _ _ Er DA DB) as Hv.
      exists i0. split; [lia| symmetry; assumption].
Qed.

Lemma elems_eq_nthv u a b n : zlen a = n -> zlen b = n ->
  (elems_eq u a b = true <-> forall i, 0 <= i < n -> veq u (nthv a i) (nthv b i) = true).
Proof.
  intros La Lb. unfold zlen in *. rewrite elems_eq_nth by lia. unfold nthv. split.
  - intros H i Hi. apply H. lia.
  - intros H i Hi. specialize (H (Z.of_nat i) ltac:(lia)). rewrite Nat2Z.id in H. exact H.
Qed.

Lemma data_eq_same_len : forall a b, length a = length b -> (data_eq a b = true <-> a = b).
Proof.
  induction a as [|x0 r IH]; intros [|y s] L; try discriminate.
  - split; reflexivity.
  - cbn in L. inversion L as [L']. rewrite data_eq_cons', andb_true_iff, Z.eqb_eq, (IH s L'). split.
    + intros [-> ->]. reflexivity.
    + intros H. inversion H. split; reflexivity.
Qed.

(* the bytewise fast path *)
Lemma fast_path_spec p q vs1 vs2 d1 d2 :
  p_valid p = true -> p_valid q = true -> wf_size (p_size p) -> wf_size (p_size q) ->
  PointerCount (p_size p) = 0 -> PointerCount (p_size q) = 0 -> DataSize (p_size p) = DataSize (p_size q) ->
  0 <= p_len p -> p_len q = p_len p -> zlen vs1 = p_len p -> zlen vs2 = p_len p ->
  elems (segs_of x SA) 0 (caps_of x SA) p vs1 ->
  elems (segs_of x SB) (if ec_same x then 0 else 1) (caps_of x SB) q vs2 ->
  slice (seg_of (segs_of x SA) p) (p_off p)
        (match times (totalSize (p_size p)) (p_len p) with Some y => y | None => 4294967295 end) = Ok d1 ->
  slice (seg_of (segs_of x SB) q) (p_off q)
        (match times (totalSize (p_size p)) (p_len p) with Some y => y | None => 4294967295 end) = Ok d2 ->
  bytes_eqb d1 d2 = elems_eq true vs1 vs2.
Proof.
  intros Hvp Hvq Wp Wq P1 P2 DS Hn Lq L1 L2 E1 E2 S1 S2.
  assert (T1 : totalSize (p_size p) = DataSize (p_size p)) by (rewrite totalSize_wf by assumption; lia).
  assert (T2 : totalSize (p_size q) = DataSize (p_size p)) by (rewrite totalSize_wf by assumption; lia).
  set (sz := DataSize (p_size p)) in *. set (n := p_len p) in *.
  pose proof (seg_of_ok _ p Hma) as SA1. pose proof (seg_of_ok _ q Hmb) as SB1.
  assert (Hsz : 0 <= sz <= 524280) by (destruct Wp; assumption).
  apply eq_true_iff_eq. rewrite bytes_eqb_eq, (elems_eq_nthv true vs1 vs2 n L1 L2).
  (* per element: the values are the chunks *)
  assert (EL : forall i, 0 <= i < n ->
             exists c1 c2, nthv vs1 i = VStruct (words_of_bytes c1) [] /\ nthv vs2 i = VStruct (words_of_bytes c2) [] /\
                           c1 = sub (seg_of (segs_of x SA) p) (p_off p + i * sz) sz /\
                           c2 = sub (seg_of (segs_of x SB) q) (p_off q + i * sz) sz /\
                           0 <= p_off p + i * sz /\ p_off p + i * sz + sz <= zlen (seg_of (segs_of x SA) p) /\
                           0 <= p_off q + i * sz /\ p_off q + i * sz + sz <= zlen (seg_of (segs_of x SB) q)).
  { intros i Hi.
    destruct (elem_bounds _ _ _ _ _ _ _ Hma Wp (E1 i Hi)) as (c1 & v1 & N1 & Z1 & C1 & A1 & A2).
    destruct (elem_bounds _ _ _ _ _ _ _ Hmb Wq (E2 i ltac:(lia))) as (c2 & v2 & N2 & Z2 & C2 & A3 & A4).
    rewrite P1 in Z1. rewrite P2 in Z2. destruct v1; [|unfold zlen in Z1; cbn in Z1; lia].
    destruct v2; [|unfold zlen in Z2; cbn in Z2; lia].
    rewrite T1 in *. rewrite T2 in *. rewrite <- DS in *. fold sz in C2, A4.
    exists c1, c2. repeat split; assumption. }
  assert (EV : forall i, 0 <= i < n ->
             (veq true (nthv vs1 i) (nthv vs2 i) = true <->
              sub (seg_of (segs_of x SA) p) (p_off p + i * sz) sz = sub (seg_of (segs_of x SB) q) (p_off q + i * sz) sz)).
  { intros i Hi. destruct (EL i Hi) as (c1 & c2 & -> & -> & C1 & C2 & A1 & A2 & A3 & A4).
    rewrite veq_struct. cbn [ptrs_eq forallb]. rewrite andb_true_r.
    destruct SA1 as [_ BA]. destruct SB1 as [_ BB].
    rewrite data_eq_words by (subst; apply bytes_ok_sub; assumption).
    rewrite data_eq_same_len; [subst; reflexivity|].
    apply Nat2Z.inj. change (zlen c1 = zlen c2). subst. rewrite !sub_length by lia. reflexivity. }
  destruct (Z.eq_dec n 0) as [N0|N0].
  - (* empty lists *)
    rewrite N0 in S1, S2. replace (times (totalSize (p_size p)) 0) with (Some 0) in S1, S2
      by (unfold times; rewrite Z.mul_0_r; reflexivity).
    apply slice_eq_sub in S1; [|assumption|lia]. apply slice_eq_sub in S2; [|assumption|lia].
    destruct S1 as (-> & _). destruct S2 as (-> & _). unfold sub. cbn [Z.to_nat firstn].
    split; [intros _ i Hi; lia| reflexivity].
  - (* n > 0: the last element gives the bounds *)
    destruct (EL (n - 1) ltac:(lia)) as (_ & _ & _ & _ & _ & _ & A1 & A2 & A3 & A4).
    destruct (EL 0 ltac:(lia)) as (_ & _ & _ & _ & _ & _ & A5 & _ & A6 & _).
    destruct SA1 as [ZA BA]. destruct SB1 as [ZB BB]. unfold maxSegmentSize in *.
    assert (Esn : sz * n = (n - 1) * sz + sz) by ring.
    assert (ET : times (totalSize (p_size p)) n = Some (sz * n)).
    { apply times_spec. unfold maxSegmentSize. rewrite T1. split; [reflexivity|]. lia. }
    rewrite ET in S1, S2.
    apply slice_eq_sub in S1; [|split; assumption|lia]. apply slice_eq_sub in S2; [|split; assumption|lia].
    destruct S1 as (-> & O1 & _). destruct S2 as (-> & O2 & _).
    replace (sz * n) with (Z.of_nat (Z.to_nat n) * sz) by lia.
    rewrite (chunks_eq _ _ _ _ sz ltac:(lia) O1 O2 (Z.to_nat n)) by (rewrite Z2Nat.id by lia; lia).
    rewrite Z2Nat.id by lia. split; intros H i Hi; [apply EV; [lia| apply H; lia]| apply EV; [lia| apply H; lia]].
Qed.

Lemma bools_eqb_len : forall a b, bools_eqb a b = true -> length a = length b.
Proof.
  induction a as [|y r IH]; intros [|z s] H; try discriminate; [reflexivity|].
  cbn in H. apply andb_prop in H. destruct H as [_ H]. cbn. f_equal. apply IH. assumption.
Qed.

Lemma bits_of_length k d : length (bits_of k d) = k.
Proof. unfold bits_of, iota. rewrite !map_length, seq_length. reflexivity. Qed.

Lemma equal_list_spec rec p q st b st' va vb : rec_ok rec ->
  p_valid p = true -> p_valid q = true -> p_kind p = KList -> p_kind q = KList ->
  equal_list fx x rec st p q = (EOk b, st') -> denA p va -> denB q vb -> b = value_eq va vb.
Proof.
  intros Hrec Hvp Hvq Kp Kq H DA DB. destruct Hfx as (Hfb & _ & Hfd).
  unfold equal_list in H. cbv zeta in H. unfold list_len in H. rewrite Hvp, Hvq, Hfb in H.
  destruct (den_list_inv _ _ _ _ _ _ DA Hvp Kp) as [(Bp & Np & d1 & S1 & ->)|(Bp & k1 & vs1 & -> & KO1)];
  destruct (den_list_inv _ _ _ _ _ _ DB Hvq Kq) as [(Bq & Nq & d2 & S2 & ->)|(Bq & k2 & vs2 & -> & KO2)];
    rewrite Bp, Bq in H; cbn [Bool.eqb negb] in H.
  - (* two bit lists *)
    destruct (p_len p =? p_len q) eqn:El; cbn [negb] in H.
    + apply Z.eqb_eq in El. rewrite <- El in S2. rewrite S1, S2 in H. inversion H; subst b st'.
      unfold value_eq. cbn [veq]. rewrite <- El.
      pose proof (seg_of_ok _ p Hma) as SA1. pose proof (seg_of_ok _ q Hmb) as SB1.
      rewrite bitListSize_spec in S1, S2 by assumption.
      apply slice_eq_sub in S1; [|assumption|lia]. apply slice_eq_sub in S2; [|assumption|lia].
      destruct S1 as (-> & O1 & O1'). destruct S2 as (-> & O2 & O2').
      destruct SA1 as [_ BA]. destruct SB1 as [_ BB].
      apply bits_equal_spec; try (apply bytes_ok_sub; assumption); try lia; apply sub_length; lia.
    + inversion H; subst b st'. unfold value_eq. cbn [veq]. symmetry. apply not_true_is_false. intros Hb.
      apply bools_eqb_len in Hb. rewrite !bits_of_length in Hb. lia.
  - destruct (p_len p =? p_len q); cbn [negb] in H; inversion H; reflexivity.
  - destruct (p_len p =? p_len q); cbn [negb] in H; inversion H; reflexivity.
  - (* two lists of elements *)
    destruct (den_elem _ _ _ _ _ _ _ Hma DA Hvp) as (L1 & _ & _ & E1).
    destruct (den_elem _ _ _ _ _ _ _ Hmb DB Hvq) as (L2 & _ & _ & E2).
    unfold value_eq. rewrite veq_list.
    destruct (p_len p =? p_len q) eqn:El; cbn [negb] in H.
    2:{ inversion H; subst b st'. symmetry. apply andb_false_intro2. apply not_true_is_false. intros He.
        apply elems_eq_len in He. unfold zlen in L1, L2. lia. }
    apply Z.eqb_eq in El. rewrite <- El in L2.
    pose proof (kind_ok_wf _ _ KO1) as Wp. pose proof (kind_ok_wf _ _ KO2) as Wq.
    assert (Hn : 0 <= p_len p) by (unfold zlen in L1; lia).
    destruct (negb (p_comp p) && negb (p_comp q) && negb (os_eqb (p_size p) (p_size q))) eqn:Ek.
    { inversion H; subst b st'. rewrite (kinds_differ p q k1 k2 KO1 KO2 Ek). reflexivity. }
    rewrite (kinds_same p q k1 k2 KO1 KO2 Ek). cbn [andb].
    destruct ((PointerCount (p_size p) =? 0) && (PointerCount (p_size q) =? 0)
              && (DataSize (p_size p) =? DataSize (p_size q))) eqn:Ef.
    + (* fast path *)
      apply andb_prop in Ef. destruct Ef as [Ef E3]. apply andb_prop in Ef. destruct Ef as [E1' E2'].
      apply Z.eqb_eq in E1', E2', E3.
      destruct (slice (seg_of (segs_of x SA) p) (p_off p) _) as [d1| |] eqn:S1; try discriminate.
      destruct (slice (seg_of (segs_of x SB) q) (p_off q) _) as [d2| |] eqn:S2; try discriminate.
      inversion H; subst b st'.
      eapply (fast_path_spec p q vs1 vs2 d1 d2); try eassumption; lia.
    + (* element by element *)
      rewrite Hfd in H.
      pose proof (elem_loop_spec rec p q vs1 vs2 Hrec Hvp Hvq Bp Bq Wp Wq E1 E2 (Z.to_nat (p_len p)) 0 st b st'
                                 ltac:(lia) ltac:(lia) ltac:(lia) H) as Hl.
      destruct b.
      * symmetry. apply (elems_eq_nthv true vs1 vs2 (p_len p) L1 L2). intros i Hi. apply Hl. lia.
      * destruct Hl as (j & Hj & Hf). symmetry. apply not_true_is_false. intros He.
        rewrite (elems_eq_nthv true vs1 vs2 (p_len p) L1 L2) in He. specialize (He j ltac:(lia)).
        unfold value_eq in Hf. congruence.
Qed.

(* ------------------------------------------------------------------ capabilities *)
Lemma iface_equal_spec p q : 0 <= p_len p -> 0 <= p_len q ->
  iface_equal x p q = cap_eq (mk_capv 0 (caps_of x SA) (p_len p))
                             (mk_capv (if ec_same x then 0 else 1) (caps_of x SB) (p_len q)).
Proof.
  intros H0p H0q. unfold iface_equal, cap_eq, mk_capv. cbn [cv_msg cv_idx cv_intab cv_client].
  unfold caps_of, on_a. destruct (ec_same x) eqn:Es; cbn [orb andb Z.eqb].
  - unfold client_of.
    destruct (p_len p =? p_len q) eqn:E1; [reflexivity|]. cbn [orb].
    assert (Hza : 0 <= zlen (ec_caps_a x)) by (unfold zlen; lia).
    destruct (p_len p >=? zlen (ec_caps_a x)) eqn:E2; destruct (p_len q >=? zlen (ec_caps_a x)) eqn:E3; cbn [orb].
    + replace (p_len p <? zlen (ec_caps_a x)) with false by lia. rewrite andb_false_r. reflexivity.
    + replace (p_len p <? zlen (ec_caps_a x)) with false by lia. rewrite andb_false_r. reflexivity.
    + replace (p_len q <? zlen (ec_caps_a x)) with false by lia. rewrite !andb_false_r. reflexivity.
    + replace (0 <=? p_len p) with true by lia. replace (0 <=? p_len q) with true by lia.
      replace (p_len p <? zlen (ec_caps_a x)) with true by lia. replace (p_len q <? zlen (ec_caps_a x)) with true by lia.
      reflexivity.
  - unfold client_of. reflexivity.
Qed.

(* ------------------------------------------------------------------ one level, all levels *)
Lemma is_null_VNull v : is_null v = true -> v = VNull.
Proof. destruct v; cbn; intros H; try discriminate; reflexivity. Qed.

Lemma equal_step_spec rec st p q b st' va vb : rec_ok rec ->
  equal_step c fx x rec st p q = (EOk b, st') -> denA p va -> denB q vb -> b = value_eq va vb.
Proof.
  intros Hrec H DA DB. unfold equal_step in H.
  pose proof (den_null_iff _ _ _ _ _ _ DA) as NA. pose proof (den_null_iff _ _ _ _ _ _ DB) as NB.
  destruct (p_valid p) eqn:Hvp; destruct (p_valid q) eqn:Hvq; cbn [negb andb orb] in *.
  - destruct (p_kind p) eqn:Kp; destruct (p_kind q) eqn:Kq;
      try (inversion H; subst b st'; inversion DA; subst; try congruence; inversion DB; subst; try congruence; reflexivity).
    + apply (equal_struct_spec rec p q st b st' va vb); assumption.
    + apply (equal_list_spec rec p q st b st' va vb); assumption.
    + inversion H; subst b st'. inversion DA; subst; try congruence. inversion DB; subst; try congruence.
      unfold value_eq. cbn [veq]. apply iface_equal_spec; assumption.
  - inversion H; subst b st'. apply is_null_VNull in NB. subst vb. unfold value_eq. rewrite veq_null_r. symmetry. exact NA.
  - inversion H; subst b st'. apply is_null_VNull in NA. subst va. unfold value_eq. rewrite veq_null_l. symmetry. exact NB.
  - inversion H; subst b st'. apply is_null_VNull in NA. apply is_null_VNull in NB. subst. reflexivity.
Qed.

Theorem equal_m_den : forall fuel, rec_ok (equal_m fuel c fx x).
Proof.
  induction fuel as [|f IH]; intros st p q b st' va vb H DA DB.
  - discriminate.
  - cbn [equal_m] in H. apply (equal_step_spec (equal_m f c fx x) st p q b st' va vb); assumption.
Qed.

End Correct.

(* ------------------------------------------------------------------ the theorem, closed *)
(* [T1] for every configuration with the repaired code, all messages (bytes 0..255, segments
   < 2^32), both pointers in one message or in two, every fuel, every pair of remaining
   traversal budgets: if Equal answers (b, nil) and the pointers denote va and vb, then b is the
   documented equality of va and vb. *)
Theorem equal_m_correct : forall c fx x fuel st p q b st' va vb,
  cfg_strict c = true -> all_fixed fx -> msg_ok (segs_of x SA) -> msg_ok (segs_of x SB) ->
  equal_m fuel c fx x st p q = (EOk b, st') ->
  den true (segs_of x SA) 0 (caps_of x SA) p va ->
  den true (segs_of x SB) (if ec_same x then 0 else 1) (caps_of x SB) q vb ->
  b = value_eq va vb.
Proof. intros c fx x fuel st p q b st' va vb Hs Hf Ha Hb. apply (equal_m_den c fx x Hs Hf Ha Hb fuel). Qed.

(* layout independence: pointers that denote equal values -- whatever the segments, offsets,
   far pointers, section sizes of the two encodings -- are Equal whenever Equal answers *)
Theorem equal_layout_independent : forall c fx x fuel st p q b st' va vb,
  cfg_strict c = true -> all_fixed fx -> msg_ok (segs_of x SA) -> msg_ok (segs_of x SB) ->
  equal_m fuel c fx x st p q = (EOk b, st') ->
  den true (segs_of x SA) 0 (caps_of x SA) p va ->
  den true (segs_of x SB) (if ec_same x then 0 else 1) (caps_of x SB) q vb ->
  value_eq va vb = true -> b = true.
Proof. intros. rewrite <- H6. eapply equal_m_correct; eassumption. Qed.

Lemma same_ctx x : ec_same x = true ->
  segs_of x SB = segs_of x SA /\ caps_of x SB = caps_of x SA.
Proof. intros H. unfold segs_of, caps_of, on_a. rewrite H. split; reflexivity. Qed.

(* reflexive: a pointer is Equal to itself *)
Theorem equal_refl : forall c fx x fuel st p b st' v,
  cfg_strict c = true -> all_fixed fx -> msg_ok (segs_of x SA) -> ec_same x = true ->
  equal_m fuel c fx x st p p = (EOk b, st') ->
  den true (segs_of x SA) 0 (caps_of x SA) p v -> b = true.
Proof.
  intros c fx x fuel st p b st' v Hs Hf Ha Hsame H D. destruct (same_ctx x Hsame) as [E1 E2].
  rewrite <- (value_eq_refl v). eapply equal_m_correct; try eassumption.
  - rewrite E1. assumption.
  - rewrite E1, E2, Hsame. assumption.
Qed.

(* symmetric: swapping the arguments gives the same answer (both pointers in one message) *)
Theorem equal_sym : forall c fx x fuel st1 st2 p q b1 b2 st1' st2' va vb,
  cfg_strict c = true -> all_fixed fx -> msg_ok (segs_of x SA) -> ec_same x = true ->
  equal_m fuel c fx x st1 p q = (EOk b1, st1') ->
  equal_m fuel c fx x st2 q p = (EOk b2, st2') ->
  den true (segs_of x SA) 0 (caps_of x SA) p va ->
  den true (segs_of x SA) 0 (caps_of x SA) q vb -> b1 = b2.
Proof.
  intros c fx x fuel st1 st2 p q b1 b2 st1' st2' va vb Hs Hf Ha Hsame H1 H2 Dp Dq.
  destruct (same_ctx x Hsame) as [E1 E2].
  assert (Hb : msg_ok (segs_of x SB)) by (rewrite E1; assumption).
  rewrite (equal_m_correct c fx x fuel st1 p q b1 st1' va vb Hs Hf Ha Hb H1 Dp) by (rewrite E1, E2, Hsame; assumption).
  rewrite (equal_m_correct c fx x fuel st2 q p b2 st2' vb va Hs Hf Ha Hb H2 Dq) by (rewrite E1, E2, Hsame; assumption).
  apply value_eq_sym.
Qed.

(* symmetric across two messages: exchanging the messages and the arguments *)
Definition swap_ctx (x : ectx) : ectx := mkEC (ec_segs_b x) (ec_caps_b x) (ec_segs_a x) (ec_caps_a x) (ec_same x).
