(* C18 [T2]: canonicalList, the pointer-list case and the void-list case.
   Pointer list: newPointerList appends n zero words; the loop (PointerList.At, canonicalPtr,
   PointerList.Set) is slots_loop with the block being the list body. *)
From CV Require Import Value.ValueEq Value.ValueEqProofs Value.EqualM Value.Den Value.DenFacts Value.DenLists
                       Value.CanonSpec Value.CanonProofs Value.CanonProofs3 Value.CanonM Value.CanonMStruct
                       Value.CanonMWords Value.CanonMData Value.CanonMHeap Value.CanonMLoop Value.CanonSafe Value.EqualProofs
                       Value.CanonMProofs Value.CanonMInd.
From CV Require Import Core.ReaderFacts Core.SafetyProofs Core.BuilderFacts Core.ArithFacts Core.CopySafe.
From Coq Require Import ZifyBool ZifyNat.
Ltac Zify.zify_post_hook ::= Z.div_mod_to_equations.
Open Scope Z_scope.
From CV Require Import Value.CanonMBytes.

Section ListP.
Context (c : config) (fx : cfix) (m : segs).
Context (Hstrict : cfg_strict c = true) (Hfx : all_cfixed fx) (Hm : msg_ok m).


Lemma list_ptr_case f : Q_ptr c fx m f -> forall data cap rl p vs w' cp,
  hinv data -> wf_ptr m p -> den true m 0 [] p (VList LPtr vs) ->
  canonical_list c fx (S f) (dstw data cap m rl) 0 p = KOk (w', cp) -> Qconcl m data (VList LPtr vs) w' cp.
Proof.
  intros HQ data cap rl p vs w' cp Hi Hwf D H.
  destruct (den_ptrs_inv m _ _ D) as (Hv & Hk & Hb & Hc & Hsz & Lvs & K).
  destruct (Hwf Hv) as (Hseg & Hobj). unfold wf_obj in Hobj. rewrite Hk, Hb, Hsz in Hobj.
  destruct Hobj as (Ho & Hlen & _ & Hbd). change (totalSize (mkOS 0 1)) with 8 in Hbd.
  assert (Hsok : zlen (seg_of m p) <= 4294967288) by (apply seg_of_ok; assumption).
  rewrite canonical_list_S in H. rewrite Hv, Hsz, Hc in H. cbn [negb PointerCount] in H.
  change (1 =? 0) with false in H. cbn [andb] in H.
  set (n := p_len p) in *.
  unfold newPointerList in H. cbn [w_dst dstw] in H.
  rewrite (times_some 8 n) in H by (unfold maxSegmentSize; lia).
  unfold lift in H.
  destruct Hi as [Hi1 Hi2]. assert (Z0 : 0 <= zlen data) by (unfold zlen; lia).
  destruct (alloc (seg0 data cap) 0 (8 * n)) as [[[m1 sid1] addr]| |] eqn:Ea; try discriminate H.
  pose proof (alloc_bound data cap (8 * n) m1 sid1 addr ltac:(lia) ltac:(lia) Ea) as Hbound.
  destruct (alloc_seg0 data cap (8 * n) m1 sid1 addr Hi1 ltac:(lia) Ea) as (cap1 & -> & -> & ->).
  rewrite (padToWord_mult (8 * n)) in * by lia.
  cbn [bind of_res kbind w_set_dst w_src w_src_rl] in H.
  set (cl := mkPtr true 0 (zlen data) n (mkOS 0 1) maxDepth KList false false false) in *.
  set (data1 := data ++ repeat 0 (Z.to_nat (8 * n))) in *.
  change (w_set_dst (dstw data cap m rl) (seg0 data1 cap1)) with (dstw data1 cap1 m rl) in H.
  unfold list_len in H. rewrite Hv in H. fold n in H.
  assert (L1 : zlen data1 = zlen data + 8 * n) by (unfold data1; rewrite zlen_app; unfold zlen; rewrite repeat_length; lia).
  set (vals := map (fun v => hd_ptr (sptrs (norm v))) vs).
  assert (Lvals : zlen vals = n) by (unfold vals, zlen in *; rewrite map_length; lia).
  set (step := fun (wa : world) (i : Z) =>
                 let '(r, rl') := ptrlist_at c (fx_upgrade (cx_rd fx)) (w_src wa) (w_src_rl wa) p i in
                 let wb := w_set_rl wa InSrc rl' in
                 kbind (of_res r) (fun p0 : Ptr =>
                 kbind (canonical_ptr c fx f wb 0 p0) (fun wd : world * Ptr =>
                 let '(w2, cp) := wd in of_res (ptrlist_set 4 w2 cl i InDst cp)))) in *.
  set (okF := fun F : nat => forall i, 0 <= i < n -> (vdepth (nth (Z.to_nat i) vals VNull) <= F)%nat).
  assert (Hstep : forall i data0 cap0 rl0 w0, 0 <= i < zlen vals -> hinv data0 -> zlen data + 8 * zlen vals <= zlen data0 ->
            step (dstw data0 cap0 m rl0) i = KOk w0 ->
            exists word body cap' rl',
              w0 = dstw (put_word data0 (zlen data + 8 * i) word ++ bytes_of_words body) cap' m rl' /\
              hinv (data0 ++ bytes_of_words body) /\
              forall F, okF F -> enc F (nth (Z.to_nat i) vals VNull) (zlen data / 8 + i) (zlen data0 / 8) = COk (word, body)).
  { intros i data0 cap0 rl0 w0 Hi0 Hinv0 Hb0 Hs0. unfold step in Hs0. cbn [w_src w_src_rl dstw] in Hs0.
    assert (PE : forall fu, primitiveElem fu p i (mkOS 0 1) = Ok (p_off p + 8 * i)).
    { intros fu. unfold primitiveElem. rewrite Hv, Hb, Hc, Hsz. fold n. cbn [negb orb andb].
      destruct ((i <? 0) || (i >=? n)) eqn:E1; [lia|]. cbn [orb]. change (os_eqb (mkOS 0 1) (mkOS 0 1)) with true. cbn [negb orb].
      change (totalSize (mkOS 0 1)) with 8. rewrite element_some by lia. rewrite Bool.andb_false_r. cbn [andb].
      f_equal. lia. }
    unfold ptrlist_at in Hs0. rewrite PE, Hstrict in Hs0.
    destruct (readPtr true m rl0 (p_seg p) (seg_of m p) (p_off p + 8 * i) (p_depth p)) as [r rl1] eqn:ER.
    destruct r as [p0| |]; try discriminate. cbn [of_res kbind] in Hs0.
    destruct (K i ltac:(lia)) as (dep & rlk & q & rlk' & vi & RK & DK & Evi).
    assert (DP : den true m 0 [] p0 vi) by (eapply den_core; [eapply readPtr_core; [exact RK|exact ER]| exact DK]).
    assert (WP : wf_ptr m p0).
    { pose proof (ptrlist_at_safe c true m rl0 p i Hm (conj Hwf (fun _ => Hk)) ltac:(unfold list_len; rewrite Hv; lia)) as SS.
      unfold ptrlist_at in SS. rewrite PE, Hstrict, ER in SS. cbn in SS. apply SS. reflexivity. }
    assert (AP : aligned p0) by (eapply readPtr_aligned; exact ER).
    assert (CAP : caligned p0) by (eapply readPtr_caligned; exact ER).
    assert (Eval : nth (Z.to_nat i) vals VNull = norm vi).
    { unfold vals. change VNull with ((fun v => hd_ptr (sptrs (norm v))) VNull) at 1. rewrite map_nth.
      change (nth (Z.to_nat i) vs VNull) with (nthv vs i). rewrite Evi. cbn [norm map sptrs]. apply hd_ptr_strip1. }
    change (w_set_rl (dstw data0 cap0 m rl0) InSrc rl1) with (dstw data0 cap0 m rl1) in Hs0.
    destruct (canonical_ptr c fx f (dstw data0 cap0 m rl1) 0 p0) as [[w2 cp0]| | |] eqn:EC; try discriminate.
    cbn [kbind] in Hs0.
    destruct (HQ data0 cap0 rl1 p0 vi w2 cp0 Hinv0 WP AP CAP DP EC) as (body & cap2 & rl2 & -> & Hinv2 & Hcp & Henc).
    unfold ptrlist_set in Hs0.
    assert (PE2 : primitiveElem true cl i (mkOS 0 1) = Ok (zlen data + 8 * i)).
    { unfold primitiveElem, cl. cbn [p_valid p_len p_bit p_comp p_size p_off negb orb andb].
      destruct ((i <? 0) || (i >=? n)) eqn:E1; [lia|]. cbn [orb]. change (os_eqb (mkOS 0 1) (mkOS 0 1)) with true. cbn [negb orb].
      change (totalSize (mkOS 0 1)) with 8. rewrite element_some by lia. f_equal. lia. }
    rewrite PE2 in Hs0. cbn [bind] in Hs0. change (p_seg cl) with 0 in Hs0.
    assert (Lb : zlen (data0 ++ bytes_of_words body) = zlen data0 + 8 * zlen body)
      by (rewrite zlen_app; unfold zlen; rewrite bow_length; lia).
    destruct Hinv2 as [Hv1 Hv2]. destruct Hinv0 as [Hu1 Hu2].
    rewrite (write_ptr_seg0 3) in Hs0; try lia; try assumption.
    2:{ rewrite Lb. unfold zlen in *. lia. }
    cbn [of_res] in Hs0. inversion Hs0; subst w0; clear Hs0.
    exists (ptr_word cp0 (zlen data + 8 * i)), body, cap2, rl2. split.
    - f_equal. apply put_word_app_left; unfold zlen in *; lia.
    - split; [split; assumption|]. intros F HF. rewrite Eval.
      replace (zlen data / 8 + i) with ((zlen data + 8 * i) / 8) by lia.
      apply Henc; try lia. rewrite <- Eval. apply HF. lia. }
  destruct (kfold (iota (Z.to_nat n)) (dstw data1 cap1 m rl) _) as [w3| | |] eqn:Ek; try discriminate H.
  cbn [kbind] in H. inversion H; subst w' cp; clear H.
  replace (Z.to_nat n) with (length vals) in Ek by (unfold zlen in Lvals; lia).
  destruct (slots_loop step m (zlen data) vals okF enc ltac:(lia) Hi1 Hstep (length vals) (le_n _)
                       data1 cap1 rl w3 ltac:(split; lia) ltac:(lia) Ek)
    as (pwords & kids & cap' & rl' & Lp & -> & Hinvk & Ec0).
  assert (Edata : set_slots data1 (zlen data) pwords = data ++ bytes_of_words pwords).
  { unfold data1. replace (Z.to_nat (8 * n)) with (8 * length pwords)%nat by (unfold zlen in *; lia). apply set_slots_end. }
  rewrite Edata. exists (pwords ++ kids), cap', rl'. rewrite (bow_app pwords kids), <- app_assoc.
  split; [reflexivity|].
  assert (Lbw : zlen (bytes_of_words pwords) = 8 * n) by (unfold zlen in *; rewrite bow_length; lia).
  split.
  { unfold hinv in *. rewrite !zlen_app in *. rewrite Lbw. rewrite L1 in Hinvk. lia. }
  split.
  { right. unfold cl. cbn [p_valid p_seg p_member p_off p_kind p_size p_len p_comp p_bit].
    split; [reflexivity|]. split; [reflexivity|]. split; [reflexivity|]. split; [exact Hi1|].
    split; [rewrite !zlen_app, Lbw; assert (0 <= zlen (bytes_of_words kids)) by (unfold zlen; lia); lia|].
    split; [lia|]. left. reflexivity. }
  intros a F Ha Ham Hab HFd.
  assert (En : norm (VList LPtr vs) = VList LPtr (map (fun n0 => VStruct [] [n0]) vals)).
  { cbn [norm]. f_equal. unfold vals. rewrite !map_map. reflexivity. }
  rewrite En in *. destruct F as [|F']; [cbn [vdepth] in HFd; lia|].
  assert (HFk : okF F').
  { intros i Hi0. cbn [vdepth] in HFd.
    assert (Hin : In (VStruct [] [nth (Z.to_nat i) vals VNull]) (map (fun n0 => VStruct [] [n0]) vals)).
    { apply (in_map (fun n0 => VStruct [] [n0])). apply nth_In. unfold zlen in *. lia. }
    pose proof (vdepth_in_fold_max _ _ Hin) as Hd. cbn [vdepth fold_right] in Hd. lia. }
  specialize (Ec0 F' HFk). rewrite firstn_all in Ec0.
  assert (Lm : zlen (map (fun n0 : value => VStruct [] [n0]) vals) = n) by (unfold zlen in *; rewrite map_length; exact Lvals).
  cbn [enc]. rewrite !Lm.
  unfold two29. destruct ((n >=? 536870912) || (zlen data / 8 - a / 8 - 1 >=? 536870912)) eqn:E1; [lia|].
  rewrite map_map. cbn [sptrs hd_ptr].
  replace (zlen data / 8 + n) with (zlen data1 / 8) by lia. change (fun x : value => CP x) with CP. rewrite Ec0. cbn [cbind fst snd].
  unfold ptr_word, cl. cbn [p_valid negb p_kind p_comp p_bit p_size PointerCount p_off p_len]. reflexivity.
Qed.

End ListP.
