(* Lists: element views of [den], chunked byte comparison (the fast path of Equal), bit lists. *)
From CV Require Import Value.ValueEq Value.ValueEqProofs Value.EqualM Value.Den Value.DenFacts.
From CV Require Import Core.ReaderFacts Core.SafetyProofs.
From Coq Require Import ZifyBool ZifyNat.
Ltac Zify.zify_post_hook ::= Z.div_mod_to_equations.
Open Scope Z_scope.

(* ------------------------------------------------------------------ slices *)
Lemma slice_eq_sub s base n d : seg_ok s -> 0 <= n < 4294967296 -> slice s base n = Ok d ->
  d = sub s base n /\ 0 <= base /\ base + n <= zlen s.
Proof.
  intros [Hl _] Hn. unfold slice, sub, addSizeUnchecked, u32. cbv zeta.
  destruct ((0 <=? base) && (base <=? (base + n) mod 4294967296) && ((base + n) mod 4294967296 <=? zlen s)) eqn:E;
    [|discriminate].
  intros H. inversion H; subst d; clear H. unfold maxSegmentSize in Hl.
  assert ((base + n) mod 4294967296 = base + n) by lia.
  rewrite H. replace (base + n - base) with n by lia. split; [reflexivity|lia].
Qed.

Lemma firstn_add {A} : forall a b (l : list A), firstn (a + b) l = firstn a l ++ firstn b (skipn a l).
Proof.
  induction a as [|a IH]; intros b l; [reflexivity|].
  destruct l as [|x r]; cbn.
  - destruct b; reflexivity.
  - rewrite IH. reflexivity.
Qed.

Lemma skipn_add {A} : forall a b (l : list A), skipn (a + b) l = skipn b (skipn a l).
Proof.
  induction a as [|a IH]; intros b l; [reflexivity|].
  destruct l as [|x r]; cbn; [destruct b; reflexivity| apply IH].
Qed.

Lemma sub_split s o a b : 0 <= o -> 0 <= a -> 0 <= b -> sub s o (a + b) = sub s o a ++ sub s (o + a) b.
Proof.
  intros Ho Ha Hb. unfold sub. rewrite !Z2Nat.inj_add by lia. rewrite firstn_add, skipn_add. reflexivity.
Qed.

Lemma app_eq_len {A} : forall (a c b d : list A), length a = length c -> (a ++ b = c ++ d <-> a = c /\ b = d).
Proof.
  induction a as [|x a IH]; intros [|y c] b d L; try discriminate; cbn.
  - split; [intros H; split; [reflexivity|assumption]| intros [_ H]; assumption].
  - cbn in L. inversion L as [L']. split.
    + intros H. inversion H; subst. apply (IH c b d L') in H2. destruct H2; subst. split; reflexivity.
    + intros [H1 H2]. inversion H1; subst. reflexivity.
Qed.

(* comparing n chunks of sz bytes at once or chunk by chunk *)
Lemma chunks_eq s1 o1 s2 o2 sz : 0 <= sz -> 0 <= o1 -> 0 <= o2 -> forall n : nat,
  o1 + Z.of_nat n * sz <= zlen s1 -> o2 + Z.of_nat n * sz <= zlen s2 ->
  (sub s1 o1 (Z.of_nat n * sz) = sub s2 o2 (Z.of_nat n * sz) <->
   forall i, 0 <= i < Z.of_nat n -> sub s1 (o1 + i * sz) sz = sub s2 (o2 + i * sz) sz).
Proof.
  intros Hsz Ho1 Ho2. induction n as [|n IH]; intros B1 B2.
  - cbn. split; [intros _ i Hi; lia| reflexivity].
  - replace (Z.of_nat (S n) * sz) with (Z.of_nat n * sz + sz) by lia.
    rewrite !sub_split by lia. rewrite app_eq_len.
    2:{ apply Nat2Z.inj. change (zlen (sub s1 o1 (Z.of_nat n * sz)) = zlen (sub s2 o2 (Z.of_nat n * sz))).
        rewrite !sub_length by lia. reflexivity. }
    rewrite IH by lia. split.
    + intros [H1 H2] i Hi. destruct (Z.eq_dec i (Z.of_nat n)) as [->|Ne]; [assumption| apply H1; lia].
    + intros H. split; [intros i Hi; apply H; lia| apply H; lia].
Qed.

(* ------------------------------------------------------------------ lists of values *)
Lemma elems_eq_len u : forall a b, elems_eq u a b = true -> length a = length b.
Proof.
  induction a as [|x r IH]; intros [|y s] H; try discriminate; [reflexivity|].
  cbn in H. apply andb_prop in H. destruct H as [_ H]. cbn. f_equal. apply IH. assumption.
Qed.

Lemma elems_eq_nth u : forall a b, length a = length b ->
  (elems_eq u a b = true <-> forall i, (i < length a)%nat -> veq u (nth i a VNull) (nth i b VNull) = true).
Proof.
  induction a as [|x r IH]; intros [|y s] L; try discriminate.
  - split; [intros _ i Hi; cbn in Hi; lia| reflexivity].
  - cbn in L. inversion L as [L']. cbn [elems_eq]. rewrite andb_true_iff, (IH s L'). split.
    + intros [H1 H2] [|i] Hi; cbn [nth]; [assumption| apply H2; cbn in Hi; lia].
    + intros H. split; [apply (H O); cbn; lia| intros i Hi; apply (H (S i)); cbn; lia].
Qed.

Lemma veq_null_l u y : veq u VNull y = is_null y.
Proof. destruct y; reflexivity. Qed.

Lemma veq_null_r u x : veq u x VNull = is_null x.
Proof. rewrite veq_sym. destruct x; reflexivity. Qed.

Lemma ptrs_eq_nth u : forall a b,
  ptrs_eq u a b = true <-> forall i, veq u (nth i a VNull) (nth i b VNull) = true.
Proof.
  induction a as [|x r IH]; intros b.
  - cbn [ptrs_eq]. rewrite forallb_forall. split.
    + intros H i. replace (nth i [] VNull) with VNull by (destruct i; reflexivity).
      destruct (Nat.lt_ge_cases i (length b)) as [L|L].
      * destruct (nth i b VNull) eqn:E; try reflexivity; exfalso;
          specialize (H (nth i b VNull) (nth_In _ _ L)); rewrite E in H; discriminate.
      * rewrite nth_overflow by assumption. reflexivity.
    + intros H y Hy. apply (In_nth _ _ VNull) in Hy. destruct Hy as (i & _ & <-).
      specialize (H i). replace (nth i [] VNull) with VNull in H by (destruct i; reflexivity).
      destruct (nth i b VNull); try discriminate; reflexivity.
  - destruct b as [|y s]; cbn [ptrs_eq]; rewrite andb_true_iff, IH.
    + split.
      * intros [H1 H2] [|i]; cbn [nth]; [rewrite veq_null_r; assumption|].
        specialize (H2 i). replace (nth i [] VNull) with VNull in H2 by (destruct i; reflexivity). assumption.
      * intros H. split; [specialize (H O); cbn [nth] in H; rewrite veq_null_r in H; assumption|].
        intros i. specialize (H (S i)). cbn [nth] in H. replace (nth i [] VNull) with VNull by (destruct i; reflexivity).
        assumption.
    + split.
      * intros [H1 H2] [|i]; cbn [nth]; [assumption| apply H2].
      * intros H. split; [apply (H O)| intros i; apply (H (S i))].
Qed.

Lemma data_eq_cons' x r y s : data_eq (x :: r) (y :: s) = (x =? y) && data_eq r s.
Proof. reflexivity. Qed.

(* ------------------------------------------------------------------ element views *)
Lemma totalSize_prim w : prim_width w -> totalSize (mkOS w 0) = w.
Proof. intros [->|[->|[->|[->| ->]]]]; reflexivity. Qed.

Lemma readPtr_bounds strict m rl sid s a dep q rl' :
  readPtr strict m rl sid s a dep = (Ok q, rl') -> 0 <= a /\ a <= (a + 8) mod 4294967296 <= zlen s.
Proof.
  unfold readPtr, resolveFarPointer, readRawPointer, readUintN, slice, addSizeUnchecked, u32. cbv zeta.
  destruct ((0 <=? a) && (a <=? (a + 8) mod 4294967296) && ((a + 8) mod 4294967296 <=? zlen s)) eqn:E.
  - intros _. lia.
  - cbn. discriminate.
Qed.

Lemma slice_empty s a : 0 <= a <= zlen s -> zlen s <= maxSegmentSize -> slice s a 0 = Ok [].
Proof.
  intros Ha Hl. unfold slice, addSizeUnchecked, u32, maxSegmentSize in *. cbv zeta.
  replace ((a + 0) mod 4294967296) with a by lia.
  destruct ((0 <=? a) && (a <=? a) && (a <=? zlen s)) eqn:E; [|lia].
  rewrite Z.sub_diag. reflexivity.
Qed.

(* every element of a non-bit list denotes, through its struct view, the list's element value *)
Lemma den_elem strict m mid caps p k vs : msg_ok m ->
  den strict m mid caps p (VList k vs) -> p_valid p = true ->
  zlen vs = p_len p /\ p_bit p = false /\ p_kind p = KList /\
  forall i, 0 <= i < p_len p -> den strict m mid caps (elem_ptr p i) (nthv vs i).
Proof.
  intros Hm H Hv. inversion H; subst; try congruence.
  - (* struct list *) repeat split; assumption.
  - (* pointer list *)
    repeat split; try assumption. intros i Hi.
    match goal with Hall : forall i, _ -> exists _ _ _ _ _, _ |- _ =>
      destruct (Hall i Hi) as (dep & rl & q & rl' & v & E & D & N) end.
    match goal with Hsz : p_size p = _ |- _ => rename Hsz into H6 end. rewrite N.
    pose proof (readPtr_bounds _ _ _ _ _ _ _ _ _ E) as B.
    pose proof (seg_of_ok m p Hm) as [Sl _]. unfold maxSegmentSize in Sl.
    assert (T : totalSize (p_size p) = 8) by (rewrite H6; reflexivity).
    change (@nil Z) with (words_of_bytes []).
    eapply den_struct; cbn [p_valid p_kind p_size p_off p_seg elem_ptr]; try reflexivity.
    + rewrite H6. unfold wf_size; cbn; lia.
    + rewrite T, H6. cbn [DataSize]. change (seg_of m (elem_ptr p i)) with (seg_of m p).
      apply slice_empty; unfold maxSegmentSize; lia.
    + rewrite H6. reflexivity.
    + rewrite H6. cbn [PointerCount]. intros j Hj. assert (j = 0) by lia. subst j.
      exists dep, rl, q, rl'. split; [|exact D].
      change (seg_of m (elem_ptr p i)) with (seg_of m p).
      replace (pointerAddress (elem_ptr p i) 0) with (p_off p + 8 * i); [exact E|].
      unfold pointerAddress, elem_ptr. cbn [p_off p_size]. rewrite T, H6. cbn [DataSize].
      destruct (addSize (p_off p + i * 8) 0) as [ps|] eqn:Ea.
      * apply addSize_spec in Ea. destruct (element ps 0 8) as [x|] eqn:Ee.
        -- apply element_spec in Ee. lia.
        -- apply element_none in Ee. unfold maxSegmentSize in *. lia.
      * apply addSize_none in Ea. unfold maxSegmentSize in *. lia.
  - (* primitive / void list *)
    repeat split; try assumption. intros i Hi.
    match goal with Hall : forall i, _ -> exists _, _ |- _ => destruct (Hall i Hi) as (d & E & N) end.
    match goal with Hsz : p_size p = _ |- _ => rename Hsz into H6 end.
    match goal with Hpw : prim_width _ |- _ => rename Hpw into H7 end. rewrite N.
    assert (T : totalSize (p_size p) = w) by (rewrite H6; apply totalSize_prim; assumption).
    eapply den_struct with (vs := []); cbn [p_valid p_kind p_size p_off p_seg elem_ptr]; try reflexivity.
    + rewrite H6. destruct H7 as [->|[->|[->|[->| ->]]]]; unfold wf_size; cbn; lia.
    + rewrite T, H6. cbn [DataSize]. change (seg_of m (elem_ptr p i)) with (seg_of m p). exact E.
    + rewrite H6. reflexivity.
    + rewrite H6. cbn [PointerCount]. intros j Hj. lia.
Qed.

(* the struct view of an element: data bytes and pointers *)
Lemma den_struct_inv strict m mid caps p v : den strict m mid caps p v ->
  p_valid p = true -> p_kind p = KStruct ->
  exists d vs, v = VStruct (words_of_bytes d) vs /\ wf_size (p_size p) /\
               slice (seg_of m p) (p_off p) (DataSize (p_size p)) = Ok d /\
               zlen vs = PointerCount (p_size p) /\
               (forall i, 0 <= i < PointerCount (p_size p) ->
                  exists dep rl q rl',
                    readPtr strict m rl (p_seg p) (seg_of m p) (pointerAddress p i) dep = (Ok q, rl')
                    /\ den strict m mid caps q (nthv vs i)).
Proof.
  intros H Hv Hk. inversion H; subst; try congruence. exists d, vs.
  split; [reflexivity|]. split; [assumption|]. split; [assumption|]. split; assumption.
Qed.

(* List.Struct(i) is the struct view, up to the depth limit *)
Lemma list_struct_elem m p i e : msg_ok m -> p_valid p = true -> p_bit p = false -> 0 <= i < p_len p ->
  0 <= p_off p + i * totalSize (p_size p) <= zlen (seg_of m p) ->
  list_struct true p i = Ok e -> same_core e (elem_ptr p i).
Proof.
  intros Hm Hv Hb Hi Hbd. unfold list_struct. rewrite Hv, Hb. cbn [negb orb].
  destruct (i <? 0) eqn:E1; [lia|]. destruct (i >=? p_len p) eqn:E2; [lia|]. cbn [orb].
  pose proof (seg_of_ok m p Hm) as [Sl _].
  destruct (element (p_off p) i (totalSize (p_size p))) as [a|] eqn:Ee.
  - apply element_spec in Ee. destruct Ee as [-> _]. intros H. inversion H; subst. repeat split.
  - apply element_none in Ee. lia.
Qed.

(* the children of a struct pointer: what Struct.Ptr(i) returns denotes the i-th pointer value *)
Definition kids_of (m : segs) (mid : Z) (caps : list Z) (p : Ptr) (vs : list value) : Prop :=
  forall i, 0 <= i < PointerCount (p_size p) ->
    exists dep rl q rl',
      readPtr true m rl (p_seg p) (seg_of m p) (pointerAddress p i) dep = (Ok q, rl')
      /\ den true m mid caps q (nthv vs i).
