(* C16 [T2] copy_value: copyStruct, P_wp f -> P_cs (S f) *)
From CV Require Import Value.ValueEq Value.ValueEqProofs Value.EqualM Value.Den Value.DenFacts Value.DenLists
                       Value.CanonSpec Value.CanonProofs3 Value.CanonM Value.CanonMStruct Value.CanonMData Value.CanonMHeap
                       Value.CanonMLoop Value.CanonMInd Value.CanonMBytes Value.CanonMBlocks Value.CopyValue Value.CopyValueHeap Value.CopyValueDefs.
From CV Require Import Core.ReaderFacts Core.SafetyProofs Core.BuilderFacts Core.ArithFacts Core.CopySafe Core.WritePtrProofs.
From Coq Require Import ZifyBool ZifyNat.
Ltac Zify.zify_post_hook ::= Z.div_mod_to_equations.
Open Scope Z_scope.

Section Copy.
Context (m : segs) (Hm : msg_ok m).

Lemma cs_step f : CopyValueDefs.P_wp m f -> CopyValueDefs.P_cs m (S f).
Proof.
  intros HW D cap rl dst s ws vs A dn pn w' Hi (Dv & Dseg & Doff & Dsz) HA HAm Hdn Hpn Hb Hv Hk Hwf Hal D0 Hsd H.
  destruct Hi as [Hi1 Hi2].
  destruct (den_struct_inv _ _ _ _ _ _ D0 Hv Hk) as (d & vs0 & Ev & Wz & Sl & Lvs & K).
  inversion Ev; subst ws vs0; clear Ev.
  destruct Wz as [Wd Wp].
  apply slice_eq_sub in Sl as Sl'; [|apply seg_of_ok; assumption| lia]. destruct Sl' as (Ed & B1 & B2).
  assert (Ld : zlen d = DataSize (p_size s)) by (rewrite Ed; apply sub_length; lia).
  assert (Hbd : bytes_ok d) by (eapply slice_bytes_ok; eassumption).
  assert (Hal' : (length d mod 8 = 0)%nat).
  { apply Nat2Z.inj. rewrite Nat2Z.inj_mod. unfold zlen in Ld. rewrite Ld. exact (Hal Hk). }
  set (ns := PointerCount (p_size s)) in *.
  assert (Z0 : 0 <= zlen D) by (unfold zlen; lia).
  rewrite copy_struct_S in H. rewrite Dv, Hv in H. cbn [negb] in H.
  change (nth (Z.to_nat (p_seg s)) (w_segs (dstw D cap m rl) InSrc) []) with (seg_of m s) in H.
  rewrite Sl in H. cbn [bind] in H.
  rewrite Dseg, Doff, Dsz in H. cbn [DataSize PointerCount] in H.
  change (nth (Z.to_nat 0) (bm_data (w_dst (dstw D cap m rl))) []) with D in H.
  rewrite slice_ok in H by lia. cbn [bind] in H.
  assert (Lsub : length (sub D A (8 * dn)) = (8 * Z.to_nat dn)%nat).
  { apply Nat2Z.inj. change (zlen (sub D A (8 * dn)) = Z.of_nat (8 * Z.to_nat dn)). rewrite sub_length by lia. lia. }
  rewrite Lsub in H. rewrite (copy_data_words d (Z.to_nat dn) Hbd Hal') in H.
  set (dws := resize_words (words_of_bytes d) (Z.to_nat dn)) in *.
  assert (Ldw : zlen dws = dn) by (unfold dws, zlen; rewrite resize_words_length; lia).
  unfold lift0 in H. cbn [w_dst dstw] in H.
  rewrite seg_write_slots in H by lia. cbn [bind w_set_dst w_src w_src_rl] in H.
  change (w_set_dst (dstw D cap m rl) (seg0 (set_slots D A dws) cap)) with (dstw (set_slots D A dws) cap m rl) in H.
  fold ns in H.
  assert (Ls1 : zlen (set_slots D A dws) = zlen D) by (apply set_slots_length; [lia|unfold zlen in *; lia]).
  set (D1 := set_slots D A dws) in *.
  set (nmin := Z.to_nat (Z.min ns pn)) in *.
  (* the first loop *)
  match type of H with context [fold_res (iota nmin) ?w0 ?st] => set (step := st) in * end.
  set (P := fun (i : Z) (M : list Z) => zlen M <= BOUND -> reads_as M ((A + 8 * dn) + 8 * i) (nthv vs i)).
  assert (Hstep : forall i D0' cap0 rl0 w0, 0 <= i < Z.of_nat nmin -> hinv D0' -> (A + 8 * dn) + 8 * Z.of_nat nmin <= zlen D0' ->
            step (dstw D0' cap0 m rl0) i = Ok w0 ->
            exists word body cap' rl',
              w0 = dstw (put_word D0' ((A + 8 * dn) + 8 * i) word ++ body) cap' m rl' /\ hinv (D0' ++ body) /\ bytes_ok body /\
              forall pre' tail, zlen pre' = zlen D0' -> word_is pre' ((A + 8 * dn) + 8 * i) word -> P i (pre' ++ body ++ tail)).
  { intros i D0' cap0 rl0 w0 Hi0 Hinv0 Hb0 Hs0. unfold step in Hs0. cbn [w_segs w_rl dstw w_src w_src_rl] in Hs0.
    change (nth (Z.to_nat (p_seg s)) m []) with (seg_of m s) in Hs0.
    destruct (readPtr true m rl0 (p_seg s) (seg_of m s) (pointerAddress s i) (p_depth s)) as [r rl1] eqn:ER.
    destruct r as [p0| |]; try discriminate. cbn [bind] in Hs0.
    destruct (K i ltac:(unfold nmin, ns in *; lia)) as (dep & rlk & q & rlk' & RK & DK).
    assert (DP : den true m 0 [] p0 (nthv vs i)) by (eapply den_core; [eapply readPtr_core; [exact RK|exact ER]| exact DK]).
    assert (WP : wf_ptr m p0).
    { pose proof (struct_ptr_safe (mkCfg 0 0 true true) m rl0 s i Hm (conj Hwf (fun _ => Hk)) ltac:(lia)) as SS.
      unfold struct_ptr in SS. rewrite Hv in SS. cbn [negb orb] in SS.
      destruct (i >=? PointerCount (p_size s)) eqn:Eip; [unfold nmin, ns in *; lia|].
      cbn [cfg_strict] in SS. rewrite ER in SS. cbn in SS. apply SS. reflexivity. }
    assert (AP : aligned p0) by (eapply readPtr_aligned; exact ER).
    assert (CAP : caligned p0) by (eapply readPtr_caligned; exact ER).
    assert (CTG : ctag_ok m p0).
    { destruct (Hwf Hv) as (Hsg & Hob). unfold wf_obj in Hob. rewrite Hk in Hob. destruct Hob as (_ & Ho1 & Ho2).
      assert (PAs : pointerAddress s i = p_off s + DataSize (p_size s) + 8 * i).
      { apply pointerAddress_eq; try lia. pose proof (seg_of_ok m s Hm) as [Sl1 _]. unfold maxSegmentSize in Sl1. unfold nmin, ns in *. lia. }
      eapply (readPtr_ctag true m rl0 (p_seg s) (seg_of m s)); [exact Hm|split; [exact Hsg|reflexivity]| | |exact ER];
        rewrite PAs; unfold nmin, ns in *; lia. }
    assert (SD : cvdom (nthv vs i) = true).
    { unfold nthv. eapply forallb_In; [exact Hsd|]. apply nth_In. unfold zlen, nmin, ns in *. lia. }
    change (w_set_rl (dstw D0' cap0 m rl0) InSrc rl1) with (dstw D0' cap0 m rl1) in Hs0.
    try rewrite Dseg in Hs0.
    assert (PA : pointerAddress dst i = (A + 8 * dn) + 8 * i).
    { rewrite pointerAddress_eq; rewrite ?Doff, ?Dsz; cbn [DataSize]; destruct Hinv0; unfold zlen, nmin in *; lia. }
    rewrite PA in Hs0.
    destruct (HW D0' cap0 rl1 ((A + 8 * dn) + 8 * i) p0 (nthv vs i) true w0 Hinv0 ltac:(lia) ltac:(lia)
                 ltac:(unfold nmin in *; lia) WP AP CAP CTG DP SD Hs0) as (word & body & cap2 & rl2 & -> & Hinv2 & Bb & Post).
    exists word, body, cap2, rl2. split; [reflexivity|]. split; [exact Hinv2|]. split; [exact Bb|].
    intros pre' tail Lp Hwd Hbound. apply Post; assumption. }
  destruct (fold_res (iota nmin) (dstw D1 cap m rl) step) as [w2| |] eqn:E1; try discriminate H. cbn [bind] in H.
  destruct (sem_loop step m (A + 8 * dn) nmin P ltac:(lia) ltac:(lia) Hstep nmin (le_n _) D1 cap rl w2
                     ltac:(split; lia) ltac:(rewrite Ls1; unfold nmin; lia) E1)
    as (words & kids & cap1 & rl1 & Lw & -> & Hinvk & Bk & PostL).
  (* the second loop *)
  set (k2 := Z.to_nat (pn - ns)) in *.
  assert (Hbk : zlen D + zlen kids <= BOUND).
  { destruct Hinvk as [_ Hk2]. rewrite zlen_app, Ls1 in Hk2. unfold BOUND. lia. }
  assert (E2 : set_slots D1 (A + 8 * dn) words = set_slots D A (dws ++ words)).
  { unfold D1. rewrite <- Ldw. apply set_slots_app; [lia|]. rewrite zlen_app. unfold zlen, nmin in *. lia. }
  rewrite E2 in *.
  destruct (Z_lt_le_dec ns pn) as [Hlt|Hge].
  - (* missing pointers: null *)
    assert (Lw' : zlen words = ns) by (unfold zlen, nmin in *; lia).
    assert (E3 : set_slots D A (dws ++ words) = set_slots D1 (A + 8 * dn) words) by (symmetry; exact E2).
    rewrite E3 in H.
    rewrite (zero_loop m dst (A + 8 * dn) D1 cap1 rl1 ns k2 words kids) in H;
      try lia; try assumption; try (rewrite Ls1; unfold k2; lia).
    2:{ intros j Hj. rewrite pointerAddress_eq; rewrite ?Doff, ?Dsz; cbn [DataSize]; unfold k2 in *; lia. }
    apply Ok_inj in H. subst w'.
    exists (words ++ repeat 0 k2), kids, cap1, rl1.
    split; [rewrite zlen_app; unfold zlen in *; rewrite repeat_length; unfold k2; lia|].
    split.
    { assert (E4 : set_slots D1 (A + 8 * dn) (words ++ repeat 0 k2) = set_slots D A (dws ++ words ++ repeat 0 k2)).
      { unfold D1. rewrite <- Ldw. apply set_slots_app; [lia|]. rewrite !zlen_app. unfold zlen in *. rewrite repeat_length. unfold k2. lia. }
      rewrite E4. reflexivity. }
    split; [unfold hinv in *; rewrite zlen_app in *; rewrite Ls1 in Hinvk; exact Hinvk|]. split; [exact Bk|].
    intros pre' tail Lp Hs Hbound i Hi0.
    assert (Lblk : zlen (dws ++ words ++ repeat 0 k2) = dn + pn)
      by (rewrite !zlen_app; unfold zlen in *; rewrite repeat_length; unfold k2; lia).
    rewrite nthv_resize_ptrs by lia.
    destruct (i <? zlen vs) eqn:Ei.
    + assert (HsL : sub pre' (A + 8 * dn) (8 * Z.of_nat nmin) = bytes_of_words words).
      { replace (sub pre' (A + 8 * dn) (8 * Z.of_nat nmin))
          with (sub (sub pre' A (8 * (dn + pn))) (8 * zlen dws) (8 * zlen words)) by (rewrite sub_sub; [f_equal; unfold zlen, nmin in *; lia| | | |]; unfold zlen, nmin in *; lia).
        rewrite Hs. apply bow_sub_mid. }
      exact (PostL pre' tail (eq_trans Lp (eq_sym Ls1)) HsL i ltac:(unfold nmin, zlen in *; lia) Hbound).
    + apply reads_null; try (rewrite !zlen_app in *; unfold zlen in *; lia).
      assert (Hwd : word_is pre' (A + 8 * Z.of_nat (Z.to_nat (dn + i))) (nth (Z.to_nat (dn + i)) (dws ++ words ++ repeat 0 k2) 0)).
      { apply block_word; [lia| rewrite Lblk; exact Hs| unfold zlen in Lblk; lia]. }
      replace (A + 8 * Z.of_nat (Z.to_nat (dn + i))) with (A + 8 * dn + 8 * i) in Hwd by lia.
      assert (Enth : nth (Z.to_nat (dn + i)) (dws ++ words ++ repeat 0 k2) 0 = 0).
      { rewrite app_nth2 by (unfold zlen in *; lia). rewrite app_nth2 by (unfold zlen in *; lia).
        destruct (Nat.lt_ge_cases (Z.to_nat (dn + i) - length dws - length words) k2) as [Hx|Hx];
          [apply nth_repeat| apply nth_overflow; rewrite repeat_length; exact Hx]. }
      rewrite Enth in Hwd. unfold word_is in *. rewrite sub_app_l by (unfold zlen in *; lia). exact Hwd.
  - (* the source has at least as many pointers *)
    replace k2 with 0%nat in H by (unfold k2; lia). cbn [iota seq map fold_res] in H.
    apply Ok_inj in H. subst w'.
    exists words, kids, cap1, rl1.
    split; [unfold zlen, nmin in *; lia|]. split; [reflexivity|].
    split; [unfold hinv in *; rewrite zlen_app in *; rewrite Ls1 in Hinvk; exact Hinvk|]. split; [exact Bk|].
    intros pre' tail Lp Hs Hbound i Hi0.
    rewrite nthv_resize_ptrs by lia. replace (i <? zlen vs) with true by (unfold zlen, ns in *; lia).
    assert (HsL : sub pre' (A + 8 * dn) (8 * Z.of_nat nmin) = bytes_of_words words).
    { replace (sub pre' (A + 8 * dn) (8 * Z.of_nat nmin))
        with (sub (sub pre' A (8 * (dn + pn))) (8 * zlen dws) (8 * zlen words)) by (rewrite sub_sub; [f_equal; unfold zlen, nmin in *; lia| | | |]; unfold zlen, nmin in *; lia).
      rewrite Hs. rewrite <- (app_nil_r words) at 1. apply bow_sub_mid. }
    exact (PostL pre' tail (eq_trans Lp (eq_sym Ls1)) HsL i ltac:(unfold nmin, zlen in *; lia) Hbound).
Qed.


End Copy.
