(* CapLemmas.v — list/sum/graph lemmas used by the invariant proof. *)
From Coq Require Import ZArith List Bool Arith Lia.
From CV Require Import Cap.Cap Cap.CapInv.
Import ListNotations.
Open Scope Z_scope.

(* ---------------------------------------------------------------- upd / nth_error *)
Lemma nth_error_upd_eq : forall A (l : list A) n f,
  nth_error (upd n f l) n = option_map f (nth_error l n).
Proof. induction l as [|a l IH]; intros [|n] f; simpl; auto. Qed.

Lemma nth_error_upd_neq : forall A (l : list A) n m f, n <> m ->
  nth_error (upd n f l) m = nth_error l m.
Proof.
  induction l as [|a l IH]; intros [|n] [|m] f H; simpl; auto; try congruence.
Qed.

Lemma nth_error_upd : forall A (l : list A) n m f,
  nth_error (upd n f l) m = if Nat.eqb n m then option_map f (nth_error l m) else nth_error l m.
Proof.
  intros. destruct (Nat.eqb n m) eqn:E.
  - apply Nat.eqb_eq in E; subst. apply nth_error_upd_eq.
  - apply Nat.eqb_neq in E. apply nth_error_upd_neq; auto.
Qed.

Lemma length_upd : forall A (l : list A) n f, length (upd n f l) = length l.
Proof. induction l as [|a l IH]; intros [|n] f; simpl; auto. Qed.

Lemma nth_error_app_new : forall A (l : list A) x m,
  nth_error (l ++ [x]) m =
  if Nat.eqb m (length l) then Some x else nth_error l m.
Proof.
  induction l as [|a l IH]; intros x [|m]; simpl; auto.
  - destruct m; reflexivity.
Qed.

Lemma nth_error_ge_none : forall A (l : list A) n, (length l <= n)%nat -> nth_error l n = None.
Proof. intros. apply nth_error_None. auto. Qed.

Lemma nth_error_some_lt : forall A (l : list A) n x, nth_error l n = Some x -> (n < length l)%nat.
Proof. intros. apply nth_error_Some. congruence. Qed.

(* ---------------------------------------------------------------- sumf *)
Lemma sumf_app : forall A (f : A -> Z) l1 l2, sumf f (l1 ++ l2) = sumf f l1 + sumf f l2.
Proof. induction l1; intros; simpl; auto. rewrite IHl1. lia. Qed.

Lemma sumf_upd : forall A (f : A -> Z) (l : list A) n k x,
  nth_error l n = Some x -> sumf f (upd n k l) = sumf f l - f x + f (k x).
Proof.
  induction l as [|a l IH]; intros [|n] k x H; simpl in *; try discriminate.
  - inversion H; subst. lia.
  - rewrite (IH _ _ _ H). lia.
Qed.

Lemma sumf_upd_none : forall A (f : A -> Z) (l : list A) n k,
  nth_error l n = None -> sumf f (upd n k l) = sumf f l.
Proof.
  induction l as [|a l IH]; intros [|n] k H; simpl in *; try discriminate; auto.
  rewrite IH; auto.
Qed.

Lemma sumf_ext : forall A (f g : A -> Z) l, (forall x, In x l -> f x = g x) -> sumf f l = sumf g l.
Proof.
  induction l; intros; simpl; auto. rewrite H by (left; auto). rewrite IHl; auto.
  intros. apply H. right; auto.
Qed.

Lemma sumf_map : forall A B (f : B -> Z) (m : A -> B) l, sumf f (map m l) = sumf (fun x => f (m x)) l.
Proof. induction l; simpl; auto. rewrite IHl. auto. Qed.

Lemma sumf_nonneg : forall A (f : A -> Z) l, (forall x, 0 <= f x) -> 0 <= sumf f l.
Proof. induction l; intros; simpl. lia. specialize (H a) as Ha. specialize (IHl H). lia. Qed.

Lemma sumf_zero_each : forall A (f : A -> Z) l, (forall x, 0 <= f x) -> sumf f l = 0 ->
  forall x, In x l -> f x = 0.
Proof.
  induction l; intros Hn Hs x Hin; simpl in *. contradiction.
  pose proof (sumf_nonneg _ f l Hn). pose proof (Hn a).
  destruct Hin as [->|Hin]. lia. apply IHl; auto. lia.
Qed.

Lemma sumf_all_zero : forall A (f : A -> Z) l, (forall x, In x l -> f x = 0) -> sumf f l = 0.
Proof.
  induction l; intros; simpl; auto. rewrite H by (left; auto). rewrite IHl; auto.
  intros; apply H; right; auto.
Qed.

Lemma wtok_nonneg : forall h c, 0 <= wtok h c.
Proof. intros. unfold wtok. destruct (oeqb _ _); lia. Qed.
Lemma wclose_nonneg : forall h c, 0 <= wclose h c.
Proof. intros. unfold wclose. destruct (t_pc c); try lia; destruct (Nat.eqb _ _); lia. Qed.
Lemma wcall_nonneg : forall h c, 0 <= wcall h c.
Proof. intros. unfold wcall. destruct (t_pc c); try lia; destruct (Nat.eqb _ _); lia. Qed.

Lemma oeqb_true : forall a b, oeqb a b = true <-> a = b.
Proof.
  intros [a|] [b|]; simpl; split; intros H; try discriminate; auto.
  - apply Nat.eqb_eq in H. congruence.
  - inversion H. apply Nat.eqb_refl.
Qed.

Lemma oeqb_false : forall a b, oeqb a b = false <-> a <> b.
Proof.
  intros. split; intros H.
  - intros E. apply oeqb_true in E. congruence.
  - destruct (oeqb a b) eqn:E; auto. apply oeqb_true in E. contradiction.
Qed.

Lemma oeqb_refl : forall a, oeqb a a = true.
Proof. intros. apply oeqb_true. auto. Qed.

(* ---------------------------------------------------------------- graph *)
Lemma fwd_fun : forall g a b b', fwd g a b -> fwd g a b' -> b = b'.
Proof. intros g a b b' (hk & H1 & _ & H2) (hk' & H1' & _ & H2'). congruence. Qed.

Lemma reach_trans : forall g a b c, reach g a b -> reach g b c -> reach g a c.
Proof. induction 1; intros; auto. eapply reach_left; eauto. Qed.

Lemma reach_right : forall g a b c, reach g a b -> fwd g b c -> reach g a c.
Proof. intros. eapply reach_trans; eauto. eapply reach_left; eauto. constructor. Qed.

Lemma reach_step_inv : forall g a T b, reach g a T -> a <> T -> fwd g a b -> reach g b T.
Proof.
  intros g a T b H Hne Hf. inversion H; subst. congruence.
  rewrite (fwd_fun _ _ _ _ Hf H0). auto.
Qed.

Lemma reach_noout : forall g a T, reach g a T -> (forall b, ~ fwd g a b) -> T = a.
Proof. intros g a T H Hn. inversion H; subst; auto. exfalso. eapply Hn; eauto. Qed.

Lemma to_nil_step : forall g a b, to_nil g a -> fwd g a b -> to_nil g b.
Proof.
  intros g a b (y & hk & Hr & Hg & Hf & Hn) Hfw.
  destruct (Nat.eq_dec a y) as [->|Hne].
  - destruct Hfw as (hk' & Hg' & _ & Hrh). congruence.
  - exists y, hk. repeat split; auto. eapply reach_step_inv; eauto.
Qed.

Lemma to_nil_noout : forall g a hk, to_nil g a -> get_hook g a = Some hk -> forwarded a hk = false -> False.
Proof.
  intros g a hk (y & hk' & Hr & Hg & Hf & Hn) Hga Hnf.
  assert (y = a).
  { eapply reach_noout; eauto. intros b (hk2 & Hg2 & Hf2 & _). congruence. }
  subst. congruence.
Qed.

Lemma to_nil_reach : forall g a b, reach g a b -> to_nil g b -> to_nil g a.
Proof.
  intros g a b Hr (y & hk & Hr' & Hrest). exists y, hk. split; auto. eapply reach_trans; eauto.
Qed.

(* monotonicity: forwarding edges are never removed *)
Definition links_le (g g' : config) : Prop :=
  forall a hk, get_hook g a = Some hk -> forwarded a hk = true ->
    exists hk', get_hook g' a = Some hk' /\ forwarded a hk' = true /\ h_rh hk' = h_rh hk.

Lemma fwd_mono : forall g g' a b, links_le g g' -> fwd g a b -> fwd g' a b.
Proof.
  intros g g' a b L (hk & Hg & Hf & Hr). destruct (L _ _ Hg Hf) as (hk' & Hg' & Hf' & Hr').
  exists hk'. repeat split; auto. congruence.
Qed.

Lemma reach_mono : forall g g' a b, links_le g g' -> reach g a b -> reach g' a b.
Proof. induction 2. constructor. eapply reach_left; eauto. eapply fwd_mono; eauto. Qed.

Lemma to_nil_mono : forall g g' a, links_le g g' -> to_nil g a -> to_nil g' a.
Proof.
  intros g g' a L (y & hk & Hr & Hg & Hf & Hn). destruct (L _ _ Hg Hf) as (hk' & Hg' & Hf' & Hr').
  exists y, hk'. repeat split; auto. eapply reach_mono; eauto. congruence.
Qed.

Lemma tgt_ok_mono : forall g g' T x, links_le g g' -> tgt_ok g T x -> tgt_ok g' T x.
Proof. intros. destruct T; simpl in *. eapply reach_mono; eauto. eapply to_nil_mono; eauto. Qed.
