(* CapProofs.v — the C10 theorems about the interleaving model (variant fixed = true). *)
From Coq Require Import ZArith List Bool Arith Lia.
From CV Require Import Cap.Cap Cap.CapInv Cap.CapLemmas Cap.CapStep Cap.CapCases Cap.CapFulfill.
Import ListNotations.
Open Scope Z_scope.

(* ---------------------------------------------------------------- every step preserves Inv *)
Theorem step_preserves_inv : forall g t g',
  Inv g -> step true g t = Some g' -> misuse g' = false -> Inv g'.
Proof.
  intros g t g' I Hs Hm.
  destruct (nth_error (threads g) t) as [th|] eqn:Hth; [|unfold step in Hs; rewrite Hth in Hs; discriminate].
  destruct (t_pc th) eqn:Hpc.
  - (* Idle *)
    destruct (t_prog th) as [|o rest] eqn:Hprog.
    { unfold step in Hs. rewrite Hth, Hpc, Hprog in Hs. discriminate. }
    destruct o; try (eapply step_Idle_plain; eauto; intros; discriminate).
    + eapply step_Idle_new; eauto.
    + eapply step_Idle_new; eauto.
  - eapply step_CLock; eauto.
  - (* CWalk *)
    destruct (get_hook g cur) as [hk|] eqn:Hx.
    2: { unfold step in Hs. rewrite Hth, Hpc, Hx in Hs. discriminate. }
    destruct (forwarded cur hk) eqn:Hf.
    + destruct (h_rh hk) eqn:Hr.
      * eapply step_CWalk_hop; eauto.
      * eapply step_CWalk_nil; eauto.
    + destruct k.
      * eapply step_CWalk_end_addref; eauto.
      * eapply step_CWalk_end_release; eauto.
      * eapply step_CWalk_end_call; eauto.
      * eapply step_CWalk_end_simple; eauto.
      * eapply step_CWalk_end_simple; eauto 6.
      * eapply step_CWalk_end_simple; eauto 7.
      * eapply step_CWalk_end_simple; eauto 7.
  - (* WWalk *)
    destruct (get_hook g cur) as [hk|] eqn:Hx.
    2: { unfold step in Hs. rewrite Hth, Hpc, Hx in Hs. discriminate. }
    destruct (forwarded cur hk) eqn:Hf.
    + eapply step_WWalk_plain; eauto.
    + destruct (Z.eq_dec (h_refs hk) 0).
      * eapply step_WWalk_plain; eauto.
      * eapply step_WWalk_ok; eauto.
  - eapply step_InCall; eauto.
  - eapply step_CallFin; eauto.
  - eapply step_WaitDone; eauto.
  - eapply step_FLock; eauto.
  - (* FMark *)
    destruct (get_hook g p) as [hk|] eqn:Hx.
    2: { unfold step in Hs. rewrite Hth, Hpc, Hx in Hs. discriminate. }
    destruct (h_resolved hk) eqn:Hr.
    + eapply step_FMark_resolved; eauto.
    + eapply step_FMark_unresolved; eauto.
  - (* FWalk *)
    destruct (get_hook g cur) as [hk|] eqn:Hx.
    2: { unfold step in Hs. rewrite Hth, Hpc, Hx in Hs. discriminate. }
    destruct (forwarded cur hk) eqn:Hf.
    + destruct (h_rh hk) eqn:Hr.
      * eapply step_FWalk_hop; eauto.
      * eapply step_FWalk_nil; eauto.
    + eapply step_FWalk_end; eauto.
Qed.
