(* CapProofs.v — the C10 theorems about the interleaving model (variant fixed = true). *)
From Coq Require Import ZArith List Bool Arith Lia.
From CV Require Import Cap.Cap Cap.CapInv Cap.CapLemmas Cap.CapStep Cap.CapCases Cap.CapFulfill.
Import ListNotations.
Open Scope Z_scope.

(* ---------------------------------------------------------------- every step preserves Inv *)
Theorem step_preserves_inv : forall g t g',
  Inv g -> step true g t = Some g' -> misuse g' = false -> Inv g'.
Proof.
  intros g t g' I Hs Hm.
  destruct (nth_error (threads g) t) as [th|] eqn:Hth; [|unfold step in Hs; rewrite Hth in Hs; discriminate].
  destruct (t_pc th) eqn:Hpc.
  - (* Idle *)
    destruct (t_prog th) as [|o rest] eqn:Hprog.
    { unfold step in Hs. rewrite Hth, Hpc, Hprog in Hs. discriminate. }
    destruct o; try (eapply step_Idle_plain; eauto; intros; discriminate).
    + eapply step_Idle_new; eauto.
    + eapply step_Idle_new; eauto.
  - eapply step_CLock; eauto.
  - (* CWalk *)
    destruct (get_hook g cur) as [hk|] eqn:Hx.
    2: { unfold step in Hs. rewrite Hth, Hpc, Hx in Hs. discriminate. }
    destruct (forwarded cur hk) eqn:Hf.
    + destruct (h_rh hk) eqn:Hr.
      * eapply step_CWalk_hop; eauto.
      * eapply step_CWalk_nil; eauto.
    + destruct k.
      * eapply step_CWalk_end_addref; eauto.
      * eapply step_CWalk_end_release; eauto.
      * eapply step_CWalk_end_call; eauto.
      * eapply step_CWalk_end_simple; eauto.
      * eapply step_CWalk_end_simple; eauto 6.
      * eapply step_CWalk_end_simple; eauto 7.
      * eapply step_CWalk_end_simple; eauto 7.
      * eapply step_CWalk_end_state; eauto.
  - (* WWalk *)
    destruct (get_hook g cur) as [hk|] eqn:Hx.
    2: { unfold step in Hs. rewrite Hth, Hpc, Hx in Hs. discriminate. }
    destruct (forwarded cur hk) eqn:Hf.
    + eapply step_WWalk_plain; eauto.
    + destruct (Z.eq_dec (h_refs hk) 0).
      * eapply step_WWalk_plain; eauto.
      * eapply step_WWalk_ok; eauto.
  - eapply step_InCall; eauto.
  - eapply step_CallFin; eauto.
  - eapply step_WaitDone; eauto.
  - eapply step_FLock; eauto.
  - (* FMark *)
    destruct (get_hook g p) as [hk|] eqn:Hx.
    2: { unfold step in Hs. rewrite Hth, Hpc, Hx in Hs. discriminate. }
    destruct (h_resolved hk) eqn:Hr.
    + eapply step_FMark_resolved; eauto.
    + eapply step_FMark_unresolved; eauto.
  - (* FWalk *)
    destruct (get_hook g cur) as [hk|] eqn:Hx.
    2: { unfold step in Hs. rewrite Hth, Hpc, Hx in Hs. discriminate. }
    destruct (forwarded cur hk) eqn:Hf.
    + destruct (h_rh hk) eqn:Hr.
      * eapply step_FWalk_hop; eauto.
      * eapply step_FWalk_nil; eauto.
    + eapply step_FWalk_end; eauto.
Qed.

(* ---------------------------------------------------------------- initial configuration *)
Lemma init_threads_idle : forall progs t th, nth_error (threads (init progs)) t = Some th -> t_pc th = Idle.
Proof.
  intros progs t th H. unfold init in H. cbn in H. rewrite nth_error_map in H.
  destruct (nth_error progs t); simpl in H; inversion H; subst. reflexivity.
Qed.

Lemma sumf_idle : forall (w : thread -> Z) progs, (forall th, t_pc th = Idle -> w th = 0) ->
  sumf w (map (fun p => mkThread p Idle []) progs) = 0.
Proof. intros. apply sumf_all_zero. intros x Hin. apply in_map_iff in Hin. destruct Hin as (p & <- & _). apply H. auto. Qed.

Lemma init_inv : forall progs, Inv (init progs).
Proof.
  intros progs.
  assert (P : forall t p, pc_of (init progs) t p -> p = Idle).
  { intros t p (th & A & B). rewrite <- B. eapply init_threads_idle; eauto. }
  constructor.
  - reflexivity.
  - constructor.
    + intros h _. unfold tokens, closers, callers, init. cbn. repeat split; auto.
      * apply sumf_idle. intros th E. unfold wclose. rewrite E. auto.
      * apply sumf_idle. intros th E. unfold wcall. rewrite E. auto.
    + intros h hk A. unfold get_hook, init in A. cbn in A. destruct h; discriminate.
  - constructor.
    + intros c cl A. unfold get_client, init in A. cbn in A. destruct c; discriminate.
    + intros t k c cur A. apply P in A. discriminate.
    + intros c cl t A. unfold get_client, init in A. cbn in A. destruct c; discriminate.
    + intros c cl A. unfold get_client, init in A. cbn in A. destruct c; discriminate.
    + intros t k c cur cl A. apply P in A. discriminate.
  - constructor.
    + intros t p n c cur A. apply P in A. discriminate.
    + intros t p rh c A. apply P in A. discriminate.
Qed.

(* ---------------------------------------------------------------- misuse is sticky *)
Lemma misuse_same_second : forall t h1 c2 g, misuse (same_second t h1 c2 g) = misuse g.
Proof. intros. unfold same_second. destruct c2; reflexivity. Qed.

Lemma misuse_begin_op : forall t o g, misuse (begin_op t o g) = misuse g.
Proof.
  intros. destruct o; unfold begin_op; try reflexivity;
  repeat match goal with |- context[match ?x with _ => _ end] => destruct x end;
  rewrite ?misuse_same_second; reflexivity.
Qed.

Lemma misuse_clock_step : forall t k c cl g, misuse g = true -> misuse (clock_step t k c cl g) = true.
Proof.
  intros t k c cl g H. unfold clock_step.
  destruct k; repeat match goal with |- context[match ?x with _ => _ end] => destruct x end;
  rewrite ?misuse_same_second; cbn; auto.
Qed.

Lemma misuse_cwalk_nil : forall t k c g, misuse (cwalk_nil t k c g) = misuse g.
Proof. intros. unfold cwalk_nil. destruct k; rewrite ?misuse_same_second; reflexivity. Qed.

Lemma misuse_cwalk_end : forall t k c cur hk g, misuse (cwalk_end t k c cur hk g) = misuse g.
Proof.
  intros. unfold cwalk_end. destruct k; rewrite ?misuse_same_second; try reflexivity.
  repeat match goal with |- context[match ?x with _ => _ end] => destruct x end; reflexivity.
Qed.

Lemma misuse_mono : forall fixed g t g', step fixed g t = Some g' -> misuse g = true -> misuse g' = true.
Proof.
  intros fixed g t g' Hs Hm. unfold step in Hs.
  destruct (nth_error (threads g) t) as [th|]; [|discriminate].
  destruct (t_pc th).
  - destruct (t_prog th); [discriminate|]. inversion Hs; subst. rewrite misuse_begin_op. exact Hm.
  - destruct (get_client g c) as [cl|]; [|discriminate]. destruct (c_mu cl); [discriminate|].
    inversion Hs; subst. apply misuse_clock_step; auto.
  - destruct (get_hook g cur) as [hk|]; [|discriminate]. destruct (h_mu hk); [discriminate|].
    destruct (forwarded cur hk).
    + destruct (h_rh hk); inversion Hs; subst. exact Hm. rewrite misuse_cwalk_nil. exact Hm.
    + inversion Hs; subst. rewrite misuse_cwalk_end. exact Hm.
  - destruct (get_hook g cur) as [hk|]; [|discriminate]. destruct (h_mu hk); [discriminate|].
    destruct (forwarded cur hk).
    + destruct (h_rh hk); inversion Hs; subst; exact Hm.
    + cbn [hooks set_weaks] in Hs. destruct (h_refs hk =? 0); inversion Hs; subst; exact Hm.
  - inversion Hs; subst. exact Hm.
  - destruct (get_hook g h) as [hk|]; [|discriminate]. destruct (h_mu hk); [discriminate|].
    repeat match type of Hs with context[match ?x with _ => _ end] => destruct x end;
    inversion Hs; subst; exact Hm.
  - destruct (get_hook g h) as [hk|]; [|discriminate]. destruct (h_done hk); [|discriminate].
    inversion Hs; subst; exact Hm.
  - destruct (get_client g c) as [cl|]; [|discriminate]. destruct (c_mu cl); [discriminate|].
    destruct (c_released cl); inversion Hs; subst; exact Hm.
  - destruct (get_hook g p) as [hk|]; [|discriminate]. destruct (h_mu hk); [discriminate|].
    destruct (h_resolved hk); inversion Hs; subst. exact Hm.
    apply fmark_body_misuse. destruct (resolves_to_cycle g rh p); auto.
  - destruct (get_hook g cur) as [hk|]; [|discriminate]. destruct (h_mu hk); [discriminate|].
    repeat match type of Hs with context[match ?x with _ => _ end] => destruct x end;
    inversion Hs; subst; cbn; auto.
Qed.

Lemma misuse_reach : forall fixed g0 g, reachable fixed g0 g -> misuse g = false -> misuse g0 = false.
Proof.
  induction 1; intros; auto. apply IHreachable.
  destruct (misuse g) eqn:E; auto. rewrite (misuse_mono _ _ _ _ H0 E) in H1. discriminate.
Qed.

(* every configuration reachable under any schedule, from any programs, in which the callers
   kept the API contract, satisfies the invariant *)
Theorem reachable_inv : forall progs g, reachable true (init progs) g -> misuse g = false -> Inv g.
Proof.
  intros progs g R. induction R; intros Hm.
  - apply init_inv.
  - eapply step_preserves_inv; eauto. apply IHR.
    destruct (misuse g) eqn:E; auto. rewrite (misuse_mono _ _ _ _ H E) in Hm. discriminate.
Qed.

(* ---------------------------------------------------------------- shutdown_once *)
Lemma closers_nonneg : forall g h, 0 <= closers g h.
Proof. intros. apply sumf_nonneg. apply wclose_nonneg. Qed.

Theorem shutdown_once : shutdown_once_stmt.
Proof.
  intros progs g R Hm h hk Hx. pose proof (reachable_inv progs g R Hm) as I.
  destruct (inv_hook g (invH g I) h hk Hx) as [O1 O2 O3 O4 O5 O6 O7].
  pose proof (closers_nonneg g h) as C0.
  split; [|split].
  - destruct (h_refs hk =? 0); lia.
  - exact O5.
  - intros Hfin. assert (closers g h = 0).
    { apply sumf_all_zero. intros th Hin. specialize (Hfin th Hin). unfold unfinished in Hfin.
      unfold wclose. destruct (t_pc th); try discriminate; auto. }
    lia.
Qed.

(* ---------------------------------------------------------------- shutdown_after_last *)
Theorem shutdown_after_last : shutdown_after_last_stmt.
Proof.
  intros progs g t h g' R Hm P Hs. pose proof (reachable_inv progs g R Hm) as I.
  destruct P as (th & Hth & Hpc). unfold step in Hs. rewrite Hth, Hpc in Hs.
  destruct (get_hook g h) as [hk|] eqn:Hx; [|discriminate].
  destruct (h_done hk) eqn:Hd; [|discriminate].
  assert (Hmu : h_mu hk = None) by (eapply (waitdone_free g t h hk I); eauto; exists th; auto).
  destruct (inv_hook g (invH g I) h hk Hx) as [O1 O2 O3 O4 O5 O6 O7].
  rewrite O4 in Hd. apply andb_true_iff in Hd. destruct Hd as (D1 & D2).
  apply Z.eqb_eq in D1. apply Z.eqb_eq in D2.
  exists hk. repeat split; auto; try lia.
  - rewrite <- (O1 Hmu). auto.
  - pose proof (sumf_one _ (wclose h) (threads g) t th (wclose_nonneg h) Hth) as S.
    unfold wclose in S at 1. rewrite Hpc, Nat.eqb_refl in S. unfold closers in O5.
    rewrite D1 in O5. change (0 =? 0) with true in O5. cbv iota in O5. lia.
Qed.

(* ---------------------------------------------------------------- refs_transfer *)
Theorem refs_transfer : refs_transfer_stmt.
Proof.
  intros progs g R Hm. pose proof (reachable_inv progs g R Hm) as I. split; [|split].
  - intros h hk Hx Hmu. destruct (inv_hook g (invH g I) h hk Hx) as [O1 _ _ _ _ _ _]. auto.
  - intros t p n c cur P. destruct (inv_flight g (invF g I) _ _ _ _ _ P) as (hk & A1 & A2 & A3 & A4 & _).
    exists hk. auto.
  - apply (inv_client g (invC g I)).
Qed.

Theorem refs_transfer_step : refs_transfer_step_stmt.
Proof.
  intros g t p n c cur hk g' (th & Hth & Hpc) Hx Hmu Hf Hne Hs.
  unfold step in Hs. rewrite Hth, Hpc, Hx, Hmu, Hf in Hs. inversion Hs; subst g'; clear Hs.
  set (g1 := uh cur (hk_refs (h_refs hk + n)) g).
  assert (Hq : Some cur <> Some p) by congruence.
  assert (T : forall h, tokens (set_pc t (WaitDone p) (uh p (hk_mu None) (retarget p (Some cur) g1))) h =
              if Nat.eqb h p then 0 else tokens g h + (if oeqb (Some cur) (Some h) then tokens g p else 0)).
  { intros h. apply (tokens_retarget g _ p (Some cur) h); auto. }
  exists (hk_refs (h_refs hk + n) hk). split; [|split; [reflexivity|split]].
  - unfold get_hook. cbn. rewrite nth_error_upd_neq; auto. rewrite nth_error_upd_eq.
    unfold get_hook in Hx. rewrite Hx. reflexivity.
  - rewrite T. rewrite (proj2 (Nat.eqb_neq cur p) Hne). rewrite oeqb_refl. reflexivity.
  - rewrite T, Nat.eqb_refl. reflexivity.
Qed.

(* ---------------------------------------------------------------- null_released_error *)
(* A call (SendCall/RecvCall) made by thread t through client c, at the moment it has
   acquired c.mu: if c has no hook (nil, released, or resolved to null) the op completes at
   once with the error result, no event is emitted and no hook changes.  (Calls through a nil
   *Client complete in [begin_op] with RErr in the same way; a client whose chain ends in a
   hook resolved to nil reaches [cwalk_nil], also RErr.) *)
Definition null_released_error_stmt : Prop :=
  forall fixed g t th recv abn c cl g',
    nth_error (threads g) t = Some th -> t_pc th = CLock (KCall recv abn) c ->
    get_client g c = Some cl -> c_h cl = None ->
    step fixed g t = Some g' ->
    events g' = events g /\ hooks g' = hooks g /\
    exists th', nth_error (threads g') t = Some th' /\ t_pc th' = Idle /\ t_res th' = RErr :: t_res th.

Theorem null_released_error : null_released_error_stmt.
Proof.
  unfold null_released_error_stmt, step. intros fixed g t th recv abn c cl g' Hth Hpc Hc Hh Hs.
  rewrite Hth, Hpc, Hc in Hs.
  destruct (c_mu cl) eqn:Hmu; [discriminate|].
  inversion Hs; subst g'; clear Hs.
  unfold clock_step. rewrite Hh. unfold finish; simpl.
  repeat split.
  eexists. split. { rewrite nth_error_upd_eq, Hth. reflexivity. } simpl. auto.
Qed.

(* a released client has no hook once Release has returned, so the statement applies to it:
   in every reachable configuration a client that is released and whose mutex is free has
   c_h = None unless its Release is still walking (then the mutex is held) *)
Definition released_has_no_hook_stmt : Prop :=
  forall progs g c cl, reachable true (init progs) g -> misuse g = false ->
  get_client g c = Some cl -> c_h cl = None -> c_tgt cl = None.

Theorem released_has_no_hook : released_has_no_hook_stmt.
Proof.
  intros progs g c cl R Hm Hc Hh. pose proof (reachable_inv progs g R Hm) as I.
  pose proof (inv_client g (invC g I) _ _ Hc) as O. unfold client_ok in O. rewrite Hh in O. auto.
Qed.

(* ---------------------------------------------------------------- no_stuck (partial) *)
Lemma sumf_pos_ex : forall A (f : A -> Z) l, (forall x, 0 <= f x) -> 0 < sumf f l ->
  exists i x, nth_error l i = Some x /\ 0 < f x.
Proof.
  induction l as [|a l IH]; intros Hn Hs; simpl in Hs. lia.
  destruct (Z_lt_le_dec 0 (f a)).
  - exists O, a. auto.
  - pose proof (Hn a). destruct IH as (i & x & P1 & P2); auto. lia. exists (S i), x. auto.
Qed.

Lemma hook_of_lt : forall g h, (h < length (hooks g))%nat -> exists hk, get_hook g h = Some hk.
Proof. intros. unfold get_hook. destruct (nth_error (hooks g) h) eqn:E; eauto. apply nth_error_None in E. lia. Qed.

Lemma client_of_lt : forall g c, (c < length (clients g))%nat -> exists cl, get_client g c = Some cl.
Proof. intros. unfold get_client. destruct (nth_error (clients g) c) eqn:E; eauto. apply nth_error_None in E. lia. Qed.

Section NOSTUCK.
Variable g : config.
Hypothesis I : Inv g.
Hypothesis W : ids_ok g.
Hypothesis NF : forall t p n c cur, ~ pc_of g t (FWalk p n c cur).

Lemma hook_free : forall h hk, get_hook g h = Some hk -> h_mu hk = None.
Proof.
  intros h hk Hx. destruct (h_mu hk) as [t|] eqn:E; auto. exfalso.
  destruct (inv_hook g (invH g I) h hk Hx) as [_ O2 _ _ _ _ _].
  destruct (O2 t E) as (n & c & cur & P). eapply NF; eauto.
Qed.

(* a thread about to lock a hook mutex is enabled *)
Lemma en_hook_pc : forall t th, nth_error (threads g) t = Some th ->
  (match t_pc th with CWalk _ _ _ | WWalk _ _ _ | CallFin _ _ | FMark _ _ _ | InCall _ _ => True | _ => False end) ->
  exists g', step true g t = Some g'.
Proof.
  intros t th Hth Hk. pose proof (W t th Hth) as Wt. unfold step. rewrite Hth.
  destruct (t_pc th) eqn:Hpc; try contradiction.
  - destruct (hook_of_lt g cur Wt) as (hk & Hx). rewrite Hx, (hook_free _ _ Hx).
    destruct (forwarded cur hk); [destruct (h_rh hk)|]; eauto.
  - destruct (hook_of_lt g cur Wt) as (hk & Hx). rewrite Hx, (hook_free _ _ Hx).
    destruct (forwarded cur hk); [destruct (h_rh hk)|]; eauto.
    cbn [hooks set_weaks]. destruct (h_refs hk =? 0); eauto.
  - eauto.
  - destruct (hook_of_lt g h Wt) as (hk & Hx). rewrite Hx, (hook_free _ _ Hx).
    destruct (inv_hook g (invH g I) h hk Hx) as [O1 O2 O3 O4 O5 O6 O7].
    assert (C1 : 1 <= h_calls hk).
    { rewrite O3. unfold callers. pose proof (sumf_one _ (wcall h) (threads g) t th (wcall_nonneg h) Hth) as S.
      unfold wcall in S at 1. rewrite Hpc, Nat.eqb_refl in S. lia. }
    assert (Hd : h_done hk = false).
    { rewrite O4. destruct (h_calls hk =? 0) eqn:E. lia. apply andb_false_r. }
    cbn [h_refs h_calls hk_calls]. destruct ((h_refs hk =? 0) && (h_calls hk - 1 =? 0)); eauto.
    unfold close_done. cbn [h_done hk_calls]. rewrite Hd. eauto.
  - destruct (hook_of_lt g p Wt) as (hk & Hx). rewrite Hx, (hook_free _ _ Hx).
    destruct (h_resolved hk) eqn:Hr; eauto.
Qed.

(* a thread about to lock a client mutex is enabled, or the holder is *)
Lemma en_client_pc : forall t th c, nth_error (threads g) t = Some th ->
  ((exists k, t_pc th = CLock k c) \/ (exists p, t_pc th = FLock p c)) ->
  exists t' g', step true g t' = Some g'.
Proof.
  intros t th c Hth Hk. pose proof (W t th Hth) as Wt.
  assert (Hc : (c < length (clients g))%nat) by (destruct Hk as [(k & E)|(p & E)]; rewrite E in Wt; auto).
  destruct (client_of_lt g c Hc) as (cl & Hcl).
  destruct (c_mu cl) as [t'|] eqn:Hmu.
  - destruct (inv_cmu g (invC g I) c cl t' Hcl Hmu) as (k & cur & (th' & Hth' & Hpc')).
    exists t'. eapply en_hook_pc; eauto. rewrite Hpc'. auto.
  - exists t. unfold step. rewrite Hth. destruct Hk as [(k & E)|(p & E)]; rewrite E, Hcl, Hmu; eauto.
    destruct (c_released cl); eauto.
Qed.

Lemma en_waitdone : forall t th h, nth_error (threads g) t = Some th -> t_pc th = WaitDone h ->
  exists t' g', step true g t' = Some g'.
Proof.
  intros t th h Hth Hpc. pose proof (W t th Hth) as Wt. rewrite Hpc in Wt.
  destruct (hook_of_lt g h Wt) as (hk & Hx).
  destruct (h_done hk) eqn:Hd.
  - exists t. unfold step. rewrite Hth, Hpc, Hx, Hd. eauto.
  - destruct (inv_hook g (invH g I) h hk Hx) as [O1 O2 O3 O4 O5 O6 O7].
    (* refs = 0 because a closer exists; so a call is still in progress *)
    pose proof (sumf_one _ (wclose h) (threads g) t th (wclose_nonneg h) Hth) as S.
    unfold wclose in S at 1. rewrite Hpc, Nat.eqb_refl in S. fold (closers g h) in S.
    assert (R0 : h_refs hk = 0).
    { destruct (h_refs hk =? 0) eqn:E. apply Z.eqb_eq in E; auto. lia. }
    rewrite R0 in O4. change (0 =? 0) with true in O4. rewrite Hd in O4. simpl in O4.
    assert (0 < callers g h).
    { assert (0 <= callers g h) by (apply sumf_nonneg; apply wcall_nonneg).
      destruct (Z.eq_dec (callers g h) 0); [|lia]. rewrite O3, e in O4. discriminate. }
    destruct (sumf_pos_ex _ (wcall h) (threads g) (wcall_nonneg h) H) as (t' & th' & Hth' & Hw).
    exists t'. eapply en_hook_pc; eauto. unfold wcall in Hw. destruct (t_pc th'); auto; lia.
Qed.

Lemma no_stuck_here : (exists th, In th (threads g) /\ unfinished th = true) ->
  exists t g', step true g t = Some g'.
Proof.
  intros (th & Hin & Hu). apply In_nth_error in Hin. destruct Hin as (t & Hth).
  destruct (t_pc th) eqn:Hpc.
  - unfold unfinished in Hu. rewrite Hpc in Hu. destruct (t_prog th) as [|o rest] eqn:Hprog; [discriminate|].
    exists t. unfold step. rewrite Hth, Hpc, Hprog. eauto.
  - eapply en_client_pc; eauto.
  - exists t. eapply en_hook_pc; eauto. rewrite Hpc; auto.
  - exists t. eapply en_hook_pc; eauto. rewrite Hpc; auto.
  - exists t. eapply en_hook_pc; eauto. rewrite Hpc; auto.
  - exists t. eapply en_hook_pc; eauto. rewrite Hpc; auto.
  - eapply en_waitdone; eauto.
  - eapply en_client_pc; eauto.
  - exists t. eapply en_hook_pc; eauto. rewrite Hpc; auto.
  - exfalso. eapply NF. exists th. eauto.
Qed.
End NOSTUCK.

Theorem no_stuck_partial : no_stuck_partial_stmt.
Proof.
  intros progs g R Hm W NF Hu. eapply no_stuck_here; eauto. eapply reachable_inv; eauto.
Qed.
