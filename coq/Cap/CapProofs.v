From Coq Require Import ZArith List Bool Arith Lia.
From CV Require Import Cap.Cap.
Import ListNotations.
Open Scope Z_scope.

(* A call (SendCall/RecvCall) made by thread t through client c, at the moment it has
   acquired c.mu: if c has no hook (nil, released, or resolved to null) the op completes at
   once with the error result, no event is emitted and no hook changes. *)
Definition null_released_error_stmt : Prop :=
  forall fixed g t th recv c cl g',
    nth_error (threads g) t = Some th -> t_pc th = CLock (KCall recv) c ->
    get_client g c = Some cl -> c_h cl = None ->
    step fixed g t = Some g' ->
    events g' = events g /\ hooks g' = hooks g /\
    exists th', nth_error (threads g') t = Some th' /\ t_pc th' = Idle /\ t_res th' = RErr :: t_res th.

Lemma nth_error_upd_same : forall A (l : list A) n f x,
  nth_error l n = Some x -> nth_error (upd n f l) n = Some (f x).
Proof.
  induction l as [|a l IH]; intros [|n] f x H; simpl in *; try discriminate.
  - inversion H; reflexivity.
  - apply IH; assumption.
Qed.

Lemma null_released_error : null_released_error_stmt.
Proof.
  unfold null_released_error_stmt, step. intros fixed g t th recv c cl g' Hth Hpc Hc Hh Hs.
  rewrite Hth, Hpc, Hc in Hs.
  destruct (c_mu cl) eqn:Hmu; [discriminate|].
  inversion Hs; subst g'; clear Hs.
  unfold clock_step. rewrite Hh. unfold finish; simpl.
  repeat split.
  eexists. split. { apply nth_error_upd_same. exact Hth. } simpl. auto.
Qed.
