(* CapLinks.v — how a step changes the resolution graph: only Fulfill's marking step adds an
   edge (from a hook that had none), every other step leaves all links as they are. *)
From Coq Require Import ZArith List Bool Arith Lia.
From CV Require Import Cap.Cap Cap.CapInv Cap.CapLemmas Cap.CapStep Cap.CapWf.
Import ListNotations.
Open Scope nat_scope.

Definition link (hk : hook) : bool * option nat := (h_resolved hk, h_rh hk).

(* hook a keeps its link fields, or is new and not forwarding *)
Definition links_same (g g' : config) : Prop :=
  forall a, option_map link (get_hook g' a) = option_map link (get_hook g a) \/
            (get_hook g a = None /\ exists hk', get_hook g' a = Some hk' /\ forwarded a hk' = false).

Lemma forwarded_link : forall a hk hk', link hk' = link hk -> forwarded a hk' = forwarded a hk /\ h_rh hk' = h_rh hk.
Proof. unfold link, forwarded. intros a hk hk' H. inversion H. rewrite H1, H2. auto. Qed.

Lemma links_same_fwd : forall g g' a b, links_same g g' -> (fwd g' a b <-> fwd g a b).
Proof.
  intros g g' a b L. destruct (L a) as [E|(N & hk' & A & B)].
  - split; intros (hk & A & B & C).
    + rewrite A in E. simpl in E. destruct (get_hook g a) as [hk0|] eqn:E0; simpl in E; [|discriminate].
      inversion E. destruct (forwarded_link a hk0 hk) as (F1 & F2).
      { unfold link. congruence. }
      exists hk0. repeat split; congruence.
    + rewrite A in E. simpl in E. destruct (get_hook g' a) as [hk0|] eqn:E0; simpl in E; [|discriminate].
      inversion E. destruct (forwarded_link a hk hk0) as (F1 & F2).
      { unfold link. congruence. }
      exists hk0. repeat split; congruence.
  - split; intros (hk & A' & B' & C').
    + congruence.
    + congruence.
Qed.

Lemma links_same_le : forall g g', links_same g g' -> links_le g g'.
Proof.
  intros g g' L a hk A B. destruct (L a) as [E|(N & _)]; [|congruence].
  rewrite A in E. simpl in E. destruct (get_hook g' a) as [hk0|] eqn:E0; simpl in E; [|discriminate].
  inversion E. destruct (forwarded_link a hk hk0) as (F1 & F2). { unfold link; congruence. }
  exists hk0. repeat split; congruence.
Qed.

Lemma links_same_reach : forall g g' a b, links_same g g' -> (reach g' a b <-> reach g a b).
Proof.
  intros g g' a b L. split; induction 1; try constructor.
  - eapply reach_left; eauto. apply (links_same_fwd g g' a m L); auto.
  - eapply reach_left; eauto. apply (links_same_fwd g g' a m L); auto.
Qed.

Ltac ls_tac :=
  let a := fresh "a" in intros a; unfold get_hook in *; norm_cfg;
  repeat rewrite nth_error_upd; repeat rewrite nth_error_app_new;
  repeat match goal with
  | |- context[Nat.eqb ?x ?y] => let E := fresh "E" in destruct (Nat.eqb x y) eqn:E;
        [apply Nat.eqb_eq in E; subst|]
  end;
  first [ left; reflexivity
        | left; match goal with H : nth_error (hooks _) ?x = Some _ |- _ => rewrite H; reflexivity end
        | left; match goal with H : nth_error (hooks _) ?x = Some _ |- _ => rewrite !H; reflexivity end
        | left; rewrite ?nth_error_upd; repeat match goal with
                | H : nth_error (hooks _) ?x = Some _ |- _ => rewrite !H
                | |- context[Nat.eqb ?x ?y] => destruct (Nat.eqb x y)
                | |- context[nth_error (hooks ?g) ?x] => destruct (nth_error (hooks g) x)
                end; reflexivity
        | right; split; [apply nth_error_ge_none; lia | eexists; split; [reflexivity|];
                         unfold forwarded; cbn [h_resolved h_rh]; rewrite ?oeqb_refl; reflexivity] ].

Ltac leaves_core Hs :=
  destr_in Hs; inversion Hs; subst; clear Hs;
  unfold begin_op, clock_step, cwalk_nil, cwalk_end, same_second, fmark_body, close_done in *; destr_goal;
  inv_some; norm_cfg; fold get_hook get_client in *.

(* every step except Fulfill's marking of an unresolved promise *)
Lemma step_links_plain : forall fixed g t g' th,
  step fixed g t = Some g' -> nth_error (threads g) t = Some th ->
  (forall p rh c hk, t_pc th = FMark p rh c -> get_hook g p = Some hk -> h_resolved hk = true) ->
  links_same g g'.
Proof.
  intros fixed g t g' th Hs Hth Hnf. unfold step in Hs. rewrite Hth in Hs.
  leaves_core Hs.
  all: try solve [exfalso;
    match goal with
    | Hg : get_hook _ ?p = Some ?hk, Hr : h_resolved ?hk = false |- _ =>
        rewrite (Hnf _ _ _ hk eq_refl Hg) in Hr; discriminate
    end].
  all: try solve [ls_tac].
Qed.

(* Fulfill's marking step: hook p (unresolved, hence without an outgoing edge) becomes resolved
   to rh; no other hook changes; and unless the step is flagged as misuse, rh does not lead
   back to p *)
Lemma step_links_fmark : forall fixed g t g' th p rh c hk,
  step fixed g t = Some g' -> nth_error (threads g) t = Some th -> t_pc th = FMark p rh c ->
  get_hook g p = Some hk -> h_resolved hk = false ->
  (forall a, a <> p -> get_hook g' a = get_hook g a) /\
  (exists hk', get_hook g' p = Some hk' /\ h_resolved hk' = true /\ h_rh hk' = rh) /\
  (misuse g' = false -> resolves_to_cycle g rh p = false) /\
  length (hooks g') = length (hooks g).
Proof.
  intros fixed g t g' th p rh c hk Hs Hth Hpc Hp Hr. unfold step in Hs.
  rewrite Hth, Hpc, Hp in Hs. destruct (h_mu hk); [discriminate|]. rewrite Hr in Hs.
  inversion Hs; subst g'; clear Hs.
  split; [|split; [|split]].
  - intros a Hne. unfold fmark_body, close_done. destr_goal; unfold get_hook; norm_cfg;
    rewrite ?nth_error_upd_neq; auto.
  - unfold fmark_body, close_done. destr_goal; inv_some; unfold get_hook in *; norm_cfg;
    rewrite nth_error_upd_eq, Hp; cbn; eexists; split; try reflexivity; split; reflexivity.
  - intros Hm. destruct (resolves_to_cycle g rh p) eqn:E; auto.
    rewrite fmark_body_misuse in Hm. discriminate. reflexivity.
  - unfold fmark_body, close_done. destr_goal; norm_cfg; rewrite ?length_upd; destruct (resolves_to_cycle g rh p); reflexivity.
Qed.
