(* CapLive.v — acyclicity of the resolution graph, deadlock freedom (no_stuck) and termination
   for the interleaving model (variant fixed = true). *)
From Coq Require Import ZArith List Bool Arith Lia.
From CV Require Import Cap.Cap Cap.CapInv Cap.CapLemmas Cap.CapStep Cap.CapCases Cap.CapWf Cap.CapLinks Cap.CapProofs.
Import ListNotations.
Open Scope nat_scope.

(* ---------------------------------------------------------------- the cycle check is sound *)
Lemma chain_hits_sound : forall g fuel r p, reach g r p -> chain_hits (hooks g) fuel r p = true.
Proof.
  intros g fuel. induction fuel as [|f IH]; intros r p R; simpl.
  - destruct (Nat.eqb r p); reflexivity.
  - destruct (Nat.eqb r p) eqn:E; auto. apply Nat.eqb_neq in E.
    inversion R; subst; [congruence|]. destruct H as (hk & A & B & C).
    unfold get_hook in A. rewrite A, B, C. apply IH. auto.
Qed.

(* ---------------------------------------------------------------- acyclicity as a rank *)
Definition ranked (g : config) (rank : nat -> nat) : Prop := forall a b, fwd g a b -> rank b < rank a.
Definition Acyc (g : config) : Prop := exists rank, ranked g rank.

Lemma ranked_reach : forall g rank a b, ranked g rank -> reach g a b -> rank b <= rank a.
Proof. intros g rank a b R. induction 1. lia. pose proof (R _ _ H). lia. Qed.

Lemma ranked_path1 : forall g rank a b, ranked g rank -> path1 g a b -> rank b < rank a.
Proof. intros g rank a b R (r & A & B). pose proof (R _ _ A). pose proof (ranked_reach g rank r b R B). lia. Qed.

(* bounded search along the chain; complete with fuel > rank *)
Fixpoint reachb (hs : list hook) (fuel : nat) (x p : nat) : bool :=
  match fuel with
  | O => false
  | S f => if Nat.eqb x p then true else
           match nth_error hs x with
           | Some hk => if forwarded x hk then
                          match h_rh hk with Some y => reachb hs f y p | None => false end
                        else false
           | None => false
           end
  end.

Lemma reachb_sound : forall g fuel x p, reachb (hooks g) fuel x p = true -> reach g x p.
Proof.
  intros g fuel. induction fuel as [|f IH]; intros x p H; simpl in H. discriminate.
  destruct (Nat.eqb x p) eqn:E. apply Nat.eqb_eq in E; subst. constructor.
  destruct (nth_error (hooks g) x) as [hk|] eqn:A; [|discriminate].
  destruct (forwarded x hk) eqn:B; [|discriminate]. destruct (h_rh hk) as [y|] eqn:C; [|discriminate].
  eapply reach_left; eauto. exists hk. auto.
Qed.

Lemma reachb_complete : forall g rank, ranked g rank -> forall x p, reach g x p ->
  forall fuel, rank x < fuel -> reachb (hooks g) fuel x p = true.
Proof.
  intros g rank R x p H. induction H; intros fuel Hf.
  - destruct fuel; [lia|]. simpl. rewrite Nat.eqb_refl. auto.
  - destruct fuel; [lia|]. simpl. destruct (Nat.eqb a b); auto.
    pose proof (R _ _ H) as Hr. destruct H as (hk & A & B & C). unfold get_hook in A. rewrite A, B, C.
    apply IHreach. lia.
Qed.

Lemma reach_dec : forall g rank, ranked g rank -> forall x p, {reach g x p} + {~ reach g x p}.
Proof.
  intros g rank R x p. destruct (reachb (hooks g) (S (rank x)) x p) eqn:E.
  - left. eapply reachb_sound; eauto.
  - right. intros H. rewrite (reachb_complete g rank R x p H) in E. discriminate. lia.
Qed.

Lemma acyc_init : forall progs, Acyc (init progs).
Proof. intros. exists (fun _ => 0). intros a b (hk & A & _). unfold get_hook, init in A. cbn in A. destruct a; discriminate. Qed.

Lemma acyc_step : forall g t g', Acyc g -> step true g t = Some g' -> misuse g' = false -> Acyc g'.
Proof.
  intros g t g' (rank & R) Hs Hm.
  destruct (nth_error (threads g) t) as [th|] eqn:Hth; [|unfold step in Hs; rewrite Hth in Hs; discriminate].
  assert (Plain : (forall p rh c hk, t_pc th = FMark p rh c -> get_hook g p = Some hk -> h_resolved hk = true) -> Acyc g').
  { intros Hnf. exists rank. intros a b F. apply R.
    apply (links_same_fwd g g' a b (step_links_plain true g t g' th Hs Hth Hnf)). auto. }
  destruct (t_pc th) eqn:Hpc; try (apply Plain; intros; discriminate).
  destruct (get_hook g p) as [hk|] eqn:Hp.
  2: { apply Plain. intros p0 rh0 c0 hk0 E A. inversion E; subst. congruence. }
  destruct (h_resolved hk) eqn:Hr.
  { apply Plain. intros p0 rh0 c0 hk0 E A. inversion E; subst. congruence. }
  destruct (step_links_fmark true g t g' th p rh c hk Hs Hth Hpc Hp Hr) as (Hoth & (hk' & Hp' & Hr' & Hrh') & Hcyc & _).
  specialize (Hcyc Hm).
  (* edges of g': the old ones, plus p -> r when rh = Some r *)
  assert (Hnew : forall a b, fwd g' a b -> fwd g a b \/ (a = p /\ rh = Some b)).
  { intros a b (ha & A & B & C). destruct (Nat.eq_dec a p) as [->|Hne].
    - right. split; auto. rewrite Hp' in A. inversion A; subst. congruence.
    - left. exists ha. rewrite <- Hoth; auto. }
  assert (Hnoout : forall b, ~ fwd g p b).
  { intros b (ha & A & B & C). assert (ha = hk) by congruence. subst. unfold forwarded in B. rewrite Hr in B. discriminate. }
  destruct rh as [r|].
  - assert (Hnr : ~ reach g r p).
    { intros H. unfold resolves_to_cycle in Hcyc. rewrite (chain_hits_sound g _ r p H) in Hcyc. discriminate. }
    exists (fun x => if reach_dec g rank R x p then rank x + rank r + 1 else rank x).
    intros a b F. destruct (Hnew a b F) as [Fo|(-> & E)].
    + pose proof (R _ _ Fo) as Hlt.
      destruct (reach_dec g rank R b p) as [Rb|Rb]; destruct (reach_dec g rank R a p) as [Ra|Ra]; try lia.
      exfalso. apply Ra. eapply reach_left; eauto.
    + inversion E; subst b.
      destruct (reach_dec g rank R r p) as [Rb|Rb]; [contradiction|].
      destruct (reach_dec g rank R p p) as [Ra|Ra]; [lia|]. exfalso. apply Ra. constructor.
  - exists rank. intros a b F. destruct (Hnew a b F) as [Fo|(_ & E)]; [auto|discriminate].
Qed.

Theorem reachable_acyc : forall progs g, reachable true (init progs) g -> misuse g = false -> Acyc g.
Proof.
  intros progs g R. induction R; intros Hm. apply acyc_init.
  eapply acyc_step; eauto. apply IHR.
  destruct (misuse g) eqn:E; auto. rewrite (misuse_mono _ _ _ _ H E) in Hm. discriminate.
Qed.

(* ---------------------------------------------------------------- deadlock freedom *)
Definition wanted (p : pc) : option nat :=
  match p with
  | CWalk _ _ cur | WWalk _ _ cur | FWalk _ _ _ cur => Some cur
  | CallFin h _ => Some h
  | FMark p _ _ => Some p
  | _ => None
  end.

Section NOSTUCK.
Variable g : config.
Hypothesis I : Inv g.
Hypothesis W : WF g.
Variable rank : nat -> nat.
Hypothesis R : ranked g rank.

Lemma pcwf : forall t th, nth_error (threads g) t = Some th ->
  pc_wf (length (hooks g)) (length (clients g)) (t_pc th).
Proof. intros. eapply sat_thread; eauto. Qed.

(* a thread whose next step locks a free hook mutex is enabled *)
Lemma en_free : forall t th x hk, nth_error (threads g) t = Some th -> wanted (t_pc th) = Some x ->
  get_hook g x = Some hk -> h_mu hk = None -> exists g', step true g t = Some g'.
Proof.
  intros t th x hk Hth Hw Hx Hmu. unfold step. rewrite Hth.
  destruct (t_pc th) eqn:Hpc; simpl in Hw; inversion Hw; subst; rewrite Hx, Hmu.
  - destruct (forwarded x hk); [destruct (h_rh hk)|]; eauto.
  - destruct (forwarded x hk); [destruct (h_rh hk)|]; eauto.
    cbn [hooks set_weaks]. destruct (h_refs hk =? 0)%Z; eauto.
  - destruct (inv_hook g (invH g I) x hk Hx) as [O1 O2 O3 O4 O5 O6 O7].
    assert (C1 : (1 <= h_calls hk)%Z).
    { rewrite O3. unfold callers. pose proof (sumf_one _ (wcall x) (threads g) t th (wcall_nonneg x) Hth) as S.
      unfold wcall in S at 1. rewrite Hpc, Nat.eqb_refl in S. lia. }
    assert (Hd : h_done hk = false).
    { rewrite O4. destruct (h_calls hk =? 0)%Z eqn:E. lia. apply andb_false_r. }
    cbn [h_refs h_calls hk_calls]. destruct ((h_refs hk =? 0)%Z && (h_calls hk - 1 =? 0)%Z); eauto.
    unfold close_done. cbn [h_done hk_calls]. rewrite Hd. eauto.
  - destruct (h_resolved hk); eauto.
  - destruct (forwarded x hk); [destruct (h_rh hk)|]; eauto.
Qed.

(* a Fulfill in its transfer walk: either its next hook is free, or the holder is another
   such walk strictly further down the (acyclic) resolution graph *)
Lemma flight_enabled : forall n t th p k c cur, rank cur < n ->
  nth_error (threads g) t = Some th -> t_pc th = FWalk p k c cur ->
  exists t' g', step true g t' = Some g'.
Proof.
  induction n as [|n IH]; intros t th p k c cur Hn Hth Hpc. lia.
  pose proof (pcwf t th Hth) as Wt. rewrite Hpc in Wt. simpl in Wt. destruct Wt as (Wc & _).
  destruct (hook_of_lt g cur Wc) as (hk & Hx).
  destruct (h_mu hk) as [u|] eqn:Hmu.
  - destruct (inv_hook g (invH g I) cur hk Hx) as [_ O2 _ _ _ _ _].
    destruct (O2 u Hmu) as (n' & c' & cur' & (thu & Hthu & Hpcu)).
    destruct (inv_flight g (invF g I) u cur n' c' cur' (ex_intro _ thu (conj Hthu Hpcu)))
      as (hp & _ & _ & _ & _ & _ & _ & P1 & _).
    pose proof (ranked_path1 g rank cur cur' R P1).
    eapply (IH u thu cur n' c' cur'); eauto. lia.
  - exists t. eapply en_free; eauto. rewrite Hpc. reflexivity.
Qed.

Lemma en_wanted : forall t th x, nth_error (threads g) t = Some th -> wanted (t_pc th) = Some x ->
  exists t' g', step true g t' = Some g'.
Proof.
  intros t th x Hth Hw. pose proof (pcwf t th Hth) as Wt.
  assert (Hlt : x < length (hooks g)).
  { destruct (t_pc th); simpl in Hw, Wt; inversion Hw; subst; tauto. }
  destruct (hook_of_lt g x Hlt) as (hk & Hx).
  destruct (h_mu hk) as [u|] eqn:Hmu.
  - destruct (inv_hook g (invH g I) x hk Hx) as [_ O2 _ _ _ _ _].
    destruct (O2 u Hmu) as (n' & c' & cur' & (thu & Hthu & Hpcu)).
    eapply (flight_enabled (S (rank cur')) u thu x n' c' cur'); eauto.
  - exists t. eapply en_free; eauto.
Qed.

Lemma en_client : forall t th c, nth_error (threads g) t = Some th ->
  ((exists k, t_pc th = CLock k c) \/ (exists p, t_pc th = FLock p c)) ->
  exists t' g', step true g t' = Some g'.
Proof.
  intros t th c Hth Hk. pose proof (pcwf t th Hth) as Wt.
  assert (Hc : c < length (clients g)) by (destruct Hk as [(k & E)|(p & E)]; rewrite E in Wt; simpl in Wt; tauto).
  destruct (client_of_lt g c Hc) as (cl & Hcl).
  destruct (c_mu cl) as [t'|] eqn:Hmu.
  - destruct (inv_cmu g (invC g I) c cl t' Hcl Hmu) as (k & cur & (th' & Hth' & Hpc')).
    eapply (en_wanted t' th' cur); eauto. rewrite Hpc'. reflexivity.
  - exists t. unfold step. rewrite Hth. destruct Hk as [(k & E)|(p & E)]; rewrite E, Hcl, Hmu; eauto.
    destruct (c_released cl); eauto.
Qed.

Lemma en_waitdone' : forall t th h, nth_error (threads g) t = Some th -> t_pc th = WaitDone h ->
  exists t' g', step true g t' = Some g'.
Proof.
  intros t th h Hth Hpc. pose proof (pcwf t th Hth) as Wt. rewrite Hpc in Wt. simpl in Wt.
  destruct (hook_of_lt g h Wt) as (hk & Hx).
  destruct (h_done hk) eqn:Hd.
  - exists t. unfold step. rewrite Hth, Hpc, Hx, Hd. eauto.
  - destruct (inv_hook g (invH g I) h hk Hx) as [O1 O2 O3 O4 O5 O6 O7].
    pose proof (sumf_one _ (wclose h) (threads g) t th (wclose_nonneg h) Hth) as S.
    unfold wclose in S at 1. rewrite Hpc, Nat.eqb_refl in S. fold (closers g h) in S.
    assert (R0 : h_refs hk = 0%Z).
    { destruct (h_refs hk =? 0)%Z eqn:E. apply Z.eqb_eq in E; auto. lia. }
    rewrite R0 in O4. change (0 =? 0)%Z with true in O4. rewrite Hd in O4. simpl in O4.
    assert (0 < callers g h)%Z.
    { assert (0 <= callers g h)%Z by (apply sumf_nonneg; apply wcall_nonneg).
      destruct (Z.eq_dec (callers g h) 0); [|lia]. rewrite O3, e in O4. discriminate. }
    destruct (sumf_pos_ex _ (wcall h) (threads g) (wcall_nonneg h) H) as (t' & th' & Hth' & Hw).
    unfold wcall in Hw. destruct (t_pc th') eqn:Hpc'; try lia.
    + exists t'. unfold step. rewrite Hth', Hpc'. eauto.
    + destruct (Nat.eqb h0 h) eqn:E; [|lia]. eapply (en_wanted t' th' h0); eauto. rewrite Hpc'. reflexivity.
Qed.

Lemma no_stuck_cfg : (exists th, In th (threads g) /\ unfinished th = true) ->
  exists t g', step true g t = Some g'.
Proof.
  intros (th & Hin & Hu). apply In_nth_error in Hin. destruct Hin as (t & Hth).
  destruct (t_pc th) eqn:Hpc.
  - unfold unfinished in Hu. rewrite Hpc in Hu. destruct (t_prog th) as [|o rest] eqn:Hprog; [discriminate|].
    exists t. unfold step. rewrite Hth, Hpc, Hprog. eauto.
  - eapply en_client; eauto.
  - eapply (en_wanted t th cur); eauto. rewrite Hpc; reflexivity.
  - eapply (en_wanted t th cur); eauto. rewrite Hpc; reflexivity.
  - exists t. unfold step. rewrite Hth, Hpc. eauto.
  - eapply (en_wanted t th h); eauto. rewrite Hpc; reflexivity.
  - eapply en_waitdone'; eauto.
  - eapply en_client; eauto.
  - eapply (en_wanted t th p); eauto. rewrite Hpc; reflexivity.
  - eapply (en_wanted t th cur); eauto. rewrite Hpc; reflexivity.
Qed.
End NOSTUCK.

(* no_stuck: every reachable configuration of a contract-respecting execution in which some
   thread has not finished has an enabled step (that of a thread inside a call-out being the
   application's return) *)
Theorem no_stuck : no_stuck_stmt.
Proof.
  intros progs g R Hm Hu.
  destruct (reachable_acyc progs g R Hm) as (rank & Rk).
  eapply (no_stuck_cfg g (reachable_inv progs g R Hm) (reachable_wf true progs g R) rank Rk); eauto.
Qed.

(* ---------------------------------------------------------------- calls through dead clients *)
Open Scope Z_scope.

(* in every reachable contract-respecting configuration a released client whose mutex is free
   (its Release is not in the middle of its walk) has no hook *)
Definition released_no_hook_stmt : Prop :=
  forall progs g c cl, reachable true (init progs) g -> misuse g = false ->
  get_client g c = Some cl -> c_released cl = true -> c_mu cl = None -> c_h cl = None.

Theorem released_no_hook : released_no_hook_stmt.
Proof. intros progs g c cl R Hm Hc Hr Hmu. apply (inv_rel g (invC g (reachable_inv progs g R Hm)) c cl Hc Hr Hmu). Qed.

(* what "the call ends with an error and never reaches a capability" means for one step *)
Definition ends_with_error (g g' : config) (t : nat) (th : thread) : Prop :=
  events g' = events g /\ hooks g' = hooks g /\
  exists th', nth_error (threads g') t = Some th' /\ t_pc th' = Idle /\ t_res th' = RErr :: t_res th.

(* the three ways a call can go through a dead client, over all histories:
   (nil)      SendCall/RecvCall on a nil *Client (empty variable): ends at once with the error;
   (released) on a released client, in any reachable contract-respecting configuration, as soon
              as the call gets the client's mutex: ends at once with the error;
   (null)     on a client whose resolution chain ends in a promise resolved to nil: the walk
              step that finds the nil ends the call with the error.
   In all three no event is emitted and no hook is touched by that step. *)
Definition dead_client_calls_stmt : Prop :=
  (forall fixed g t th src recv abn rest g',
     nth_error (threads g) t = Some th -> t_pc th = Idle -> t_prog th = OCall src recv abn :: rest ->
     lookup src (cslots g) = None -> step fixed g t = Some g' -> ends_with_error g g' t th) /\
  (forall progs g t th recv abn c cl g',
     reachable true (init progs) g -> misuse g = false ->
     nth_error (threads g) t = Some th -> t_pc th = CLock (KCall recv abn) c ->
     get_client g c = Some cl -> c_released cl = true ->
     step true g t = Some g' -> ends_with_error g g' t th) /\
  (forall fixed g t th recv abn c cur hk g',
     nth_error (threads g) t = Some th -> t_pc th = CWalk (KCall recv abn) c cur ->
     get_hook g cur = Some hk -> forwarded cur hk = true -> h_rh hk = None ->
     step fixed g t = Some g' -> ends_with_error g g' t th).

Theorem dead_client_calls : dead_client_calls_stmt.
Proof.
  split; [|split].
  - intros fixed g t th src recv abn rest g' Hth Hpc Hprog Hl Hs. unfold step in Hs.
    rewrite Hth, Hpc, Hprog in Hs. inversion Hs; subst g'; clear Hs.
    unfold begin_op. cbn [cslots set_threads]. rewrite Hl. unfold ends_with_error, finish. cbn.
    repeat split. eexists. split. { rewrite upd_upd, nth_error_upd_eq, Hth. reflexivity. } cbn. auto.
  - intros progs g t th recv abn c cl g' R Hm Hth Hpc Hc Hr Hs.
    assert (Hmu : c_mu cl = None).
    { unfold step in Hs. rewrite Hth, Hpc, Hc in Hs. destruct (c_mu cl); [discriminate|reflexivity]. }
    pose proof (released_no_hook progs g c cl R Hm Hc Hr Hmu) as Hh.
    apply (null_released_error true g t th recv abn c cl g' Hth Hpc Hc Hh Hs).
  - intros fixed g t th recv abn c cur hk g' Hth Hpc Hx Hf Hr Hs. unfold step in Hs.
    rewrite Hth, Hpc, Hx in Hs. destruct (h_mu hk); [discriminate|]. rewrite Hf, Hr in Hs.
    inversion Hs; subst g'; clear Hs. unfold ends_with_error, cwalk_nil, finish. cbn.
    repeat split. eexists. split. { rewrite nth_error_upd_eq, Hth. reflexivity. } cbn. auto.
Qed.

(* ---------------------------------------------------------------- no call after Shutdown *)
Lemma cons_neq : forall A (x : A) l, l = x :: l -> False.
Proof. intros A x l H. apply (f_equal (@length A)) in H. simpl in H. lia. Qed.

(* a call is delivered (event Send/Recv on hook h) only to a live hook: at that step the hook
   holds at least one reference, has never been shut down, and its done channel is open *)
Definition call_delivered_live_stmt : Prop :=
  forall progs g t g' e h, reachable true (init progs) g -> misuse g = false ->
  step true g t = Some g' -> events g' = e :: events g -> (e = EvSend h \/ e = EvRecv h) ->
  exists hk, get_hook g h = Some hk /\ 1 <= h_refs hk /\ h_shut hk = 0 /\ h_done hk = false.

Theorem call_delivered_live : call_delivered_live_stmt.
Proof.
  intros progs g t g' e h R Hm Hs Hev He. pose proof (reachable_inv progs g R Hm) as I.
  destruct (nth_error (threads g) t) as [th|] eqn:Hth; [|unfold step in Hs; rewrite Hth in Hs; discriminate].
  unfold step in Hs. rewrite Hth in Hs.
  destruct (t_pc th) eqn:Hpc.
  3: { (* CWalk *)
    destruct (get_hook g cur) as [hk|] eqn:Hx; [|discriminate].
    destruct (h_mu hk) eqn:Hmu; [discriminate|].
    destruct (forwarded cur hk) eqn:Hf.
    - destruct (h_rh hk); inversion Hs; subst g'; clear Hs.
      + cbn in Hev. exfalso. eapply cons_neq; eauto.
      + unfold cwalk_nil, same_second in Hev. destruct k; try destruct c2; cbn in Hev; exfalso; eapply cons_neq; eauto.
    - inversion Hs; subst g'; clear Hs.
      destruct k; unfold cwalk_end, same_second, close_done in Hev;
        try (repeat match type of Hev with context[match ?x with _ => _ end] => destruct x end;
             cbn in Hev; exfalso; eapply cons_neq; eauto; fail).
      cbn in Hev. inversion Hev; subst e.
      assert (h = cur) by (destruct recv; destruct He as [E|E]; inversion E; auto). subst h.
      destruct (cwalk_end_facts g t th _ c cur hk I Hth Hpc Hx Hmu Hf)
        as (cl & Hc & Hch & Hcm & Hrel & Htg & R1 & Hd & Racc & Rcal & Rclo & Rs & Rc0).
      pose proof (closers_nonneg g cur). exists hk. repeat split; auto. lia. }
  all: revert Hev; leaves_core Hs; intros Hev; exfalso.
  all: try solve [norm_cfg; eapply cons_neq; eauto].
  all: try solve [norm_cfg; inversion Hev; subst; destruct He as [E|E]; discriminate].
Qed.

(* h_shut is the number of Shutdown events of the hook in the event log (both variants) *)
Definition wshut (h : nat) (e : event) : Z :=
  match e with EvShutdown x => if Nat.eqb x h then 1 else 0 | _ => 0 end.
Definition shutcount (h : nat) (evs : list event) : Z := sumf (wshut h) evs.
Definition shut_of (g : config) (h : nat) : Z :=
  match get_hook g h with Some hk => h_shut hk | None => 0 end.
Definition TraceInv (g : config) : Prop := forall h, shutcount h (events g) = shut_of g h.

Ltac tr_tac T :=
  let h0 := fresh "h0" in intros h0; specialize (T h0); unfold shut_of, shutcount, get_hook in *; norm_cfg;
  cbn [sumf wshut] in *;
  repeat rewrite nth_error_upd; repeat rewrite nth_error_app_new;
  repeat match goal with
  | |- context[Nat.eqb ?x ?y] => let E := fresh "E" in destruct (Nat.eqb x y) eqn:E;
        [apply Nat.eqb_eq in E; subst|]
  end;
  repeat match goal with
  | H : nth_error (hooks _) ?x = Some _ |- _ => rewrite !H in *
  end;
  try match goal with
  | H : context[nth_error (hooks ?g) (length (hooks ?g))] |- _ =>
      rewrite (nth_error_ge_none _ (hooks g) (length (hooks g)) (le_n _)) in H
  end;
  repeat match goal with
  | |- context[nth_error (hooks ?g) ?x] => destruct (nth_error (hooks g) x)
  end;
  cbn in *; try lia.

Lemma trace_step : forall fixed g t g', TraceInv g -> step fixed g t = Some g' -> TraceInv g'.
Proof.
  intros fixed g t g' T Hs. unfold TraceInv. unfold step in Hs.
  leaves_core Hs.
  all: try solve [tr_tac T].
  intros h1. specialize (T h1). unfold shut_of, shutcount, get_hook in *. norm_cfg. cbn [sumf wshut].
  rewrite nth_error_upd. destruct (Nat.eqb h h1) eqn:E.
  - apply Nat.eqb_eq in E; subst h1.
    match goal with H : nth_error (hooks g) h = Some _ |- _ => rewrite H in T |- * end.
    cbn [option_map h_shut hk_shut]. lia.
  - destruct (nth_error (hooks g) h1); lia.
Qed.

Theorem reachable_trace : forall fixed progs g, reachable fixed (init progs) g -> TraceInv g.
Proof.
  induction 1.
  - intros h. unfold shutcount, shut_of, get_hook, init. cbn. destruct h; reflexivity.
  - eapply trace_step; eauto.
Qed.

(* no call is delivered to a hook after its Shutdown: at the step that delivers a call to h the
   event log contains no Shutdown of h *)
Definition no_call_after_shutdown_stmt : Prop :=
  forall progs g t g' e h, reachable true (init progs) g -> misuse g = false ->
  step true g t = Some g' -> events g' = e :: events g -> (e = EvSend h \/ e = EvRecv h) ->
  ~ In (EvShutdown h) (events g).

Lemma shutcount_in : forall h evs, In (EvShutdown h) evs -> 1 <= shutcount h evs.
Proof.
  induction evs as [|e evs IH]; intros H; simpl in H. contradiction.
  unfold shutcount in *. simpl. assert (0 <= sumf (wshut h) evs).
  { apply sumf_nonneg. intros x. unfold wshut. destruct x; try lia. destruct (Nat.eqb h0 h); lia. }
  destruct H as [->|H].
  - simpl. rewrite Nat.eqb_refl. lia.
  - specialize (IH H). assert (0 <= wshut h e). { unfold wshut. destruct e; try lia. destruct (Nat.eqb h0 h); lia. } lia.
Qed.

Theorem no_call_after_shutdown : no_call_after_shutdown_stmt.
Proof.
  intros progs g t g' e h R Hm Hs Hev He Hin.
  destruct (call_delivered_live progs g t g' e h R Hm Hs Hev He) as (hk & A & _ & B & _).
  pose proof (reachable_trace true progs g R h) as T. unfold shut_of in T. rewrite A, B in T.
  pose proof (shutcount_in h (events g) Hin). lia.
Qed.

(* a contract-respecting run that cannot continue has finished all its operations *)
Definition quiescent_all_finished_stmt : Prop :=
  forall progs g, reachable true (init progs) g -> misuse g = false ->
  (forall t, step true g t = None) -> forall th, In th (threads g) -> unfinished th = false.

Theorem quiescent_all_finished : quiescent_all_finished_stmt.
Proof.
  intros progs g R Hm Hq th Hin. destruct (unfinished th) eqn:E; auto. exfalso.
  destruct (no_stuck progs g R Hm (ex_intro _ th (conj Hin E))) as (t & g' & Hs).
  rewrite Hq in Hs. discriminate.
Qed.

