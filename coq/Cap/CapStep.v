(* CapStep.v — preservation of the invariant by every step (variant fixed = true). *)
From Coq Require Import ZArith List Bool Arith Lia.
From CV Require Import Cap.Cap Cap.CapInv Cap.CapLemmas.
Import ListNotations.
Open Scope Z_scope.

Lemma upd_upd : forall A (l : list A) n f k, upd n f (upd n k l) = upd n (fun x => f (k x)) l.
Proof. induction l as [|a l IH]; intros [|n] f k; simpl; auto. rewrite IH. auto. Qed.

Lemma pc_of_upd : forall g g' t F t' p,
  threads g' = upd t F (threads g) ->
  pc_of g' t' p ->
  (t' = t /\ exists th, nth_error (threads g) t = Some th /\ t_pc (F th) = p) \/
  (t' <> t /\ pc_of g t' p).
Proof.
  intros g g' t F t' p Ht (th & Hn & Hp). rewrite Ht, nth_error_upd in Hn.
  destruct (Nat.eqb t t') eqn:E.
  - apply Nat.eqb_eq in E; subst t'. left. split; auto.
    destruct (nth_error (threads g) t) eqn:E2; simpl in Hn; inversion Hn; subst. eauto.
  - apply Nat.eqb_neq in E. right. split; auto. exists th; auto.
Qed.

Lemma pc_of_upd_other : forall g g' t F t' p,
  threads g' = upd t F (threads g) -> t' <> t -> pc_of g t' p -> pc_of g' t' p.
Proof.
  intros g g' t F t' p Ht Hne (th & Hn & Hp). exists th. split; auto.
  rewrite Ht, nth_error_upd_neq; auto.
Qed.

Lemma pc_of_upd_same : forall g g' t F th,
  threads g' = upd t F (threads g) -> nth_error (threads g) t = Some th -> pc_of g' t (t_pc (F th)).
Proof.
  intros. exists (F th). split; auto. rewrite H, nth_error_upd_eq, H0. auto.
Qed.

Lemma pc_of_fun : forall g t p q, pc_of g t p -> pc_of g t q -> p = q.
Proof. intros g t p q (th & H1 & H2) (th' & H1' & H2'). congruence. Qed.

(* sums over the thread list when exactly thread t changes *)
Lemma closers_upd : forall g g' t F th h,
  threads g' = upd t F (threads g) -> nth_error (threads g) t = Some th ->
  closers g' h = closers g h - wclose h th + wclose h (F th).
Proof. intros. unfold closers. rewrite H. apply sumf_upd; auto. Qed.

Lemma callers_upd : forall g g' t F th h,
  threads g' = upd t F (threads g) -> nth_error (threads g) t = Some th ->
  callers g' h = callers g h - wcall h th + wcall h (F th).
Proof. intros. unfold callers. rewrite H. apply sumf_upd; auto. Qed.

Lemma links_le_same_hooks : forall g g', hooks g' = hooks g -> links_le g g'.
Proof. intros g g' H a hk Hg Hf. exists hk. unfold get_hook in *. rewrite H. auto. Qed.

(* reach / to_nil / tgt_ok / borrow depend only on the hooks (and clients) *)
Lemma reach_same_hooks : forall g g' a b, hooks g' = hooks g -> reach g a b -> reach g' a b.
Proof. intros. eapply reach_mono; eauto. apply links_le_same_hooks; auto. Qed.


Lemma borrowed_of_pc_flight : forall g t p n ci cur,
  pc_of g t (FWalk p n (Some ci) cur) -> borrowed g ci = true.
Proof.
  intros g t p n ci cur (th & Hn & Hp). unfold borrowed. apply existsb_exists.
  exists th. split. eapply nth_error_In; eauto. rewrite Hp. simpl. apply Nat.eqb_refl.
Qed.

Lemma borrowed_of_pc_fmark : forall g t p rh ci,
  pc_of g t (FMark p rh (Some ci)) -> borrowed g ci = true.
Proof.
  intros g t p rh ci (th & Hn & Hp). unfold borrowed. apply existsb_exists.
  exists th. split. eapply nth_error_In; eauto. rewrite Hp. simpl. apply Nat.eqb_refl.
Qed.

Section GENERIC.
Variables (g g' : config) (t : nat) (th : thread) (F : thread -> thread).
Hypothesis Hth : nth_error (threads g) t = Some th.
Hypothesis Ht : threads g' = upd t F (threads g).

Lemma pcs_new : forall t' p, pc_of g' t' p ->
  (t' = t /\ t_pc (F th) = p) \/ (t' <> t /\ pc_of g t' p).
Proof.
  intros t' p H. destruct (pc_of_upd _ _ _ _ _ _ Ht H) as [(E & th0 & E1 & E2)|]; auto.
  left. split; auto. congruence.
Qed.

Lemma pcs_keep : forall t' p, pc_of g t' p -> t' <> t -> pc_of g' t' p.
Proof. intros. eapply pc_of_upd_other; eauto. Qed.

Lemma pcs_me : pc_of g t (t_pc th).
Proof. exists th; auto. Qed.

Lemma pcs_me' : pc_of g' t (t_pc (F th)).
Proof. eapply pc_of_upd_same; eauto. Qed.

(* ---------------- hook group *)
Lemma LH : forall (TH : list nat),
  InvH g ->
  (length (hooks g) <= length (hooks g'))%nat ->
  (forall h, ~ In h TH -> get_hook g' h = get_hook g h /\ tokens g' h = tokens g h /\
                          wclose h (F th) = wclose h th /\ wcall h (F th) = wcall h th) ->
  (forall h n c cur, ~ In h TH -> t_pc th = FWalk h n c cur ->
       exists n' c' cur', t_pc (F th) = FWalk h n' c' cur') ->
  (forall h hk', In h TH -> get_hook g' h = Some hk' -> hook_ok g' h hk') ->
  (forall h, In h TH -> (h < length (hooks g'))%nat) ->
  InvH g'.
Proof.
  intros TH I Hlen Hfr Hmu Hto Hin.
  assert (Hclo : forall h, closers g' h = closers g h - wclose h th + wclose h (F th))
    by (intros; eapply closers_upd; eauto).
  assert (Hcal : forall h, callers g' h = callers g h - wcall h th + wcall h (F th))
    by (intros; eapply callers_upd; eauto).
  constructor.
  - intros h Hl. destruct (in_dec Nat.eq_dec h TH) as [Hi|Hi].
    + apply Hin in Hi. lia.
    + destruct (Hfr h Hi) as (A & B & C & D). rewrite B, Hclo, Hcal, C, D.
      assert (Hl' : (length (hooks g) <= h)%nat) by lia.
      destruct (inv_range g I h Hl') as (X & Y & Z). lia.
  - intros h hk Hg. destruct (in_dec Nat.eq_dec h TH) as [Hi|Hi]; auto.
    destruct (Hfr h Hi) as (A & B & C & D). rewrite A in Hg.
    pose proof (inv_hook g I h hk Hg) as O. destruct O as [O1 O2 O3 O4 O5 O6 O7].
    constructor; auto.
    + rewrite B; auto.
    + intros t' Hm. destruct (O2 t' Hm) as (n & c & cur & P).
      destruct (Nat.eq_dec t' t) as [->|Hne].
      * pose proof (pc_of_fun _ _ _ _ P pcs_me) as E. symmetry in E.
        destruct (Hmu _ _ _ _ Hi E) as (n' & c' & cur' & E'). exists n', c', cur'.
        rewrite <- E'. apply pcs_me'.
      * exists n, c, cur. apply pcs_keep; auto.
    + rewrite Hcal, D. lia.
    + rewrite Hclo, C. lia.
Qed.

(* ---------------- client group *)
Lemma LC : forall (TC : list nat),
  InvC g ->
  (forall k c0 cur, t_pc th = CWalk k c0 cur -> In c0 TC) ->
  (forall i cl, In i TC -> get_client g i = Some cl -> c_mu cl = None \/ c_mu cl = Some t) ->
  (forall i cl, get_client g i = Some cl -> exists cl', get_client g' i = Some cl' /\
       (~ In i TC -> c_h cl' = c_h cl /\ c_mu cl' = c_mu cl /\ c_released cl' = c_released cl)) ->
  (forall i cl', get_client g' i = Some cl' -> (exists cl, get_client g i = Some cl) \/
                                               (c_mu cl' = None /\ c_released cl' = false)) ->
  (forall i cl', get_client g' i = Some cl' -> client_ok g' cl') ->
  (forall k c0 cur, t_pc (F th) = CWalk k c0 cur ->
       exists cl', get_client g' c0 = Some cl' /\ c_h cl' = Some cur /\ c_mu cl' = Some t /\
                   (k = KRelease -> c_released cl' = true)) ->
  (forall i cl' t', In i TC -> get_client g' i = Some cl' -> c_mu cl' = Some t' ->
       t' = t /\ exists k cur, t_pc (F th) = CWalk k i cur) ->
  (forall i cl', In i TC -> get_client g' i = Some cl' -> c_released cl' = true -> c_mu cl' = None ->
       c_h cl' = None) ->
  (forall k c0 cur cl', t_pc (F th) = CWalk k c0 cur -> get_client g' c0 = Some cl' -> k <> KRelease ->
       c_released cl' = false) ->
  InvC g'.
Proof.
  intros TC I Hold Hmine Hfw Hbk Hok Hnew Hcm Hrel Hnrel.
  constructor.
  - auto.
  - intros t' k c cur P. destruct (pcs_new _ _ P) as [(-> & E)|(Hne & P0)].
    + apply Hnew; auto.
    + destruct (inv_cwalk g I _ _ _ _ P0) as (cl & A & B & C & D).
      destruct (Hfw _ _ A) as (cl' & A' & Hsame).
      destruct (in_dec Nat.eq_dec c TC) as [Hi|Hi].
      * destruct (Hmine _ _ Hi A) as [X|X]; congruence.
      * destruct (Hsame Hi) as (S1 & S2 & S3). exists cl'. repeat split; try congruence.
        intros K. rewrite S3. auto.
  - intros i cl' t' A B. destruct (in_dec Nat.eq_dec i TC) as [Hi|Hi].
    + destruct (Hcm _ _ _ Hi A B) as (-> & k & cur & E). exists k, cur. rewrite <- E. apply pcs_me'.
    + destruct (Hbk _ _ A) as [(cl & A0)|(X & _)]; [|congruence].
      destruct (Hfw _ _ A0) as (cl2 & A2 & Hsame). rewrite A in A2; inversion A2; subst cl2.
      destruct (Hsame Hi) as (S1 & S2 & S3).
      assert (B0 : c_mu cl = Some t') by congruence.
      destruct (inv_cmu g I _ _ _ A0 B0) as (k & cur & P).
      destruct (Nat.eq_dec t' t) as [->|Hne].
      * pose proof (pc_of_fun _ _ _ _ P pcs_me) as E. symmetry in E. apply Hold in E. contradiction.
      * exists k, cur. apply pcs_keep; auto.
  - intros i cl' A B C. destruct (in_dec Nat.eq_dec i TC) as [Hi|Hi].
    + eapply Hrel; eauto.
    + destruct (Hbk _ _ A) as [(cl & A0)|(_ & X)]; [|congruence].
      destruct (Hfw _ _ A0) as (cl2 & A2 & Hsame). rewrite A in A2; inversion A2; subst cl2.
      destruct (Hsame Hi) as (S1 & S2 & S3). rewrite S1. apply (inv_rel g I i cl A0); congruence.
  - intros t' k c cur cl' P A Hk. destruct (pcs_new _ _ P) as [(-> & E)|(Hne & P0)].
    + eapply Hnrel; eauto.
    + destruct (inv_cwalk g I _ _ _ _ P0) as (cl & A0 & B0 & C0 & D0).
      destruct (Hfw _ _ A0) as (cl2 & A2 & Hsame). rewrite A in A2; inversion A2; subst cl2.
      destruct (in_dec Nat.eq_dec c TC) as [Hi|Hi].
      * destruct (Hmine _ _ Hi A0) as [X|X]; congruence.
      * destruct (Hsame Hi) as (S1 & S2 & S3). rewrite S3. apply (inv_nrel g I t' k c cur cl P0 A0 Hk).
Qed.

(* ---------------- flight group *)
Lemma LF : forall (TH : list nat),
  InvF g -> links_le g g' ->
  (forall h, ~ In h TH -> get_hook g' h = get_hook g h /\ tokens g' h = tokens g h) ->
  (forall h hk, In h TH -> get_hook g h = Some hk -> h_mu hk = None \/ h_mu hk = Some t) ->
  (forall ci rh, borrowed g ci = true -> borrow_ok g (Some ci) rh -> borrow_ok g' (Some ci) rh) ->
  (forall p n c cur, t_pc (F th) = FWalk p n c cur ->
      exists hk, get_hook g' p = Some hk /\ h_mu hk = Some t /\ h_refs hk = 0 /\ tokens g' p = n /\
                 0 < n /\ forwarded p hk = true /\ path1 g' p cur /\ borrow_ok g' c (Some cur)) ->
  (forall p rh c, t_pc (F th) = FMark p rh c -> borrow_ok g' c rh) ->
  InvF g'.
Proof.
  intros TH I L Hfr Hmine Hbor Hfl Hfm.
  constructor.
  - intros t' p n c cur P. destruct (pcs_new _ _ P) as [(-> & E)|(Hne & P0)].
    + apply Hfl; auto.
    + destruct (inv_flight g I _ _ _ _ _ P0) as (hk & A1 & A2 & A3 & A4 & A5 & A6 & A7 & A8).
      destruct (in_dec Nat.eq_dec p TH) as [Hi|Hi].
      * destruct (Hmine _ _ Hi A1) as [X|X]; congruence.
      * destruct (Hfr _ Hi) as (B1 & B2). exists hk. rewrite B1, B2. repeat split; auto.
        eapply path1_mono; eauto.
        destruct c as [ci|]; [|exact A8]. apply Hbor; auto.
        eapply borrowed_of_pc_flight; eauto.
  - intros t' p rh c P. destruct (pcs_new _ _ P) as [(-> & E)|(Hne & P0)].
    + apply Hfm with p; auto.
    + pose proof (inv_fmark g I _ _ _ _ P0) as B. destruct c as [ci|]; [|exact B].
      apply Hbor; auto. eapply borrowed_of_pc_fmark; eauto.
Qed.

End GENERIC.

(* ---------------------------------------------------------------- token bookkeeping *)
Lemma tokens_upd : forall g g' c K cl h,
  get_client g c = Some cl -> clients g' = upd c K (clients g) ->
  tokens g' h = tokens g h - wtok h cl + wtok h (K cl).
Proof. intros. unfold tokens. rewrite H0. apply sumf_upd; auto. Qed.

Lemma tokens_same_tgt : forall g g' c K cl h,
  get_client g c = Some cl -> clients g' = upd c K (clients g) -> c_tgt (K cl) = c_tgt cl ->
  tokens g' h = tokens g h.
Proof.
  intros. rewrite (tokens_upd g g' c K cl h H H0). unfold wtok. rewrite H1. lia.
Qed.

Lemma borrow_ok_frame : forall g g' c rh,
  links_le g g' ->
  (forall ci cl, c = Some ci -> get_client g ci = Some cl ->
      exists cl', get_client g' ci = Some cl' /\ c_released cl' = c_released cl /\ c_tgt cl' = c_tgt cl) ->
  borrow_ok g c rh -> borrow_ok g' c rh.
Proof.
  intros g g' c rh L H B. destruct c as [ci|]; simpl in *; auto.
  destruct B as (cl & B1 & B2 & B3). destruct (H ci cl eq_refl B1) as (cl' & C1 & C2 & C3).
  exists cl'. repeat split; auto. congruence. rewrite C3. destruct rh; auto. eapply tgt_ok_mono; eauto.
Qed.

Lemma client_ok_mono : forall g g' cl, links_le g g' -> client_ok g cl -> client_ok g' cl.
Proof. unfold client_ok. intros. destruct (c_h cl); auto. eapply tgt_ok_mono; eauto. Qed.

(* ---------------------------------------------------------------- a thread-only change *)
(* Thread t moves from pc p0 to pc p1 (neither a walk holding a mutex), nothing else that the
   invariant mentions changes. *)
Lemma inv_thread_only : forall g g' t th F,
  Inv g -> nth_error (threads g) t = Some th ->
  threads g' = upd t F (threads g) -> hooks g' = hooks g -> clients g' = clients g ->
  misuse g' = false ->
  (forall h, wclose h (F th) = wclose h th) -> (forall h, wcall h (F th) = wcall h th) ->
  (forall p n c cur, t_pc th <> FWalk p n c cur) ->
  (forall p n c cur, t_pc (F th) <> FWalk p n c cur) ->
  (forall k c cur, t_pc th <> CWalk k c cur) ->
  (forall k c cur, t_pc (F th) <> CWalk k c cur) ->
  (forall p rh c, t_pc (F th) = FMark p rh c -> borrow_ok g c rh) ->
  Inv g'.
Proof.
  intros g g' t th F I Hth Ht Hh Hc Hm Hwc Hwk Hf1 Hf2 Hc1 Hc2 Hfm.
  assert (Htok : forall h, tokens g' h = tokens g h) by (intros; unfold tokens; rewrite Hc; auto).
  assert (Hgh : forall h, get_hook g' h = get_hook g h) by (intros; unfold get_hook; rewrite Hh; auto).
  assert (Hgc : forall c, get_client g' c = get_client g c) by (intros; unfold get_client; rewrite Hc; auto).
  assert (L : links_le g g') by (apply links_le_same_hooks; auto).
  assert (Hbo : forall c rh, borrow_ok g c rh -> borrow_ok g' c rh).
  { intros. eapply borrow_ok_frame; eauto. intros. exists cl. rewrite Hgc. auto. }
  destruct I as [I0 IH IC IF]. constructor; auto.
  - apply (LH g g' t th F Hth Ht []).
    + exact IH.
    + rewrite Hh; auto.
    + intros h _. auto.
    + intros h n c cur _ E. exfalso. exact (Hf1 _ _ _ _ E).
    + intros h hk' [].
    + intros h [].
  - apply (LC g g' t th F Hth Ht []).
    + exact IC.
    + intros k c0 cur E. exfalso. exact (Hc1 _ _ _ E).
    + intros i cl [].
    + intros i cl A. exists cl. rewrite Hgc. auto.
    + intros i cl' A. left. exists cl'. rewrite <- Hgc. auto.
    + intros i cl' A. rewrite Hgc in A. eapply client_ok_mono; eauto. apply (inv_client g IC _ _ A).
    + intros k c0 cur E. exfalso. exact (Hc2 _ _ _ E).
    + intros i cl' t' [].
    + intros i cl' [].
    + intros k c0 cur9 cl' E. exfalso. exact (Hc2 _ _ _ E).
  - apply (LF g g' t th F Hth Ht []).
    + exact IF.
    + exact L.
    + intros h _. auto.
    + intros h hk [].
    + intros. apply Hbo. auto.
    + intros p n c cur E. exfalso. exact (Hf2 _ _ _ _ E).
    + intros. apply Hbo. eapply Hfm; eauto.
Qed.

Lemma get_hook_upd : forall g g' x K h, hooks g' = upd x K (hooks g) ->
  get_hook g' h = if Nat.eqb x h then option_map K (get_hook g h) else get_hook g h.
Proof. intros. unfold get_hook. rewrite H. apply nth_error_upd. Qed.

Lemma get_client_upd : forall g g' x K h, clients g' = upd x K (clients g) ->
  get_client g' h = if Nat.eqb x h then option_map K (get_client g h) else get_client g h.
Proof. intros. unfold get_client. rewrite H. apply nth_error_upd. Qed.

Lemma wtok_other : forall h x cl cl', h <> x ->
  (c_tgt cl' = c_tgt cl \/ (c_tgt cl = Some x /\ c_tgt cl' = None)) -> wtok h cl' = wtok h cl.
Proof.
  intros h x cl cl' Hne [E|(E1 & E2)]; unfold wtok. rewrite E; auto.
  rewrite E1, E2. simpl. destruct (Nat.eqb x h) eqn:E; auto. apply Nat.eqb_eq in E. congruence.
Qed.

(* links are unchanged when only non-link fields of hook x change *)
Lemma links_le_upd : forall g g' x hk hk',
  get_hook g x = Some hk -> hooks g' = upd x (fun _ => hk') (hooks g) ->
  (forwarded x hk = true -> forwarded x hk' = true /\ h_rh hk' = h_rh hk) ->
  links_le g g'.
Proof.
  intros g g' x hk hk' Hx Hh Hl a ha Ha Hf. rewrite (get_hook_upd g g' x _ a Hh).
  destruct (Nat.eqb x a) eqn:E.
  - apply Nat.eqb_eq in E; subst a. rewrite Ha. simpl. exists hk'.
    assert (ha = hk) by congruence. subst ha. destruct (Hl Hf). auto.
  - exists ha. auto.
Qed.

(* ---------------------------------------------------------------- one hook, one client, one thread *)
Lemma G1 : forall g g' t th F x hk hk' c cl cl',
  Inv g -> nth_error (threads g) t = Some th -> threads g' = upd t F (threads g) ->
  get_hook g x = Some hk -> h_mu hk = None -> hooks g' = upd x (fun _ => hk') (hooks g) ->
  get_client g c = Some cl -> clients g' = upd c (fun _ => cl') (clients g) ->
  misuse g' = false ->
  h_resolved hk' = h_resolved hk -> h_rh hk' = h_rh hk -> h_mu hk' = None ->
  (c_mu cl = None \/ c_mu cl = Some t) ->
  (c_tgt cl' = c_tgt cl \/ (c_tgt cl = Some x /\ c_tgt cl' = None /\ c_released cl = true)) ->
  (c_released cl' = c_released cl \/ borrowed g c = false) ->
  client_ok g cl' ->
  (forall p n c0 cur, t_pc th <> FWalk p n c0 cur) ->
  (forall k c0 cur, t_pc th = CWalk k c0 cur -> c0 = c) ->
  (forall p n c0 cur, t_pc (F th) <> FWalk p n c0 cur) ->
  (forall p rh c0, t_pc (F th) <> FMark p rh c0) ->
  (forall k c0 cur, t_pc (F th) = CWalk k c0 cur ->
      c0 = c /\ c_h cl' = Some cur /\ c_mu cl' = Some t /\ (k = KRelease -> c_released cl' = true)) ->
  (forall t', c_mu cl' = Some t' -> t' = t /\ exists k cur, t_pc (F th) = CWalk k c cur) ->
  (c_released cl' = true -> c_mu cl' = None -> c_h cl' = None) ->
  (forall k c0 cur, t_pc (F th) = CWalk k c0 cur -> k <> KRelease -> c_released cl' = false) ->
  (forall h, h <> x -> wclose h (F th) = wclose h th /\ wcall h (F th) = wcall h th) ->
  h_refs hk' = h_refs hk + (wtok x cl' - wtok x cl) ->
  h_calls hk' = h_calls hk + (wcall x (F th) - wcall x th) ->
  h_done hk' = ((h_refs hk' =? 0) && (h_calls hk' =? 0)) ->
  (wclose x (F th) - wclose x th) + (h_shut hk' - h_shut hk) =
     (if h_refs hk' =? 0 then 1 else 0) - (if h_refs hk =? 0 then 1 else 0) ->
  h_shut hk <= h_shut hk' ->
  Inv g'.
Proof.
  intros g g' t th F x hk hk' c cl cl' I Hth Ht Hx Hfree Hh Hc Hcl Hm Hres Hrh Hmu' Hcmu Htgt Hrel Hok
         Hf1 Hc1 Hf2 Hfm2 Hc2 Hcm Hrl Hnrl Hw Erefs Ecalls Edone Eclose Eshut.
  assert (Hfw : forwarded x hk' = forwarded x hk) by (unfold forwarded; rewrite Hres, Hrh; auto).
  assert (L : links_le g g').
  { eapply (links_le_upd g g' x hk hk' Hx Hh). intros. rewrite Hfw. auto. }
  assert (Htok : forall h, tokens g' h = tokens g h - wtok h cl + wtok h cl').
  { intros. apply (tokens_upd g g' c (fun _ => cl') cl h Hc Hcl). }
  assert (Htok' : forall h, h <> x -> tokens g' h = tokens g h).
  { intros h Hne. rewrite Htok. rewrite (wtok_other h x cl cl' Hne). lia.
    destruct Htgt as [E|(E1 & E2 & _)]; auto. }
  assert (Hgh : forall h, h <> x -> get_hook g' h = get_hook g h).
  { intros h Hne. rewrite (get_hook_upd g g' x _ h Hh). destruct (Nat.eqb x h) eqn:E; auto.
    apply Nat.eqb_eq in E. congruence. }
  assert (Hghx : get_hook g' x = Some hk').
  { rewrite (get_hook_upd g g' x _ x Hh), Nat.eqb_refl, Hx. auto. }
  assert (Hgc : forall i, i <> c -> get_client g' i = get_client g i).
  { intros h Hne. rewrite (get_client_upd g g' c _ h Hcl). destruct (Nat.eqb c h) eqn:E; auto.
    apply Nat.eqb_eq in E. congruence. }
  assert (Hgcc : get_client g' c = Some cl').
  { rewrite (get_client_upd g g' c _ c Hcl), Nat.eqb_refl, Hc. auto. }
  destruct I as [I0 IH IC IF].
  pose proof (inv_hook g IH x hk Hx) as [O1 O2 O3 O4 O5 O6 O7].
  constructor; auto.
  - (* hooks *)
    apply (LH g g' t th F Hth Ht [x]).
    + exact IH.
    + rewrite Hh, length_upd. auto.
    + intros h Hn. assert (h <> x) by (intros ->; apply Hn; left; auto).
      destruct (Hw h H). repeat split; auto.
    + intros h n c0 cur _ E. exfalso. exact (Hf1 _ _ _ _ E).
    + intros h hk2 [<-|[]] Hg2. rewrite Hghx in Hg2. inversion Hg2; subst hk2; clear Hg2.
      constructor.
      * intros _. rewrite Erefs, Htok, (O1 Hfree). lia.
      * intros t'. rewrite Hmu'. discriminate.
      * rewrite Ecalls, O3, (callers_upd g g' t F th x Ht Hth). lia.
      * exact Edone.
      * rewrite (closers_upd g g' t F th x Ht Hth). lia.
      * lia.
      * rewrite Hfw. intros Hf. pose proof (O7 Hf) as R0. pose proof (O1 Hfree) as R1.
        (* forwarded and free: no tokens, so the client's token weight at x cannot change *)
        assert (Hz : wtok x cl = 0).
        { assert (In cl (clients g)) by (eapply nth_error_In; eauto).
          eapply (sumf_zero_each _ (wtok x) (clients g)); auto using wtok_nonneg.
          unfold tokens in R1. lia. }
        assert (Hz' : wtok x cl' = 0).
        { destruct Htgt as [E|(E1 & E2 & _)]; unfold wtok in *. rewrite E; auto. rewrite E2. auto. }
        lia.
    + intros h [<-|[]]. rewrite Hh, length_upd. eapply nth_error_some_lt; eauto.
  - (* clients *)
    apply (LC g g' t th F Hth Ht [c]).
    + exact IC.
    + intros k c0 cur E. left. symmetry. eapply Hc1; eauto.
    + intros i cli [<-|[]] A. assert (cli = cl) by congruence. subst. auto.
    + intros i cli A. destruct (Nat.eq_dec i c) as [->|Hne].
      * exists cl'. split; auto. intros Hn. exfalso. apply Hn. left; auto.
      * exists cli. rewrite Hgc; auto.
    + intros i cli A. destruct (Nat.eq_dec i c) as [->|Hne].
      * left. eauto.
      * left. exists cli. rewrite <- Hgc; auto.
    + intros i cli A. destruct (Nat.eq_dec i c) as [->|Hne].
      * assert (cli = cl') by congruence. subst. eapply client_ok_mono; eauto.
      * rewrite Hgc in A; auto. eapply client_ok_mono; eauto. apply (inv_client g IC _ _ A).
    + intros k c0 cur E. destruct (Hc2 _ _ _ E) as (-> & A & B & C). exists cl'. auto.
    + intros i cli t' [<-|[]] A B. assert (cli = cl') by congruence. subst. auto.
    + intros i cli [<-|[]] A B C. assert (cli = cl') by congruence. subst. auto.
    + intros k c0 cur9 cli E A Hk. destruct (Hc2 _ _ _ E) as (-> & _). assert (cli = cl') by congruence. subst.
      eapply Hnrl; eauto.
  - (* flights *)
    apply (LF g g' t th F Hth Ht [x]).
    + exact IF.
    + exact L.
    + intros h Hn. assert (h <> x) by (intros ->; apply Hn; left; auto). split; auto.
    + intros h hk2 [<-|[]] A. left. congruence.
    + intros ci rh Hb B. destruct B as (cb & B1 & B2 & B3).
      destruct (Nat.eq_dec ci c) as [->|Hne].
      * assert (cb = cl) by congruence. subst cb. exists cl'. split; auto. split.
        { destruct Hrel as [E|E]; congruence. }
        assert (ET : c_tgt cl' = c_tgt cl).
        { destruct Htgt as [E|(_ & _ & E)]; auto. congruence. }
        rewrite ET. destruct rh; auto. eapply tgt_ok_mono; eauto.
      * exists cb. rewrite Hgc; auto. repeat split; auto. destruct rh; auto. eapply tgt_ok_mono; eauto.
    + intros p n c0 cur E. exfalso. exact (Hf2 _ _ _ _ E).
    + intros p rh c0 E. exfalso. exact (Hfm2 _ _ _ E).
Qed.

Lemma upd_const : forall A (l : list A) n f x, nth_error l n = Some x -> upd n f l = upd n (fun _ => f x) l.
Proof. induction l as [|a l IH]; intros [|n] f x H; simpl in *; try discriminate; auto.
  inversion H; subst; auto. rewrite (IH _ _ _ H). auto. Qed.

Lemma upd_id : forall A (l : list A) n x, nth_error l n = Some x -> upd n (fun _ => x) l = l.
Proof. induction l as [|a l IH]; intros [|n] x H; simpl in *; try discriminate; auto.
  inversion H; subst; auto. rewrite (IH _ _ H). auto. Qed.

Lemma no_tokens_tgt : forall g x c cl, tokens g x = 0 -> get_client g c = Some cl -> c_tgt cl <> Some x.
Proof.
  intros g x c cl H Hc E.
  assert (In cl (clients g)) by (eapply nth_error_In; eauto).
  pose proof (sumf_zero_each _ (wtok x) (clients g) (wtok_nonneg x) H cl H0) as Z.
  unfold wtok in Z. rewrite E, oeqb_refl in Z. lia.
Qed.

Lemma tokens_ge_1 : forall g x c cl, get_client g c = Some cl -> c_tgt cl = Some x -> 1 <= tokens g x.
Proof.
  intros g x c cl Hc E. destruct (Z_lt_le_dec (tokens g x) 1); auto.
  assert (0 <= tokens g x) by (apply sumf_nonneg; apply wtok_nonneg).
  exfalso. eapply no_tokens_tgt; eauto. lia.
Qed.

Lemma fwd_free_no_tokens : forall g x hk, InvH g -> get_hook g x = Some hk -> h_mu hk = None ->
  forwarded x hk = true -> tokens g x = 0.
Proof.
  intros g x hk I Hx Hf Hw. destruct (inv_hook g I x hk Hx) as [O1 O2 O3 O4 O5 O6 O7].
  rewrite <- (O1 Hf). auto.
Qed.

Lemma no_fwd_of_hook : forall g x hk b, get_hook g x = Some hk ->
  (forwarded x hk = false \/ h_rh hk = None) -> ~ fwd g x b.
Proof. intros g x hk b Hx H (hk' & A & B & C). assert (hk' = hk) by congruence. subst. destruct H; congruence. Qed.

(* the client whose chain a walker follows is accounted at the terminal hook it stops at *)
Lemma tgt_at_terminal : forall g c cl cur hk, InvC g -> get_client g c = Some cl -> c_h cl = Some cur ->
  get_hook g cur = Some hk -> forwarded cur hk = false -> c_tgt cl = Some cur.
Proof.
  intros g c cl cur hk I Hc Hh Hx Hf. pose proof (inv_client g I _ _ Hc) as O. unfold client_ok in O.
  rewrite Hh in O. destruct (c_tgt cl) as [T|]; simpl in O.
  - f_equal. eapply reach_noout; eauto. intros b. eapply no_fwd_of_hook; eauto.
  - exfalso. eapply to_nil_noout; eauto.
Qed.

Lemma tgt_at_forwarded : forall g c cl cur hk, Inv g -> get_client g c = Some cl ->
  get_hook g cur = Some hk -> h_mu hk = None -> forwarded cur hk = true -> c_tgt cl <> Some cur.
Proof.
  intros. eapply no_tokens_tgt; eauto. eapply fwd_free_no_tokens; eauto. apply (invH g H).
Qed.

(* ---------------------------------------------------------------- one hook, one thread *)
Lemma G1h : forall g g' t th F x hk hk',
  Inv g -> nth_error (threads g) t = Some th -> threads g' = upd t F (threads g) ->
  get_hook g x = Some hk -> h_mu hk = None -> hooks g' = upd x (fun _ => hk') (hooks g) ->
  clients g' = clients g -> misuse g' = false ->
  h_resolved hk' = h_resolved hk -> h_rh hk' = h_rh hk -> h_mu hk' = None ->
  (forall p n c0 cur, t_pc th <> FWalk p n c0 cur) ->
  (forall k c0 cur, t_pc th <> CWalk k c0 cur) ->
  (forall p n c0 cur, t_pc (F th) <> FWalk p n c0 cur) ->
  (forall p rh c0, t_pc (F th) <> FMark p rh c0) ->
  (forall k c0 cur, t_pc (F th) <> CWalk k c0 cur) ->
  (forall h, h <> x -> wclose h (F th) = wclose h th /\ wcall h (F th) = wcall h th) ->
  h_refs hk' = h_refs hk ->
  h_calls hk' = h_calls hk + (wcall x (F th) - wcall x th) ->
  h_done hk' = ((h_refs hk' =? 0) && (h_calls hk' =? 0)) ->
  (wclose x (F th) - wclose x th) + (h_shut hk' - h_shut hk) =
     (if h_refs hk' =? 0 then 1 else 0) - (if h_refs hk =? 0 then 1 else 0) ->
  h_shut hk <= h_shut hk' ->
  Inv g'.
Proof.
  intros g g' t th F x hk hk' I Hth Ht Hx Hfree Hh Hcl Hm Hres Hrh Hmu'
         Hf1 Hc1 Hf2 Hfm2 Hc2 Hw Erefs Ecalls Edone Eclose Eshut.
  assert (Hfw : forwarded x hk' = forwarded x hk) by (unfold forwarded; rewrite Hres, Hrh; auto).
  assert (L : links_le g g').
  { eapply (links_le_upd g g' x hk hk' Hx Hh). intros. rewrite Hfw. auto. }
  assert (Htok : forall h, tokens g' h = tokens g h) by (intros; unfold tokens; rewrite Hcl; auto).
  assert (Hgh : forall h, h <> x -> get_hook g' h = get_hook g h).
  { intros h Hne. rewrite (get_hook_upd g g' x _ h Hh). destruct (Nat.eqb x h) eqn:E; auto.
    apply Nat.eqb_eq in E. congruence. }
  assert (Hghx : get_hook g' x = Some hk').
  { rewrite (get_hook_upd g g' x _ x Hh), Nat.eqb_refl, Hx. auto. }
  assert (Hgc : forall i, get_client g' i = get_client g i) by (intros; unfold get_client; rewrite Hcl; auto).
  destruct I as [I0 IH IC IF].
  pose proof (inv_hook g IH x hk Hx) as [O1 O2 O3 O4 O5 O6 O7].
  constructor; auto.
  - apply (LH g g' t th F Hth Ht [x]).
    + exact IH.
    + rewrite Hh, length_upd. auto.
    + intros h Hn. assert (h <> x) by (intros ->; apply Hn; left; auto).
      destruct (Hw h H). repeat split; auto.
    + intros h n c0 cur _ E. exfalso. exact (Hf1 _ _ _ _ E).
    + intros h hk2 [<-|[]] Hg2. rewrite Hghx in Hg2. inversion Hg2; subst hk2; clear Hg2.
      constructor.
      * intros _. rewrite Erefs, Htok, (O1 Hfree). lia.
      * intros t'. rewrite Hmu'. discriminate.
      * rewrite Ecalls, O3, (callers_upd g g' t F th x Ht Hth). lia.
      * exact Edone.
      * rewrite (closers_upd g g' t F th x Ht Hth). lia.
      * lia.
      * rewrite Hfw, Erefs. auto.
    + intros h [<-|[]]. rewrite Hh, length_upd. eapply nth_error_some_lt; eauto.
  - apply (LC g g' t th F Hth Ht []).
    + exact IC.
    + intros k c0 cur E. exfalso. exact (Hc1 _ _ _ E).
    + intros i cl [].
    + intros i cl A. exists cl. rewrite Hgc. auto.
    + intros i cl' A. left. exists cl'. rewrite <- Hgc. auto.
    + intros i cl' A. rewrite Hgc in A. eapply client_ok_mono; eauto. apply (inv_client g IC _ _ A).
    + intros k c0 cur E. exfalso. exact (Hc2 _ _ _ E).
    + intros i cl' t' [].
    + intros i cl' [].
    + intros k c0 cur9 cl' E. exfalso. exact (Hc2 _ _ _ E).
  - apply (LF g g' t th F Hth Ht [x]).
    + exact IF.
    + exact L.
    + intros h Hn. assert (h <> x) by (intros ->; apply Hn; left; auto). split; auto.
    + intros h hk2 [<-|[]] A. left. congruence.
    + intros ci rh Hb B. eapply borrow_ok_frame; eauto. intros. exists cl. rewrite Hgc. auto.
    + intros p n c0 cur E. exfalso. exact (Hf2 _ _ _ _ E).
    + intros p rh c0 E. exfalso. exact (Hfm2 _ _ _ E).
Qed.

Lemma sumf_one : forall A (f : A -> Z) l i a, (forall x, 0 <= f x) -> nth_error l i = Some a -> f a <= sumf f l.
Proof.
  induction l as [|y l IH]; intros [|i] a Hn H; simpl in *; try discriminate.
  - inversion H; subst. pose proof (sumf_nonneg _ f l Hn). lia.
  - pose proof (IH _ _ Hn H). pose proof (Hn y). lia.
Qed.

Lemma sumf_two : forall A (f : A -> Z) l i j a b, (forall x, 0 <= f x) -> i <> j ->
  nth_error l i = Some a -> nth_error l j = Some b -> f a + f b <= sumf f l.
Proof.
  induction l as [|y l IH]; intros [|i] [|j] a b Hn Hne Ha Hb; simpl in *; try discriminate; try congruence.
  - inversion Ha; subst. pose proof (sumf_one _ f l j b Hn Hb). lia.
  - inversion Hb; subst. pose proof (sumf_one _ f l i a Hn Ha). lia.
  - assert (i <> j) by congruence. pose proof (IH _ _ _ _ Hn H Ha Hb). pose proof (Hn y). lia.
Qed.

(* a thread waiting to shut h down excludes a transfer walk out of h: h's mutex is free *)
Lemma waitdone_free : forall g t h hk, Inv g -> pc_of g t (WaitDone h) -> get_hook g h = Some hk ->
  h_mu hk = None.
Proof.
  intros g t h hk I (th & Hth & Hpc) Hx. destruct (h_mu hk) as [t'|] eqn:Hmu; auto. exfalso.
  destruct (inv_hook g (invH g I) h hk Hx) as [O1 O2 O3 O4 O5 O6 O7].
  destruct (O2 t' Hmu) as (n & c & cur & (th' & Hth' & Hpc')).
  assert (t <> t') by (intros ->; congruence).
  pose proof (sumf_two _ (wclose h) (threads g) t t' th th' (wclose_nonneg h) H Hth Hth') as S.
  unfold closers in O5. unfold wclose in S at 1 2. rewrite Hpc, Hpc', Nat.eqb_refl in S.
  destruct (h_refs hk =? 0); lia.
Qed.

(* ---------------------------------------------------------------- one client, one thread *)
Lemma G0 : forall g g' t th F c cl cl',
  Inv g -> nth_error (threads g) t = Some th -> threads g' = upd t F (threads g) ->
  hooks g' = hooks g ->
  get_client g c = Some cl -> clients g' = upd c (fun _ => cl') (clients g) ->
  misuse g' = false ->
  c_mu cl = None -> c_tgt cl' = c_tgt cl -> c_h cl' = c_h cl ->
  (c_released cl' = c_released cl \/ borrowed g c = false) ->
  (forall p n c0 cur, t_pc th <> FWalk p n c0 cur) ->
  (forall k c0 cur, t_pc th <> CWalk k c0 cur) ->
  (forall p n c0 cur, t_pc (F th) <> FWalk p n c0 cur) ->
  (forall p rh c0, t_pc (F th) <> FMark p rh c0) ->
  (forall k c0 cur, t_pc (F th) = CWalk k c0 cur ->
      c0 = c /\ c_h cl' = Some cur /\ c_mu cl' = Some t /\ (k = KRelease -> c_released cl' = true)) ->
  (forall t', c_mu cl' = Some t' -> t' = t /\ exists k cur, t_pc (F th) = CWalk k c cur) ->
  (c_released cl' = true -> c_mu cl' = None -> c_h cl' = None) ->
  (forall k c0 cur, t_pc (F th) = CWalk k c0 cur -> k <> KRelease -> c_released cl' = false) ->
  (forall h, wclose h (F th) = wclose h th /\ wcall h (F th) = wcall h th) ->
  Inv g'.
Proof.
  intros g g' t th F c cl cl' I Hth Ht Hh Hc Hcl Hm Hcmu Htgt Hch Hrel Hf1 Hc1 Hf2 Hfm2 Hc2 Hcm Hrl Hnrl Hw.
  assert (L : links_le g g') by (apply links_le_same_hooks; auto).
  assert (Htok : forall h, tokens g' h = tokens g h).
  { intros. eapply tokens_same_tgt; eauto. }
  assert (Hgh : forall h, get_hook g' h = get_hook g h) by (intros; unfold get_hook; rewrite Hh; auto).
  assert (Hgc : forall i, i <> c -> get_client g' i = get_client g i).
  { intros h Hne. rewrite (get_client_upd g g' c _ h Hcl). destruct (Nat.eqb c h) eqn:E; auto.
    apply Nat.eqb_eq in E. congruence. }
  assert (Hgcc : get_client g' c = Some cl').
  { rewrite (get_client_upd g g' c _ c Hcl), Nat.eqb_refl, Hc. auto. }
  destruct I as [I0 IH IC IF].
  constructor; auto.
  - apply (LH g g' t th F Hth Ht []).
    + exact IH.
    + rewrite Hh; auto.
    + intros h _. destruct (Hw h). auto.
    + intros h n c0 cur _ E. exfalso. exact (Hf1 _ _ _ _ E).
    + intros h hk' [].
    + intros h [].
  - apply (LC g g' t th F Hth Ht [c]).
    + exact IC.
    + intros k c0 cur E. exfalso. exact (Hc1 _ _ _ E).
    + intros i cli [<-|[]] A. assert (cli = cl) by congruence. subst. auto.
    + intros i cli A. destruct (Nat.eq_dec i c) as [->|Hne].
      * exists cl'. split; auto. intros Hn. exfalso. apply Hn. left; auto.
      * exists cli. rewrite Hgc; auto.
    + intros i cli A. destruct (Nat.eq_dec i c) as [->|Hne].
      * left. eauto.
      * left. exists cli. rewrite <- Hgc; auto.
    + intros i cli A. destruct (Nat.eq_dec i c) as [->|Hne].
      * assert (cli = cl') by congruence. subst. eapply client_ok_mono; eauto.
        pose proof (inv_client g IC _ _ Hc) as O. unfold client_ok in *. rewrite Hch, Htgt. auto.
      * rewrite Hgc in A; auto. eapply client_ok_mono; eauto. apply (inv_client g IC _ _ A).
    + intros k c0 cur E. destruct (Hc2 _ _ _ E) as (-> & A & B & C). exists cl'. auto.
    + intros i cli t' [<-|[]] A B. assert (cli = cl') by congruence. subst. auto.
    + intros i cli [<-|[]] A B C. assert (cli = cl') by congruence. subst. auto.
    + intros k c0 cur9 cli E A Hk. destruct (Hc2 _ _ _ E) as (-> & _). assert (cli = cl') by congruence. subst.
      eapply Hnrl; eauto.
  - apply (LF g g' t th F Hth Ht []).
    + exact IF.
    + exact L.
    + intros h _. auto.
    + intros h hk2 [].
    + intros ci rh Hb B. destruct B as (cb & B1 & B2 & B3).
      destruct (Nat.eq_dec ci c) as [->|Hne].
      * assert (cb = cl) by congruence. subst cb. exists cl'. split; auto. split.
        { destruct Hrel as [E|E]; congruence. }
        rewrite Htgt. destruct rh; auto. eapply tgt_ok_mono; eauto.
      * exists cb. rewrite Hgc; auto. repeat split; auto. destruct rh; auto. eapply tgt_ok_mono; eauto.
    + intros p n c0 cur E. exfalso. exact (Hf2 _ _ _ _ E).
    + intros p rh c0 E. exfalso. exact (Hfm2 _ _ _ E).
Qed.

(* ---------------------------------------------------------------- allocation (no thread moves) *)
Lemma upd_same : forall A (l : list A) n, upd n (fun x => x) l = l.
Proof. induction l as [|a l IH]; intros [|n]; simpl; auto. rewrite IH; auto. Qed.

Lemma upd_app_l : forall A (l r : list A) n f, (n < length l)%nat -> upd n f (l ++ r) = upd n f l ++ r.
Proof.
  induction l as [|a l IH]; intros r [|n] f H; simpl in *; try lia; auto.
  rewrite IH; auto. lia.
Qed.

Lemma tokens_app : forall g g' cl h, clients g' = clients g ++ [cl] -> tokens g' h = tokens g h + wtok h cl.
Proof. intros. unfold tokens. rewrite H, sumf_app. simpl. lia. Qed.

Lemma get_client_app : forall g g' cl i, clients g' = clients g ++ [cl] ->
  get_client g' i = if Nat.eqb i (length (clients g)) then Some cl else get_client g i.
Proof. intros. unfold get_client. rewrite H. apply nth_error_app_new. Qed.

Lemma wtok_new : forall h x, wtok h (new_client x) = if Nat.eqb x h then 1 else 0.
Proof. intros. unfold wtok, new_client. simpl. auto. Qed.

(* A new client referring to the live hook x, with x.refs incremented (AddRef, weak AddRef). *)
Lemma alloc_client : forall g gA x hk,
  Inv g -> get_hook g x = Some hk -> h_mu hk = None -> 1 <= h_refs hk ->
  hooks gA = upd x (fun _ => hk_refs (h_refs hk + 1) hk) (hooks g) ->
  clients gA = clients g ++ [new_client x] -> threads gA = threads g -> misuse gA = false ->
  Inv gA.
Proof.
  intros g gA x hk I Hx Hmu Hr Hh Hcl Ht Hm.
  set (hk' := hk_refs (h_refs hk + 1) hk) in *.
  assert (Hnf : forwarded x hk = false).
  { destruct (forwarded x hk) eqn:E; auto. destruct (inv_hook g (invH g I) x hk Hx) as [_ _ _ _ _ _ O7].
    specialize (O7 E). lia. }
  assert (L : links_le g gA).
  { eapply (links_le_upd g gA x hk hk' Hx Hh). intros. congruence. }
  assert (Hpc : forall t p, pc_of gA t p <-> pc_of g t p) by (intros; unfold pc_of; rewrite Ht; tauto).
  assert (Hclo : forall h, closers gA h = closers g h) by (intros; unfold closers; rewrite Ht; auto).
  assert (Hcal : forall h, callers gA h = callers g h) by (intros; unfold callers; rewrite Ht; auto).
  assert (Htok : forall h, tokens gA h = tokens g h + (if Nat.eqb x h then 1 else 0)).
  { intros. rewrite (tokens_app g gA _ h Hcl), wtok_new. auto. }
  assert (Hgh : forall h, h <> x -> get_hook gA h = get_hook g h).
  { intros h Hne. rewrite (get_hook_upd g gA x _ h Hh). destruct (Nat.eqb x h) eqn:E; auto.
    apply Nat.eqb_eq in E. congruence. }
  assert (Hghx : get_hook gA x = Some hk').
  { rewrite (get_hook_upd g gA x _ x Hh), Nat.eqb_refl, Hx. auto. }
  assert (Hgc : forall i, i <> length (clients g) -> get_client gA i = get_client g i).
  { intros. rewrite (get_client_app g gA _ i Hcl). destruct (Nat.eqb i (length (clients g))) eqn:E; auto.
    apply Nat.eqb_eq in E. congruence. }
  assert (Hgn : get_client gA (length (clients g)) = Some (new_client x)).
  { rewrite (get_client_app g gA _ _ Hcl), Nat.eqb_refl. auto. }
  assert (Hlt : forall i cl, get_client g i = Some cl -> i <> length (clients g)).
  { intros i cl A. apply nth_error_some_lt in A. lia. }
  assert (Hbo : forall c rh, borrow_ok g c rh -> borrow_ok gA c rh).
  { intros. eapply borrow_ok_frame; eauto. intros ci cl _ A. exists cl. rewrite Hgc; eauto. }
  destruct I as [I0 IH IC IF]. constructor; auto.
  - constructor.
    + intros h Hl. rewrite Hh, length_upd in Hl. rewrite Htok, Hclo, Hcal.
      destruct (inv_range g IH h Hl) as (A & B & C).
      assert (x <> h). { apply nth_error_some_lt in Hx. lia. }
      rewrite (proj2 (Nat.eqb_neq x h) H). lia.
    + intros h hk2 Hg2. destruct (Nat.eq_dec h x) as [->|Hne].
      * rewrite Hghx in Hg2. inversion Hg2; subst hk2; clear Hg2.
        destruct (inv_hook g IH x hk Hx) as [O1 O2 O3 O4 O5 O6 O7].
        constructor; unfold hk'; cbn [h_refs h_calls h_done h_shut h_mu hk_refs].
        -- intros _. rewrite Htok, Nat.eqb_refl, (O1 Hmu). lia.
        -- intros t'. rewrite Hmu. discriminate.
        -- rewrite Hcal. auto.
        -- rewrite O4. destruct (h_refs hk =? 0) eqn:E1; destruct (h_refs hk + 1 =? 0) eqn:E2; auto; lia.
        -- rewrite Hclo, O5. destruct (h_refs hk =? 0) eqn:E1; destruct (h_refs hk + 1 =? 0) eqn:E2; auto; lia.
        -- auto.
        -- unfold forwarded in *. cbn. rewrite Hnf. discriminate.
      * rewrite Hgh in Hg2; auto. destruct (inv_hook g IH h hk2 Hg2) as [O1 O2 O3 O4 O5 O6 O7].
        constructor; auto.
        -- intros A. rewrite Htok, (proj2 (Nat.eqb_neq x h)); auto. rewrite (O1 A). lia.
        -- intros t' A. destruct (O2 t' A) as (n & c & cur & P). exists n, c, cur. apply Hpc; auto.
        -- rewrite Hcal; auto.
        -- rewrite Hclo; auto.
  - constructor.
    + intros i cl A. destruct (Nat.eq_dec i (length (clients g))) as [->|Hne].
      * rewrite Hgn in A. inversion A; subst. unfold client_ok, new_client. simpl. constructor.
      * rewrite Hgc in A; auto. eapply client_ok_mono; eauto. apply (inv_client g IC _ _ A).
    + intros t k c cur P. apply Hpc in P. destruct (inv_cwalk g IC _ _ _ _ P) as (cl & A & B).
      exists cl. rewrite Hgc; eauto.
    + intros i cl t A B. destruct (Nat.eq_dec i (length (clients g))) as [->|Hne].
      * rewrite Hgn in A. inversion A; subst. discriminate.
      * rewrite Hgc in A; auto. destruct (inv_cmu g IC _ _ _ A B) as (k & cur & P).
        exists k, cur. apply Hpc; auto.
    + intros i cl A B C. destruct (Nat.eq_dec i (length (clients g))) as [->|Hne].
      * rewrite Hgn in A. inversion A; subst. discriminate.
      * rewrite Hgc in A; auto. apply (inv_rel g IC i cl A B C).
    + intros t k c cur cl P A Hk. apply Hpc in P.
      destruct (inv_cwalk g IC _ _ _ _ P) as (cl0 & A0 & _).
      assert (c <> length (clients g)) by (eapply Hlt; eauto).
      rewrite Hgc in A; auto. apply (inv_nrel g IC t k c cur cl P A Hk).
  - constructor.
    + intros t p n c cur P. apply Hpc in P.
      destruct (inv_flight g IF _ _ _ _ _ P) as (hp & A1 & A2 & A3 & A4 & A5 & A6 & A7 & A8).
      assert (p <> x) by (intros ->; congruence).
      exists hp. rewrite Hgh, Htok; auto. rewrite (proj2 (Nat.eqb_neq x p)); auto.
      repeat split; auto; try lia. eapply path1_mono; eauto.
    + intros t p rh c P. apply Hpc in P. apply Hbo. apply (inv_fmark g IF _ _ _ _ P).
Qed.

Lemma get_hook_app : forall g g' hk i, hooks g' = hooks g ++ [hk] ->
  get_hook g' i = if Nat.eqb i (length (hooks g)) then Some hk else get_hook g i.
Proof. intros. unfold get_hook. rewrite H. apply nth_error_app_new. Qed.

(* A new hook (NewClient / NewPromisedClient) with its first client. *)
Lemma alloc_hook : forall g gA res rh,
  Inv g ->
  let L := length (hooks g) in
  (res = false \/ rh = Some L) ->
  hooks gA = hooks g ++ [mkHook 1 0 res rh false 0 None] ->
  clients gA = clients g ++ [new_client L] -> threads gA = threads g -> misuse gA = false ->
  Inv gA.
Proof.
  intros g gA res rh I L Hnf0 Hh Hcl Ht Hm.
  set (hk' := mkHook 1 0 res rh false 0 None) in *.
  assert (Hnf : forwarded L hk' = false).
  { unfold forwarded, hk'. cbn. destruct Hnf0 as [->| ->]; auto. rewrite oeqb_refl. apply andb_false_r. }
  assert (Lk : links_le g gA).
  { intros a ha A B. exists ha. rewrite (get_hook_app g gA _ a Hh).
    destruct (Nat.eqb a (length (hooks g))) eqn:E; auto.
    apply Nat.eqb_eq in E. apply nth_error_some_lt in A. lia. }
  assert (Hpc : forall t p, pc_of gA t p <-> pc_of g t p) by (intros; unfold pc_of; rewrite Ht; tauto).
  assert (Hclo : forall h, closers gA h = closers g h) by (intros; unfold closers; rewrite Ht; auto).
  assert (Hcal : forall h, callers gA h = callers g h) by (intros; unfold callers; rewrite Ht; auto).
  assert (Htok : forall h, tokens gA h = tokens g h + (if Nat.eqb L h then 1 else 0)).
  { intros. rewrite (tokens_app g gA _ h Hcl), wtok_new. auto. }
  assert (Hgh : forall h, h <> L -> get_hook gA h = get_hook g h).
  { intros h Hne. rewrite (get_hook_app g gA _ h Hh). destruct (Nat.eqb h (length (hooks g))) eqn:E; auto.
    apply Nat.eqb_eq in E. unfold L in Hne. congruence. }
  assert (HghL : get_hook gA L = Some hk').
  { rewrite (get_hook_app g gA _ L Hh). unfold L. rewrite Nat.eqb_refl. auto. }
  assert (Hgc : forall i, i <> length (clients g) -> get_client gA i = get_client g i).
  { intros. rewrite (get_client_app g gA _ i Hcl). destruct (Nat.eqb i (length (clients g))) eqn:E; auto.
    apply Nat.eqb_eq in E. congruence. }
  assert (Hgn : get_client gA (length (clients g)) = Some (new_client L)).
  { rewrite (get_client_app g gA _ _ Hcl), Nat.eqb_refl. auto. }
  assert (Hlt : forall i cl, get_client g i = Some cl -> i <> length (clients g)).
  { intros i cl A. apply nth_error_some_lt in A. lia. }
  assert (Hbo : forall c rh, borrow_ok g c rh -> borrow_ok gA c rh).
  { intros. eapply borrow_ok_frame; eauto. intros ci cl _ A. exists cl. rewrite Hgc; eauto. }
  destruct I as [I0 IH IC IF].
  destruct (inv_range g IH L (le_n _)) as (RT & RC & RK).
  constructor; auto.
  - constructor.
    + intros h Hl. rewrite Hh, app_length in Hl. simpl in Hl. rewrite Htok, Hclo, Hcal.
      assert (Hl' : (length (hooks g) <= h)%nat) by lia.
      destruct (inv_range g IH h Hl') as (A & B & C).
      assert (L <> h) by (unfold L; lia).
      rewrite (proj2 (Nat.eqb_neq L h) H). lia.
    + intros h hk2 Hg2. destruct (Nat.eq_dec h L) as [->|Hne].
      * rewrite HghL in Hg2. inversion Hg2; subst hk2; clear Hg2.
        constructor; unfold hk'; cbn [h_refs h_calls h_done h_shut h_mu].
        -- intros _. rewrite Htok, Nat.eqb_refl, RT. lia.
        -- discriminate.
        -- rewrite Hcal. auto.
        -- reflexivity.
        -- rewrite Hclo, RC. reflexivity.
        -- lia.
        -- fold hk'. rewrite Hnf. discriminate.
      * rewrite Hgh in Hg2; auto. destruct (inv_hook g IH h hk2 Hg2) as [O1 O2 O3 O4 O5 O6 O7].
        constructor; auto.
        -- intros A. rewrite Htok, (proj2 (Nat.eqb_neq L h)); auto. rewrite (O1 A). lia.
        -- intros t' A. destruct (O2 t' A) as (n & c & cur & P). exists n, c, cur. apply Hpc; auto.
        -- rewrite Hcal; auto.
        -- rewrite Hclo; auto.
  - constructor.
    + intros i cl A. destruct (Nat.eq_dec i (length (clients g))) as [->|Hne].
      * rewrite Hgn in A. inversion A; subst. unfold client_ok, new_client. simpl. constructor.
      * rewrite Hgc in A; auto. eapply client_ok_mono; eauto. apply (inv_client g IC _ _ A).
    + intros t k c cur P. apply Hpc in P. destruct (inv_cwalk g IC _ _ _ _ P) as (cl & A & B).
      exists cl. rewrite Hgc; eauto.
    + intros i cl t A B. destruct (Nat.eq_dec i (length (clients g))) as [->|Hne].
      * rewrite Hgn in A. inversion A; subst. discriminate.
      * rewrite Hgc in A; auto. destruct (inv_cmu g IC _ _ _ A B) as (k & cur & P).
        exists k, cur. apply Hpc; auto.
    + intros i cl A B C. destruct (Nat.eq_dec i (length (clients g))) as [->|Hne].
      * rewrite Hgn in A. inversion A; subst. discriminate.
      * rewrite Hgc in A; auto. apply (inv_rel g IC i cl A B C).
    + intros t k c cur cl P A Hk. apply Hpc in P.
      destruct (inv_cwalk g IC _ _ _ _ P) as (cl0 & A0 & _).
      assert (c <> length (clients g)) by (eapply Hlt; eauto).
      rewrite Hgc in A; auto. apply (inv_nrel g IC t k c cur cl P A Hk).
  - constructor.
    + intros t p n c cur P. apply Hpc in P.
      destruct (inv_flight g IF _ _ _ _ _ P) as (hp & A1 & A2 & A3 & A4 & A5 & A6 & A7 & A8).
      assert (p <> L). { apply nth_error_some_lt in A1. unfold L. lia. }
      exists hp. rewrite Hgh, Htok; auto. rewrite (proj2 (Nat.eqb_neq L p)); auto.
      repeat split; auto; try lia. eapply path1_mono; eauto.
    + intros t p rh0 c P. apply Hpc in P. apply Hbo. apply (inv_fmark g IF _ _ _ _ P).
Qed.

(* ---------------------------------------------------------------- retarget *)
Definition rt1 (p : nat) (q : option nat) (c : client) : client :=
  if oeqb (c_tgt c) (Some p) then cl_tgt q c else c.

Lemma retarget_clients : forall p q g, clients (retarget p q g) = map (rt1 p q) (clients g).
Proof. reflexivity. Qed.

Lemma sumf_plus : forall A (f k : A -> Z) l, sumf (fun x => f x + k x) l = sumf f l + sumf k l.
Proof. induction l; simpl; auto. rewrite IHl. lia. Qed.

Lemma wtok_rt1 : forall p q h c, q <> Some p ->
  wtok h (rt1 p q c) =
  if Nat.eqb h p then 0 else wtok h c + (if oeqb q (Some h) then wtok p c else 0).
Proof.
  intros p q h c Hq. unfold rt1, wtok.
  destruct (oeqb (c_tgt c) (Some p)) eqn:E1.
  - apply oeqb_true in E1. cbn [c_tgt cl_tgt]. rewrite E1.
    destruct (Nat.eqb h p) eqn:E2.
    + apply Nat.eqb_eq in E2; subst h. apply oeqb_false in Hq. rewrite Hq. auto.
    + assert (oeqb (Some p) (Some h) = false).
      { simpl. rewrite Nat.eqb_sym. auto. }
      rewrite H. destruct (oeqb q (Some h)); lia.
  - destruct (Nat.eqb h p) eqn:E2.
    + apply Nat.eqb_eq in E2; subst h. rewrite E1. auto.
    + destruct (oeqb q (Some h)); lia.
Qed.

Lemma tokens_retarget : forall g g' p q h, clients g' = map (rt1 p q) (clients g) -> q <> Some p ->
  tokens g' h = if Nat.eqb h p then 0 else tokens g h + (if oeqb q (Some h) then tokens g p else 0).
Proof.
  intros g g' p q h Hcl Hq. unfold tokens. rewrite Hcl, sumf_map.
  rewrite (sumf_ext _ _ (fun c => if Nat.eqb h p then 0 else wtok h c + (if oeqb q (Some h) then wtok p c else 0))).
  2: { intros. apply wtok_rt1; auto. }
  destruct (Nat.eqb h p).
  - apply sumf_all_zero. auto.
  - rewrite sumf_plus. destruct (oeqb q (Some h)); auto.
    rewrite (sumf_all_zero _ (fun _ => 0)); auto.
Qed.

Lemma get_client_map : forall g g' f i, clients g' = map f (clients g) ->
  get_client g' i = option_map f (get_client g i).
Proof. intros. unfold get_client. rewrite H. apply nth_error_map. Qed.

Lemma rt1_fields : forall p q c, c_h (rt1 p q c) = c_h c /\ c_mu (rt1 p q c) = c_mu c /\
  c_released (rt1 p q c) = c_released c.
Proof. intros. unfold rt1. destruct (oeqb _ _); auto. Qed.

Lemma rt1_tgt : forall p q c, c_tgt (rt1 p q c) = if oeqb (c_tgt c) (Some p) then q else c_tgt c.
Proof. intros. unfold rt1. destruct (oeqb _ _); auto. Qed.

(* tgt_ok survives retargeting when everything that reached p reaches the new target *)
Lemma tgt_ok_retarget : forall g g' p q T x, links_le g g' ->
  (forall y, reach g' y p -> tgt_ok g' q y) ->
  tgt_ok g T x -> tgt_ok g' (if oeqb T (Some p) then q else T) x.
Proof.
  intros g g' p q T x L Hq H. destruct (oeqb T (Some p)) eqn:E.
  - apply oeqb_true in E; subst T. simpl in H. apply Hq. eapply reach_mono; eauto.
  - eapply tgt_ok_mono; eauto.
Qed.

Lemma client_ok_retarget : forall g g' p q cl, links_le g g' ->
  (forall y, reach g' y p -> tgt_ok g' q y) ->
  client_ok g cl -> client_ok g' (rt1 p q cl).
Proof.
  intros g g' p q cl L Hq H. unfold client_ok in *. destruct (rt1_fields p q cl) as (E1 & _).
  rewrite E1, rt1_tgt. destruct (c_h cl) as [x|].
  - apply (tgt_ok_retarget g g' p q _ x L Hq H).
  - rewrite H. simpl. auto.
Qed.

Lemma borrow_ok_retarget : forall g g' p q ci rh, links_le g g' ->
  clients g' = map (rt1 p q) (clients g) ->
  (forall y, reach g' y p -> tgt_ok g' q y) ->
  borrow_ok g (Some ci) rh -> borrow_ok g' (Some ci) rh.
Proof.
  intros g g' p q ci rh L Hcl Hq (cl & B1 & B2 & B3).
  exists (rt1 p q cl). rewrite (get_client_map g g' _ ci Hcl), B1. simpl.
  destruct (rt1_fields p q cl) as (_ & _ & E3). rewrite E3, rt1_tgt. repeat split; auto.
  destruct rh as [y|].
  - apply (tgt_ok_retarget g g' p q _ y L Hq B3).
  - rewrite B3. simpl. auto.
Qed.

Lemma fmark_body_misuse : forall fixed t p rh c hk g,
  misuse g = true -> misuse (fmark_body fixed t p rh c hk g) = true.
Proof.
  intros. unfold fmark_body.
  repeat match goal with |- context[match ?x with _ => _ end] => destruct x end; cbn; auto.
Qed.
